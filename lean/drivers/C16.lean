import SleapVerif.Model.Proto
import SleapVerif.Model.Oks
import SleapVerif.Model.Eval
/-! Driver for C16.

`eval <thr> <eps> <matchThr:list rat> <recThr:list rat> <pckThr:list rat> <nNodes>
      <frames: list (hasPr:bool, gts:list pts, prs:list (score:rat, pts), n_gt*n_pr orat…)>`

→ `P <k> (f g p oks)… | F <k> (f g)… | V none` or
  `V ms… ; recalls… ; AP… ; mAP ; mAR ; precisions(flat)… ; margins(per match thr; -1 = no finite)…`
  `| M <mOKS> | S tp fp tn fn prec rec | D <dists flat (float bits|nan)> ; avg ; parts… ; mPCK ; pckbits ; margin ; p50 p75 p90 p95 p99 ; pckAt per pixel threshold`

The matching / VOC / mOKS / visibility part runs at `Rat` (exact), distances and PCK at `Float`.
`recall <t> <npig> <ms:list rat>` → `recallAt` at Rat.
`pairs <user_labels_only> <gt videos: list (kind filename dataset|nan)> <pr videos>
       <gt frames: list (video frame_idx <is_user flag per instance>)> <pr frames: list (video frame_idx)>`
   → `ok <k> (gt frame pos, pr frame pos, n, positions of the n enumerated gt instances)…` (`find_frame_pairs`).
-/
open SleapVerif SleapVerif.Proto SleapVerif.Oks SleapVerif.Eval

def pt : P (Pt Rat) := do let x ← orat; let y ← orat; pure (x, y)
def pts : P (List (Pt Rat)) := listOf pt
def toF (q : Rat) : Float := ratToFloat q
def ptF (p : Pt Rat) : Pt Float := (p.1.map toF, p.2.map toF)
def ofloatStr : Option Float → String
  | none => "nan"
  | some f => floatStr f

structure FrameIn where
  hasPr : Bool
  gts : List (List (Pt Rat))
  prs : List (Rat × List (Pt Rat))
  mat : List (List (Option Rat))

def frameP : P FrameIn := do
  let h ← bool
  let gts ← listOf pts
  let prs ← listOf (do let s ← rat; let p ← pts; pure (s, p))
  let flat ← rep (gts.length * prs.length) orat
  let m := prs.length
  pure { hasPr := h, gts := gts, prs := prs,
         mat := (List.range gts.length).map (fun i => (flat.drop (i * m)).take m) }

abbrev Id2 := Nat × Nat

def absR (q : Rat) : Rat := if q < 0 then -q else q

/-- smallest non-zero `|rc_i - r|` (`-1` when every comparison is an exact tie or there is none) -/
def margin (rc recThr : List Rat) : Rat :=
  let ds := (rc.flatMap (fun x => recThr.map (fun r => absR (x - r)))).filter (fun d => decide (0 < d))
  match ds with
  | [] => -1
  | d :: t => t.foldl (fun a b => if b < a then b else a) d

def handle (line : String) : String :=
  match tokens line with
  | "eval" :: rest =>
    match runP (do
        let thr ← rat; let eps ← rat
        let mT ← listOf rat; let rT ← listOf rat; let pT ← listOf rat; let nn ← nat
        let frames ← listOf frameP
        pure (thr, eps, mT, rT, pT, nn, frames)) rest with
    | some (thr, eps, mT, rT, pT, nn, frames) =>
      let fr : List (Nat × FrameIn) := frames.zipIdx.map (fun (f, i) => (i, f))
      let oks : Id2 → Id2 → Option Rat := fun g p =>
        if g.1 = p.1 then
          match frames[g.1]? with
          | some f => lookup f.mat g.2 p.2
          | none => none
        else none
      let score : Id2 → Rat := fun p =>
        match frames[p.1]? with
        | some f => (f.prs.getD p.2 (0, [])).1
        | none => 0
      let mframes : List (Frame Id2 Id2) := fr.map (fun (i, f) =>
        { gts := (List.range f.gts.length).map (fun k => (i, k)),
          prs := if f.hasPr then some ((List.range f.prs.length).map (fun k => (i, k))) else none })
      let r := processFrames oks score thr mframes
      let pairsStr := s!"P {r.1.length} " ++ " ".intercalate
        (r.1.map (fun (g, p, v) => s!"{g.1} {g.2} {p.2} {ratStr v}"))
      let fnStr := s!"F {r.2.length} " ++ " ".intercalate (r.2.map (fun g => s!"{g.1} {g.2}"))
      let vpairs : List (Rat × Rat) := r.1.map (fun (_, p, v) => (v, score p))
      let cast : Nat → Rat := fun n => (n : Rat)
      let vocStr := match vocMetrics cast eps vpairs r.2.length mT rT with
        | none => "V none"
        | some v =>
          let npig := vpairs.length + r.2.length
          let margins := mT.map (fun t =>
            margin (rcList cast npig (cums 0 0 (flags t v.matchScores))) rT)
          "V " ++ ratsStr v.matchScores ++ " ; " ++ ratsStr v.recalls ++ " ; " ++ ratsStr v.AP ++ " ; "
            ++ ratStr v.mAP ++ " ; " ++ ratStr v.mAR ++ " ; " ++ ratsStr v.precisions.flatten ++ " ; "
            ++ ratsStr margins
      let moksStr := "M " ++ oratStr (mOKS cast vpairs)
      let ptsOf (g : Id2) : List (Pt Rat) := match frames[g.1]? with
        | some f => f.gts.getD g.2 [] | none => []
      let ptsOfP (p : Id2) : List (Pt Rat) := match frames[p.1]? with
        | some f => (f.prs.getD p.2 (0, [])).2 | none => []
      let pp := r.1.map (fun (g, p, _) => (ptsOf g, ptsOfP p))
      let (vtp, vfp, vtn, vfn) := visCounts pp
      let visStr := s!"S {vtp} {vfp} {vtn} {vfn} {oratStr (ratio cast vtp vfp)} {oratStr (ratio cast vtp vfn)}"
      -- float part
      let castF : Nat → Float := Float.ofNat
      let d : List (List (Option Float)) := pp.map (fun (g, p) => distRow Float.sqrt (g.map ptF) (p.map ptF))
      let pTF := pT.map toF
      let bits := d.flatMap (fun row => row.flatMap (fun x => pTF.map (fun t => if within t x then "1" else "0")))
      let mg := (d.flatten.filterMap id).flatMap (fun x => pTF.map (fun t => Float.abs (x - t)))
      let mgMin := mg.foldl (fun a b => if b < a then b else a) 1e300
      let dStr := "D " ++ " ".intercalate (d.flatten.map ofloatStr) ++ " ; " ++ ofloatStr (avgDist castF d)
        ++ " ; " ++ " ".intercalate ((mPCKparts castF pTF d nn).map floatStr) ++ " ; "
        ++ ofloatStr (mPCK castF pTF d nn) ++ " ; " ++ "".intercalate bits ++ " ; " ++ floatStr mgMin
        ++ " ; " ++ " ".intercalate ([50, 75, 90, 95, 99].map (fun p =>
              ofloatStr (percentile castF p (d.flatten.filterMap id))))
        ++ " ; " ++ " ".intercalate (pTF.map (fun t => floatStr (pckAt castF t d.flatten)))
      " | ".intercalate [pairsStr, fnStr, vocStr, moksStr, visStr, dStr]
    | none => "bad-op"
  | "pairs" :: rest =>
    match runP (do
        let vk : P VideoKey := do
          let k ← nat; let f ← nat; let d ← orat
          pure { kind := k, filename := f, dataset := d.map (fun q => q.num.toNat) }
        let userOnly ← bool
        let gv ← listOf vk; let pv ← listOf vk
        let gf ← listOf (do let v ← nat; let i ← nat; let fl ← listOf bool; pure (v, i, fl))
        let pf ← listOf (do let v ← nat; let i ← nat; pure (v, i))
        pure (userOnly, gv, pv, gf, pf)) rest with
    | some (userOnly, gv, pv, gf, pf) =>
      -- gt instance `j` of frame `k` is the number `k*1000 + j`; `isUser` reads the recorded flags
      let flags : List (List Bool) := gf.map (fun (_, _, fl) => fl)
      let isUser : Nat → Bool := fun g => ((flags.getD (g / 1000) []).getD (g % 1000) false)
      let gt : Labels Nat := { videos := gv, frames := gf.zipIdx.map (fun ((v, i, fl), k) =>
        { video := v, frameIdx := i, insts := (List.range fl.length).map (fun j => k * 1000 + j) }) }
      let pr : Labels Nat := { videos := pv, frames := pf.zipIdx.map (fun ((v, i), k) =>
        { video := v, frameIdx := i, insts := [k] }) }
      let ps := evaluatorPairs userOnly isUser gt pr
      -- the gt frame position is recovered from (video, frame_idx); instance positions from the tags
      let gpos (a : LFrame Nat) : Nat := (gf.zipIdx.find? (fun ((v, i, _), _) => v == a.video && i == a.frameIdx)).map (·.2) |>.getD 0
      s!"ok {ps.length} " ++ " ".intercalate (ps.map (fun (a, b) =>
        s!"{gpos a} {b.insts.headD 0} {a.insts.length} " ++ " ".intercalate (a.insts.map (fun g => toString (g % 1000)))))
    | none => "bad-op"
  | "recall" :: rest =>
    match runP (do let t ← rat; let n ← nat; let ms ← listOf rat; pure (t, n, ms)) rest with
    | some (t, n, ms) => ratStr (recallAt (fun k => (k : Rat)) t ms n)
    | none => "bad-op"
  | _ => "bad-op"

def main : IO Unit := mainLoop' handle
