import SleapVerif.Model.Proto
import SleapVerif.Model.Pipelines
/-!
Driver for C18 (runs the model at `R := Rat`).

`sample <fw> <mt> <isRgb> <maxH> <maxW> <cfgMaxH|-1> <cfgMaxW|-1> <scale> <maxStride> <cropH> <cropW>
        <anchor|-1> <maxInst> <chunkMaxInst|-1> <alias> <user_instances_only> <cmSigma> <cmStride> <pafSigma> <pafStride> <edges: n (u v)*>
        <h> <w> <c> <k> <labelled: n (is_predicted m (x y)*)*>`   (the raw labelled frame, file order)
  → `ok img=<sexpr>;shape=c h w;n=<num>;rank=<r>;inst=<ll>;cen=<l>;bbox=<l>;eff=<q> <q>;tgt=<targets>`
`count <fw> <mt> <user_instances_only> <labelled>` → `ok <n>` | `raise` (samples a framework yields for one labelled frame).
`dp <block> …` → the block model's output in the same vocabulary; `dp defaults` → the table.
-/
open SleapVerif SleapVerif.Proto SleapVerif.Pipelines

def ptStr : Pt Rat → String
  | some (x, y) => s!"{ratStr x} {ratStr y}"
  | none => "nan nan"
def ptsStr (l : List (Pt Rat)) : String := " ".intercalate (toString l.length :: l.map ptStr)
def instsStr (l : List (Inst Rat)) : String := " ".intercalate (toString l.length :: l.map ptsStr)

/-- term with every size spelled out, so that the interpreter needs no arithmetic of its own -/
def imgStr (raw : Nat × Nat × Nat) : Img Rat → String
  | .raw => "raw"
  | .norm i => s!"(norm {imgStr raw i})"
  | .gray i => s!"(gray {imgStr raw i})"
  | .rgb i => s!"(rgb {imgStr raw i})"
  | .sizematch mh mw i =>
    let sh := shape numRat raw i
    let p := (sizematchPlan numRat sh.2.1 sh.2.2 mh mw).1
    s!"(sizematch {mh} {mw} {p.1} {p.2} {imgStr raw i})"
  | .resize s i =>
    let sh := shape numRat raw (.resize s i)
    s!"(resize {sh.2.1} {sh.2.2} {imgStr raw i})"
  | .padStride m i =>
    let sh := shape numRat raw i
    s!"(pad {padFor sh.2.1 m} {padFor sh.2.2 m} {imgStr raw i})"
  | .crop c h w i =>
    let box := match c with
      | some c => match bboxOf numRat c h w with
        | [tl, _, br, _] => s!"{ratStr tl.1} {ratStr tl.2} {ratStr br.1} {ratStr br.2}"
        | _ => "nan nan nan nan"
      | none => "nan nan nan nan"
    s!"(crop {box} {h} {w} {imgStr raw i})"
  | .quant8 i => s!"(quant8 {imgStr raw i})"

def edgesStr (l : List (Nat × Nat)) : String :=
  " ".intercalate (toString l.length :: l.map fun e => s!"{e.1} {e.2}")

def targetStr : Target Rat → String
  | .confmaps pts h w sg st => s!"confmaps {h} {w} {ratStr sg} {st} {ptsStr pts}"
  | .multiConfmaps an h w sg st => s!"multi {h} {w} {ratStr sg} {st} {instsStr an}"
  | .pafs an h w sg st ed => s!"pafs {h} {w} {ratStr sg} {st} {edgesStr ed} {instsStr an}"
def targetsStr (l : List (Target Rat)) : String := " , ".intercalate (l.map targetStr)

def onat : P (Option Nat) := do let i ← int; pure (if i < 0 then none else some i.toNat)
def pt : P (Pt Rat) := do
  let x ← orat; let y ← orat
  pure (match x, y with | some a, some b => some (a, b) | _, _ => none)
def insts : P (List (Inst Rat)) := listOf (listOf pt)
def labelled : P (Labelled Rat) := listOf (do let p ← bool; let i ← listOf pt; pure (p, i))
def edges : P (List (Nat × Nat)) := listOf (do let u ← nat; let v ← nat; pure (u, v))

def mtOf : String → Option MT
  | "single" => some .single | "centroid" => some .centroid
  | "centered" => some .centered | "bottomup" => some .bottomup | _ => none
def fwOf : String → Option FW
  | "mem" => some .mem | "np" => some .np | "stream" => some .stream | _ => none

def shStr (s : Nat × Nat × Nat) : String := s!"{s.1} {s.2.1} {s.2.2}"

def sampleLine : P String := do
  let fw ← tok; let mt ← tok
  let isRgb ← bool; let maxH ← nat; let maxW ← nat; let cH ← onat; let cW ← onat
  let scale ← rat; let ms ← nat; let cropH ← nat; let cropW ← nat; let anchor ← onat
  let maxInst ← nat; let cmi ← onat; let alias ← bool; let uio ← bool
  let cmS ← rat; let cmSt ← nat; let pS ← rat; let pSt ← nat; let ed ← edges
  let h ← nat; let w ← nat; let c ← nat; let k ← nat; let ll ← labelled
  match fwOf fw, mtOf mt with
  | some fw, some mt =>
    let cfg : Cfg Rat := { mt, isRgb, maxH, maxW, cfgMaxH := cH, cfgMaxW := cW, scale, maxStride := ms,
                           cropH, cropW, anchor, maxInstances := maxInst, chunkMaxInst := cmi, aliasing := alias }
    let fr : Frame Rat := ({ h, w, c, labelled := ll } : RawFrame Rat).seenBy fw mt uio
    let hd : Heads Rat := { cmSigma := cmS, cmStride := cmSt, pafSigma := pS, pafStride := pSt, edges := ed }
    let s := sampleOf numRat fw cfg fr k
    let raw := (c, h, w)
    let e1 := effScale numRat fr cfg.maxH cfg.maxW
    let e2 := effScale numRat fr (chunkMaxH cfg) (chunkMaxW cfg)
    pure (s!"ok img={imgStr raw s.img};shape={shStr (shape numRat raw s.img)};n={s.numInstances};" ++
          s!"rank={s.rank};inst={instsStr s.instances};cen={ptsStr s.centroids};bbox={ptsStr s.bbox};" ++
          s!"eff={ratStr e1} {ratStr e2};tgt={targetsStr (targetsOf numRat raw mt hd s)}")
  | _, _ => failure

def cropStr (raw : Nat × Nat × Nat) (c : Crop Rat) : String :=
  s!"img={imgStr raw c.img};bbox={ptsStr c.bbox};inst={ptsStr c.inst};cen={ptStr c.cen}"

def dpLine : P String := do
  let b ← tok
  match b with
  | "normalizer" =>
    let isRgb ← bool; let h ← nat; let w ← nat; let c ← nat
    pure s!"ok img={imgStr (c, h, w) (dpNormalizer isRgb (.raw : Img Rat))}"
  | "resizer" =>
    let s ← rat; let h ← nat; let w ← nat; let c ← nat; let ii ← insts
    let r := dpResizer s ((.norm .raw : Img Rat), ii)
    pure s!"ok img={imgStr (c, h, w) r.1};inst={instsStr r.2}"
  | "sizematcher" =>
    let h ← nat; let w ← nat; let mh ← nat; let mw ← nat
    let show_ (p : SizePlan Rat) : String := match p with
      | some ((th, tw), e) => s!"{th} {tw} {ratStr e}"
      | none => "raise"
    pure s!"ok block={show_ (dpSizeMatcher h w mh mw)};fn={show_ (fnSizeMatch numRat h w mh mw)}"
  | "pad" =>
    let m ← nat; let h ← nat; let w ← nat; let c ← nat
    pure s!"ok img={imgStr (c, h, w) (dpPadToStride m (.norm .raw : Img Rat))}"
  | "centroid" =>
    let alias ← bool; let a ← onat; let ii ← insts
    let r := dpCentroidFinder alias a ii
    pure s!"ok cen={ptsStr r.1};inst={instsStr r.2}"
  | "cropper" =>
    let ch ← nat; let cw ← nat; let h ← nat; let w ← nat; let c ← nat; let num ← nat
    let ii ← insts; let cc ← listOf pt
    let r := dpInstanceCropper numRat ch cw (.norm .raw : Img Rat) ii cc num
    pure ("ok " ++ " | ".intercalate (r.map (cropStr (c, h, w))))
  | "confmaps" =>
    let key ← bool; let rank ← nat; let h ← nat; let w ← nat; let sg ← rat; let st ← nat; let ii ← insts
    let k : Kps Rat := if rank = 3 then .rank3 (ii.headD []) else .rank4 ii
    pure (match dpConfmapGen key k h w sg st with
      | some t => s!"ok tgt={targetStr t}"
      | none => "raise")
  | "multi" =>
    let cen ← bool; let num ← nat; let h ← nat; let w ← nat; let sg ← rat; let st ← nat
    let ii ← insts; let cc ← listOf pt
    pure s!"ok tgt={targetStr (dpMultiConfmapGen cen ii cc num h w sg st)}"
  | "pafs" =>
    let h ← nat; let w ← nat; let sg ← rat; let st ← nat; let ed ← edges; let ii ← insts
    pure s!"ok tgt={targetStr (dpPafGen ii h w sg st ed)}"
  | "defaults" =>
    let o (x : Option String) := x.getD "-"
    pure ("ok " ++ " | ".intercalate (defaultsTable.map fun d =>
      d.name ++ " " ++ " ".intercalate (d.params.map fun p => s!"{p.1}={o p.2.1}/{o p.2.2}")))
  | _ => failure

def countLine : P String := do
  let fw ← tok; let mt ← tok; let uio ← bool; let ll ← labelled
  match fwOf fw, mtOf mt with
  | some fw, some mt =>
    pure (match sampleCount fw mt (({ h := 0, w := 0, c := 0, labelled := ll } : RawFrame Rat).seenBy fw mt uio) with
      | some n => s!"ok {n}"
      | none => "raise")
  | _, _ => failure

def handle (line : String) : String :=
  match tokens line with
  | "sample" :: rest => (runP sampleLine rest).getD "bad-op"
  | "dp" :: rest => (runP dpLine rest).getD "bad-op"
  | "count" :: rest => (runP countLine rest).getD "bad-op"
  | _ => "bad-op"

def main : IO Unit := mainLoop' handle
