import SleapVerif.Model.Proto
import SleapVerif.Model.Reader
/-! Driver for C13.

`run <cap> <B> <start> <stop> <fail|nan> <n> (fidx vidx h w)×n <sched>`
   payload of position `i` is the `i`-th quadruple (default `(i,0,0,0)`); `<sched>` is a string
   over {P,C} (`-` = empty), used cyclically, a blocked thread cedes to the other one.
   → `steps | batches | sentinels | final | effective schedule`
`enum <cap> <B> <start> <stop> <fail|nan>` → all maximal effective schedules, space separated.
-/
open SleapVerif SleapVerif.Proto SleapVerif.Reader

def payStr (x : Payload) : String := s!"{x.videoIdx}.{x.frameIdx}.{x.height}.{x.width}"

def fidxs (b : List Payload) : String := ",".intercalate (b.map (fun x => toString x.frameIdx))

def enStr (P : Params) (s : St) : String :=
  (if (stepP P s).isSome then "P" else "") ++ (if (stepC P s).isSome then "C" else "")

/-- label of the operation `who` performs in state `s`; `s'` is the state after it -/
def opStr (P : Params) (who : Bool) (s s' : St) : String :=
  if who then
    match s.p with
    | .reading i =>
        let x := P.pay i
        (if P.fail = some i then "readX." else "read.") ++ s!"{x.videoIdx}.{x.frameIdx}"
    | .putting _ x => "put." ++ payStr x
    | .putSent => "putS"
    | .done => "?"
  else
    match s.c with
    | .getting =>
        let g := match s.q with
          | .frame x :: _ => "get." ++ payStr x
          | .sentinel :: _ => "getS"
          | [] => "?"
        -- the batch processed right after this get (local to the consumer thread)
        if s'.out.length > s.out.length then
          g ++ "+proc." ++ fidxs (s'.out.getLast?.getD []) else g
    | .joining => "join"
    | .finished => "?"

def stepsStr (P : Params) (tr : List (Bool × St)) (last : St) : List String :=
  match tr with
  | [] => []
  | [(w, s)] => [s!"{enStr P s}:{if w then "P" else "C"}:{opStr P w s last}"]
  | (w, s) :: (w', s') :: r =>
      s!"{enStr P s}:{if w then "P" else "C"}:{opStr P w s s'}" :: stepsStr P ((w', s') :: r) last

def ppcStr : PPc → String
  | .reading i => s!"reading{i}"
  | .putting i _ => s!"putting{i}"
  | .putSent => "putSent"
  | .done => "done"

def cpcStr : CPc → String
  | .getting => "getting"
  | .joining => "joining"
  | .finished => "finished"

def schedParse (t : String) : Option (List Bool) :=
  if t = "-" then some [] else
  t.toList.mapM (fun c => if c = 'P' then some true else if c = 'C' then some false else none)

def schedStr (l : List Bool) : String := String.ofList (l.map (fun b => if b then 'P' else 'C'))

def paramsP : P (Nat × Nat × Nat × Nat × Option Nat) := do
  let cap ← nat; let b ← nat; let st ← nat; let en ← nat
  let f ← tok
  let fail ← if f = "nan" then pure none else match parseNat? f with
    | some k => pure (some k)
    | none => failure
  pure (cap, b, st, en, fail)

def mkParams (h : Nat × Nat × Nat × Nat × Option Nat) (pays : List Payload) : Params :=
  let (cap, b, st, en, fail) := h
  ⟨cap, b, st, en, fail, fun i => pays.getD i ⟨i, 0, 0, 0⟩⟩

def handle (line : String) : String :=
  match tokens line with
  | "run" :: rest =>
    let p : P (Params × List Bool) := do
      let h ← paramsP
      let pays ← listOf (do
        let f ← nat; let v ← nat; let hh ← nat; let w ← nat; pure (⟨f, v, hh, w⟩ : Payload))
      let s ← tok
      match schedParse s with
      | some l => pure (mkParams h pays, l)
      | none => failure
    match runP p rest with
    | some (P, sched) =>
      let (tr, last) := run P (schedOf sched) 0 (mu P (init P)) (init P)
      let steps := " ".intercalate (stepsStr P tr last)
      let batches := ";".intercalate (last.out.map (fun b => ",".intercalate (b.map payStr)))
      let nsent := last.taken.count Item.sentinel
      let eff := schedStr (tr.map (·.1))
      s!"{steps} | {batches} | sent={nsent} pending={fidxs last.batch} | p={ppcStr last.p} c={cpcStr last.c} q={last.q.length} final={decide (isFinal last)} | {eff}"
    | none => "bad-op"
  | "enum" :: rest =>
    match runP paramsP rest with
    | some h =>
      let P := mkParams h []
      " ".intercalate ((allRuns P (mu P (init P)) (init P)).map schedStr)
    | none => "bad-op"
  | _ => "bad-op"

def main : IO Unit := mainLoop' handle
