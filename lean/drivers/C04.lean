import SleapVerif.Model.Proto
import SleapVerif.Model.Geometry
import SleapVerif.Gen.TranslatedGeometry
/-! Driver for C04 (all numbers exact: `Nat`/`Int`/`Rat`).

* `pad h w s`                      → `ok ph pw gph gpw oh ow` (hand model, generated, padded size)
* `sm h w mh mw` (0 = None)        → `ok th tw effN effD applied outH outW m1n m1d m2n m2d`
* `rs n sn sd`                     → `ok n'`
* `oc c`                           → `ok ⌊c√2⌋`
* `bbox cx cy bh bw`               → `ok x1 y1 x2 y2 x3 y3 x4 y4`
* `cropsize pad stride minCrop scaling <ninst> (<npts> (x y)*)*`  (minCrop −1 = None, `nan` ok)
                                   → `ok size`
* `chain h w <nops> op* <npts> (x y)*` with ops `sm mh mw | rs sn sd | pad s | crop cx cy bh bw |
  recrop bh bw | aug a b c d e f | auga a b c d e f | int`
      → `ok H W <nsizes> (h w)* <npts> (contentx contenty kpx kpy)* cx cy`  (sizes oldest first)
-/
open SleapVerif SleapVerif.Proto SleapVerif.Geometry

def optNat (n : Nat) : Option Nat := if n = 0 then none else some n

def pOp : P (Op Rat) := do
  let t ← tok
  match t with
  | "sm" => do let a ← nat; let b ← nat; pure (.sizematch (optNat a) (optNat b))
  | "rs" => do let a ← nat; let b ← nat; pure (.resize a b)
  | "pad" => do let a ← nat; pure (.pad a)
  | "crop" => do
      let x ← rat; let y ← rat; let bh ← nat; let bw ← nat; pure (.cropAbout (x, y) bh bw)
  | "recrop" => do let bh ← nat; let bw ← nat; pure (.recrop bh bw)
  | "aug" => do
      let a ← rat; let b ← rat; let c ← rat; let d ← rat; let e ← rat; let f ← rat
      pure (.aug ⟨a, b, c, d, e, f⟩)
  | "auga" => do
      let a ← rat; let b ← rat; let c ← rat; let d ← rat; let e ← rat; let f ← rat
      pure (.augAligned ⟨a, b, c, d, e, f⟩)
  | "int" => pure .intensity
  | _ => failure

def pPt : P (Rat × Rat) := do let x ← rat; let y ← rat; pure (x, y)
def pOPt : P (Option Rat × Option Rat) := do let x ← orat; let y ← orat; pure (x, y)

def natCast (n : Nat) : Rat := (n : Rat)
def intCast (n : Int) : Rat := (n : Rat)

def handle (line : String) : String :=
  match tokens line with
  | "pad" :: rest =>
    match runP (do let h ← nat; let w ← nat; let s ← nat; pure (h, w, s)) rest with
    | some (h, w, s) =>
      let m := findPaddingForStride h w s
      let g := Gen.Geometry.find_padding_for_stride h w s
      let o := padToStrideSize h w s
      s!"ok {m.1} {m.2} {g.1} {g.2} {o.1} {o.2}"
    | none => "bad-op"
  | "sm" :: rest =>
    match runP (do let h ← nat; let w ← nat; let a ← nat; let b ← nat; pure (h, w, a, b)) rest with
    | some (h, w, a, b) =>
      if h = 0 ∨ w = 0 then "bad-op" else
      let o := sizematch h w (optNat a) (optNat b)
      let sz := sizematchOutSize h w (optNat a) (optNat b)
      let mh := (optNat a).getD h
      let mw := (optNat b).getD w
      let (m1, m2) :=
        if !o.applied then ((1, 1), (1, 1))
        else if mh * w > mw * h then (roundMargin (h * mw) w, roundMargin (w * mw) w)
        else (roundMargin (h * mh) h, roundMargin (w * mh) h)
      s!"ok {o.th} {o.tw} {o.effN} {o.effD} {if o.applied then 1 else 0} {sz.1} {sz.2} {m1.1} {m1.2} {m2.1} {m2.2}"
    | none => "bad-op"
  | "rs" :: rest =>
    match runP (do let n ← nat; let a ← nat; let b ← nat; pure (n, a, b)) rest with
    | some (n, a, b) => if b = 0 then "bad-op" else s!"ok {resizeSize n a b}"
    | none => "bad-op"
  | "oc" :: rest =>
    match runP nat rest with
    | some c => s!"ok {overcropSize c}"
    | none => "bad-op"
  | "bbox" :: rest =>
    match runP (do let c ← pPt; let bh ← nat; let bw ← nat; pure (c, bh, bw)) rest with
    | some (c, bh, bw) =>
      "ok " ++ ratsStr ((centeredBBox natCast c bh bw).flatMap fun p => [p.1, p.2])
    | none => "bad-op"
  | "cropsize" :: rest =>
    match runP (do
        let pad ← int; let stride ← int; let mc ← int; let sc ← rat
        let insts ← listOf (listOf pOPt)
        pure (pad, stride, mc, sc, insts)) rest with
    | some (pad, stride, mc, sc, insts) =>
      if stride ≤ 0 then "bad-op" else
      s!"ok {findCropSize Rat.ceil intCast insts pad stride sc (if mc < 0 then none else some mc)}"
    | none => "bad-op"
  | "chain" :: rest =>
    match runP (do
        let h ← nat; let w ← nat; let ops ← listOf pOp; let pts ← listOf pPt
        pure (h, w, ops, pts)) rest with
    | some (h, w, ops, pts) =>
      let s := run natCast h w ops
      let sizes := s.sizes.reverse
      let ptsOut := pts.flatMap fun p =>
        let c := s.content.apply p
        let k := s.kp.apply p
        [c.1, c.2, k.1, k.2]
      let cen := match s.centroid with
        | some c => ratStr c.1 ++ " " ++ ratStr c.2
        | none => "nan nan"
      s!"ok {s.h} {s.w} {sizes.length} " ++ natsStr (sizes.flatMap fun p => [p.1, p.2]) ++
        s!" {pts.length} " ++ ratsStr ptsOut ++ " " ++ cen
    | none => "bad-op"
  | _ => "bad-op"

def main : IO Unit := mainLoop' handle
