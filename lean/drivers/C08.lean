import SleapVerif.Model.Proto
import SleapVerif.Model.Grouping
/-! Driver for C08.

`sample <fixed> <nNodes> <edges: n (u v)*> <minLine> <minPeaks: i <int> | f <rat>> <ch: n c*>
        <per edge: nr nc (score|nan)^(nr*nc)> <per edge: r | m n (i j)*>`
  → `<status> | order … | cand … | cm … | mt … | conn … | cases … | asg … | inst …`
  where the last per-edge block is scipy's recorded answer for that edge's cost matrix; the model's
  `lsa` parameter is the function that maps *the model's own* cost matrix of edge k to that answer.

`assign <nNodes> <minPeaks> <nEdges> (u v n (si di score)*)*`
  → `asg … | cases … | <ok inst … | raise err>`   (unit level, arbitrary connection dicts)
-/
open SleapVerif SleapVerif.Proto SleapVerif.Grouping SleapVerif.Toposort

def pEdges : P (List Edge) := listOf (do let u ← nat; let v ← nat; pure (u, v))

def pMinPeaks : P MinPeaks := do
  let t ← tok
  if t = "i" then do let n ← int; pure (.int n)
  else if t = "f" then do let q ← rat; pure (.frac q)
  else failure

def pMat : P (Mat (Option Rat)) := do
  let nr ← nat; let nc ← nat
  rep nr (rep nc orat)

def pLsaAns : P (Option (List (Nat × Nat))) := do
  let t ← tok
  if t = "r" then pure none
  else if t = "m" then do
    let l ← listOf (do let i ← nat; let j ← nat; pure (i, j)); pure (some l)
  else failure

def matStr (C : Mat (Option Rat)) : String :=
  s!"{nRows C} {nCols C} " ++ " ".intercalate (C.map oratsStr)

def errStr : GErr → String
  | .infeasible => "infeasible" | .keyError => "keyError"
  | .assertion => "assertion" | .noOrder => "noOrder"

def caseStr : Case → String
  | .c1 => "1" | .c2 => "2" | .c3 => "3" | .c4 => "4"

def asgStr (a : Assign) : String :=
  s!"asg {a.length} " ++ " ".intercalate (a.map fun kv => s!"{kv.1.1} {kv.1.2} {kv.2}")

def connStr (cs : List (Conn Rat)) : String :=
  s!"conn {cs.length} " ++ " ".intercalate
    (cs.map fun c => s!"{c.src.1} {c.src.2} {c.dst.1} {c.dst.2} {ratStr c.score}")

def optNatStr : Option Nat → String
  | none => "-1" | some n => toString n

def instStr (f : Nat → Option Nat → Option Nat) (is : List (Inst Rat)) : String :=
  s!"inst {is.length} " ++ " ".intercalate
    (is.map fun i => " ".intercalate (i.row.mapIdx fun n x => optNatStr (f n x)) ++ " " ++ ratStr i.score)

def mtStr (ms : List (List (Match Rat))) : String :=
  "mt " ++ " ".intercalate (ms.map fun m =>
    s!"{m.length} " ++ " ".intercalate (m.map fun x => s!"{x.row} {x.col} {oratStr x.score}"))

def handleSample (rest : List String) : String :=
  let p : P _ := do
    let fixed ← bool
    let nNodes ← nat
    let edges ← pEdges
    let minLine ← rat
    let mp ← pMinPeaks
    let ch ← listOf nat
    let scores ← rep edges.length pMat
    let ans ← rep edges.length pLsaAns
    pure (fixed, nNodes, edges, minLine, mp, ch, scores, ans)
  match runP p rest with
  | none => "bad-op"
  | some (fixed, nNodes, edges, minLine, mp, ch, scores, ans) =>
    let cms : List (Mat (Option Rat)) :=
      edges.zipIdx.map fun x =>
        let C := costMatrix ch x.1 (scores.getD x.2 [])
        if fixed then fillInvalid C else C
    let table := cms.zip ans
    let lsa : Lsa Rat := fun C => ((table.find? (fun kv => kv.1 == C)).map (·.2)).getD none
    let cand := candidates ch edges
    let candS := s!"cand {cand.length} " ++ " ".intercalate (cand.map fun c => s!"{c.1} {c.2.1} {c.2.2}")
    let cmS := "cm " ++ " ".intercalate (cms.map matStr)
    match toposort edges with
    | none => s!"raise noOrder | {candS} | {cmS}"
    | some order =>
      let P : Params Rat := mkParams nNodes edges order minLine mp
      let ordS := "order " ++ natsStr order
      match groupSample fixed lsa P ch scores with
      | .error e => s!"raise {errStr e} | {ordS} | {candS} | {cmS}"
      | .ok o =>
        let casesS := "cases " ++ " ".intercalate ((caseTrace (pairs o.conns)).map caseStr)
        s!"ok | {ordS} | {candS} | {cmS} | {mtStr o.mts} | {connStr o.conns} | {casesS} | {asgStr o.assign} | "
          ++ instStr (fun n x => x.bind fun k => globalIdx ch (n, k)) o.insts

def handleAssign (rest : List String) : String :=
  let p : P _ := do
    let nNodes ← nat
    let mp ← pMinPeaks
    let groups ← listOf (do
      let u ← nat; let v ← nat
      let l ← listOf (do let a ← nat; let b ← nat; let s ← rat; pure (a, b, s))
      pure (u, v, l))
    pure (nNodes, mp, groups)
  match runP p rest with
  | none => "bad-op"
  | some (nNodes, mp, groups) =>
    let cs : List (Conn Rat) := groups.flatMap fun g =>
      g.2.2.map fun m => ⟨(g.1, m.1), (g.2.1, m.2.1), m.2.2⟩
    let a := assignConnections (pairs cs) (effMinPeaks mp nNodes) nNodes
    let casesS := "cases " ++ " ".intercalate ((caseTrace (pairs cs)).map caseStr)
    match makeInstances cs a nNodes with
    | .error e => s!"{asgStr a} | {casesS} | raise {errStr e}"
    | .ok is => s!"{asgStr a} | {casesS} | ok " ++ instStr (fun _ x => x) is

def handle (line : String) : String :=
  match tokens line with
  | "sample" :: rest => handleSample rest
  | "assign" :: rest => handleAssign rest
  | _ => "bad-op"

def main : IO Unit := mainLoop' handle
