import SleapVerif.Model.Proto
import SleapVerif.Model.Decode
/-!
Driver for C02 (runs `Model/Decode` at `Rat`).

`single <pre> <sn> <sd> <os> <ms> <maxH|-> <maxW|-> <H> <W> <n> {<x> <y> <dx> <dy>}ⁿ`
   a missing keypoint is `nan nan 0 0`;
   → `ok <hin> <win> <eff> {<x> <y> <cellx> <celly> <mx> <my>}ⁿ`  (`nan nan - - - -` when missing)
`topdown <scn> <scd> <osC> <msC> <sin> <sid> <osI> <msI> <cropH> <cropW> <maxH|-> <maxW|-> <H> <W>
         <cenx> <ceny> <dcx> <dcy> <n> {<x> <y> <dx> <dy>}ⁿ`
   → `ok <hc> <wc> <hi> <wi> <eff> <ccellx> <ccelly> <mcx> <mcy> <tlx> <tly> <bbx> <bby>
         {<x> <y> <cellx> <celly> <mx> <my>}ⁿ`
`sizes <sn> <sd> <ms> <n>`  → `ok <resizeLen> <padTo(resizeLen)>`
-/
open SleapVerif SleapVerif.Proto SleapVerif.Decode

def castQ (n : Nat) : Rat := (n : Rat)

def onat : P (Option Nat) := do
  let t ← tok
  if t = "-" then pure none else match parseNat? t with | some n => pure (some n) | none => failure

def kp : P (Option (Rat × Rat) × (Rat × Rat)) := do
  let x ← orat; let y ← orat; let dx ← rat; let dy ← rat
  match x, y with
  | some a, some b => pure (some (a, b), (dx, dy))
  | _, _ => pure (none, (dx, dy))

def omStr : Option Rat → String
  | none => "-"
  | some q => ratStr q

def ptStr (os : Nat) (a : Rat) (tl : Rat × Rat) (nx ny : Nat) (p : Option (Rat × Rat)) (o : Option (Rat × Rat)) : String :=
  match p, o with
  | some (x, y), some (ox, oy) =>
    let qx := x * a - tl.1
    let qy := y * a - tl.2
    s!"{ratStr ox} {ratStr oy} {nearest castQ os qx (nx - 1)} {nearest castQ os qy (ny - 1)} " ++
      s!"{omStr (nearestMargin castQ os qx (nx - 1))} {omStr (nearestMargin castQ os qy (ny - 1))}"
  | _, _ => "nan nan - - - -"

def handle (line : String) : String :=
  match tokens line with
  | "single" :: rest =>
    let p : P String := do
      let pre ← bool; let sn ← nat; let sd ← nat; let os ← nat; let ms ← nat
      let maxH ← onat; let maxW ← onat; let H ← nat; let W ← nat
      let pts ← listOf kp
      let c : SingleCfg := { scale := ⟨sn, sd⟩, os := os, maxStride := ms, maxH := maxH, maxW := maxW }
      let (hin, win) := singleInputShape pre c H W
      let a : Rat := singleActual castQ pre c H W
      let eff : Rat := effScale castQ H W maxH maxW
      let outs := pts.map fun (p, δ) =>
        ptStr os a (0, 0) (gridLen win os) (gridLen hin os) p (singlePoint castQ pre c H W p δ)
      pure (s!"ok {hin} {win} {ratStr eff} " ++ " ".intercalate outs)
    match runP p rest with
    | some s => s
    | none => "bad-op"
  | "topdown" :: rest =>
    let p : P String := do
      let scn ← nat; let scd ← nat; let osC ← nat; let msC ← nat
      let sin ← nat; let sid ← nat; let osI ← nat; let msI ← nat
      let cropH ← nat; let cropW ← nat
      let maxH ← onat; let maxW ← onat; let H ← nat; let W ← nat
      let cx ← rat; let cy ← rat; let dcx ← rat; let dcy ← rat
      let pts ← listOf kp
      let c : TopDownCfg := { sc := ⟨scn, scd⟩, osC := osC, msC := msC, si := ⟨sin, sid⟩, osI := osI,
                              msI := msI, cropH := cropH, cropW := cropW, maxH := maxH, maxW := maxW }
      let eff : Rat := effScale castQ H W maxH maxW
      let (hc, wc) := centroidInputShape c H W
      let (hi, wi) := instanceInputShape c
      let out := topdownAnimal castQ c H W (cx, cy) (dcx, dcy) pts
      let ac : Rat := eff * c.sc.toR castQ
      let ai : Rat := eff * c.si.toR castQ
      let ccx := nearest castQ osC (cx * ac) (gridLen wc osC - 1)
      let ccy := nearest castQ osC (cy * ac) (gridLen hc osC - 1)
      let mcx := nearestMargin castQ osC (cx * ac) (gridLen wc osC - 1)
      let mcy := nearestMargin castQ osC (cy * ac) (gridLen hc osC - 1)
      let outs := (pts.zip out.pts).map fun ((p, _), o) =>
        ptStr osI ai out.tl (gridLen wi osI) (gridLen hi osI) p o
      -- "crop contains the keypoint for every admissible centroid estimate" (e = half a centroid cell + ¼ crop px)
      let e : Rat := (osC : Rat) / 2 / c.sc.toR castQ + (1 / 4) / c.si.toR castQ
      let cOk := centroidInRange castQ c eff (gridLen wc osC) cx && centroidInRange castQ c eff (gridLen hc osC) cy
      let rob := pts.map fun (p, _) =>
        match p with
        | some (x, y) =>
          if cOk && robustAxis castQ c cropW (gridLen wi osI) eff e (cx * eff) x
                && robustAxis castQ c cropH (gridLen hi osI) eff e (cy * eff) y then "1" else "0"
        | none => "-"
      pure (s!"ok {hc} {wc} {hi} {wi} {ratStr eff} {ccx} {ccy} {omStr mcx} {omStr mcy} " ++
        s!"{ratStr out.tl.1} {ratStr out.tl.2} {ratStr out.bboxTL.1} {ratStr out.bboxTL.2} " ++
        " ".intercalate outs ++ " | " ++ " ".intercalate rob)
    match runP p rest with
    | some s => s
    | none => "bad-op"
  | "gtc" :: rest =>
    let p : P String := do
      let sin ← nat; let sid ← nat; let osI ← nat; let msI ← nat
      let cropH ← nat; let cropW ← nat
      let maxH ← onat; let maxW ← onat; let H ← nat; let W ← nat
      let cx ← rat; let cy ← rat
      let pts ← listOf kp
      let c : TopDownCfg := { sc := ⟨1, 1⟩, osC := 1, msC := 1, si := ⟨sin, sid⟩, osI := osI,
                              msI := msI, cropH := cropH, cropW := cropW, maxH := maxH, maxW := maxW }
      let eff : Rat := effScale castQ H W maxH maxW
      let (hi, wi) := instanceInputShape c
      let nx := gridLen wi osI
      let ny := gridLen hi osI
      let tlx := cropTL castQ c cropW (cx * eff)
      let tly := cropTL castQ c cropH (cy * eff)
      let ai : Rat := eff * c.si.toR castQ
      let head := pts.map fun (p, δ) =>
        ptStr osI ai (tlx, tly) nx ny p (p.map fun (x, y) =>
          (gtcCoord castQ c eff cropW nx cx x δ.1, gtcCoord castQ c eff cropH ny cy y δ.2))
      let asis := pts.map fun (p, δ) =>
        match p with
        | some (x, y) => s!"{ratStr (gtcCoordAsIs castQ c eff cropW nx cx x δ.1)} {ratStr (gtcCoordAsIs castQ c eff cropH ny cy y δ.2)}"
        | none => "nan nan"
      pure (s!"ok {hi} {wi} {ratStr eff} {ratStr tlx} {ratStr tly} " ++ " ".intercalate head ++ " | " ++ " ".intercalate asis)
    match runP p rest with
    | some s => s
    | none => "bad-op"
  | "unravel" :: rest =>
    match runP (do let w ← nat; let i ← nat; pure (w, i)) rest with
    | some (w, i) => s!"ok {(unravel w i).1} {(unravel w i).2}"
    | none => "bad-op"
  | "sizes" :: rest =>
    match runP (do let sn ← nat; let sd ← nat; let ms ← nat; let n ← nat; pure (sn, sd, ms, n)) rest with
    | some (sn, sd, ms, n) => s!"ok {resizeLen n ⟨sn, sd⟩} {padTo (resizeLen n ⟨sn, sd⟩) ms}"
    | none => "bad-op"
  | _ => "bad-op"

def main : IO Unit := mainLoop' handle
