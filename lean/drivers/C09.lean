import SleapVerif.Model.Proto
import SleapVerif.Model.Tracker
import SleapVerif.Model.TrackFeatures
/-!
Line-protocol driver for C09 / C10 (shared).  Stateful: one tracker at a time.

```
init <fw|lq> <window> <thr> <h|g> <mean|max> <fixA> <fixB> <fixC> <fixD>
frame <F> <n> s_1 … s_n  <T> (i f j v)*T  <M> [rows cols e_11 … ]  <K> (r c)*K
```
`s_i` instance scores; the table holds every raw score the implementation computed for
detection `i` of this frame against the stored feature `(f, j)` (frame, index); `M = 1` when the
implementation reached `assign_tracks` and then the full recorded score matrix follows (the
model takes its *decisions* on that matrix so that no float comparison enters, and reports its
own exact reduction next to it); the `K` pairs are scipy's result (Hungarian) or numpy's argsort
order (greedy) for the cost matrix the matcher was given.

Stateless ops: `bbox k (x y)*`, `centroid k (x y)*` (`nan` = missing), `iou a1..a4 b1..b4`,
`d2 ax ay bx by`, `cosparts ax ay bx by` — the modelled feature / score functions at `Rat`.

Output: `res | ids | out | shape | pattern | reduced | cands | state | missing | cost` where `cost`
is the matrix the model hands to the matcher (`rows cols entries`, `nan` = +∞).
-/
open SleapVerif SleapVerif.Proto SleapVerif.Tracker SleapVerif.TrackFeatures

abbrev Feat := Nat × Nat

structure DState where
  isLQ : Bool := false
  cfg : Config Rat := ⟨1, 0, .hungarian, .mean, Fixes.repaired⟩
  fw : FW Feat := FW.empty
  lq : LQ Feat := LQ.empty

def pInit : P DState := do
  let m ← tok
  let w ← nat
  let thr ← rat
  let mt ← tok
  let rd ← tok
  let a ← bool; let b ← bool; let c ← bool; let d ← bool
  pure { isLQ := m == "lq",
         cfg := ⟨w, thr, if mt == "g" then .greedy else .hungarian,
                 if rd == "max" then .max else .mean, ⟨a, b, c, d⟩⟩ }

structure FrameIn where
  f : Nat
  scores : List Rat
  table : List ((Nat × Feat) × Rat)
  mat : Option (List (List (Option Rat)))
  pairs : List (Nat × Nat)

def pFrame : P FrameIn := do
  let f ← nat
  let scores ← listOf rat
  let table ← listOf (do
    let i ← nat; let cf ← nat; let cj ← nat; let v ← rat
    pure ((i, (cf, cj)), v))
  let hasM ← bool
  let mat ← if hasM then do
      let r ← nat; let c ← nat
      let rows ← rep r (rep c orat)
      pure (some rows)
    else pure none
  let pairs ← listOf (do let r ← nat; let c ← nat; pure (r, c))
  pure ⟨f, scores, table, mat, pairs⟩

def optStr : Option Nat → String
  | none => "-"
  | some t => toString t

def featStr (p : Feat) : String := s!"{p.1}.{p.2}"

def errStr : Err → String
  | .typeError => "typeError"
  | .infeasible => "infeasible"
  | .emptyMax => "emptyMax"

def outStr (o : List (Nat × Option Nat)) : String :=
  " ".intercalate (o.map fun p => s!"{p.1}:{optStr p.2}")

def fwStateStr (s : FW Feat) : String :=
  "tracks " ++ natsStr s.tracks ++ " queue " ++
    " / ".intercalate (s.queue.map fun fr =>
      " ".intercalate ((fr.feats.zip fr.ids).map fun p => s!"{featStr p.1}:{optStr p.2}"))

def lqStateStr (s : LQ Feat) : String :=
  "tracks " ++ natsStr s.tracks ++ " queue " ++
    " / ".intercalate (s.queues.map fun q =>
      s!"{q.1}: " ++ " ".intercalate (q.2.map featStr))

def handleFrame (st : DState) (fi : FrameIn) : DState × String :=
  let cfg := st.cfg
  let cur : List (Feat × Rat) := fi.scores.zipIdx.map fun p => ((fi.f, p.2), p.1)
  let lookup (a b : Feat) : Option Rat := fi.table.lookup (a.2, b)
  let score (a b : Feat) : Rat := (lookup a b).getD 0
  let ext : Ext Rat := ⟨fun _ => fi.pairs, fun _ => fi.pairs⟩
  let m := if st.isLQ then st.lq.tracks.length else st.fw.tracks.length
  let cands : Nat → List Feat := if st.isLQ then st.lq.cands else st.fw.cands
  let queueEmpty := if st.isLQ then st.lq.queues.isEmpty else st.fw.queue.isEmpty
  let candsStr := " ; ".intercalate ((List.range m).map fun t =>
    " ".intercalate ((cands t).map featStr))
  let missing := (cur.map fun c => ((List.range m).map fun t =>
      ((cands t).filter fun x => (lookup c.1 x).isNone).length).sum).sum
  let finish (st' : DState) (res : String) (ids : List (Option Nat)) (shape pat red : String)
      (costStr : String := "nocost") :=
    let out := if st.isLQ then LQ.output ids else FW.output ids
    let stStr := if st.isLQ then lqStateStr st'.lq else fwStateStr st'.fw
    (st', " | ".intercalate [res, " ".intercalate (ids.map optStr), outStr out, shape, pat, red,
                             candsStr, stStr, toString missing, costStr])
  if queueEmpty then
    if st.isLQ then
      let r := LQ.init cfg st.lq cur
      finish { st with lq := r.1 } "ok" r.2 "nomat" "" ""
    else
      let r := FW.init cfg st.fw cur
      finish { st with fw := r.1 } "ok" r.2 "nomat" "" ""
  else
    match scoreMatrix cfg.red cfg.fx.stale score cands m (cur.map (·.1)) with
    | .error e => finish st s!"raise:{errStr e}" [] "nomat" "" ""
    | .ok own =>
      let shape := s!"{own.length} {m}"
      let pat := " ".intercalate (own.map fun row =>
        String.join (row.map fun o => if o.isSome then "1" else "0"))
      let red := " ".intercalate (own.map fun row => oratsStr row)
      -- decisions are taken on the recorded matrix when there is one
      let sc := fi.mat.getD own
      let cost := toCost sc
      let valid := validCols cfg.fx.stale m cost
      let sub := subMatrix cost valid
      let costStr := s!"{sub.length} {valid.length} " ++ " ".intercalate (sub.map oratsStr)
      if st.isLQ then
        match LQ.stepWith cfg ext st.lq cur sc with
        | .error e => finish st s!"raise:{errStr e}" [] shape pat red costStr
        | .ok r => finish { st with lq := r.1 } "ok" r.2 shape pat red costStr
      else
        match FW.stepWith cfg ext st.fw cur sc with
        | .error e => finish st s!"raise:{errStr e}" [] shape pat red costStr
        | .ok r => finish { st with fw := r.1 } "ok" r.2 shape pat red costStr

def step (st : DState) (line : String) : DState × String :=
  match tokens line with
  | "init" :: rest =>
      match runP pInit rest with
      | some s => (s, "ok")
      | none => (st, "parse-error")
  | "frame" :: rest =>
      match runP pFrame rest with
      | some fi => handleFrame st fi
      | none => (st, "parse-error")
  -- stateless feature / score ops (exact at `Rat`)
  | "bbox" :: rest =>
      match runP (listOf (do let x ← orat; let y ← orat; pure (x, y))) rest with
      | some pts => (st, match bbox pts with
          | some (a, b, c, d) => ratsStr [a, b, c, d]
          | none => "nan")
      | none => (st, "parse-error")
  | "centroid" :: rest =>
      match runP (listOf (do let x ← orat; let y ← orat; pure (x, y))) rest with
      | some pts => (st, match centroid pts with
          | some (a, b) => ratsStr [a, b]
          | none => "nan")
      | none => (st, "parse-error")
  | "iou" :: rest =>
      match runP (rep 8 rat) rest with
      | some [a1, a2, a3, a4, b1, b2, b3, b4] => (st, ratStr (scoreIou (a1, a2, a3, a4) (b1, b2, b3, b4)))
      | _ => (st, "parse-error")
  | "d2" :: rest =>
      match runP (rep 4 rat) rest with
      | some [a1, a2, b1, b2] => (st, ratStr (dist2 (a1, a2) (b1, b2)))
      | _ => (st, "parse-error")
  | "cosparts" :: rest =>
      match runP (rep 4 rat) rest with
      | some [a1, a2, b1, b2] =>
          (st, ratsStr [Oks.dot [a1, a2] [b1, b2], Oks.dot [a1, a2] [a1, a2], Oks.dot [b1, b2] [b1, b2]])
      | _ => (st, "parse-error")
  | _ => (st, "parse-error")

def main : IO Unit := mainLoop step ({} : DState)
