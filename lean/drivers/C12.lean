import SleapVerif.Model.Proto
import SleapVerif.Model.Decode
/-!
Driver for C12 (batch plumbing of `Model/Decode`; payload = animal id, values at `Rat`).

frames := `<nf> {<fidx> <vidx> <eff> <np> {<id> <val>}ⁿᵖ}ⁿᶠ`
`cc  <mi|-> frames`        → `ok <ng> {<n> {<fidx> <vidx> <eff> <id> <val>}ⁿ}ⁿᵍ`   (`centroidCrop`)
`gen <B> <mi|-> frames`    → same format                      (`predictGen B (centroidCrop mi)`)
`bu  frames`               → `ok <nf> {<fidx> <vidx> <eff> <n> <id>ⁿ}ⁿᶠ`   (`bottomupRecords`, group = ids, decode = pair)
`keeptop <mi|-> <np> {<id> <val>}` → `ok <id>…`                        (`keepTop`)
`mode <single|topdown|bottomup> <cur:eval|train>` → `ok <mode at HEAD (forced eval)> <mode before dc60a97>`
`gtparse <maxInst> <nf> {<n> <id>ⁿ}` → `ok {<maxInst tokens: id | ->}ⁿᶠ`        (`gtPeaks`)
`chunks <B> <n>`           → `ok <size>…`
`topk <k> <np> {<id> <val>}` → `ok <id>…`
-/
open SleapVerif SleapVerif.Proto SleapVerif.Decode

abbrev Fr := Frame Nat Rat Int Rat

def onat : P (Option Nat) := do
  let t ← tok
  if t = "-" then pure none else match parseNat? t with | some n => pure (some n) | none => failure

def peakP : P (Peak Nat Rat) := do let i ← nat; let v ← rat; pure ⟨i, v⟩

def frameP : P Fr := do
  let f ← int; let v ← int; let e ← rat; let ps ← listOf peakP
  pure { fidx := f, vidx := v, eff := e, peaks := ps }

def recStr (r : Rec Nat Rat Int Rat) : String :=
  s!"{r.fidx} {r.vidx} {ratStr r.eff} {r.peak.pt} {ratStr r.peak.val}"

def groupsStr (gs : List (List (Rec Nat Rat Int Rat))) : String :=
  s!"ok {gs.length}" ++ String.join (gs.map fun g => s!" {g.length}" ++ String.join (g.map fun r => " " ++ recStr r))

def handle (line : String) : String :=
  match tokens line with
  | "cc" :: rest =>
    match runP (do let mi ← onat; let fs ← listOf frameP; pure (mi, fs)) rest with
    | some (mi, fs) => groupsStr (centroidCrop mi fs)
    | none => "bad-op"
  | "gen" :: rest =>
    match runP (do let b ← nat; let mi ← onat; let fs ← listOf frameP; pure (b, mi, fs)) rest with
    | some (b, mi, fs) => groupsStr (predictGen b (centroidCrop mi) fs)
    | none => "bad-op"
  | "bu" :: rest =>
    match runP (listOf frameP) rest with
    | some fs =>
      let recs := bottomupRecords (fun ps => ps.map (·.pt)) (fun (e : Rat) (g : List Nat) => (e, g)) fs
      s!"ok {recs.length}" ++ String.join (recs.map fun (f, v, e, g) =>
        s!" {f} {v} {ratStr e} {g.length}" ++ String.join (g.map fun i => s!" {i}"))
    | none => "bad-op"
  | "keeptop" :: rest =>
    match runP (do let mi ← onat; let ps ← listOf peakP; pure (mi, ps)) rest with
    | some (mi, ps) => "ok " ++ natsStr ((keepTop mi ps).map (·.pt))
    | none => "bad-op"
  | ["mode", k, c] =>
    let kind? : Option Kind := match k with
      | "single" => some .single | "topdown" => some .topdown | "bottomup" => some .bottomup | _ => none
    let cur? : Option Mode := match c with | "eval" => some .eval | "train" => some .train | _ => none
    let str : Mode → String := fun m => match m with | .eval => "eval" | .train => "train"
    match kind?, cur? with
    | some kind, some cur => s!"ok {str (modeOf (forcesEval kind) cur)} {str (modeOf (forcesEvalAsIs kind) cur)}"
    | _, _ => "bad-op"
  | "gtparse" :: rest =>
    match runP (do let k ← nat; let ms ← listOf (listOf nat); pure (k, ms)) rest with
    | some (k, ms) =>
      "ok" ++ String.join ((gtPeaks k ms).map fun row => String.join (row.map fun o =>
        match o with | some i => s!" {i}" | none => " -"))
    | none => "bad-op"
  | "chunks" :: rest =>
    match runP (do let b ← nat; let n ← nat; pure (b, n)) rest with
    | some (b, n) => "ok " ++ natsStr ((chunks b (List.range n)).map (·.length))
    | none => "bad-op"
  | "topk" :: rest =>
    match runP (do let k ← nat; let ps ← listOf peakP; pure (k, ps)) rest with
    | some (k, ps) => "ok " ++ natsStr ((topk k ps).map (·.pt))
    | none => "bad-op"
  | _ => "bad-op"

def main : IO Unit := mainLoop' handle
