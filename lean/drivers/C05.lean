import SleapVerif.Model.Proto
import SleapVerif.Model.Pafs
/-!
Line-protocol driver for C05.  The SAME generic definitions run

* at `Rat` — exactly: `distance_to_edge` (no transcendental in it), shapes, kept-animal set,
  NaN ("undefined edge") pattern, and which channels are identically zero (with the surrogates
  `exp x := 1/(1-x)` > 0 and `sqrt _ := 1` > 0, which preserve zero-ness of every product);
* at `Float` with `Float.exp`/`Float.sqrt` — the values (IEEE bit patterns).

requests
  dist   <nP> (px py)*nP <nE> (sx sy tx ty)*nE            → `nP nE | D …`  (point-major, exact)
  mkpafs σ stride H W <E> (sx sy tx ty)*E  (coords may be nan)
         → `E h w | def_1 … def_E | v …`   v in (E,2,h,w) order, NaN where the code gives NaN
  pafs   σ stride H W <E> (a b)*E <nA> <nNodes> (x y)*(nA·nNodes)     (generate_pafs, flattened)
  mpafs  … same …                                                    (make_multi_pafs: no filter)
         → `2E h w rect | kept_1 … kept_nA | nz_1 … nz_2E | v …`
-/
open SleapVerif SleapVerif.Proto SleapVerif.Pafs SleapVerif.Scalar SleapVerif.Grid SleapVerif.Confmaps

def surrExp (x : Rat) : Rat := 1 / (1 - x)
def surrSqrt (_ : Rat) : Rat := 1

def ptF : Option (Rat × Rat) → Option (Float × Float)
  | some (x, y) => some (ratToFloat x, ratToFloat y)
  | none => none

def point : P (Option (Rat × Rat)) := do
  let x ← orat; let y ← orat; pure (mkPoint x y)

def chunks {α} (k : Nat) (l : List α) : List (List α) :=
  if k = 0 then [] else
  (List.range (l.length / k)).map fun i => (l.drop (i * k)).take k

def nanStr : String := floatStr (0.0 / 0.0)

def stackShape {α} (m : List (List (List α))) (h w : Nat) : String :=
  let hh := match m with | [] => h | ch :: _ => ch.length
  let ww := match m with | [] => w | ch :: _ => (match ch with | [] => w | r :: _ => r.length)
  let rect := m.all fun ch => ch.length == hh && ch.all (·.length == ww)
  s!"{m.length} {hh} {ww} {if rect then 1 else 0}"

def runPafs {S : Type} [Add S] [Sub S] [Mul S] [Div S] [Neg S] [LT S] [DecidableLT S]
    [OfNat S 0] [OfNat S 1] [OfNat S 2] (filt : Bool) (stride H W : Nat) (edges : List (Nat × Nat))
    (ex sq : S → S) (cast : Nat → S) (sg : S) (as : List (List (Option (S × S)))) : List (List (List S)) :=
  if filt then pafs ex sq cast sg stride H W edges as
  else makeMultiPafs ex sq cast (gridVec W stride) (gridVec H stride) sg edges.length (as.map (edgePoints edges))

def request : P String := do
  let op ← tok
  if op = "dist" then
    let pts ← listOf (do let x ← rat; let y ← rat; pure (x, y))
    let es ← listOf (do let a ← rat; let b ← rat; let c ← rat; let d ← rat; pure (a, b, c, d))
    let ds := pts.flatMap fun (px, py) => es.map fun (sx, sy, tx, ty) => distanceToEdge px py sx sy tx ty
    pure s!"{pts.length} {es.length} | {ratsStr ds}"
  else
  let sigma ← rat
  let stride ← nat
  let H ← nat
  let W ← nat
  let h := gridLen H stride
  let w := gridLen W stride
  let castQ : Nat → Rat := fun n => (n : Rat)
  let castF : Nat → Float := Float.ofNat
  let sf := ratToFloat sigma
  let xv := gridVec W stride
  let yv := gridVec H stride
  match op with
  | "mkpafs" =>
    let es ← listOf (do let s ← point; let d ← point; pure (s, d))
    let defs := es.map fun (s, d) =>
      if (pafRaw surrExp surrSqrt sigma s d 0 0).isSome then "1" else "0"
    let vals := es.flatMap fun (s, d) =>
      let cell := fun (gx gy : Float) => pafRaw Float.exp Float.sqrt sf (ptF s) (ptF d) gx gy
      let comp : (Float × Float → Float) → List String := fun sel =>
        (tabulate castF xv yv fun gx gy =>
          match cell gx gy with | some v => floatStr (sel v) | none => nanStr).flatten
      comp (·.1) ++ comp (·.2)
    pure s!"{es.length} {h} {w} | {" ".intercalate defs} | {" ".intercalate vals}"
  | "pafs" | "mpafs" =>
    let edges ← listOf (do let a ← nat; let b ← nat; pure (a, b))
    let na ← nat
    let nn ← nat
    let pts ← rep (na * nn) point
    let animals := if nn = 0 then List.replicate na [] else chunks nn pts
    let animalsF := animals.map (·.map ptF)
    let filt := op == "pafs"
    let keptFlags := animals.map fun a => kept castQ stride H W a
    let mq := runPafs filt stride H W edges surrExp surrSqrt castQ sigma animals
    let mf := runPafs filt stride H W edges Float.exp Float.sqrt castF sf animalsF
    -- a channel is identically zero iff every (kept) animal's own contribution is
    let singles := animals.map fun a => runPafs filt stride H W edges surrExp surrSqrt castQ sigma [a]
    let nz := (List.range (2 * edges.length)).map fun c =>
      if singles.any (fun m => match m[c]? with
        | some ch => ch.any (fun row => row.any (· != 0))
        | none => false) then "1" else "0"
    let vals := (mf.flatten.flatten).map floatStr
    pure s!"{stackShape mq h w} | {" ".intercalate (keptFlags.map fun b => if b then "1" else "0")} | {" ".intercalate nz} | {" ".intercalate vals}"
  | _ => failure

def handle (line : String) : String :=
  match runP request (tokens line) with
  | some s => s
  | none => "error"

def main : IO Unit := mainLoop' handle
