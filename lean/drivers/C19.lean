import SleapVerif.Model.Proto
import SleapVerif.Model.TrainTrace
/-! Driver for C19.
Lines (flags: model ∈ single_instance|centroid|centered_instance|bottomup, fw ∈ torch_dataset|torch_dataset_np_chunks,
five booleans wandb ckpt structured delete save_last, then `<n> b1 … bn` = per-epoch "val loss improved"):

`trace <repaired|asis|keyfixed> <flags> <rounds>`  →  `ok e1 e2 …`          (events, see `Event.str`)
`fs    <repaired|asis> <flags> <rounds>`  →  `ok s0 | s1 | … | sN` (file system at every crash point, `-` = empty)
`tracer <repaired|asis> <flags2> <rounds2>`                   →  events of a run with use_existing_chunks (run 2)
`fsr    <repaired|asis> <flags1> <rounds1> <flags2> <rounds2>` →  file system at every crash point of run 2,
                                                                  starting from what run 1 (`run1Flags flags1`) left
`traces <ver> <flagsA> <roundsA> <flagsB> <roundsB>` / `fss …` →  run B started in run A's folder (same save_ckpt_path)
`tracek` / `fsk <present|absent> <ver> <flags> <rounds>`         →  fresh run, key given / not given in the config
`tracel` / `fsl <ver> <flags> <rounds>`                         →  fresh run with the low-memory fallback
`tracea` / `fsa <ver> <flags> <rounds>`                         →  run aborted inside fit after `rounds`
`tracex` / `fsx <k> <ver> <flagsA> <roundsA> <flagsB> <roundsB>` →  run B after run A died at its crash point k
-/
open SleapVerif SleapVerif.Proto SleapVerif.TrainTrace

def pVersion : P Version := do
  let t ← tok
  if t = "repaired" then pure .repaired else if t = "asis" then pure .asIs
  else if t = "keyfixed" then pure .keyFixed else failure

def pModel : P ModelType := do
  let t ← tok
  if t = "single_instance" then pure .singleInstance
  else if t = "centroid" then pure .centroid
  else if t = "centered_instance" then pure .centeredInstance
  else if t = "bottomup" then pure .bottomup else failure

def pFw : P Framework := do
  let t ← tok
  if t = "torch_dataset" then pure .torchDataset
  else if t = "torch_dataset_np_chunks" then pure .npChunks else failure

def pFlagsRounds : P (Flags × List Bool) := do
  let m ← pModel
  let fw ← pFw
  let w ← Proto.bool
  let c ← Proto.bool
  let s ← Proto.bool
  let d ← Proto.bool
  let l ← Proto.bool
  let r ← listOf Proto.bool
  pure (⟨m, fw, w, c, s, d, l⟩, r)

def pCase2 : P (Version × (Flags × List Bool) × (Flags × List Bool)) := do
  let v ← pVersion
  let a ← pFlagsRounds
  let b ← pFlagsRounds
  pure (v, a, b)

def showStates (states : List FS) : String :=
  "ok " ++ " | ".intercalate (states.map fun fs => let s := fs.str; if s = "" then "-" else s)

def pCase : P (Version × Flags × List Bool) := do
  let v ← pVersion
  let m ← pModel
  let fw ← pFw
  let w ← Proto.bool
  let c ← Proto.bool
  let s ← Proto.bool
  let d ← Proto.bool
  let l ← Proto.bool
  let r ← listOf Proto.bool
  pure (v, ⟨m, fw, w, c, s, d, l⟩, r)

def handle (line : String) : String :=
  match tokens line with
  | "trace" :: rest =>
    match runP pCase rest with
    | some (v, f, r) => "ok " ++ " ".intercalate ((traceG v f r).map Event.str)
    | none => "bad-op"
  | "fs" :: rest =>
    match runP pCase rest with
    | some (v, f, r) =>
      let l := traceG v f r
      let states := (List.range (l.length + 1)).map fun n =>
        let s := (fsAt l n).str
        if s = "" then "-" else s
      "ok " ++ " | ".intercalate states
    | none => "bad-op"
  | "tracer" :: rest =>
    match runP pCase rest with
    | some (v, f, r) => "ok " ++ " ".intercalate ((traceR v f r).map Event.str)
    | none => "bad-op"
  | "fsr" :: rest =>
    match runP pCase2 rest with
    | some (v, (f1, r1), (f2, r2)) =>
      showStates ((List.range ((traceR v f2 r2).length + 1)).map fun n => fsReuseAt v f1 r1 f2 r2 n)
    | none => "bad-op"
  | "traces" :: rest =>
    match runP pCase2 rest with
    | some (v, (fA, _), (fB, rB)) =>
      "ok " ++ " ".intercalate ((traceS v (leftBest fA) (leftLast fA) fB rB).map Event.str)
    | none => "bad-op"
  | "fss" :: rest =>
    match runP pCase2 rest with
    | some (v, (fA, rA), (fB, rB)) =>
      showStates ((List.range ((traceS v (leftBest fA) (leftLast fA) fB rB).length + 1)).map
        fun n => fsSameAt v fA rA fB rB n)
    | none => "bad-op"
  | "tracek" :: k :: rest =>   -- fresh run whose configuration carries a key (`present`) or none (`absent`)
    match (if k = "present" then some KeyState.present else if k = "absent" then some KeyState.absent else none),
          runP pCase rest with
    | some k, some (v, f, r) => "ok " ++ " ".intercalate ((traceGK k v f r).map Event.str)
    | _, _ => "bad-op"
  | "fsk" :: k :: rest =>
    match (if k = "present" then some KeyState.present else if k = "absent" then some KeyState.absent else none),
          runP pCase rest with
    | some k, some (v, f, r) =>
      showStates ((List.range ((traceGK k v f r).length + 1)).map fun n => fsAt (traceGK k v f r) n)
    | _, _ => "bad-op"
  | "tracel" :: rest =>      -- fresh run on a host where the in-memory cache does not fit (low-memory fallback)
    match runP pCase rest with
    | some (v, f, r) => "ok " ++ " ".intercalate ((traceLM v f r).map Event.str)
    | none => "bad-op"
  | "fsl" :: rest =>
    match runP pCase rest with
    | some (v, f, r) =>
      showStates ((List.range ((traceLM v f r).length + 1)).map fun n => fsAt (traceLM v f r) n)
    | none => "bad-op"
  | "tracea" :: rest =>      -- aborted inside fit after the given rounds
    match runP pCase rest with
    | some (v, f, r) => "ok " ++ " ".intercalate ((traceAbort v f r).map Event.str)
    | none => "bad-op"
  | "fsa" :: rest =>
    match runP pCase rest with
    | some (v, f, r) =>
      showStates ((List.range ((traceAbort v f r).length + 1)).map fun n => fsAt (traceAbort v f r) n)
    | none => "bad-op"
  | "tracex" :: k :: rest =>  -- run B after run A died at its crash point k (before any checkpoint)
    match k.toNat?, runP pCase2 rest with
    | some _, some (v, _, (fB, rB)) => "ok " ++ " ".intercalate ((traceS v false false fB rB).map Event.str)
    | _, _ => "bad-op"
  | "fsx" :: k :: rest =>
    match k.toNat?, runP pCase2 rest with
    | some k, some (v, (fA, rA), (fB, rB)) =>
      showStates ((List.range ((traceS v false false fB rB).length + 1)).map
        fun n => fsCrashedAt v fA rA k false false fB rB n)
    | _, _ => "bad-op"
  | _ => "bad-op"

def main : IO Unit := mainLoop' handle
