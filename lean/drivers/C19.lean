import SleapVerif.Model.Proto
import SleapVerif.Model.TrainTrace
/-! Driver for C19.
Lines (flags: model ∈ single_instance|centroid|centered_instance|bottomup, fw ∈ torch_dataset|torch_dataset_np_chunks,
four booleans wandb ckpt structured delete, then `<n> b1 … bn` = per-epoch "val loss improved"):

`trace <repaired|asis> <flags> <rounds>`  →  `ok e1 e2 …`          (events, see `Event.str`)
`fs    <repaired|asis> <flags> <rounds>`  →  `ok s0 | s1 | … | sN` (file system at every crash point, `-` = empty)
-/
open SleapVerif SleapVerif.Proto SleapVerif.TrainTrace

def pVersion : P Version := do
  let t ← tok
  if t = "repaired" then pure .repaired else if t = "asis" then pure .asIs else failure

def pModel : P ModelType := do
  let t ← tok
  if t = "single_instance" then pure .singleInstance
  else if t = "centroid" then pure .centroid
  else if t = "centered_instance" then pure .centeredInstance
  else if t = "bottomup" then pure .bottomup else failure

def pFw : P Framework := do
  let t ← tok
  if t = "torch_dataset" then pure .torchDataset
  else if t = "torch_dataset_np_chunks" then pure .npChunks else failure

def pCase : P (Version × Flags × List Bool) := do
  let v ← pVersion
  let m ← pModel
  let fw ← pFw
  let w ← Proto.bool
  let c ← Proto.bool
  let s ← Proto.bool
  let d ← Proto.bool
  let r ← listOf Proto.bool
  pure (v, ⟨m, fw, w, c, s, d⟩, r)

def handle (line : String) : String :=
  match tokens line with
  | "trace" :: rest =>
    match runP pCase rest with
    | some (v, f, r) => "ok " ++ " ".intercalate ((traceG v f r).map Event.str)
    | none => "bad-op"
  | "fs" :: rest =>
    match runP pCase rest with
    | some (v, f, r) =>
      let l := traceG v f r
      let states := (List.range (l.length + 1)).map fun n =>
        let s := (fsAt l n).str
        if s = "" then "-" else s
      "ok " ++ " | ".intercalate states
    | none => "bad-op"
  | _ => "bad-op"

def main : IO Unit := mainLoop' handle
