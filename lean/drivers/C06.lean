import SleapVerif.Model.Proto
import SleapVerif.Model.Peaks
/-!
Driver for C06.  One line in, one line out.

`local <thr> <p> <S> <C> <h> <w> <n> v_1 … v_n`   (row-major (S,C,h,w), `p` = integral_patch_size, `p = 0` = no refinement)
  → `<k>` then per peak `x y val sample channel px py`   (`px py` = `nan nan` without refinement,
    `inf inf` when the patch sum is 0)
`offsets <p> <n> v_1 … v_n`  (row-major p×p patch) → `dx dy` | `inf inf`
-/
open SleapVerif SleapVerif.Proto SleapVerif.Peaks

def big : Rat := 10000

def ptStr : Option (Rat × Rat) → String
  | some (x, y) => s!"{ratStr x} {ratStr y}"
  | none => "inf inf"

def pLocal : P String := do
  let thr ← rat; let r ← nat; let S ← nat; let C ← nat; let h ← nat; let w ← nat
  let vals ← listOf rat
  let b : Batch Rat := Batch.ofArray S C h w vals.toArray
  let rough := localPeaksRough big thr b
  if r = 0 then
    let items := rough.map fun p => s!"{p.x} {p.y} {ratStr p.val} {p.sample} {p.channel} nan nan"
    pure (" ".intercalate (toString rough.length :: items))
  else
    let ps := refineLocal r b rough
    let items := (rough.zip ps).map fun (p, q) =>
      s!"{p.x} {p.y} {ratStr q.val} {q.sample} {q.channel} {ptStr q.pt}"
    pure (" ".intercalate (toString ps.length :: items))

def pOffsets : P String := do
  let p ← nat
  let vals ← listOf rat
  let a := vals.toArray
  pure (ptStr (integralOffsets p fun i j => a.getD (i * p + j) 0))

def handle (line : String) : String :=
  match tokens line with
  | "local" :: ts => (runP pLocal ts).getD "parse-error"
  | "offsets" :: ts => (runP pOffsets ts).getD "parse-error"
  | _ => "unknown-op"

def main : IO Unit := mainLoop' handle
