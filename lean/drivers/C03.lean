import SleapVerif.Model.Proto
import SleapVerif.Model.BottomUp
/-! Driver for C03.

`sample <fixed> <nNodes> <edges: n (u v)*> <cmsStride> <pafStride> <ts: n t*> <ratio> <weight> <minLine>
        <minPeaks: i <int> | f <rat>> <inputScale> <eff> <h> <w> <c> <paf: h*w*c values, (h,w,c) row-major>
        <peaks: n (gx gy val ch)*> <per edge: r | m n (i j)*>`
  → `<ok | raise err> | cand n (e s d score)* | fsubs (chx chy (row col)^nT)* | rsubs ((row col mrow mcol)^nT)*
     | conn n (sn si dn di score)* | inst n ((idx|-1)^nNodes score)* | coords (x y | nan nan)* | vals (v | nan)*`
  `<fixed>` = 1: the matching of /repo HEAD (after `fixes/C08-infeasible.patch`), 0: the pinned one;
  `fsubs`/scores/grouping: the model at `Float` with the given `ts` (float32 `linspace` values);
  `rsubs`/`coords`: the same definitions at `Rat` with the exact `linspace` (margin = distance of the
  rounding decision of that coordinate from a tie, `|2·frac − 1|`).

`subs <stride> <h> <w> <ts: n t*> <n (e sx sy dx dy)*>` → per candidate (joined by ` | `) `chx chy (row col)^nT ; (row col mrow mcol)^nT`

`keeptop <k | none> <n score*>` → indices kept, in order
-/
open SleapVerif SleapVerif.Proto SleapVerif.BottomUp SleapVerif.Grouping SleapVerif.Toposort

def flF (x : Float) : Int := (Float.floor x).toInt64.toInt
def castF (i : Int) : Float := Float.ofInt i
def flQ (x : Rat) : Int := x.floor
def castQ (i : Int) : Rat := (i : Rat)
def toF (q : Rat) : Float := ratToFloat q

def pEdges : P (List Edge) := listOf (do let u ← nat; let v ← nat; pure (u, v))

def pMinPeaks : P MinPeaks := do
  let t ← tok
  if t = "i" then do let n ← int; pure (.int n)
  else if t = "f" then do let q ← rat; pure (.frac q)
  else failure

def pLsaAns : P (Option (List (Nat × Nat))) := do
  let t ← tok
  if t = "r" then pure none
  else if t = "m" then do
    let l ← listOf (do let i ← nat; let j ← nat; pure (i, j)); pure (some l)
  else failure

def errStr : GErr → String
  | .infeasible => "infeasible" | .keyError => "keyError"
  | .assertion => "assertion" | .noOrder => "noOrder"

def subsStr (l : List LineSub) : String :=
  " ".intercalate (l.map fun s => s!"{s.row} {s.col}")

/-- `row col mrow mcol` per point: subscripts of the exact run with their rounding margins -/
def subsMStr (l : List LineSub) (ms : List (Rat × Rat)) : String :=
  " ".intercalate ((l.zip ms).map fun x => s!"{x.1.row} {x.1.col} {ratStr x.2.1} {ratStr x.2.2}")

def chStr (l : List LineSub) : String :=
  match l with
  | [] => "-1 -1"
  | s :: _ => s!"{s.chX} {s.chY}"

def optNatStr : Option Nat → String
  | none => "-1" | some n => toString n

def handleSample (rest : List String) : String :=
  let p : P _ := do
    let fixed ← bool
    let nNodes ← nat
    let edges ← pEdges
    let cs ← nat; let ps ← nat
    let ts ← listOf rat
    let ratio ← rat; let weight ← rat; let minLine ← rat
    let mp ← pMinPeaks
    let inputScale ← rat; let eff ← rat
    let h ← nat; let w ← nat; let c ← nat
    let data ← rep (h * w * c) rat
    let peaks ← listOf (do let gx ← rat; let gy ← rat; let v ← rat; let ch ← nat; pure (gx, gy, v, ch))
    let ans ← rep edges.length pLsaAns
    pure (fixed, nNodes, edges, cs, ps, ts, ratio, weight, minLine, mp, inputScale, eff, h, w, c, data, peaks, ans)
  match runP p rest with
  | none => "bad-op"
  | some (fixed, nNodes, edges, cs, ps, ts, ratio, weight, minLine, mp, inputScale, eff, h, w, c, data, peaks, ans) =>
    let PF : BottomUp.Params Float :=
      { nNodes := nNodes, edges := edges, cmsStride := cs, pafStride := ps, ts := ts.map toF,
        maxLenRatio := toF ratio, distWeight := toF weight, minLine := toF minLine, minPeaks := mp,
        inputScale := toF inputScale }
    let PQ : BottomUp.Params Rat :=
      { nNodes := nNodes, edges := edges, cmsStride := cs, pafStride := ps, ts := linspace castQ ts.length,
        maxLenRatio := ratio, distWeight := weight, minLine := minLine, minPeaks := mp,
        inputScale := inputScale }
    let pafF : Paf Float := ⟨h, w, c, (data.map toF).toArray⟩
    let peaksF : List (GPeak Float) := peaks.map fun p => ⟨(toF p.1, toF p.2.1), toF p.2.2.1, p.2.2.2⟩
    let peaksQ : List (GPeak Rat) := peaks.map fun p => ⟨(p.1, p.2.1), p.2.2.1, p.2.2.2⟩
    -- exact run of the line sampling (ideal linspace)
    let imgQ := peaksQ.map fun p => peaksImg castQ cs p.g
    let rsubs := (Grouping.candidates (peaksQ.map (·.ch)) edges).map fun cd =>
      let src := imgQ.getD cd.2.1 (0, 0)
      let dst := imgQ.getD cd.2.2 (0, 0)
      subsMStr (lineSubs flQ castQ ps h w cd.1 src dst PQ.ts) (lineMargins flQ castQ ps src dst PQ.ts)
    let rsubsS := "rsubs " ++ " ".intercalate rsubs
    let candsF := scoreCands flF castF Float.sqrt PF pafF peaksF
    let candS := s!"cand {candsF.length} " ++ " ".intercalate
      (candsF.map fun cd => s!"{cd.edge} {cd.src} {cd.dst} {floatStr cd.score}")
    let fsubsS := "fsubs " ++ " ".intercalate (candsF.map fun cd => chStr cd.subs ++ " " ++ subsStr cd.subs)
    -- scipy as a function: the recorded answer of edge k for the model's own cost matrix of edge k
    let chs := peaksF.map (·.ch)
    let tabs := scoreTables Float.isFinite chs edges candsF
    let cms : List (Mat (Option Float)) := edges.zipIdx.map fun x =>
      let C := costMatrix chs x.1 (tabs.getD x.2 [])
      if fixed then fillInvalid C else C
    let table := cms.zip ans
    let lsa : Lsa Float := fun C => ((table.find? (fun kv => kv.1 == C)).map (·.2)).getD none
    match forwardSample fixed Float.isFinite flF castF Float.sqrt PF pafF peaksF lsa with
    | .error e => s!"raise {errStr e} | {candS} | {fsubsS} | {rsubsS}"
    | .ok o =>
      let connS := s!"conn {o.conns.length} " ++ " ".intercalate
        (o.conns.map fun cn => s!"{cn.src.1} {cn.src.2} {cn.dst.1} {cn.dst.2} {floatStr cn.score}")
      let instS := s!"inst {o.rows.length} " ++ " ".intercalate
        ((o.rows.zip o.scores).map fun rs => " ".intercalate (rs.1.map optNatStr) ++ " " ++ floatStr rs.2)
      let coordS := "coords " ++ " ".intercalate (o.rows.map fun row =>
        " ".intercalate ((rowCoords castQ PQ eff peaksQ row).map fun
          | none => "nan nan"
          | some (x, y) => ratStr x ++ " " ++ ratStr y))
      let valS := "vals " ++ " ".intercalate (o.rows.map fun row =>
        " ".intercalate ((rowVals peaksQ row).map oratStr))
      s!"ok | {candS} | {fsubsS} | {rsubsS} | {connS} | {instS} | {coordS} | {valS}"

def handleSubs (rest : List String) : String :=
  let p : P _ := do
    let ps ← nat; let h ← nat; let w ← nat
    let ts ← listOf rat
    let cds ← listOf (do
      let e ← nat; let sx ← rat; let sy ← rat; let dx ← rat; let dy ← rat; pure (e, sx, sy, dx, dy))
    pure (ps, h, w, ts, cds)
  match runP p rest with
  | none => "bad-op"
  | some (ps, h, w, ts, cds) =>
    let tsQ : List Rat := linspace castQ ts.length
    " | ".intercalate (cds.map fun (e, sx, sy, dx, dy) =>
      let f := lineSubs flF castF ps h w e (toF sx, toF sy) (toF dx, toF dy) (ts.map toF)
      let q := lineSubs flQ castQ ps h w e (sx, sy) (dx, dy) tsQ
      chStr f ++ " " ++ subsStr f ++ " ; " ++ subsMStr q (lineMargins flQ castQ ps (sx, sy) (dx, dy) tsQ))

def handleKeepTop (rest : List String) : String :=
  let p : P _ := do
    let t ← tok
    let k ← (if t = "none" then pure none else match t.toNat? with
      | some k => pure (some k) | none => failure : P (Option Nat))
    let sc ← listOf rat
    pure (k, sc)
  match runP p rest with
  | none => "bad-op"
  | some (k, sc) =>
    natsStr ((keepTop k ((List.range sc.length).zip sc)).map (·.1))

def handle (line : String) : String :=
  match tokens line with
  | "sample" :: rest => handleSample rest
  | "subs" :: rest => handleSubs rest
  | "keeptop" :: rest => handleKeepTop rest
  | _ => "bad-op"

def main : IO Unit := mainLoop' handle
