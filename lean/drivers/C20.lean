import SleapVerif.Model.Proto
import SleapVerif.Model.Config
/-!
Driver for C20 (stateful: the class-default environment is sent first, as data).

Tree tokens:  `n` | `T` | `F` | `i<int>` | `f<rat>` | `fnan` | `finf` | `f-inf` | `s<text>` | `L <k> v1 … vk` |
              `U <k> v1 … vk` (tuple argument; printed back as `L`) |
              `N <k> key1 t1 … keyk tk`
(text and keys are percent-encoded by the harness so that they contain no blanks; the model never
decodes them — plain identifiers are their own encoding).

Lines:
  `env <Class> <tree>`            register the default tree of an attrs class        → `ok`
  `sub <Child> <Parent>`          register `issubclass(Child, Parent)`               → `ok`
  `aug <asIs|fixed> <ia> <ga>`    get_aug_config
  `backbone <a>` `head <a>` `lrs <a>`
  `data <asIs|fixed> <args>` `model <args>` `modelraw <args>` `trainer <args>`
  `assign <Class> <field> <kwargs> <value>`   construct, then `obj.field = value`; answers the field's value afterwards
  `train <args>`                  the config `train()` hands to run_training
  `mk <Class> <kwargs>`           attrs constructor + validators
  `which <name|value> <Class> <kwargs> <assignments>`   construct, assign attributes in order (a node whose
                                  entries may repeat a key), then which_oneof_attrib_name() / which_oneof()
  `verify <cfg>`                  verify_training_cfg (schema = env TrainingJobConfig)
  `merge <s> <c>`
Answers: `ok <tree>` | `raise <ExceptionClass>` | `bad-op`.
-/
open SleapVerif SleapVerif.Proto SleapVerif.Config

partial def pValue : P Value := do
  let t ← tok
  if t = "n" then pure .null
  else if t = "T" then pure (.bool true)
  else if t = "F" then pure (.bool false)
  else if t = "fnan" then pure .nan
  else if t = "finf" then pure (.inf false)
  else if t = "f-inf" then pure (.inf true)
  else if t = "L" then do
    let k ← nat
    let rec go : Nat → P (List Value)
      | 0 => pure []
      | j+1 => do let v ← pValue; let r ← go j; pure (v :: r)
    let l ← go k
    pure (.list l)
  else if t = "U" then do
    let k ← nat
    let rec goU : Nat → P (List Value)
      | 0 => pure []
      | j+1 => do let v ← pValue; let r ← goU j; pure (v :: r)
    let l ← goU k
    pure (.tuple l)
  else match t.front with
    | 'i' => match parseInt? (t.drop 1).toString with
      | some i => pure (.int i)
      | none => failure
    | 'f' => match parseRat? (t.drop 1).toString with
      | some q => pure (.num q)
      | none => failure
    | 's' => pure (.str (t.drop 1).toString)
    | _ => failure

partial def pCfg : P Cfg := do
  match (← get) with
  | "N" :: _ => do
    let _ ← tok
    let k ← nat
    let rec go : Nat → P Kvs
      | 0 => pure []
      | j+1 => do let key ← tok; let v ← pCfg; let r ← go j; pure ((key, v) :: r)
    let kvs ← go k
    pure (.node kvs)
  | _ => do let v ← pValue; pure (.leaf v)

partial def valueStr : Value → String
  | .null => "n"
  | .bool true => "T"
  | .bool false => "F"
  | .int i => s!"i{i}"
  | .num q => "f" ++ ratStr q
  | .nan => "fnan"
  | .inf false => "finf"
  | .inf true => "f-inf"
  | .str s => "s" ++ s
  | .list l => " ".intercalate (["L", toString l.length] ++ l.map valueStr)
  -- `OmegaConf.structured` (the observation point) stores a tuple as a list
  | .tuple l => " ".intercalate (["L", toString l.length] ++ l.map valueStr)

partial def cfgStr : Cfg → String
  | .leaf v => valueStr v
  | .node kvs => " ".intercalate (["N", toString kvs.length] ++ kvs.map (fun kv => kv.1 ++ " " ++ cfgStr kv.2))

structure St where
  cls : List (String × Cfg) := []
  sub : List (String × String) := []

def St.env (s : St) : Env :=
  { cls := fun c => (lookup c s.cls).getD cnull,
    sub := fun a b => a = b ∨ s.sub.contains (a, b) }

def out : Except String Cfg → String
  | .ok c => "ok " ++ cfgStr c
  | .error e => "raise " ++ e

def pVariant : P Variant := do
  let t ← tok
  if t = "asIs" then pure .asIs else if t = "fixed" then pure .fixed else failure

def argsOf : Cfg → Kvs
  | .node kvs => kvs
  | .leaf _ => []

def step (s : St) (line : String) : St × String :=
  match tokens line with
  | "env" :: c :: rest =>
    match runP pCfg rest with
    | some t => ({ s with cls := (c, t) :: s.cls }, "ok")
    | none => (s, "bad-op")
  | ["sub", a, b] => ({ s with sub := (a, b) :: s.sub }, "ok")
  | "aug" :: rest =>
    match runP (do let v ← pVariant; let i ← pCfg; let g ← pCfg; pure (v, i, g)) rest with
    | some (v, i, g) => (s, out (getAugConfig v s.env i g))
    | none => (s, "bad-op")
  | "backbone" :: rest =>
    match runP pCfg rest with
    | some a => (s, out (backboneStructured s.env a))
    | none => (s, "bad-op")
  | "head" :: rest =>
    match runP pCfg rest with
    | some a => (s, out (getHeadConfigs s.env a))
    | none => (s, "bad-op")
  | "lrs" :: rest =>
    match runP pCfg rest with
    | some a => (s, out (lrScheduler s.env a))
    | none => (s, "bad-op")
  | "data" :: rest =>
    match runP (do let v ← pVariant; let a ← pCfg; pure (v, a)) rest with
    | some (v, a) => (s, out (getDataConfig v s.env (argsOf a)))
    | none => (s, "bad-op")
  | "model" :: rest =>
    match runP pCfg rest with
    | some a => (s, out (modelStructured s.env (argsOf a)))
    | none => (s, "bad-op")
  | "modelraw" :: rest =>
    match runP pCfg rest with
    | some a => (s, out (getModelConfig s.env (argsOf a)))
    | none => (s, "bad-op")
  | "trainer" :: rest =>
    match runP pCfg rest with
    | some a => (s, out (getTrainerConfig s.env (argsOf a)))
    | none => (s, "bad-op")
  | "assign" :: c :: f :: rest =>
    match runP (do let kw ← pCfg; let v ← pCfg; pure (kw, v)) rest with
    | some (kw, v) => (s, out (assignAfter s.env c (argsOf kw) f v))
    | none => (s, "bad-op")
  | "train" :: rest =>
    match runP pCfg rest with
    | some a => (s, out (trainCfg s.env (argsOf a)))
    | none => (s, "bad-op")
  | "mk" :: c :: rest =>
    match runP pCfg rest with
    | some a => (s, out (mk s.env c (argsOf a)))
    | none => (s, "bad-op")
  | "which" :: mode :: c :: rest =>
    match runP (do let kw ← pCfg; let asg ← pCfg; pure (kw, asg)) rest with
    | some (kw, asg) => (s, out (oneofAfter s.env c (argsOf kw) (argsOf asg) (mode == "value")))
    | none => (s, "bad-op")
  | "verify" :: rest =>
    match runP pCfg rest with
    | some c => (s, out (verify (s.env.cls "TrainingJobConfig") c))
    | none => (s, "bad-op")
  | "merge" :: rest =>
    match runP (do let a ← pCfg; let b ← pCfg; pure (a, b)) rest with
    | some (a, b) => (s, "ok " ++ cfgStr (merge a b))
    | none => (s, "bad-op")
  | _ => (s, "bad-op")

def main : IO Unit := mainLoop step ({} : St)
