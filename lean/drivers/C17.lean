import SleapVerif.Model.Proto
import SleapVerif.Model.Toposort
/-! Driver for C17.  Lines: `toposort <n> u1 v1 … un vn` → `ok i1 … in` | `raise`;  `arbo <n> u1 v1 …` → `1` | `0` (decidable hypothesis). -/
open SleapVerif SleapVerif.Proto SleapVerif.Toposort

def handle (line : String) : String :=
  match tokens line with
  | "toposort" :: rest =>
    match runP (listOf (do let u ← nat; let v ← nat; pure (u, v))) rest with
    | some edges =>
      match toposort edges with
      | some l => "ok " ++ natsStr l
      | none => "raise"
    | none => "bad-op"
  | "arbo" :: rest =>
    match runP (listOf (do let u ← nat; let v ← nat; pure (u, v))) rest with
    | some edges => if isArbo edges then "1" else "0"
    | none => "bad-op"
  | _ => "bad-op"

def main : IO Unit := mainLoop' handle
