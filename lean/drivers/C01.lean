import SleapVerif.Model.Proto
import SleapVerif.Model.Confmaps
/-!
Line-protocol driver for C01.  Every request runs the SAME generic definitions twice:

* at `Rat` with the order surrogate `exp x := 1/(1-x)` (positive and strictly increasing on
  `x ≤ 0`, the only arguments the model ever passes): exact shape, exact zero pattern, exact
  first-argmax cell per channel;
* at `Float` with `Float.exp`: the values (sent as IEEE bit patterns).

requests (always a whole batch of S samples; the batch-level model definitions are called)
  cm    σ stride H W  S n (x y)*(S·n)                                   confmapsBatch
  cm4   σ stride H W  S nInst nNodes (x y)*(S·nInst·nNodes)             confmaps4 (rank-4 flattening)
  multi σ stride H W  numInstances nNodes S nAnimals (x y)*(S·nAnimals·nNodes)   multiConfmapsBatch
  cent  σ stride H W  numInstances S n (x y)*(S·n)                      centroidConfmapsBatch
reply   per sample, joined by ` ; `:  `C h w rect | z_1 … z_C | a_1 … a_C | v …`   (z: 1 = channel not identically zero;
        a: flat row-major index of the first maximum, -1 on an empty channel; v row-major)
-/
open SleapVerif SleapVerif.Proto SleapVerif.Confmaps SleapVerif.Scalar SleapVerif.Grid

def surr (x : Rat) : Rat := 1 / (1 - x)

def ptF : Option (Rat × Rat) → Option (Float × Float)
  | some (x, y) => some (ratToFloat x, ratToFloat y)
  | none => none

def point : P (Option (Rat × Rat)) := do
  let x ← orat; let y ← orat; pure (mkPoint x y)

def chunks {α} (k : Nat) (l : List α) : List (List α) :=
  if k = 0 then [] else
  (List.range (l.length / k)).map fun i => (l.drop (i * k)).take k

def report (mq : List (List (List Rat))) (mf : List (List (List Float))) (h w : Nat) : String :=
  let zs := mq.map fun ch => if ch.all (fun row => row.all (· == 0)) then "0" else "1"
  let am := mq.map fun ch =>
    match argmaxFirst ch.flatten with
    | some (i, _) => toString i
    | none => "-1"
  let hh := match mq with | [] => h | ch :: _ => ch.length
  let ww := match mq with | [] => w | ch :: _ => (match ch with | [] => w | r :: _ => r.length)
  let rect := mq.all fun ch => ch.length == hh && ch.all (·.length == ww)
  let vals := (mf.flatten.flatten).map floatStr
  s!"{mq.length} {hh} {ww} {if rect then 1 else 0} | {" ".intercalate zs} | {" ".intercalate am} | {" ".intercalate vals}"

def reportB (mq : List (List (List (List Rat)))) (mf : List (List (List (List Float)))) (h w : Nat) : String :=
  " ; ".intercalate ((mq.zip mf).map fun (q, f) => report q f h w)

def request : P String := do
  let op ← tok
  let sigma ← rat
  let stride ← nat
  let H ← nat
  let W ← nat
  let h := gridLen H stride
  let w := gridLen W stride
  let castQ : Nat → Rat := fun n => (n : Rat)
  let castF : Nat → Float := Float.ofNat
  let sf := ratToFloat sigma
  match op with
  | "cm" =>
    let S ← nat
    let n ← nat
    let pts ← rep (S * n) point
    let batch := if n = 0 then List.replicate S [] else chunks n pts
    pure <| reportB (confmapsBatch surr castQ sigma stride H W batch)
      (confmapsBatch Float.exp castF sf stride H W (batch.map (·.map ptF))) h w
  | "cm4" =>
    let S ← nat
    let ni ← nat
    let nn ← nat
    let pts ← rep (S * ni * nn) point
    let animals := if nn = 0 then List.replicate (S * ni) [] else chunks nn pts
    let batch := if ni = 0 then List.replicate S [] else chunks ni animals
    pure <| reportB (batch.map (confmaps4 surr castQ sigma stride H W))
      (batch.map fun b => confmaps4 Float.exp castF sf stride H W (b.map (·.map ptF))) h w
  | "multi" =>
    let ni ← nat
    let nn ← nat
    let S ← nat
    let na ← nat
    let pts ← rep (S * na * nn) point
    let animals := if nn = 0 then List.replicate (S * na) [] else chunks nn pts
    let batch := if na = 0 then List.replicate S [] else chunks na animals
    pure <| reportB (multiConfmapsBatch surr castQ sigma stride H W ni nn batch)
      (multiConfmapsBatch Float.exp castF sf stride H W ni nn (batch.map (·.map (·.map ptF)))) h w
  | "cent" =>
    let ni ← nat
    let S ← nat
    let n ← nat
    let pts ← rep (S * n) point
    let batch := if n = 0 then List.replicate S [] else chunks n pts
    pure <| reportB (centroidConfmapsBatch surr castQ sigma stride H W ni batch)
      (centroidConfmapsBatch Float.exp castF sf stride H W ni (batch.map (·.map ptF))) h w
  | _ => failure

def handle (line : String) : String :=
  match runP request (tokens line) with
  | some s => s
  | none => "error"

def main : IO Unit := mainLoop' handle
