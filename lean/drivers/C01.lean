import SleapVerif.Model.Proto
import SleapVerif.Model.Confmaps
/-!
Line-protocol driver for C01.  Every request runs the SAME generic definitions twice:

* at `Rat` with the order surrogate `exp x := 1/(1-x)` (positive and strictly increasing on
  `x ≤ 0`, the only arguments the model ever passes): exact shape, exact zero pattern, exact
  first-argmax cell per channel;
* at `Float` with `Float.exp`: the values (sent as IEEE bit patterns).

requests
  cm    σ stride H W  <n> (x y)*n
  multi σ stride H W  numInstances nNodes <nAnimals> (x y)*(nAnimals·nNodes)
  cent  σ stride H W  numInstances <n> (x y)*n
reply   `C h w rect | z_1 … z_C | a_1 … a_C | v …`   (z: 1 = channel not identically zero;
        a: flat row-major index of the first maximum, -1 on an empty channel; v row-major)
-/
open SleapVerif SleapVerif.Proto SleapVerif.Confmaps SleapVerif.Scalar SleapVerif.Grid

def surr (x : Rat) : Rat := 1 / (1 - x)

def ptF : Option (Rat × Rat) → Option (Float × Float)
  | some (x, y) => some (ratToFloat x, ratToFloat y)
  | none => none

def point : P (Option (Rat × Rat)) := do
  let x ← orat; let y ← orat; pure (mkPoint x y)

def chunks {α} (k : Nat) (l : List α) : List (List α) :=
  if k = 0 then [] else
  (List.range (l.length / k)).map fun i => (l.drop (i * k)).take k

def report (mq : List (List (List Rat))) (mf : List (List (List Float))) (h w : Nat) : String :=
  let zs := mq.map fun ch => if ch.all (fun row => row.all (· == 0)) then "0" else "1"
  let am := mq.map fun ch =>
    match argmaxFirst ch.flatten with
    | some (i, _) => toString i
    | none => "-1"
  let hh := match mq with | [] => h | ch :: _ => ch.length
  let ww := match mq with | [] => w | ch :: _ => (match ch with | [] => w | r :: _ => r.length)
  let rect := mq.all fun ch => ch.length == hh && ch.all (·.length == ww)
  let vals := (mf.flatten.flatten).map floatStr
  s!"{mq.length} {hh} {ww} {if rect then 1 else 0} | {" ".intercalate zs} | {" ".intercalate am} | {" ".intercalate vals}"

def request : P String := do
  let op ← tok
  let sigma ← rat
  let stride ← nat
  let H ← nat
  let W ← nat
  let h := gridLen H stride
  let w := gridLen W stride
  let castQ : Nat → Rat := fun n => (n : Rat)
  let castF : Nat → Float := Float.ofNat
  let sf := ratToFloat sigma
  match op with
  | "cm" =>
    let kps ← listOf point
    pure <| report (confmaps surr castQ sigma stride H W kps)
      (confmaps Float.exp castF sf stride H W (kps.map ptF)) h w
  | "multi" =>
    let ni ← nat
    let nn ← nat
    let na ← nat
    let pts ← rep (na * nn) point
    let animals := if nn = 0 then List.replicate na [] else chunks nn pts
    pure <| report (multiConfmaps surr castQ sigma stride H W ni nn animals)
      (multiConfmaps Float.exp castF sf stride H W ni nn (animals.map (·.map ptF))) h w
  | "cent" =>
    let ni ← nat
    let cs ← listOf point
    pure <| report (centroidConfmaps surr castQ sigma stride H W ni cs)
      (centroidConfmaps Float.exp castF sf stride H W ni (cs.map ptF)) h w
  | _ => failure

def handle (line : String) : String :=
  match runP request (tokens line) with
  | some s => s
  | none => "error"

def main : IO Unit := mainLoop' handle
