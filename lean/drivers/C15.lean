import SleapVerif.Model.Proto
import SleapVerif.Model.Oks
/-! Driver for C15 (one op per line → one output line).

* `oks <coco> <eps> <sds:list rat> <gts:list (scale:orat, pts:list (orat orat))> <prs:list (pts)>`
    → `ok <n_gt> <n_pr> v…` row-major, the generic model run at `Float` with `Float.exp`
      (`nan` = NaN), values as IEEE bit patterns
* `oksr …` (same arguments) → the same matrix with everything up to the argument of `exp` computed exactly at `Rat`
* `area <pts>` → exact `Rat` bbox area or `nan`
* `nvis <pts>` → number of visible points
* `d2 <gpts> <ppts>` → exact squared distances per node (`nan` when either is missing)
* `match <thr:rat> <scores:list rat> <n_gt> <n_pr> m…(orat, row-major n_gt×n_pr)`
    → `<asis> | <k> g p v … | <k> fn …`  (exact `Rat`; `asis` = `ok`/`raise`)
* `greedy <n> <m> c…` → `<k> r c …`   (exact `Rat`, stable order among equal costs)
* `iou a1 a2 a3 a4 b1 b2 b3 b4` → rat
* `cosine <a:list rat> <b:list rat>` → float bits;  `euclid` likewise
* `lsa <n> <m> <pairs:list (nat nat)>` → `1`/`0` (`isAssignment`)
-/
open SleapVerif SleapVerif.Proto SleapVerif.Oks

def pt : P (Pt Rat) := do let x ← orat; let y ← orat; pure (x, y)
def pts : P (List (Pt Rat)) := listOf pt

def toF (q : Rat) : Float := ratToFloat q
def ptF (p : Pt Rat) : Pt Float := (p.1.map toF, p.2.map toF)

def ofloatStr : Option Float → String
  | none => "nan"
  | some f => floatStr f

def handle (line : String) : String :=
  match tokens line with
  | "oks" :: rest =>
    match runP (do
        let coco ← bool; let eps ← rat; let sds ← listOf rat
        let gts ← listOf (do let s ← orat; let p ← pts; pure (s, p))
        let prs ← listOf pts
        pure (coco, eps, sds, gts, prs)) rest with
    | some (coco, eps, sds, gts, prs) =>
      let m := oksMatrix (R := Float) Float.exp coco (toF eps) (sds.map toF)
        (gts.map (fun g => (g.1.map toF, g.2.map ptF))) (prs.map (·.map ptF))
      s!"ok {gts.length} {prs.length} " ++ " ".intercalate (m.flatten.map ofloatStr)
    | none => "bad-op"
  | "oksr" :: rest =>
    -- the exact part at `Rat` (squared distances, bbox area, normalisation, the argument of exp),
    -- then `Float.exp`, the sum and the division at `Float`
    match runP (do
        let coco ← bool; let eps ← rat; let sds ← listOf rat
        let gts ← listOf (do let s ← orat; let p ← pts; pure (s, p))
        let prs ← listOf pts
        pure (coco, eps, sds, gts, prs)) rest with
    | some (coco, eps, sds, gts, prs) =>
      let cell (g : Option Rat × List (Pt Rat)) (p : List (Pt Rat)) : Option Float :=
        oksPairMixed (R := Float) (Q := Rat) toF Float.exp coco eps sds g.1 g.2 p
      s!"ok {gts.length} {prs.length} " ++
        " ".intercalate ((gts.map (fun g => prs.map (cell g))).flatten.map ofloatStr)
    | none => "bad-op"
  | "area" :: rest =>
    match runP pts rest with
    | some p => oratStr (area p)
    | none => "bad-op"
  | "nvis" :: rest =>
    match runP pts rest with
    | some p => toString (p.filter isVis).length
    | none => "bad-op"
  | "d2" :: rest =>
    match runP (do let g ← pts; let p ← pts; pure (g, p)) rest with
    | some (g, p) =>
      oratsStr (List.zipWith (fun a b => match vis a, vis b with
        | some a, some b => some (d2 a b) | _, _ => none) g p)
    | none => "bad-op"
  | "match" :: rest =>
    match runP (do
        let thr ← rat; let scores ← listOf rat; let n ← nat; let m ← nat
        let flat ← rep (n * m) orat
        pure (thr, scores, n, m, flat)) rest with
    | some (thr, scores, n, m, flat) =>
      if scores.length ≠ m then "bad-op" else
      let mat : List (List (Option Rat)) := (List.range n).map (fun i => (flat.drop (i * m)).take m)
      let oks := lookup mat
      let sc : Nat → Rat := fun j => scores.getD j 0
      let asis := "ok"   -- HEAD's `match_instances` is total (the pre-6b9ee84 raise is a regression record only)
      let r := matchInstances oks sc thr (List.range n) (List.range m)
      s!"{asis} | {r.1.length} " ++ " ".intercalate (r.1.map (fun (g, p, v) => s!"{g} {p} {ratStr v}"))
        ++ s!" | {r.2.length} " ++ natsStr r.2
    | none => "bad-op"
  | "greedy" :: rest =>
    match runP (do let n ← nat; let m ← nat; let flat ← rep (n * m) rat; pure (n, m, flat)) rest with
    | some (n, m, flat) =>
      let mat : List (List Rat) := (List.range n).map (fun i => (flat.drop (i * m)).take m)
      let r := greedyMatching mat
      s!"{r.length} " ++ " ".intercalate (r.map (fun (a, b) => s!"{a} {b}"))
    | none => "bad-op"
  | "iou" :: rest =>
    match runP (rep 8 rat) rest with
    | some [a1, a2, a3, a4, b1, b2, b3, b4] => ratStr (iou (a1, a2, a3, a4) (b1, b2, b3, b4))
    | _ => "bad-op"
  | "cosine" :: rest =>
    match runP (do let a ← listOf rat; let b ← listOf rat; pure (a, b)) rest with
    | some (a, b) => floatStr (cosine (R := Float) Float.sqrt (a.map toF) (b.map toF))
    | none => "bad-op"
  | "euclid" :: rest =>
    match runP (do let a ← listOf rat; let b ← listOf rat; pure (a, b)) rest with
    | some (a, b) => floatStr (negEuclid (R := Float) Float.sqrt (a.map toF) (b.map toF))
    | none => "bad-op"
  | "lsa" :: rest =>
    match runP (do let n ← nat; let m ← nat
                   let a ← listOf (do let r ← nat; let c ← nat; pure (r, c)); pure (n, m, a)) rest with
    | some (n, m, a) => if isAssignment n m a then "1" else "0"
    | none => "bad-op"
  | _ => "bad-op"

def main : IO Unit := mainLoop' handle
