import SleapVerif.Model.Proto
import SleapVerif.Model.Arch
import SleapVerif.Gen.TranslatedArch
/-! Driver for C14.

`model fam variant filters p q maxStride bos stem cpb middle upInterp inCh fixMid fixWrap stemKernel fixHead bottomup <nh> (name head-spec)*  [the mapping, in its key order] <nc> (h w)*`
  → `construct-raise <err>` | `built L <labels> O <dec out> I <head in> E <enc conv in/out…> C <dec convIn tIn…> | <last call>` with
    `<last call>` = `fwd-raise <err>` | `ok G <n> (label ch h w)* H <n> (ch h w)*`
  (the calls are a history on one module: first call fresh pools, later calls stale pools).
`sameconv n k`       → `sameConvOut n k` and `explicitHalfPadOut n k`
`gfilt stem|down|dec f p q block stem down` → generated filter-count definitions
`pad i k s d`        → generated `_calc_same_pad`
`blocks none stem ms bos` → generated `UNet.from_config` block counts `down up stem`
-/
open SleapVerif SleapVerif.Proto SleapVerif.Arch

def errStr : Err → String
  | .value n => s!"ValueError {n}"
  | .runtime => "RuntimeError"
  | .index => "IndexError"
  | .unbound => "UnboundLocalError"
  | .negPow => "ValueError"

def lstStr (l : List Nat) : String := s!"{l.length} " ++ natsStr l

def fwdStr : Res Forward → String
  | .err e => "fwd-raise " ++ errStr e
  | .ok f =>
    "ok G " ++ toString f.stages.length ++ " " ++
      " ".intercalate (f.stages.map fun (l, c, h, w) => s!"{l} {c} {h} {w}") ++
    " H " ++ toString f.outs.length ++ " " ++
      " ".intercalate (f.outs.map fun (c, h, w) => s!"{c} {h} {w}")

/-- head spec: `c <os> <n> p1 … pn` (confmaps over a part list) | `k <os>` (centroid) |
    `p <os> <n> u1 v1 … un vn` (PAFs over an edge list).  The channel count is computed HERE, by
    the model, from the list. -/
def pHead : P Head := do
  let kind ← tok
  let os ← nat
  match kind with
  | "c" => do let parts ← listOf nat; pure ((HeadKind.confmaps parts).toHead os)
  | "k" => pure (HeadKind.centroid.toHead os)
  | "p" => do
      let edges ← listOf (do let u ← nat; let v ← nat; pure (u, v))
      pure ((HeadKind.pafs edges).toHead os)
  | _ => failure

def pCfg : P (Cfg × List (Nat × Nat) × Bool) := do
  let fam ← tok
  let fam ← match fam with
    | "unet" => pure Family.unet | "convnext" => pure Family.convnext | "swint" => pure Family.swint
    | _ => failure
  let variant ← nat; let filters ← nat; let p ← nat; let q ← nat; let ms ← nat; let bos ← nat
  let stem ← nat; let cpb ← nat; let mid ← bool; let upi ← bool; let inCh ← nat
  let fixMid ← bool; let fixWrap ← bool; let stemKernel ← nat; let fixHead ← bool
  let bottomup ← bool
  let mapping ← listOf (do let name ← tok; let h ← pHead; pure (name, h))
  let heads := getHeads bottomup mapping
  let calls ← listOf (do let h ← nat; let w ← nat; pure (h, w))
  pure ({ fam := fam, variant := variant, filters := filters, rate := ⟨p, q⟩, maxStride := ms, bos := bos,
          stem := stem, cpb := cpb, middle := mid, upInterp := upi, inCh := inCh, heads := heads,
          fixMid := fixMid, fixWrap := fixWrap, stemKernel := stemKernel }, calls, fixHead)

def handle (line : String) : String :=
  match tokens line with
  | "model" :: rest =>
    match runP pCfg rest with
    | none => "bad-op"
    | some (c, calls, fixHead) =>
      match (if fixHead then construct c else constructAsIs c) with
      | .err e => "construct-raise " ++ errStr e
      | .ok k =>
        let head := "built L " ++ lstStr (labels k.built.dec) ++ " O " ++ lstStr (k.built.dec.map (·.out))
          ++ " I " ++ lstStr k.headIn
          -- every block's declared channels: encoder convs (UNet), decoder first refine conv / ConvTranspose
          ++ " E " ++ lstStr (if c.fam == Family.unet then (encConvs k.built.enc).flatMap (fun (a, b) => [a, b]) else [])
          ++ " C " ++ lstStr (k.built.dec.flatMap fun d => [d.convIn, if c.upInterp then 0 else d.tIn])
        match callSeq c k calls true with
        | none => head
        | some r => head ++ " | " ++ fwdStr r
  | "sameconv" :: rest =>
    match runP (do let n ← nat; let k ← nat; pure (n, k)) rest with
    | some (n, k) => s!"{sameConvOut n k} {explicitHalfPadOut n k}"
    | none => "bad-op"
  | "gfilt" :: rest =>
    match runP (do let w ← tok; let f ← nat; let p ← nat; let q ← nat; let b ← int; let st ← int; let d ← int
                   pure (w, f, p, q, b, st, d)) rest with
    | some (w, f, p, q, b, st, d) =>
      let r : Rate := ⟨p, q⟩
      if w = "stem" then toString (Gen.TranslatedArch.enc_stem_block_filters f r b st)
      else if w = "down" then toString (Gen.TranslatedArch.enc_down_block_filters f r b st)
      else if w = "dec" then toString (Gen.TranslatedArch.dec_block_filters_in f r b st d)
      else "bad-op"
    | none => "bad-op"
  | "pad" :: rest =>
    match runP (do let i ← int; let k ← int; let s ← int; let d ← int; pure (i, k, s, d)) rest with
    | some (i, k, s, d) => toString (Gen.TranslatedArch.calc_same_pad i k s d)
    | none => "bad-op"
  | "blocks" :: rest =>
    match runP (do let n ← bool; let st ← int; let ms ← int; let os ← int; pure (n, st, ms, os)) rest with
    | some (n, st, ms, os) =>
      let (d, u, s) := Gen.TranslatedArch.unet_from_config_blocks n st ms os
      s!"{d} {u} {s}"
    | none => "bad-op"
  | _ => "bad-op"

def main : IO Unit := mainLoop' handle
