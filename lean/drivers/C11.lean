import SleapVerif.Model.Proto
import SleapVerif.Model.Datasets
/-! Driver for C11 (all arithmetic at `Rat`).

`cen <variant 0=asIs|1=repaired> <anchor|-1> <nInst> <nNodes> <coords…>`
   → `ok c <npts> x y … in <npts> x y … spec <npts> x y …`
   (returned centroids, the input tensor after the call, `centroidOf` per instance)

`ds <variant> <kind 0=bottomUp 1=single 2=centroid 3=centered> <userOnly> <maxH|-1> <maxW|-1> <cfgMaxH|-1> <cfgMaxW|-1>
    <scale> <anchor|-1> <cropH> <cropW> <apply_aug 0|1> <use_augmentations_train 0|1> <nFrames> {<frameIdx> <videoIdx> <H> <W> <nInst>
    {<kind 0=user 1=predicted> <nNodes> {<x> <y> <visible 0|1>}}} <seqLen> <i…>`
   → `ok len <n> idx <m> … reads <k> {s <nkeys> {<key> <npts> x y …} <num> <f> <v> <H> <W> | raise}
      spec <0|1>`   (`spec` = every read equals `specSample`, `len = specLen`, the built state satisfies `WFds` and caches exactly `specCache`)
-/
open SleapVerif SleapVerif.Proto SleapVerif.Datasets

def castQ (n : Nat) : Rat := (n : Rat)

def pt : P (Pt Rat) := do let x ← orat; let y ← orat; pure (x, y)

def ptsStr (l : List (Pt Rat)) : String :=
  " ".intercalate (toString l.length :: l.map fun p => oratStr p.1 ++ " " ++ oratStr p.2)

def optNat : P (Option Nat) := do
  let i ← int
  pure (if i < 0 then none else some i.toNat)

def variantP : P Variant := do let n ← nat; pure (if n = 0 then .asIs else .repaired)

def keyStr : Key → String
  | .instances => "instances" | .centroids => "centroids" | .instance => "instance"
  | .centroid => "centroid" | .bbox => "bbox"

def sampleStr (s : DictV Rat × SMeta) : String :=
  let ks := s.1.map fun e => keyStr e.1 ++ " " ++ ptsStr e.2
  s!"s {s.1.length} " ++ " ".intercalate ks ++
    s!" {s.2.numInstances} {s.2.frameIdx} {s.2.videoIdx} {s.2.H} {s.2.W}"

def nodeP : P (Node Rat) := do
  let p ← pt
  let v ← bool
  pure ⟨p, v⟩

def instP : P (RawInst Rat) := do
  let k ← nat
  let n ← nat
  let nodes ← rep n nodeP
  pure ⟨if k = 0 then .user else .predicted, nodes⟩

/-- frames arrive in their stored representation; the model sees them through `RawFrame.abs` -/
def frameP : P (Frame Rat) := do
  let fi ← nat; let vi ← nat; let H ← nat; let W ← nat
  let insts ← listOf instP
  pure (RawFrame.abs ⟨fi, vi, H, W, insts⟩)

def kindOf (n : Nat) : DsKind :=
  match n with | 0 => .bottomUp | 1 => .single | 2 => .centroid | _ => .centered

def cenOp : P String := do
  let v ← variantP
  let a ← optNat
  let nI ← nat
  let nN ← nat
  let pts ← rep (nI * nN) pt
  let (h0, t) := (Heap.empty : Heap Rat).allocT pts
  let (h1, c) := genCentroids v h0 t nI nN a
  let spec := (chunks nN nI pts).map (centroidOf a)
  pure s!"ok c {ptsStr (h1.readT c)} in {ptsStr (h1.readT t)} spec {ptsStr spec}"

def dsOp : P String := do
  let v ← variantP
  let kind ← nat
  let uo ← bool
  let mh ← optNat; let mw ← optNat
  let cmh ← optNat; let cmw ← optNat
  let sc ← rat
  let a ← optNat
  let ch ← nat; let cw ← nat
  let ap ← bool; let cf ← bool
  let fs ← listOf frameP
  let seq ← listOf nat
  let cfg : Cfg Rat := ⟨kindOf kind, uo, mh, mw, cmh, cmw, sc, a, ch, cw, ap, cf⟩
  let ds0 := build v cfg castQ fs
  let steps := cfg.steps castQ
  let (_, outs, specOk) := seq.foldl (fun (acc : DS Rat × List String × Bool) i =>
      let r := getItem steps acc.1 i
      let sp := specSample cfg castQ fs i
      let o := match r.2 with | some s => sampleStr s | none => "raise"
      let so := match sp with | some s => sampleStr s | none => "raise"
      (r.1, acc.2.1 ++ [o], acc.2.2 && (o == so))) (ds0, [], true)
  let idx := match cfg.kind with
    | .centered => (instanceIdxList uo fs).flatMap fun p => [p.1, p.2]
    | _ => lfIdxList uo fs
  let lenOk := ds0.cache.length == specLen cfg fs
  -- the hypothesis `WFds` of the engine theorems, checked on the built state
  let wfOk := ds0.cache.all fun e => decide (e.1 < ds0.heap.dicts.length) &&
    (ds0.heap.dicts.getD e.1 []).all fun r => decide (r.2.loc < ds0.heap.cells.length)
  -- the other hypothesis of `getitem_eq_spec`: the cache holds exactly `specCache`
  let cacheOk := (ds0.cache.map fun e => sampleStr (ds0.heap.readD e.1, e.2))
    == (specCache cfg castQ fs).map sampleStr
  pure (s!"ok len {ds0.cache.length} idx {idx.length} " ++ natsStr idx ++ s!" reads {outs.length} "
    ++ " ".intercalate outs ++ s!" spec {if specOk && lenOk && wfOk && cacheOk then 1 else 0}")

def handle (line : String) : String :=
  match tokens line with
  | "cen" :: rest => (runP cenOp rest).getD "bad-op"
  | "ds" :: rest => (runP dsOp rest).getD "bad-op"
  | _ => "bad-op"

def main : IO Unit := mainLoop' handle
