import SleapVerif.Model.Proto
import SleapVerif.Model.Peaks
/-!
Driver for C07.  One line in, one line out.

`global <thr> <p> <S> <C> <h> <w> <n> v_1 … v_n`  (row-major (S,C,h,w), `p` = integral_patch_size, `p = 0` = no refinement)
  → per flat index `k = s*C + c` ten tokens:
    `rx ry rval  ax ay aval  px py  qx qy`
    r* = repaired rough (flat argmax), a* = rough as on the pinned tree (separate argmaxes),
    p* = refined point on top of the repaired rough, q* = on top of the as-is rough;
    invalid channel: `nan nan 0`, refined `nan nan`; zero patch sum: `inf inf`.

`unravel <w> <k>` → `k % w  k / w`
-/
open SleapVerif SleapVerif.Proto SleapVerif.Peaks

def gStr (g : GPeak Rat) : String :=
  match g.pt with
  | some (x, y) => s!"{x} {y} {ratStr g.val}"
  | none => s!"nan nan {ratStr g.val}"

def rStr (r : Nat) (g : GPeak Rat) (e : GRPeak Rat) : String :=
  if r = 0 then
    match g.pt with
    | some (x, y) => s!"{x} {y}"
    | none => "nan nan"
  else
    match e.pt with
    | none => "nan nan"
    | some none => "inf inf"
    | some (some (x, y)) => s!"{ratStr x} {ratStr y}"

def pGlobal : P String := do
  let thr ← rat; let r ← nat; let S ← nat; let C ← nat; let h ← nat; let w ← nat
  let vals ← listOf rat
  let b : Batch Rat := Batch.ofArray S C h w vals.toArray
  let fixd := globalRefineFlat (globalRough thr b) r b
  let asis := globalRefineFlat (globalRoughAsIs thr b) r b
  let items := (List.range (S * C)).map fun k =>
    let g := globalRough thr b (k / C) (k % C)
    let a := globalRoughAsIs thr b (k / C) (k % C)
    s!"{gStr g} {gStr a} {rStr r g (fixd.getD k ⟨none, none, 0⟩)} {rStr r a (asis.getD k ⟨none, none, 0⟩)}"
  pure (" ".intercalate items)

/-- `unravel <w> <k>` → `x y` (exact Nat arithmetic; used for maps with more than 2^24 cells) -/
def pUnravel : P String := do
  let w ← nat; let k ← nat
  let xy := unravel w k
  pure s!"{xy.1} {xy.2}"

def handle (line : String) : String :=
  match tokens line with
  | "global" :: ts => (runP pGlobal ts).getD "parse-error"
  | "unravel" :: ts => (runP pUnravel ts).getD "parse-error"
  | _ => "unknown-op"

def main : IO Unit := mainLoop' handle
