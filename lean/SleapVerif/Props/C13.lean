import SleapVerif.Lemmas.Reader
/-!
# C13 — frame readers deliver each frame once, in order, and always end the stream

Statements are about the transition system `SleapVerif.Reader` (`Model/Reader.lean`), the model
of `VideoReader.run` / `LabelsReader.run` and `Predictor._predict_generator`, tied to the code by
`harness/c13.py` (same schedule string drives the model and the real threads).

They hold for **every** queue capacity (`cap = 0` is Python's unbounded queue), every batch size
`B ≥ 1`, every range `[start, stop)` (empty when `stop ≤ start`), every failing index
`fail : Option Nat`, every payload function `pay` and **every interleaving** — `Reach` quantifies
over all schedules; nothing is enumerated.

`expected P` = payloads of positions `start … stopIdx P - 1`, where `stopIdx P` is the failing
index when it lies inside the range and the end of the range otherwise
(`expected_no_fail`, `expected_fail` spell this out).
-/
namespace SleapVerif.C13
open SleapVerif.Reader

/-! ## What is to be delivered -/

/-- no read failure inside the range: every position of the range, each with its own payload -/
theorem expected_no_fail (P : Params) (h : ∀ k, P.fail = some k → ¬ (P.start ≤ k ∧ k < P.stop)) :
    expected P = (List.range' P.start (P.stop - P.start)).map P.pay := by
  have e : stopIdx P = max P.start P.stop := by
    unfold stopIdx
    cases hf : P.fail with
    | none => rfl
    | some k => simp only; rw [if_neg (h k hf)]
  unfold expected upto idxUpto; rw [e]
  congr 2; omega

/-- read failure at `k` inside the range: exactly the positions before `k` -/
theorem expected_fail (P : Params) (k : Nat) (hf : P.fail = some k) (h1 : P.start ≤ k)
    (h2 : k < P.stop) : expected P = (List.range' P.start (k - P.start)).map P.pay := by
  unfold expected upto idxUpto; rw [stopIdx_of_fail P k h1 h2 hf]

/-- "each with its own index and original size": the `j`-th expected item is the payload of
    position `start + j`; there are `stopIdx - start` of them -/
theorem expected_item (P : Params) (j : Nat) (hj : j < (expected P).length) :
    (expected P)[j] = P.pay (P.start + j) ∧ (expected P).length = stopIdx P - P.start :=
  ⟨expected_getElem P j hj, expected_length P⟩

/-! ## Safety: the invariant of every reachable state -/

/-- **Invariant.** In every reachable state (any schedule): the queue respects its capacity;
    what the consumer has taken followed by the frames waiting in the queue is a prefix of the
    expected sequence (nothing lost, duplicated, reordered or altered); the queue holds at most one
    marker and only as its last element; the ghost history of taken items is the delivered frames
    followed by the marker iff the consumer has left its `get` loop. -/
theorem reader_inv (P : Params) (hB : 0 < P.B) {s : St} (h : Reach P s) :
    (P.cap = 0 ∨ s.q.length ≤ P.cap) ∧
    (delivered s ++ framesOf s.q) <+: expected P ∧
    s.q.count Item.sentinel ≤ 1 ∧
    (Item.sentinel ∈ s.q → s.q.getLast? = some Item.sentinel) ∧
    s.taken = (delivered s).map Item.frame ++ (if s.c = .getting then [] else [Item.sentinel]) := by
  have I := reach_inv P hB h
  refine ⟨I.capOk, ?_, ?_, ?_, I.takenOk⟩
  · have hm := I.main
    cases hp : s.p with
    | reading i =>
      simp only [hp] at hm; obtain ⟨h1, _, h3, _, _, h6⟩ := hm
      rw [h6]; exact upto_prefix P i h1 h3
    | putting i x =>
      simp only [hp] at hm; obtain ⟨h1, _, h3, _, _, _, h6⟩ := hm
      rw [h6]; exact upto_prefix P i h1 (by omega)
    | putSent =>
      simp only [hp] at hm; rw [hm.2.2]; exact List.prefix_refl _
    | done =>
      simp only [hp] at hm
      rcases hm with ⟨_, fs, h4, h5⟩ | ⟨_, h4, h5, h6⟩
      · rw [h4, framesOf_append, framesOf_map]; simp [framesOf, h5]
      · simp [delivered, h4, h5, h6, framesOf]
  · have hm := I.main
    cases hp : s.p with
    | reading i => simp only [hp] at hm; rw [allFrames_count hm.2.2.2.2.1]; omega
    | putting i x => simp only [hp] at hm; rw [allFrames_count hm.2.2.2.2.2.1]; omega
    | putSent => simp only [hp] at hm; rw [allFrames_count hm.2.1]; omega
    | done =>
      simp only [hp] at hm
      rcases hm with ⟨_, fs, h4, _⟩ | ⟨_, h4, _⟩
      · rw [h4, List.count_append, count_sentinel_map]; simp
      · rw [h4]; simp
  · intro hmem
    have hm := I.main
    have hno : ∀ {q : List Item}, allFrames q → Item.sentinel ∈ q → False := by
      intro q hq hin
      have := allFrames_count hq
      have h2 := List.count_pos_iff.mpr hin
      omega
    cases hp : s.p with
    | reading i => simp only [hp] at hm; exact (hno hm.2.2.2.2.1 hmem).elim
    | putting i x => simp only [hp] at hm; exact (hno hm.2.2.2.2.2.1 hmem).elim
    | putSent => simp only [hp] at hm; exact (hno hm.2.1 hmem).elim
    | done =>
      simp only [hp] at hm
      rcases hm with ⟨_, fs, h4, _⟩ | ⟨_, h4, _⟩
      · rw [h4]; simp
      · rw [h4] at hmem; simp at hmem

/-! ## Liveness: no hang, every schedule ends -/

/-- **No deadlock.** A reachable state that is not the final one always has an enabled transition:
    a producer blocked on a full queue implies the consumer can `get`, a consumer blocked on an
    empty queue implies the producer can move, `join` is only reached after the reader finished. -/
theorem reader_no_deadlock (P : Params) (hB : 0 < P.B) {s : St} (h : Reach P s)
    (hnf : ¬ isFinal s) : ∃ s', Step P s s' := by
  rcases no_deadlock P s (reach_inv P hB h) with hp | hc | hf
  · obtain ⟨s', hs⟩ := Option.isSome_iff_exists.mp hp; exact ⟨s', .prod hs⟩
  · obtain ⟨s', hs⟩ := Option.isSome_iff_exists.mp hc; exact ⟨s', .cons hs⟩
  · exact absurd hf hnf

/-- **Termination.** Every transition strictly decreases the measure `mu`, so a run from `s` has at
    most `mu P s` transitions: there is no infinite schedule (no livelock). -/
theorem reader_terminates (P : Params) {n : Nat} {s s' : St} (h : Steps P n s s') :
    n ≤ mu P s := by
  have := steps_bound P h; omega

/-- every maximal run (one that cannot be extended) from the initial state ends in the final state -/
theorem reader_maximal_run_final (P : Params) (hB : 0 < P.B) {n : Nat} {s : St}
    (h : Steps P n (init P) s) (hmax : ∀ s', ¬ Step P s s') : isFinal s := by
  apply Classical.byContradiction
  intro hnf
  obtain ⟨s', hs⟩ := reader_no_deadlock P hB (steps_reach P h .init) hnf
  exact hmax s' hs

/-! ## Final state -/

/-- **Final correctness.** In the final state the reader thread has ended, the queue is empty, and
    the sequence of items taken from the queue is exactly the expected frames — each once, in
    increasing position order, with the payload of its own position — followed by exactly one
    end-of-stream marker; the consumer processed exactly these frames, in order. -/
theorem reader_final (P : Params) (hB : 0 < P.B) {s : St} (hr : Reach P s) (hf : isFinal s) :
    s.taken = (expected P).map Item.frame ++ [Item.sentinel] ∧
    s.out.flatten = expected P ∧ s.batch = [] ∧ s.q = [] ∧ s.p = .done ∧ s.c = .finished := by
  have I := reach_inv P hB hr
  obtain ⟨hp, hc, hq⟩ := hf
  have hm := I.main
  simp only [hp] at hm
  rcases hm with ⟨h3, _⟩ | ⟨_, _, h5, h6⟩
  · rw [hc] at h3; cases h3
  · refine ⟨?_, h6, h5, hq, hp, hc⟩
    rw [I.takenOk]; simp [takenSpec, delivered, h5, h6, hc]

/-- **Batches.** The processed batches are the consecutive chunks of size `B` of the expected
    sequence — batch `j` is items `j·B … j·B+B-1`, the last one possibly shorter and never empty —
    so there are `⌈n/B⌉` of them and no partial batch is lost. -/
theorem batches_partition (P : Params) (hB : 0 < P.B) {s : St} (hr : Reach P s) (hf : isFinal s) :
    (∀ (j : Nat) (hj : j < s.out.length), s.out[j] = ((expected P).drop (j * P.B)).take P.B) ∧
    s.out.length = ((expected P).length + P.B - 1) / P.B ∧
    (∀ b ∈ s.out, b ≠ []) := by
  have hfin := reader_final P hB hr hf
  have hb := (reach_binv P hB hr).last (by rw [hf.2.1]; simp)
  refine ⟨?_, ?_, ?_⟩
  · intro j hj
    rw [← hfin.2.1]; exact chunk_getElem P.B s.out hb.1 hb.2 j hj
  · rw [← hfin.2.1]; exact chunk_count P.B hB s.out hb.1 hb.2
  · intro b hbm e
    have := (hb.2 b hbm).1; rw [e] at this; simp at this

/-- while the consumer is still reading, every batch it has processed so far is full -/
theorem batches_full_while_running (P : Params) (hB : 0 < P.B) {s : St} (hr : Reach P s)
    (hc : s.c = .getting) : (∀ b ∈ s.out, b.length = P.B) ∧ s.batch.length < P.B :=
  ⟨(reach_binv P hB hr).full hc, (reach_inv P hB hr).batchLt⟩

/-! ## The executable scheduler (what the driver runs against the real threads) -/

/-- **Every schedule** `sched : Nat → Bool` (who is asked to move at step `t`), run for
    `mu P (init P)` steps, ends in the final state with the expected output: the model executions
    compared with the implementation are covered by the theorems above, whatever the schedule. -/
theorem reader_every_schedule_final (P : Params) (hB : 0 < P.B) (sched : Nat → Bool) :
    let s := (run P sched 0 (mu P (init P)) (init P)).2
    Reach P s ∧ isFinal s ∧ s.out.flatten = expected P ∧
      s.taken = (expected P).map Item.frame ++ [Item.sentinel] := by
  intro s
  have hr : Reach P s := run_reach P sched _ 0 _ .init
  have hf : isFinal s := run_final P hB sched _ 0 _ .init (Nat.le_refl _)
  have := reader_final P hB hr hf
  exact ⟨hr, hf, this.2.1, this.1⟩

/-! ## The limit on the consumer side (not part of C13's statement; stated, not hidden)

Full-strength wish: *"the reader thread always ends"*, also when the consumer stops draining the
queue (network raises inside `_predict_generator`, generator closed early). -/

/-- in every state of the extended system from which nothing can move, the reader thread has ended -/
def ReaderAlwaysEnds (P : Params) : Prop :=
  ∀ s, ReachA P s → (∀ s', ¬ StepA P s s') → s.p = .done

/-- what is provable: without the abort event it is `reader_maximal_run_final` (every `Reach`able
    stuck state is final, in particular `p = .done`) -/
theorem reader_always_ends_partial (P : Params) (hB : 0 < P.B) {s : St} (h : Reach P s)
    (hmax : ∀ s', ¬ Step P s s') : s.p = .done := by
  apply Classical.byContradiction
  intro hne
  have hnf : ¬ isFinal s := fun hf => hne hf.1
  obtain ⟨s', hs⟩ := reader_no_deadlock P hB h hnf
  exact hmax s' hs

/-- capacity 1, two frames: the consumer goes away before taking anything -/
def Pabort : Params := ⟨1, 1, 0, 2, none, fun i => ⟨i, 0, 8, 8⟩⟩

/-- **Counterexample** (replayed on the implementation by `harness/c13.py`, `consumer_abort_limit`):
    after the consumer is gone the reader fills the queue and is then blocked in `put` forever —
    the thread stays alive (it is non-daemon in production) and the marker is never put. -/
theorem reader_always_ends_counterexample : ¬ ReaderAlwaysEnds Pabort := by
  intro h
  let s0 : St := init Pabort
  let s1 : St := abortC s0
  let s2 : St := ⟨.putting 0 (Pabort.pay 0), [], .finished, [], [], []⟩
  let s3 : St := ⟨.reading 1, [.frame (Pabort.pay 0)], .finished, [], [], []⟩
  let s4 : St := ⟨.putting 1 (Pabort.pay 1), [.frame (Pabort.pay 0)], .finished, [], [], []⟩
  have r1 : ReachA Pabort s1 := .step .init (.abort rfl)
  have r2 : ReachA Pabort s2 := .step r1 (.step (.prod rfl))
  have r3 : ReachA Pabort s3 := .step r2 (.step (.prod rfl))
  have r4 : ReachA Pabort s4 := .step r3 (.step (.prod rfl))
  have stuck : ∀ s', ¬ StepA Pabort s4 s' := by
    intro s' st
    cases st with
    | step st =>
      cases st with
      | prod e => have e' : (none : Option St) = some s' := e; cases e'
      | cons e => have e' : (none : Option St) = some s' := e; cases e'
    | abort hc => cases hc
  exact absurd (h s4 r4 stuck) (by decide)

/-! ## Non-vacuity -/

/-- capacity 1, batch 2, frames 1…5, read failure at 4 (positions carry distinct payloads) -/
def P0 : Params := ⟨1, 2, 1, 6, some 4, fun i => ⟨10 * i, i % 2, 8 + i, 16⟩⟩

example : 0 < P0.B := by decide

/-- a reachable final state exists for `P0` (the hypotheses of `reader_final` are satisfiable) … -/
example : ∃ s, Reach P0 s ∧ isFinal s :=
  ⟨_, (reader_every_schedule_final P0 (by decide) (schedOf [true, true, false])).1,
      (reader_every_schedule_final P0 (by decide) (schedOf [true, true, false])).2.1⟩

/-- … and it is the non-trivial one: batches [[1,2],[3]] (frame 4 fails), payloads intact -/
example : (run P0 (schedOf [true, true, false]) 0 (mu P0 (init P0)) (init P0)).2.out
    = [[⟨10, 1, 9, 16⟩, ⟨20, 0, 10, 16⟩], [⟨30, 1, 11, 16⟩]] := by decide

/-- a reachable non-final state where the producer is blocked on the full queue -/
example : Reach P0 ⟨.putting 2 (P0.pay 2), [.frame (P0.pay 1)], .getting, [], [], []⟩ := by
  have s1 : Step P0 (init P0) ⟨.putting 1 (P0.pay 1), [], .getting, [], [], []⟩ := .prod rfl
  have s2 : Step P0 ⟨.putting 1 (P0.pay 1), [], .getting, [], [], []⟩
      ⟨.reading 2, [.frame (P0.pay 1)], .getting, [], [], []⟩ := .prod rfl
  have s3 : Step P0 ⟨.reading 2, [.frame (P0.pay 1)], .getting, [], [], []⟩
      ⟨.putting 2 (P0.pay 2), [.frame (P0.pay 1)], .getting, [], [], []⟩ := .prod rfl
  exact .step (.step (.step .init s1) s2) s3

/-- … in which the producer cannot move (queue full) but the consumer can -/
example : stepP P0 ⟨.putting 2 (P0.pay 2), [.frame (P0.pay 1)], .getting, [], [], []⟩ = none ∧
    (stepC P0 ⟨.putting 2 (P0.pay 2), [.frame (P0.pay 1)], .getting, [], [], []⟩).isSome :=
  ⟨rfl, rfl⟩

/-- the empty range delivers nothing but still closes the stream -/
example : expected ⟨1, 2, 5, 5, none, fun i => ⟨i, 0, 8, 8⟩⟩ = [] := by decide

end SleapVerif.C13
