import SleapVerif.Lemmas.PeaksGlobal
/-!
# C07 — global peak detection reports a true maximum; refinement is bounded, leaves a symmetric
bump unmoved and moves toward the true centre

Statements are about `SleapVerif.Peaks.globalRough` (the **repaired** `find_global_peaks_rough`,
fixes/C07-flat-argmax.patch: first maximum of the row-major flattening, unravelled),
`globalRoughAsIs` (the function as it is on the pinned tree: separate argmaxes of the column
maxima and of the row maxima) and `globalRefineFlat`/`globalPeaks` (`find_global_peaks` with
`refinement="integral"`), tied to the code by `harness/c07.py`.  Every ordered field `R`, every
batch shape with `h, w ≥ 1`, every threshold, every odd patch size `2r+1`.
-/
namespace SleapVerif.C07
open SleapVerif.Peaks
set_option linter.unusedSectionVars false

variable {R : Type} [Field R] [LinearOrder R] [IsStrictOrderedRing R]

/-- Full-strength statement for an arbitrary rough detector `G` on one map. -/
def AttainsMax (G : (thr : R) → (h w : Nat) → (Nat → Nat → R) → GPeak R) : Prop :=
  ∀ (thr : R) (h w : Nat) (img : Nat → Nat → R) (x y : Nat), 0 < h → 0 < w →
    (G thr h w img).pt = some (x, y) →
      x < w ∧ y < h ∧ (G thr h w img).val = img y x ∧ ∀ i j, i < h → j < w → img i j ≤ img y x

/-- **The reported cell holds the maximum and the reported value is it** (repaired detector). -/
theorem global_attains_max : AttainsMax (R := R) globalRough1 := by
  intro thr h w img x y hh hw hpt
  rw [globalRough1_eq] at hpt ⊢
  by_cases hlt : img (flatArg h w img / w) (flatArg h w img % w) < thr
  · rw [threshold_none _ _ _ _ hlt] at hpt; cases hpt
  · rw [threshold_some _ _ _ _ hlt] at hpt ⊢
    simp only [Option.some.injEq, Prod.mk.injEq] at hpt
    obtain ⟨rfl, rfl⟩ := hpt
    obtain ⟨h1, h2⟩ := flatArg_bounds hh hw img
    exact ⟨h2, h1, rfl, fun i j hi hj => le_flatArg img hi hj⟩

/-- tie-break pinned: the reported cell is the *first* maximal cell in row-major order. -/
theorem global_first_max (thr : R) (h w : Nat) (img : Nat → Nat → R) (x y : Nat)
    (hpt : (globalRough1 thr h w img).pt = some (x, y)) (i j : Nat) (hj : j < w)
    (hbefore : i * w + j < y * w + x) : img i j < img y x := by
  rw [globalRough1_eq] at hpt
  by_cases hlt : img (flatArg h w img / w) (flatArg h w img % w) < thr
  · rw [threshold_none _ _ _ _ hlt] at hpt; cases hpt
  · rw [threshold_some _ _ _ _ hlt] at hpt
    simp only [Option.some.injEq, Prod.mk.injEq] at hpt
    obtain ⟨rfl, rfl⟩ := hpt
    apply lt_flatArg_of_before img hj
    rw [Nat.div_add_mod' (flatArg h w img) w] at hbefore
    exact hbefore

/-- non-vacuity + the F-C07 witness under the repair: maxima at (x0,y3) and (x3,y0) → (3,0). -/
example : globalRough1 (R := Rat) (1/10) 4 4 (fun i j => if (i = 3 ∧ j = 0) ∨ (i = 0 ∧ j = 3) then 1 else 0)
    = ⟨some (3, 0), 1⟩ := by decide +kernel

/-- **`global_attains_max` is false of the code as it is** (finding F-C07): with the maximum 1 at
(x0,y3) and (x3,y0) of a 4×4 map the as-is detector reports cell (0,0), which holds 0, with value 1. -/
theorem global_attains_max_counterexample : ¬ AttainsMax (R := Rat) globalRoughAsIs1 := by
  intro H
  have h1 : (globalRoughAsIs1 (R := Rat) (1/10) 4 4
      (fun i j => if (i = 3 ∧ j = 0) ∨ (i = 0 ∧ j = 3) then 1 else 0)).pt = some (0, 0) := by decide +kernel
  have := (H (1/10) 4 4 _ 0 0 (by omega) (by omega) h1).2.2.2 3 0 (by omega) (by omega)
  simp at this
  exact absurd this (by decide)

/-- **Threshold**: a channel is invalid (NaN point, value 0) exactly when every cell — i.e. the
maximum — is below the threshold; a maximum equal to the threshold is kept. -/
theorem global_threshold (thr : R) (h w : Nat) (img : Nat → Nat → R) (hh : 0 < h) (hw : 0 < w) :
    ((globalRough1 thr h w img).pt = none ↔ ∀ i j, i < h → j < w → img i j < thr) ∧
    ((globalRough1 thr h w img).pt = none → (globalRough1 thr h w img).val = 0) := by
  rw [globalRough1_eq]
  obtain ⟨h1, h2⟩ := flatArg_bounds hh hw img
  refine ⟨?_, fun hn => ?_⟩
  · rw [threshold_pt_none_iff]
    exact ⟨fun hlt i j hi hj => lt_of_le_of_lt (le_flatArg img hi hj) hlt, fun hall => hall _ _ h1 h2⟩
  · rw [threshold_pt_none_iff] at hn
    rw [threshold_none _ _ _ _ hn]

/-- **Channel independence** of the rough result (definitional: a per-map reduction). -/
theorem global_channel_independent (thr : R) (b : Batch R) (s c : Nat) :
    globalRough thr b s c = globalRough thr (b.single s c) 0 0 := rfl

/-- **Gather / scatter**: in `find_global_peaks(refinement="integral")` the result for (s,c) is the
rough result of (s,c); a valid channel gets `rough + offsets` computed from **its own** map around
**its own** rough cell, an invalid channel stays NaN; values are untouched.  Holds for any rough
detector (as-is or repaired). -/
theorem global_refine_scatter (rough : Nat → Nat → GPeak R) (r : Nat) (b : Batch R) {s c : Nat}
    (hs : s < b.S) (hc : c < b.C) :
    globalPeaks rough r b s c =
      ⟨(rough s c).pt, (rough s c).pt.map (fun xy => refinePoint b.h b.w (b.v s c) r xy.1 xy.2), (rough s c).val⟩ := by
  unfold globalPeaks
  have hk : s * b.C + c < b.S * b.C := by
    have : (s + 1) * b.C ≤ b.S * b.C := Nat.mul_le_mul_right _ hs
    rw [Nat.add_mul] at this; omega
  have := globalRefineFlat_getElem? rough r b (s * b.C + c) hk
  rw [flat_div hc, flat_mod hc, b.flat_index hc] at this
  rw [List.getD_eq_getElem?_getD, this]; rfl

/-- refined results are channel independent too -/
theorem global_refine_channel_independent (thr : R) (r : Nat) (b : Batch R) {s c : Nat}
    (hs : s < b.S) (hc : c < b.C) :
    globalPeaks (globalRough thr b) r b s c =
      globalPeaks (globalRough thr (b.single s c)) r (b.single s c) 0 0 := by
  rw [global_refine_scatter _ r b hs hc,
      global_refine_scatter _ r (b.single s c) (s := 0) (c := 0) (by simp [Batch.single]) (by simp [Batch.single])]
  rfl

/-- **Half-patch bound, partial** (as C06; full statement false, F-C06): for a non-negative map
and a positive threshold every valid channel of the repaired detector is refined to a point
within `r = (p-1)/2` of its rough cell. -/
theorem global_refine_bounded_partial (thr : R) (hthr : 0 < thr) (r : Nat) (b : Batch R) {s c : Nat}
    (hs : s < b.S) (hc : c < b.C) (hh : 0 < b.h) (hw : 0 < b.w) (hnn : ∀ i j, 0 ≤ b.v s c i j) (x y : Nat)
    (hpt : (globalRough thr b s c).pt = some (x, y)) :
    ∃ px py, (globalPeaks (globalRough thr b) r b s c).pt = some (some (px, py)) ∧
      |px - x| ≤ r ∧ |py - y| ≤ r := by
  rw [global_refine_scatter _ r b hs hc, hpt]
  obtain ⟨hx, hy, hval, _⟩ := global_attains_max thr b.h b.w (b.v s c) x y hh hw hpt
  have hge : ¬ (globalRough thr b s c).val < thr := by
    intro hlt
    unfold globalRough at hlt hpt
    rw [globalRough1_eq] at hlt hpt
    by_cases h : b.v s c (flatArg b.h b.w (b.v s c) / b.w) (flatArg b.h b.w (b.v s c) % b.w) < thr
    · rw [threshold_none _ _ _ _ h] at hpt; cases hpt
    · rw [threshold_some _ _ _ _ h] at hlt; exact h hlt
  have hpos : 0 < b.v s c y x := by
    unfold globalRough at hge
    rw [hval] at hge
    exact lt_of_lt_of_le hthr (not_lt.mp hge)
  obtain ⟨px, py, h1, h2, h3⟩ := refinePoint_bounded_of_nonneg_map b.h b.w (b.v s c) r x y hx hy hnn hpos
  exact ⟨px, py, by simp [h1], h2, h3⟩

/-- **A symmetric bump centred on a cell is left unmoved**: if the patch around the rough cell is
mirror-symmetric in x and in y (and its sum is not 0) the refined point is the cell itself. -/
theorem global_refine_symmetric_fixed (h w : Nat) (img : Nat → Nat → R) (r x y : Nat)
    (hz : patchSum r (patch h w img r x y) < 0 ∨ 0 < patchSum r (patch h w img r x y))
    (hsx : ∀ a b, a < 2*r+1 → b < 2*r+1 → patch h w img r x y a (2*r - b) = patch h w img r x y a b)
    (hsy : ∀ a b, a < 2*r+1 → b < 2*r+1 → patch h w img r x y (2*r - a) b = patch h w img r x y a b) :
    refinePoint h w img r x y = some ((x : R), (y : R)) := by
  have hx0 := xNum_zero_of_symm r _ hsx
  have hy0 : yNum r (patch h w img r x y) = 0 := by
    rw [yNum_eq_xNum_transpose]
    exact xNum_zero_of_symm r _ fun a b ha hb => hsy b a hb ha
  unfold refinePoint integralOffsets
  simp only
  rw [if_pos hz, hx0, hy0]
  simp

example : refinePoint (R := Rat) 3 3 (fun i j => if i = 1 ∧ j = 1 then 1 else if i = 1 ∨ j = 1 then 1/2 else 1/4) 1 1 1
    = some (1, 1) := by decide +kernel

/-- **Refinement moves toward the true centre** (pairing argument `b ↔ 2r−b`, no `exp` needed):
for *any* even, radially non-increasing profile `g(d²)` — Gaussians of every σ included — centred
at `(cx+δx, cy+δy)` and a patch that lies inside the map, the refined point is displaced from
the rough cell `(cx,cy)` in the direction of the true centre, in x and in y separately (and is
not displaced when the offset is 0). -/
theorem global_refine_toward_centre (h w : Nat) (img : Nat → Nat → R) (g : R → R) (r cx cy : Nat) (δx δy : R)
    (hx0 : r ≤ cx) (hx1 : cx + r < w) (hy0 : r ≤ cy) (hy1 : cy + r < h)
    (himg : ∀ i j, i < h → j < w → img i j = g (((j : R) - (cx + δx))^2 + ((i : R) - (cy + δy))^2))
    (anti : ∀ u v, 0 ≤ u → u ≤ v → g v ≤ g u)
    (hz : 0 < patchSum r (patch h w img r cx cy)) :
    ∃ px py, refinePoint h w img r cx cy = some (px, py) ∧
      (0 ≤ δx → (cx : R) ≤ px) ∧ (δx ≤ 0 → px ≤ cx) ∧ (0 ≤ δy → (cy : R) ≤ py) ∧ (δy ≤ 0 → py ≤ cy) := by
  have B := bumpPatch_of_map img g δx δy hx0 hx1 hy0 hy1 himg anti
  refine ⟨_, _, by unfold refinePoint; rw [integralOffsets_of_pos r _ hz]; rfl, ?_, ?_, ?_, ?_⟩
  · intro hδ
    have := xNum_nonneg r _ (bump_dom_right B hδ)
    have : 0 ≤ xNum r (patch h w img r cx cy) / patchSum r (patch h w img r cx cy) := div_nonneg this (le_of_lt hz)
    simp only; linarith
  · intro hδ
    have := xNum_nonpos r _ (bump_dom_left B hδ)
    have : xNum r (patch h w img r cx cy) / patchSum r (patch h w img r cx cy) ≤ 0 :=
      div_nonpos_of_nonpos_of_nonneg this (le_of_lt hz)
    simp only; linarith
  · intro hδ
    have := xNum_nonneg r _ (bump_dom_right B.transpose hδ)
    rw [← yNum_eq_xNum_transpose] at this
    have : 0 ≤ yNum r (patch h w img r cx cy) / patchSum r (patch h w img r cx cy) := div_nonneg this (le_of_lt hz)
    simp only; linarith
  · intro hδ
    have := xNum_nonpos r _ (bump_dom_left B.transpose hδ)
    rw [← yNum_eq_xNum_transpose] at this
    have : yNum r (patch h w img r cx cy) / patchSum r (patch h w img r cx cy) ≤ 0 :=
      div_nonpos_of_nonpos_of_nonneg this (le_of_lt hz)
    simp only; linarith

/-- strict version: a strictly decreasing profile and a non-zero offset give a non-zero move in
the right direction (patch size ≥ 3). -/
theorem global_refine_toward_centre_strict (h w : Nat) (img : Nat → Nat → R) (g : R → R) (r cx cy : Nat) (δx δy : R)
    (hr : 1 ≤ r) (hx0 : r ≤ cx) (hx1 : cx + r < w) (hy0 : r ≤ cy) (hy1 : cy + r < h)
    (himg : ∀ i j, i < h → j < w → img i j = g (((j : R) - (cx + δx))^2 + ((i : R) - (cy + δy))^2))
    (santi : ∀ u v, 0 ≤ u → u < v → g v < g u)
    (hz : 0 < patchSum r (patch h w img r cx cy)) :
    ∃ px py, refinePoint h w img r cx cy = some (px, py) ∧
      (0 < δx → (cx : R) < px) ∧ (δx < 0 → px < cx) ∧ (0 < δy → (cy : R) < py) ∧ (δy < 0 → py < cy) := by
  have anti : ∀ u v, 0 ≤ u → u ≤ v → g v ≤ g u := by
    intro u v hu huv
    rcases lt_or_eq_of_le huv with h1 | h1
    · exact le_of_lt (santi u v hu h1)
    · rw [h1]
  have B := bumpPatch_of_map img g δx δy hx0 hx1 hy0 hy1 himg anti
  refine ⟨_, _, by unfold refinePoint; rw [integralOffsets_of_pos r _ hz]; rfl, ?_, ?_, ?_, ?_⟩
  · intro hδ
    have := xNum_pos r hr _ (bump_sdom_right B santi hδ)
    have : 0 < xNum r (patch h w img r cx cy) / patchSum r (patch h w img r cx cy) := div_pos this hz
    simp only; linarith
  · intro hδ
    have := xNum_neg r hr _ (bump_sdom_left B santi hδ)
    have : xNum r (patch h w img r cx cy) / patchSum r (patch h w img r cx cy) < 0 := div_neg_of_neg_of_pos this hz
    simp only; linarith
  · intro hδ
    have := xNum_pos r hr _ (bump_sdom_right B.transpose santi hδ)
    rw [← yNum_eq_xNum_transpose] at this
    have : 0 < yNum r (patch h w img r cx cy) / patchSum r (patch h w img r cx cy) := div_pos this hz
    simp only; linarith
  · intro hδ
    have := xNum_neg r hr _ (bump_sdom_left B.transpose santi hδ)
    rw [← yNum_eq_xNum_transpose] at this
    have : yNum r (patch h w img r cx cy) / patchSum r (patch h w img r cx cy) < 0 := div_neg_of_neg_of_pos this hz
    simp only; linarith

/-- hypotheses satisfiable: the profile `g(u) = 4 - u` on a 3×3 map at ℚ, centre offset (1/4, 0):
the refined x moves right of the cell. -/
example : ∃ px py, refinePoint (R := Rat) 3 3
      (fun i j => 4 - (((j : Rat) - ((1 : Nat) + 1/4))^2 + ((i : Rat) - ((1 : Nat) + 0))^2)) 1 1 1 = some (px, py) ∧
      ((1 : Nat) : Rat) < px := by
  obtain ⟨px, py, h, h1, _⟩ := global_refine_toward_centre_strict (R := Rat) 3 3
    (fun i j => 4 - (((j : Rat) - ((1 : Nat) + 1/4))^2 + ((i : Rat) - ((1 : Nat) + 0))^2)) (fun u => 4 - u)
    1 1 1 (1/4) 0 (by omega) (by omega) (by omega) (by omega) (by omega)
    (fun i j _ _ => rfl) (fun u v _ huv => by linarith)
    (by rw [patchSum_eq]; simp [Finset.sum_range_succ, patch, zeroPadAt, inB]; norm_num)
  exact ⟨px, py, h, h1 (by norm_num)⟩

end SleapVerif.C07
