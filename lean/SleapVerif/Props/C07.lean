import SleapVerif.Lemmas.PeaksGlobal
/-!
# C07 — global peak detection reports a true maximum; refinement is bounded, leaves a symmetric
bump unmoved and moves toward the true centre

Statements are about `SleapVerif.Peaks.globalRough` (the **repaired** `find_global_peaks_rough`,
fixes/C07-flat-argmax.patch: first maximum of the row-major flattening, unravelled),
`globalRoughAsIs` (the function as it **was** before the repair f45cc18: separate argmaxes of the column
maxima and of the row maxima; kept as a regression record) and `globalRefineFlat`/`globalPeaks` (`find_global_peaks` with
`refinement="integral"`), tied to the code by `harness/c07.py`.  Every ordered field `R`, every
batch shape with `h, w ≥ 1`, every threshold, every patch size `q ≥ 1` — odd (the crop reads cells)
or even (the crop reads means of four cells, `Peaks.cropZ`).
-/
namespace SleapVerif.C07
open SleapVerif.Peaks
set_option linter.unusedSectionVars false

variable {R : Type} [Field R] [LinearOrder R] [IsStrictOrderedRing R]

/-- Full-strength statement for an arbitrary rough detector `G` on one map. -/
def AttainsMax (G : (thr : R) → (h w : Nat) → (Nat → Nat → R) → GPeak R) : Prop :=
  ∀ (thr : R) (h w : Nat) (img : Nat → Nat → R) (x y : Nat), 0 < h → 0 < w →
    (G thr h w img).pt = some (x, y) →
      x < w ∧ y < h ∧ (G thr h w img).val = img y x ∧ ∀ i j, i < h → j < w → img i j ≤ img y x

/-- **The reported cell holds the maximum and the reported value is it** (repaired detector). -/
theorem global_attains_max : AttainsMax (R := R) globalRough1 := by
  intro thr h w img x y hh hw hpt
  rw [globalRough1_eq] at hpt ⊢
  by_cases hlt : img (flatArg h w img / w) (flatArg h w img % w) < thr
  · rw [threshold_none _ _ _ _ hlt] at hpt; cases hpt
  · rw [threshold_some _ _ _ _ hlt] at hpt ⊢
    simp only [Option.some.injEq, Prod.mk.injEq] at hpt
    obtain ⟨rfl, rfl⟩ := hpt
    obtain ⟨h1, h2⟩ := flatArg_bounds hh hw img
    exact ⟨h2, h1, rfl, fun i j hi hj => le_flatArg img hi hj⟩

/-- tie-break pinned: the reported cell is the *first* maximal cell in row-major order. -/
theorem global_first_max (thr : R) (h w : Nat) (img : Nat → Nat → R) (x y : Nat)
    (hpt : (globalRough1 thr h w img).pt = some (x, y)) (i j : Nat) (hj : j < w)
    (hbefore : i * w + j < y * w + x) : img i j < img y x := by
  rw [globalRough1_eq] at hpt
  by_cases hlt : img (flatArg h w img / w) (flatArg h w img % w) < thr
  · rw [threshold_none _ _ _ _ hlt] at hpt; cases hpt
  · rw [threshold_some _ _ _ _ hlt] at hpt
    simp only [Option.some.injEq, Prod.mk.injEq] at hpt
    obtain ⟨rfl, rfl⟩ := hpt
    apply lt_flatArg_of_before img hj
    rw [Nat.div_add_mod' (flatArg h w img) w] at hbefore
    exact hbefore

/-- **Unravelling is exact for maps of any size**: the flat index of cell `(row, col)` of a map of width
`w` unravels to exactly `(x, y) = (col, row)` — no bound such as 2^24 cells (the model, like the code,
works on integer indices; a float32 detour would break this above 2^24). -/
theorem global_unravel_exact (w row col : Nat) (hcol : col < w) : unravel w (row * w + col) = (col, row) := by
  unfold unravel
  rw [flat_mod hcol, flat_div hcol]

/-- **A unique strict maximum is reported at its own cell, whatever the map size**: if one cell is
strictly above every other cell and not below the threshold, the detector reports exactly that cell
with its value (one-hot maps with more than 2^24 cells are the harness's `large_map` family). -/
theorem global_rough_strict_max (thr : R) (h w : Nat) (img : Nat → Nat → R) (cx cy : Nat) (hcx : cx < w) (hcy : cy < h)
    (hmax : ∀ i j, i < h → j < w → (i ≠ cy ∨ j ≠ cx) → img i j < img cy cx) (hthr : ¬ img cy cx < thr) :
    globalRough1 thr h w img = ⟨some (cx, cy), img cy cx⟩ := by
  obtain ⟨h1, h2⟩ := flatArg_of_strict_max (img := img) hcx hcy hmax
  rw [globalRough1_eq, h1, h2, threshold_some _ _ _ _ hthr]

/-- non-vacuity + the F-C07 witness under the repair: maxima at (x0,y3) and (x3,y0) → (3,0). -/
example : globalRough1 (R := Rat) (1/10) 4 4 (fun i j => if (i = 3 ∧ j = 0) ∨ (i = 0 ∧ j = 3) then 1 else 0)
    = ⟨some (3, 0), 1⟩ := by decide +kernel

/-- **`global_attains_max` is false of the code as it was before the repair** (finding F-C07, fixed in f45cc18): with the maximum 1 at
(x0,y3) and (x3,y0) of a 4×4 map the as-is detector reports cell (0,0), which holds 0, with value 1. -/
theorem global_attains_max_counterexample : ¬ AttainsMax (R := Rat) globalRoughAsIs1 := by
  intro H
  have h1 : (globalRoughAsIs1 (R := Rat) (1/10) 4 4
      (fun i j => if (i = 3 ∧ j = 0) ∨ (i = 0 ∧ j = 3) then 1 else 0)).pt = some (0, 0) := by decide +kernel
  have := (H (1/10) 4 4 _ 0 0 (by omega) (by omega) h1).2.2.2 3 0 (by omega) (by omega)
  simp at this
  exact absurd this (by decide)

/-- **Threshold**: a channel is invalid (NaN point, value 0) exactly when every cell — i.e. the
maximum — is below the threshold; a maximum equal to the threshold is kept. -/
theorem global_threshold (thr : R) (h w : Nat) (img : Nat → Nat → R) (hh : 0 < h) (hw : 0 < w) :
    ((globalRough1 thr h w img).pt = none ↔ ∀ i j, i < h → j < w → img i j < thr) ∧
    ((globalRough1 thr h w img).pt = none → (globalRough1 thr h w img).val = 0) := by
  rw [globalRough1_eq]
  obtain ⟨h1, h2⟩ := flatArg_bounds hh hw img
  refine ⟨?_, fun hn => ?_⟩
  · rw [threshold_pt_none_iff]
    exact ⟨fun hlt i j hi hj => lt_of_le_of_lt (le_flatArg img hi hj) hlt, fun hall => hall _ _ h1 h2⟩
  · rw [threshold_pt_none_iff] at hn
    rw [threshold_none _ _ _ _ hn]

/-- **Channel independence** of the rough result (definitional: a per-map reduction). -/
theorem global_channel_independent (thr : R) (b : Batch R) (s c : Nat) :
    globalRough thr b s c = globalRough thr (b.single s c) 0 0 := rfl

/-- **Gather / scatter**: in `find_global_peaks(refinement="integral")` the result for (s,c) is the
rough result of (s,c); a valid channel gets `rough + offsets` computed from **its own** map around
**its own** rough cell, an invalid channel stays NaN; values are untouched.  Holds for any rough
detector (as-is or repaired). -/
theorem global_refine_scatter (rough : Nat → Nat → GPeak R) (q : Nat) (b : Batch R) {s c : Nat}
    (hs : s < b.S) (hc : c < b.C) :
    globalPeaks rough q b s c =
      ⟨(rough s c).pt, (rough s c).pt.map (fun xy => refinePoint b.h b.w (b.v s c) q xy.1 xy.2), (rough s c).val⟩ := by
  unfold globalPeaks
  have hk : s * b.C + c < b.S * b.C := by
    have : (s + 1) * b.C ≤ b.S * b.C := Nat.mul_le_mul_right _ hs
    rw [Nat.add_mul] at this; omega
  have := globalRefineFlat_getElem? rough q b (s * b.C + c) hk
  rw [flat_div hc, flat_mod hc, b.flat_index hc] at this
  rw [List.getD_eq_getElem?_getD, this]; rfl

/-- refined results are channel independent too -/
theorem global_refine_channel_independent (thr : R) (q : Nat) (b : Batch R) {s c : Nat}
    (hs : s < b.S) (hc : c < b.C) :
    globalPeaks (globalRough thr b) q b s c =
      globalPeaks (globalRough thr (b.single s c)) q (b.single s c) 0 0 := by
  rw [global_refine_scatter _ q b hs hc,
      global_refine_scatter _ q (b.single s c) (s := 0) (c := 0) (by simp [Batch.single]) (by simp [Batch.single])]
  rfl

/-- **Half-patch bound, partial** (as C06; full statement false, F-C06): for a non-negative map
and a positive threshold every valid channel of the repaired detector is refined to a point
within `(q-1)/2` of its rough cell — every patch size `q ≥ 1`, odd or even. -/
theorem global_refine_bounded_partial (thr : R) (hthr : 0 < thr) (q : Nat) (hq : 1 ≤ q) (b : Batch R) {s c : Nat}
    (hs : s < b.S) (hc : c < b.C) (hh : 0 < b.h) (hw : 0 < b.w) (hnn : ∀ i j, 0 ≤ b.v s c i j) (x y : Nat)
    (hpt : (globalRough thr b s c).pt = some (x, y)) :
    ∃ px py, (globalPeaks (globalRough thr b) q b s c).pt = some (some (px, py)) ∧
      |px - x| ≤ ((q : R) - 1) / 2 ∧ |py - y| ≤ ((q : R) - 1) / 2 := by
  rw [global_refine_scatter _ q b hs hc, hpt]
  obtain ⟨hx, hy, hval, _⟩ := global_attains_max thr b.h b.w (b.v s c) x y hh hw hpt
  have hge : ¬ (globalRough thr b s c).val < thr := by
    intro hlt
    unfold globalRough at hlt hpt
    rw [globalRough1_eq] at hlt hpt
    by_cases h : b.v s c (flatArg b.h b.w (b.v s c) / b.w) (flatArg b.h b.w (b.v s c) % b.w) < thr
    · rw [threshold_none _ _ _ _ h] at hpt; cases hpt
    · rw [threshold_some _ _ _ _ h] at hlt; exact h hlt
  have hpos : 0 < b.v s c y x := by
    unfold globalRough at hge
    rw [hval] at hge
    exact lt_of_lt_of_le hthr (not_lt.mp hge)
  obtain ⟨px, py, h1, h2, h3⟩ := refinePoint_bounded_of_nonneg_map b.h b.w (b.v s c) q x y hq hx hy hnn hpos
  rw [halfSpan_eq hq] at h2 h3
  exact ⟨px, py, by simp [h1], h2, h3⟩

/-- **A symmetric bump centred on a cell is left unmoved** — every patch size: if the cropped patch
around the rough cell is mirror-symmetric in x and in y (and its sum is not 0) the refined point
is the cell itself.  (For even `q` the crop holds means of four cells; it is symmetric whenever the
map is symmetric about the cell.) -/
theorem global_refine_symmetric_fixed (h w : Nat) (img : Nat → Nat → R) (q x y : Nat)
    (hz : patchSum q (patch h w img q x y) < 0 ∨ 0 < patchSum q (patch h w img q x y))
    (hsx : ∀ a b, a < q → b < q → patch h w img q x y a (q - 1 - b) = patch h w img q x y a b)
    (hsy : ∀ a b, a < q → b < q → patch h w img q x y (q - 1 - a) b = patch h w img q x y a b) :
    refinePoint h w img q x y = some ((x : R), (y : R)) := by
  have hx0 := xNum_zero_of_symm q _ hsx
  have hy0 : yNum q (patch h w img q x y) = 0 := by
    rw [yNum_eq_xNum_transpose]
    exact xNum_zero_of_symm q _ fun a b ha hb => hsy b a hb ha
  unfold refinePoint integralOffsets
  simp only
  rw [if_pos hz, hx0, hy0]
  simp

example : refinePoint (R := Rat) 3 3 (fun i j => if i = 1 ∧ j = 1 then 1 else if i = 1 ∨ j = 1 then 1/2 else 1/4) 3 1 1
    = some (1, 1) := by decide +kernel
/-- even patch size 4 on a 5×5 map symmetric about cell (2,2): unmoved as well -/
example : refinePoint (R := Rat) 5 5 (fun i j => if i = 2 ∧ j = 2 then 1 else if i = 2 ∨ j = 2 then 1/2 else 1/4) 4 2 2
    = some (2, 2) := by decide +kernel

/-- the same clause stated on the **map**, as the property reads: a map that is mirror-symmetric about
the cell's column and row (`img i (cx−d) = img i (cx+d)`, `img (cy−d) j = img (cy+d) j` for
`d ≤ q/2`) with the crop inside the map is refined to the cell itself. -/
theorem global_refine_symmetric_fixed_of_map (h w : Nat) (img : Nat → Nat → R) (q cx cy : Nat)
    (hx0 : q / 2 ≤ cx) (hx1 : cx + q / 2 < w) (hy0 : q / 2 ≤ cy) (hy1 : cy + q / 2 < h)
    (hsx : ∀ i d, i < h → d ≤ q / 2 → img i (cx - d) = img i (cx + d))
    (hsy : ∀ j d, j < w → d ≤ q / 2 → img (cy - d) j = img (cy + d) j)
    (hz : patchSum q (patch h w img q cx cy) < 0 ∨ 0 < patchSum q (patch h w img q cx cy)) :
    refinePoint h w img q cx cy = some ((cx : R), (cy : R)) := by
  apply global_refine_symmetric_fixed h w img q cx cy hz
  · exact cropZ_symm_of_colSymm (colSymm_of_map img hx0 hx1 hsx)
  · intro a b ha hb
    have := cropZ_symm_of_colSymm (colSymm_of_map (h := w) (w := h) (fun i j => img j i) (cy := cx) hy0 hy1 hsy) b a hb ha
    rw [patch_transpose h w img q cx cy (q - 1 - a) b, patch_transpose h w img q cx cy a b]
    exact this

/-- **Refinement moves toward the true centre**, x axis (pairing argument `b ↔ q−1−b`, no `exp`
needed), **every patch size `q`, odd or even**: for *any* even, radially non-increasing profile
`g(d²)` — Gaussians of every σ included — centred at `(cx+δx, cy+δy)`, the refined x is displaced
from the rough cell in the direction of the true centre (not displaced when `δx = 0`).  Needs the
crop to stay inside the map **along x only** (`q/2 ≤ cx`, `cx + q/2 < w`): rows beyond the top or
bottom border read zeros, which are mirror-symmetric in x. -/
theorem global_refine_toward_centre_x (h w : Nat) (img : Nat → Nat → R) (g : R → R) (q cx cy : Nat) (δx δy : R)
    (hx0 : q / 2 ≤ cx) (hx1 : cx + q / 2 < w) (hcy : cy < h)
    (himg : ∀ i j, i < h → j < w → img i j = g (((j : R) - (cx + δx))^2 + ((i : R) - (cy + δy))^2))
    (anti : ∀ u v, 0 ≤ u → u ≤ v → g v ≤ g u)
    (hz : 0 < patchSum q (patch h w img q cx cy)) :
    ∃ px py, refinePoint h w img q cx cy = some (px, py) ∧ (0 ≤ δx → (cx : R) ≤ px) ∧ (δx ≤ 0 → px ≤ cx) := by
  have B : BumpX h w img g q cx cy δx δy := ⟨hx0, hx1, hcy, himg⟩
  refine ⟨_, _, by unfold refinePoint; rw [integralOffsets_of_pos q _ hz]; rfl, ?_, ?_⟩
  · intro hδ
    have := div_nonneg (B.xNum_nonneg anti hδ) (le_of_lt hz)
    simp only; linarith
  · intro hδ
    have := div_nonpos_of_nonpos_of_nonneg (B.xNum_nonpos anti hδ) (le_of_lt hz)
    simp only; linarith

/-- y axis: needs the crop inside the map along y only. -/
theorem global_refine_toward_centre_y (h w : Nat) (img : Nat → Nat → R) (g : R → R) (q cx cy : Nat) (δx δy : R)
    (hy0 : q / 2 ≤ cy) (hy1 : cy + q / 2 < h) (hcx : cx < w)
    (himg : ∀ i j, i < h → j < w → img i j = g (((j : R) - (cx + δx))^2 + ((i : R) - (cy + δy))^2))
    (anti : ∀ u v, 0 ≤ u → u ≤ v → g v ≤ g u)
    (hz : 0 < patchSum q (patch h w img q cx cy)) :
    ∃ px py, refinePoint h w img q cx cy = some (px, py) ∧ (0 ≤ δy → (cy : R) ≤ py) ∧ (δy ≤ 0 → py ≤ cy) := by
  have B := BumpX.ofTranspose (p := q) hy0 hy1 hcx himg
  have hy := yNum_eq_xNum_patch_transpose h w img q cx cy
  refine ⟨_, _, by unfold refinePoint; rw [integralOffsets_of_pos q _ hz]; rfl, ?_, ?_⟩
  · intro hδ
    have := B.xNum_nonneg anti hδ
    rw [← hy] at this
    have := div_nonneg this (le_of_lt hz)
    simp only; linarith
  · intro hδ
    have := B.xNum_nonpos anti hδ
    rw [← hy] at this
    have := div_nonpos_of_nonpos_of_nonneg this (le_of_lt hz)
    simp only; linarith

/-- strict, x axis: a strictly decreasing profile and `δx ≠ 0` give a non-zero move in the right
direction (patch size ≥ 2; crop inside the map along x). -/
theorem global_refine_toward_centre_strict_x (h w : Nat) (img : Nat → Nat → R) (g : R → R) (q cx cy : Nat) (δx δy : R)
    (hq : 2 ≤ q) (hx0 : q / 2 ≤ cx) (hx1 : cx + q / 2 < w) (hcy : cy < h)
    (himg : ∀ i j, i < h → j < w → img i j = g (((j : R) - (cx + δx))^2 + ((i : R) - (cy + δy))^2))
    (santi : ∀ u v, 0 ≤ u → u < v → g v < g u)
    (hz : 0 < patchSum q (patch h w img q cx cy)) :
    ∃ px py, refinePoint h w img q cx cy = some (px, py) ∧ (0 < δx → (cx : R) < px) ∧ (δx < 0 → px < cx) := by
  have B : BumpX h w img g q cx cy δx δy := ⟨hx0, hx1, hcy, himg⟩
  refine ⟨_, _, by unfold refinePoint; rw [integralOffsets_of_pos q _ hz]; rfl, ?_, ?_⟩
  · intro hδ
    have := div_pos (B.xNum_pos hq santi hδ) hz
    simp only; linarith
  · intro hδ
    have := div_neg_of_neg_of_pos (B.xNum_neg hq santi hδ) hz
    simp only; linarith

theorem global_refine_toward_centre_strict_y (h w : Nat) (img : Nat → Nat → R) (g : R → R) (q cx cy : Nat) (δx δy : R)
    (hq : 2 ≤ q) (hy0 : q / 2 ≤ cy) (hy1 : cy + q / 2 < h) (hcx : cx < w)
    (himg : ∀ i j, i < h → j < w → img i j = g (((j : R) - (cx + δx))^2 + ((i : R) - (cy + δy))^2))
    (santi : ∀ u v, 0 ≤ u → u < v → g v < g u)
    (hz : 0 < patchSum q (patch h w img q cx cy)) :
    ∃ px py, refinePoint h w img q cx cy = some (px, py) ∧ (0 < δy → (cy : R) < py) ∧ (δy < 0 → py < cy) := by
  have B := BumpX.ofTranspose (p := q) hy0 hy1 hcx himg
  have hy := yNum_eq_xNum_patch_transpose h w img q cx cy
  refine ⟨_, _, by unfold refinePoint; rw [integralOffsets_of_pos q _ hz]; rfl, ?_, ?_⟩
  · intro hδ
    have := B.xNum_pos hq santi hδ
    rw [← hy] at this
    have := div_pos this hz
    simp only; linarith
  · intro hδ
    have := B.xNum_neg hq santi hδ
    rw [← hy] at this
    have := div_neg_of_neg_of_pos this hz
    simp only; linarith

/-- both axes at once (crop inside the map on both). -/
theorem global_refine_toward_centre (h w : Nat) (img : Nat → Nat → R) (g : R → R) (q cx cy : Nat) (δx δy : R)
    (hx0 : q / 2 ≤ cx) (hx1 : cx + q / 2 < w) (hy0 : q / 2 ≤ cy) (hy1 : cy + q / 2 < h)
    (himg : ∀ i j, i < h → j < w → img i j = g (((j : R) - (cx + δx))^2 + ((i : R) - (cy + δy))^2))
    (anti : ∀ u v, 0 ≤ u → u ≤ v → g v ≤ g u)
    (hz : 0 < patchSum q (patch h w img q cx cy)) :
    ∃ px py, refinePoint h w img q cx cy = some (px, py) ∧
      (0 ≤ δx → (cx : R) ≤ px) ∧ (δx ≤ 0 → px ≤ cx) ∧ (0 ≤ δy → (cy : R) ≤ py) ∧ (δy ≤ 0 → py ≤ cy) := by
  obtain ⟨px, py, h1, h2, h3⟩ := global_refine_toward_centre_x h w img g q cx cy δx δy hx0 hx1 (by omega) himg anti hz
  obtain ⟨px', py', h1', h4, h5⟩ := global_refine_toward_centre_y h w img g q cx cy δx δy hy0 hy1 (by omega) himg anti hz
  rw [h1] at h1'
  simp only [Option.some.injEq, Prod.mk.injEq] at h1'
  obtain ⟨rfl, rfl⟩ := h1'
  exact ⟨px, py, h1, h2, h3, h4, h5⟩

theorem global_refine_toward_centre_strict (h w : Nat) (img : Nat → Nat → R) (g : R → R) (q cx cy : Nat) (δx δy : R)
    (hq : 2 ≤ q) (hx0 : q / 2 ≤ cx) (hx1 : cx + q / 2 < w) (hy0 : q / 2 ≤ cy) (hy1 : cy + q / 2 < h)
    (himg : ∀ i j, i < h → j < w → img i j = g (((j : R) - (cx + δx))^2 + ((i : R) - (cy + δy))^2))
    (santi : ∀ u v, 0 ≤ u → u < v → g v < g u)
    (hz : 0 < patchSum q (patch h w img q cx cy)) :
    ∃ px py, refinePoint h w img q cx cy = some (px, py) ∧
      (0 < δx → (cx : R) < px) ∧ (δx < 0 → px < cx) ∧ (0 < δy → (cy : R) < py) ∧ (δy < 0 → py < cy) := by
  obtain ⟨px, py, h1, h2, h3⟩ := global_refine_toward_centre_strict_x h w img g q cx cy δx δy hq hx0 hx1 (by omega) himg santi hz
  obtain ⟨px', py', h1', h4, h5⟩ := global_refine_toward_centre_strict_y h w img g q cx cy δx δy hq hy0 hy1 (by omega) himg santi hz
  rw [h1] at h1'
  simp only [Option.some.injEq, Prod.mk.injEq] at h1'
  obtain ⟨rfl, rfl⟩ := h1'
  exact ⟨px, py, h1, h2, h3, h4, h5⟩

/-- hypotheses satisfiable, odd and even patch: the profile `g(u) = 9 - u` on a 5×5 map at ℚ, centre
offset (1/4, 0) from cell (2,2): the refined x moves right of the cell for `q = 3` and `q = 4`. -/
example : ∀ q ∈ [3, 4], ∃ px py, refinePoint (R := Rat) 5 5
      (fun i j => 9 - (((j : Rat) - ((2 : Nat) + 1/4))^2 + ((i : Rat) - ((2 : Nat) + 0))^2)) q 2 2 = some (px, py) ∧
      ((2 : Nat) : Rat) < px := by
  intro q hq
  have hq' : q = 3 ∨ q = 4 := by simpa using hq
  have hz : 0 < patchSum q (patch (R := Rat) 5 5
      (fun i j => 9 - (((j : Rat) - ((2 : Nat) + 1/4))^2 + ((i : Rat) - ((2 : Nat) + 0))^2)) q 2 2) := by
    rcases hq' with rfl | rfl <;>
      (rw [patchSum_eq]; simp [Finset.sum_range_succ, patch, cropZ, zeroPadAt, inB]; norm_num)
  obtain ⟨px, py, h, h1, _⟩ := global_refine_toward_centre_strict (R := Rat) 5 5
    (fun i j => 9 - (((j : Rat) - ((2 : Nat) + 1/4))^2 + ((i : Rat) - ((2 : Nat) + 0))^2)) (fun u => 9 - u)
    q 2 2 (1/4) 0 (by omega) (by omega) (by omega) (by omega) (by omega)
    (fun i j _ _ => rfl) (fun u v _ huv => by linarith) hz
  exact ⟨px, py, h, h1 (by norm_num)⟩

/-- **The rough detector finds the right cell on a bump**: for a strictly decreasing profile whose
true centre lies within half a cell of `(cx,cy)` (`|δx|, |δy| < ½`) and whose peak value is not
below the threshold, `find_global_peaks_rough` reports exactly `(cx,cy)`.  (For a merely
non-increasing profile this is false: a flat disc can put the first maximal cell elsewhere.) -/
theorem global_bump_rough_is_centre (thr : R) (h w : Nat) (img : Nat → Nat → R) (g : R → R) (cx cy : Nat) (δx δy : R)
    (hcx : cx < w) (hcy : cy < h)
    (himg : ∀ i j, i < h → j < w → img i j = g (((j : R) - (cx + δx))^2 + ((i : R) - (cy + δy))^2))
    (santi : ∀ u v, 0 ≤ u → u < v → g v < g u) (hδx : |δx| < 1 / 2) (hδy : |δy| < 1 / 2)
    (hthr : ¬ img cy cx < thr) :
    globalRough1 thr h w img = ⟨some (cx, cy), img cy cx⟩ := by
  obtain ⟨h1, h2⟩ := flatArg_of_strict_max (img := img) hcx hcy
    (fun i j hi hj hne => bump_cell_lt hcx hcy himg santi hδx hδy hi hj hne)
  rw [globalRough1_eq, h1, h2, threshold_some _ _ _ _ hthr]

/-- **The Gaussian clause about the pipeline** `find_global_peaks(refinement="integral")`: channel
`(s,c)` holds a strictly decreasing bump centred at `(cx+δx, cy+δy)`, `|δ| < ½`, peak value not below
the threshold, crop inside the map ⇒ the channel is valid, its rough cell is `(cx,cy)` and its
refined point lies strictly on the side of the true centre in x and in y. -/
theorem global_peaks_toward_centre (thr : R) (q : Nat) (b : Batch R) {s c : Nat} (hs : s < b.S) (hc : c < b.C)
    (g : R → R) (cx cy : Nat) (δx δy : R) (hq : 2 ≤ q)
    (hx0 : q / 2 ≤ cx) (hx1 : cx + q / 2 < b.w) (hy0 : q / 2 ≤ cy) (hy1 : cy + q / 2 < b.h)
    (himg : ∀ i j, i < b.h → j < b.w → b.v s c i j = g (((j : R) - (cx + δx))^2 + ((i : R) - (cy + δy))^2))
    (santi : ∀ u v, 0 ≤ u → u < v → g v < g u) (hδx : |δx| < 1 / 2) (hδy : |δy| < 1 / 2)
    (hthr : ¬ b.v s c cy cx < thr)
    (hz : 0 < patchSum q (patch b.h b.w (b.v s c) q cx cy)) :
    ∃ px py, globalPeaks (globalRough thr b) q b s c = ⟨some (cx, cy), some (some (px, py)), b.v s c cy cx⟩ ∧
      (0 < δx → (cx : R) < px) ∧ (δx < 0 → px < cx) ∧ (0 < δy → (cy : R) < py) ∧ (δy < 0 → py < cy) ∧
      (δx = 0 → px = cx) ∧ (δy = 0 → py = cy) := by
  have hr : globalRough thr b s c = ⟨some (cx, cy), b.v s c cy cx⟩ :=
    global_bump_rough_is_centre thr b.h b.w (b.v s c) g cx cy δx δy (by omega) (by omega) himg santi hδx hδy hthr
  obtain ⟨px, py, h1, h2, h3, h4, h5⟩ := global_refine_toward_centre_strict b.h b.w (b.v s c) g q cx cy δx δy hq
    hx0 hx1 hy0 hy1 himg santi hz
  obtain ⟨px', py', h1', w2, w3, w4, w5⟩ := global_refine_toward_centre b.h b.w (b.v s c) g q cx cy δx δy
    hx0 hx1 hy0 hy1 himg (anti_of_santi santi) hz
  rw [h1] at h1'
  simp only [Option.some.injEq, Prod.mk.injEq] at h1'
  obtain ⟨rfl, rfl⟩ := h1'
  refine ⟨px, py, ?_, h2, h3, h4, h5, ?_, ?_⟩
  · rw [global_refine_scatter _ q b hs hc, hr]
    simp [h1]
  · intro h0; exact le_antisymm (w3 (le_of_eq h0)) (w2 (le_of_eq h0.symm))
  · intro h0; exact le_antisymm (w5 (le_of_eq h0)) (w4 (le_of_eq h0.symm))

/-- The statement as the property text reads it — **without** the "crop inside the map" hypothesis of
`global_refine_toward_centre`.  False of the code: `global_refine_toward_centre_border_counterexample`. -/
def TowardCentreEverywhere (R : Type) [Field R] [LinearOrder R] [IsStrictOrderedRing R] : Prop :=
  ∀ (h w : Nat) (img : Nat → Nat → R) (g : R → R) (q cx cy : Nat) (δx δy : R), cx < w → cy < h →
    (∀ i j, i < h → j < w → img i j = g (((j : R) - (cx + δx))^2 + ((i : R) - (cy + δy))^2)) →
    (∀ u v, 0 ≤ u → u ≤ v → g v ≤ g u) →
    0 < patchSum q (patch h w img q cx cy) →
    ∃ px py, refinePoint h w img q cx cy = some (px, py) ∧
      (0 ≤ δx → (cx : R) ≤ px) ∧ (δx ≤ 0 → px ≤ cx) ∧ (0 ≤ δy → (cy : R) ≤ py) ∧ (δy ≤ 0 → py ≤ cy)

/-- The F-C07b witness: a 3×3 map sampling the bump `9 − d²` centred at (x = 2.25, y = 1), i.e. a
quarter pixel to the right of the last column. -/
def borderMap : Nat → Nat → Rat :=
  fun i j => 9 - (((j : Rat) - (2 + 1/4)) * ((j : Rat) - (2 + 1/4)) + ((i : Rat) - 1) * ((i : Rat) - 1))

/-- second F-C07b witness: the same bump centred **exactly on** the border cell (2,1) — symmetric about it. -/
def borderSymMap : Nat → Nat → Rat :=
  fun i j => 9 - (((j : Rat) - 2) * ((j : Rat) - 2) + ((i : Rat) - 1) * ((i : Rat) - 1))

/-- **Toward-centre and symmetric-unmoved are false when the patch crosses the map border**
(finding F-C07b).  On `borderMap` the detector reports the right cell (2,1) (the maximum, nearest
to the true centre 2.25), but the 3×3 patch reads the zero padding beyond the last column, so the
refined x is `1119/722 ≈ 1.55`: moved *left* by 0.45 px although the true centre lies to the
*right* — the error grows from 0.25 to 0.70 px.  On `borderSymMap` (bump symmetric about the
border cell, δ = 0) the refined x is `72/47 ≈ 1.53`: a symmetric bump centred on a cell is moved by
0.47 px.  (The half-patch bound of C06 is unaffected: zero padding keeps the patch non-negative,
`refine_bounded_partial` has no interior hypothesis.) -/
theorem global_refine_toward_centre_border_counterexample :
    globalRough1 (R := Rat) (1/5) 3 3 borderMap = ⟨some (2, 1), 143/16⟩ ∧
    refinePoint (R := Rat) 3 3 borderMap 3 2 1 = some (1119/722, 1) ∧
    globalRough1 (R := Rat) (1/5) 3 3 borderSymMap = ⟨some (2, 1), 9⟩ ∧
    refinePoint (R := Rat) 3 3 borderSymMap 3 2 1 = some (72/47, 1) ∧
    ¬ TowardCentreEverywhere Rat := by
  have h1 : globalRough1 (R := Rat) (1/5) 3 3 borderMap = ⟨some (2, 1), 143/16⟩ := by decide +kernel
  have h2 : refinePoint (R := Rat) 3 3 borderMap 3 2 1 = some (1119/722, 1) := by decide +kernel
  have h3 : globalRough1 (R := Rat) (1/5) 3 3 borderSymMap = ⟨some (2, 1), 9⟩ := by decide +kernel
  have h4 : refinePoint (R := Rat) 3 3 borderSymMap 3 2 1 = some (72/47, 1) := by decide +kernel
  refine ⟨h1, h2, h3, h4, fun H => ?_⟩
  have hz : 0 < patchSum 3 (patch (R := Rat) 3 3 borderMap 3 2 1) := by decide +kernel
  obtain ⟨px, py, hp, hx, _⟩ := H 3 3 borderMap (fun u => 9 - u) 3 2 1 (1/4) 0 (by omega) (by omega)
    (fun i j _ _ => by simp only [borderMap]; push_cast; ring) (fun u v _ huv => by linarith) hz
  rw [h2] at hp
  simp only [Option.some.injEq, Prod.mk.injEq] at hp
  have := hx (by norm_num)
  rw [← hp.1] at this
  norm_num at this

end SleapVerif.C07
