import SleapVerif.Model.Datasets
import SleapVerif.Model.Pipelines
import SleapVerif.Gen.TranslatedC11
import Mathlib.Tactic.Ring
import Mathlib.Tactic.Linarith
import Mathlib.Algebra.Order.Field.Basic
import Mathlib.Data.Nat.Sqrt

/-!
# C11 / C18, second tie — the rotation over-crop *as translated from the Python source*

`Gen/TranslatedC11.lean` is regenerated on every run of `bin/check C11` and `bin/check C18`
(harness/py2lean_ext.py) from the two places that enlarge the crop before augmentation:
`CenteredInstanceDataset._fill_cache` (torch datasets, C11) and `centered_instance_data_chunks`
(litdata chunk functions, C18): `crop_size = np.array(crop_hw) * np.sqrt(2)`, then
`.astype(np.int32)`.  The translator also checks that the two sites are the same expression.

Both models state it as `cropExtra c = Nat.sqrt (2·c·c)` (`Model/Datasets.lean`,
`Model/Pipelines.lean`).  Below: for any carrier in which `sqrt2 ≥ 0`, `sqrt2² = 2` and `trunc` is
the floor on non-negative numbers, the generated `trunc (c · sqrt2)` is that natural number
(`gen_overcrop_eq_model`), hence the over-crop is at least the crop and less than twice the crop + 1
(`gen_overcrop_bounds`) — the re-crop window fits.

(Everything else of the C11/C18 code paths — dataset iteration, caching, chunk writing, `generate_crops`
— is loops over labels / tensor library calls: hand model + correspondence.  `find_instance_crop_size`
is tied under C04.)
-/

set_option linter.unusedSectionVars false

namespace SleapVerif.TranslatedC11
open SleapVerif.Gen.TranslatedC11

variable {R : Type} [Field R] [LinearOrder R] [IsStrictOrderedRing R]

/-- what `np.sqrt(2)` and `.astype(np.int32)` are assumed to be -/
structure Laws (sqrt2 : R) (trunc : R → Int) : Prop where
  nonneg : 0 ≤ sqrt2
  sq : sqrt2 * sqrt2 = 2
  floor : ∀ x : R, 0 ≤ x → ((trunc x : Int) : R) ≤ x ∧ x < ((trunc x : Int) : R) + 1

/-- **the translated over-crop is the models' `cropExtra`**: `⌊c·√2⌋ = ⌊√(2c²)⌋` -/
theorem gen_overcrop_eq_model {sqrt2 : R} {trunc : R → Int} (L : Laws sqrt2 trunc) (c : Nat) :
    overcrop (fun i => (i : R)) sqrt2 trunc (c : Int) = (Datasets.cropExtra c : Int) ∧
    overcrop (fun i => (i : R)) sqrt2 trunc (c : Int) = (Pipelines.cropExtra c : Int) := by
  have key : overcrop (fun i => (i : R)) sqrt2 trunc (c : Int) = (Nat.sqrt (2 * c * c) : Int) := by
    have hform : overcrop (fun i => (i : R)) sqrt2 trunc (c : Int) = trunc (((c : Int) : R) * sqrt2) := by
      unfold overcrop
      first | rfl | (congr 1; ring)
    rw [hform]
    set x : R := ((c : Int) : R) * sqrt2 with hx
    have hc0 : (0 : R) ≤ ((c : Int) : R) := by exact_mod_cast Nat.zero_le c
    have hx0 : 0 ≤ x := mul_nonneg hc0 L.nonneg
    have hxx : x * x = ((2 * c * c : Nat) : R) := by
      have : x * x = ((c : Int) : R) * ((c : Int) : R) * (sqrt2 * sqrt2) := by rw [hx]; ring
      rw [this, L.sq]; push_cast; ring
    obtain ⟨h1, h2⟩ := L.floor x hx0
    generalize trunc x = t at h1 h2
    have ht0 : 0 ≤ t := by
      by_contra h
      have : t ≤ -1 := by omega
      have : ((t : Int) : R) ≤ -1 := by exact_mod_cast this
      linarith
    obtain ⟨n, rfl⟩ := Int.eq_ofNat_of_zero_le ht0
    have h1' : ((n : Nat) : R) ≤ x := by exact_mod_cast h1
    have h2' : x < ((n : Nat) : R) + 1 := by exact_mod_cast h2
    have hn0 : (0 : R) ≤ (n : R) := Nat.cast_nonneg n
    have le1 : n * n ≤ 2 * c * c := by
      have : ((n * n : Nat) : R) ≤ ((2 * c * c : Nat) : R) := by
        rw [← hxx]; push_cast; exact mul_le_mul h1' h1' hn0 hx0
      exact_mod_cast this
    have lt2 : 2 * c * c < (n + 1) * (n + 1) := by
      have : ((2 * c * c : Nat) : R) < (((n + 1) * (n + 1) : Nat) : R) := by
        rw [← hxx]; push_cast
        exact mul_lt_mul'' h2' h2' hx0 hx0
      exact_mod_cast this
    have e1 : n ≤ Nat.sqrt (2 * c * c) := Nat.le_sqrt.mpr le1
    have e2 : Nat.sqrt (2 * c * c) < n + 1 := Nat.sqrt_lt.mpr lt2
    have : Nat.sqrt (2 * c * c) = n := by omega
    rw [this]
  exact ⟨key, key⟩

/-- directly: the over-crop is at least the crop (the re-crop window about its centre fits) and at
most twice the crop -/
theorem gen_overcrop_bounds {sqrt2 : R} {trunc : R → Int} (L : Laws sqrt2 trunc) (c : Nat) :
    (c : Int) ≤ overcrop (fun i => (i : R)) sqrt2 trunc (c : Int) ∧
    overcrop (fun i => (i : R)) sqrt2 trunc (c : Int) ≤ 2 * (c : Int) := by
  rw [(gen_overcrop_eq_model L c).1]
  unfold Datasets.cropExtra
  have h1 : c ≤ Nat.sqrt (2 * c * c) := Nat.le_sqrt.mpr (by nlinarith)
  have h2 : Nat.sqrt (2 * c * c) ≤ 2 * c := by
    have : Nat.sqrt (2 * c * c) < 2 * c + 1 := Nat.sqrt_lt.mpr (by nlinarith)
    omega
  exact ⟨by exact_mod_cast h1, by exact_mod_cast h2⟩

example : Datasets.cropExtra 160 = 226 ∧ Pipelines.cropExtra 160 = 226 := by
  have h : Nat.sqrt (2 * 160 * 160) = 226 := (Nat.eq_sqrt.mpr ⟨by norm_num, by norm_num⟩).symm
  exact ⟨h, h⟩

end SleapVerif.TranslatedC11
