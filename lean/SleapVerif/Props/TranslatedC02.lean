import SleapVerif.Lemmas.Decode
import SleapVerif.Gen.TranslatedC02

/-!
# C02, second tie — the decode arithmetic *as translated from the Python source*

`Gen/TranslatedC02.lean` is regenerated on every run of `bin/check C02` (harness/py2lean_ext.py)
from the lines that carry a peak from grid cells back to original-image coordinates:

* `single_instance.py` `SingleInstanceInferenceModel.forward`: `peak_points * output_stride`,
  `/ input_scale` (skipped when it is `1.0`), `/ eff_scale`                      → `single_decode`;
* `topdown.py` `CentroidCrop.forward`: `refined_peaks * output_stride / input_scale` → `centroid_decode`,
  `ref_peak * precrop_resize` (both loops)                                          → `centroid_precrop`;
* `topdown.py` `FindInstancePeaks.forward`: the same chain for the crop's peaks      → `instance_decode`,
  `inputs["instance_bbox"] / input_scale / eff_scale`                              → `instance_bbox_decode`;
* `predictors.py` `TopDownPredictor._make_labeled_frames_from_generator`:
  `pred_instances + bbox.squeeze(axis=0)[0, :]`                                    → `topdown_add_bbox`.

The C02 theorems (`single_roundtrip`, `topdown_roundtrip`, `topdown_animal_roundtrip`, …) are about
`Decode.singleDecode1`, `centroidCoord`, `cropTL`, `instanceCoord`.  Below: each of those *is* the
corresponding composition of generated definitions (`gen_*_eq_model`), and — directly about the
generated definitions — the chains invert the encoding exactly on exact hits and carry an error
of the grid position to `error / (scale · eff)` (`gen_single_decode_affine`,
`gen_topdown_decode_affine`).
-/

set_option linter.unusedSectionVars false
set_option linter.unusedSimpArgs false

namespace SleapVerif.TranslatedC02
open SleapVerif.Decode SleapVerif.Gen.TranslatedC02

variable {R : Type} [Field R] [LinearOrder R] [IsStrictOrderedRing R]

/-- the `if input_scale != 1.0` guard is immaterial: the chains are plain `g · os / s / eff` -/
theorem single_decode_formula (g os s eff : R) : single_decode g os s eff = g * os / s / eff := by
  unfold single_decode
  by_cases h : s = 1
  · subst h; simp
  · simp [h]

theorem instance_decode_formula (g os s eff : R) : instance_decode g os s eff = g * os / s / eff := by
  unfold instance_decode
  by_cases h : s = 1
  · subst h; simp
  · simp [h]

/-- single instance: the translated chain is `Decode.singleDecode1` -/
theorem gen_single_decode_eq_model (c : SingleCfg) (eff g : R) :
    single_decode g ((c.os : Nat) : R) (c.scale.toR Nat.cast) eff = singleDecode1 Nat.cast c eff g := by
  rw [single_decode_formula]; rfl

/-- centroid stage: the translated chain applied to `cell + δ` is `Decode.centroidCoord`, and the
crop corner of the model is the translated `* precrop_resize` followed by the `− size/2 + ½` of
`make_centered_bboxes` -/
theorem gen_centroid_decode_eq_model (c : TopDownCfg) (eff x δ chat : R) (n size : Nat) :
    centroid_decode (((nearest Nat.cast c.osC (x * (eff * c.sc.toR Nat.cast)) (n - 1) : Nat) : R) + δ)
        ((c.osC : Nat) : R) (c.sc.toR Nat.cast) = centroidCoord Nat.cast c eff n x δ ∧
    centroid_precrop chat (c.si.toR Nat.cast) - (size : R) / ((2 : Nat) : R) + ((1 : Nat) : R) / ((2 : Nat) : R)
      = cropTL Nat.cast c size chat := ⟨rfl, rfl⟩

/-- instance stage + consumer: peaks chain, bbox chain and `peaks + bbox top-left` compose to
`Decode.instanceCoord` -/
theorem gen_instance_decode_eq_model (c : TopDownCfg) (eff tl x δ : R) (n : Nat) :
    topdown_add_bbox
      (instance_decode (((nearest Nat.cast c.osI (x * (eff * c.si.toR Nat.cast) - tl) (n - 1) : Nat) : R) + δ)
        ((c.osI : Nat) : R) (c.si.toR Nat.cast) eff)
      (instance_bbox_decode tl (c.si.toR Nat.cast) eff)
    = instanceCoord Nat.cast c eff tl n x δ := by
  rw [instance_decode_formula]; rfl

/-- directly about the generated single-instance chain: a grid position `g·os` within `e` of the
encoded keypoint `x·(eff·s)` comes back within `e/(s·eff)` of `x`; exact hits come back exactly -/
theorem gen_single_decode_affine {g os s eff x e : R} (hs : 0 < s) (he : 0 < eff)
    (h : |g * os - x * (eff * s)| ≤ e) :
    |single_decode g os s eff - x| ≤ e / (s * eff) ∧
    (g * os = x * (eff * s) → single_decode g os s eff = x) := by
  rw [single_decode_formula]
  have h' : |g * os - (x * (eff * s) - 0)| ≤ e := by simpa using h
  have := decode_affine (tl := (0 : R)) hs he h'
  refine ⟨by simpa using this, fun hx => ?_⟩
  rw [hx]; field_simp

/-- directly about the generated top-down chains: for every crop corner `tl` (whatever the centroid
stage did), a grid position within `e` of the keypoint's position in the crop `x·(eff·s) − tl` comes
back within `e/(s·eff)` of `x` — the corner cancels in `peaks + bbox` -/
theorem gen_topdown_decode_affine {g os s eff x tl e : R} (hs : 0 < s) (he : 0 < eff)
    (h : |g * os - (x * (eff * s) - tl)| ≤ e) :
    |topdown_add_bbox (instance_decode g os s eff) (instance_bbox_decode tl s eff) - x| ≤ e / (s * eff) := by
  rw [instance_decode_formula]
  exact decode_affine hs he h


/-! ## what the networks receive -/

/-- shape after a list of preprocessing steps (`resize_image` = `int(size·scale)` per axis,
`apply_pad_to_stride` = `Decode.padTo`) -/
def shapeOf : List (ImgOp Scale) → Nat × Nat → Nat × Nat
  | [], hw => hw
  | .resize s :: r, hw => shapeOf r (resizeLen hw.1 s, resizeLen hw.2 s)
  | .padToStride ms :: r, hw => shapeOf r (padTo hw.1 ms.toNat, padTo hw.2 ms.toNat)

/-- the preprocessing the two top-down stages apply, as translated: centroid stage = resize by the
input scale, then bottom/right padding to the stride; instance stage = bottom/right padding only
(nothing that would move the crop's content, e.g. a centred padding) -/
theorem gen_input_ops_eq {S : Type} (s : S) (ms : Int) :
    centroid_input_ops s ms = ImgOp.resize s :: (if ms ≠ 1 then [ImgOp.padToStride ms] else []) ∧
    instance_input_ops s ms = (if ms ≠ 1 then [ImgOp.padToStride ms] else []) := by
  unfold centroid_input_ops instance_input_ops
  by_cases h : ms = 1 <;> simp [h]

/-- hence the tensors the networks receive have the shapes the model assumes
(`Decode.centroidInputShape`, `Decode.instanceInputShape`) -/
theorem gen_input_shapes_eq_model (c : TopDownCfg) (H W : Nat) :
    shapeOf (centroid_input_ops c.sc (c.msC : Int)) (matchedShape H W c.maxH c.maxW)
      = centroidInputShape c H W ∧
    shapeOf (instance_input_ops c.si (c.msI : Int)) (c.cropH, c.cropW) = instanceInputShape c := by
  have pad1 : ∀ n : Nat, padTo n 1 = n := fun n => by simp [padTo]
  obtain ⟨e1, e2⟩ := gen_input_ops_eq c.sc (c.msC : Int)
  obtain ⟨_, e3⟩ := gen_input_ops_eq c.si (c.msI : Int)
  rw [e1, e3]
  constructor
  · by_cases h : (c.msC : Int) = 1
    · have h' : c.msC = 1 := by exact_mod_cast h
      simp [h, shapeOf, centroidInputShape, matchedShape, h', pad1]
    · simp [h, shapeOf, centroidInputShape, matchedShape]
  · by_cases h : (c.msI : Int) = 1
    · have h' : c.msI = 1 := by exact_mod_cast h
      simp [h, shapeOf, instanceInputShape, h', pad1]
    · simp [h, shapeOf, instanceInputShape]

example : single_decode (3 : Rat) 2 (1 / 2) 2 = 6 ∧ single_decode (3 : Rat) 2 1 2 = 3 ∧
    topdown_add_bbox (instance_decode (3 : Rat) 2 (1 / 2) 2) (instance_bbox_decode 5 (1 / 2) 2) = 11 := by
  simp only [single_decode, instance_decode, instance_bbox_decode, topdown_add_bbox]; norm_num

end SleapVerif.TranslatedC02
