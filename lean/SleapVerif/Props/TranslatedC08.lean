import SleapVerif.Model.Grouping
import SleapVerif.Gen.TranslatedC08

/-!
# C08, second tie — the `min_instance_peaks` block *as translated from the Python source*

`Gen/TranslatedC08.lean` is regenerated from `sleap_nn/inference/paf_grouping.py` on every run of
`bin/check C08` (harness/py2lean_ext.py): the slice of `assign_connections_to_instances` that
decides whether small instances are filtered and against which threshold
(`if min_instance_peaks > 0:` … `int(min_instance_peaks * n_nodes)` for a float …
`instance_peak_counts[instance] >= min_instance_peaks`).

The C08 theorems (`assign_eq_filterSmall`, `instance_score_sum`, …) are about
`Grouping.filterSmall (assignRaw cs) (minPeaksThreshold mp nNodes)`.  The theorems below say that the
generated threshold and filter are exactly `minPeaksThreshold` / the predicate of `filterSmall`
(`gen_min_peaks_eq_model`, `gen_keeps_eq_model`, `gen_filter_eq_model`) and, directly about the
generated definition, that the threshold compared with the peak counts is always an integer and a
float is always read as a fraction of the node count — `1.0` means "every node"
(`gen_threshold_is_int`, `gen_float_is_fraction`).
-/

set_option linter.unusedSimpArgs false

namespace SleapVerif.TranslatedC08
open SleapVerif.Grouping SleapVerif.Gen.TranslatedC08

/-- the model's `MinPeaks` as the Python number it stands for -/
def ofModel : MinPeaks → PyNum
  | .int n => .int n
  | .frac q => .float q

theorem natCast_cast (n : Nat) : (((n : Int) : Rat)) = (n : Rat) := by norm_cast

/-- **the translated block computes the model's threshold** (`none` = no filtering), for an integer
and for a float argument alike -/
theorem gen_min_peaks_eq_model (mp : MinPeaks) (nNodes : Nat) :
    min_peaks_threshold (ofModel mp) (nNodes : Int) = (minPeaksThreshold mp nNodes).map PyNum.int := by
  cases mp with
  | int n =>
    have e : (0 : Rat) < (n : Rat) ↔ 0 < n := by
      have := @Rat.intCast_lt_intCast 0 n; simpa using this
    by_cases h : 0 < n <;>
      simp [min_peaks_threshold, ofModel, minPeaksThreshold, pyGt, pyIsFloat, PyNum.toRat, e, h]
  | frac q =>
    by_cases h : 0 < q
    · have hn : (0 : Rat) ≤ q * (nNodes : Rat) :=
        Rat.mul_nonneg (Rat.le_of_lt h) Rat.natCast_nonneg
      simp [min_peaks_threshold, ofModel, minPeaksThreshold, pyGt, pyLt, pyGe, pyLe, pyIsFloat, pyIsInt,
        pyMul, pyInt, PyNum.toRat, h, hn, natCast_cast]
    · simp [min_peaks_threshold, ofModel, minPeaksThreshold, pyGt, PyNum.toRat, h]

/-- the translated filter condition is the predicate of `filterSmall`: keep iff `t ≤ count` -/
theorem gen_keeps_eq_model (t : Int) (count : Nat) :
    keeps (.int t) (count : Int) = decide (t ≤ (count : Int)) := by
  have e : (t : Rat) ≤ ((count : Int) : Rat) ↔ t ≤ (count : Int) := Rat.intCast_le_intCast
  simp [keeps, pyGe, PyNum.toRat, e]

/-- **threshold + filter = the model's `filterSmall`** on every assignment table -/
theorem gen_filter_eq_model (a : Assign) (mp : MinPeaks) (nNodes : Nat) :
    (match min_peaks_threshold (ofModel mp) (nNodes : Int) with
      | none => a
      | some t => a.filter fun kv => keeps t ((countId a kv.2 : Nat) : Int))
    = filterSmall a (minPeaksThreshold mp nNodes) := by
  rw [gen_min_peaks_eq_model]
  cases minPeaksThreshold mp nNodes with
  | none => rfl
  | some t => simp only [Option.map_some, filterSmall, gen_keeps_eq_model]

/-- directly about the generated definition: whatever number is passed, the threshold that is
compared with the peak counts is an integer -/
theorem gen_threshold_is_int (x : PyNum) (n : Int) (t : PyNum)
    (h : min_peaks_threshold x n = some t) : ∃ k : Int, t = .int k := by
  cases x with
  | int m =>
    simp only [min_peaks_threshold, pyIsFloat] at h
    split at h
    · simp at h; exact ⟨m, h.symm⟩
    · cases h
  | float q =>
    simp only [min_peaks_threshold, pyIsFloat] at h
    split at h
    · simp at h; exact ⟨_, h.symm⟩
    · cases h

/-- directly about the generated definition: a positive float is always read as a fraction of the
node count — also when it is `≥ 1`; `1.0` asks for every node -/
theorem gen_float_is_fraction (q : Rat) (hq : 0 < q) (nNodes : Nat) :
    min_peaks_threshold (.float q) (nNodes : Int) = some (.int (q * (nNodes : Rat)).floor) ∧
    min_peaks_threshold (.float 1) (nNodes : Int) = some (.int nNodes) := by
  have key : ∀ r : Rat, 0 < r →
      min_peaks_threshold (.float r) (nNodes : Int) = some (.int (r * (nNodes : Rat)).floor) := by
    intro r hr
    have := gen_min_peaks_eq_model (.frac r) nNodes
    simpa [ofModel, minPeaksThreshold, hr] using this
  refine ⟨key q hq, ?_⟩
  rw [key 1 (by decide)]
  have : ((1 : Rat) * (nNodes : Rat)).floor = (nNodes : Int) := by
    rw [Rat.one_mul, ← natCast_cast, Rat.floor_intCast]
  rw [this]

example : min_peaks_threshold (.float (mkRat 1 2)) 5 = some (.int 2) ∧
    min_peaks_threshold (.float 1) 3 = some (.int 3) ∧ min_peaks_threshold (.int 2) 3 = some (.int 2) ∧
    min_peaks_threshold (.int 0) 3 = none ∧ min_peaks_threshold (.float (mkRat (-1) 2)) 3 = none ∧
    keeps (.int 2) 2 = true ∧ keeps (.int 2) 1 = false := by
  decide +kernel

end SleapVerif.TranslatedC08
