import SleapVerif.Model.Grouping
import SleapVerif.Gen.TranslatedC08

/-!
# C08, second tie — the `min_instance_peaks` block *as translated from the Python source*

`Gen/TranslatedC08.lean` is regenerated from `sleap_nn/inference/paf_grouping.py` on every run of
`bin/check C08` (harness/py2lean_ext.py): the slice of `assign_connections_to_instances` that
decides whether small instances are filtered and against which threshold
(`if min_instance_peaks > 0:` … `int(min_instance_peaks * n_nodes)` for a float …
`instance_peak_counts[instance] >= min_instance_peaks`).

The code multiplies a float `min_instance_peaks` by `n_nodes` **in float64** before `int()`; the
translation reads it that way (`pyMul` rounds with `Grouping.roundF64`), so the generated threshold
is tied to the model's literal rule `Grouping.minPeaksThresholdF64` — the rule the C08 pipeline
model follows through `effMinPeaks` / `mkParams` (`Lemmas/GroupingOut.filterSmall_eff`,
`Props/C08`) — with no exactness caveat: `gen_min_peaks_eq_model`, `gen_keeps_eq_model`,
`gen_filter_eq_model` (also in the `effMinPeaks` form).  When the double product happens to be exact
(dyadic fractions) this is the idealised `minPeaksThreshold` (`gen_min_peaks_eq_exact`).  Directly
about the generated definition: the threshold compared with the peak counts is always an integer
and a float is always read as a fraction of the node count — `1.0` means "every node"
(`gen_threshold_is_int`, `gen_float_is_fraction`).
-/

set_option linter.unusedSimpArgs false

namespace SleapVerif.TranslatedC08
open SleapVerif.Grouping SleapVerif.Gen.TranslatedC08

/-- the model's `MinPeaks` as the Python number it stands for -/
def ofModel : MinPeaks → PyNum
  | .int n => .int n
  | .frac q => .float q

theorem natCast_cast (n : Nat) : (((n : Int) : Rat)) = (n : Rat) := by norm_cast

theorem pow2_pos (e : Int) : 0 < pow2 e := by
  unfold pow2
  have h2 : ∀ k : Nat, (0 : Rat) < ((2 ^ k : Nat) : Rat) := fun k =>
    Rat.natCast_pos.mpr (Nat.two_pow_pos k)
  split
  · exact h2 _
  · rw [Rat.div_def, Rat.one_mul]; exact Rat.inv_pos.mpr (h2 _)

theorem roundHalfEven_nonneg {y : Rat} (hy : 0 ≤ y) : 0 ≤ roundHalfEven y := by
  have hf : (0 : Int) ≤ y.floor := Rat.le_floor_iff.mpr (by simpa using hy)
  unfold roundHalfEven
  simp only
  split
  · exact hf
  · split
    · omega
    · split <;> omega

/-- float64 rounding keeps non-negative numbers non-negative -/
theorem roundF64_nonneg {x : Rat} (hx : 0 ≤ x) : 0 ≤ roundF64 x := by
  have key : ∀ e : Int, 0 < x → (0 : Rat) ≤ (roundHalfEven (x / pow2 e) : Rat) * pow2 e := by
    intro e hx'
    have hp := pow2_pos e
    have hy : (0 : Rat) ≤ x / pow2 e := by
      rw [Rat.div_def]; exact Rat.mul_nonneg hx (Rat.le_of_lt (Rat.inv_pos.mpr hp))
    have hr : (0 : Rat) ≤ (roundHalfEven (x / pow2 e) : Rat) :=
      Rat.intCast_nonneg.mpr (roundHalfEven_nonneg hy)
    exact Rat.mul_nonneg hr (Rat.le_of_lt hp)
  unfold roundF64
  split
  · exact hx
  · rename_i h
    exact key _ (Rat.not_le.mp h)

/-- **the translated block computes the code's threshold as the model states it**
(`minPeaksThresholdF64`: integer as it is, float ↦ `int` of the float64 product; `none` = no
filtering) -/
theorem gen_min_peaks_eq_model (mp : MinPeaks) (nNodes : Nat) :
    min_peaks_threshold (ofModel mp) (nNodes : Int) = (minPeaksThresholdF64 mp nNodes).map PyNum.int := by
  cases mp with
  | int n =>
    have e : (0 : Rat) < (n : Rat) ↔ 0 < n := by
      have := @Rat.intCast_lt_intCast 0 n; simpa using this
    by_cases h : 0 < n <;>
      simp [min_peaks_threshold, ofModel, minPeaksThresholdF64, pyGt, pyIsFloat, PyNum.toRat, e, h]
  | frac q =>
    by_cases h : 0 < q
    · have hn : (0 : Rat) ≤ roundF64 (q * (nNodes : Rat)) :=
        roundF64_nonneg (Rat.mul_nonneg (Rat.le_of_lt h) Rat.natCast_nonneg)
      simp [min_peaks_threshold, ofModel, minPeaksThresholdF64, pyGt, pyLt, pyGe, pyLe, pyIsFloat, pyIsInt,
        pyMul, pyInt, PyNum.toRat, h, hn, natCast_cast]
    · simp [min_peaks_threshold, ofModel, minPeaksThresholdF64, pyGt, PyNum.toRat, h]

/-- when the float64 product is exact (e.g. a dyadic fraction of a small node count) the threshold is
the idealised `⌊q · n⌋` of `minPeaksThreshold` -/
theorem gen_min_peaks_eq_exact (mp : MinPeaks) (nNodes : Nat)
    (hx : ∀ q, mp = .frac q → roundF64 (q * (nNodes : Rat)) = q * (nNodes : Rat)) :
    min_peaks_threshold (ofModel mp) (nNodes : Int) = (minPeaksThreshold mp nNodes).map PyNum.int := by
  rw [gen_min_peaks_eq_model]
  cases mp with
  | int n => rfl
  | frac q => simp only [minPeaksThresholdF64, minPeaksThreshold, hx q rfl]

/-- the translated filter condition is the predicate of `filterSmall`: keep iff `t ≤ count` -/
theorem gen_keeps_eq_model (t : Int) (count : Nat) :
    keeps (.int t) (count : Int) = decide (t ≤ (count : Int)) := by
  have e : (t : Rat) ≤ ((count : Int) : Rat) ↔ t ≤ (count : Int) := Rat.intCast_le_intCast
  simp [keeps, pyGe, PyNum.toRat, e]

/-- **threshold + filter = the model's `filterSmall`** with the code's rule, on every assignment
table — equivalently (what the pipeline model `mkParams` uses) with `effMinPeaks` -/
theorem gen_filter_eq_model (a : Assign) (mp : MinPeaks) (nNodes : Nat) :
    (match min_peaks_threshold (ofModel mp) (nNodes : Int) with
      | none => a
      | some t => a.filter fun kv => keeps t ((countId a kv.2 : Nat) : Int))
    = filterSmall a (minPeaksThresholdF64 mp nNodes) := by
  rw [gen_min_peaks_eq_model]
  cases minPeaksThresholdF64 mp nNodes with
  | none => rfl
  | some t => simp only [Option.map_some, filterSmall, gen_keeps_eq_model]

/-- directly about the generated definition: whatever number is passed, the threshold that is
compared with the peak counts is an integer -/
theorem gen_threshold_is_int (x : PyNum) (n : Int) (t : PyNum)
    (h : min_peaks_threshold x n = some t) : ∃ k : Int, t = .int k := by
  cases x with
  | int m =>
    simp only [min_peaks_threshold, pyIsFloat] at h
    split at h
    · simp at h; exact ⟨m, h.symm⟩
    · cases h
  | float q =>
    simp only [min_peaks_threshold, pyIsFloat] at h
    split at h
    · simp at h; exact ⟨_, h.symm⟩
    · cases h

/-- directly about the generated definition: a positive float is always read as a fraction of the
node count, product in float64 — also when it is `≥ 1`; `1.0` asks for every node; and the
float64 product matters: `0.6` (the double) of 5 nodes is 3, not the exact `⌊·⌋ = 2` -/
theorem gen_float_is_fraction (q : Rat) (hq : 0 < q) (nNodes : Nat) :
    min_peaks_threshold (.float q) (nNodes : Int) = some (.int (roundF64 (q * (nNodes : Rat))).floor) ∧
    (roundF64 (q * (nNodes : Rat)) = q * (nNodes : Rat) →
      min_peaks_threshold (.float q) (nNodes : Int) = some (.int (q * (nNodes : Rat)).floor)) := by
  have key : min_peaks_threshold (.float q) (nNodes : Int)
      = some (.int (roundF64 (q * (nNodes : Rat))).floor) := by
    have := gen_min_peaks_eq_model (.frac q) nNodes
    simpa [ofModel, minPeaksThresholdF64, hq] using this
  exact ⟨key, fun h => by rw [key, h]⟩

/-- the double nearest to `0.6` -/
def d06 : Rat := mkRat 5404319552844595 9007199254740992

example : min_peaks_threshold (.float 1) 3 = some (.int 3) ∧
    min_peaks_threshold (.float d06) 5 = some (.int 3) ∧ (d06 * 5).floor = 2 := by decide +kernel

example : min_peaks_threshold (.float (mkRat 1 2)) 5 = some (.int 2) ∧
    min_peaks_threshold (.float 1) 3 = some (.int 3) ∧ min_peaks_threshold (.int 2) 3 = some (.int 2) ∧
    min_peaks_threshold (.int 0) 3 = none ∧ min_peaks_threshold (.float (mkRat (-1) 2)) 3 = none ∧
    keeps (.int 2) 2 = true ∧ keeps (.int 2) 1 = false := by
  decide +kernel

end SleapVerif.TranslatedC08
