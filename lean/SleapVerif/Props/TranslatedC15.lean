import SleapVerif.Lemmas.Oks
import SleapVerif.Gen.TranslatedC15

/-!
# C15, second tie — the arithmetic core of OKS *as translated from the Python source*

`Gen/TranslatedC15.lean` is regenerated from `sleap_nn/evaluation.py` on every run of
`bin/check C15` (harness/py2lean_ext.py): `compute_instance_area` (for one instance) and three
slices of `compute_oks` — the pairwise squared distance, the per-keypoint normalisation factor under
both conventions (`use_cocoeval`), and the argument of `np.exp`.  The NaN/inf masks and the final
`sum / n_visible` of `compute_oks` are not translated; they stay with the hand model
(`Oks.ks`, `Oks.oksNodes`) and the correspondence.

The C15 theorems are about `Oks.area`, `Oks.d2`, `Oks.normFactor`, `Oks.ksArg`/`Oks.ks`; below each
of those *is* the generated definition (`gen_*_eq_model`), and, directly about the generated
definitions: the factor is positive, the exponent is `≤ 0` and `= 0` exactly on a perfect hit, and
shifting both points by the same vector changes nothing (`gen_oks_core_facts`).
-/

set_option linter.unusedSectionVars false
set_option linter.unusedSimpArgs false
set_option linter.unusedTactic false
set_option linter.unreachableTactic false

namespace SleapVerif.TranslatedC15
open SleapVerif.Oks SleapVerif.Gen.TranslatedC15

variable {R : Type} [Field R] [LinearOrder R] [IsStrictOrderedRing R]

/-- `compute_instance_area` of one instance is the model's `area` (NaN as soon as one coordinate
column has no visible entry) -/
theorem gen_compute_instance_area_eq_model (pts : List (Pt R)) :
    compute_instance_area pts = area pts := by
  simp only [compute_instance_area, area, npNanmin, npNanmax]
  cases nanFold minR (pts.map (·.1)) <;> cases nanFold maxR (pts.map (·.1)) <;>
    cases nanFold minR (pts.map (·.2)) <;> cases nanFold maxR (pts.map (·.2)) <;> rfl

/-- squared distance and normalisation factor are the model's `d2` and `normFactor` -/
theorem gen_oks_distance_norm_eq_model (coco : Bool) (eps sd s : R) (g p : R × R) :
    oks_distance g.1 g.2 p.1 p.2 = d2 g p ∧
    oks_normalization_factor coco eps sd s = normFactor coco eps sd s := by
  constructor
  · simp only [oks_distance, d2] <;> (first | rfl | ring_nf)
  · cases coco <;> simp only [oks_normalization_factor, normFactor, Bool.false_eq_true, if_false, if_true] <;>
      (first | rfl | ring_nf)

/-- for a keypoint visible in both instances the exponent is the model's `ksArg` and the keypoint
similarity is `exp` of it (`Oks.ks`) -/
theorem gen_oks_exp_arg_eq_model (exp : R → R) (coco : Bool) (eps s sd : R) (g p : R × R) :
    ksArg coco eps s ⟨sd, (some g.1, some g.2), (some p.1, some p.2)⟩ =
      some (oks_exp_arg (oks_distance g.1 g.2 p.1 p.2) (oks_normalization_factor coco eps sd s)) ∧
    ks exp coco eps s ⟨sd, (some g.1, some g.2), (some p.1, some p.2)⟩ =
      exp (oks_exp_arg (oks_distance g.1 g.2 p.1 p.2) (oks_normalization_factor coco eps sd s)) := by
  obtain ⟨h1, h2⟩ := gen_oks_distance_norm_eq_model coco eps sd s g p
  simp only [ksArg, ks, vis, h1, h2, oks_exp_arg]
  constructor <;> (first | trivial | rfl | ring_nf)

/-- directly about the generated definitions: with `eps > 0`, `scale ≥ 0`, `stddev ≠ 0` the factor is
positive; then the exponent is `≤ 0`, it is `0` exactly when prediction and ground truth coincide
(so `ks = exp 0`), and it is invariant under a common translation of the two points -/
theorem gen_oks_core_facts (coco : Bool) {eps sd s : R} (he : 0 < eps) (hs : 0 ≤ s) (hsd : sd ≠ 0)
    (g0 g1 p0 p1 t0 t1 : R) :
    0 < oks_normalization_factor coco eps sd s ∧
    oks_exp_arg (oks_distance g0 g1 p0 p1) (oks_normalization_factor coco eps sd s) ≤ 0 ∧
    (oks_exp_arg (oks_distance g0 g1 p0 p1) (oks_normalization_factor coco eps sd s) = 0 ↔
      g0 = p0 ∧ g1 = p1) ∧
    oks_distance (g0 + t0) (g1 + t1) (p0 + t0) (p1 + t1) = oks_distance g0 g1 p0 p1 := by
  have hN := (gen_oks_distance_norm_eq_model coco eps sd s (g0, g1) (p0, p1)).2
  have hD : ∀ a b c d : R, oks_distance a b c d = d2 (a, b) (c, d) :=
    fun a b c d => (gen_oks_distance_norm_eq_model coco eps sd s (a, b) (c, d)).1
  rw [hN, hD, hD]
  have hse : 0 < s + eps := by linarith
  have hsd2 : 0 < sd * sd := mul_self_pos.mpr hsd
  have hn : 0 < normFactor coco eps sd s := by
    unfold normFactor
    cases coco
    · simp only [Bool.false_eq_true, if_false]
      exact mul_pos hsd2 (mul_pos (by norm_num) (mul_pos hse hse))
    · simp only [if_true]
      have h4 : 0 < (2 * sd) * (2 * sd) := by nlinarith
      exact mul_pos h4 (mul_pos (by norm_num) hse)
  have hd : 0 ≤ d2 (g0, g1) (p0, p1) := add_nonneg (mul_self_nonneg _) (mul_self_nonneg _)
  refine ⟨hn, ?_, ?_, ?_⟩
  · unfold oks_exp_arg
    have := div_nonneg hd hn.le
    first | linarith | (ring_nf at this ⊢; linarith)
  · unfold oks_exp_arg
    rw [neg_eq_zero, div_eq_zero_iff]
    simp only [d2]
    constructor
    · rintro (h | h)
      · have h1 : (g0 - p0) * (g0 - p0) = 0 := by nlinarith [mul_self_nonneg (g0 - p0), mul_self_nonneg (g1 - p1)]
        have h2 : (g1 - p1) * (g1 - p1) = 0 := by nlinarith [mul_self_nonneg (g0 - p0), mul_self_nonneg (g1 - p1)]
        exact ⟨by have := mul_self_eq_zero.mp h1; linarith, by have := mul_self_eq_zero.mp h2; linarith⟩
      · exact absurd h hn.ne'
    · rintro ⟨rfl, rfl⟩; left; ring
  · simp only [d2]; ring

example : oks_normalization_factor true (0 : Rat) (1 / 40) 100 = 1 / 2 ∧
    oks_exp_arg (oks_distance (3 : Rat) 4 0 0) (1 / 2) = -50 := by
  simp only [oks_normalization_factor, oks_exp_arg, oks_distance]; norm_num

end SleapVerif.TranslatedC15
