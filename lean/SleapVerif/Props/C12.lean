import SleapVerif.Lemmas.DecodeBatch
import Mathlib.Order.Defs.LinearOrder
/-!
# C12 — a frame's predictions are independent of batch-mates and carry its indices

Statements are about the batch plumbing in `SleapVerif.Decode` (tied to `/repo` by
`harness/c12.py`): `CentroidCrop.forward` / `_generate_crops` / `TopDownInferenceModel.forward` as
coded (flat peak list tagged by sample index, batch-wide `max_instances`, `topk`, NaN padding,
parallel index lists zipped and replicated per crop) and `_predict_generator`'s chunking.
Hypothesis carried by the model's types: the networks are sample-wise (a frame's detections are a
function of its own image) — true of the stubs by construction, of conv nets in eval mode by design.
`max_instances = 0` is outside the correspondence (the code raises in `crop_bboxes`).
-/
namespace SleapVerif.C12
open SleapVerif.Decode

variable {α V ι E β : Type}

section
variable [LT V] [DecidableLT V]

/-- **centroidcrop_per_frame**: the crop groups a batch yields are, in order, the groups each frame
yields on its own; `frameGroup` sees nothing but the frame (the batch-wide padding length is
dropped again with the NaN rows). -/
theorem centroidcrop_per_frame (mi : Option Nat) (batch : List (Frame α V ι E)) :
    centroidCrop mi batch = batch.filterMap (frameGroup mi) :=
  centroidCrop_eq mi batch

/-- in particular: a frame alone -/
theorem frame_alone (mi : Option Nat) (f : Frame α V ι E) :
    centroidCrop mi [f] = (frameGroup mi f).toList := by
  rw [centroidcrop_per_frame]
  cases h : frameGroup mi f <;> simp [h]

/-- and the records of a frame inside any batch are those of the frame alone: the forward pass is
a homomorphism for concatenation -/
theorem forward_append (inst : Rec α V ι E → β) (mi : Option Nat) (b₁ b₂ : List (Frame α V ι E)) :
    topdownForward inst mi (b₁ ++ b₂) = topdownForward inst mi b₁ ++ topdownForward inst mi b₂ := by
  simp [topdownForward, centroidcrop_per_frame]

theorem forward_frame_in_batch (inst : Rec α V ι E → β) (mi : Option Nat) (pre post : List (Frame α V ι E))
    (f : Frame α V ι E) :
    topdownForward inst mi (pre ++ f :: post)
      = topdownForward inst mi pre ++ topdownForward inst mi [f] ++ topdownForward inst mi post := by
  rw [forward_append, show f :: post = [f] ++ post from rfl, forward_append, List.append_assoc]

/-- **topdown_perm_equivariant**: reordering the frames of a batch reorders the output groups and
changes nothing else. -/
theorem topdown_perm_equivariant (inst : Rec α V ι E → β) (mi : Option Nat) {b₁ b₂ : List (Frame α V ι E)}
    (p : b₁.Perm b₂) : (topdownForward inst mi b₁).Perm (topdownForward inst mi b₂) := by
  simp only [topdownForward, centroidcrop_per_frame]
  exact (p.filterMap _).map _

/-- reversal, the simplest non-trivial permutation, exactly -/
theorem topdown_reverse (inst : Rec α V ι E → β) (mi : Option Nat) (b : List (Frame α V ι E)) :
    topdownForward inst mi b.reverse = (topdownForward inst mi b).reverse := by
  simp [topdownForward, centroidcrop_per_frame, List.filterMap_reverse]

/-- **single_perm_equivariant**: the single-instance forward is a row-wise map -/
theorem single_perm_equivariant {τ : Type} (row : τ → β) {b₁ b₂ : List τ} (p : b₁.Perm b₂) :
    ((singleForward row b₁).flatten).Perm ((singleForward row b₂).flatten) := by
  simpa [singleForward] using p.map row

/-- **bottomup_per_frame**: the bottom-up forward + consumer zip is the per-frame map: sample `b`'s
record carries frame `b`'s indices, is decoded with frame `b`'s `eff_scale`, and is grouped from
frame `b`'s peaks only. -/
theorem bottomup_per_frame {γ : Type} (group : List (Peak α V) → β) (decode : E → β → γ)
    (batch : List (Frame α V ι E)) :
    bottomupRecords group decode batch
      = batch.map fun f => (f.fidx, f.vidx, decode f.eff (group f.peaks)) :=
  bottomupRecords_eq group decode batch

/-- **bottomup_perm_equivariant** -/
theorem bottomup_perm_equivariant {γ : Type} (group : List (Peak α V) → β) (decode : E → β → γ)
    {b₁ b₂ : List (Frame α V ι E)} (p : b₁.Perm b₂) :
    (bottomupRecords group decode b₁).Perm (bottomupRecords group decode b₂) := by
  simp only [bottomup_per_frame]
  exact p.map _

theorem bottomup_append {γ : Type} (group : List (Peak α V) → β) (decode : E → β → γ)
    (b₁ b₂ : List (Frame α V ι E)) :
    bottomupRecords group decode (b₁ ++ b₂)
      = bottomupRecords group decode b₁ ++ bottomupRecords group decode b₂ := by
  simp [bottomup_per_frame]

/-- bottom-up: any batch size gives the same records -/
theorem bottomup_batchsize_irrelevant {γ : Type} (group : List (Peak α V) → β) (decode : E → β → γ)
    (B : Nat) (hB : 1 ≤ B) (frames : List (Frame α V ι E)) :
    predictGen B (bottomupRecords group decode) frames = bottomupRecords group decode frames := by
  have key : ∀ L : List (List (Frame α V ι E)),
      L.flatMap (bottomupRecords group decode) = bottomupRecords group decode L.flatten := by
    intro L
    induction L with
    | nil => simp [bottomup_per_frame]
    | cons b bs ih => rw [List.flatMap_cons, ih, List.flatten_cons, bottomup_append]
  unfold predictGen
  rw [key, flatten_chunks B hB]

/-- **indices_carried**: every output group comes from one frame of the batch; each of its rows
carries that frame's `frame_idx`, `video_idx`, `eff_scale`, and a detection of that frame. -/
theorem indices_carried (mi : Option Nat) (batch : List (Frame α V ι E)) (g : List (Rec α V ι E))
    (hg : g ∈ centroidCrop mi batch) :
    ∃ f ∈ batch, g ≠ [] ∧ ∀ r ∈ g, r.fidx = f.fidx ∧ r.vidx = f.vidx ∧ r.eff = f.eff ∧ r.peak ∈ f.peaks := by
  rw [centroidcrop_per_frame, List.mem_filterMap] at hg
  obtain ⟨f, hf, hfg⟩ := hg
  refine ⟨f, hf, ?_⟩
  have key : ∀ kept : List (Peak α V), (∀ p ∈ kept, p ∈ f.peaks) →
      (if kept.isEmpty then none
        else some (kept.map fun p => ({ fidx := f.fidx, vidx := f.vidx, eff := f.eff, peak := p } : Rec α V ι E)))
        = some g →
      g ≠ [] ∧ ∀ r ∈ g, r.fidx = f.fidx ∧ r.vidx = f.vidx ∧ r.eff = f.eff ∧ r.peak ∈ f.peaks := by
    intro kept hsub h
    by_cases hk : kept.isEmpty = true
    · simp [hk] at h
    · simp only [hk] at h
      injection h with h
      subst h
      constructor
      · intro h0
        simp only [List.map_eq_nil_iff] at h0
        simp [h0] at hk
      · intro r hr
        simp only [List.mem_map] at hr
        obtain ⟨p, hp, rfl⟩ := hr
        exact ⟨rfl, rfl, rfl, hsub p hp⟩
  cases mi with
  | none => exact key f.peaks (fun _ h => h) hfg
  | some k =>
    refine key (if f.peaks.length > k then topk k f.peaks else f.peaks) ?_ hfg
    intro p hp
    split at hp
    · exact (sortDesc_perm f.peaks).subset (List.mem_of_mem_take hp)
    · exact hp

/-- **empty_frames_neutral**: a frame without detections yields nothing and does not disturb its
batch-mates, wherever it sits. -/
theorem empty_frames_neutral (inst : Rec α V ι E → β) (mi : Option Nat) (pre post : List (Frame α V ι E))
    (f : Frame α V ι E) (h : f.peaks = []) :
    topdownForward inst mi (pre ++ f :: post) = topdownForward inst mi (pre ++ post) := by
  rw [forward_frame_in_batch, forward_append]
  have : topdownForward inst mi [f] = [] := by
    simp [topdownForward, centroidcrop_per_frame, frameGroup_none_of_empty mi f h]
  simp [this]

/-- a batch of empty frames yields no output at all (`CentroidCrop` returns `None`) -/
theorem all_empty_none (mi : Option Nat) (batch : List (Frame α V ι E)) (h : ∀ f ∈ batch, f.peaks = []) :
    centroidCrop mi batch = [] := by
  rw [centroidcrop_per_frame, List.filterMap_eq_nil_iff]
  exact fun f hf => frameGroup_none_of_empty mi f (h f hf)

/-- **batchsize_irrelevant**: chunking the frame list into batches of any size `B ≥ 1` and
concatenating the per-batch outputs gives the output of the whole list as one batch. -/
theorem batchsize_irrelevant (inst : Rec α V ι E → β) (mi : Option Nat) (B : Nat) (hB : 1 ≤ B)
    (frames : List (Frame α V ι E)) :
    predictGen B (topdownForward inst mi) frames = topdownForward inst mi frames := by
  have key : ∀ L : List (List (Frame α V ι E)),
      L.flatMap (topdownForward inst mi) = topdownForward inst mi L.flatten := by
    intro L
    induction L with
    | nil => simp [topdownForward, centroidcrop_per_frame]
    | cons b bs ih => rw [List.flatMap_cons, ih, List.flatten_cons, forward_append]
  unfold predictGen
  rw [key, flatten_chunks B hB]

/-- two batch sizes give the same records -/
theorem batchsize_irrelevant' (inst : Rec α V ι E → β) (mi : Option Nat) (B B' : Nat) (hB : 1 ≤ B)
    (hB' : 1 ≤ B') (frames : List (Frame α V ι E)) :
    predictGen B (topdownForward inst mi) frames = predictGen B' (topdownForward inst mi) frames := by
  rw [batchsize_irrelevant inst mi B hB, batchsize_irrelevant inst mi B' hB']

/-- single-instance: rows of all output dictionaries, concatenated, are the frames' rows in order,
for every batch size; every dictionary has between 1 and `B` rows -/
theorem batchsize_irrelevant_single {τ : Type} (row : τ → β) (B : Nat) (hB : 1 ≤ B) (frames : List τ) :
    (predictGen B (singleForward row) frames).flatten = frames.map row ∧
      ∀ d ∈ predictGen B (singleForward row) frames, d ≠ [] ∧ d.length ≤ B := by
  have e : predictGen B (singleForward row) frames = (chunks B frames).map (·.map row) := by
    unfold predictGen singleForward
    induction chunks B frames with
    | nil => rfl
    | cons c cs ih => simp [List.flatMap_cons, ih]
  rw [e]
  constructor
  · rw [← List.map_flatten, flatten_chunks B hB]
  · intro d hd
    simp only [List.mem_map] at hd
    obtain ⟨c, hc, rfl⟩ := hd
    have := chunksFuel_sizes B hB frames.length frames c hc
    simpa using this

end

/-- **topk_keeps_highest**: with a limit `k`, the kept detections are `min k n` of the frame's
detections, every kept value dominates every dropped value, nothing is invented or lost
(kept ++ dropped is a permutation of the input), and the kept list is in descending order
(order among equal values unspecified by `torch.topk`; the model is stable). -/
theorem topk_keeps_highest [LinearOrder V] (k : Nat) (l : List (Peak α V)) :
    (∀ a ∈ topk k l, ∀ b ∈ dropped k l, b.val ≤ a.val) ∧
      (topk k l ++ dropped k l).Perm l ∧
      (topk k l).length = min k l.length ∧
      (topk k l).Pairwise (fun a b => b.val ≤ a.val) := by
  have hs : (sortDesc l).Pairwise (fun a b : Peak α V => (!decide (a.val < b.val)) = true) := by
    apply List.pairwise_mergeSort
    · intro a b c hab hbc
      simp only [Bool.not_eq_true', decide_eq_false_iff_not, not_lt] at hab hbc ⊢
      exact le_trans hbc hab
    · intro a b
      simp only [Bool.or_eq_true, Bool.not_eq_true', decide_eq_false_iff_not, not_lt]
      exact le_total b.val a.val
  have hs' : (sortDesc l).Pairwise (fun a b : Peak α V => b.val ≤ a.val) :=
    hs.imp (by intro a b h; simpa using h)
  have hsplit : topk k l ++ dropped k l = sortDesc l := List.take_append_drop k _
  refine ⟨?_, ?_, ?_, ?_⟩
  · rw [← hsplit, List.pairwise_append] at hs'
    exact fun a ha b hb => hs'.2.2 a ha b hb
  · rw [hsplit]; exact sortDesc_perm l
  · simp [topk, (sortDesc_perm l).length_eq]
  · exact hs'.sublist (List.take_sublist k _)

/-- the bottom-up `max_instances` filter keeps the highest-scoring instances (same statement, for
`keepTop`); unset: everything is kept -/
theorem keepTop_keeps_highest [LinearOrder V] (k : Nat) (l : List (Peak α V)) :
    keepTop (some k) l = topk k l ∧ keepTop none l = l ∧
      (∀ a ∈ keepTop (some k) l, ∀ b ∈ dropped k l, b.val ≤ a.val) ∧
      (keepTop (some k) l ++ dropped k l).Perm l :=
  ⟨rfl, rfl, (topk_keeps_highest k l).1, (topk_keeps_highest k l).2.1⟩

/-! ### top-down with ground-truth peaks -/

/-- **gt_peaks_per_frame**: `FindInstancePeaksGroundTruth`'s parse loop over the batch-wide flat list
of matched instances gives every frame exactly its own matches (NaN-padded / truncated to
`max_inst`), whatever the counts of the frames before it. -/
theorem gt_peaks_per_frame {τ : Type} (maxInst : Nat) (ms : List (List τ)) :
    gtPeaks maxInst ms = ms.map (gtPad maxInst) :=
  gtPeaks_eq maxInst ms

theorem gt_peaks_append {τ : Type} (maxInst : Nat) (m₁ m₂ : List (List τ)) :
    gtPeaks maxInst (m₁ ++ m₂) = gtPeaks maxInst m₁ ++ gtPeaks maxInst m₂ := by
  simp [gt_peaks_per_frame]

theorem gt_peaks_perm {τ : Type} (maxInst : Nat) {m₁ m₂ : List (List τ)} (p : m₁.Perm m₂) :
    (gtPeaks maxInst m₁).Perm (gtPeaks maxInst m₂) := by
  simp only [gt_peaks_per_frame]
  exact p.map _

/-- nothing is invented: the non-NaN rows of a frame are a prefix of its own matches, all of them
when they fit -/
theorem gt_pad_rows {τ : Type} (maxInst : Nat) (m : List τ) :
    (gtPad maxInst m).filterMap id = m.take maxInst ∧ (gtPad maxInst m).length = maxInst := by
  unfold gtPad
  split
  · rename_i h
    refine ⟨?_, by simp; omega⟩
    rw [List.filterMap_append, filterMap_id_map_some, filterMap_id_replicate_none, List.append_nil,
      List.take_of_length_le (by omega)]
  · rename_i h
    refine ⟨filterMap_id_map_some _, by simp; omega⟩

example : gtPeaks 3 [[10], [], [20, 21, 22], [30, 31]]
    = [[some 10, none, none], [none, none, none], [some 20, some 21, some 22], [some 30, some 31, none]] := by
  decide

/-- **indices carried, single-instance**: every output row sits next to the indices of the frame it
was computed from, whatever the batch. -/
theorem single_indices_carried {τ ι : Type} (row : τ → β) (fidx vidx : τ → ι) (batch : List τ) :
    singleRecords row fidx vidx batch = batch.map fun f => (fidx f, vidx f, row f) := by
  simp [singleRecords, List.zip_map']

/-- **indices carried, ground-truth peaks**: every frame's row block (its own matches, padded) sits
next to its own indices. -/
theorem gt_indices_carried {τ ι : Type} (maxInst : Nat) (batch : List (ι × ι × List τ)) :
    gtRecords maxInst batch = batch.map fun f => (f.1, f.2.1, gtPad maxInst f.2.2) := by
  simp [gtRecords, gt_peaks_per_frame, List.zip_map', List.map_map, Function.comp_def]

/-! ### network mode -/

/-- **forward_mode_eval**: a wrapper that forces eval mode runs the network in eval mode whatever
mode its caller left it in (its call history), so every frame's output is the eval-mode output for
ANY batch statistics `s₀` — batch-mates, batch size and order play no role — and the weights
(running statistics) are left untouched: the next forward sees the same network. -/
theorem forward_mode_eval {W S F O : Type} (net : Net W S F O) (stats : List F → S) (cur : Mode) (w : W)
    (batch : List F) (s₀ : S) :
    netForward net stats true cur w batch = (batch.map (net.run Mode.eval w s₀), w) := by
  simp only [netForward, modeOf, if_true]
  congr 1
  apply List.map_congr_left
  intro f _
  exact net.eval_indep w _ _ f

/-- consequently the frame-wise output list is a homomorphism for `++`, i.e. a frame in a batch gets
what it gets alone, for every call history; this is what makes `Frame.peaks` (the detections of a
frame) a function of the frame, the standing assumption of the per-frame theorems above -/
theorem forward_mode_eval_append {W S F O : Type} (net : Net W S F O) (stats : List F → S) (cur cur' cur'' : Mode)
    (w : W) (b₁ b₂ : List F) :
    (netForward net stats true cur w (b₁ ++ b₂)).1
      = (netForward net stats true cur' w b₁).1 ++ (netForward net stats true cur'' w b₂).1 := by
  rw [forward_mode_eval net stats cur w (b₁ ++ b₂) (stats []), forward_mode_eval net stats cur' w b₁ (stats []),
    forward_mode_eval net stats cur'' w b₂ (stats [])]
  simp

/-- top-down, composed: detections taken in forced eval mode + the crop plumbing = per-frame map,
for every history `cur` and every batch -/
theorem topdown_mode_per_frame {W S F : Type} [LT V] [DecidableLT V]
    (net : Net W S F (List (Peak α V))) (stats : List F → S) (cur : Mode) (w : W) (mi : Option Nat)
    (idx : F → ι × ι × E) (batch : List F) (s₀ : S) :
    centroidCrop mi (((netForward net stats true cur w batch).1.zip batch).map
        fun (pk, f) => ({ fidx := (idx f).1, vidx := (idx f).2.1, eff := (idx f).2.2, peaks := pk } : Frame α V ι E))
      = batch.filterMap fun f =>
          frameGroup mi { fidx := (idx f).1, vidx := (idx f).2.1, eff := (idx f).2.2,
                          peaks := net.run Mode.eval w s₀ f } := by
  have hz : ∀ (g : F → List (Peak α V)) (l : List F), (l.map g).zip l = l.map (fun f => (g f, f)) := by
    intro g l
    induction l with
    | nil => rfl
    | cons x xs ih => simp [ih]
  rw [centroidcrop_per_frame, forward_mode_eval net stats cur w batch s₀]
  simp only [hz, List.map_map, List.filterMap_map, Function.comp_def]

/-- at HEAD every wrapper forces eval mode (so `forward_mode_eval` applies to all three models) -/
theorem forcesEval_all (k : Kind) : forcesEval k = true := rfl

/-- hence, for every model kind, call history and batch: eval-mode per-frame outputs, weights untouched -/
theorem forward_mode_eval_head {W S F O : Type} (k : Kind) (net : Net W S F O) (stats : List F → S) (cur : Mode)
    (w : W) (batch : List F) (s₀ : S) :
    netForward net stats (forcesEval k) cur w batch = (batch.map (net.run Mode.eval w s₀), w) :=
  forward_mode_eval net stats cur w batch s₀

/-- **regression record (F-C12, before dc60a97): the property was false for single-instance and
bottom-up**: without forcing
eval mode a network left in train mode gives a frame a different output in a batch than alone, and
predicting moves the weights.  Witness: `run train w σ f = f + σ`, `σ` = batch sum, batch `[1, 2]`. -/
theorem forward_mode_asIs_counterexample :
    let net : Net Nat Nat Nat Nat :=
      { run := fun m _ s f => match m with | Mode.eval => f | Mode.train => f + s
        update := fun w s => w + s
        eval_indep := fun _ _ _ _ => rfl }
    forcesEvalAsIs .single = false ∧ forcesEvalAsIs .bottomup = false ∧
    (netForward net List.sum (forcesEvalAsIs .single) Mode.train 0 [1, 2]).1 = [4, 5] ∧
    (netForward net List.sum (forcesEvalAsIs .single) Mode.train 0 [1]).1 = [2] ∧
    (netForward net List.sum (forcesEvalAsIs .single) Mode.train 0 [1, 2]).2 = 3 ∧
    (netForward net List.sum (forcesEval .single) Mode.train 0 [1, 2]) = ([1, 2], 0) := by
  decide

/-! ### non-vacuity / concrete instances -/

/-- three frames (2, 0, 3 detections), no limit: the batch-wide padding (to 3 rows) leaves no trace,
the empty frame yields nothing, every row carries its own frame's indices and `eff_scale` -/
example :
    centroidCrop (α := Nat) (V := Nat) (ι := Nat) (E := Nat) none
      [{ fidx := 7, vidx := 0, eff := 1, peaks := [⟨0, 5⟩, ⟨1, 9⟩] },
       { fidx := 8, vidx := 0, eff := 1, peaks := [] },
       { fidx := 3, vidx := 1, eff := 2, peaks := [⟨0, 4⟩, ⟨1, 1⟩, ⟨2, 6⟩] }]
    = [[⟨7, 0, 1, ⟨0, 5⟩⟩, ⟨7, 0, 1, ⟨1, 9⟩⟩],
       [⟨3, 1, 2, ⟨0, 4⟩⟩, ⟨3, 1, 2, ⟨1, 1⟩⟩, ⟨3, 1, 2, ⟨2, 6⟩⟩]] := by
  decide

/-- with a limit that is not exceeded the rows are padded to the limit and the padding dropped -/
example :
    centroidCrop (α := Nat) (V := Nat) (ι := Nat) (E := Nat) (some 4)
      [{ fidx := 7, vidx := 0, eff := 1, peaks := [⟨0, 5⟩, ⟨1, 9⟩] }]
    = [[⟨7, 0, 1, ⟨0, 5⟩⟩, ⟨7, 0, 1, ⟨1, 9⟩⟩]] := by
  decide

example : chunks 2 [1, 2, 3, 4, 5] = [[1, 2], [3, 4], [5]] := by decide

end SleapVerif.C12
