import SleapVerif.Props.C17
import SleapVerif.Gen.TranslatedC17

/-!
# C17, second tie — the composition in `toposort_edges` *as translated from the Python source*

`Gen/TranslatedC17.lean` is regenerated from `sleap_nn/inference/paf_grouping.py` on every run of
`bin/check C17` (harness/py2lean_ext.py): the edge list `[(src, dst) for …]`, the root
`next(nx.topological_sort(DiGraph(edges)))`, the order `nx.bfs_edges(dg, root)` and the result
`[edges.index(e) for e in sorted_edges]`.  The three networkx calls are parameters of the generated
definition; `Model/Toposort.lean` supplies what they compute (`rootOf`, `bfsOut`, validated by the
correspondence).  Below: with those readings the generated composition *is* `Toposort.toposort`
(`gen_toposort_edges_eq_model`), hence (via the C17 theorems) for every arborescence it returns every
edge index exactly once (`gen_toposort_edges_perm`); an edge is `(source, destination)`.
-/

namespace SleapVerif.TranslatedC17
open SleapVerif.Toposort SleapVerif.C17 SleapVerif.Gen.TranslatedC17

/-- **the translated composition is the model's `toposort`**, and edges are `(source, destination)` -/
theorem gen_toposort_edges_eq_model (edges : List Edge) (s d : Nat) :
    toposort_edges rootOf bfsOut edges = toposort edges ∧ edge_of s d = (s, d) := ⟨rfl, rfl⟩

/-- hence, for every arborescence (any size, any numbering, any listing order of the edges), the
translated function does not raise and returns a permutation of all edge indices -/
theorem gen_toposort_edges_perm {edges : List Edge} {r : Nat} (A : Arbo edges r) (hne : edges ≠ []) :
    ∃ l, toposort_edges rootOf bfsOut edges = some l ∧ l.Perm (List.range edges.length) := by
  rw [(gen_toposort_edges_eq_model edges 0 0).1]
  exact toposort_perm A hne

example : toposort_edges rootOf bfsOut [(1, 2), (0, 1), (1, 3)] = some [1, 0, 2] := by decide

end SleapVerif.TranslatedC17
