import SleapVerif.Model.Pafs
import SleapVerif.Gen.TranslatedC05
import SleapVerif.Props.TranslatedC01
import Mathlib.Tactic.Ring
import Mathlib.Tactic.Linarith
import Mathlib.Algebra.Order.Field.Basic

/-!
# C05, second tie — `distance_to_edge` *as translated from the Python source*

`Gen/TranslatedC05.lean` is regenerated from `sleap_nn/data/edge_maps.py` on every run of
`bin/check C05` (harness/py2lean_ext.py): the whole of `distance_to_edge`, read for one grid point
and one edge (the broadcast over grid and edges is checked axis by axis by the translator).  The
sampling grid the PAF targets are tabulated on is the other generated definition of this property,
`make_grid_vectors` (`Props/TranslatedC01.lean`, imported here so that one module serves C05).

`Model/Pafs.lean` states the distance as `distanceToEdge` (`edgeLen2`, `proj`, `distSq`); below: it *is*
the generated definition (`gen_distance_to_edge_eq_model`), and directly: it is a squared distance
(`≥ 0`), it vanishes at the edge's source, and at its destination exactly when the edge is at least
one pixel long (the `maximum(|d|², 1)` quirk the model records).
-/

set_option linter.unusedSectionVars false
set_option linter.unusedSimpArgs false
set_option linter.unusedTactic false
set_option linter.unreachableTactic false

namespace SleapVerif.TranslatedC05
open SleapVerif.Pafs SleapVerif.Scalar SleapVerif.Gen.TranslatedC05

variable {R : Type} [Field R] [LinearOrder R] [IsStrictOrderedRing R]

/-- **the translated function is the model's `distanceToEdge`** (point `p`, edge from `s` to `t`) -/
theorem gen_distance_to_edge_eq_model (px py sx sy tx ty : R) :
    distance_to_edge px py sx sy tx ty = distanceToEdge px py sx sy tx ty := by
  simp only [distance_to_edge, distanceToEdge, distSq, proj, edgeLen2, len2, clamp, Scalar.maxR, Scalar.minR,
    tClamp, tMax, tMin] <;> (first | rfl | ring_nf)

/-- directly about the generated definition: non-negative; `0` at the source; at the destination `0`
when `|d|² ≥ 1` -/
theorem gen_distance_to_edge_facts (px py sx sy tx ty : R) :
    0 ≤ distance_to_edge px py sx sy tx ty ∧
    distance_to_edge sx sy sx sy tx ty = 0 ∧
    (1 ≤ (tx - sx) * (tx - sx) + (ty - sy) * (ty - sy) → distance_to_edge tx ty sx sy tx ty = 0) := by
  have h10 : ¬ (1 : R) < 0 := by norm_num
  have h11 : ¬ (1 : R) < 1 := lt_irrefl _
  refine ⟨?_, ?_, ?_⟩
  · unfold distance_to_edge
    exact add_nonneg (mul_self_nonneg _) (mul_self_nonneg _)
  · simp [distance_to_edge, tClamp, tMax, tMin, h10]
  · intro h
    have hL : tMax ((tx - sx) * (tx - sx) + (ty - sy) * (ty - sy)) 1
        = (tx - sx) * (tx - sx) + (ty - sy) * (ty - sy) := by
      unfold tMax; rw [if_neg (not_lt.mpr h)]
    have hpos : (0 : R) < (tx - sx) * (tx - sx) + (ty - sy) * (ty - sy) := by linarith
    simp only [distance_to_edge, hL, div_self hpos.ne']
    simp [tClamp, tMax, tMin, h10, h11]

example : distance_to_edge (1 : Rat) 3 0 0 4 0 = 9 := by
  simp only [distance_to_edge, tClamp, tMax, tMin]; norm_num

end SleapVerif.TranslatedC05
