import SleapVerif.Model.Geometry
import SleapVerif.Gen.TranslatedC04b
import Mathlib.Tactic.Ring
import Mathlib.Algebra.Order.Field.Basic

/-!
# C04, second tie — `make_centered_bboxes` *as translated from the Python source*

`Gen/TranslatedC04b.lean` is regenerated from `sleap_nn/data/instance_cropping.py` on every run of
`bin/check C04` (harness/py2lean_ext.py): the straight-line tensor arithmetic of
`make_centered_bboxes`, evaluated symbolically for one centroid, as a `4 × 2` list of scalar
expressions over an arbitrary carrier.

The C04 theorems about cropping (`crop_registered`, `crop_size_exact`, `recrop_centred`, … in
`Props/C04.lean`) are about `Geometry.centeredBBox` / `Geometry.bboxTopLeft`, the hand model of
that function.  The theorems below say that, over every ordered field, the generated definition
*is* that model (`gen_make_centered_bboxes_eq_model`), that its top-left corner is the shift vector
the crop step uses (`gen_bbox_top_left_eq_model`), and — directly about the generated definition —
that the box is axis-parallel, spans `bw − 1` × `bh − 1` and is centred on the centroid
(`gen_bbox_span`).  Dropping or flipping a `± 0.5`, swapping `x`/`y` or `height`/`width`, or
reordering the corners changes the generated definition and these proofs stop checking.
-/

set_option linter.unusedSectionVars false

namespace SleapVerif.TranslatedC04b
open SleapVerif.Geometry SleapVerif.Gen.TranslatedC04b

variable {R : Type} [Field R] [LinearOrder R] [IsStrictOrderedRing R]

/-- the four corners of the hand model as rows `[x, y]` (the layout of the returned tensor) -/
def modelRows (c : R × R) (bh bw : Nat) : List (List R) :=
  (centeredBBox Nat.cast c bh bw).map (fun p => [p.1, p.2])

theorem rows4 {a1 b1 a2 b2 a3 b3 a4 b4 a1' b1' a2' b2' a3' b3' a4' b4' : R}
    (h1 : a1 = a1') (h2 : b1 = b1') (h3 : a2 = a2') (h4 : b2 = b2') (h5 : a3 = a3') (h6 : b3 = b3')
    (h7 : a4 = a4') (h8 : b4 = b4') :
    [[a1, b1], [a2, b2], [a3, b3], [a4, b4]] = [[a1', b1'], [a2', b2'], [a3', b3'], [a4', b4']] := by
  subst h1 h2 h3 h4 h5 h6 h7 h8; rfl

/-- **the translated function is the hand model**: same four corners, same order
(top-left, top-right, bottom-right, bottom-left), same coordinates -/
theorem gen_make_centered_bboxes_eq_model (c : R × R) (bh bw : Nat) :
    make_centered_bboxes c.1 c.2 (bh : R) (bw : R) = modelRows c bh bw := by
  simp only [make_centered_bboxes, modelRows, centeredBBox, half, List.map_cons, List.map_nil]
  apply rows4 <;> ring

/-- the first row is `bboxTopLeft`, the vector by which `crop_registered` shifts content and
keypoints alike -/
theorem gen_bbox_top_left_eq_model (c : R × R) (bh bw : Nat) :
    (make_centered_bboxes c.1 c.2 (bh : R) (bw : R)).head? =
      some [(bboxTopLeft Nat.cast c bh bw).1, (bboxTopLeft Nat.cast c bh bw).2] := by
  have row : ∀ {a b a' b' : R}, a = a' → b = b' → some [a, b] = some [a', b'] := by
    intro a b a' b' h1 h2; subst h1 h2; rfl
  simp only [make_centered_bboxes, List.head?_cons]
  apply row <;> (unfold bboxTopLeft half; ring)

/-- directly about the generated definition, for arbitrary real centroid and box size: the box is
axis-parallel, its width is `bw − 1` and its height `bh − 1` (so that `bw × bh` unit samples fit),
and its centre is the centroid -/
theorem gen_bbox_span (cx cy bh bw : R) :
    ∃ tlx tly trx try_ brx bry blx bly : R,
      make_centered_bboxes cx cy bh bw = [[tlx, tly], [trx, try_], [brx, bry], [blx, bly]] ∧
      trx - tlx = bw - 1 ∧ bly - tly = bh - 1 ∧ try_ = tly ∧ blx = tlx ∧ brx = trx ∧ bry = bly ∧
      (tlx + brx) / 2 = cx ∧ (tly + bry) / 2 = cy := by
  refine ⟨_, _, _, _, _, _, _, _, rfl, ?_, ?_, ?_, ?_, ?_, ?_, ?_, ?_⟩ <;> ring

example : make_centered_bboxes (10 : Rat) 20 4 6 =
    [[15 / 2, 37 / 2], [25 / 2, 37 / 2], [25 / 2, 43 / 2], [15 / 2, 43 / 2]] := by
  simp only [make_centered_bboxes]; norm_num

end SleapVerif.TranslatedC04b
