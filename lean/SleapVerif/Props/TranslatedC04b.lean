import SleapVerif.Model.Geometry
import SleapVerif.Gen.TranslatedC04b
import Mathlib.Tactic.Ring
import Mathlib.Tactic.Linarith
import Mathlib.Algebra.Order.Field.Basic

/-!
# C04, second tie — `make_centered_bboxes` *as translated from the Python source*

`Gen/TranslatedC04b.lean` is regenerated from `sleap_nn/data/instance_cropping.py` on every run of
`bin/check C04` (harness/py2lean_ext.py): the straight-line tensor arithmetic of
`make_centered_bboxes`, evaluated symbolically for one centroid, as a `4 × 2` list of scalar
expressions over an arbitrary carrier.

The C04 theorems about cropping (`crop_registered`, `crop_size_exact`, `recrop_centred`, … in
`Props/C04.lean`) are about `Geometry.centeredBBox` / `Geometry.bboxTopLeft`, the hand model of
that function.  The theorems below say that, over every ordered field, the generated definition
*is* that model (`gen_make_centered_bboxes_eq_model`), that its top-left corner is the shift vector
the crop step uses (`gen_bbox_top_left_eq_model`), and — directly about the generated definition —
that the box is axis-parallel, spans `bw − 1` × `bh − 1` and is centred on the centroid
(`gen_bbox_span`).  Dropping or flipping a `± 0.5`, swapping `x`/`y` or `height`/`width`, or
reordering the corners changes the generated definition and these proofs stop checking.
-/

set_option linter.unusedSectionVars false

namespace SleapVerif.TranslatedC04b
open SleapVerif.Geometry SleapVerif.Gen.TranslatedC04b

variable {R : Type} [Field R] [LinearOrder R] [IsStrictOrderedRing R]

/-- the four corners of the hand model as rows `[x, y]` (the layout of the returned tensor) -/
def modelRows (c : R × R) (bh bw : Nat) : List (List R) :=
  (centeredBBox Nat.cast c bh bw).map (fun p => [p.1, p.2])

theorem rows4 {a1 b1 a2 b2 a3 b3 a4 b4 a1' b1' a2' b2' a3' b3' a4' b4' : R}
    (h1 : a1 = a1') (h2 : b1 = b1') (h3 : a2 = a2') (h4 : b2 = b2') (h5 : a3 = a3') (h6 : b3 = b3')
    (h7 : a4 = a4') (h8 : b4 = b4') :
    [[a1, b1], [a2, b2], [a3, b3], [a4, b4]] = [[a1', b1'], [a2', b2'], [a3', b3'], [a4', b4']] := by
  subst h1 h2 h3 h4 h5 h6 h7 h8; rfl

/-- **the translated function is the hand model**: same four corners, same order
(top-left, top-right, bottom-right, bottom-left), same coordinates -/
theorem gen_make_centered_bboxes_eq_model (c : R × R) (bh bw : Nat) :
    make_centered_bboxes c.1 c.2 (bh : R) (bw : R) = modelRows c bh bw := by
  simp only [make_centered_bboxes, modelRows, centeredBBox, half, List.map_cons, List.map_nil]
  apply rows4 <;> ring

/-- the first row is `bboxTopLeft`, the vector by which `crop_registered` shifts content and
keypoints alike -/
theorem gen_bbox_top_left_eq_model (c : R × R) (bh bw : Nat) :
    (make_centered_bboxes c.1 c.2 (bh : R) (bw : R)).head? =
      some [(bboxTopLeft Nat.cast c bh bw).1, (bboxTopLeft Nat.cast c bh bw).2] := by
  have row : ∀ {a b a' b' : R}, a = a' → b = b' → some [a, b] = some [a', b'] := by
    intro a b a' b' h1 h2; subst h1 h2; rfl
  simp only [make_centered_bboxes, List.head?_cons]
  apply row <;> (unfold bboxTopLeft half; ring)

/-- directly about the generated definition, for arbitrary real centroid and box size: the box is
axis-parallel, its width is `bw − 1` and its height `bh − 1` (so that `bw × bh` unit samples fit),
and its centre is the centroid -/
theorem gen_bbox_span (cx cy bh bw : R) :
    ∃ tlx tly trx try_ brx bry blx bly : R,
      make_centered_bboxes cx cy bh bw = [[tlx, tly], [trx, try_], [brx, bry], [blx, bly]] ∧
      trx - tlx = bw - 1 ∧ bly - tly = bh - 1 ∧ try_ = tly ∧ blx = tlx ∧ brx = trx ∧ bry = bly ∧
      (tlx + brx) / 2 = cx ∧ (tly + bry) / 2 = cy := by
  refine ⟨_, _, _, _, _, _, _, _, rfl, ?_, ?_, ?_, ?_, ?_, ?_, ?_, ?_⟩ <;> ring

example : make_centered_bboxes (10 : Rat) 20 4 6 =
    [[15 / 2, 37 / 2], [25 / 2, 37 / 2], [25 / 2, 43 / 2], [15 / 2, 43 / 2]] := by
  simp only [make_centered_bboxes]; norm_num


/-! ## `find_instance_crop_size` -/

/-- the per-instance values the untranslated loop code computes, as the hand model spells them:
the `nanmax − nanmin` extents of the scaled x and y columns -/
def modelItems (scaling : R) (insts : List (List (Option R × Option R))) : List (R × R) :=
  insts.map fun inst =>
    (extent (inst.map fun p => p.1.map (· * scaling)), extent (inst.map fun p => p.2.map (· * scaling)))

theorem step_eq_lenStep (icast : Int → R) (noPad : Int) (scaling acc : R)
    (inst : List (Option R × Option R)) :
    find_instance_crop_size_step icast noPad acc
        (extent (inst.map fun p => p.1.map (· * scaling)))
        (extent (inst.map fun p => p.2.map (· * scaling)))
      = lenStep scaling (icast noPad) acc inst := rfl

/-- **the translated function is the hand model** `Geometry.findCropSize` (same early return, same
running maximum in the same order, same padding / ceil / stride arithmetic), for every list of
instances -/
theorem gen_find_instance_crop_size_eq_model (ceil : R → Int) (icast : Int → R)
    (insts : List (List (Option R × Option R))) (padding stride : Int) (scaling : R)
    (minCrop? : Option Int) :
    find_instance_crop_size ceil icast (modelItems scaling insts) padding stride minCrop? =
      findCropSize ceil icast insts padding stride scaling minCrop? := by
  unfold find_instance_crop_size findCropSize modelItems
  simp only [List.foldl_map, step_eq_lenStep]

theorem foldl_step_ge (icast : Int → R) (noPad : Int) :
    ∀ (items : List (R × R)) (acc : R),
      acc ≤ items.foldl (fun a d => find_instance_crop_size_step icast noPad a d.1 d.2) acc ∧
      ∀ d ∈ items,
        d.1 ≤ items.foldl (fun a d => find_instance_crop_size_step icast noPad a d.1 d.2) acc ∧
        d.2 ≤ items.foldl (fun a d => find_instance_crop_size_step icast noPad a d.1 d.2) acc ∧
        icast noPad ≤ items.foldl (fun a d => find_instance_crop_size_step icast noPad a d.1 d.2) acc := by
  have hmax : ∀ a b : R, a ≤ npMaximum a b ∧ b ≤ npMaximum a b := by
    intro a b; unfold npMaximum; split
    · exact ⟨le_of_lt ‹_›, le_refl _⟩
    · exact ⟨le_refl _, not_lt.mp ‹_›⟩
  intro items
  induction items with
  | nil => intro acc; exact ⟨le_refl _, fun d hd => by cases hd⟩
  | cons x xs ih =>
    intro acc
    simp only [List.foldl_cons]
    obtain ⟨h0, hr⟩ := ih (find_instance_crop_size_step icast noPad acc x.1 x.2)
    have s1 := hmax acc x.1
    have s2 := hmax (npMaximum acc x.1) x.2
    have s3 := hmax (npMaximum (npMaximum acc x.1) x.2) (icast noPad)
    have hs : find_instance_crop_size_step icast noPad acc x.1 x.2 =
        npMaximum (npMaximum (npMaximum acc x.1) x.2) (icast noPad) := rfl
    rw [hs] at h0 hr ⊢
    refine ⟨by linarith [s1.1, s2.1, s3.1], ?_⟩
    intro d hd
    rcases List.mem_cons.mp hd with rfl | hd
    · exact ⟨by linarith [s1.2, s2.1, s3.1], by linarith [s2.2, s3.1], by linarith [s3.2]⟩
    · exact hr d hd

/-- directly about the generated definition (for arbitrary per-instance extents): the crop size is
a multiple of the stride; when it is computed (the user did not fix a stride-compatible size) it
covers every instance — `extent + padding ≤ crop` on both axes — and is at least the requested
minimum; a stride-compatible user size is returned as it is -/
theorem gen_cropsize_multiple_and_covers (ceil : R → Int) (hceil : ∀ x, x ≤ ((ceil x : Int) : R))
    (items : List (R × R)) (padding stride : Int) (hs : 0 < stride) (minCrop? : Option Int) :
    let r := find_instance_crop_size ceil (fun i => (i : R)) items padding stride minCrop?
    r % stride = 0 ∧
    (¬ (minCrop?.getD 0 > 0 ∧ Int.fmod (minCrop?.getD 0) stride = 0) →
      ∀ d ∈ items, d.1 + (padding : R) ≤ (r : R) ∧ d.2 + (padding : R) ≤ (r : R) ∧
        ((minCrop?.getD 0 : Int) : R) ≤ (r : R)) ∧
    ((minCrop?.getD 0 > 0 ∧ Int.fmod (minCrop?.getD 0) stride = 0) → r = minCrop?.getD 0) := by
  have hsR : (0 : R) < (stride : R) := by exact_mod_cast hs
  simp only [find_instance_crop_size]
  by_cases hc : minCrop?.getD 0 > 0 ∧ Int.fmod (minCrop?.getD 0) stride = 0
  · rw [if_pos hc]
    refine ⟨?_, fun h => absurd hc h, fun _ => rfl⟩
    rw [← Int.fmod_eq_emod_of_nonneg _ hs.le]; exact hc.2
  · rw [if_neg hc]
    refine ⟨Int.mul_emod_left _ _, ?_, fun h => absurd h hc⟩
    intro _ d hd
    obtain ⟨_, hr⟩ := foldl_step_ge (fun i => ((i : Int) : R)) (minCrop?.getD 0 - padding) items 0
    obtain ⟨gx, gy, gn⟩ := hr d hd
    generalize items.foldl (fun a d => find_instance_crop_size_step (fun i => ((i : Int) : R))
      (minCrop?.getD 0 - padding) a d.1 d.2) 0 = L at *
    have hcl := hceil ((L + (padding : R)) / (stride : R))
    have hcov : L + (padding : R) ≤ ((ceil ((L + (padding : R)) / (stride : R)) * stride : Int) : R) := by
      push_cast
      have := (div_le_iff₀ hsR).mp hcl
      linarith
    push_cast at gn
    refine ⟨by linarith, by linarith, by linarith⟩

example : find_instance_crop_size Rat.ceil (fun i => (i : Rat)) [((37 : Rat) / 2, 12)] 4 16 none = 32 ∧
    find_instance_crop_size Rat.ceil (fun i => (i : Rat)) [((37 : Rat) / 2, 12)] 4 16 (some 64) = 64 ∧
    find_instance_crop_size Rat.ceil (fun i => (i : Rat)) [((37 : Rat) / 2, 12)] 0 16 (some 100) = 112 := by
  decide +kernel

end SleapVerif.TranslatedC04b
