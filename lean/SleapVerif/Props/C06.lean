import SleapVerif.Lemmas.Peaks
import SleapVerif.Lemmas.PeaksSum
/-!
# C06 — multi-peak detection returns exactly the strict local maxima above threshold;
integral refinement preserves count/order/indices and moves at most half a patch

Statements are about `SleapVerif.Peaks.localPeaksRough` / `refineLocal` / `localPeaks`, the model of
`find_local_peaks_rough` / `find_local_peaks` (sleap_nn/inference/peak_finding.py), tied to the code
by `harness/c06.py`.  They hold for every ordered field `R` (so for ℚ, on which the driver runs
the same definitions, and for ℝ), every batch shape `S×C×h×w` (1×1 and 1×N maps included), every
threshold `≥ -max_val` and every patch size `q ≥ 1`, odd (the crop reads cells) or even (the crop
reads means of four cells).

`big` is kornia's `max_val = 1e4`: the dilation pads the map with `-big` and adds `-big` to the
centre.  `hthr : -big ≤ thr` is the one hypothesis the code's domain needs (for a threshold
below `-1e4` a border cell with value `≤ -1e4` would not be reported).
-/
namespace SleapVerif.C06
open SleapVerif.Peaks
set_option linter.unusedSectionVars false

variable {R : Type} [Field R] [LinearOrder R] [IsStrictOrderedRing R]

/-- **Exactly the strict local maxima above threshold, with the right indices and value.**
A record is returned iff it names an in-range (sample, channel, row, col), carries that cell's
value, the value exceeds the threshold and is strictly greater than every in-bounds 8-neighbour. -/
theorem local_peaks_iff (big thr : R) (hbig : 0 < big) (hthr : -big ≤ thr) (b : Batch R) (p : Peak R) :
    p ∈ localPeaksRough big thr b ↔
      p.sample < b.S ∧ p.channel < b.C ∧ p.y < b.h ∧ p.x < b.w ∧
      p.val = b.v p.sample p.channel p.y p.x ∧ thr < p.val ∧
      ∀ i' j', i' < b.h → j' < b.w → (i' ≠ p.y ∨ j' ≠ p.x) →
        i' ≤ p.y + 1 → p.y ≤ i' + 1 → j' ≤ p.x + 1 → p.x ≤ j' + 1 →
        b.v p.sample p.channel i' j' < p.val := by
  rw [mem_localPeaksRough]
  constructor
  · rintro ⟨hs, hy, hx, hc, hp, hv⟩
    rw [isPeak_iff big thr b hc] at hp
    obtain ⟨h1, h2⟩ := hp
    have hlow : -big < b.v p.sample p.channel p.y p.x := lt_of_le_of_lt hthr h2
    rw [dilate_lt_center_iff big hbig _ hy hx hlow] at h1
    refine ⟨hs, hc, hy, hx, hv, by rw [hv]; exact h2, ?_⟩
    rw [hv]; exact h1
  · rintro ⟨hs, hc, hy, hx, hv, h2, h1⟩
    refine ⟨hs, hy, hx, hc, ?_, hv⟩
    rw [isPeak_iff big thr b hc]
    rw [hv] at h2 h1
    have hlow : -big < b.v p.sample p.channel p.y p.x := lt_of_le_of_lt hthr h2
    rw [dilate_lt_center_iff big hbig _ hy hx hlow]
    exact ⟨h1, h2⟩

/-- non-vacuity: a corner maximum of a 2×2 map at ℚ is reported (and only it). -/
example : localPeaksRough (R := Rat) 10000 (1/5) ⟨1, 1, 2, 2, fun _ _ i j => if i = 1 ∧ j = 1 then 1 else 0⟩
    = [⟨1, 1, 1, 0, 0⟩] := by decide +kernel

/-- **Order**: records come in strictly increasing lexicographic (sample, row, col, channel) order. -/
theorem local_peaks_sorted (big thr : R) (b : Batch R) :
    (localPeaksRough big thr b).Pairwise (fun p q => KeyLt p.key q.key) :=
  localPeaksRough_pairwise big thr b

/-- **Each once.** -/
theorem local_peaks_nodup (big thr : R) (b : Batch R) :
    (localPeaksRough big thr b).Pairwise (fun p q => p.key ≠ q.key) := by
  refine (localPeaksRough_pairwise big thr b).imp ?_
  intro p q h e
  rw [e] at h
  simp [KeyLt] at h

/-- **Batch independence**: the records carrying (sample s, channel c) are exactly — same cells,
same values, same order — the records of map `(s,c)` run alone (only re-tagged). -/
theorem local_peaks_batch_independent (big thr : R) (b : Batch R) {s c : Nat} (hs : s < b.S) (hc : c < b.C) :
    (localPeaksRough big thr b).filter (fun p => p.sample == s && p.channel == c) =
      (localPeaksRough big thr (b.single s c)).map (fun p => { p with sample := s, channel := c }) :=
  localPeaksRough_filter big thr b hs hc

/-- **Refinement keeps number, order, sample/channel indices and values** (`q` = patch size). -/
theorem refine_preserves (q : Nat) (b : Batch R) (ps : List (Peak R)) :
    (refineLocal q b ps).length = ps.length ∧
    (refineLocal q b ps).map (fun e => (e.val, e.sample, e.channel)) =
      ps.map (fun p => (p.val, p.sample, p.channel)) := by
  unfold refineLocal
  refine ⟨List.length_map _, ?_⟩
  rw [List.map_map]; rfl

/-- **The patch of a detected peak is read from its own map** `(sample, channel)` (the code indexes
the `(S·C,1,h,w)` reshape with `sample*C + channel`), centred on its own cell. -/
theorem refine_crop_index (big thr : R) (q : Nat) (b : Batch R) :
    localPeaks big thr q b = (localPeaksRough big thr b).map fun p =>
      ⟨refinePoint b.h b.w (b.v p.sample p.channel) q p.x p.y, p.val, p.sample, p.channel⟩ := by
  unfold localPeaks refineLocal
  refine List.map_congr_left fun p hp => ?_
  rw [mem_localPeaksRough] at hp
  rw [b.flat_index hp.2.2.2.1]

/-- Full-strength statement (no sign hypothesis), every patch size `q ≥ 1`, odd or even: **false**
of the code, see `refine_unbounded_counterexample`. -/
def RefineBounded (R : Type) [Field R] [LinearOrder R] [IsStrictOrderedRing R] : Prop :=
  ∀ (h w : Nat) (img : Nat → Nat → R) (q x y : Nat) (px py : R), 1 ≤ q → x < w → y < h →
    refinePoint h w img q x y = some (px, py) → |px - x| ≤ ((q : R) - 1) / 2 ∧ |py - y| ≤ ((q : R) - 1) / 2

/-- **Half-patch bound, partial** — for **every** patch size `q ≥ 1`, odd (cells) or even (means of
four cells): when the cropped patch has no negative entry and a positive sum, the refined point
exists and lies within `(q-1)/2` of the cell in x and y (it is a convex combination of the
sampling grid `k - (q-1)/2`). -/
theorem refine_bounded_partial (h w : Nat) (img : Nat → Nat → R) (q x y : Nat) (hq : 1 ≤ q)
    (hnn : ∀ a b, a < q → b < q → 0 ≤ patch h w img q x y a b)
    (hz : 0 < patchSum q (patch h w img q x y)) :
    ∃ px py, refinePoint h w img q x y = some (px, py) ∧
      |px - x| ≤ ((q : R) - 1) / 2 ∧ |py - y| ≤ ((q : R) - 1) / 2 := by
  rw [← halfSpan_eq hq]
  exact refinePoint_bounded h w img q x y hnn hz

/-- Corollary in terms of the map: non-negative map, positive value at the (in-bounds) cell. -/
theorem refine_bounded_of_nonneg_map (h w : Nat) (img : Nat → Nat → R) (q x y : Nat) (hq : 1 ≤ q)
    (hx : x < w) (hy : y < h) (hnn : ∀ i j, 0 ≤ img i j) (hpos : 0 < img y x) :
    ∃ px py, refinePoint h w img q x y = some (px, py) ∧
      |px - x| ≤ ((q : R) - 1) / 2 ∧ |py - y| ≤ ((q : R) - 1) / 2 := by
  rw [← halfSpan_eq hq]
  exact refinePoint_bounded_of_nonneg_map h w img q x y hq hx hy hnn hpos

/-- **The excluded region, quantified** (any signs in the patch, any patch size `q ≥ 1`): whenever a
refined point exists (patch sum ≠ 0) it is displaced by at most `(q-1)/2 · Σ|P| / |ΣP|` in x and in y.
For a non-negative patch `Σ|P| = ΣP` and this is `refine_bounded_partial`; with negative entries the
factor `Σ|P|/|ΣP|` is unbounded — that is finding F-C06 — and it is the conditioning number the
correspondence scales its tolerance with. -/
theorem refine_displacement_le (h w : Nat) (img : Nat → Nat → R) (q x y : Nat) (hq : 1 ≤ q) (px py : R)
    (hpt : refinePoint h w img q x y = some (px, py)) :
    patchSum q (patch h w img q x y) ≠ 0 ∧
    |px - x| ≤ ((q : R) - 1) / 2 * patchAbsSum q (patch h w img q x y) / |patchSum q (patch h w img q x y)| ∧
    |py - y| ≤ ((q : R) - 1) / 2 * patchAbsSum q (patch h w img q x y) / |patchSum q (patch h w img q x y)| := by
  rw [← halfSpan_eq hq]
  exact refinePoint_displacement_le h w img q x y px py hpt

/-- the bound of `refine_displacement_le` is attained by the F-C06 witness: Σ|P| = 19/10, ΣP = 1/10,
(q−1)/2 = 2 give 38 ≥ |12 − 3| -/
example : patchAbsSum (R := Rat) 5 (patch 7 7 (fun i j => if i = 3 ∧ j = 3 then 1 else if i = 3 ∧ j = 2 then -9/10 else 0) 5 3 3) = 19/10 ∧
    patchSum (R := Rat) 5 (patch 7 7 (fun i j => if i = 3 ∧ j = 3 then 1 else if i = 3 ∧ j = 2 then -9/10 else 0) 5 3 3) = 1/10 := by
  constructor
  · simp [patchAbsSum, Finset.sum_range_succ, patch, cropZ, zeroPadAt, inB]; norm_num
  · decide +kernel

/-- **Number, order, sample/channel indices and values are unchanged by refinement**, stated about the
pipeline `find_local_peaks(refinement="integral")` itself. -/
theorem local_peaks_refined_fields (big thr : R) (q : Nat) (b : Batch R) :
    (localPeaks big thr q b).length = (localPeaksRough big thr b).length ∧
    (localPeaks big thr q b).map (fun e => (e.val, e.sample, e.channel)) =
      (localPeaksRough big thr b).map (fun p => (p.val, p.sample, p.channel)) :=
  refine_preserves q b (localPeaksRough big thr b)

/-- hypotheses of `refine_bounded_partial` are satisfiable: a 3×3 map with a non-centred blob, odd
patch (3) and even patch (2: means of four cells, grid `±1/2`). -/
example : refinePoint (R := Rat) 3 3 (fun i j => if i = 1 ∧ j = 1 then 1 else if i = 1 ∧ j = 2 then 1/2 else 0) 3 1 1
    = some (4/3, 1) := by decide +kernel
example : refinePoint (R := Rat) 3 3 (fun i j => if i = 1 ∧ j = 1 then 1 else if i = 1 ∧ j = 2 then 1/2 else 0) 2 1 1
    = some (11/10, 1) := by decide +kernel

/-- the other way the hypotheses of `refine_bounded_partial` can fail (finding F-C06z): a 1×1 map
holding 0 (a peak for a negative threshold) has an all-zero patch, the normaliser is 0 and the
code produces NaN (`none` in the model). -/
example : localPeaks (R := Rat) 10000 (-1/4) 3 ⟨1, 1, 1, 1, fun _ _ _ _ => 0⟩ = [⟨none, 0, 0, 0⟩] := by
  decide +kernel

/-- The F-C06 witness map: 7×7, `1` at (x=3,y=3), `-9/10` at (x=2,y=3). -/
def witnessMap : Batch Rat :=
  ⟨1, 1, 7, 7, fun _ _ i j => if i = 3 ∧ j = 3 then 1 else if i = 3 ∧ j = 2 then -9/10 else 0⟩

/-- **The unrestricted bound is false of the code** (finding F-C06): on the witness map with
threshold 0.2 and patch size 5 the detector reports the single peak (3,3) and refines it to
x̂ = 12 — nine pixels away, outside the 7×7 map. -/
theorem refine_unbounded_counterexample :
    localPeaks (R := Rat) 10000 (1/5) 5 witnessMap = [⟨some (12, 3), 1, 0, 0⟩] ∧ ¬ RefineBounded Rat := by
  have h1 : localPeaks (R := Rat) 10000 (1/5) 5 witnessMap = [⟨some (12, 3), 1, 0, 0⟩] := by decide +kernel
  refine ⟨h1, fun H => ?_⟩
  have h2 : refinePoint (R := Rat) 7 7 (witnessMap.v 0 0) 5 3 3 = some (12, 3) := by decide +kernel
  have := (H 7 7 (witnessMap.v 0 0) 5 3 3 12 3 (by omega) (by omega) (by omega) h2).1
  norm_num at this

end SleapVerif.C06
