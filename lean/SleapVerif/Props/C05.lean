import SleapVerif.Model.Pafs
import SleapVerif.Lemmas.Transc
import SleapVerif.Lemmas.GridTab
import Mathlib.Tactic.Linarith
import Mathlib.Tactic.Positivity
import Mathlib.Tactic.Ring
import Mathlib.Tactic.FieldSimp
import Mathlib.Tactic.NormNum

/-!
# C05 — part-affinity-field targets

Theorems about `Model/Pafs.lean` for every ordered field `R` and lawful `T : Transc R`.
Two clauses of the property are false of the code on narrow regions; the full statements are kept
as `def … : Prop`, refuted on concrete witnesses (`…_counterexample`) and proved under the exact
extra hypothesis (`…_partial`):

* F-C05a: "weight 1 on the segment" fails for edges shorter than one pixel (`max(|d|², 1)`).
* F-C05b: "an animal with a node inside the image contributes" fails when all its in-image nodes
  lie outside the *open* box `(0, xv[-1]) × (0, yv[-1])` (last-stride strip, and the lines x=0, y=0).
-/

set_option linter.unusedSectionVars false

namespace SleapVerif.C05
open SleapVerif SleapVerif.Pafs SleapVerif.Grid SleapVerif.Scalar
open SleapVerif.Confmaps (nodeOf)
open SleapVerif.GridTab (gp gridVec_length gridVec_getElem cellAt?_tabulate grid_point_lt)

variable {R : Type} [Field R] [LinearOrder R] [IsStrictOrderedRing R]

/-! ## scalar helpers -/

theorem clamp01_cases (x : R) :
    (clamp x 0 1 = 0 ∧ x ≤ 0) ∨ (clamp x 0 1 = 1 ∧ 1 ≤ x) ∨ (clamp x 0 1 = x ∧ 0 ≤ x ∧ x ≤ 1) := by
  unfold clamp maxR minR
  by_cases h0 : x < 0
  · left
    rw [if_pos h0, if_neg (by norm_num)]
    exact ⟨rfl, h0.le⟩
  · rw [if_neg h0]
    by_cases h1 : 1 < x
    · right; left; rw [if_pos h1]; exact ⟨rfl, h1.le⟩
    · right; right; rw [if_neg h1]; exact ⟨rfl, not_lt.mp h0, not_lt.mp h1⟩

theorem clamp01_mem (x : R) : 0 ≤ clamp x 0 1 ∧ clamp x 0 1 ≤ 1 := by
  rcases clamp01_cases x with ⟨h, _⟩ | ⟨h, _⟩ | ⟨h, h0, h1⟩
  · rw [h]; exact ⟨le_refl _, zero_le_one⟩
  · rw [h]; exact ⟨zero_le_one, le_refl _⟩
  · rw [h]; exact ⟨h0, h1⟩

theorem len2_nonneg (dx dy : R) : 0 ≤ len2 dx dy := by
  unfold len2; exact add_nonneg (mul_self_nonneg _) (mul_self_nonneg _)

theorem len2_pos_iff (dx dy : R) : 0 < len2 dx dy ↔ ¬ (dx = 0 ∧ dy = 0) := by
  unfold len2
  constructor
  · rintro h ⟨rfl, rfl⟩; simp at h
  · intro h
    by_contra hc
    have h1 := mul_self_nonneg dx
    have h2 := mul_self_nonneg dy
    have hx : dx * dx = 0 := by linarith [not_lt.mp hc]
    have hy : dy * dy = 0 := by linarith [not_lt.mp hc]
    exact h ⟨mul_self_eq_zero.mp hx, mul_self_eq_zero.mp hy⟩

theorem edgeLen2_ge_one (dx dy : R) : 1 ≤ edgeLen2 dx dy := by
  unfold edgeLen2 maxR; split
  · exact le_refl _
  · exact not_lt.mp ‹_›

theorem edgeLen2_eq (dx dy : R) (h : 1 ≤ len2 dx dy) : edgeLen2 dx dy = len2 dx dy := by
  unfold edgeLen2 maxR; rw [if_neg (not_lt.mpr h)]

theorem distSq_nonneg (rx ry dx dy : R) : 0 ≤ distSq rx ry dx dy := by
  unfold distSq; exact add_nonneg (mul_self_nonneg _) (mul_self_nonneg _)

/-! ## the weight -/

/-- **paf_weight_range**: `0 < w ≤ 1` for every σ > 0 and every value of the distance term. -/
theorem paf_weight_range (T : Transc R) (σ : R) (hσ : 0 < σ) (D : R) :
    0 < weight T.exp σ D ∧ weight T.exp σ D ≤ 1 := by
  unfold weight
  refine ⟨T.exp_pos _, T.exp_le_one ?_⟩
  have h2 : (0 : R) < 2 * (σ * σ) := by positivity
  apply div_nonpos_of_nonpos_of_nonneg _ h2.le
  linarith [mul_self_nonneg D]

/-- the weight is 1 exactly when the distance term vanishes -/
theorem paf_weight_eq_one_iff (T : Transc R) (σ : R) (hσ : 0 < σ) (D : R) :
    weight T.exp σ D = 1 ↔ D = 0 := by
  unfold weight
  rw [T.exp_eq_one_iff]
  have h2 : (0 : R) < 2 * (σ * σ) := by positivity
  rw [div_eq_zero_iff]
  constructor
  · rintro (h | h)
    · exact mul_self_eq_zero.mp (neg_eq_zero.mp h)
    · exact absurd h (ne_of_gt h2)
  · rintro rfl; left; simp

/-- **paf_weight_antitone_in_distance**: a smaller (non-negative) distance term gives a weight at
least as large; with `paf_D_is_sqdist_to_segment` this is "non-increasing with the distance to
the segment". -/
theorem paf_weight_antitone_in_distance (T : Transc R) (σ : R) (hσ : 0 < σ) (D D' : R)
    (h0 : 0 ≤ D) (h : D ≤ D') : weight T.exp σ D' ≤ weight T.exp σ D := by
  unfold weight
  apply T.exp_mono
  have h2 : (0 : R) < 2 * (σ * σ) := by positivity
  rw [div_le_div_iff_of_pos_right h2]
  have : D * D ≤ D' * D' := mul_self_le_mul_self h0 h
  linarith

/-! ## geometry of `distance_to_edge` -/

/-- **paf_foot_on_segment**: the distance term is the squared distance from `p` to the point
`q = s + t·d` of the segment, `t ∈ [0,1]` the clamped projection. -/
theorem paf_foot_on_segment (px py sx sy tx ty : R) :
    let t := proj (px - sx) (py - sy) (tx - sx) (ty - sy)
    0 ≤ t ∧ t ≤ 1 ∧
    distanceToEdge px py sx sy tx ty
      = ((sx + t * (tx - sx)) - px) ^ 2 + ((sy + t * (ty - sy)) - py) ^ 2 := by
  intro t
  refine ⟨(clamp01_mem _).1, (clamp01_mem _).2, ?_⟩
  unfold distanceToEdge distSq
  simp only
  ring

/-- **paf_D_is_sqdist_to_segment** (edges of length ≥ 1 px): the distance term is the minimum over
the segment of the squared distance, i.e. the squared point–segment distance. -/
theorem paf_D_is_sqdist_to_segment (rx ry dx dy : R) (hL : 1 ≤ len2 dx dy) (u : R)
    (hu0 : 0 ≤ u) (hu1 : u ≤ 1) :
    distSq rx ry dx dy ≤ (u * dx - rx) ^ 2 + (u * dy - ry) ^ 2 := by
  unfold distSq proj
  rw [edgeLen2_eq dx dy hL]
  simp only
  have hLpos : 0 < len2 dx dy := lt_of_lt_of_le zero_lt_one hL
  set c := rx * dx + ry * dy with hc
  set L := len2 dx dy with hLdef
  have key : ∀ t : R, (u * dx - rx) ^ 2 + (u * dy - ry) ^ 2
      - ((t * dx - rx) * (t * dx - rx) + (t * dy - ry) * (t * dy - ry))
      = (u - t) * ((u + t) * L - 2 * c) := by
    intro t; rw [hc, hLdef]; unfold len2; ring
  rcases clamp01_cases (c / L) with ⟨ht, hle⟩ | ⟨ht, hle⟩ | ⟨ht, h0, h1⟩
  · rw [ht]
    have hc0 : c ≤ 0 := by
      by_contra hcon
      exact absurd hle (not_le.mpr (div_pos (not_le.mp hcon) hLpos))
    have := key 0
    nlinarith [mul_nonneg hu0 hLpos.le, mul_nonneg hu0 hu0]
  · rw [ht]
    have hcL : L ≤ c := by
      have := (le_div_iff₀ hLpos).mp hle
      linarith
    have := key 1
    have h1 : 0 ≤ (1 - u) := by linarith
    have h2 : 0 ≤ 2 * c - (u + 1) * L := by nlinarith
    nlinarith [mul_nonneg h1 h2]
  · rw [ht]
    have := key (c / L)
    have hcl : c / L * L = c := div_mul_cancel₀ c (ne_of_gt hLpos)
    have hsq : (u - c / L) * ((u + c / L) * L - 2 * c) = L * (u - c / L) ^ 2 := by
      have : (u + c / L) * L = u * L + c := by rw [add_mul, hcl]
      rw [this]
      have h3 : u * L + c - 2 * c = L * (u - c / L) := by
        rw [mul_sub, mul_comm L (c / L), hcl]; ring
      rw [h3]; ring
    have hpos : 0 ≤ L * (u - c / L) ^ 2 := by positivity
    linarith

/-- **paf_weight_one_on_segment_partial** (F-C05a excluded): for an edge of length ≥ 1 px the weight
at every point of the segment is exactly 1. -/
theorem paf_weight_one_on_segment_partial (T : Transc R) (σ : R) (hσ : 0 < σ)
    (sx sy tx ty u : R) (hL : 1 ≤ len2 (tx - sx) (ty - sy)) (hu0 : 0 ≤ u) (hu1 : u ≤ 1) :
    edgeWeight T.exp σ sx sy tx ty (sx + u * (tx - sx)) (sy + u * (ty - sy)) = 1 := by
  unfold edgeWeight
  rw [paf_weight_eq_one_iff T σ hσ]
  unfold distanceToEdge
  have h := paf_D_is_sqdist_to_segment (sx + u * (tx - sx) - sx) (sy + u * (ty - sy) - sy)
    (tx - sx) (ty - sy) hL u hu0 hu1
  have h0 := distSq_nonneg (sx + u * (tx - sx) - sx) (sy + u * (ty - sy) - sy) (tx - sx) (ty - sy)
  have hz : (u * (tx - sx) - (sx + u * (tx - sx) - sx)) ^ 2
      + (u * (ty - sy) - (sy + u * (ty - sy) - sy)) ^ 2 = 0 := by ring
  rw [hz] at h
  exact le_antisymm h h0

/-- full statement (false of the code): weight 1 on the segment for every non-degenerate edge -/
def paf_weight_one_on_segment (T : Transc R) : Prop :=
  ∀ (σ sx sy tx ty u : R), 0 < σ → ¬ (tx - sx = 0 ∧ ty - sy = 0) → 0 ≤ u → u ≤ 1 →
    edgeWeight T.exp σ sx sy tx ty (sx + u * (tx - sx)) (sy + u * (ty - sy)) = 1

/-- **paf_short_edge_counterexample** (F-C05a): edge (1.9,2)→(2.1,2), grid point (2,2) is its
midpoint, yet the distance term is (12/125)² ≠ 0 and the weight is < 1 — for every lawful `exp`. -/
theorem paf_short_edge_counterexample (T : Transc R) : ¬ paf_weight_one_on_segment T := by
  intro h
  have h1 := h 1 (19/10) 2 (21/10) 2 (1/2) one_pos (by norm_num) (by norm_num) (by norm_num)
  unfold edgeWeight at h1
  rw [paf_weight_eq_one_iff T 1 one_pos] at h1
  have hD : distanceToEdge (19/10 + 1/2 * (21/10 - 19/10) : R) (2 + 1/2 * (2 - 2)) (19/10) 2 (21/10) 2
      = (12/125) ^ 2 := by
    unfold distanceToEdge distSq proj edgeLen2 len2 clamp maxR minR
    norm_num
  rw [hD] at h1
  norm_num at h1

/-! ## direction -/

/-- **paf_direction**: for a non-degenerate edge the cell holds `w·u` with `u` the unit vector along
`d = dst − src` (`u·u = 1`, `u ∥ d`, `u·d > 0`) and `w` the edge weight in `(0,1]`. -/
theorem paf_direction (T : Transc R) (σ : R) (hσ : 0 < σ) (sx sy tx ty gx gy : R)
    (hd : ¬ (tx - sx = 0 ∧ ty - sy = 0)) :
    ∃ ux uy w, pafCell T.exp T.sqrt σ (some (sx, sy)) (some (tx, ty)) gx gy = (w * ux, w * uy) ∧
      w = edgeWeight T.exp σ sx sy tx ty gx gy ∧ 0 < w ∧ w ≤ 1 ∧
      ux * ux + uy * uy = 1 ∧ ux * (ty - sy) - uy * (tx - sx) = 0 ∧
      0 < ux * (tx - sx) + uy * (ty - sy) := by
  have hn2 : 0 < len2 (tx - sx) (ty - sy) := (len2_pos_iff _ _).mpr hd
  have hn : 0 < T.sqrt (len2 (tx - sx) (ty - sy)) := T.sqrt_pos hn2
  have hsq := T.sq_sqrt _ hn2.le
  set n := T.sqrt (len2 (tx - sx) (ty - sy)) with hndef
  refine ⟨(tx - sx) / n, (ty - sy) / n, edgeWeight T.exp σ sx sy tx ty gx gy, ?_, rfl,
    (paf_weight_range T σ hσ _).1, (paf_weight_range T σ hσ _).2, ?_, ?_, ?_⟩
  · simp only [pafCell, pafRaw, if_pos hn2]; rfl
  · have : (tx - sx) / n * ((tx - sx) / n) + (ty - sy) / n * ((ty - sy) / n)
        = len2 (tx - sx) (ty - sy) / (n * n) := by
      unfold len2; field_simp
    rw [this, hsq, div_self (ne_of_gt hn2)]
  · field_simp; ring
  · have : (tx - sx) / n * (tx - sx) + (ty - sy) / n * (ty - sy) = len2 (tx - sx) (ty - sy) / n := by
      unfold len2; field_simp
    rw [this]; exact div_pos hn2 hn

/-! ## zeros -/

/-- **paf_zero_missing**: an edge with a missing endpoint contributes exactly zero. -/
theorem paf_zero_missing (exp sqrt : R → R) (σ : R) (src dst : Option (R × R)) (gx gy : R)
    (h : src = none ∨ dst = none) : pafCell exp sqrt σ src dst gx gy = (0, 0) := by
  rcases h with rfl | rfl
  · simp [pafCell, pafRaw]
  · cases src <;> simp [pafCell, pafRaw]

/-- **paf_zero_len**: a zero-length edge (coincident nodes) contributes exactly zero. -/
theorem paf_zero_len (exp sqrt : R → R) (σ : R) (p : R × R) (gx gy : R) :
    pafCell exp sqrt σ (some p) (some p) gx gy = (0, 0) := by
  obtain ⟨x, y⟩ := p
  simp [pafCell, pafRaw, len2]

/-- a node outside the image `[0,W) × [0,H)` (or missing) is never strictly inside the filter box -/
theorem insideOpen_false_of_outside (s H W : Nat) (hs : 0 < s) (kp : Option (R × R))
    (h : ∀ x y, kp = some (x, y) → x < 0 ∨ (W : R) ≤ x ∨ y < 0 ∨ (H : R) ≤ y) :
    insideOpen ((gridLast W s : Nat) : R) ((gridLast H s : Nat) : R) kp = false := by
  have hlast : ∀ size : Nat, ((gridLast size s : Nat) : R) ≤ (size : R) := by
    intro size
    have : gridLast size s ≤ size := by
      unfold gridLast
      by_cases h0 : gridLen size s = 0
      · simp [h0]
      · have := grid_point_lt size s (gridLen size s - 1) hs (by omega)
        omega
    exact_mod_cast this
  cases kp with
  | none => rfl
  | some p =>
    obtain ⟨x, y⟩ := p
    simp only [insideOpen]
    rcases h x y rfl with hx | hx | hy | hy
    · simp [not_lt.mpr hx.le]
    · have : ¬ x < ((gridLast W s : Nat) : R) := not_lt.mpr (le_trans (hlast W) hx)
      simp [this]
    · simp [not_lt.mpr hy.le]
    · have : ¬ y < ((gridLast H s : Nat) : R) := not_lt.mpr (le_trans (hlast H) hy)
      simp [this]

/-- animals wholly outside the image are dropped by the filter -/
theorem kept_false_of_outside (s H W : Nat) (hs : 0 < s) (a : List (Option (R × R)))
    (h : ∀ kp ∈ a, ∀ x y, kp = some (x, y) → x < 0 ∨ (W : R) ≤ x ∨ y < 0 ∨ (H : R) ≤ y) :
    kept (Nat.cast : Nat → R) s H W a = false := by
  unfold kept
  rw [List.any_eq_false]
  intro kp hkp
  rw [insideOpen_false_of_outside s H W hs kp (h kp hkp)]
  simp

/-- **paf_zero_filtered**: an animal the filter drops contributes nothing — the output is the
output without it (in particular: animals wholly outside the image, `kept_false_of_outside`). -/
theorem paf_zero_filtered (exp sqrt : R → R) (σ : R) (s H W : Nat) (edges : List (Nat × Nat))
    (as bs : List (List (Option (R × R)))) (a : List (Option (R × R)))
    (h : kept (Nat.cast : Nat → R) s H W a = false) :
    pafs exp sqrt Nat.cast σ s H W edges (as ++ a :: bs) = pafs exp sqrt Nat.cast σ s H W edges (as ++ bs) := by
  unfold pafs
  simp [List.filter_append, h]

/-- **paf_kept_partial** (F-C05b excluded): an animal with a node strictly inside the open box
`(0, xv[-1]) × (0, yv[-1])` is kept. -/
theorem paf_kept_partial (s H W : Nat) (a : List (Option (R × R))) (x y : R) (hmem : some (x, y) ∈ a)
    (hx0 : 0 < x) (hx1 : x < ((gridLast W s : Nat) : R)) (hy0 : 0 < y) (hy1 : y < ((gridLast H s : Nat) : R)) :
    kept (Nat.cast : Nat → R) s H W a = true := by
  unfold kept
  rw [List.any_eq_true]
  exact ⟨some (x, y), hmem, by simp [insideOpen, hx0, hx1, hy0, hy1]⟩

/-- full statement (false of the code): an animal with a node inside the image is kept -/
def paf_in_image_kept : Prop :=
  ∀ (s H W : Nat) (a : List (Option (R × R))) (x y : R), 0 < s → some (x, y) ∈ a →
    0 ≤ x → x < (W : R) → 0 ≤ y → y < (H : R) → kept (Nat.cast : Nat → R) s H W a = true

/-- **paf_border_strip_counterexample** (F-C05b): 16×16 image, stride 4 (last grid column 12): the
animal with nodes (13,8), (14.5,8) lies inside the image and is dropped. -/
theorem paf_border_strip_counterexample : ¬ paf_in_image_kept (R := R) := by
  intro h
  have h1 := h 4 16 16 [some (13, 8), some (29/2, 8)] 13 8 (by norm_num) (by simp)
    (by norm_num) (by norm_num) (by norm_num) (by norm_num)
  have h2 : kept (Nat.cast : Nat → R) 4 16 16 [some (13, 8), some (29/2, 8)] = false := by
    have hl : gridLast 16 4 = 12 := by decide
    unfold kept
    rw [hl]
    simp only [List.any_cons, List.any_nil, insideOpen, Bool.or_false, Bool.or_eq_false_iff,
      Bool.and_eq_false_iff, decide_eq_false_iff_not]
    constructor
    · left; left; right; norm_num
    · left; left; right; norm_num
  rw [h2] at h1
  exact absurd h1 (by simp)

/-! ## sums, layout, shape -/

theorem foldl_add_eq (l : List R) (a : R) : l.foldl (· + ·) a = a + l.sum := by
  induction l generalizing a with
  | nil => simp
  | cons x xs ih => simp only [List.foldl_cons, List.sum_cons]; rw [ih]; ring

theorem sumL_eq_sum (l : List R) : sumL l = l.sum := by
  unfold sumL; rw [foldl_add_eq]; simp

/-- **paf_additive** (cell level): the field of a concatenation of animals' edge data is the sum of
the fields; a single animal's field is its `pafCell`; no animal gives 0. -/
theorem paf_additive (exp sqrt : R → R) (σ : R) (es fs : List (EdgePts R)) (gx gy : R) :
    multiCell exp sqrt σ (es ++ fs) gx gy
      = ((multiCell exp sqrt σ es gx gy).1 + (multiCell exp sqrt σ fs gx gy).1,
         (multiCell exp sqrt σ es gx gy).2 + (multiCell exp sqrt σ fs gx gy).2) := by
  unfold multiCell
  simp [sumL_eq_sum, List.map_append, List.sum_append]

theorem paf_single (exp sqrt : R → R) (σ : R) (e : EdgePts R) (gx gy : R) :
    multiCell exp sqrt σ [e] gx gy = pafCell exp sqrt σ e.1 e.2 gx gy := by
  unfold multiCell; simp [sumL_eq_sum]

theorem paf_empty (exp sqrt : R → R) (σ : R) (gx gy : R) :
    multiCell exp sqrt σ ([] : List (EdgePts R)) gx gy = (0, 0) := by
  unfold multiCell; simp [sumL_eq_sum]

/-- edge data of edge `e` over the kept animals -/
def edgeData (s H W : Nat) (edges : List (Nat × Nat)) (animals : List (List (Option (R × R))))
    (e : Nat) : List (EdgePts R) :=
  (animals.filter (kept (Nat.cast : Nat → R) s H W)).map fun a =>
    (nodeOf a (edges.getD e (0, 0)).1, nodeOf a (edges.getD e (0, 0)).2)

/-- **paf_layout** / value: channel `2e` (`2e+1`) at row `i`, column `j` holds the x (y) component
of the sum over the kept animals of edge `e`'s field at grid point `(x, y) = (j·s, i·s)`, with the
endpoints `(instances[a][src_e], instances[a][dst_e])` and the *un-scaled* σ. -/
theorem paf_layout (exp sqrt : R → R) (σ : R) (s H W : Nat) (edges : List (Nat × Nat))
    (animals : List (List (Option (R × R)))) (e i j : Nat)
    (he : e < edges.length) (hi : i < gridLen H s) (hj : j < gridLen W s) :
    cellAt3? (pafs exp sqrt Nat.cast σ s H W edges animals) (2 * e) i j
      = some (multiCell exp sqrt σ (edgeData s H W edges animals e) (gp s j) (gp s i)).1 ∧
    cellAt3? (pafs exp sqrt Nat.cast σ s H W edges animals) (2 * e + 1) i j
      = some (multiCell exp sqrt σ (edgeData s H W edges animals e) (gp s j) (gp s i)).2 := by
  have hflat : ∀ (n : Nat) (f : Nat → List (List R) × List (List R)) (k : Nat), k < n →
      ((List.range n).flatMap fun e => [(f e).1, (f e).2])[2 * k]? = some (f k).1 ∧
      ((List.range n).flatMap fun e => [(f e).1, (f e).2])[2 * k + 1]? = some (f k).2 := by
    intro n f
    have hlen : ∀ m : Nat, ((List.range m).flatMap fun e => [(f e).1, (f e).2]).length = 2 * m := by
      intro m
      induction m with
      | zero => simp
      | succ q ihq => rw [List.range_succ, List.flatMap_append, List.length_append, ihq]; simp; omega
    induction n with
    | zero => intro k hk; omega
    | succ m ih =>
      intro k hk
      rw [List.range_succ, List.flatMap_append]
      by_cases hkm : k < m
      · obtain ⟨h1, h2⟩ := ih k hkm
        rw [List.getElem?_append_left (by rw [hlen]; omega), List.getElem?_append_left (by rw [hlen]; omega)]
        exact ⟨h1, h2⟩
      · have hk' : k = m := by omega
        subst hk'
        rw [List.getElem?_append_right (by rw [hlen]), List.getElem?_append_right (by rw [hlen]; omega), hlen]
        simp
  have key := hflat edges.length (fun e =>
    (tabulate Nat.cast (gridVec W s) (gridVec H s) (fun gx gy => (multiCell exp sqrt σ
        (((animals.filter (kept (Nat.cast : Nat → R) s H W)).map (edgePoints edges)).map (edgeAt · e)) gx gy).1),
     tabulate Nat.cast (gridVec W s) (gridVec H s) (fun gx gy => (multiCell exp sqrt σ
        (((animals.filter (kept (Nat.cast : Nat → R) s H W)).map (edgePoints edges)).map (edgeAt · e)) gx gy).2))) e he
  have hdata : (((animals.filter (kept (Nat.cast : Nat → R) s H W)).map (edgePoints edges)).map (edgeAt · e)) = edgeData s H W edges animals e := by
    unfold edgeData edgePoints edgeAt
    rw [List.map_map]
    apply List.map_congr_left
    intro a _
    simp [List.getElem?_map, List.getElem?_eq_getElem he, List.getD_eq_getElem?_getD]
  simp only at key
  rw [hdata] at key
  unfold cellAt3? pafs makeMultiPafs
  dsimp only
  constructor
  · rw [key.1]
    simp only
    rw [cellAt?_tabulate _ _ _ _ _ _ (by rw [gridVec_length]; exact hi) (by rw [gridVec_length]; exact hj)]
    simp [gridVec_getElem, gp]
  · rw [key.2]
    simp only
    rw [cellAt?_tabulate _ _ _ _ _ _ (by rw [gridVec_length]; exact hi) (by rw [gridVec_length]; exact hj)]
    simp [gridVec_getElem, gp]

/-- **paf_shape**: `2·n_edges` channels of `⌈H/s⌉ × ⌈W/s⌉` (that is `H/s × W/s` when `s ∣ H, W`:
`GridTab.gridLen_of_dvd`). -/
theorem paf_shape (exp sqrt : R → R) (σ : R) (s H W : Nat) (edges : List (Nat × Nat))
    (animals : List (List (Option (R × R)))) :
    (pafs exp sqrt Nat.cast σ s H W edges animals).length = 2 * edges.length ∧
    ∀ ch ∈ pafs exp sqrt Nat.cast σ s H W edges animals,
      ch.length = gridLen H s ∧ ∀ row ∈ ch, row.length = gridLen W s := by
  unfold pafs makeMultiPafs
  constructor
  · generalize edges.length = n
    induction n with
    | zero => simp
    | succ m ih => rw [List.range_succ, List.flatMap_append, List.length_append, ih]; simp; omega
  · intro ch hch
    simp only [List.mem_flatMap, List.mem_range] at hch
    obtain ⟨e, _, hmem⟩ := hch
    have : ∀ f : R → R → R, (tabulate Nat.cast (gridVec W s) (gridVec H s) f).length = gridLen H s ∧
        ∀ row ∈ tabulate Nat.cast (gridVec W s) (gridVec H s) f, row.length = gridLen W s := by
      intro f
      unfold tabulate
      constructor
      · simp [gridVec_length]
      · intro row hrow
        simp only [List.mem_map] at hrow
        obtain ⟨gy, _, rfl⟩ := hrow
        simp [gridVec_length]
    simp only [List.mem_cons, List.mem_nil_iff, or_false] at hmem
    rcases hmem with rfl | rfl <;> exact this _

/-! ## composed statements -/

/-- **paf_weight_antitone_capstone** (edges ≥ 1 px): "non-increasing with distance from the segment"
stated on two points: if `p` is at least as close to the segment as `q` (every segment point is at
least as far from `q` as some segment point is from `p`), then `w(q) ≤ w(p)`. -/
theorem paf_weight_antitone_capstone (T : Transc R) (σ : R) (hσ : 0 < σ) (sx sy tx ty px py qx qy : R)
    (hL : 1 ≤ len2 (tx - sx) (ty - sy))
    (h : ∀ u, 0 ≤ u → u ≤ 1 → ∃ v, 0 ≤ v ∧ v ≤ 1 ∧
        (sx + v * (tx - sx) - px) ^ 2 + (sy + v * (ty - sy) - py) ^ 2
          ≤ (sx + u * (tx - sx) - qx) ^ 2 + (sy + u * (ty - sy) - qy) ^ 2) :
    edgeWeight T.exp σ sx sy tx ty qx qy ≤ edgeWeight T.exp σ sx sy tx ty px py := by
  unfold edgeWeight
  apply paf_weight_antitone_in_distance T σ hσ
  · unfold distanceToEdge; exact distSq_nonneg _ _ _ _
  · obtain ⟨hq0, hq1, hq⟩ := paf_foot_on_segment qx qy sx sy tx ty
    obtain ⟨v, hv0, hv1, hv⟩ := h _ hq0 hq1
    have hp := paf_D_is_sqdist_to_segment (px - sx) (py - sy) (tx - sx) (ty - sy) hL v hv0 hv1
    unfold distanceToEdge at hq ⊢
    rw [hq]
    refine le_trans hp (le_trans (le_of_eq ?_) hv)
    ring

/-- **paf_output_on_segment** (output level): one kept animal, edge `e` of length ≥ 1 px, grid point
`(j·s, i·s)` on the segment ⇒ channels `2e`, `2e+1` of `generate_pafs` at `(i, j)` hold exactly the
unit vector from source to destination. -/
theorem paf_output_on_segment (T : Transc R) (σ : R) (hσ : 0 < σ) (s H W : Nat) (edges : List (Nat × Nat))
    (a : List (Option (R × R))) (e i j : Nat) (he : e < edges.length) (hi : i < gridLen H s) (hj : j < gridLen W s)
    (hk : kept (Nat.cast : Nat → R) s H W a = true)
    (sx sy tx ty u : R)
    (hs : nodeOf a (edges.getD e (0,0)).1 = some (sx, sy)) (ht : nodeOf a (edges.getD e (0,0)).2 = some (tx, ty))
    (hL : 1 ≤ len2 (tx - sx) (ty - sy)) (hu0 : 0 ≤ u) (hu1 : u ≤ 1)
    (hx : gp s j = sx + u * (tx - sx)) (hy : gp s i = sy + u * (ty - sy)) :
    ∃ ux uy : R, ux * ux + uy * uy = 1 ∧ 0 < ux * (tx - sx) + uy * (ty - sy) ∧ ux * (ty - sy) - uy * (tx - sx) = 0 ∧
      cellAt3? (pafs T.exp T.sqrt Nat.cast σ s H W edges [a]) (2 * e) i j = some ux ∧
      cellAt3? (pafs T.exp T.sqrt Nat.cast σ s H W edges [a]) (2 * e + 1) i j = some uy := by
  have hd : ¬ (tx - sx = 0 ∧ ty - sy = 0) := by
    rintro ⟨h1, h2⟩; rw [h1, h2] at hL; simp [len2] at hL; linarith
  obtain ⟨ux, uy, w, hc, hw, _, _, hn, hpar, hdot⟩ := paf_direction T σ hσ sx sy tx ty (gp s j) (gp s i) hd
  have hw1 : w = 1 := by
    rw [hw, hx, hy]; exact paf_weight_one_on_segment_partial T σ hσ sx sy tx ty u hL hu0 hu1
  obtain ⟨l1, l2⟩ := paf_layout T.exp T.sqrt σ s H W edges [a] e i j he hi hj
  have hed : edgeData s H W edges [a] e = [(some (sx, sy), some (tx, ty))] := by
    have hs' := hs; have ht' := ht
    rw [List.getD_eq_getElem?_getD] at hs' ht'
    simp [edgeData, hk, hs', ht']
  rw [hed, paf_single] at l1 l2
  simp only at l1 l2
  rw [hc, hw1] at l1 l2
  exact ⟨ux, uy, hn, hdot, hpar, by simpa using l1, by simpa using l2⟩

/-- **paf_output_additive** (output level): the cell of `generate_pafs` on `as ++ bs` is the sum of
the cells on `as` and on `bs` (the filter acts per animal). -/
theorem paf_output_additive (exp sqrt : R → R) (σ : R) (s H W : Nat) (edges : List (Nat × Nat))
    (as bs : List (List (Option (R × R)))) (e : Nat) (gx gy : R) :
    multiCell exp sqrt σ (edgeData s H W edges (as ++ bs) e) gx gy
      = ((multiCell exp sqrt σ (edgeData s H W edges as e) gx gy).1
            + (multiCell exp sqrt σ (edgeData s H W edges bs e) gx gy).1,
         (multiCell exp sqrt σ (edgeData s H W edges as e) gx gy).2
            + (multiCell exp sqrt σ (edgeData s H W edges bs e) gx gy).2) := by
  have : edgeData s H W edges (as ++ bs) e = edgeData s H W edges as e ++ edgeData s H W edges bs e := by
    unfold edgeData; rw [List.filter_append, List.map_append]
  rw [this, paf_additive]

/-- **paf_passes_independent**: `PartAffinityFieldsGenerator` is modelled by a *function*: iterating
the same generator object `k` times over the same example is mapping `pafs` over `k` copies of the
input, and every pass gives the one-pass field (the code must not keep state between passes; the
harness iterates each object 1–3 times, also interleaved, and requires identical results). -/
theorem paf_passes_independent (exp sqrt : R → R) (σ : R) (s H W k : Nat) (edges : List (Nat × Nat))
    (animals : List (List (Option (R × R)))) :
    (List.replicate k animals).map (pafs exp sqrt Nat.cast σ s H W edges)
      = List.replicate k (pafs exp sqrt Nat.cast σ s H W edges animals) := List.map_replicate

/-- **paf_stream_independent**: a stream of *different* examples (image sizes, animals) through one
generator is the model mapped over the stream: the field of example `i` is `pafs` of example `i`
alone — its own `H`, `W` (grid, in-image bound) and animals, nothing carried over from the
examples before it. -/
theorem paf_stream_independent (exp sqrt : R → R) (σ : R) (s : Nat) (edges : List (Nat × Nat))
    (stream : List (Nat × Nat × List (List (Option (R × R))))) (i : Nat) :
    (stream.map fun ex => pafs exp sqrt Nat.cast σ s ex.1 ex.2.1 edges ex.2.2)[i]?
      = (stream[i]?).map fun ex => pafs exp sqrt Nat.cast σ s ex.1 ex.2.1 edges ex.2.2 := List.getElem?_map

/-! ## non-vacuity -/

example : 0 < weight realTransc.exp (3/2 : ℝ) (5 : ℝ) ∧ weight realTransc.exp (3/2 : ℝ) 5 ≤ 1 :=
  paf_weight_range realTransc _ (by norm_num) _

example : edgeWeight realTransc.exp (1 : ℝ) 1 1 4 5 (1 + 1/2 * (4 - 1)) (1 + 1/2 * (5 - 1)) = 1 :=
  paf_weight_one_on_segment_partial realTransc 1 one_pos 1 1 4 5 (1/2)
    (by unfold len2; norm_num) (by norm_num) (by norm_num)

example : kept (Nat.cast : Nat → ℝ) 4 16 16 [some (5, 8), none] = true :=
  paf_kept_partial 4 16 16 _ 5 8 (by simp) (by norm_num)
    (by have : gridLast 16 4 = 12 := by decide
        rw [this]; norm_num) (by norm_num)
    (by have : gridLast 16 4 = 12 := by decide
        rw [this]; norm_num)

example : kept (Nat.cast : Nat → ℝ) 4 16 16 [some (17, 3), some (-2, 5), none] = false :=
  kept_false_of_outside 4 16 16 (by norm_num) _ (by
    intro kp hkp x y h
    simp only [List.mem_cons, List.mem_nil_iff, or_false] at hkp
    rcases hkp with rfl | rfl | rfl
    · cases h; right; left; norm_num
    · cases h; left; norm_num
    · cases h)

example : ∃ ux uy w, pafCell realTransc.exp realTransc.sqrt (3/2 : ℝ) (some (1, 1)) (some (4, 5)) 2 2 = (w * ux, w * uy)
    ∧ 0 < w ∧ ux * ux + uy * uy = 1 := by
  obtain ⟨ux, uy, w, h1, _, h3, _, h5, _, _⟩ := paf_direction realTransc (3/2) (by norm_num) 1 1 4 5 2 2 (by norm_num)
  exact ⟨ux, uy, w, h1, h3, h5⟩

-- paf_D_is_sqdist_to_segment / paf_foot_on_segment: edge (1,1)→(4,5) (|d|² = 25 ≥ 1), any point, u = 1/3
example : distSq (2 - 1 : ℝ) (7 - 1) (4 - 1) (5 - 1) ≤ (1/3 * (4 - 1) - (2 - 1)) ^ 2 + (1/3 * (5 - 1) - (7 - 1)) ^ 2 :=
  paf_D_is_sqdist_to_segment _ _ _ _ (by unfold len2; norm_num) (1/3) (by norm_num) (by norm_num)

-- paf_layout / paf_shape / paf_zero_filtered hypotheses: e < |edges|, i,j inside the ⌈8/2⌉ = 4 grid
example : (0 : Nat) < [((0 : Nat), (1 : Nat))].length ∧ 3 < gridLen 8 2 ∧ gridLen 8 2 = 4 := by decide

-- paf_output_on_segment: animal (2,2)→(6,2) on an 8×8 image, stride 2 (open box (0,6)²), grid point (4,2) = s + ½·d
example : ∃ ux uy : ℝ, ux * ux + uy * uy = 1 ∧
    cellAt3? (pafs realTransc.exp realTransc.sqrt Nat.cast (1 : ℝ) 2 8 8 [(0, 1)] [[some (2, 2), some (6, 2)]]) 0 1 2 = some ux ∧
    cellAt3? (pafs realTransc.exp realTransc.sqrt Nat.cast (1 : ℝ) 2 8 8 [(0, 1)] [[some (2, 2), some (6, 2)]]) 1 1 2 = some uy := by
  have hl : gridLast 8 2 = 6 := by decide
  have hg : gridLen 8 2 = 4 := by decide
  obtain ⟨ux, uy, h1, _, _, h4, h5⟩ := paf_output_on_segment realTransc (1 : ℝ) one_pos 2 8 8 [(0, 1)]
    [some (2, 2), some (6, 2)] 0 1 2 (by simp) (by rw [hg]; norm_num) (by rw [hg]; norm_num)
    (paf_kept_partial 2 8 8 _ 2 2 (by simp) (by norm_num) (by rw [hl]; norm_num) (by norm_num) (by rw [hl]; norm_num))
    2 2 6 2 (1/2) (by simp [nodeOf]) (by simp [nodeOf]) (by unfold len2; norm_num) (by norm_num) (by norm_num)
    (by unfold gp; norm_num) (by unfold gp; norm_num)
  exact ⟨ux, uy, h1, by simpa using h4, by simpa using h5⟩

end SleapVerif.C05
