import SleapVerif.Model.Tracker
import SleapVerif.Gen.TranslatedC09

/-!
# C09, second tie — track-id bookkeeping *as translated from the Python source*

`Gen/TranslatedC09.lean` is regenerated on every run of `bin/check C09` (harness/py2lean_ext.py) from
`sleap_nn/tracking/candidates/{fixed_window,local_queues}.py`: `get_new_track_id` of both candidate
classes, one iteration of the loop of `add_new_tracks` (the new-track test, the id written, the
update of `current_tracks`), and the `maxlen` every queue is constructed with.

The tracker model (`Model/Tracker.lean`) allocates ids with `newId` / `allocate` and bounds queues
with `pushBounded cfg.window`.  Below: the generated `get_new_track_id` is `newId`
(`gen_get_new_track_id_eq_model`), `allocate` is the generated loop iteration applied detection by
detection (`gen_add_new_tracks_step_eq_model` + `allocate_cons`), the queue bound is the window
(`gen_queue_maxlen_eq_model`), and — directly — a new id is larger than every id in use, so ids are
never re-used (`gen_new_id_fresh`).
-/

set_option linter.unusedSectionVars false

namespace SleapVerif.TranslatedC09
open SleapVerif.Tracker SleapVerif.Gen.TranslatedC09

theorem foldl_max_cast (ts : List Nat) (t : Nat) :
    (ts.map Int.ofNat).foldl max (t : Int) = ((ts.foldl Nat.max t : Nat) : Int) := by
  induction ts generalizing t with
  | nil => rfl
  | cons a as ih =>
    simp only [List.map_cons, List.foldl_cons]
    have e : max (t : Int) (Int.ofNat a) = ((Nat.max t a : Nat) : Int) := by
      simp only [Int.ofNat_eq_natCast, Nat.max_def, Int.max_def]; split <;> split <;> omega
    rw [e]; exact ih _

theorem newId_cast (tr : List Nat) :
    (if (tr.map Int.ofNat).isEmpty then (0 : Int) else pyMaxList (tr.map Int.ofNat) + 1) = (newId tr : Int) := by
  cases tr with
  | nil => rfl
  | cons t ts =>
    simp only [List.map_cons, List.isEmpty_cons, Bool.false_eq_true, if_false, pyMaxList, newId]
    rw [show Int.ofNat t = (t : Int) from rfl, foldl_max_cast]; rfl

/-- **`get_new_track_id` is the model's `newId`** (`0` for the first track, else `max + 1`), for both
candidate classes; the local-queue variant with `max_tracks = None` (the model's setting) never raises -/
theorem gen_get_new_track_id_eq_model (tr : List Nat) (mt : Option Int) :
    FixedWindowCandidates_get_new_track_id (tr.map Int.ofNat) mt = .ok (newId tr : Int) ∧
    LocalQueueCandidates_get_new_track_id (tr.map Int.ofNat) none = .ok (newId tr : Int) := by
  have h := newId_cast tr
  constructor
  · unfold FixedWindowCandidates_get_new_track_id
    split <;> simp_all <;> omega
  · unfold LocalQueueCandidates_get_new_track_id
    split <;> simp_all <;> omega

/-- directly: the id handed out is larger than every id in `current_tracks` — no id is used twice,
whatever happened to the queues in between -/
theorem gen_new_id_fresh (current_tracks : List Int) (mt : Option Int) (i : Int)
    (h : FixedWindowCandidates_get_new_track_id current_tracks mt = .ok i ∨
         LocalQueueCandidates_get_new_track_id current_tracks mt = .ok i) :
    ∀ t ∈ current_tracks, t < i := by
  have hmax : ∀ (l : List Int) (x : Int), x ≤ l.foldl max x ∧ ∀ t ∈ l, t ≤ l.foldl max x := by
    intro l
    induction l with
    | nil => intro x; exact ⟨Int.le_refl _, fun t ht => by cases ht⟩
    | cons a as ih =>
      intro x
      simp only [List.foldl_cons]
      obtain ⟨h1, h2⟩ := ih (max x a)
      refine ⟨by omega, ?_⟩
      intro t ht
      rcases List.mem_cons.mp ht with rfl | ht
      · omega
      · exact h2 t ht
  have key : ∀ t ∈ current_tracks, t ≤ pyMaxList current_tracks := by
    cases current_tracks with
    | nil => intro t ht; cases ht
    | cons x xs =>
      intro t ht
      obtain ⟨h1, h2⟩ := hmax xs x
      rcases List.mem_cons.mp ht with rfl | ht
      · exact h1
      · exact h2 t ht
  have hi : current_tracks ≠ [] → i = pyMaxList current_tracks + 1 := by
    intro hne
    have he : current_tracks.isEmpty = false := by cases current_tracks <;> simp_all
    rcases h with h | h
    · simp only [FixedWindowCandidates_get_new_track_id, he, Bool.false_eq_true, if_false] at h
      have := Except.ok.inj h; omega
    · simp only [LocalQueueCandidates_get_new_track_id, he, Bool.false_eq_true, if_false] at h
      cases mt with
      | none => simp at h; omega
      | some m =>
        by_cases hm : pyMaxList current_tracks + 1 > m
        · simp [hm] at h
        · simp [hm] at h; omega
  intro t ht
  have hne : current_tracks ≠ [] := by intro e; rw [e] at ht; cases ht
  have := key t ht
  rw [hi hne]; omega

section alloc
variable {R : Type} [LT R] [DecidableLT R] [LE R] [DecidableLE R]

/-- one step of the model's `allocate`, spelled out -/
def stepModel (thr s : R) (tid : Option Nat) (tr : List Nat) : Option Nat × List Nat :=
  match tid with
  | none => if thr < s then (some (newId tr), tr ++ [newId tr]) else (none, tr)
  | some t => (some t, tr)

/-- `allocate` is `stepModel` applied detection by detection, threading `current_tracks` -/
theorem allocate_cons (thr s : R) (ss : List R) (tid : Option Nat) (ids : List (Option Nat)) (tr : List Nat) :
    allocate thr (s :: ss) (tid :: ids) tr =
      ((stepModel thr s tid tr).1 :: (allocate thr ss ids (stepModel thr s tid tr).2).1,
       (allocate thr ss ids (stepModel thr s tid tr).2).2) := by
  cases tid with
  | some t => rfl
  | none =>
    simp only [allocate, stepModel]
    split <;> rfl

/-- **one iteration of the translated `add_new_tracks` loop is one step of `allocate`**: same test
(score strictly above the threshold, and — fixed window — no track yet), same id, same update of
`current_tracks`; the local-queue loop is only ever run on detections without a track -/
theorem gen_add_new_tracks_step_eq_model (thr s : R) (tid : Option Nat) (tr : List Nat) (mt : Option Int) :
    (∃ created, FixedWindowCandidates_add_new_tracks_step thr s (tid.map Int.ofNat) (tr.map Int.ofNat) mt =
      .ok ((stepModel thr s tid tr).1.map Int.ofNat, (stepModel thr s tid tr).2.map Int.ofNat, created)) ∧
    (∃ created, LocalQueueCandidates_add_new_tracks_step thr s (none : Option Int) (tr.map Int.ofNat) none =
      .ok ((stepModel thr s none tr).1.map Int.ofNat, (stepModel thr s none tr).2.map Int.ofNat, created)) := by
  obtain ⟨h1, h2⟩ := gen_get_new_track_id_eq_model tr mt
  constructor
  · unfold FixedWindowCandidates_add_new_tracks_step stepModel
    cases tid with
    | some t => exact ⟨false, by simp⟩
    | none =>
      by_cases h : thr < s
      · exact ⟨true, by simp [h, h1]⟩
      · exact ⟨false, by simp [h]⟩
  · unfold LocalQueueCandidates_add_new_tracks_step stepModel
    by_cases h : thr < s
    · exact ⟨true, by simp [h, h2]⟩
    · exact ⟨false, by simp [h]⟩

end alloc

/-- every queue is bounded by the window: what the model's `pushBounded cfg.window` assumes -/
theorem gen_queue_maxlen_eq_model (w : Nat) {α : Type} (q : List α) (x : α) :
    tracker_queue_maxlen (w : Int) = (w : Int) ∧
    (pushBounded w q x).length ≤ (tracker_queue_maxlen (w : Int)).toNat ∨ w = 0 := by
  by_cases hw : w = 0
  · exact Or.inr hw
  · refine Or.inl ⟨rfl, ?_⟩
    simp only [tracker_queue_maxlen, Int.toNat_natCast, pushBounded, List.length_drop, List.length_append,
      List.length_singleton]
    omega

example : FixedWindowCandidates_get_new_track_id [0, 3, 1] none = .ok 4 ∧
    FixedWindowCandidates_get_new_track_id [] none = .ok 0 ∧
    LocalQueueCandidates_get_new_track_id [0, 1] (some 1) = .error "Exception" := ⟨rfl, rfl, rfl⟩

end SleapVerif.TranslatedC09
