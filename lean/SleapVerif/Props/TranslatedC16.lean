import SleapVerif.Model.Eval
import Mathlib.Tactic.Ring
import Mathlib.Algebra.Order.Field.Basic
import SleapVerif.Gen.TranslatedC16

/-!
# C16, second tie — the default threshold grids *as translated from the Python source*

`Gen/TranslatedC16.lean` is regenerated from `sleap_nn/evaluation.py` on every run of
`bin/check C16` (harness/py2lean_ext.py): the default values of `match_score_thresholds` and
`recall_thresholds` of `Evaluator.voc_metrics` and of `thresholds` of `Evaluator.pck_metrics`
(`np.linspace(…)` expressions, evaluated exactly over `Rat`).

`Model/Eval.lean` takes the grids as parameters (`matchThr`, `recThr`); `harness/c16.py` feeds it
`np.linspace(0.5, 0.95, 10)`, `np.linspace(0, 1, 101)`, `np.linspace(1, 10, 10)`.  The theorems
below pin the grids the code really uses by default to those lists
(`gen_*_thresholds_eq`) and establish, about the generated lists, the side conditions under which
the C16 theorems are applied: `perfect_AP` needs a non-empty recall grid inside `[0, 1]`;
`AP_antitone_in_threshold` / `AR_antitone_in_threshold` turn into "AP and AR are non-increasing along the
table" because the match grid is strictly increasing.
-/

set_option linter.unusedTactic false
set_option linter.unreachableTactic false

namespace SleapVerif.TranslatedC16
open SleapVerif.Gen.TranslatedC16

/-- the grids written out by hand (what the harness passes to the model) -/
def matchThr : List Rat := [1/2, 11/20, 3/5, 13/20, 7/10, 3/4, 4/5, 17/20, 9/10, 19/20]
def recThr : List Rat := (List.range 101).map (fun (k : Nat) => (k : Rat) / 100)
def pckThr : List Rat := [1, 2, 3, 4, 5, 6, 7, 8, 9, 10]

/-- `np.linspace(0.5, 0.95, 10)` is `0.50, 0.55, …, 0.95` -/
theorem gen_match_thresholds_eq : voc_metrics_match_score_thresholds = matchThr := by decide +kernel

/-- `np.linspace(0, 1, 101)` is `k / 100`, `k = 0 … 100` -/
theorem gen_recall_thresholds_eq : voc_metrics_recall_thresholds = recThr := by decide +kernel

/-- `np.linspace(1, 10, 10)` is `1, 2, …, 10` (pixels) -/
theorem gen_pck_thresholds_eq : pck_metrics_thresholds = pckThr := by decide +kernel

/-- the recall grid is non-empty, has 101 points, lies in `[0, 1]`, starts at 0 and ends at 1: the
hypotheses `hr`, `hrne` of `C16.perfect_AP`, and the "101-point interpolated AP" of the property -/
theorem gen_recall_thresholds_range :
    voc_metrics_recall_thresholds ≠ [] ∧ voc_metrics_recall_thresholds.length = 101 ∧
    (∀ r ∈ voc_metrics_recall_thresholds, 0 ≤ r ∧ r ≤ 1) ∧
    voc_metrics_recall_thresholds.head? = some 0 ∧ voc_metrics_recall_thresholds.getLast? = some 1 := by
  rw [gen_recall_thresholds_eq]
  decide +kernel

/-- the match-score grid is strictly increasing from 0.5 to 0.95 (10 points): along the table every
row uses a stricter threshold than the one before -/
theorem gen_match_thresholds_increasing :
    voc_metrics_match_score_thresholds.Pairwise (· < ·) ∧
    voc_metrics_match_score_thresholds.length = 10 ∧
    (∀ t ∈ voc_metrics_match_score_thresholds, 1/2 ≤ t ∧ t ≤ 19/20) := by
  rw [gen_match_thresholds_eq]
  decide +kernel

/-- the recall grid is strictly increasing as well (what `searchsorted` against it presupposes) -/
theorem gen_recall_thresholds_increasing : voc_metrics_recall_thresholds.Pairwise (· < ·) := by
  rw [gen_recall_thresholds_eq]
  decide +kernel

/-- `compute_dists` (batch 3): the per-node entry is the model's `Eval.dist` on visible points —
`‖pr − gt‖`, prediction minus ground truth, both coordinates -/
theorem gen_compute_dists_node_eq_model {R : Type} [Field R] [LinearOrder R] [IsStrictOrderedRing R]
    (sqrt : R → R) (gx gy px py : R) :
    SleapVerif.Eval.dist sqrt (some gx, some gy) (some px, some py) =
      some (compute_dists_node sqrt gx gy px py) := by
  simp only [SleapVerif.Eval.dist, compute_dists_node] <;> (first | rfl | ring_nf)

end SleapVerif.TranslatedC16
