import SleapVerif.Lemmas.DatasetsBuild
import SleapVerif.Lemmas.DatasetsOrder
/-!
# C11 — datasets never alter or invent labels; same index gives the same sample; length =
number of non-empty instances

Statements are about `SleapVerif.Datasets` (tied to `/repo` by `harness/c11.py`).

* heap level: `Ext h h'` = "`h'` is `h` plus allocations" — nothing that existed was written.
  `generate_centroids` is modelled **repaired** (`Variant.repaired`, fixes/C11-centroid-clone.patch)
  and **as coded** (`Variant.asIs`); the full purity statement is false of the code as it is
  (`centroids_alias_counterexample`, finding F-C11) and holds under the exact extra hypothesis
  "no anchor is missing" (`centroids_asIs_pure_partial`).
* `__getitem__` engine: for **every** list of rebinding steps (so also for the augmentation
  steps) a read only allocates; with fixed steps (augmentation off) the sample returned for an
  index does not depend on the reads made before.
* value level: what is missing in the labels is missing in the sample and its confidence-map
  channel is zero; lengths.
-/
namespace SleapVerif.C11
open SleapVerif.Datasets

set_option linter.unusedSectionVars false

variable {R : Type} [Add R] [Sub R] [Mul R] [Div R] [LT R] [DecidableLT R] [OfNat R 0] [OfNat R 1]
  [OfNat R 2] [DecidableEq R]

/-! ## 1. Helpers leave their inputs untouched -/

/-- **helpers_pure** (for the repaired `generate_centroids`).  Content: the first two conjuncts —
the repaired `generate_centroids` and `prepT` (`* eff_scale` followed by `apply_resizer`, which
returns its argument itself when `scale == 1`) only allocate.  The last two conjuncts are
**definitional**: the other 14 helpers (`find_points_bbox_midpoint`, `make_centered_bboxes`,
`generate_crops`, `generate_confmaps`, `generate_multiconfmaps`, `generate_pafs`,
`apply_sizematcher`, `apply_pad_to_stride`, `apply_normalization`, grayscale/rgb, both
augmentation functions) are *modelled as* `allocT` and `dict.copy()` as `allocD`, so for them the
theorem says nothing about the code — their purity is **measured only** (harness `helper_purity`,
`poke_sample`, the `apply_aug=True` dataset slice). -/
theorem helpers_pure (h : Heap R) (t : TRef) (nI nN : Nat) (a : Option Nat) (eff s : R)
    (v : List (Pt R)) (d : List (Key × TRef)) :
    Ext h (genCentroids .repaired h t nI nN a).1 ∧ Ext h (prepT h t eff s).1 ∧
    Ext h (h.allocT v).1 ∧ Ext h (h.allocD d).1 :=
  ⟨ext_genCentroids_repaired h t nI nN a, ext_prepT h t eff s, frame_allocT h v, frame_allocD h d⟩

/-- the repaired function returns `centroidOf` of every instance -/
theorem centroids_repaired_value (h : Heap R) (t : TRef) (nI nN : Nat) (anchor : Option Nat)
    (ht : t.idx.length = nI * nN) (ha : ∀ a, anchor = some a → a < nN) :
    (genCentroids .repaired h t nI nN anchor).1.readT (genCentroids .repaired h t nI nN anchor).2
      = (chunks nN nI (h.readT t)).map (centroidOf anchor) :=
  genCentroids_repaired_value h t nI nN anchor ht ha

/-- hypotheses are satisfiable: one instance, two nodes, anchor 1 -/
example : (⟨0, [0, 1]⟩ : TRef).idx.length = 1 * 2 ∧ ∀ a, some 1 = some a → a < 2 :=
  ⟨rfl, fun a h => by cases h; decide⟩

/-- Full statement "`generate_centroids` as coded leaves its input untouched":
`∀ h t nI nN a, (genCentroids .asIs h t nI nN a).1 = h` — **false**, see the counterexample.
It holds exactly when no anchor is missing: -/
theorem centroids_asIs_pure_partial (h : Heap R) (t : TRef) (nI nN a : Nat)
    (hp : ∀ c ∈ h.readT (t.slice ((List.range nI).map fun i => i * nN + a)), c.missing = false) :
    (genCentroids .asIs h t nI nN (some a)).1 = h :=
  genCentroids_asIs_pure_of_present h t nI nN a hp

example (x y : R) : ∀ c ∈ (⟨[[(some x, some y), (none, none)]], []⟩ : Heap R).readT
    ((⟨0, [0, 1]⟩ : TRef).slice ((List.range 1).map fun i => i * 2 + 0)), c.missing = false := by
  simp [Heap.readT, TRef.slice, Pt.missing, List.range, List.range.loop]

/-- **F-C11**: one instance, nodes `[missing, (x, y)]`, anchor 0.  As coded, the call returns a
view of the input and writes the bounding-box midpoint through it: afterwards the *input* tensor
holds a keypoint where the label had none. -/
theorem centroids_alias_counterexample (x y : R) :
    let h0 : Heap R := ⟨[[(none, none), (some x, some y)]], []⟩
    let t0 : TRef := ⟨0, [0, 1]⟩
    (genCentroids .asIs h0 t0 1 2 (some 0)).1.readT t0
        = [(some ((x + x) / 2), some ((y + y) / 2)), (some x, some y)] ∧
      (genCentroids .asIs h0 t0 1 2 (some 0)).1 ≠ h0 ∧
      (genCentroids .repaired h0 t0 1 2 (some 0)).1.readT t0 = h0.readT t0 := by
  refine ⟨rfl, ?_, rfl⟩
  intro h
  have := congrArg (fun h => h.readT ⟨0, [0]⟩) h
  simp [genCentroids, Heap.readT, Heap.writeT, Heap.setCell, TRef.slice, chunks, bboxMid, midC,
    Pt.missing, Pt.nan, List.range, List.range.loop] at this

/-! ## 2. Centroid value -/

/-- **centroid_fallback**: anchor when present, else bounding-box midpoint of what is visible -/
theorem centroid_fallback (pts : List (Pt R)) :
    (∀ a, (pts.getD a Pt.nan).missing = false → centroidOf (some a) pts = pts.getD a Pt.nan) ∧
    (∀ a, (pts.getD a Pt.nan).missing = true → centroidOf (some a) pts = bboxMid pts) ∧
    centroidOf none pts = bboxMid pts := by
  refine ⟨fun a h => ?_, fun a h => ?_, rfl⟩
  · show (if (pts.getD a Pt.nan).missing = true then bboxMid pts else pts.getD a Pt.nan) = _
    rw [h]; rfl
  · show (if (pts.getD a Pt.nan).missing = true then bboxMid pts else pts.getD a Pt.nan) = _
    rw [h]; rfl

/-- a coordinate of the midpoint is missing iff that coordinate is missing in every node -/
theorem centroid_none_iff (xs : List (Coord R)) : midC xs = none ↔ ∀ x ∈ xs, x = none := by
  unfold midC
  constructor
  · intro h
    split at h
    · rename_i hnil
      intro x hx
      cases x with
      | none => rfl
      | some v =>
        have : v ∈ xs.filterMap id := List.mem_filterMap.mpr ⟨some v, hx, rfl⟩
        rw [hnil] at this
        cases this
    · cases h
  · intro h
    have : xs.filterMap id = [] := by
      apply List.filterMap_eq_nil_iff.mpr
      intro x hx
      rw [h x hx]; rfl
    rw [this]

/-! ## 3. Missing stays missing -/

/-- NaN pattern of a point -/
def nanPat (p : Pt R) : Bool × Bool := (p.1.isNone, p.2.isNone)

omit [Add R] [Sub R] [Div R] [LT R] [DecidableLT R] [OfNat R 0] [OfNat R 2] in
theorem prepPts_pattern (eff s : R) (pts : List (Pt R)) :
    (prepPts eff s pts).map nanPat = pts.map nanPat := by
  unfold prepPts
  split <;> simp [nanPat, Pt.scale, Function.comp_def]

omit [Add R] [Mul R] [Div R] [LT R] [DecidableLT R] [OfNat R 0] [OfNat R 1] [OfNat R 2] [DecidableEq R] in
theorem sub_missing (p q : Pt R) :
    (p.1 = none → (p.sub q).1 = none) ∧ (p.2 = none → (p.sub q).2 = none) := by
  constructor <;> intro h <;> simp [Pt.sub, h, o2]

/-- **missing_stays_missing** (bottom-up, single-instance, centroid classes): the cached — and by
`getitem_value` every returned — `instances` tensor has exactly the NaN pattern of the rows
`process_lf` selected, whatever the scale factors. -/
theorem missing_stays_missing (cfg : Cfg R) (cast : Nat → R) (mi : Nat) (f : Frame R) :
    ((specFrameCached cfg cast mi f).1.get Key.instances).map nanPat
      = ((processInsts cfg.userOnly mi f).1.flatten).map nanPat := by
  have key : (specFrameCached cfg cast mi f).1.get Key.instances
      = ((processInsts cfg.userOnly mi f).1.map
          (prepPts (cfg.eff cast f) cfg.scale)).flatten := by
    unfold specFrameCached
    cases cfg.kind <;> simp [DictV.get, assocGet]
  rw [key]
  simp only [List.map_flatten, List.map_map]
  congr 1
  apply List.map_congr_left
  intro r _
  exact prepPts_pattern _ _ r

omit [Add R] [Sub R] [Mul R] [Div R] [LT R] [DecidableLT R] [OfNat R 0] [OfNat R 1] [OfNat R 2] [DecidableEq R] in
/-- the rows are the non-empty (filtered) label instances, in order, followed by all-NaN rows:
padding never invents a point -/
theorem padding_rows_missing (uo : Bool) (mi : Nat) (f : Frame R) :
    ∃ pad, (processInsts uo mi f).1
        = ((f.filtered uo).filter (fun i => !i.isEmpty)).map (·.pts) ++ pad ∧
      (∀ r ∈ pad, ∀ p ∈ r, p = Pt.nan) ∧
      (processInsts uo mi f).2 = ((f.filtered uo).filter (fun i => !i.isEmpty)).length := by
  unfold processInsts
  by_cases h : mi = 1
  · exact ⟨[], by simp [h], by simp, by simp⟩
  · refine ⟨_, by simp only [h, if_false]; rfl, ?_, by simp⟩
    intro r hr p hp
    rw [List.mem_replicate] at hr
    rw [hr.2, List.mem_replicate] at hp
    exact hp.2

omit [Add R] [Sub R] [Mul R] [Div R] [LT R] [DecidableLT R] [OfNat R 0] [OfNat R 1] [OfNat R 2] [DecidableEq R] in
/-- `SingleInstanceDataset` (`max_instances = 1`): no padding rows at all -/
theorem single_rows_unpadded (cfg : Cfg R) (fs : List (Frame R)) (f : Frame R) (hk : cfg.kind = .single) :
    (processInsts cfg.userOnly (cfg.maxInst fs) f).1
      = ((f.filtered cfg.userOnly).filter (fun i => !i.isEmpty)).map (·.pts) := by
  simp [Cfg.maxInst, hk, processInsts]

/-- **missing_stays_missing** (centered-instance class): in the sample returned by `__getitem__`
the `instance` tensor has one row per label node and every coordinate that is missing in the
label is missing there. -/
theorem missing_stays_missing_centered (cfg : Cfg R) (cast : Nat → R) (f : Frame R) (j : Nat)
    (hk : cfg.kind = .centered) :
    let lab := ((f.filtered cfg.userOnly).map (·.pts)).getD j []
    let out := (applySteps (cfg.steps cast) (specCenteredCached cfg cast f j).1).get Key.instance
    out.length = lab.length ∧
    ∀ n, ((lab.getD n Pt.nan).1 = none → (out.getD n Pt.nan).1 = none) ∧
         ((lab.getD n Pt.nan).2 = none → (out.getD n Pt.nan).2 = none) := by
  intro lab out
  let P := prepPts (cfg.eff cast f) cfg.scale lab
  let c := centroidOf cfg.anchor P
  let q1 := (centeredBbox cast c (cropExtra cfg.cropH) (cropExtra cfg.cropW)).getD 0 Pt.nan
  let q2 := (centeredBbox cast (c.sub q1) cfg.cropH cfg.cropW).getD 0 Pt.nan
  have hq : out = (P.map (·.sub q1)).map (·.sub q2) := by
    simp only [out, lab, P, c, q1, q2, Cfg.steps, hk, applySteps, centeredSteps, specCenteredCached,
      List.foldl_cons, List.foldl_nil]
    simp [assocSet, DictV.get, assocGet, List.getD_eq_getElem?_getD]
  have hlen : out.length = lab.length := by
    rw [hq]
    have := congrArg List.length (prepPts_pattern (cfg.eff cast f) cfg.scale lab)
    simpa using this
  refine ⟨hlen, fun n => ?_⟩
  have hpat := prepPts_pattern (cfg.eff cast f) cfg.scale lab
  have hn : nanPat ((prepPts (cfg.eff cast f) cfg.scale lab).getD n Pt.nan)
      = nanPat (lab.getD n Pt.nan) := by
    have := congrArg (fun l => l[n]?) hpat
    simp only [List.getElem?_map] at this
    simp only [List.getD_eq_getElem?_getD]
    cases h1 : (prepPts (cfg.eff cast f) cfg.scale lab)[n]? <;>
      cases h2 : lab[n]? <;> simp_all [nanPat, Pt.nan]
  rw [hq]
  simp only [List.getD_eq_getElem?_getD, List.getElem?_map]
  cases h1 : (prepPts (cfg.eff cast f) cfg.scale lab)[n]? with
  | none => simp [Pt.nan]
  | some p =>
    simp only [List.getD_eq_getElem?_getD, h1, Option.getD_some] at hn
    simp only [Option.map_some, Option.getD_some]
    constructor
    · intro hl
      have : p.1 = none := by
        have := congrArg Prod.fst hn
        simp only [nanPat] at this
        simpa [hl] using this
      exact (sub_missing _ q2).1 ((sub_missing p q1).1 this)
    · intro hl
      have : p.2 = none := by
        have := congrArg Prod.snd hn
        simp only [nanPat] at this
        simpa [hl] using this
      exact (sub_missing _ q2).2 ((sub_missing p q1).2 this)

omit [Add R] [Sub R] [Mul R] [Div R] [LT R] [DecidableLT R] [OfNat R 1] [OfNat R 2] [DecidableEq R] in
/-- a missing keypoint gives the zero confidence-map channel, for any kernel -/
theorem missing_channel_zero (kernel : R → R → R → R → R) (kp : Pt R) (gx gy : R)
    (h : kp.missing = true) : cmCell kernel kp gx gy = 0 := by
  obtain ⟨x, y⟩ := kp
  cases x <;> cases y <;> simp_all [cmCell, Pt.missing]

omit [Add R] [Sub R] [Mul R] [Div R] [OfNat R 1] [OfNat R 2] [DecidableEq R] in
/-- a node missing in every instance gives the zero channel of the multi-instance maps
(`maximum(zeros, …)` over the instances) -/
theorem missing_multi_channel_zero (kernel : R → R → R → R → R) (kps : List (Pt R)) (gx gy : R)
    (h : ∀ kp ∈ kps, kp.missing = true) : multiCmCell kernel kps gx gy = 0 := by
  unfold multiCmCell
  induction kps with
  | nil => rfl
  | cons kp kps ih =>
    simp only [List.foldl_cons]
    rw [missing_channel_zero kernel kp gx gy (h kp (by simp))]
    have : maxR (0 : R) 0 = 0 := by simp [maxR]
    rw [this]
    exact ih (fun k hk => h k (by simp [hk]))

/-! ## 3a. Missing = not visible **or** NaN; the stored representation is irrelevant -/

omit [Add R] [Sub R] [Mul R] [Div R] [LT R] [DecidableLT R] [OfNat R 0] [OfNat R 1] [OfNat R 2] [DecidableEq R] in
/-- a node that is not flagged visible is missing in `labelPts` whatever coordinates are stored;
a visible node shows its stored coordinates: a keypoint is missing iff not visible or NaN -/
theorem label_missing_iff (n : Node R) :
    (n.visible = false → n.pt = Pt.nan) ∧ (n.visible = true → n.pt = n.xy) ∧
    (n.pt.invisible = true ↔ (n.visible = false ∨ n.xy.invisible = true)) := by
  cases h : n.visible <;> simp [Node.pt, h, Pt.nan, Pt.invisible]

omit [Add R] [Sub R] [Mul R] [Div R] [LT R] [DecidableLT R] [OfNat R 0] [OfNat R 1] [OfNat R 2] [DecidableEq R] in
/-- for well-flagged labels `is_empty` (computed from the flags) says exactly "every keypoint is
missing" — e.g. an instance whose nodes all store finite coordinates but are all hidden is empty -/
theorem empty_iff_all_missing (r : RawInst R) (hw : r.WellFlagged) :
    r.abs.isEmpty = r.labelPts.all Pt.invisible := by
  simp only [RawInst.abs, Inst.isEmpty, RawInst.labelPts, List.all_map]
  rw [Bool.eq_iff_iff, List.all_eq_true, List.all_eq_true]
  have hpt : ∀ n ∈ r.nodes, ((!n.visible) = true ↔ (Pt.invisible ∘ Node.pt) n = true) := by
    intro n hn
    cases h : n.visible
    · simp [Node.pt, h, Pt.nan, Pt.invisible]
    · simp [Node.pt, h, hw n hn h]
  exact ⟨fun H n hn => (hpt n hn).mp (H n hn), fun H n hn => (hpt n hn).mpr (H n hn)⟩

omit [Add R] [Sub R] [Mul R] [Div R] [LT R] [DecidableLT R] [OfNat R 0] [OfNat R 1] [OfNat R 2] [DecidableEq R] in
/-- two stored instances of the same type with the same `labelPts` are indistinguishable for the
datasets, however their missing nodes are stored -/
theorem missing_repr_irrelevant_inst (r r' : RawInst R) (hk : r.kind = r'.kind)
    (hp : r.labelPts = r'.labelPts) (hw : r.WellFlagged) (hw' : r'.WellFlagged) : r.abs = r'.abs := by
  have h1 := empty_iff_all_missing r hw
  have h2 := empty_iff_all_missing r' hw'
  simp only [Inst.isEmpty] at h1 h2
  have : r.abs.empty = r'.abs.empty := by rw [h1, h2, hp]
  simp only [RawInst.abs] at this ⊢
  rw [hk, hp, this]

/-- **missing_repr_irrelevant**: samples and length depend on the labels only through
`RawFrame.view` (types and `labelPts`): two label sets that differ only in *how* missing nodes
are stored — `(NaN, hidden)` vs `(finite xy, hidden)`, anchor node included — give the same
dataset. -/
theorem missing_repr_irrelevant (cfg : Cfg R) (cast : Nat → R) (fs fs' : List (RawFrame R))
    (hw : ∀ f ∈ fs, ∀ r ∈ f.insts, r.WellFlagged) (hw' : ∀ f ∈ fs', ∀ r ∈ f.insts, r.WellFlagged)
    (hv : fs.map RawFrame.view = fs'.map RawFrame.view) (i : Nat) :
    specSample cfg cast (fs.map RawFrame.abs) i = specSample cfg cast (fs'.map RawFrame.abs) i ∧
    specLen cfg (fs.map RawFrame.abs) = specLen cfg (fs'.map RawFrame.abs) := by
  -- the observed frame is a function of the view
  let ofView : Nat × Nat × Nat × Nat × List (Kind × List (Pt R)) → Frame R := fun v =>
    ⟨v.1, v.2.1, v.2.2.1, v.2.2.2.1, v.2.2.2.2.map fun kp => ⟨kp.1, kp.2, kp.2.all Pt.invisible⟩⟩
  have key : ∀ (gs : List (RawFrame R)), (∀ f ∈ gs, ∀ r ∈ f.insts, r.WellFlagged) →
      gs.map RawFrame.abs = (gs.map RawFrame.view).map ofView := by
    intro gs hg
    rw [List.map_map]
    apply List.map_congr_left
    intro f hf
    simp only [Function.comp, RawFrame.abs, RawFrame.view, ofView, List.map_map]
    congr 1
    apply List.map_congr_left
    intro r hr
    have := empty_iff_all_missing r (hg f hf r hr)
    simp only [Inst.isEmpty] at this
    simp only [Function.comp, RawInst.abs] at this ⊢
    rw [this]
  rw [key fs hw, key fs' hw', hv]
  exact ⟨rfl, rfl⟩

/-- the hypotheses are satisfiable by two genuinely different representations: the anchor node
stored as `(NaN, hidden)` and as `(finite, hidden)` -/
example (x y u v : R) :
    (⟨.user, [⟨(none, none), false⟩, ⟨(some x, some y), true⟩]⟩ : RawInst R).WellFlagged ∧
    (⟨.user, [⟨(some u, some v), false⟩, ⟨(some x, some y), true⟩]⟩ : RawInst R).WellFlagged ∧
    (⟨.user, [⟨(none, none), false⟩, ⟨(some x, some y), true⟩]⟩ : RawInst R).labelPts
      = (⟨.user, [⟨(some u, some v), false⟩, ⟨(some x, some y), true⟩]⟩ : RawInst R).labelPts := by
  refine ⟨?_, ?_, rfl⟩ <;> intro n hn hv <;>
    simp only [List.mem_cons, List.not_mem_nil, or_false] at hn <;>
    rcases hn with rfl | rfl <;> simp_all [Pt.invisible]

/-! ## 3b. Present stays present -/

omit [Add R] [Sub R] [Div R] [LT R] [DecidableLT R] [OfNat R 0] [OfNat R 2] in
/-- a labelled keypoint is, after `* eff_scale` and `apply_resizer`, a number at the scaled
position -/
theorem prepPts_value (eff s : R) (pts : List (Pt R)) (n : Nat) (x y : R)
    (h : pts.getD n Pt.nan = (some x, some y)) :
    (prepPts eff s pts).getD n Pt.nan =
      if s = 1 then (some (x * eff), some (y * eff)) else (some (x * eff * s), some (y * eff * s)) := by
  have hn : pts[n]? = some (some x, some y) := by
    rw [List.getD_eq_getElem?_getD] at h
    cases hc : pts[n]? with
    | none => rw [hc] at h; simp [Pt.nan] at h
    | some p => rw [hc] at h; simp at h; rw [h]
  unfold prepPts
  split <;> simp [List.getD_eq_getElem?_getD, hn, Pt.scale]

/-- **present_stays_present** (bottom-up, single-instance, centroid classes): the cached — and by
`getitem_eq_spec_build` every returned — `instances` tensor is the row-wise scaling of the rows
`process_lf` selected (`padding_rows_missing`: the non-empty filtered label instances in order),
and a labelled keypoint `(x, y)` of such a row sits there as a number at
`(x·eff_scale[·scale], y·eff_scale[·scale])`. -/
theorem present_stays_present (cfg : Cfg R) (cast : Nat → R) (mi : Nat) (f : Frame R) :
    (specFrameCached cfg cast mi f).1.get Key.instances
      = ((processInsts cfg.userOnly mi f).1.map (prepPts (cfg.eff cast f) cfg.scale)).flatten ∧
    ∀ row ∈ (processInsts cfg.userOnly mi f).1, ∀ n x y, row.getD n Pt.nan = (some x, some y) →
      (prepPts (cfg.eff cast f) cfg.scale row).getD n Pt.nan =
        if cfg.scale = 1 then (some (x * cfg.eff cast f), some (y * cfg.eff cast f))
        else (some (x * cfg.eff cast f * cfg.scale), some (y * cfg.eff cast f * cfg.scale)) := by
  refine ⟨?_, fun row _ n x y h => prepPts_value _ _ row n x y h⟩
  unfold specFrameCached
  cases cfg.kind <;> simp [DictV.get, assocGet]

/-- an instance with at least one fully labelled node has a centroid (anchor or bbox midpoint) -/
theorem centroid_present (anchor : Option Nat) (pts : List (Pt R))
    (h : ∃ p ∈ pts, p.full = true) : (centroidOf anchor pts).full = true := by
  obtain ⟨p, hp, hfull⟩ := h
  have hmid : (bboxMid pts).full = true := by
    simp only [Pt.full, Bool.and_eq_true] at hfull ⊢
    constructor
    · show (midC (pts.map (·.1))).isSome = true
      cases hm : midC (pts.map (·.1)) with
      | some _ => rfl
      | none =>
        have := (centroid_none_iff _).mp hm p.1 (List.mem_map.mpr ⟨p, hp, rfl⟩)
        rw [this] at hfull; simp at hfull
    · show (midC (pts.map (·.2))).isSome = true
      cases hm : midC (pts.map (·.2)) with
      | some _ => rfl
      | none =>
        have := (centroid_none_iff _).mp hm p.2 (List.mem_map.mpr ⟨p, hp, rfl⟩)
        rw [this] at hfull; simp at hfull
  unfold centroidOf
  cases anchor with
  | none => exact hmid
  | some a =>
    simp only
    split
    · exact hmid
    · rename_i hm
      simp only [Pt.missing, Bool.or_eq_true, not_or, Bool.not_eq_true, Option.isNone_eq_false_iff] at hm
      simp only [Pt.full, Bool.and_eq_true]
      exact hm

/-- **present_stays_present** (centered-instance class): the returned `instance` is the scaled
label minus the two crop offsets `q1` (top-left of the `⌊crop·√2⌋` box around the centroid) and
`q2` (top-left of the final `crop_hw` box); when the instance has a fully labelled node both
offsets are numbers and every fully labelled node is a number in the sample. -/
theorem present_stays_present_centered (cfg : Cfg R) (cast : Nat → R) (f : Frame R) (j : Nat)
    (hk : cfg.kind = .centered) :
    let lab := ((f.filtered cfg.userOnly).map (·.pts)).getD j []
    let P := prepPts (cfg.eff cast f) cfg.scale lab
    let c := centroidOf cfg.anchor P
    let q1 := (centeredBbox cast c (cropExtra cfg.cropH) (cropExtra cfg.cropW)).getD 0 Pt.nan
    let q2 := (centeredBbox cast (c.sub q1) cfg.cropH cfg.cropW).getD 0 Pt.nan
    let out := (applySteps (cfg.steps cast) (specCenteredCached cfg cast f j).1).get Key.instance
    out = (P.map (·.sub q1)).map (·.sub q2) ∧
    ((∃ p ∈ lab, p.full = true) → q1.full = true ∧ q2.full = true ∧
      ∀ n, (lab.getD n Pt.nan).full = true → (out.getD n Pt.nan).full = true) := by
  intro lab P c q1 q2 out
  have hq : out = (P.map (·.sub q1)).map (·.sub q2) := by
    simp only [out, lab, P, c, q1, q2, Cfg.steps, hk, applySteps, centeredSteps, specCenteredCached,
      List.foldl_cons, List.foldl_nil]
    simp [assocSet, DictV.get, assocGet, List.getD_eq_getElem?_getD]
  refine ⟨hq, fun hex => ?_⟩
  have hfullP : ∀ n, (lab.getD n Pt.nan).full = true → (P.getD n Pt.nan).full = true := by
    intro n hn
    obtain ⟨x, y, hxy⟩ : ∃ x y, lab.getD n Pt.nan = (some x, some y) := by
      rcases hl : lab.getD n Pt.nan with ⟨a, b⟩
      rw [hl] at hn
      cases a <;> cases b <;> simp [Pt.full] at hn
      exact ⟨_, _, rfl⟩
    have := prepPts_value (cfg.eff cast f) cfg.scale lab n x y hxy
    simp only [P]
    rw [this]
    split <;> rfl
  have hPex : ∃ p ∈ P, p.full = true := by
    obtain ⟨p, hp, hf⟩ := hex
    obtain ⟨n, hn, rfl⟩ := List.getElem_of_mem hp
    have h1 : lab.getD n Pt.nan = lab[n] := by simp [List.getD_eq_getElem?_getD, hn]
    have h2 := hfullP n (by rw [h1]; exact hf)
    have hnP : n < P.length := by simp only [P]; rw [prepPts_length]; exact hn
    refine ⟨P[n], List.getElem_mem hnP, ?_⟩
    simpa [List.getD_eq_getElem?_getD, hnP] using h2
  have hc : c.full = true := centroid_present cfg.anchor P hPex
  have hsub : ∀ a b : Pt R, a.full = true → b.full = true → (a.sub b).full = true := by
    intro a b ha hb
    obtain ⟨a1, a2⟩ := a
    obtain ⟨b1, b2⟩ := b
    cases a1 <;> cases a2 <;> cases b1 <;> cases b2 <;> simp_all [Pt.full, Pt.sub, o2]
  have hbb : ∀ (p : Pt R) (bh bw : Nat), p.full = true →
      ((centeredBbox cast p bh bw).getD 0 Pt.nan).full = true := by
    intro p bh bw hp
    obtain ⟨p1, p2⟩ := p
    cases p1 <;> cases p2 <;> simp_all [Pt.full, centeredBbox]
  have hq1 : q1.full = true := hbb c _ _ hc
  have hq2 : q2.full = true := hbb _ _ _ (hsub c q1 hc hq1)
  refine ⟨hq1, hq2, fun n hn => ?_⟩
  have hPn := hfullP n hn
  rw [hq]
  simp only [List.getD_eq_getElem?_getD, List.getElem?_map] at hPn ⊢
  cases hc2 : P[n]? with
  | none => rw [hc2] at hPn; simp [Pt.nan, Pt.full] at hPn
  | some p =>
    rw [hc2] at hPn
    simp only [Option.map_some, Option.getD_some] at hPn ⊢
    exact hsub _ q2 (hsub p q1 hPn hq1) hq2

/-! ## 3c. Composed statements: from the stored labels to `ds[i]` -/

/-- the `centroids` entry of a row: NaN for a row without any labelled coordinate (the padding
rows, in particular), a point for a row with a fully labelled node -/
theorem centroid_missing_iff (anchor : Option Nat) (e s : R) (row : List (Pt R)) :
    ((∀ p ∈ row, p = Pt.nan) → centroidOf anchor (prepPts e s row) = Pt.nan) ∧
    ((∃ p ∈ row, p.full = true) → (centroidOf anchor (prepPts e s row)).full = true) := by
  constructor
  · intro h
    have hrow : prepPts e s row = row := by
      unfold prepPts
      have h1 : ∀ t : R, row.map (Pt.scale t) = row := by
        intro t
        conv => rhs; rw [← List.map_id row]
        apply List.map_congr_left
        intro p hp
        rw [h p hp]; rfl
      split
      · exact h1 e
      · rw [h1 e, h1 s]
    rw [hrow]
    have hmid : bboxMid row = Pt.nan := by
      have h1 : midC (row.map (·.1)) = none := (centroid_none_iff _).mpr (by
        intro x hx; obtain ⟨p, hp, rfl⟩ := List.mem_map.mp hx; rw [h p hp]; rfl)
      have h2 : midC (row.map (·.2)) = none := (centroid_none_iff _).mpr (by
        intro x hx; obtain ⟨p, hp, rfl⟩ := List.mem_map.mp hx; rw [h p hp]; rfl)
      simp only [bboxMid, h1, h2]; rfl
    unfold centroidOf
    cases anchor with
    | none => exact hmid
    | some a =>
      have hg : row.getD a Pt.nan = Pt.nan := by
        rw [List.getD_eq_getElem?_getD]
        cases hc : row[a]? with
        | none => rfl
        | some p => simp only [Option.getD_some]; exact h p (List.mem_of_getElem? hc)
      simp only [hg]
      simp [Pt.missing, Pt.nan, hmid]
  · intro ⟨p, hp, hf⟩
    apply centroid_present
    obtain ⟨n, hn, rfl⟩ := List.getElem_of_mem hp
    obtain ⟨x, y, hxy⟩ : ∃ x y, row[n] = (some x, some y) := by
      rcases hl : row[n] with ⟨a, b⟩
      rw [hl] at hf
      cases a <;> cases b <;> simp [Pt.full] at hf
      exact ⟨_, _, rfl⟩
    have hv := prepPts_value e s row n x y (by simp [List.getD_eq_getElem?_getD, hn, hxy])
    have hnP : n < (prepPts e s row).length := by rw [prepPts_length]; exact hn
    refine ⟨(prepPts e s row)[n], List.getElem_mem hnP, ?_⟩
    have : (prepPts e s row)[n] = (prepPts e s row).getD n Pt.nan := by
      simp [List.getD_eq_getElem?_getD, hnP]
    rw [this, hv]
    split <;> rfl

/-- **ds_missing_iff_label** (bottom-up, single-instance, centroid classes), from the *stored*
labels to the returned sample: for the `i`-th sample (frame `fi`), `ds[i]` exists; its
`instances` tensor is, row by row, the `labelPts` (`Instance.numpy()`) of the kept — non-empty,
user-filtered — instances of that frame in order, scaled, followed by rows that are entirely NaN;
scaling keeps the NaN pattern entry by entry (so a label coordinate is NaN **iff** the sample
coordinate is); `num_instances` counts the kept rows; in the centroid class the `centroids` entry
is `centroidOf` of each such row (`centroid_missing_iff`: NaN on the padding rows, a point for
every row with a fully labelled node). -/
theorem ds_missing_iff_label (cfg : Cfg R) (cast : Nat → R) (fs : List (RawFrame R)) (i fi : Nat)
    (rf : RawFrame R) (hk : cfg.kind ≠ .centered)
    (hi : (lfIdxList cfg.userOnly (fs.map RawFrame.abs))[i]? = some fi) (hf : fs[fi]? = some rf) :
    ∃ d m pad, specSample cfg cast (fs.map RawFrame.abs) i = some (d, m) ∧
      (∀ r ∈ pad, ∀ p ∈ r, p = Pt.nan) ∧
      d.get Key.instances =
        (((((rf.abs.filtered cfg.userOnly).filter (fun i => !i.isEmpty)).map (·.pts)) ++ pad).map
          (prepPts (cfg.eff cast rf.abs) cfg.scale)).flatten ∧
      (∀ row, (prepPts (cfg.eff cast rf.abs) cfg.scale row).map nanPat = row.map nanPat) ∧
      m.numInstances = ((rf.abs.filtered cfg.userOnly).filter (fun i => !i.isEmpty)).length ∧
      (cfg.kind = .centroid → d.get Key.centroids =
        (((((rf.abs.filtered cfg.userOnly).filter (fun i => !i.isEmpty)).map (·.pts)) ++ pad).map
          (prepPts (cfg.eff cast rf.abs) cfg.scale)).map (centroidOf cfg.anchor)) := by
  have hs : specCache cfg cast (fs.map RawFrame.abs) = (lfIdxList cfg.userOnly (fs.map RawFrame.abs)).map
      (fun i => (((fs.map RawFrame.abs)[i]?).map fun f =>
        specFrameCached cfg cast (cfg.maxInst (fs.map RawFrame.abs)) f).getD noEntry) := by
    unfold specCache; cases hk2 : cfg.kind <;> simp_all
  have hst : cfg.steps cast = [] := by
    unfold Cfg.steps; cases hk2 : cfg.kind <;> simp_all
  obtain ⟨pad, hp1, hp2, hp3⟩ := padding_rows_missing cfg.userOnly (cfg.maxInst (fs.map RawFrame.abs)) rf.abs
  refine ⟨(specFrameCached cfg cast (cfg.maxInst (fs.map RawFrame.abs)) rf.abs).1,
    (specFrameCached cfg cast (cfg.maxInst (fs.map RawFrame.abs)) rf.abs).2, pad, ?_, hp2, ?_,
    fun row => prepPts_pattern _ _ row, ?_, ?_⟩
  · unfold specSample
    rw [hs, List.getElem?_map, hi]
    simp [List.getElem?_map, hf, hst, applySteps]
  · rw [(present_stays_present cfg cast _ rf.abs).1, hp1]
  · rw [← hp3]
    unfold specFrameCached
    cases cfg.kind <;> rfl
  · intro hc
    rw [← hp1]
    unfold specFrameCached
    simp [hc, DictV.get, assocGet]

/-! ## 4. `__getitem__`: only allocation; deterministic -/

omit [Add R] [Sub R] [Mul R] [Div R] [LT R] [DecidableLT R] [OfNat R 0] [OfNat R 1] [OfNat R 2] [DecidableEq R] in
/-- a read only allocates — for **any** rebinding steps (augmentation included) -/
theorem getitem_frame (steps : List (Step R)) (ds : DS R) (i : Nat) :
    Ext ds.heap (getItem steps ds i).1.heap ∧ (getItem steps ds i).1.cache = ds.cache :=
  ⟨getItem_frame steps ds i, getItem_cache steps ds i⟩

omit [Add R] [Sub R] [Mul R] [Div R] [LT R] [DecidableLT R] [OfNat R 0] [OfNat R 1] [OfNat R 2] [DecidableEq R] in
/-- the returned sample is the pure rebinding of the cached values (`none` = `KeyError`) -/
theorem getitem_value (steps : List (Step R)) (ds : DS R) (W : WFds ds) (i : Nat) :
    (getItem steps ds i).2 =
      (ds.cache[i]?).map fun e => (applySteps steps (ds.heap.readD e.1), e.2) :=
  getItem_value steps ds W i

omit [Add R] [Sub R] [Mul R] [Div R] [LT R] [DecidableLT R] [OfNat R 0] [OfNat R 1] [OfNat R 2] [DecidableEq R] in
/-- **cache unchanged**: after any call sequence the cache list is the same, every cached dict
and every tensor that existed is unchanged, and every cached sample reads the same values -/
theorem cache_unchanged (steps : List (Step R)) (ds : DS R) (W : WFds ds) (js : List Nat) :
    (runGets steps ds js).cache = ds.cache ∧ Ext ds.heap (runGets steps ds js).heap ∧
    WFds (runGets steps ds js) ∧
    ∀ e ∈ ds.cache, (runGets steps ds js).heap.readD e.1 = ds.heap.readD e.1 := by
  obtain ⟨F, c⟩ := runGets_inv steps js ds
  refine ⟨c, F, ?_, fun e he => readD_frame F e.1 (W e he).1 (W e he).2⟩
  intro e he
  rw [c] at he
  exact ⟨Nat.lt_of_lt_of_le (W e he).1 F.2.1, WFd_frame F e.1 (W e he).1 (W e he).2⟩

omit [Add R] [Sub R] [Mul R] [Div R] [LT R] [DecidableLT R] [OfNat R 0] [OfNat R 1] [OfNat R 2] [DecidableEq R] in
/-- **getitem_deterministic**: with fixed steps (augmentation off) `ds[i]` after any sequence of
reads equals `ds[i]` on the fresh dataset -/
theorem getitem_deterministic (steps : List (Step R)) (ds : DS R) (W : WFds ds) (js : List Nat)
    (i : Nat) : (getItem steps (runGets steps ds js) i).2 = (getItem steps ds i).2 := by
  obtain ⟨c, _, W', hr⟩ := cache_unchanged steps ds W js
  rw [getItem_value steps _ W' i, getItem_value steps ds W i, c]
  cases hc : ds.cache[i]? with
  | none => rfl
  | some e => simp only [Option.map_some]; rw [hr e (List.mem_of_getElem? hc)]

/-- **Any read of any built dataset returns the specified sample.**  The two hypotheses are the
facts about `build` that are *checked by the driver on every explored case* rather than proved
(`spec` flag): the built state is well-formed and caches exactly `specCache`. -/
theorem getitem_eq_spec (cfg : Cfg R) (cast : Nat → R) (fs : List (Frame R)) (ds : DS R)
    (W : WFds ds)
    (hb : ds.cache.map (fun e => (ds.heap.readD e.1, e.2)) = specCache cfg cast fs)
    (js : List Nat) (i : Nat) :
    (getItem (cfg.steps cast) (runGets (cfg.steps cast) ds js) i).2 = specSample cfg cast fs i := by
  rw [getitem_deterministic _ ds W js i, getItem_value _ ds W i]
  unfold specSample
  rw [← hb, List.getElem?_map]
  cases ds.cache[i]? <;> rfl

/-- **`build` refines the specification** (both hypotheses of `getitem_eq_spec`, now proved):
for labels over one skeleton (`Uniform fs n`) and an anchor that is a node of it, the state
built by `__init__`/`_fill_cache` (repaired `generate_centroids`) is well-formed and its cache
reads exactly `specCache`. -/
theorem build_refines_spec (cfg : Cfg R) (cast : Nat → R) (fs : List (Frame R)) (n : Nat)
    (hu : Uniform fs n) (ha : ∀ a, cfg.anchor = some a → a < n) :
    WFds (build .repaired cfg cast fs) ∧
    (build .repaired cfg cast fs).cache.map
        (fun e => ((build .repaired cfg cast fs).heap.readD e.1, e.2)) = specCache cfg cast fs :=
  build_spec cfg cast fs n hu ha

/-- **Unconditional form**: whatever was read before, `ds[i]` of a built dataset is
`specSample` — a function of the labels, the configuration and the index only (`none` =
`KeyError`). -/
theorem getitem_eq_spec_build (cfg : Cfg R) (cast : Nat → R) (fs : List (Frame R)) (n : Nat)
    (hu : Uniform fs n) (ha : ∀ a, cfg.anchor = some a → a < n) (js : List Nat) (i : Nat) :
    (getItem (cfg.steps cast) (runGets (cfg.steps cast) (build .repaired cfg cast fs) js) i).2
      = specSample cfg cast fs i := by
  obtain ⟨W, hb⟩ := build_spec cfg cast fs n hu ha
  exact getitem_eq_spec cfg cast fs _ W hb js i

/-- the hypotheses are satisfiable: a frame with a complete and an anchorless two-node instance -/
example (x y : R) : Uniform [(⟨0, 0, 8, 8, [⟨.user, [(some x, some y), (none, none)], false⟩,
    ⟨.predicted, [(none, none), (some x, some y)], false⟩]⟩ : Frame R)] 2 ∧ ∀ a, some 1 = some a → a < 2 := by
  refine ⟨?_, fun a h => by cases h; decide⟩
  intro f hf i hi
  simp only [List.mem_singleton] at hf
  subst hf
  simp only [List.mem_cons, List.not_mem_nil, or_false] at hi
  rcases hi with rfl | rfl <;> rfl

/-- length of the built cache = `specLen` -/
theorem build_len (cfg : Cfg R) (cast : Nat → R) (fs : List (Frame R)) (n : Nat)
    (hu : Uniform fs n) (ha : ∀ a, cfg.anchor = some a → a < n) :
    (build .repaired cfg cast fs).cache.length = specLen cfg fs := by
  have := congrArg List.length (build_spec cfg cast fs n hu ha).2
  simp only [DS.read, List.length_map] at this
  rw [this]
  unfold specCache specLen
  cases cfg.kind <;> simp

/-- the invariant is satisfiable by a non-trivial state: one cached centered-instance sample -/
example : WFds (⟨⟨[[(some (1 : Int), some 2)], [(some 3, some 4)]],
    [[(Key.instance, ⟨0, [0]⟩), (Key.centroid, ⟨1, [0]⟩)]]⟩, [(0, ⟨1, 0, 0, 8, 8⟩)]⟩ : DS Int) := by
  intro e he
  simp only [List.mem_singleton] at he
  subst he
  refine ⟨by decide, ?_⟩
  intro r hr
  simp [List.getD] at hr
  rcases hr with rfl | rfl <;> decide

/-- Without the `.copy()` (`sample = self.cache[index]`) the statement is false: rebinding a key
of the *cached* dict makes the second read of the same index start from the first read's result
(here the step appends the tensor to itself; in the code the instance would be re-centred twice). -/
theorem nocopy_counterexample :
    let ds : DS Nat := ⟨⟨[[(some 20, some 20)]], [[(Key.instance, ⟨0, [0]⟩)]]⟩, [(0, ⟨1, 0, 0, 8, 8⟩)]⟩
    let steps : List (Step Nat) := [(Key.instance, fun d => d.get Key.instance ++ d.get Key.instance)]
    let inst := fun (r : Option (DictV Nat × SMeta)) => r.map (fun s => (s.1.get Key.instance).length)
    inst (getItemNoCopy steps ds 0).2 = some 2 ∧
    inst (getItemNoCopy steps (getItemNoCopy steps ds 0).1 0).2 = some 4 ∧
    inst (getItem steps ds 0).2 = some 2 ∧
    inst (getItem steps (getItem steps ds 0).1 0).2 = some 2 := by
  intro ds steps inst
  decide

/-! ## 5. Length -/

omit [Add R] [Sub R] [Mul R] [Div R] [LT R] [DecidableLT R] [OfNat R 0] [OfNat R 1] [OfNat R 2] [DecidableEq R] in
/-- **len_eq_nonempty** (centered-instance class): one sample per non-empty instance of the
(user-filtered) frames -/
theorem len_eq_nonempty (cfg : Cfg R) (fs : List (Frame R)) (hk : cfg.kind = .centered) :
    specLen cfg fs = (fs.map fun f => (f.filtered cfg.userOnly).countP (fun i => !i.isEmpty)).sum := by
  simp only [specLen, hk]
  exact instanceIdxList_length _ _

omit [Add R] [Sub R] [Mul R] [Div R] [LT R] [DecidableLT R] [OfNat R 0] [OfNat R 1] [OfNat R 2] [DecidableEq R] in
/-- frame-based classes: one sample per frame that has a non-empty instance -/
theorem len_frames_eq_nonempty (cfg : Cfg R) (fs : List (Frame R)) (hk : cfg.kind ≠ .centered) :
    specLen cfg fs = fs.countP (fun f => f.hasNonEmpty cfg.userOnly) := by
  unfold specLen
  cases h : cfg.kind <;> simp_all [lfIdxList_length]

omit [Add R] [Sub R] [Mul R] [Div R] [LT R] [DecidableLT R] [OfNat R 0] [OfNat R 1] [OfNat R 2] [DecidableEq R] in
/-- the user-instance filter is idempotent (`process_lf` applies it a second time) -/
theorem filtered_idem (uo : Bool) (f : Frame R) :
    Frame.filtered uo { f with insts := f.filtered uo } = f.filtered uo :=
  SleapVerif.Datasets.filtered_idem uo f

omit [Add R] [Sub R] [Mul R] [Div R] [LT R] [DecidableLT R] [OfNat R 0] [OfNat R 1] [OfNat R 2] [DecidableEq R] in
/-- **len_eq_labelled**: for well-flagged stored labels the dataset length is the number of
(user-filtered) instances that have a labelled keypoint (centered class), resp. of frames
holding such an instance (other classes) — "non-empty" is no longer the `is_empty` flag but
"some coordinate of `labelPts` is a number". -/
theorem len_eq_labelled (cfg : Cfg R) (fs : List (RawFrame R))
    (hw : ∀ f ∈ fs, ∀ r ∈ f.insts, r.WellFlagged) :
    (cfg.kind = .centered → specLen cfg (fs.map RawFrame.abs) =
      ((fs.map RawFrame.abs).map fun f =>
        (f.filtered cfg.userOnly).countP (fun i => i.pts.any (fun p => !p.invisible))).sum) ∧
    (cfg.kind ≠ .centered → specLen cfg (fs.map RawFrame.abs) =
      (fs.map RawFrame.abs).countP (fun f =>
        (f.filtered cfg.userOnly).any (fun i => i.pts.any (fun p => !p.invisible)))) := by
  have hemp : ∀ f ∈ fs.map RawFrame.abs, ∀ i ∈ f.filtered cfg.userOnly,
      (!i.isEmpty) = i.pts.any (fun p => !p.invisible) := by
    intro f hf i hi
    obtain ⟨rf, hrf, rfl⟩ := List.mem_map.mp hf
    have hi' := mem_filtered cfg.userOnly rf.abs i hi
    simp only [RawFrame.abs] at hi'
    obtain ⟨r, hr, rfl⟩ := List.mem_map.mp hi'
    rw [empty_iff_all_missing r (hw rf hrf r hr)]
    simp only [RawInst.abs]
    induction r.labelPts with
    | nil => rfl
    | cons p ps ih => simp only [List.all_cons, List.any_cons, Bool.not_and, ih]
  constructor
  · intro hk
    rw [len_eq_nonempty cfg _ hk]
    congr 1
    apply List.map_congr_left
    intro f hf
    apply List.countP_congr
    intro i hi
    rw [hemp f hf i hi]
  · intro hk
    rw [len_frames_eq_nonempty cfg _ hk]
    apply List.countP_congr
    intro f hf
    unfold Frame.hasNonEmpty
    simp only [List.any_eq_true]
    constructor
    · intro ⟨i, hi, h⟩
      exact ⟨i, hi, List.any_eq_true.mp (by rw [← hemp f hf i hi]; exact h)⟩
    · intro ⟨i, hi, h⟩
      exact ⟨i, hi, by rw [hemp f hf i hi]; exact List.any_eq_true.mpr h⟩

/-! ## 5b. A dataset that writes its chunks serves its own samples -/

omit [Add R] [Sub R] [Mul R] [Div R] [LT R] [DecidableLT R] [OfNat R 0] [OfNat R 1] [OfNat R 2] [DecidableEq R] in
/-- **chunks_written_independent_of_directory**: after `_fill_cache` wrote the chunks, reading
index `i < len` returns this dataset's `i`-th sample whatever the directory held before (so two
histories "fresh directory" and "directory with another dataset's files" are indistinguishable on
the dataset's own indices); other files are untouched. -/
theorem chunks_written_independent_of_directory {α : Type} (dir dir' : ChunkDir α) (ss : List α) (i : Nat)
    (hi : i < ss.length) :
    readChunk (writeChunks dir ss) i = ss[i]? ∧
    readChunk (writeChunks dir ss) i = readChunk (writeChunks dir' ss) i ∧
    (∀ j, ss.length ≤ j → readChunk (writeChunks dir ss) j = dir j) := by
  have h : ss[i]? = some ss[i] := List.getElem?_eq_getElem hi
  refine ⟨by simp [readChunk, writeChunks, h], by simp [readChunk, writeChunks, h], fun j hj => ?_⟩
  simp [readChunk, writeChunks, List.getElem?_eq_none hj]

/-- the "keep existing files" writer is not: it serves the earlier dataset's sample -/
theorem chunks_keep_counterexample :
    readChunk (writeChunksKeep (fun _ => some "sample of the earlier dataset") ["own sample"]) 0
      ≠ some "own sample" := by
  decide

/-! ## 5c. Provenance; the config's augmentation flag -/

/-- **sample_provenance**: the `i`-th sample is made from the `i`-th entry of the index list and
carries *that* labelled frame's `frame_idx`, `video_idx` (the position of the frame's own video
in `labels.videos`) and size, next to that frame's keypoints — so `(video_idx, frame_idx)` of a
sample locates the labelled frame its keypoints come from.  With `getitem_eq_spec_build` this is
what `ds[i]` returns after any read history. -/
theorem sample_provenance (cfg : Cfg R) (cast : Nat → R) (fs : List (Frame R)) (i : Nat) :
    (cfg.kind = .centered → ∀ ij f, (instanceIdxList cfg.userOnly fs)[i]? = some ij → fs[ij.1]? = some f →
      ∃ m, specSample cfg cast fs i =
          some (applySteps (cfg.steps cast) (specCenteredCached cfg cast f ij.2).1, m) ∧
        m.frameIdx = f.frameIdx ∧ m.videoIdx = f.videoIdx ∧ m.H = f.H ∧ m.W = f.W) ∧
    (cfg.kind ≠ .centered → ∀ fi f, (lfIdxList cfg.userOnly fs)[i]? = some fi → fs[fi]? = some f →
      ∃ m, specSample cfg cast fs i =
          some (applySteps (cfg.steps cast) (specFrameCached cfg cast (cfg.maxInst fs) f).1, m) ∧
        m.frameIdx = f.frameIdx ∧ m.videoIdx = f.videoIdx ∧ m.H = f.H ∧ m.W = f.W) := by
  constructor
  · intro hk ij f hi hf
    refine ⟨(specCenteredCached cfg cast f ij.2).2, ?_, rfl, rfl, rfl, rfl⟩
    unfold specSample specCache
    simp [hk, List.getElem?_map, hi, hf]
  · intro hk fi f hi hf
    have hs : specCache cfg cast fs = (lfIdxList cfg.userOnly fs).map
        (fun i => ((fs[i]?).map fun f => specFrameCached cfg cast (cfg.maxInst fs) f).getD noEntry) := by
      unfold specCache; cases hk2 : cfg.kind <;> simp_all
    have hm : ∀ x, (specFrameCached cfg cast (cfg.maxInst fs) f).2 = x →
        x.frameIdx = f.frameIdx ∧ x.videoIdx = f.videoIdx ∧ x.H = f.H ∧ x.W = f.W := by
      intro x hx
      subst hx
      unfold specFrameCached
      cases cfg.kind <;> exact ⟨rfl, rfl, rfl, rfl⟩
    refine ⟨(specFrameCached cfg cast (cfg.maxInst fs) f).2, ?_, hm _ rfl⟩
    unfold specSample
    rw [hs, List.getElem?_map, hi]
    simp [hf]

/-- **config_flag_irrelevant**: `data_config.use_augmentations_train` is not an input of the
dataset: the rebinding steps (augmentation included), the specified sample, the length and the
built state are the same whatever the flag says — augmentation is switched by the constructor
argument `apply_aug` alone (with `apply_aug = false` no augmentation step runs, whatever `aug`). -/
theorem config_flag_irrelevant (cfg : Cfg R) (cast : Nat → R) (b : Bool) (aug : List (Step R))
    (fs : List (Frame R)) (i : Nat) :
    ({ cfg with cfgAugFlag := b }).stepsAug cast aug = cfg.stepsAug cast aug ∧
    specSample { cfg with cfgAugFlag := b } cast fs i = specSample cfg cast fs i ∧
    specLen { cfg with cfgAugFlag := b } fs = specLen cfg fs ∧
    build .repaired { cfg with cfgAugFlag := b } cast fs = build .repaired cfg cast fs ∧
    (cfg.applyAug = false → cfg.stepsAug cast aug = cfg.steps cast) := by
  refine ⟨rfl, rfl, rfl, rfl, fun h => ?_⟩
  simp [Cfg.stepsAug, h]

/-! ## 6. A labelled keypoint keeps its confidence-map peak whatever the other animals lack

Over any linearly ordered `S` and any kernel (C01 owns the Gaussian: `0 < cm ≤ 1`, `= 1` iff the
grid point is the keypoint).  The reduction is `maximum` over instances of maps in which a
missing keypoint has **already** become `0` — so one animal's missing node `k` cannot erase
another animal's node `k`. -/
section Order
variable {S : Type} [LinearOrder S] [OfNat S 0]

/-- **present_multi_channel_nonzero**: if row `r < num_instances` has node `k` labelled at
`(x, y)`, channel `k` of the multi-instance maps is at least that keypoint's own kernel value at
every grid point — whatever the other rows contain (missing nodes included).  Hence it is `> 0`
wherever the kernel is, and it equals the kernel's top value `t` (1 for the Gaussian) at a grid
point where the kernel attains it (the keypoint itself when it lies on the grid). -/
theorem present_multi_channel_nonzero (kernel : S → S → S → S → S) (rows : List (List (Pt S)))
    (n k r : Nat) (row : List (Pt S)) (x y : S) (hr : r < n) (hrow : rows[r]? = some row)
    (hk : row.getD k Pt.nan = (some x, some y)) (gx gy : S) :
    kernel x y gx gy ≤ multiChannel kernel rows n k gx gy ∧
    (0 < kernel x y gx gy → 0 < multiChannel kernel rows n k gx gy) ∧
    (∀ t, 0 ≤ t → (∀ a b c d, kernel a b c d ≤ t) → kernel x y gx gy = t →
      multiChannel kernel rows n k gx gy = t) := by
  have hmem := mem_channelKps rows n k r row hr hrow
  have hle : kernel x y gx gy ≤ multiChannel kernel rows n k gx gy := by
    have := cmCell_le_multi kernel (channelKps rows n k) _ hmem gx gy
    rw [hk] at this
    exact this
  refine ⟨hle, fun h => lt_of_lt_of_le h hle, fun t h0 hkt hat => ?_⟩
  exact le_antisymm (multi_le kernel _ gx gy t h0 hkt) (hat ▸ hle)

/-- the same for the centroid maps (one channel, one "node" per animal): a padded / missing
centroid never hides a present one -/
theorem present_centroid_channel_nonzero (kernel : S → S → S → S → S) (cens : List (Pt S))
    (n r : Nat) (x y : S) (hr : r < n) (hc : cens[r]? = some (some x, some y)) (gx gy : S) :
    kernel x y gx gy ≤ centroidChannel kernel cens n gx gy ∧
    (0 < kernel x y gx gy → 0 < centroidChannel kernel cens n gx gy) := by
  have hmem : ((some x, some y) : Pt S) ∈ cens.take n := by
    have : (cens.take n)[r]? = some (some x, some y) := by rw [List.getElem?_take]; simp [hr, hc]
    exact List.mem_of_getElem? this
  have hle := cmCell_le_multi kernel (cens.take n) _ hmem gx gy
  exact ⟨hle, fun h => lt_of_lt_of_le h hle⟩

/-- The "vectorised" reduction of seed C11-r3m1 (`nan_to_num(amax(…))`: NaN propagates through the
maximum, then becomes 0) is a different function: with rows `[missing]` and `[(x, y)]` it gives 0
where the code as it is gives the keypoint's kernel value. -/
example (kernel : S → S → S → S → S) (x y gx gy : S) (hpos : 0 < kernel x y gx gy) :
    0 < multiChannel kernel [[(none, none)], [(some x, some y)]] 2 0 gx gy :=
  (present_multi_channel_nonzero kernel _ 2 0 1 [(some x, some y)] x y (by decide) rfl rfl gx gy).2.1 hpos

end Order

end SleapVerif.C11
