import SleapVerif.Lemmas.TrackerIdentity
/-!
# C10 — well-separated animals keep their identity

Same model as C09 (`SleapVerif.Tracker`, repaired step functions).  Ground truth enters as the
list `ident` of **identity edges** of a frame: `(i, t) ∈ ident` iff detection `i` is the animal that
owns track `t`.  `Separated score cands m cur ident` is the separation hypothesis of the property
(each detection scores strictly higher against every stored feature of its own track than against
any stored feature of another track, and than any other detection against its own track);
`hcov` is the class condition "a newcomer only appears while all known animals are visible"
(every (detection, track) pair shares its detection or its track with an identity edge);
`hns` is "absences are shorter than the window" (every known track still has a candidate).

`IdentityStep thr m cur ident ids` is the conclusion for one frame: every detection of a known
animal gets exactly its own track, every newcomer above the threshold gets an id `≥ m`
(`m` = number of tracks ever created, so nobody has held it).

What is proved: the whole chain for **one call of `track`** from feature-level separation to the
returned ids, for both candidate classes, both reductions, and the greedy matcher; the Hungarian
matcher under the solver contract `LsaPicksIdentity` (optimum uniqueness under dominance, validated
against scipy per call by the harness, not proved).  What is *not* proved is the lifting to whole
histories from input-only separation: that needs the purity invariant "all stored features of
track `t` belong to one animal", which is what turns geometric separation of the animals into
`Separated` relative to the window contents; the harness measures it on the real queue each frame.
-/
namespace SleapVerif.C10
open SleapVerif.Tracker

/-
Full statement `identity_preserved` (NOT proved; only the `_partial` one-step theorems below are):

  for a ground-truth labelling `who : φ → Nat`, a score that separates animals globally
  (`who a = who f → who f' ≠ who a → score a f' < score a f`, and
   `who a = who f₁ = who f₂ → who b ≠ who a → score b f₂ < score a f₁`), and a history `frames` in
  which the animals of a frame are distinct, a new animal only appears in a frame containing all
  animals seen so far, and no animal is absent for `window` or more consecutive pushed frames:
  if `run (FW.step cfg ext score) FW.empty frames = .ok (s', outs)` then there is
  `owner : Nat → Nat`, injective on `[0, s'.tracks.length)`, with
  `outs[k][i] = some t → who frames[k][i].1 = owner t` for every frame `k` and detection `i`
  (and every detection above the threshold has `some` track, by C09).

The missing step is the purity invariant of the window (see the module docstring and notes/C10.md).
-/

section reductions
variable {R : Type} [Field R] [LinearOrder R] [IsStrictOrderedRing R]

/-- `np.nanmean` and `np.nanmax` over non-empty windows preserve strict dominance -/
theorem reduction_preserves_dominance (rd : Reduction) (L1 L2 : List R) (h1 : L1 ≠ [])
    (h2 : L2 ≠ []) (h : ∀ x ∈ L1, ∀ y ∈ L2, y < x) :
    ∃ a b, reduceP rd L1 = some a ∧ reduceP rd L2 = some b ∧ b < a :=
  reduceP_dominance rd L1 L2 h1 h2 h

example : ∃ a b, reduceP .mean [(3 : Rat), 5] = some a ∧ reduceP .mean [(1 : Rat), 2, 2] = some b ∧ b < a :=
  reduction_preserves_dominance .mean _ _ (by simp) (by simp) (by decide)

/-- feature-level separation gives a rectangular, finite cost matrix dominated by `ident` -/
theorem separated_gives_dominant {φ : Type} (rd : Reduction) (score : φ → φ → R)
    (cands : Nat → List φ) (m : Nat) (cur : List φ) (ident : List (Nat × Nat))
    (hb : ∀ e ∈ ident, e.1 < cur.length ∧ e.2 < m) (hns : ∀ t, t < m → cands t ≠ [])
    (hsep : Separated score cands m cur ident) :
    (∀ row ∈ toCost (scoreMatrixP rd score cands m cur), row.length = m) ∧
    (∀ row ∈ toCost (scoreMatrixP rd score cands m cur), ∀ o ∈ row, o ≠ none) ∧
    Dominant (toCost (scoreMatrixP rd score cands m cur)) m ident :=
  score_matrix_dominant rd score cands m cur ident hb hns hsep

end reductions

/-! ## greedy picks the identity -/

/-- on an ascending edge list an edge greedy rejects is blocked by a chosen edge that costs no more -/
theorem greedy_rejects_only_for_cheaper {C : Type} [Preorder C] (cost : Nat × Nat → C)
    (l : List (Nat × Nat)) (hs : l.Pairwise (fun a b => cost a ≤ cost b)) :
    ∀ e ∈ l, e ∈ greedy l ∨ ∃ g ∈ greedy l, (g.1 = e.1 ∨ g.2 = e.2) ∧ cost g ≤ cost e :=
  greedy_sorted_blocks cost l hs

/-- under strict row+column dominance greedy chooses every identity edge, and nothing else when
    every edge touches an identity edge -/
theorem greedy_picks_identity {C : Type} [Preorder C] (cost : Nat × Nat → C)
    (l ident : List (Nat × Nat)) (hs : l.Pairwise (fun a b => cost a ≤ cost b))
    (hsub : ∀ e ∈ ident, e ∈ l)
    (hdom : ∀ e ∈ ident, ∀ g ∈ l, g ≠ e → (g.1 = e.1 ∨ g.2 = e.2) → cost e < cost g) :
    (∀ e ∈ ident, e ∈ greedy l) ∧
    ((∀ g ∈ l, ∃ e ∈ ident, e.1 = g.1 ∨ e.2 = g.2) → ∀ g ∈ greedy l, g ∈ ident) :=
  Tracker.greedy_picks_identity cost l ident hs hsub hdom

/-- 2 detections × 2 tracks, identity on the diagonal, ascending order as numpy would return it -/
example : greedy [(0, 0), (1, 1), (0, 1), (1, 0)] = [(0, 0), (1, 1)] := by simp [greedy]

/-! ## one call of `track` -/

section steps
variable {R φ : Type} [Field R] [LinearOrder R] [IsStrictOrderedRing R]

omit [Field R] [IsStrictOrderedRing R] in
/-- the matching stage of the repaired code with the greedy matcher returns exactly `ident` -/
theorem greedy_stage_picks_identity {ext : Ext R} (hext : ExtOk ext) (hsort : ArgsortSorted ext)
    (m : Nat) (cost : List (List (Option R))) (hne : cost ≠ [])
    (hrect : ∀ row ∈ cost, row.length = m) (hsome : ∀ row ∈ cost, ∀ o ∈ row, o ≠ none)
    (ident : List (Nat × Nat)) (hb : ∀ e ∈ ident, e.1 < cost.length ∧ e.2 < m)
    (hdom : Dominant cost m ident)
    (hcov : ∀ g : Nat × Nat, g.1 < cost.length → g.2 < m → ∃ e ∈ ident, e.1 = g.1 ∨ e.2 = g.2) :
    ∃ ms, assignStage Fixes.repaired .greedy ext m cost = .ok ms ∧ ∀ p, p ∈ ms ↔ p ∈ ident :=
  greedy_stage_identity hext hsort m cost hne hrect hsome ident hb hdom hcov

/-- hypotheses of the property's class for one frame, relative to the window contents -/
structure FrameClass (score : φ → φ → R) (cands : Nat → List φ) (m : Nat) (cur : List (φ × R))
    (ident : List (Nat × Nat)) : Prop where
  nonempty : cur ≠ []
  bounds : ∀ e ∈ ident, e.1 < cur.length ∧ e.2 < m
  /-- absences shorter than the window -/
  noStale : ∀ t, t < m → cands t ≠ []
  separated : Separated score cands m (cur.map (·.1)) ident
  /-- a newcomer only while every known animal is visible -/
  cover : ∀ g : Nat × Nat, g.1 < cur.length → g.2 < m → ∃ e ∈ ident, e.1 = g.1 ∨ e.2 = g.2

/-- shared core: the stage returns `ident` (as a valid match list) for either matcher -/
theorem stage_identity (cfg : Config R) (ext : Ext R) (hext : ExtOk ext)
    (hmatch : (cfg.matcher = .greedy ∧ ArgsortSorted ext) ∨
              (cfg.matcher = .hungarian ∧ LsaPicksIdentity ext))
    (score : φ → φ → R) (cands : Nat → List φ) (m : Nat) (hm : 0 < m) (cur : List (φ × R))
    (ident : List (Nat × Nat)) (hc : FrameClass score cands m cur ident) :
    ident ≠ [] ∧ ∃ ms, assignStage Fixes.repaired cfg.matcher ext m
        (toCost (scoreMatrixP cfg.red score cands m (cur.map (·.1)))) = .ok ms ∧
        MatchValid cur.length m ms ∧ ∀ p, p ∈ ms ↔ p ∈ ident := by
  have hlen : (toCost (scoreMatrixP cfg.red score cands m (cur.map (·.1)))).length = cur.length := by
    rw [toCost_length, scoreMatrixP_length]; simp
  have hcur : 0 < cur.length := List.length_pos_iff.2 hc.nonempty
  have hne : toCost (scoreMatrixP cfg.red score cands m (cur.map (·.1))) ≠ [] := by
    apply List.ne_nil_of_length_pos; rw [hlen]; exact hcur
  obtain ⟨hrect, hsome, hdom⟩ := score_matrix_dominant cfg.red score cands m (cur.map (·.1)) ident
    (by simpa using hc.bounds) hc.noStale hc.separated
  have hid : ident ≠ [] := by
    obtain ⟨e, he, _⟩ := hc.cover (0, 0) hcur hm
    exact List.ne_nil_of_mem he
  refine ⟨hid, ?_⟩
  obtain ⟨ms0, h0, hv0, _⟩ := assignStage_repaired hext Fixes.repaired rfl cfg.matcher m
    (toCost (scoreMatrixP cfg.red score cands m (cur.map (·.1))))
  rw [hlen] at hv0
  have hb' : ∀ e ∈ ident, e.1 < (toCost (scoreMatrixP cfg.red score cands m (cur.map (·.1)))).length
      ∧ e.2 < m := by rw [hlen]; exact hc.bounds
  have hcov' : ∀ g : Nat × Nat,
      g.1 < (toCost (scoreMatrixP cfg.red score cands m (cur.map (·.1)))).length → g.2 < m →
      ∃ e ∈ ident, e.1 = g.1 ∨ e.2 = g.2 := by rw [hlen]; exact hc.cover
  rcases hmatch with ⟨hg, hsort⟩ | ⟨hh, hpick⟩
  · obtain ⟨ms, h1, hset⟩ := greedy_stage_identity hext hsort m _ hne hrect hsome ident hb' hdom hcov'
    rw [hg] at h0 ⊢
    have e : ms = ms0 := by rw [h1] at h0; exact Except.ok.inj h0
    subst e
    exact ⟨ms, h1, hv0, hset⟩
  · obtain ⟨ms, h1, hset⟩ := hungarian_stage_identity hpick m _ hne hrect hsome ident hb' hdom hcov'
    rw [hh] at h0 ⊢
    have e : ms = ms0 := by rw [h1] at h0; exact Except.ok.inj h0
    subst e
    exact ⟨ms, h1, hv0, hset⟩

/-- **identity preserved, fixed window, greedy matcher** (one call of `track`; partial: see the
    module docstring for what is missing to lift it to histories) -/
theorem fw_identity_preserved_greedy_partial (cfg : Config R) (hfx : cfg.fx = Fixes.repaired)
    (hg : cfg.matcher = .greedy) (ext : Ext R) (hext : ExtOk ext) (hsort : ArgsortSorted ext)
    (score : φ → φ → R) (s : FW φ) (hs : s.Inv) (hq : s.queue ≠ []) (cur : List (φ × R))
    (ident : List (Nat × Nat)) (hc : FrameClass score s.cands s.tracks.length cur ident) :
    ∃ s' ids, FW.step cfg ext score s cur = .ok (s', ids) ∧
      IdentityStep cfg.thr s.tracks.length cur ident ids := by
  obtain ⟨t, ht, _⟩ := FW.cands_ne_nil s hs hq
  obtain ⟨hid, hstage⟩ := stage_identity cfg ext hext (Or.inl ⟨hg, hsort⟩) score s.cands
    s.tracks.length (by omega) cur ident hc
  exact FW.identity_step_of_stage cfg hfx ext score s hs hq cur ident hid hstage

/-- **identity preserved, local queues, greedy matcher** (the no-stale hypothesis of `FrameClass`
    is automatic here: `LQ.cands_ne_nil_all`) -/
theorem lq_identity_preserved_greedy_partial (cfg : Config R) (hfx : cfg.fx = Fixes.repaired)
    (hg : cfg.matcher = .greedy) (ext : Ext R) (hext : ExtOk ext) (hsort : ArgsortSorted ext)
    (score : φ → φ → R) (s : LQ φ) (hs : s.Inv) (hq : s.queues ≠ []) (cur : List (φ × R))
    (ident : List (Nat × Nat)) (hc : FrameClass score s.cands s.tracks.length cur ident) :
    ∃ s' ids, LQ.step cfg ext score s cur = .ok (s', ids) ∧
      IdentityStep cfg.thr s.tracks.length cur ident ids := by
  obtain ⟨t, ht, _⟩ := LQ.cands_ne_nil s hs hq
  obtain ⟨hid, hstage⟩ := stage_identity cfg ext hext (Or.inl ⟨hg, hsort⟩) score s.cands
    s.tracks.length (by omega) cur ident hc
  exact LQ.identity_step_of_stage cfg hfx ext score s hs hq cur ident hid hstage

/-- Hungarian matcher: the same conclusion with scipy's optimum-uniqueness as a hypothesis -/
theorem fw_identity_preserved_hungarian_partial (cfg : Config R) (hfx : cfg.fx = Fixes.repaired)
    (hh : cfg.matcher = .hungarian) (ext : Ext R) (hext : ExtOk ext) (hpick : LsaPicksIdentity ext)
    (score : φ → φ → R) (s : FW φ) (hs : s.Inv) (hq : s.queue ≠ []) (cur : List (φ × R))
    (ident : List (Nat × Nat)) (hc : FrameClass score s.cands s.tracks.length cur ident) :
    ∃ s' ids, FW.step cfg ext score s cur = .ok (s', ids) ∧
      IdentityStep cfg.thr s.tracks.length cur ident ids := by
  obtain ⟨t, ht, _⟩ := FW.cands_ne_nil s hs hq
  obtain ⟨hid, hstage⟩ := stage_identity cfg ext hext (Or.inr ⟨hh, hpick⟩) score s.cands
    s.tracks.length (by omega) cur ident hc
  exact FW.identity_step_of_stage cfg hfx ext score s hs hq cur ident hid hstage

theorem lq_identity_preserved_hungarian_partial (cfg : Config R) (hfx : cfg.fx = Fixes.repaired)
    (hh : cfg.matcher = .hungarian) (ext : Ext R) (hext : ExtOk ext) (hpick : LsaPicksIdentity ext)
    (score : φ → φ → R) (s : LQ φ) (hs : s.Inv) (hq : s.queues ≠ []) (cur : List (φ × R))
    (ident : List (Nat × Nat)) (hc : FrameClass score s.cands s.tracks.length cur ident) :
    ∃ s' ids, LQ.step cfg ext score s cur = .ok (s', ids) ∧
      IdentityStep cfg.thr s.tracks.length cur ident ids := by
  obtain ⟨t, ht, _⟩ := LQ.cands_ne_nil s hs hq
  obtain ⟨hid, hstage⟩ := stage_identity cfg ext hext (Or.inr ⟨hh, hpick⟩) score s.cands
    s.tracks.length (by omega) cur ident hc
  exact LQ.identity_step_of_stage cfg hfx ext score s hs hq cur ident hid hstage

/-- local queues never have a stale track -/
theorem lq_no_stale (s : LQ φ) (hs : s.Inv) : ∀ t, t < s.tracks.length → s.cands t ≠ [] :=
  LQ.cands_ne_nil_all s hs

end steps

/-! ## non-vacuity: a concrete frame of the class -/

/-- two tracked animals at 10 and 50, seen again at 11 and 51 in swapped order; score = −distance -/
example :
    let s : FW Int := ⟨[⟨[10, 50], [some 0, some 1]⟩], [0, 1]⟩
    let score : Int → Int → Rat := fun a b => -((Int.natAbs (a - b) : Nat) : Rat)
    FrameClass score s.cands 2 [((51 : Int), (1 : Rat)), (11, 1)] [(0, 1), (1, 0)] := by
  refine ⟨by simp, by decide, ?_, ⟨?_, ?_⟩, ?_⟩
  · intro t ht
    have : t = 0 ∨ t = 1 := by omega
    rcases this with h | h <;> subst h <;> decide
  · intro e he h t' ht' hne f hf f' hf'
    simp only [List.mem_cons, List.not_mem_nil, or_false] at he
    have : t' = 0 ∨ t' = 1 := by omega
    rcases he with h1 | h1 <;> subst h1 <;> rcases this with h2 | h2 <;> subst h2 <;>
      simp_all [FW.cands]
  · intro e he h i' hi' hne f hf f' hf'
    simp only [List.mem_cons, List.not_mem_nil, or_false] at he
    simp only [List.length_map, List.length_cons, List.length_nil] at hi'
    have : i' = 0 ∨ i' = 1 := by omega
    rcases he with h1 | h1 <;> subst h1 <;> rcases this with h2 | h2 <;> subst h2 <;>
      simp_all [FW.cands]
  · intro g h1 h2
    simp only [List.length_cons, List.length_nil] at h1
    have : g.1 = 0 ∨ g.1 = 1 := by omega
    rcases this with h | h
    · exact ⟨(0, 1), by simp, Or.inl h.symm⟩
    · exact ⟨(1, 0), by simp, Or.inl h.symm⟩

end SleapVerif.C10
