import SleapVerif.Lemmas.TrackerHistory
import SleapVerif.Lemmas.TrackFeatures
import SleapVerif.Lemmas.TrackerHungarian
import Mathlib.Data.List.Sort
/-!
# C10 — well-separated animals keep their identity

Same model as C09 (`SleapVerif.Tracker`, repaired step functions).  Ground truth is a labelling
`who : φ → Nat` (animal of every feature).  The class of the property is `SceneFrame` for every frame,
relative to the window the tracker holds when the frame arrives (`FW.InClass` / `LQ.InClass`, defined
along the run of the deterministic model): one detection per animal, all scores above the new-track
threshold, absences shorter than the window (`noStale`), a newcomer only while every animal in the
window is visible, and separation (a detection scores strictly higher against every stored feature of
its own animal than against any stored feature of another animal, and than any other detection does
against them).

**Headline** (`identity_preserved_fw_*`, `identity_preserved_lq_*`, `identity_constant`): for every
history of the class, from the fresh tracker, `track` never raises and there is an owner map
`track id ↦ animal`, injective on all tracks ever created, such that on every frame every detection
has a track and that track's owner is the detection's animal.  Hence the same animal has the same
track on every frame where it is detected, two animals never share a track over the whole history,
and a newcomer's id was never held by anybody.  Proved outright for the greedy matcher (numpy's
argsort contract `ArgsortSorted` is validated per call); for the Hungarian matcher under scipy's
documented contract (`ExtOk` + `LsaOptimal`, trusted base, validated by brute force per recorded call):
`hungarian_picks_identity` proves optimum uniqueness under dominance, so `identity_preserved_*_hungarian`
carry no further hypothesis (the old `…_hungarian_partial` forms with `LsaPicksIdentity` are kept).

Proof: invariant = C09 invariant + window purity (`FW.Pure` / `LQ.Pure`: every stored feature of
track `t` belongs to `owner t`) + injectivity of `owner`; `window_purity_step_*` shows one call of
`track` preserves it and extends the owner map; purity turns `SceneFrame` into the per-frame
`FrameClass` of the one-step theorems (`fw_identity_step_*`), whose chain is
separation ⇒ dominant cost matrix (`reduction_preserves_dominance`, `separated_gives_dominant`)
⇒ the matcher returns exactly the identity edges (`greedy_picks_identity`) ⇒ ids (`IdentityStep`).
-/
namespace SleapVerif.C10
open SleapVerif.Tracker

section reductions
variable {R : Type} [Field R] [LinearOrder R] [IsStrictOrderedRing R]

/-- `np.nanmean` and `np.nanmax` over non-empty windows preserve strict dominance -/
theorem reduction_preserves_dominance (rd : Reduction) (L1 L2 : List R) (h1 : L1 ≠ [])
    (h2 : L2 ≠ []) (h : ∀ x ∈ L1, ∀ y ∈ L2, y < x) :
    ∃ a b, reduceP rd L1 = some a ∧ reduceP rd L2 = some b ∧ b < a :=
  reduceP_dominance rd L1 L2 h1 h2 h

example : ∃ a b, reduceP .mean [(3 : Rat), 5] = some a ∧ reduceP .mean [(1 : Rat), 2, 2] = some b ∧ b < a :=
  reduction_preserves_dominance .mean _ _ (by simp) (by simp) (by decide)

/-- feature-level separation gives a rectangular, finite cost matrix dominated by `ident` -/
theorem separated_gives_dominant {φ : Type} (rd : Reduction) (score : φ → φ → R)
    (cands : Nat → List φ) (m : Nat) (cur : List φ) (ident : List (Nat × Nat))
    (hb : ∀ e ∈ ident, e.1 < cur.length ∧ e.2 < m) (hns : ∀ t, t < m → cands t ≠ [])
    (hsep : Separated score cands m cur ident) :
    (∀ row ∈ toCost (scoreMatrixP rd score cands m cur), row.length = m) ∧
    (∀ row ∈ toCost (scoreMatrixP rd score cands m cur), ∀ o ∈ row, o ≠ none) ∧
    Dominant (toCost (scoreMatrixP rd score cands m cur)) m ident :=
  score_matrix_dominant rd score cands m cur ident hb hns hsep

end reductions

/-! ## greedy picks the identity -/

/-- on an ascending edge list an edge greedy rejects is blocked by a chosen edge that costs no more -/
theorem greedy_rejects_only_for_cheaper {C : Type} [Preorder C] (cost : Nat × Nat → C)
    (l : List (Nat × Nat)) (hs : l.Pairwise (fun a b => cost a ≤ cost b)) :
    ∀ e ∈ l, e ∈ greedy l ∨ ∃ g ∈ greedy l, (g.1 = e.1 ∨ g.2 = e.2) ∧ cost g ≤ cost e :=
  greedy_sorted_blocks cost l hs

/-- under strict row+column dominance greedy chooses every identity edge, and nothing else when
    every edge touches an identity edge -/
theorem greedy_picks_identity {C : Type} [Preorder C] (cost : Nat × Nat → C)
    (l ident : List (Nat × Nat)) (hs : l.Pairwise (fun a b => cost a ≤ cost b))
    (hsub : ∀ e ∈ ident, e ∈ l)
    (hdom : ∀ e ∈ ident, ∀ g ∈ l, g ≠ e → (g.1 = e.1 ∨ g.2 = e.2) → cost e < cost g) :
    (∀ e ∈ ident, e ∈ greedy l) ∧
    ((∀ g ∈ l, ∃ e ∈ ident, e.1 = g.1 ∨ e.2 = g.2) → ∀ g ∈ greedy l, g ∈ ident) :=
  Tracker.greedy_picks_identity cost l ident hs hsub hdom

/-- 2 detections × 2 tracks, identity on the diagonal, ascending order as numpy would return it -/
example : greedy [(0, 0), (1, 1), (0, 1), (1, 0)] = [(0, 0), (1, 1)] := by simp [greedy]

/-! ## one call of `track` -/

section steps
variable {R φ : Type} [Field R] [LinearOrder R] [IsStrictOrderedRing R]

omit [Field R] [IsStrictOrderedRing R] in
/-- the matching stage of the repaired code with the greedy matcher returns exactly `ident` -/
theorem greedy_stage_picks_identity {ext : Ext R} (hext : ExtOk ext) (hsort : ArgsortSorted ext)
    (m : Nat) (cost : List (List (Option R))) (hne : cost ≠ [])
    (hrect : ∀ row ∈ cost, row.length = m) (hsome : ∀ row ∈ cost, ∀ o ∈ row, o ≠ none)
    (ident : List (Nat × Nat)) (hb : ∀ e ∈ ident, e.1 < cost.length ∧ e.2 < m)
    (hdom : Dominant cost m ident)
    (hcov : ∀ g : Nat × Nat, g.1 < cost.length → g.2 < m → ∃ e ∈ ident, e.1 = g.1 ∨ e.2 = g.2) :
    ∃ ms, assignStage Fixes.repaired .greedy ext m cost = .ok ms ∧ ∀ p, p ∈ ms ↔ p ∈ ident :=
  greedy_stage_identity hext hsort m cost hne hrect hsome ident hb hdom hcov

/-- shared core (see `Tracker.stage_identity`): the stage returns `ident` for either matcher -/
theorem stage_identity (cfg : Config R) (ext : Ext R) (hext : ExtOk ext)
    (hmatch : (cfg.matcher = .greedy ∧ ArgsortSorted ext) ∨
              (cfg.matcher = .hungarian ∧ LsaPicksIdentity ext))
    (score : φ → φ → R) (cands : Nat → List φ) (m : Nat) (hm : 0 < m) (cur : List (φ × R))
    (ident : List (Nat × Nat)) (hc : FrameClass score cands m cur ident) :
    ident ≠ [] ∧ ∃ ms, assignStage Fixes.repaired cfg.matcher ext m
        (toCost (scoreMatrixP cfg.red score cands m (cur.map (·.1)))) = .ok ms ∧
        MatchValid cur.length m ms ∧ ∀ p, p ∈ ms ↔ p ∈ ident :=
  Tracker.stage_identity cfg ext hext hmatch score cands m hm cur ident hc

/-- one call of `track`, fixed window, greedy matcher, relative to given identity edges -/
theorem fw_identity_step_greedy (cfg : Config R) (hfx : cfg.fx = Fixes.repaired)
    (hg : cfg.matcher = .greedy) (ext : Ext R) (hext : ExtOk ext) (hsort : ArgsortSorted ext)
    (score : φ → φ → R) (s : FW φ) (hs : s.Inv) (hq : s.queue ≠ []) (cur : List (φ × R))
    (ident : List (Nat × Nat)) (hc : FrameClass score s.cands s.tracks.length cur ident) :
    ∃ s' ids, FW.step cfg ext score s cur = .ok (s', ids) ∧
      IdentityStep cfg.thr s.tracks.length cur ident ids := by
  obtain ⟨t, ht, _⟩ := FW.cands_ne_nil s hs hq
  obtain ⟨hid, hstage⟩ := stage_identity cfg ext hext (Or.inl ⟨hg, hsort⟩) score s.cands
    s.tracks.length (by omega) cur ident hc
  exact FW.identity_step_of_stage cfg hfx ext score s hs hq cur ident hid hstage

/-- one call of `track`, local queues, greedy matcher (the no-stale hypothesis of `FrameClass` is
    automatic here: `lq_no_stale`) -/
theorem lq_identity_step_greedy (cfg : Config R) (hfx : cfg.fx = Fixes.repaired)
    (hg : cfg.matcher = .greedy) (ext : Ext R) (hext : ExtOk ext) (hsort : ArgsortSorted ext)
    (score : φ → φ → R) (s : LQ φ) (hs : s.Inv) (hq : s.queues ≠ []) (cur : List (φ × R))
    (ident : List (Nat × Nat)) (hc : FrameClass score s.cands s.tracks.length cur ident) :
    ∃ s' ids, LQ.step cfg ext score s cur = .ok (s', ids) ∧
      IdentityStep cfg.thr s.tracks.length cur ident ids := by
  obtain ⟨t, ht, _⟩ := LQ.cands_ne_nil s hs hq
  obtain ⟨hid, hstage⟩ := stage_identity cfg ext hext (Or.inl ⟨hg, hsort⟩) score s.cands
    s.tracks.length (by omega) cur ident hc
  exact LQ.identity_step_of_stage cfg hfx ext score s hs hq cur ident hid hstage

/-- Hungarian matcher: the same conclusion with scipy's optimum-uniqueness as a hypothesis -/
theorem fw_identity_step_hungarian (cfg : Config R) (hfx : cfg.fx = Fixes.repaired)
    (hh : cfg.matcher = .hungarian) (ext : Ext R) (hext : ExtOk ext) (hpick : LsaPicksIdentity ext)
    (score : φ → φ → R) (s : FW φ) (hs : s.Inv) (hq : s.queue ≠ []) (cur : List (φ × R))
    (ident : List (Nat × Nat)) (hc : FrameClass score s.cands s.tracks.length cur ident) :
    ∃ s' ids, FW.step cfg ext score s cur = .ok (s', ids) ∧
      IdentityStep cfg.thr s.tracks.length cur ident ids := by
  obtain ⟨t, ht, _⟩ := FW.cands_ne_nil s hs hq
  obtain ⟨hid, hstage⟩ := stage_identity cfg ext hext (Or.inr ⟨hh, hpick⟩) score s.cands
    s.tracks.length (by omega) cur ident hc
  exact FW.identity_step_of_stage cfg hfx ext score s hs hq cur ident hid hstage

theorem lq_identity_step_hungarian (cfg : Config R) (hfx : cfg.fx = Fixes.repaired)
    (hh : cfg.matcher = .hungarian) (ext : Ext R) (hext : ExtOk ext) (hpick : LsaPicksIdentity ext)
    (score : φ → φ → R) (s : LQ φ) (hs : s.Inv) (hq : s.queues ≠ []) (cur : List (φ × R))
    (ident : List (Nat × Nat)) (hc : FrameClass score s.cands s.tracks.length cur ident) :
    ∃ s' ids, LQ.step cfg ext score s cur = .ok (s', ids) ∧
      IdentityStep cfg.thr s.tracks.length cur ident ids := by
  obtain ⟨t, ht, _⟩ := LQ.cands_ne_nil s hs hq
  obtain ⟨hid, hstage⟩ := stage_identity cfg ext hext (Or.inr ⟨hh, hpick⟩) score s.cands
    s.tracks.length (by omega) cur ident hc
  exact LQ.identity_step_of_stage cfg hfx ext score s hs hq cur ident hid hstage

/-- local queues never have a stale track -/
theorem lq_no_stale (s : LQ φ) (hs : s.Inv) : ∀ t, t < s.tracks.length → s.cands t ≠ [] :=
  LQ.cands_ne_nil_all s hs

end steps

/-! ## whole histories -/

section histories
variable {R φ : Type} [Field R] [LinearOrder R] [IsStrictOrderedRing R]

/-- one call of `track` preserves window purity and extends the injective owner map (fixed window) -/
theorem window_purity_step_fw (cfg : Config R) (hfx : cfg.fx = Fixes.repaired) (ext : Ext R)
    (hext : ExtOk ext)
    (hmatch : (cfg.matcher = .greedy ∧ ArgsortSorted ext) ∨
              (cfg.matcher = .hungarian ∧ LsaPicksIdentity ext))
    (score : φ → φ → R) (who : φ → Nat) (owner : Nat → Nat) (s : FW φ) (hs : s.Inv)
    (hp : FW.Pure who owner s) (hinj : InjOn owner s.tracks.length) (cur : List (φ × R))
    (hc : SceneFrame who score cfg.thr s.cands s.tracks.length cur) :
    ∃ s' ids owner', FW.step cfg ext score s cur = .ok (s', ids) ∧ s'.Inv ∧
      FW.Pure who owner' s' ∧
      OwnerStep who owner owner' s.tracks.length s'.tracks.length cur ids :=
  FW.owner_step cfg hfx ext hext hmatch score who owner s hs hp hinj cur hc

/-- the same for local queues -/
theorem window_purity_step_lq (cfg : Config R) (hfx : cfg.fx = Fixes.repaired)
    (hw : 0 < cfg.window) (ext : Ext R) (hext : ExtOk ext)
    (hmatch : (cfg.matcher = .greedy ∧ ArgsortSorted ext) ∨
              (cfg.matcher = .hungarian ∧ LsaPicksIdentity ext))
    (score : φ → φ → R) (who : φ → Nat) (owner : Nat → Nat) (s : LQ φ) (hs : s.Inv)
    (hp : LQ.Pure who owner s) (hinj : InjOn owner s.tracks.length) (cur : List (φ × R))
    (hc : SceneFrame who score cfg.thr s.cands s.tracks.length cur) :
    ∃ s' ids owner', LQ.step cfg ext score s cur = .ok (s', ids) ∧ s'.Inv ∧
      LQ.Pure who owner' s' ∧
      OwnerStep who owner owner' s.tracks.length s'.tracks.length cur ids :=
  LQ.owner_step cfg hfx hw ext hext hmatch score who owner s hs hp hinj cur hc

/-- **identity preserved, fixed window, greedy matcher, every history of the class** -/
theorem identity_preserved_fw_greedy (cfg : Config R) (hfx : cfg.fx = Fixes.repaired)
    (hg : cfg.matcher = .greedy) (ext : Ext R) (hext : ExtOk ext) (hsort : ArgsortSorted ext)
    (score : φ → φ → R) (who : φ → Nat) (frames : List (List (φ × R)))
    (hcl : FW.InClass cfg ext score who FW.empty frames) :
    ∃ s' outs owner, run (FW.step cfg ext score) FW.empty frames = .ok (s', outs) ∧
      InjOn owner s'.tracks.length ∧
      List.Forall₂ (FrameOwned who owner s'.tracks.length) frames outs := by
  obtain ⟨s', outs, owner, h1, _, _, h4, _, _, h7⟩ :=
    FW.identity_history cfg hfx ext hext (Or.inl ⟨hg, hsort⟩) score who frames FW.empty (fun _ => 0)
      FW.inv_empty (by intro fr hfr; simp [FW.empty] at hfr) (by intro t t' h; simp [FW.empty] at h) hcl
  exact ⟨s', outs, owner, h1, h4, h7⟩

/-- **identity preserved, local queues, greedy matcher, every history of the class** -/
theorem identity_preserved_lq_greedy (cfg : Config R) (hfx : cfg.fx = Fixes.repaired)
    (hw : 0 < cfg.window) (hg : cfg.matcher = .greedy) (ext : Ext R) (hext : ExtOk ext)
    (hsort : ArgsortSorted ext) (score : φ → φ → R) (who : φ → Nat)
    (frames : List (List (φ × R))) (hcl : LQ.InClass cfg ext score who LQ.empty frames) :
    ∃ s' outs owner, run (LQ.step cfg ext score) LQ.empty frames = .ok (s', outs) ∧
      InjOn owner s'.tracks.length ∧
      List.Forall₂ (FrameOwned who owner s'.tracks.length) frames outs := by
  obtain ⟨s', outs, owner, h1, _, _, h4, _, _, h7⟩ :=
    LQ.identity_history cfg hfx hw ext hext (Or.inl ⟨hg, hsort⟩) score who frames LQ.empty
      (fun _ => 0) LQ.inv_empty (by intro q hq; simp [LQ.empty] at hq)
      (by intro t t' h; simp [LQ.empty] at h) hcl
  exact ⟨s', outs, owner, h1, h4, h7⟩

/-- Hungarian matcher, fixed window: the same under scipy's optimum-uniqueness contract
    (older form with `LsaPicksIdentity` as a hypothesis; see `identity_preserved_fw_hungarian`) -/
theorem identity_preserved_fw_hungarian_partial (cfg : Config R) (hfx : cfg.fx = Fixes.repaired)
    (hh : cfg.matcher = .hungarian) (ext : Ext R) (hext : ExtOk ext) (hpick : LsaPicksIdentity ext)
    (score : φ → φ → R) (who : φ → Nat) (frames : List (List (φ × R)))
    (hcl : FW.InClass cfg ext score who FW.empty frames) :
    ∃ s' outs owner, run (FW.step cfg ext score) FW.empty frames = .ok (s', outs) ∧
      InjOn owner s'.tracks.length ∧
      List.Forall₂ (FrameOwned who owner s'.tracks.length) frames outs := by
  obtain ⟨s', outs, owner, h1, _, _, h4, _, _, h7⟩ :=
    FW.identity_history cfg hfx ext hext (Or.inr ⟨hh, hpick⟩) score who frames FW.empty (fun _ => 0)
      FW.inv_empty (by intro fr hfr; simp [FW.empty] at hfr) (by intro t t' h; simp [FW.empty] at h) hcl
  exact ⟨s', outs, owner, h1, h4, h7⟩

/-- Hungarian matcher, local queues (`_partial` as above) -/
theorem identity_preserved_lq_hungarian_partial (cfg : Config R) (hfx : cfg.fx = Fixes.repaired)
    (hw : 0 < cfg.window) (hh : cfg.matcher = .hungarian) (ext : Ext R) (hext : ExtOk ext)
    (hpick : LsaPicksIdentity ext) (score : φ → φ → R) (who : φ → Nat)
    (frames : List (List (φ × R))) (hcl : LQ.InClass cfg ext score who LQ.empty frames) :
    ∃ s' outs owner, run (LQ.step cfg ext score) LQ.empty frames = .ok (s', outs) ∧
      InjOn owner s'.tracks.length ∧
      List.Forall₂ (FrameOwned who owner s'.tracks.length) frames outs := by
  obtain ⟨s', outs, owner, h1, _, _, h4, _, _, h7⟩ :=
    LQ.identity_history cfg hfx hw ext hext (Or.inr ⟨hh, hpick⟩) score who frames LQ.empty
      (fun _ => 0) LQ.inv_empty (by intro q hq; simp [LQ.empty] at hq)
      (by intro t t' h; simp [LQ.empty] at h) hcl
  exact ⟨s', outs, owner, h1, h4, h7⟩

omit [Field R] [LinearOrder R] [IsStrictOrderedRing R] in
/-- what the owner map means: over the whole history, two detections (of any two frames) have the
    same track **iff** they are the same animal — each animal keeps one track id wherever it is
    detected, and no track (in particular no newcomer's) is ever shared by two animals -/
theorem identity_constant (who : φ → Nat) (owner : Nat → Nat) (m : Nat)
    (frames : List (List (φ × R))) (outs : List (List (Option Nat))) (hinj : InjOn owner m)
    (hall : List.Forall₂ (FrameOwned who owner m) frames outs)
    (cur cur' : List (φ × R)) (ids ids' : List (Option Nat))
    (h1 : (cur, ids) ∈ frames.zip outs) (h2 : (cur', ids') ∈ frames.zip outs)
    (i i' t t' : Nat) (hi : i < cur.length) (hi' : i' < cur'.length)
    (ht : ids[i]? = some (some t)) (ht' : ids'[i']? = some (some t')) :
    who cur[i].1 = who cur'[i'].1 ↔ t = t' := by
  obtain ⟨_, hz⟩ := List.forall₂_iff_zip.1 hall
  obtain ⟨_, _, ho⟩ := hz h1
  obtain ⟨_, _, ho'⟩ := hz h2
  obtain ⟨htm, _, hw⟩ := ho i t ht
  obtain ⟨htm', _, hw'⟩ := ho' i' t' ht'
  constructor
  · intro h
    exact hinj t t' htm htm' (by rw [← hw, ← hw', h])
  · intro h
    subst h
    rw [hw, hw']

omit [Field R] [LinearOrder R] [IsStrictOrderedRing R] in
/-- every detection of every frame has a track (restating the `tracked` part of `FrameOwned`) -/
theorem identity_every_detection_tracked {who : φ → Nat} {owner : Nat → Nat} {m : Nat}
    {cur : List (φ × R)} {ids : List (Option Nat)} (h : FrameOwned who owner m cur ids) :
    ∀ i, i < cur.length → ∃ t, ids[i]? = some (some t) := h.2.1

/-- **hungarian_picks_identity** (optimum uniqueness under row + column dominance): a solver with
    scipy's contract — `ExtOk` (one-to-one, in bounds, full size `min n k`) and `LsaOptimal` (minimum
    total cost among such assignments on a finite matrix) — returns exactly the identity edges.
    Termwise argument along the saturated side (rows if every detection is known, columns if a
    newcomer is present); no exchange argument. -/
theorem hungarian_picks_identity {ext : Ext R} (hext : ExtOk ext) (hopt : LsaOptimal ext) :
    LsaPicksIdentity ext := hungarian_picks_identity' hext hopt

/-- **identity preserved, fixed window, Hungarian matcher, every history of the class** — no
    hypothesis beyond the solver contract (`ExtOk`, `LsaOptimal`: trusted base, validated by brute
    force on every recorded scipy call) -/
theorem identity_preserved_fw_hungarian (cfg : Config R) (hfx : cfg.fx = Fixes.repaired)
    (hh : cfg.matcher = .hungarian) (ext : Ext R) (hext : ExtOk ext) (hopt : LsaOptimal ext)
    (score : φ → φ → R) (who : φ → Nat) (frames : List (List (φ × R)))
    (hcl : FW.InClass cfg ext score who FW.empty frames) :
    ∃ s' outs owner, run (FW.step cfg ext score) FW.empty frames = .ok (s', outs) ∧
      InjOn owner s'.tracks.length ∧
      List.Forall₂ (FrameOwned who owner s'.tracks.length) frames outs :=
  identity_preserved_fw_hungarian_partial cfg hfx hh ext hext (hungarian_picks_identity hext hopt)
    score who frames hcl

/-- **identity preserved, local queues, Hungarian matcher, every history of the class** -/
theorem identity_preserved_lq_hungarian (cfg : Config R) (hfx : cfg.fx = Fixes.repaired)
    (hw : 0 < cfg.window) (hh : cfg.matcher = .hungarian) (ext : Ext R) (hext : ExtOk ext)
    (hopt : LsaOptimal ext) (score : φ → φ → R) (who : φ → Nat)
    (frames : List (List (φ × R))) (hcl : LQ.InClass cfg ext score who LQ.empty frames) :
    ∃ s' outs owner, run (LQ.step cfg ext score) LQ.empty frames = .ok (s', outs) ∧
      InjOn owner s'.tracks.length ∧
      List.Forall₂ (FrameOwned who owner s'.tracks.length) frames outs :=
  identity_preserved_lq_hungarian_partial cfg hfx hw hh ext hext (hungarian_picks_identity hext hopt)
    score who frames hcl

end histories

/-! ## feature / score functions: IoU and Euclidean distance discharge the separation hypothesis -/

section geometry
open SleapVerif.TrackFeatures
variable {R : Type} [Field R] [LinearOrder R] [IsStrictOrderedRing R]

/-- `compute_iou` of well-formed boxes lies in `[0, 1]` -/
theorem iou_range (a b : Box R) (ha : WF a) (hb : WF b) : 0 ≤ scoreIou a b ∧ scoreIou a b ≤ 1 :=
  TrackFeatures.iou_range a b ha hb

theorem iou_symm (a b : Box R) : scoreIou a b = scoreIou b a := TrackFeatures.iou_symm a b

/-- a box compared with itself scores 1 even when its width or height is 0 (collinear keypoints,
    single visible keypoint) — what the inclusive `+1` of `compute_iou` buys -/
theorem iou_self_is_one_degenerate (a : Box R) (ha : WF a) : scoreIou a a = 1 :=
  TrackFeatures.iou_self_is_one_degenerate a ha

/-- zero-height box, single point: still 1 -/
example : scoreIou ((1 : Rat), 2, 5, 2) (1, 2, 5, 2) = 1 ∧ scoreIou ((3 : Rat), 4, 3, 4) (3, 4, 3, 4) = 1 :=
  ⟨iou_self_is_one_degenerate _ ⟨by norm_num, by norm_num⟩,
   iou_self_is_one_degenerate _ ⟨by norm_num, by norm_num⟩⟩

/-- boxes at least one pixel apart in x or y score 0 -/
theorem iou_disjoint_zero (a b : Box R) (h : TrackFeatures.Disjoint a b) : scoreIou a b = 0 :=
  TrackFeatures.iou_disjoint_zero a b h

/-- `get_bbox` returns a well-formed box for every pose with a visible keypoint -/
theorem bbox_wellformed (pts : List (Oks.Pt R)) (b : Box R) (h : bbox pts = some b) : WF b :=
  bbox_wf pts b h

/-- **iou_dominance**: own box overlaps, foreign boxes disjoint ⇒ the own score is strictly larger -/
theorem iou_dominance (a f g f' : Box R) (ha : WF a) (hf : WF f) (ho : Overlap a f)
    (hd : TrackFeatures.Disjoint g f') : scoreIou g f' < scoreIou a f :=
  TrackFeatures.iou_dominance a f g f' ha hf ho hd

/-- triangle inequality of the modelled distance for any lawful `sqrt` -/
theorem euclid_triangle (T : Transc R) (a b c : R × R) :
    T.sqrt (dist2 a c) ≤ T.sqrt (dist2 a b) + T.sqrt (dist2 b c) := dist_triangle T a b c

/-- **euclid_dominance**: own motion ≤ μ, foreign pair ≥ σ − μ apart, `2μ < σ` -/
theorem euclid_dominance (T : Transc R) (a f g f' : R × R) (μ σ : R) (hμσ : 2 * μ < σ)
    (hown : T.sqrt (dist2 a f) ≤ μ) (hfar : σ - μ ≤ T.sqrt (dist2 g f')) :
    scoreEuclid T.sqrt g f' < scoreEuclid T.sqrt a f :=
  TrackFeatures.euclid_dominance T a f g f' μ σ hμσ hown hfar

/-- the geometric class for bboxes+iou gives the scene class (separation discharged); features are
    any `φ` with a projection `π` to the box (e.g. `φ := Box R × Tag`), so `who` is not a function of
    the coordinates -/
theorem iou_scene_class {φ : Type} (π : φ → Box R) (who : φ → Nat) (thr : R) (cands : Nat → List φ)
    (m : Nat) (cur : List (φ × R)) (h : IouFrame π who thr cands m cur) :
    SceneFrame who (fun a b => scoreIou (π a) (π b)) thr cands m cur :=
  sceneFrame_of_iou π who thr cands m cur h

/-- the geometric class for centroids+euclidean_dist gives the scene class -/
theorem euclid_scene_class {φ : Type} (T : Transc R) (μ σ : R) (π : φ → R × R) (who : φ → Nat) (thr : R)
    (cands : Nat → List φ) (m : Nat) (cur : List (φ × R))
    (h : EuclidFrame T μ σ π who thr cands m cur) :
    SceneFrame who (fun a b => scoreEuclid T.sqrt (π a) (π b)) thr cands m cur :=
  sceneFrame_of_euclid T μ σ π who thr cands m cur h

section geoHeadlines
variable {φ : Type}

/-- **headline for bboxes + iou, geometry only** (fixed window, greedy): overlap with the own
    stored boxes and ≥ 1 px gaps to foreign ones on every frame ⇒ identities are preserved -/
theorem identity_preserved_fw_greedy_iou (π : φ → Box R) (cfg : Config R)
    (hfx : cfg.fx = Fixes.repaired) (hg : cfg.matcher = .greedy) (ext : Ext R) (hext : ExtOk ext)
    (hsort : ArgsortSorted ext) (who : φ → Nat) (frames : List (List (φ × R)))
    (hcl : FW.InClassWith (IouFrame π who cfg.thr) cfg ext (fun a b => scoreIou (π a) (π b)) FW.empty frames) :
    ∃ s' outs owner, run (FW.step cfg ext (fun a b => scoreIou (π a) (π b))) FW.empty frames = .ok (s', outs) ∧
      InjOn owner s'.tracks.length ∧
      List.Forall₂ (FrameOwned who owner s'.tracks.length) frames outs :=
  identity_preserved_fw_greedy cfg hfx hg ext hext hsort _ who frames
    (FW.inClass_of_with _ cfg ext _ who (fun c m cur h => sceneFrame_of_iou π who cfg.thr c m cur h)
      frames FW.empty hcl)

theorem identity_preserved_lq_greedy_iou (π : φ → Box R) (cfg : Config R)
    (hfx : cfg.fx = Fixes.repaired) (hw : 0 < cfg.window) (hg : cfg.matcher = .greedy) (ext : Ext R)
    (hext : ExtOk ext) (hsort : ArgsortSorted ext) (who : φ → Nat) (frames : List (List (φ × R)))
    (hcl : LQ.InClassWith (IouFrame π who cfg.thr) cfg ext (fun a b => scoreIou (π a) (π b)) LQ.empty frames) :
    ∃ s' outs owner, run (LQ.step cfg ext (fun a b => scoreIou (π a) (π b))) LQ.empty frames = .ok (s', outs) ∧
      InjOn owner s'.tracks.length ∧
      List.Forall₂ (FrameOwned who owner s'.tracks.length) frames outs :=
  identity_preserved_lq_greedy cfg hfx hw hg ext hext hsort _ who frames
    (LQ.inClass_of_with _ cfg ext _ who (fun c m cur h => sceneFrame_of_iou π who cfg.thr c m cur h)
      frames LQ.empty hcl)

theorem identity_preserved_fw_hungarian_iou (π : φ → Box R) (cfg : Config R)
    (hfx : cfg.fx = Fixes.repaired) (hh : cfg.matcher = .hungarian) (ext : Ext R) (hext : ExtOk ext)
    (hopt : LsaOptimal ext) (who : φ → Nat) (frames : List (List (φ × R)))
    (hcl : FW.InClassWith (IouFrame π who cfg.thr) cfg ext (fun a b => scoreIou (π a) (π b)) FW.empty frames) :
    ∃ s' outs owner, run (FW.step cfg ext (fun a b => scoreIou (π a) (π b))) FW.empty frames = .ok (s', outs) ∧
      InjOn owner s'.tracks.length ∧
      List.Forall₂ (FrameOwned who owner s'.tracks.length) frames outs :=
  identity_preserved_fw_hungarian cfg hfx hh ext hext hopt _ who frames
    (FW.inClass_of_with _ cfg ext _ who (fun c m cur h => sceneFrame_of_iou π who cfg.thr c m cur h)
      frames FW.empty hcl)

theorem identity_preserved_lq_hungarian_iou (π : φ → Box R) (cfg : Config R)
    (hfx : cfg.fx = Fixes.repaired) (hw : 0 < cfg.window) (hh : cfg.matcher = .hungarian) (ext : Ext R)
    (hext : ExtOk ext) (hopt : LsaOptimal ext) (who : φ → Nat) (frames : List (List (φ × R)))
    (hcl : LQ.InClassWith (IouFrame π who cfg.thr) cfg ext (fun a b => scoreIou (π a) (π b)) LQ.empty frames) :
    ∃ s' outs owner, run (LQ.step cfg ext (fun a b => scoreIou (π a) (π b))) LQ.empty frames = .ok (s', outs) ∧
      InjOn owner s'.tracks.length ∧
      List.Forall₂ (FrameOwned who owner s'.tracks.length) frames outs :=
  identity_preserved_lq_hungarian cfg hfx hw hh ext hext hopt _ who frames
    (LQ.inClass_of_with _ cfg ext _ who (fun c m cur h => sceneFrame_of_iou π who cfg.thr c m cur h)
      frames LQ.empty hcl)

/-- **headline for centroids + euclidean_dist, geometry only** (motion < ½ separation) -/
theorem identity_preserved_fw_greedy_euclid (T : Transc R) (μ σ : R) (π : φ → R × R) (cfg : Config R)
    (hfx : cfg.fx = Fixes.repaired) (hg : cfg.matcher = .greedy) (ext : Ext R) (hext : ExtOk ext)
    (hsort : ArgsortSorted ext) (who : φ → Nat) (frames : List (List (φ × R)))
    (hcl : FW.InClassWith (EuclidFrame T μ σ π who cfg.thr) cfg ext
      (fun a b => scoreEuclid T.sqrt (π a) (π b)) FW.empty frames) :
    ∃ s' outs owner, run (FW.step cfg ext (fun a b => scoreEuclid T.sqrt (π a) (π b))) FW.empty frames
        = .ok (s', outs) ∧ InjOn owner s'.tracks.length ∧
      List.Forall₂ (FrameOwned who owner s'.tracks.length) frames outs :=
  identity_preserved_fw_greedy cfg hfx hg ext hext hsort _ who frames
    (FW.inClass_of_with _ cfg ext _ who
      (fun c m cur h => sceneFrame_of_euclid T μ σ π who cfg.thr c m cur h) frames FW.empty hcl)

theorem identity_preserved_lq_greedy_euclid (T : Transc R) (μ σ : R) (π : φ → R × R) (cfg : Config R)
    (hfx : cfg.fx = Fixes.repaired) (hw : 0 < cfg.window) (hg : cfg.matcher = .greedy) (ext : Ext R)
    (hext : ExtOk ext) (hsort : ArgsortSorted ext) (who : φ → Nat) (frames : List (List (φ × R)))
    (hcl : LQ.InClassWith (EuclidFrame T μ σ π who cfg.thr) cfg ext
      (fun a b => scoreEuclid T.sqrt (π a) (π b)) LQ.empty frames) :
    ∃ s' outs owner, run (LQ.step cfg ext (fun a b => scoreEuclid T.sqrt (π a) (π b))) LQ.empty frames
        = .ok (s', outs) ∧ InjOn owner s'.tracks.length ∧
      List.Forall₂ (FrameOwned who owner s'.tracks.length) frames outs :=
  identity_preserved_lq_greedy cfg hfx hw hg ext hext hsort _ who frames
    (LQ.inClass_of_with _ cfg ext _ who
      (fun c m cur h => sceneFrame_of_euclid T μ σ π who cfg.thr c m cur h) frames LQ.empty hcl)

theorem identity_preserved_fw_hungarian_euclid (T : Transc R) (μ σ : R) (π : φ → R × R) (cfg : Config R)
    (hfx : cfg.fx = Fixes.repaired) (hh : cfg.matcher = .hungarian) (ext : Ext R) (hext : ExtOk ext)
    (hopt : LsaOptimal ext) (who : φ → Nat) (frames : List (List (φ × R)))
    (hcl : FW.InClassWith (EuclidFrame T μ σ π who cfg.thr) cfg ext
      (fun a b => scoreEuclid T.sqrt (π a) (π b)) FW.empty frames) :
    ∃ s' outs owner, run (FW.step cfg ext (fun a b => scoreEuclid T.sqrt (π a) (π b))) FW.empty frames
        = .ok (s', outs) ∧ InjOn owner s'.tracks.length ∧
      List.Forall₂ (FrameOwned who owner s'.tracks.length) frames outs :=
  identity_preserved_fw_hungarian cfg hfx hh ext hext hopt _ who frames
    (FW.inClass_of_with _ cfg ext _ who
      (fun c m cur h => sceneFrame_of_euclid T μ σ π who cfg.thr c m cur h) frames FW.empty hcl)

theorem identity_preserved_lq_hungarian_euclid (T : Transc R) (μ σ : R) (π : φ → R × R) (cfg : Config R)
    (hfx : cfg.fx = Fixes.repaired) (hw : 0 < cfg.window) (hh : cfg.matcher = .hungarian) (ext : Ext R)
    (hext : ExtOk ext) (hopt : LsaOptimal ext) (who : φ → Nat) (frames : List (List (φ × R)))
    (hcl : LQ.InClassWith (EuclidFrame T μ σ π who cfg.thr) cfg ext
      (fun a b => scoreEuclid T.sqrt (π a) (π b)) LQ.empty frames) :
    ∃ s' outs owner, run (LQ.step cfg ext (fun a b => scoreEuclid T.sqrt (π a) (π b))) LQ.empty frames
        = .ok (s', outs) ∧ InjOn owner s'.tracks.length ∧
      List.Forall₂ (FrameOwned who owner s'.tracks.length) frames outs :=
  identity_preserved_lq_hungarian cfg hfx hw hh ext hext hopt _ who frames
    (LQ.inClass_of_with _ cfg ext _ who
      (fun c m cur h => sceneFrame_of_euclid T μ σ π who cfg.thr c m cur h) frames LQ.empty hcl)

end geoHeadlines

/-- NOT PROVED (kept visible): the OKS bridging lemma, with the hypotheses the audit showed to be
    necessary.  For poses `a` (detection), `f` (own stored) and `f'` (foreign stored) with the **same
    visible nodes** and a detection pose of **positive bounding-box area** (`compute_oks` divides by
    `2·(area + ε)·(2·0.025)²`), if every keypoint of `a` is closer to the corresponding keypoint of `f`
    than to that of `f'`, then `oks a f' < oks a f` (monotonicity of `exp`).  With area 0 the real-number
    statement still holds (ε > 0) but the float evaluation underflows to exactly 0 for any non-zero
    displacement, own and foreign alike: finding F-C10c, see `oks_zero_area_counterexample`. -/
def oks_dominance (score : List (Oks.Pt R) → List (Oks.Pt R) → R) : Prop :=
  ∀ a f f' : List (Oks.Pt R),
    (∃ s, Oks.area a = some s ∧ 0 < s) →
    (∀ i : Nat, ((a[i]? >>= Oks.vis).isSome ↔ (f[i]? >>= Oks.vis).isSome) ∧
      ((a[i]? >>= Oks.vis).isSome ↔ (f'[i]? >>= Oks.vis).isSome)) →
    (∀ i : Nat, ∀ pa ∈ (a[i]? >>= Oks.vis), ∀ pf ∈ (f[i]? >>= Oks.vis), ∀ pf' ∈ (f'[i]? >>= Oks.vis),
      Oks.d2 pa pf < Oks.d2 pa pf') → score a f' < score a f

/-- F-C10c at model level: an axis-aligned collinear pose (`hline`) and a single visible keypoint
    have bounding-box area 0 in C15's model of `compute_instance_area` — the quantity `compute_oks`
    scales by; the positive-area hypothesis of `oks_dominance` fails exactly there. -/
theorem oks_zero_area_counterexample :
    Oks.area ([(some 10, some 10), (some 26, some 10), (some 18, some 10)] : List (Oks.Pt Rat)) = some 0 ∧
    Oks.area ([(some 10, some 10), (none, none), (none, none)] : List (Oks.Pt Rat)) = some 0 := by
  constructor <;> decide +kernel

end geometry

/-! ## non-vacuity: a concrete frame of the class -/

/-- two tracked animals at 10 and 50, seen again at 11 and 51 in swapped order; score = −distance -/
example :
    let s : FW Int := ⟨[⟨[10, 50], [some 0, some 1]⟩], [0, 1]⟩
    let score : Int → Int → Rat := fun a b => -((Int.natAbs (a - b) : Nat) : Rat)
    FrameClass score s.cands 2 [((51 : Int), (1 : Rat)), (11, 1)] [(0, 1), (1, 0)] := by
  refine ⟨by simp, by decide, ?_, ⟨?_, ?_⟩, ?_⟩
  · intro t ht
    have : t = 0 ∨ t = 1 := by omega
    rcases this with h | h <;> subst h <;> decide
  · intro e he h t' ht' hne f hf f' hf'
    simp only [List.mem_cons, List.not_mem_nil, or_false] at he
    have : t' = 0 ∨ t' = 1 := by omega
    rcases he with h1 | h1 <;> subst h1 <;> rcases this with h2 | h2 <;> subst h2 <;>
      simp_all [FW.cands]
  · intro e he h i' hi' hne f hf f' hf'
    simp only [List.mem_cons, List.not_mem_nil, or_false] at he
    simp only [List.length_map, List.length_cons, List.length_nil] at hi'
    have : i' = 0 ∨ i' = 1 := by omega
    rcases he with h1 | h1 <;> subst h1 <;> rcases this with h2 | h2 <;> subst h2 <;>
      simp_all [FW.cands]
  · intro g h1 h2
    simp only [List.length_cons, List.length_nil] at h1
    have : g.1 = 0 ∨ g.1 = 1 := by omega
    rcases this with h | h
    · exact ⟨(0, 1), by simp, Or.inl h.symm⟩
    · exact ⟨(1, 0), by simp, Or.inl h.symm⟩


/-! ## end-to-end non-vacuity (audit witness)

A concrete solver pair with `ExtOk ∧ ArgsortSorted` (diagonal assignment; insertion sort of all index
pairs by cost) and a concrete four-frame history — late arrival listed first, an absence, a second
late arrival listed in the middle, window 3, mean reduction — shown to be in `FW.InClass`, to which
the greedy headline is applied.  (Supersedes the earlier example whose `ext` violated `ExtOk`.) -/

namespace Witness
def allPairs (M : List (List (Option Rat))) : List (Nat × Nat) :=
  (List.range M.length).flatMap fun i => (List.range (M.headD []).length).map fun j => (i, j)
def le (M : List (List (Option Rat))) (a b : Nat × Nat) : Prop := entry M a ≤ entry M b
instance (M) : DecidableRel (le M) := fun a b => by unfold le; infer_instance
instance (M) : Std.Total (le M) := ⟨fun _ _ => le_total _ _⟩
instance (M) : IsTrans _ (le M) := ⟨fun _ _ _ => le_trans⟩
def ext : Ext Rat := ⟨fun M => (List.range (min M.length (M.headD []).length)).map fun i => (i, i),
  fun M => (allPairs M).insertionSort (le M)⟩
theorem sorted : ArgsortSorted ext := fun M => List.pairwise_insertionSort (le M) (allPairs M)
theorem head_len (M : List (List (Option Rat))) (k : Nat) (h : ∀ row ∈ M, row.length = k) (hne : M ≠ []) :
    (M.headD []).length = k := by
  cases M with
  | nil => exact absurd rfl hne
  | cons r rs => simpa using h r (by simp)
theorem extOk : ExtOk ext := by
  constructor
  · intro M k h _
    by_cases hne : M = []
    · subst hne; simp [ext]; exact ⟨by simp, by simp, by simp⟩
    · have hk := head_len M k h hne
      simp only [ext, hk]
      refine ⟨⟨?_, ?_, ?_⟩, by simp⟩
      · simp [List.map_map, Function.comp_def]; exact List.nodup_range
      · simp [List.map_map, Function.comp_def]; exact List.nodup_range
      · intro p hp
        simp only [List.mem_map, List.mem_range] at hp
        obtain ⟨i, hi, rfl⟩ := hp
        exact ⟨by omega, by omega⟩
  · intro M k h e
    simp only [ext, List.mem_insertionSort, allPairs, List.mem_flatMap, List.mem_range, List.mem_map]
    by_cases hne : M = []
    · subst hne; simp
    · rw [head_len M k h hne]
      constructor
      · rintro ⟨i, hi, j, hj, rfl⟩; exact ⟨hi, hj⟩
      · rintro ⟨h1, h2⟩; exact ⟨e.1, h1, e.2, h2, rfl⟩

def cfg : Config Rat := ⟨3, 0, .greedy, .mean, Fixes.repaired⟩
def score (a b : Int) : Rat := -((Int.natAbs (a - b) : Nat) : Rat)
def who (a : Int) : Nat := if a < 30 then 0 else if a < 70 then 1 else 2
def f0 : List (Int × Rat) := [(10,1)]
def f1 : List (Int × Rat) := [(50,1),(11,1)]
def f2 : List (Int × Rat) := [(51,1)]
def f3 : List (Int × Rat) := [(12,1),(90,1),(52,1)]
def s1 : FW Int := ⟨[⟨[10],[some 0]⟩],[0]⟩
def s2 : FW Int := ⟨[⟨[10],[some 0]⟩, ⟨[50,11],[some 1, some 0]⟩],[0,1]⟩
def s3 : FW Int := ⟨[⟨[10],[some 0]⟩, ⟨[50,11],[some 1, some 0]⟩, ⟨[51],[some 1]⟩],[0,1]⟩

instance : DecidableEq Err := inferInstance
theorem h0 : FW.step cfg ext score FW.empty f0 = .ok (s1, [some 0]) := by decide +kernel
theorem h1 : FW.step cfg ext score s1 f1 = .ok (s2, [some 1, some 0]) := by decide +kernel
theorem h2 : FW.step cfg ext score s2 f2 = .ok (s3, [some 1]) := by decide +kernel


theorem rowOf (m : Nat) (cands : Nat → List Int) (cur : List (Int × Rat))
    (h : ∀ d ∈ cur, ∀ t, t < m → ∀ t', t' < m → ∀ f ∈ cands t, ∀ f' ∈ cands t',
      who f = who d.1 → who f' ≠ who d.1 → score d.1 f' < score d.1 f) :
    ∀ d ∈ cur, ∀ t t', t < m → t' < m → ∀ f ∈ cands t, ∀ f' ∈ cands t',
      who f = who d.1 → who f' ≠ who d.1 → score d.1 f' < score d.1 f :=
  fun d hd t t' ht ht' => h d hd t ht t' ht'
theorem c0 : SceneFrame who score cfg.thr (FW.empty : FW Int).cands (FW.empty : FW Int).tracks.length f0 :=
  ⟨by decide +kernel, by decide +kernel, by decide +kernel, by decide +kernel, rowOf _ _ _ (by decide +kernel), by decide +kernel⟩
theorem c1 : SceneFrame who score cfg.thr s1.cands s1.tracks.length f1 :=
  ⟨by decide +kernel, by decide +kernel, by decide +kernel, by decide +kernel, rowOf _ _ _ (by decide +kernel), by decide +kernel⟩
theorem c2 : SceneFrame who score cfg.thr s2.cands s2.tracks.length f2 :=
  ⟨by decide +kernel, by decide +kernel, by decide +kernel, by decide +kernel, rowOf _ _ _ (by decide +kernel), by decide +kernel⟩
theorem c3 : SceneFrame who score cfg.thr s3.cands s3.tracks.length f3 :=
  ⟨by decide +kernel, by decide +kernel, by decide +kernel, by decide +kernel, rowOf _ _ _ (by decide +kernel), by decide +kernel⟩

theorem inClass : FW.InClass cfg ext score who FW.empty [f0, f1, f2, f3] := by
  refine ⟨c0, fun s' ids h => ?_⟩
  rw [h0] at h; injection h with h; injection h with e1 e2; subst e1; subst e2
  refine ⟨c1, fun s' ids h => ?_⟩
  rw [h1] at h; injection h with h; injection h with e1 e2; subst e1; subst e2
  refine ⟨c2, fun s' ids h => ?_⟩
  rw [h2] at h; injection h with h; injection h with e1 e2; subst e1; subst e2
  exact ⟨c3, fun _ _ _ => trivial⟩

/-- end-to-end: the headline theorem applied to a concrete solver and a concrete history with
    a late arrival, an absence and permuted listing order -/
theorem endToEnd : ∃ s' outs owner,
    run (FW.step cfg ext score) FW.empty [f0, f1, f2, f3] = Except.ok (s', outs) ∧
      InjOn owner s'.tracks.length ∧
      List.Forall₂ (FrameOwned who owner s'.tracks.length) [f0, f1, f2, f3] outs :=
  identity_preserved_fw_greedy cfg rfl rfl ext extOk sorted score who [f0, f1, f2, f3] inClass
/-- a solver pair meeting the **Hungarian** contract: brute-force minimiser + the sorted argsort -/
noncomputable def extH : Ext Rat := ⟨bruteLsa, ext.argsort⟩

theorem extH_ok : ExtOk extH :=
  ⟨fun M k h _ => bruteLsa_valid M k h, extOk.argsort⟩

theorem extH_optimal : LsaOptimal extH :=
  fun M k h _ ms' hv hl => bruteLsa_optimal M k h ms' hv hl

/-- `ExtOk ∧ LsaOptimal ∧ ArgsortSorted` are jointly satisfiable -/
theorem solver_contracts_satisfiable : ∃ e : Ext Rat, ExtOk e ∧ LsaOptimal e ∧ ArgsortSorted e :=
  ⟨extH, extH_ok, extH_optimal, sorted⟩

def cfgH : Config Rat := ⟨3, 0, .hungarian, .mean, Fixes.repaired⟩

theorem h0H : FW.step cfgH extH score FW.empty f0 = .ok (s1, [some 0]) := by
  have : FW.step cfgH extH score FW.empty f0 = .ok (FW.init cfgH FW.empty f0) := rfl
  rw [this]; decide +kernel

theorem inClassH : FW.InClass cfgH extH score who FW.empty [f0, f1] := by
  refine ⟨c0, fun s' ids h => ?_⟩
  rw [h0H] at h; injection h with h; injection h with e1 e2; subst e1; subst e2
  exact ⟨c1, fun _ _ _ => trivial⟩

/-- the Hungarian headline instantiated: concrete (brute-force) solver, history with a late arrival
    listed first (the second frame goes through `linear_sum_assignment`) -/
theorem endToEndHungarian : ∃ s' outs owner,
    run (FW.step cfgH extH score) FW.empty [f0, f1] = Except.ok (s', outs) ∧
      InjOn owner s'.tracks.length ∧
      List.Forall₂ (FrameOwned who owner s'.tracks.length) [f0, f1] outs :=
  identity_preserved_fw_hungarian cfgH rfl rfl extH extH_ok extH_optimal score who [f0, f1] inClassH

end Witness

end SleapVerif.C10
