import SleapVerif.Model.Reader
import SleapVerif.Gen.TranslatedC13

/-!
# C13, second tie — the frame range of `VideoReader` *as translated from the Python source*

`Gen/TranslatedC13.lean` is regenerated from `sleap_nn/data/providers.py` on every run of
`bin/check C13` (harness/py2lean_ext.py): the defaulting of `start_idx` / `end_idx` in
`VideoReader.__init__`, `total_len`, and the loop of `run` (header `range(start, end)`, the position
read and the `frame_idx` reported in each iteration).

The reader model (`Model/Reader.lean`) takes the half-open range `[Params.start, Params.stop)` as
given; `harness/c13.py::model_params` computes it from a case as `start = 0 if None else start`,
`stop = n if None else stop` — `modelRange` below.  The theorems say that the generated
definitions compute exactly that range and walk it exactly as `Reader.expected` says, so the C13
theorems (`reader_final`, `batches_partition`, … which are about `expected P`) talk about the range
the code really uses.  In particular an **explicit `0` is respected** (`end_idx = 0` is the empty
range, not "the whole video").
-/

set_option linter.unusedSimpArgs false

namespace SleapVerif.TranslatedC13
open SleapVerif.Reader SleapVerif.Gen.TranslatedC13

/-- the hand definition: `Params.start`, `Params.stop` as `harness/c13.py::model_params` derives
them from the constructor arguments (`None` or a natural number) and the video length `n` -/
def modelRange (n : Nat) (start stop : Option Nat) : Nat × Nat := (start.getD 0, stop.getD n)

/-! ## `__init__` -/

/-- the translated defaulting is the hand definition: `None` becomes `0` / the video length, every
explicit value — `0` included — is kept -/
theorem gen_range_eq (n : Nat) (start stop : Option Nat) :
    VideoReader_init (start.map Int.ofNat) (stop.map Int.ofNat) (n : Int) =
      (some ((modelRange n start stop).1 : Int), some ((modelRange n start stop).2 : Int)) := by
  cases start <;> cases stop <;> rfl

/-- explicit arguments are returned untouched, whatever their value (no truthiness test) -/
theorem gen_init_explicit (a b n : Int) : VideoReader_init (some a) (some b) n = (some a, some b) := rfl

/-- **explicit `0` is respected** on either side; `None` takes the default -/
theorem gen_explicit_zero_respected (x : Option Int) (n : Int) :
    (VideoReader_init x (some 0) n).2 = some 0 ∧ (VideoReader_init (some 0) x n).1 = some 0 ∧
    VideoReader_init none none n = (some 0, some n) := ⟨rfl, rfl, rfl⟩

/-! ## `total_len` and the loop of `run` -/

theorem pyRange_nat (a b : Nat) :
    pyRange (a : Int) (b : Int) = (List.range' a (b - a)).map Int.ofNat := by
  unfold pyRange
  have e : ((b : Int) - (a : Int)).toNat = b - a := by omega
  rw [e, List.range'_eq_map_range, List.map_map]
  apply List.map_congr_left
  intro i _
  simp only [Function.comp, Int.ofNat_eq_natCast]
  omega

/-- `total_len` is the length of the half-open range (as an integer; `stop - start` when
`start ≤ stop`) -/
theorem gen_total_len_eq (s e : Nat) :
    VideoReader_total_len (s : Int) (e : Int) = (e : Int) - (s : Int) ∧
    (s ≤ e → VideoReader_total_len (s : Int) (e : Int) = ((e - s : Nat) : Int)) := by
  refine ⟨rfl, fun h => ?_⟩
  unfold VideoReader_total_len
  omega

/-- the loop of `run` visits the positions `start, start+1, …, stop-1` of the model's range in
order, reads position `i` and reports `frame_idx = i` with it -/
theorem gen_run_frames_eq_model (P : Params) :
    VideoReader_run_frames (P.start : Int) (P.stop : Int) =
      (idxUpto P (max P.start P.stop)).map (fun (i : Nat) => ((i : Int), (i : Int))) := by
  unfold VideoReader_run_frames idxUpto
  rw [pyRange_nat, List.map_map]
  have e : max P.start P.stop - P.start = P.stop - P.start := by omega
  rw [e]
  rfl

/-- **construction + loop = the model's `expected`**: for a case `(n, start, stop)` and model
parameters derived as the harness derives them, with no read failure inside the range, the
positions the translated code reads (each with the payload of that position) are exactly
`Reader.expected P`, every frame is reported under its own index, and `total_len` is the size of
the range -/
theorem gen_reader_delivers_expected (P : Params) (n : Nat) (start stop : Option Nat)
    (hs : P.start = (modelRange n start stop).1) (he : P.stop = (modelRange n start stop).2)
    (hf : ∀ k, P.fail = some k → ¬ (P.start ≤ k ∧ k < P.stop)) :
    ∃ s e : Int,
      VideoReader_init (start.map Int.ofNat) (stop.map Int.ofNat) (n : Int) = (some s, some e) ∧
      (VideoReader_run_frames s e).map (fun p => P.pay p.1.toNat) = expected P ∧
      (∀ p ∈ VideoReader_run_frames s e, p.2 = p.1) ∧
      VideoReader_total_len s e = (P.stop : Int) - (P.start : Int) := by
  refine ⟨(P.start : Int), (P.stop : Int), ?_, ?_, ?_, rfl⟩
  · rw [gen_range_eq, ← hs, ← he]
  · have e : stopIdx P = max P.start P.stop := by
      unfold stopIdx
      cases hfk : P.fail with
      | none => rfl
      | some k => simp only; rw [if_neg (hf k hfk)]
    rw [gen_run_frames_eq_model, List.map_map]
    unfold expected upto
    rw [e]
    apply List.map_congr_left
    intro i _
    simp only [Function.comp, Int.toNat_natCast]
  · intro p hp
    rw [gen_run_frames_eq_model] at hp
    obtain ⟨i, _, rfl⟩ := List.mem_map.mp hp
    rfl

/-- the hypotheses are satisfiable; an explicit `end_idx = 0` gives the empty range -/
example : ∃ P : Params, P.start = (modelRange 5 (some 1) none).1 ∧ P.stop = (modelRange 5 (some 1) none).2 ∧
    (∀ k, P.fail = some k → ¬ (P.start ≤ k ∧ k < P.stop)) :=
  ⟨⟨2, 2, 1, 5, none, fun i => ⟨i, 0, 4, 4⟩⟩, rfl, rfl, fun _ h => by simp at h⟩

example : VideoReader_run_frames 0 0 = [] ∧ (VideoReader_init none (some 0) 7).2 = some 0 ∧
    VideoReader_run_frames 1 4 = [(1, 1), (2, 2), (3, 3)] := by decide

end SleapVerif.TranslatedC13
