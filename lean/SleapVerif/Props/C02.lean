import SleapVerif.Lemmas.Decode
/-!
# C02 — single-instance and top-down inference return original-image coordinates

Statements are about `SleapVerif.Decode` (tied to `/repo` by `harness/c02.py`): the decode chains
as coded, fed by the ideal network (argmax = nearest grid cell of the nominally transformed
keypoint, C01 `cm_argmax_nearest`; validated per run by the harness).  `R` is any ordered field.
"Half an output-stride cell" in original pixels is `os / 2 / (s · eff)`.
-/
namespace SleapVerif.C02
open SleapVerif.Decode

set_option linter.unusedSectionVars false
variable {R : Type} [Field R] [LinearOrder R] [IsStrictOrderedRing R]

/-- **single_roundtrip** (one coordinate): with the frame preprocessed (`a = eff·s`), a keypoint
whose nominal position lies in the grid's range comes back within half a cell; `δ` is a refinement
offset that does not move the peak away from the truth (`δ = 0`: no refinement). -/
theorem single_roundtrip (c : SingleCfg) (eff x δ : R) (n : Nat)
    (hs : 0 < c.scale.toR (Nat.cast : Nat → R)) (he : 0 < eff)
    (h0 : 0 ≤ x * (eff * c.scale.toR Nat.cast))
    (h1 : x * (eff * c.scale.toR Nat.cast) ≤ (((n - 1) * c.os : Nat) : R) + (c.os : R) / 2)
    (hδ : |((nearest Nat.cast c.os (x * (eff * c.scale.toR Nat.cast)) (n - 1) : Nat) + δ) * (c.os : R)
            - x * (eff * c.scale.toR Nat.cast)|
          ≤ |((nearest Nat.cast c.os (x * (eff * c.scale.toR Nat.cast)) (n - 1) * c.os : Nat) : R)
            - x * (eff * c.scale.toR Nat.cast)|) :
    |singleCoord Nat.cast c (eff * c.scale.toR Nat.cast) eff n x δ - x|
      ≤ (c.os : R) / 2 / (c.scale.toR Nat.cast * eff) := by
  have hh := nearest_half c.os (x * (eff * c.scale.toR (Nat.cast : Nat → R))) (n - 1) h0 h1
  have hb := le_trans hδ hh
  have := decode_affine (tl := (0 : R)) hs he (x := x) (by simpa using hb)
  simpa [singleCoord, singleDecode1, encode] using this

/-- **refinement that overshoots breaks the bound** (general form of F-C02b): when the keypoint sits
exactly on its cell (`x·a = g·os`) any refinement offset larger than half a cell — which is what
integral regression returns when its zero-padded patch crosses the map border — puts the decoded
coordinate further than half a cell from the truth.  So the hypothesis `hδ` of `single_roundtrip`
("the offset does not move away from the truth") cannot be dropped. -/
theorem refined_overshoot_breaks_bound (c : SingleCfg) (eff x δ : R) (n : Nat)
    (hs : 0 < c.scale.toR (Nat.cast : Nat → R)) (he : 0 < eff) (hos : 0 < (c.os : R))
    (hq : x * (eff * c.scale.toR Nat.cast)
            = ((nearest Nat.cast c.os (x * (eff * c.scale.toR Nat.cast)) (n - 1) * c.os : Nat) : R))
    (hδ : 1 / 2 < δ) :
    (c.os : R) / 2 / (c.scale.toR Nat.cast * eff)
      < |singleCoord Nat.cast c (eff * c.scale.toR Nat.cast) eff n x δ - x| := by
  have hse : 0 < c.scale.toR (Nat.cast : Nat → R) * eff := mul_pos hs he
  simp only [singleCoord, singleDecode1, encode]
  generalize nearest Nat.cast c.os (x * (eff * c.scale.toR Nat.cast)) (n - 1) = g at hq ⊢
  have hx : x = ((g : R) * (c.os : R)) / (c.scale.toR Nat.cast * eff) := by
    rw [eq_div_iff (ne_of_gt hse)]
    push_cast at hq
    rw [← hq]; ring
  have e1 : ((g : R) + δ) * (c.os : R) / c.scale.toR Nat.cast / eff - x
      = δ * (c.os : R) / (c.scale.toR Nat.cast * eff) := by
    rw [hx]; field_simp; ring
  rw [e1, abs_of_pos (div_pos (mul_pos (by linarith) hos) hse), div_div, div_lt_div_iff₀ (by positivity) hse]
  nlinarith [mul_pos hos hse]

/-- **F-C02b, the recorded witness** (32×32 frame, input scale 1, output stride 2, integral
refinement, keypoint at x = 0.25 → cell 0, whose 5×5 patch crosses the left border): the measured
refinement offset is ≈ +0.766 cell (49/64; the zero padding removes the left half of the bump); with
the model's decode chain the returned coordinate is 1.531 px — 1.28 px = 0.64 cell from the truth, beyond
the half-cell bound of 1 px, and the offset moves AWAY from the truth (hypothesis `hδ` fails). -/
theorem single_roundtrip_border_counterexample :
    let c : SingleCfg := { scale := ⟨1, 1⟩, os := 2, maxStride := 2, maxH := none, maxW := none }
    let cast : Nat → Rat := fun n => (n : Rat)
    nearest cast c.os ((1 / 4 : Rat) * (1 * c.scale.toR cast)) 15 = 0 ∧
    singleCoord cast c (1 * c.scale.toR cast) 1 16 (1 / 4) (49 / 64) = 49 / 32 ∧
    (c.os : Rat) / 2 / (c.scale.toR cast * 1) < 49 / 32 - 1 / 4 ∧
    ¬ ((0 + 49 / 64 : Rat) * 2 - 1 / 4 ≤ 1 / 4 - 0 * 2) := by
  decide +kernel

/-- no refinement (`δ = 0`) satisfies the refinement hypothesis -/
theorem no_refinement_ok (g os : Nat) (q : R) :
    |((g : R) + 0) * (os : R) - q| ≤ |((g * os : Nat) : R) - q| := by
  simp

/-- **topdown_roundtrip** (one coordinate): for EVERY crop top-left `tl` — hence every centroid
position, every centroid-stage quantisation or refinement, every crop size — a keypoint that lies
in the crop's grid range comes back within half an instance-stage cell: the centroid error moves
the crop but cancels in `peak + bbox top-left`. -/
theorem topdown_roundtrip (c : TopDownCfg) (eff tl x δ : R) (n : Nat)
    (hs : 0 < c.si.toR (Nat.cast : Nat → R)) (he : 0 < eff)
    (h0 : 0 ≤ x * (eff * c.si.toR Nat.cast) - tl)
    (h1 : x * (eff * c.si.toR Nat.cast) - tl ≤ (((n - 1) * c.osI : Nat) : R) + (c.osI : R) / 2)
    (hδ : |((nearest Nat.cast c.osI (x * (eff * c.si.toR Nat.cast) - tl) (n - 1) : Nat) + δ) * (c.osI : R)
            - (x * (eff * c.si.toR Nat.cast) - tl)|
          ≤ |((nearest Nat.cast c.osI (x * (eff * c.si.toR Nat.cast) - tl) (n - 1) * c.osI : Nat) : R)
            - (x * (eff * c.si.toR Nat.cast) - tl)|) :
    |instanceCoord Nat.cast c eff tl n x δ - x| ≤ (c.osI : R) / 2 / (c.si.toR Nat.cast * eff) := by
  have hh := nearest_half c.osI (x * (eff * c.si.toR (Nat.cast : Nat → R)) - tl) (n - 1) h0 h1
  have hb := le_trans hδ hh
  have := decode_affine hs he (x := x) (tl := tl) hb
  simpa [instanceCoord] using this

/-- the whole animal: whatever the centroid stage did (`cen`, `δc` arbitrary), every visible
keypoint inside its crop's grid range is returned within half a cell; invisible ones stay `none`. -/
theorem topdown_animal_roundtrip (c : TopDownCfg) (H W : Nat) (cen δc : R × R)
    (pts : List (Option (R × R) × (R × R)))
    (hs : 0 < c.si.toR (Nat.cast : Nat → R)) (he : 0 < effScale (Nat.cast : Nat → R) H W c.maxH c.maxW)
    (i : Nat) (hi : i < pts.length) (x y : R) (hp : pts[i].1 = some (x, y)) (hz : pts[i].2 = (0, 0))
    (hx0 : 0 ≤ x * (effScale Nat.cast H W c.maxH c.maxW * c.si.toR Nat.cast)
                - (topdownAnimal Nat.cast c H W cen δc pts).tl.1)
    (hx1 : x * (effScale Nat.cast H W c.maxH c.maxW * c.si.toR Nat.cast)
                - (topdownAnimal Nat.cast c H W cen δc pts).tl.1
            ≤ (((gridLen (instanceInputShape c).2 c.osI - 1) * c.osI : Nat) : R) + (c.osI : R) / 2)
    (hy0 : 0 ≤ y * (effScale Nat.cast H W c.maxH c.maxW * c.si.toR Nat.cast)
                - (topdownAnimal Nat.cast c H W cen δc pts).tl.2)
    (hy1 : y * (effScale Nat.cast H W c.maxH c.maxW * c.si.toR Nat.cast)
                - (topdownAnimal Nat.cast c H W cen δc pts).tl.2
            ≤ (((gridLen (instanceInputShape c).1 c.osI - 1) * c.osI : Nat) : R) + (c.osI : R) / 2) :
    ∃ x' y', (topdownAnimal Nat.cast c H W cen δc pts).pts[i]? = some (some (x', y')) ∧
      |x' - x| ≤ (c.osI : R) / 2 / (c.si.toR Nat.cast * effScale Nat.cast H W c.maxH c.maxW) ∧
      |y' - y| ≤ (c.osI : R) / 2 / (c.si.toR Nat.cast * effScale Nat.cast H W c.maxH c.maxW) := by
  have e : pts[i] = (some (x, y), ((0 : R), (0 : R))) := by
    rcases hpi : pts[i] with ⟨a, b⟩
    rw [hpi] at hp hz; simp only at hp hz; rw [hp, hz]
  refine ⟨instanceCoord Nat.cast c (effScale Nat.cast H W c.maxH c.maxW)
      (topdownAnimal Nat.cast c H W cen δc pts).tl.1 (gridLen (instanceInputShape c).2 c.osI) x 0,
    instanceCoord Nat.cast c (effScale Nat.cast H W c.maxH c.maxW)
      (topdownAnimal Nat.cast c H W cen δc pts).tl.2 (gridLen (instanceInputShape c).1 c.osI) y 0, ?_, ?_, ?_⟩
  · simp only [topdownAnimal, List.getElem?_map, List.getElem?_eq_getElem hi, Option.map_some, e]
  · exact topdown_roundtrip c _ _ x 0 _ hs he hx0 hx1 (by simp)
  · exact topdown_roundtrip c _ _ y 0 _ hs he hy0 hy1 (by simp)

/-- the whole single-instance pipeline (preprocessed frame) on a visible keypoint -/
theorem single_point_roundtrip (c : SingleCfg) (H W : Nat) (x y : R)
    (hs : 0 < c.scale.toR (Nat.cast : Nat → R)) (he : 0 < effScale (Nat.cast : Nat → R) H W c.maxH c.maxW)
    (hx0 : 0 ≤ x * (effScale Nat.cast H W c.maxH c.maxW * c.scale.toR Nat.cast))
    (hx1 : x * (effScale Nat.cast H W c.maxH c.maxW * c.scale.toR Nat.cast)
            ≤ (((gridLen (singleInputShape true c H W).2 c.os - 1) * c.os : Nat) : R) + (c.os : R) / 2)
    (hy0 : 0 ≤ y * (effScale Nat.cast H W c.maxH c.maxW * c.scale.toR Nat.cast))
    (hy1 : y * (effScale Nat.cast H W c.maxH c.maxW * c.scale.toR Nat.cast)
            ≤ (((gridLen (singleInputShape true c H W).1 c.os - 1) * c.os : Nat) : R) + (c.os : R) / 2) :
    ∃ x' y', singlePoint Nat.cast true c H W (some (x, y)) (0, 0) = some (x', y') ∧
      |x' - x| ≤ (c.os : R) / 2 / (c.scale.toR Nat.cast * effScale Nat.cast H W c.maxH c.maxW) ∧
      |y' - y| ≤ (c.os : R) / 2 / (c.scale.toR Nat.cast * effScale Nat.cast H W c.maxH c.maxW) := by
  refine ⟨_, _, rfl, ?_, ?_⟩
  · exact single_roundtrip c _ x 0 _ hs he hx0 hx1 (by simp)
  · exact single_roundtrip c _ y 0 _ hs he hy0 hy1 (by simp)

/-- **invisible_is_none**: an invisible keypoint is returned as missing (NaN) with value 0, by
both pipelines, whatever the configuration. -/
theorem invisible_is_none_single (cast : Nat → R) (pre : Bool) (c : SingleCfg) (H W : Nat) (δ : R × R) (v : R) :
    singlePoint cast pre c H W none δ = none ∧
      valueOf (0 : R) v (singlePoint cast pre c H W none δ) = 0 := by
  constructor <;> rfl

theorem invisible_is_none_topdown (cast : Nat → R) (c : TopDownCfg) (H W : Nat) (cen δc : R × R)
    (pts : List (Option (R × R) × (R × R))) (i : Nat) (hi : i < pts.length) (hp : pts[i].1 = none) :
    (topdownAnimal cast c H W cen δc pts).pts[i]? = some none := by
  simp [topdownAnimal, List.getElem?_eq_getElem hi, hp]

/-- and a visible one is never turned into a missing one -/
theorem visible_is_some_single (cast : Nat → R) (pre : Bool) (c : SingleCfg) (H W : Nat) (p δ : R × R) :
    (singlePoint cast pre c H W (some p) δ).isSome := rfl

/-- **provider_agnostic** (repaired switch): the answer does not depend on the provider. -/
theorem provider_agnostic (cast : Nat → R) (c : SingleCfg) (H W : Nat) (p : Option (R × R)) (δ : R × R) :
    singlePoint cast (preprocessFixed .labels) c H W p δ = singlePoint cast (preprocessFixed .video) c H W p δ :=
  rfl

/-- top-down never depended on it (`preprocess = False` for both; `CentroidCrop` resizes itself) -/
theorem provider_agnostic_topdown : preprocessTopDown .labels = preprocessTopDown .video := rfl

/-- as coded, with input scale 1 and no stride padding the switch makes no difference … -/
theorem provider_agnostic_asIs_partial (cast : Nat → R) (c : SingleCfg) (H W : Nat) (p : Option (R × R))
    (δ : R × R) (hs : c.scale = ⟨1, 1⟩) (hm : c.maxStride ≤ 1)
    (h1 : ∀ z : R, z * (cast 1 / cast 1) = z) :
    singlePoint cast (preprocessAsIs .labels) c H W p δ = singlePoint cast (preprocessAsIs .video) c H W p δ := by
  simp [singlePoint, preprocessAsIs, singleInputShape, singleActual, hs, resizeLen, padTo, hm, Scale.toR, h1]

/-- … but **as coded the property is false** (F-C02): an 8×8 frame, input scale ½, stride 1,
keypoint (5, 3): `LabelsReader` (not resized, still divided by the scale) returns (10, 6),
`VideoReader` returns (4, 2) (cell of (2.5, 1.5), first minimiser). -/
theorem provider_agnostic_counterexample :
    singlePoint (R := Rat) (fun n => (n : Rat)) (preprocessAsIs .labels)
        { scale := ⟨1, 2⟩, os := 1, maxStride := 1, maxH := none, maxW := none } 8 8 (some (5, 3)) (0, 0)
      = some (10, 6) ∧
    singlePoint (R := Rat) (fun n => (n : Rat)) (preprocessAsIs .video)
        { scale := ⟨1, 2⟩, os := 1, maxStride := 1, maxH := none, maxW := none } 8 8 (some (5, 3)) (0, 0)
      = some (4, 2) := by
  decide +kernel

/-! ### the hypotheses are satisfiable -/

example : (0 : Rat) < (⟨3, 4⟩ : Scale).toR (Nat.cast : Nat → Rat) := by
  simp [Scale.toR]

/-- a 64×96 frame matched to 128×192 (eff = 2), scale ½, stride 2: keypoint x = 20.25 is in range -/
example :
    let c : SingleCfg := { scale := ⟨1, 2⟩, os := 2, maxStride := 8, maxH := some 128, maxW := some 192 }
    effScale (Nat.cast : Nat → Rat) 64 96 c.maxH c.maxW = 2 ∧
    (0 : Rat) ≤ (81 / 4 : Rat) * (2 * c.scale.toR Nat.cast) ∧
    (81 / 4 : Rat) * (2 * c.scale.toR Nat.cast)
      ≤ (((gridLen (singleInputShape true c 64 96).2 c.os - 1) * c.os : Nat) : Rat) + (c.os : Rat) / 2 := by
  decide +kernel

end SleapVerif.C02
