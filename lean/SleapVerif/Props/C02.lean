import SleapVerif.Lemmas.Decode
/-!
# C02 — single-instance and top-down inference return original-image coordinates

Statements are about `SleapVerif.Decode` (tied to `/repo` by `harness/c02.py`): the decode chains
as coded, fed by the ideal network (argmax = nearest grid cell of the nominally transformed
keypoint, C01 `cm_argmax_nearest`; validated per run by the harness).  `R` is any ordered field.
"Half an output-stride cell" in original pixels is `os / 2 / (s · eff)`.
-/
namespace SleapVerif.C02
open SleapVerif.Decode

set_option linter.unusedSectionVars false
variable {R : Type} [Field R] [LinearOrder R] [IsStrictOrderedRing R]

/-- **single_roundtrip** (one coordinate): with the frame preprocessed (`a = eff·s`), a keypoint
whose nominal position lies in the grid's range comes back within half a cell; `δ` is a refinement
offset that does not move the peak away from the truth (`δ = 0`: no refinement). -/
theorem single_roundtrip (c : SingleCfg) (eff x δ : R) (n : Nat)
    (hs : 0 < c.scale.toR (Nat.cast : Nat → R)) (he : 0 < eff)
    (h0 : 0 ≤ x * (eff * c.scale.toR Nat.cast))
    (h1 : x * (eff * c.scale.toR Nat.cast) ≤ (((n - 1) * c.os : Nat) : R) + (c.os : R) / 2)
    (hδ : |((nearest Nat.cast c.os (x * (eff * c.scale.toR Nat.cast)) (n - 1) : Nat) + δ) * (c.os : R)
            - x * (eff * c.scale.toR Nat.cast)|
          ≤ |((nearest Nat.cast c.os (x * (eff * c.scale.toR Nat.cast)) (n - 1) * c.os : Nat) : R)
            - x * (eff * c.scale.toR Nat.cast)|) :
    |singleCoord Nat.cast c (eff * c.scale.toR Nat.cast) eff n x δ - x|
      ≤ (c.os : R) / 2 / (c.scale.toR Nat.cast * eff) := by
  have hh := nearest_half c.os (x * (eff * c.scale.toR (Nat.cast : Nat → R))) (n - 1) h0 h1
  have hb := le_trans hδ hh
  have := decode_affine (tl := (0 : R)) hs he (x := x) (by simpa using hb)
  simpa [singleCoord, singleDecode1, encode] using this

/-- **refinement that overshoots breaks the bound** (general form of F-C02b): when the keypoint sits
exactly on its cell (`x·a = g·os`) any refinement offset larger than half a cell — which is what
integral regression returns when its zero-padded patch crosses the map border — puts the decoded
coordinate further than half a cell from the truth.  So the hypothesis `hδ` of `single_roundtrip`
("the offset does not move away from the truth") cannot be dropped. -/
theorem refined_overshoot_breaks_bound (c : SingleCfg) (eff x δ : R) (n : Nat)
    (hs : 0 < c.scale.toR (Nat.cast : Nat → R)) (he : 0 < eff) (hos : 0 < (c.os : R))
    (hq : x * (eff * c.scale.toR Nat.cast)
            = ((nearest Nat.cast c.os (x * (eff * c.scale.toR Nat.cast)) (n - 1) * c.os : Nat) : R))
    (hδ : 1 / 2 < δ) :
    (c.os : R) / 2 / (c.scale.toR Nat.cast * eff)
      < |singleCoord Nat.cast c (eff * c.scale.toR Nat.cast) eff n x δ - x| := by
  have hse : 0 < c.scale.toR (Nat.cast : Nat → R) * eff := mul_pos hs he
  simp only [singleCoord, singleDecode1, encode]
  generalize nearest Nat.cast c.os (x * (eff * c.scale.toR Nat.cast)) (n - 1) = g at hq ⊢
  have hx : x = ((g : R) * (c.os : R)) / (c.scale.toR Nat.cast * eff) := by
    rw [eq_div_iff (ne_of_gt hse)]
    push_cast at hq
    rw [← hq]; ring
  have e1 : ((g : R) + δ) * (c.os : R) / c.scale.toR Nat.cast / eff - x
      = δ * (c.os : R) / (c.scale.toR Nat.cast * eff) := by
    rw [hx]; field_simp; ring
  rw [e1, abs_of_pos (div_pos (mul_pos (by linarith) hos) hse), div_div, div_lt_div_iff₀ (by positivity) hse]
  nlinarith [mul_pos hos hse]

/-- **F-C02b, the recorded witness** (32×32 frame, input scale 1, output stride 2, integral
refinement, keypoint at x = 0.25 → cell 0, whose 5×5 patch crosses the left border): the measured
refinement offset is ≈ +0.766 cell (49/64; the zero padding removes the left half of the bump); with
the model's decode chain the returned coordinate is 1.531 px — 1.28 px = 0.64 cell from the truth, beyond
the half-cell bound of 1 px, and the offset moves AWAY from the truth (hypothesis `hδ` fails). -/
theorem single_roundtrip_border_counterexample :
    let c : SingleCfg := { scale := ⟨1, 1⟩, os := 2, maxStride := 2, maxH := none, maxW := none }
    let cast : Nat → Rat := fun n => (n : Rat)
    nearest cast c.os ((1 / 4 : Rat) * (1 * c.scale.toR cast)) 15 = 0 ∧
    singleCoord cast c (1 * c.scale.toR cast) 1 16 (1 / 4) (49 / 64) = 49 / 32 ∧
    (c.os : Rat) / 2 / (c.scale.toR cast * 1) < 49 / 32 - 1 / 4 ∧
    ¬ ((0 + 49 / 64 : Rat) * 2 - 1 / 4 ≤ 1 / 4 - 0 * 2) := by
  decide +kernel

/-- **in_tensor_in_range**: for output stride 1 or 2 (dividing the tensor size) every position inside
the tensor — pixel centres `0 … size−1`, hence every in-image keypoint — satisfies the grid-range
hypothesis `h1` of `single_roundtrip`: the grid `0, os, …` reaches within half a stride of the last pixel. -/
theorem in_tensor_in_range (size os : Nat) (q : R) (hos : 1 ≤ os) (hos2 : os ≤ 2) (hd : os ∣ size) (hsz : 1 ≤ size)
    (hq : q ≤ ((size - 1 : Nat) : R)) :
    q ≤ (((gridLen size os - 1) * os : Nat) : R) + (os : R) / 2 := by
  obtain ⟨k, rfl⟩ := hd
  have hk : 1 ≤ k := by
    rcases Nat.eq_zero_or_pos k with h | h
    · subst h; simp at hsz
    · exact h
  have hgl : gridLen (os * k) os = k := by
    unfold gridLen
    have : os * k + os - 1 = os * k + (os - 1) := by omega
    rw [this, Nat.mul_add_div (by omega), Nat.div_eq_of_lt (by omega)]; simp
  rw [hgl]
  have h1 : ((os * k - 1 : Nat) : R) ≤ (((k - 1) * os : Nat) : R) + (os : R) / 2 := by
    have hcases : os = 1 ∨ os = 2 := by omega
    rcases hcases with rfl | rfl
    · have e : (1 * k - 1 : Nat) = (k - 1) * 1 := by omega
      rw [e]
      have : (0 : R) ≤ ((1 : Nat) : R) / 2 := by positivity
      linarith
    · have e : (2 * k - 1 : Nat) = (k - 1) * 2 + 1 := by omega
      rw [e]; push_cast; linarith
  exact le_trans hq h1

/-- **last band, stride 4** (F-C02d): a 32-px tensor with output stride 4 has its last cell at 28; the
in-image position 31 lies beyond `28 + 4/2`, is assigned to cell 28 and comes back 3 px = 0.75 cell off:
for `os > 2` the literal "every visible keypoint within half a cell" fails in the last `os/2 − 1` px. -/
theorem last_band_counterexample :
    singlePoint (R := Rat) (fun n => (n : Rat)) true
        { scale := ⟨1, 1⟩, os := 4, maxStride := 4, maxH := none, maxW := none } 32 32 (some (31, 31)) (0, 0)
      = some (28, 28) ∧ ¬ ((31 : Rat) ≤ (((gridLen 32 4 - 1) * 4 : Nat) : Rat) + (4 : Rat) / 2) := by
  decide +kernel

/-- **unravel_exact**: the rough global peak is the cell that holds the flat argmax, for maps of ANY
size (no 2^24 limit: the arithmetic is on integers): the cell is inside the row and re-flattens to the
index. -/
theorem unravel_exact (w idx : Nat) (hw : 0 < w) :
    (unravel w idx).1 < w ∧ (unravel w idx).2 * w + (unravel w idx).1 = idx := by
  constructor
  · exact Nat.mod_lt _ hw
  · simp only [unravel]
    rw [Nat.mul_comm]
    exact Nat.div_add_mod idx w

example : unravel 4100 16790501 = (1001, 4095) := by decide

/-- no refinement (`δ = 0`) satisfies the refinement hypothesis -/
theorem no_refinement_ok (g os : Nat) (q : R) :
    |((g : R) + 0) * (os : R) - q| ≤ |((g * os : Nat) : R) - q| := by
  simp

/-- **topdown_roundtrip** (one coordinate): for EVERY crop top-left `tl` — hence every centroid
position, every centroid-stage quantisation or refinement, every crop size — a keypoint that lies
in the crop's grid range comes back within half an instance-stage cell: the centroid error moves
the crop but cancels in `peak + bbox top-left`. -/
theorem topdown_roundtrip (c : TopDownCfg) (eff tl x δ : R) (n : Nat)
    (hs : 0 < c.si.toR (Nat.cast : Nat → R)) (he : 0 < eff)
    (h0 : 0 ≤ x * (eff * c.si.toR Nat.cast) - tl)
    (h1 : x * (eff * c.si.toR Nat.cast) - tl ≤ (((n - 1) * c.osI : Nat) : R) + (c.osI : R) / 2)
    (hδ : |((nearest Nat.cast c.osI (x * (eff * c.si.toR Nat.cast) - tl) (n - 1) : Nat) + δ) * (c.osI : R)
            - (x * (eff * c.si.toR Nat.cast) - tl)|
          ≤ |((nearest Nat.cast c.osI (x * (eff * c.si.toR Nat.cast) - tl) (n - 1) * c.osI : Nat) : R)
            - (x * (eff * c.si.toR Nat.cast) - tl)|) :
    |instanceCoord Nat.cast c eff tl n x δ - x| ≤ (c.osI : R) / 2 / (c.si.toR Nat.cast * eff) := by
  have hh := nearest_half c.osI (x * (eff * c.si.toR (Nat.cast : Nat → R)) - tl) (n - 1) h0 h1
  have hb := le_trans hδ hh
  have := decode_affine hs he (x := x) (tl := tl) hb
  simpa [instanceCoord] using this

/-- **topdown_roundtrip_robust**: "the crop contains the animal" DERIVED instead of assumed (one axis,
no refinement): if the centroid lies in the centroid grid's range and the keypoint keeps the margin
`robustAxis` tests with `e = os_c/2/s_c` (half a centroid cell — what `centroid_roundtrip` guarantees),
then the keypoint seen through the crop cut around the centroid stage's own estimate comes back within
half an instance cell.  `robustAxis` is the predicate the harness evaluates per keypoint
(`robust_inside`; the driver returns it so Python and Lean agree case by case). -/
theorem topdown_roundtrip_robust (c : TopDownCfg) (eff cen x : R) (size nC n : Nat)
    (hsc : 0 < c.sc.toR (Nat.cast : Nat → R)) (hsi : 0 < c.si.toR (Nat.cast : Nat → R)) (he : 0 < eff)
    (h0c : 0 ≤ cen * (eff * c.sc.toR Nat.cast))
    (h1c : cen * (eff * c.sc.toR Nat.cast) ≤ (((nC - 1) * c.osC : Nat) : R) + (c.osC : R) / 2)
    (hr : robustAxis Nat.cast c size n eff ((c.osC : R) / 2 / c.sc.toR Nat.cast) (cen * eff) x = true) :
    |instanceCoord Nat.cast c eff (cropTL Nat.cast c size (centroidCoord Nat.cast c eff nC cen 0)) n x 0 - x|
      ≤ (c.osI : R) / 2 / (c.si.toR Nat.cast * eff) := by
  have hc := centroid_roundtrip c eff cen nC hsc h0c h1c
  obtain ⟨hlo, hhi⟩ := robustAxis_spec c size n eff _ (cen * eff) x hr
  obtain ⟨hx0, hx1⟩ := crop_contains c size _ (cen * eff) _ (x * (eff * c.si.toR Nat.cast)) _ (le_of_lt hsi) hc hlo hhi
  exact topdown_roundtrip c eff _ x 0 n hsi he hx0 hx1 (by simp)

/-- the whole animal: whatever the centroid stage did (`cen`, `δc` arbitrary), every visible
keypoint inside its crop's grid range is returned within half a cell; invisible ones stay `none`. -/
theorem topdown_animal_roundtrip (c : TopDownCfg) (H W : Nat) (cen δc : R × R)
    (pts : List (Option (R × R) × (R × R)))
    (hs : 0 < c.si.toR (Nat.cast : Nat → R)) (he : 0 < effScale (Nat.cast : Nat → R) H W c.maxH c.maxW)
    (i : Nat) (hi : i < pts.length) (x y : R) (hp : pts[i].1 = some (x, y)) (hz : pts[i].2 = (0, 0))
    (hx0 : 0 ≤ x * (effScale Nat.cast H W c.maxH c.maxW * c.si.toR Nat.cast)
                - (topdownAnimal Nat.cast c H W cen δc pts).tl.1)
    (hx1 : x * (effScale Nat.cast H W c.maxH c.maxW * c.si.toR Nat.cast)
                - (topdownAnimal Nat.cast c H W cen δc pts).tl.1
            ≤ (((gridLen (instanceInputShape c).2 c.osI - 1) * c.osI : Nat) : R) + (c.osI : R) / 2)
    (hy0 : 0 ≤ y * (effScale Nat.cast H W c.maxH c.maxW * c.si.toR Nat.cast)
                - (topdownAnimal Nat.cast c H W cen δc pts).tl.2)
    (hy1 : y * (effScale Nat.cast H W c.maxH c.maxW * c.si.toR Nat.cast)
                - (topdownAnimal Nat.cast c H W cen δc pts).tl.2
            ≤ (((gridLen (instanceInputShape c).1 c.osI - 1) * c.osI : Nat) : R) + (c.osI : R) / 2) :
    ∃ x' y', (topdownAnimal Nat.cast c H W cen δc pts).pts[i]? = some (some (x', y')) ∧
      |x' - x| ≤ (c.osI : R) / 2 / (c.si.toR Nat.cast * effScale Nat.cast H W c.maxH c.maxW) ∧
      |y' - y| ≤ (c.osI : R) / 2 / (c.si.toR Nat.cast * effScale Nat.cast H W c.maxH c.maxW) := by
  have e : pts[i] = (some (x, y), ((0 : R), (0 : R))) := by
    rcases hpi : pts[i] with ⟨a, b⟩
    rw [hpi] at hp hz; simp only at hp hz; rw [hp, hz]
  refine ⟨instanceCoord Nat.cast c (effScale Nat.cast H W c.maxH c.maxW)
      (topdownAnimal Nat.cast c H W cen δc pts).tl.1 (gridLen (instanceInputShape c).2 c.osI) x 0,
    instanceCoord Nat.cast c (effScale Nat.cast H W c.maxH c.maxW)
      (topdownAnimal Nat.cast c H W cen δc pts).tl.2 (gridLen (instanceInputShape c).1 c.osI) y 0, ?_, ?_, ?_⟩
  · simp only [topdownAnimal, List.getElem?_map, List.getElem?_eq_getElem hi, Option.map_some, e]
  · exact topdown_roundtrip c _ _ x 0 _ hs he hx0 hx1 (by simp)
  · exact topdown_roundtrip c _ _ y 0 _ hs he hy0 hy1 (by simp)

/-- **gtc_roundtrip**: top-down with ground-truth centroids (HEAD) is the instance stage with the
crop centred on the true centroid, so the half-cell bound holds for every keypoint in the crop's
range — an instance of `topdown_roundtrip`. -/
theorem gtc_roundtrip (c : TopDownCfg) (eff cen x δ : R) (size n : Nat)
    (hs : 0 < c.si.toR (Nat.cast : Nat → R)) (he : 0 < eff)
    (h0 : 0 ≤ x * (eff * c.si.toR Nat.cast) - cropTL Nat.cast c size (cen * eff))
    (h1 : x * (eff * c.si.toR Nat.cast) - cropTL Nat.cast c size (cen * eff)
            ≤ (((n - 1) * c.osI : Nat) : R) + (c.osI : R) / 2)
    (hδ : |((nearest Nat.cast c.osI (x * (eff * c.si.toR Nat.cast) - cropTL Nat.cast c size (cen * eff)) (n - 1) : Nat) + δ)
              * (c.osI : R) - (x * (eff * c.si.toR Nat.cast) - cropTL Nat.cast c size (cen * eff))|
          ≤ |((nearest Nat.cast c.osI (x * (eff * c.si.toR Nat.cast) - cropTL Nat.cast c size (cen * eff)) (n - 1) * c.osI : Nat) : R)
              - (x * (eff * c.si.toR Nat.cast) - cropTL Nat.cast c size (cen * eff))|) :
    |gtcCoord Nat.cast c eff size n cen x δ - x| ≤ (c.osI : R) / 2 / (c.si.toR Nat.cast * eff) :=
  topdown_roundtrip c eff _ x δ n hs he h0 h1 hδ

/-- configuration of the F-C02c witness -/
def gtcWitnessCfg : TopDownCfg :=
  { sc := ⟨1, 1⟩, osC := 1, msC := 1, si := ⟨1, 2⟩, osI := 1, msI := 1, cropH := 32, cropW := 32,
    maxH := none, maxW := none }

/-- **regression record F-C02c**: before the fix, 64×96 frame, instance scale ½, stride 1, crop 32, the
animal's anchor keypoint x = 40 (= its centroid) came back at 79 (≈ x / scale); HEAD returns a
keypoint at 41 as 41 (40 itself sits on a cell boundary of the half-scale crop). -/
theorem gtc_asIs_counterexample :
    gtcCoordAsIs (fun n => (n : Rat)) gtcWitnessCfg 1 32 32 40 40 0 = 79 ∧
      gtcCoord (fun n => (n : Rat)) gtcWitnessCfg 1 32 32 40 41 0 = 41 := by
  constructor <;> decide +kernel

/-- the whole single-instance pipeline (preprocessed frame) on a visible keypoint -/
theorem single_point_roundtrip (c : SingleCfg) (H W : Nat) (x y : R)
    (hs : 0 < c.scale.toR (Nat.cast : Nat → R)) (he : 0 < effScale (Nat.cast : Nat → R) H W c.maxH c.maxW)
    (hx0 : 0 ≤ x * (effScale Nat.cast H W c.maxH c.maxW * c.scale.toR Nat.cast))
    (hx1 : x * (effScale Nat.cast H W c.maxH c.maxW * c.scale.toR Nat.cast)
            ≤ (((gridLen (singleInputShape true c H W).2 c.os - 1) * c.os : Nat) : R) + (c.os : R) / 2)
    (hy0 : 0 ≤ y * (effScale Nat.cast H W c.maxH c.maxW * c.scale.toR Nat.cast))
    (hy1 : y * (effScale Nat.cast H W c.maxH c.maxW * c.scale.toR Nat.cast)
            ≤ (((gridLen (singleInputShape true c H W).1 c.os - 1) * c.os : Nat) : R) + (c.os : R) / 2) :
    ∃ x' y', singlePoint Nat.cast true c H W (some (x, y)) (0, 0) = some (x', y') ∧
      |x' - x| ≤ (c.os : R) / 2 / (c.scale.toR Nat.cast * effScale Nat.cast H W c.maxH c.maxW) ∧
      |y' - y| ≤ (c.os : R) / 2 / (c.scale.toR Nat.cast * effScale Nat.cast H W c.maxH c.maxW) := by
  refine ⟨_, _, rfl, ?_, ?_⟩
  · exact single_roundtrip c _ x 0 _ hs he hx0 hx1 (by simp)
  · exact single_roundtrip c _ y 0 _ hs he hy0 hy1 (by simp)

/-- **invisible_is_none**: an invisible keypoint is returned as missing (NaN) with value 0, by
both pipelines, whatever the configuration. -/
theorem invisible_is_none_single (cast : Nat → R) (pre : Bool) (c : SingleCfg) (H W : Nat) (δ : R × R) (v : R) :
    singlePoint cast pre c H W none δ = none ∧
      valueOf (0 : R) v (singlePoint cast pre c H W none δ) = 0 := by
  constructor <;> rfl

theorem invisible_is_none_topdown (cast : Nat → R) (c : TopDownCfg) (H W : Nat) (cen δc : R × R)
    (pts : List (Option (R × R) × (R × R))) (i : Nat) (hi : i < pts.length) (hp : pts[i].1 = none) :
    (topdownAnimal cast c H W cen δc pts).pts[i]? = some none := by
  simp [topdownAnimal, List.getElem?_eq_getElem hi, hp]

/-- and a visible one is never turned into a missing one — "visible" in the model means labelled AND
detectable: the model has no threshold, the hypothesis "the ideal peak reaches `peak_threshold`"
(worst case `exp(−1/(4σ²))` at a half-cell offset) is applied by the harness when it builds the model's
input (σ = 0.35 cell at threshold 0.2 legitimately returns NaN), and is varied on every run -/
theorem visible_is_some_single (cast : Nat → R) (pre : Bool) (c : SingleCfg) (H W : Nat) (p δ : R × R) :
    (singlePoint cast pre c H W (some p) δ).isSome := rfl

/-- **provider_agnostic** (HEAD: `preprocess = True` for both providers): the answer does not depend on
the provider (true by construction of the model — the content of this clause is the harness's
LabelsReader ≡ VideoReader oracle). -/
theorem provider_agnostic (cast : Nat → R) (c : SingleCfg) (H W : Nat) (p : Option (R × R)) (δ : R × R) :
    singlePoint cast (preprocessFixed .labels) c H W p δ = singlePoint cast (preprocessFixed .video) c H W p δ :=
  rfl

/-- top-down never depended on it (`preprocess = False` for both; `CentroidCrop` resizes itself) -/
theorem provider_agnostic_topdown : preprocessTopDown .labels = preprocessTopDown .video := rfl

/-- **regression record F-C02 (before 569dda2) — with the old per-provider switch the property was false**: an 8×8 frame, input scale ½, stride 1,
keypoint (5, 3): `LabelsReader` (not resized, still divided by the scale) returns (10, 6),
`VideoReader` returns (4, 2) (cell of (2.5, 1.5), first minimiser). -/
theorem provider_agnostic_counterexample :
    singlePoint (R := Rat) (fun n => (n : Rat)) (preprocessAsIs .labels)
        { scale := ⟨1, 2⟩, os := 1, maxStride := 1, maxH := none, maxW := none } 8 8 (some (5, 3)) (0, 0)
      = some (10, 6) ∧
    singlePoint (R := Rat) (fun n => (n : Rat)) (preprocessAsIs .video)
        { scale := ⟨1, 2⟩, os := 1, maxStride := 1, maxH := none, maxW := none } 8 8 (some (5, 3)) (0, 0)
      = some (4, 2) := by
  decide +kernel

/-! ### the hypotheses are satisfiable -/

example : (0 : Rat) < (⟨3, 4⟩ : Scale).toR (Nat.cast : Nat → Rat) := by
  simp [Scale.toR]

/-- a 64×96 frame matched to 128×192 (eff = 2), scale ½, stride 2: keypoint x = 20.25 is in range -/
example :
    let c : SingleCfg := { scale := ⟨1, 2⟩, os := 2, maxStride := 8, maxH := some 128, maxW := some 192 }
    effScale (Nat.cast : Nat → Rat) 64 96 c.maxH c.maxW = 2 ∧
    (0 : Rat) ≤ (81 / 4 : Rat) * (2 * c.scale.toR Nat.cast) ∧
    (81 / 4 : Rat) * (2 * c.scale.toR Nat.cast)
      ≤ (((gridLen (singleInputShape true c 64 96).2 c.os - 1) * c.os : Nat) : Rat) + (c.os : Rat) / 2 := by
  decide +kernel

end SleapVerif.C02
