import SleapVerif.Lemmas.Pipelines

/-!
# C18 — interchangeable data-pipeline implementations produce the same samples

Theorems about `Model/Pipelines.lean`, for every ordered field `R` and every numeric environment
`N : Num R` (how `int(round(·))`/`int(·)` behave is irrelevant: all frameworks ask the same
questions).  `mem` = torch dataset with the in-memory cache, `np` = torch dataset with `.npz`
chunks, `stream` = chunk function + streaming `__getitem__`.

"Pixels agree up to one 8-bit round trip" is stated on the terms: erasing `quant8` from the `np` and
`stream` terms gives the `mem` term, and each of them contains exactly one `quant8`.  In addition
`np_stream_pixels_equal`: under any interpretation of the primitives in which zero-padding commutes
with the round trip (validated on real images by the harness on every case) the `np` and `stream`
pixels are *equal*.

`sampleOf` is the tree as it is since `fix:` 3fdd300 (torch datasets honour the config's
`max_height/max_width`); `frameworks_agree_scale1` / `frameworks_agree_any_scale` are the full
statements for it.  The tree before the fix is `sampleOfAsWas`; `cfg_max_override_counterexample`
(F-C18a) is kept about it as the regression record.  `SingleInstanceDataset` builds one-instance samples since b2232cf; the tree before it is
`sampleOfBeforeB2232cf` with `single_maxinst_counterexample` (F-C18b) as its regression record.
No hypothesis of the two statements names a defect any more.
-/

set_option linter.unusedSectionVars false

namespace SleapVerif.C18
open SleapVerif SleapVerif.Pipelines SleapVerif.Scalar

variable {R : Type} [Field R] [LinearOrder R] [IsStrictOrderedRing R]

/-- pixel parts agree up to one 8-bit round trip -/
def PixelsAgree (m n s : Sample R) : Prop :=
  n.img.erase = m.img ∧ s.img.erase = m.img ∧
  m.img.quants = 0 ∧ n.img.quants = 1 ∧ s.img.quants = 1

/-- every coordinate field of the two samples is the same -/
def CoordsEq (a b : Sample R) : Prop :=
  a.instances = b.instances ∧ a.centroids = b.centroids ∧ a.bbox = b.bbox

/-- "same configuration" for the number of NaN padding rows: the chunk functions are handed the
`max_instances` the torch dataset computes from its own labels (`get_bin_files.py` hands the TRAIN
labels' maximum to the validation chunks as well: see `val_glue_only_padding`) -/
def SameGlue (cfg : Cfg R) : Prop := chunkMaxInstOf cfg = cfg.maxInstances

theorem shape_erase (N : Num R) (raw : Nat × Nat × Nat) (i : Img R) :
    shape N raw i.erase = shape N raw i := Pipelines.shape_erase N raw i

theorem centroidOf_scale (s : R) (hs : 0 < s) (anchor : Option Nat) (i : Inst R) :
    centroidOf anchor (scaleInst s i) = scalePt s (centroidOf anchor i) :=
  Pipelines.centroidOf_scale s hs anchor i

example : centroidOf (R := Rat) (some 0) (scaleInst (1/2) [none, some (4, 6), some (8, 2)])
    = scalePt (1/2) (centroidOf (some 0) [none, some (4, 6), some (8, 2)]) :=
  centroidOf_scale (1/2) (by norm_num) _ _

/-! ## single-instance and bottom-up: any scale -/

theorem plain_agree (N : Num R) (cfg : Cfg R) (fr : Frame R) (k : Nat)
    (hmt : cfg.mt = .single ∨ cfg.mt = .bottomup) (hglue : SameGlue cfg) :
    PixelsAgree (sampleOf N .mem cfg fr k) (sampleOf N .np cfg fr k) (sampleOf N .stream cfg fr k) ∧
    CoordsEq (sampleOf N .np cfg fr k) (sampleOf N .mem cfg fr k) ∧
    CoordsEq (sampleOf N .stream cfg fr k) (sampleOf N .mem cfg fr k) ∧
    (sampleOf N .np cfg fr k).numInstances = (sampleOf N .mem cfg fr k).numInstances ∧
    (sampleOf N .stream cfg fr k).numInstances = (sampleOf N .mem cfg fr k).numInstances := by
  rcases hmt with h | h
  · simp [sampleOf, sampleOfH, h, torchPlain, streamPlain, PixelsAgree, CoordsEq, Img.erase, Img.quants,
      dsMaxH, dsMaxW, dsMaxInst, Tree.current, processLf_num, q8If]
  · have hg : chunkMaxInstOf cfg = cfg.maxInstances := hglue
    simp [sampleOf, sampleOfH, h, torchPlain, streamPlain, PixelsAgree, CoordsEq, Img.erase, Img.quants,
      dsMaxH, dsMaxW, dsMaxInst, Tree.current, processLf_num, q8If, hg]

/-! ## centroid: any positive scale -/

theorem centroid_agree (N : Num R) (cfg : Cfg R) (fr : Frame R) (k : Nat)
    (hmt : cfg.mt = .centroid) (hs : 0 < cfg.scale) (hglue : SameGlue cfg) :
    PixelsAgree (sampleOf N .mem cfg fr k) (sampleOf N .np cfg fr k) (sampleOf N .stream cfg fr k) ∧
    CoordsEq (sampleOf N .np cfg fr k) (sampleOf N .mem cfg fr k) ∧
    (sampleOf N .stream cfg fr k).centroids = (sampleOf N .mem cfg fr k).centroids ∧
    (sampleOf N .stream cfg fr k).bbox = (sampleOf N .mem cfg fr k).bbox ∧
    (cfg.scale = 1 → (sampleOf N .stream cfg fr k).instances = (sampleOf N .mem cfg fr k).instances) ∧
    (sampleOf N .np cfg fr k).numInstances = (sampleOf N .mem cfg fr k).numInstances ∧
    (sampleOf N .stream cfg fr k).numInstances = (sampleOf N .mem cfg fr k).numInstances := by
  have hg : chunkMaxInstOf cfg = cfg.maxInstances := hglue
  have key : applyResizerCen cfg.scale
        ((List.map (scaleInst (effScale N fr (chunkMaxH cfg) (chunkMaxW cfg))) (processLf cfg.maxInstances fr.insts).1).map
          (centroidOf cfg.anchor))
      = (applyResizerPts cfg.scale
          (List.map (scaleInst (effScale N fr (chunkMaxH cfg) (chunkMaxW cfg))) (processLf cfg.maxInstances fr.insts).1)).map
          (centroidOf cfg.anchor) := by
    unfold applyResizerCen applyResizerPts
    split
    · rfl
    · exact (map_centroidOf_scale cfg.scale hs cfg.anchor _).symm
  refine ⟨?_, ?_, ?_, ?_, ?_, ?_, ?_⟩
  · simp [sampleOf, sampleOfH, dsMaxH, dsMaxW, Tree.current, hmt, torchCentroid, streamCentroid, hg, PixelsAgree, Img.erase, Img.quants, q8If]
  · simp [sampleOf, sampleOfH, dsMaxH, dsMaxW, Tree.current, hmt, torchCentroid, CoordsEq]
  · simpa [sampleOf, sampleOfH, dsMaxH, dsMaxW, Tree.current, hmt, torchCentroid, streamCentroid, hg, hg] using key
  · simp [sampleOf, sampleOfH, dsMaxH, dsMaxW, Tree.current, hmt, torchCentroid, streamCentroid, hg, hg]
  · intro h1
    simp [sampleOf, sampleOfH, dsMaxH, dsMaxW, Tree.current, hmt, torchCentroid, streamCentroid, hg, applyResizerPts, h1]
  · simp [sampleOf, sampleOfH, dsMaxH, dsMaxW, Tree.current, hmt, torchCentroid]
  · simp [sampleOf, sampleOfH, dsMaxH, dsMaxW, Tree.current, hmt, torchCentroid, streamCentroid, hg, processLf_num]

/-! ## centred instance: scale 1 -/

theorem centered_agree_scale1 (N : Num R) (cfg : Cfg R) (fr : Frame R) (k : Nat)
    (hmt : cfg.mt = .centered) (hs : cfg.scale = 1)
    (hN : N.mulTrunc cfg.cropH 1 = cfg.cropH ∧ N.mulTrunc cfg.cropW 1 = cfg.cropW) (hk : k < (nonEmpty fr.insts).length) :
    PixelsAgree (sampleOf N .mem cfg fr k) (sampleOf N .np cfg fr k) (sampleOf N .stream cfg fr k) ∧
    CoordsEq (sampleOf N .np cfg fr k) (sampleOf N .mem cfg fr k) ∧
    CoordsEq (sampleOf N .stream cfg fr k) (sampleOf N .mem cfg fr k) ∧
    (sampleOf N .np cfg fr k).numInstances = (sampleOf N .mem cfg fr k).numInstances ∧
    (nonEmpty fr.insts = fr.insts →
      (sampleOf N .stream cfg fr k).numInstances = (sampleOf N .mem cfg fr k).numInstances) ∧
    (sampleOf N .np cfg fr k).img = (sampleOf N .stream cfg fr k).img := by
  have hget : (processLf (chunkMaxInstOf cfg) fr.insts).1[k]? = some ((nonEmpty fr.insts)[k]) := by
    rw [processLf_getElem? _ _ _ hk]; exact List.getElem?_eq_getElem hk
  have hget' : (nonEmpty fr.insts)[k]? = some ((nonEmpty fr.insts)[k]) := List.getElem?_eq_getElem hk
  obtain ⟨hN1, hN2⟩ := hN
  refine ⟨?_, ?_, ?_, ?_, ?_, ?_⟩
  · simp [sampleOf, sampleOfH, dsMaxH, dsMaxW, Tree.current, hmt, torchCentered, streamCentered, recrop, generateCrops, PixelsAgree, Img.erase,
      Img.quants, hs, hN1, hN2, applyResizer, applyResizerPts, hget, hget', q8If]
  · simp [sampleOf, sampleOfH, dsMaxH, dsMaxW, Tree.current, hmt, torchCentered, recrop, generateCrops, CoordsEq]
  · simp [sampleOf, sampleOfH, dsMaxH, dsMaxW, Tree.current, hmt, torchCentered, streamCentered, recrop, generateCrops, CoordsEq, hs, hN1, hN2,
      applyResizer, applyResizerPts, hget, hget']
  · simp [sampleOf, sampleOfH, dsMaxH, dsMaxW, Tree.current, hmt, torchCentered, recrop]
  · intro hne
    simp [sampleOf, sampleOfH, dsMaxH, dsMaxW, Tree.current, hmt, torchCentered, streamCentered, recrop, processLf_num, hne]
  · simp [sampleOf, sampleOfH, dsMaxH, dsMaxW, Tree.current, hmt, torchCentered, streamCentered, recrop, generateCrops, hs, hN1, hN2, applyResizer,
      applyResizerPts, hget, hget', q8If]

/-! ## the two statements of the property -/

/-- **All four model types at scale 1** — the full statement, for the tree as it is.  No hypothesis
relates `max_hw` to the config's `max_height/max_width` (3fdd300) or restricts the labels of a
single-instance model (b2232cf) any more.  `hk`: `k` addresses an existing non-empty instance;
`hN`: `int(n * 1.0) = n`.  Beyond the statement (metadata): `num_instances` of the centred-instance
streaming sample agrees when the frame has no empty instance. -/
theorem frameworks_agree_scale1 (N : Num R) (cfg : Cfg R) (fr : Frame R) (k : Nat)
    (hs : cfg.scale = 1) (hglue : SameGlue cfg) (_hne : nonEmpty fr.insts ≠ [])
    (hN : N.mulTrunc cfg.cropH 1 = cfg.cropH ∧ N.mulTrunc cfg.cropW 1 = cfg.cropW)
    (hk : cfg.mt = .centered → k < (nonEmpty fr.insts).length) :
    PixelsAgree (sampleOf N .mem cfg fr k) (sampleOf N .np cfg fr k) (sampleOf N .stream cfg fr k) ∧
    CoordsEq (sampleOf N .np cfg fr k) (sampleOf N .mem cfg fr k) ∧
    CoordsEq (sampleOf N .stream cfg fr k) (sampleOf N .mem cfg fr k) ∧
    (sampleOf N .np cfg fr k).numInstances = (sampleOf N .mem cfg fr k).numInstances ∧
    ((cfg.mt = .centered → nonEmpty fr.insts = fr.insts) →
      (sampleOf N .stream cfg fr k).numInstances = (sampleOf N .mem cfg fr k).numInstances) := by
  have hpos : (0 : R) < cfg.scale := by rw [hs]; exact one_pos
  cases hmt : cfg.mt with
  | single =>
    obtain ⟨a, b, c, d, e⟩ := plain_agree N cfg fr k (Or.inl hmt) hglue
    exact ⟨a, b, c, d, fun _ => e⟩
  | bottomup =>
    obtain ⟨a, b, c, d, e⟩ := plain_agree N cfg fr k (Or.inr hmt) hglue
    exact ⟨a, b, c, d, fun _ => e⟩
  | centroid =>
    obtain ⟨a, b, c, d, e, f, g⟩ := centroid_agree N cfg fr k hmt hpos hglue
    exact ⟨a, b, ⟨e hs, c, d⟩, f, fun _ => g⟩
  | centered =>
    obtain ⟨a, b, c, d, e, _⟩ := centered_agree_scale1 N cfg fr k hmt hs hN (hk hmt)
    exact ⟨a, b, c, d, fun h => e (h rfl)⟩

/-- **Single-instance, centroid and bottom-up at any positive scale** — the full statement: pixel
terms agree up to one round trip; the points the targets are drawn from (`instances`, resp.
`centroids` for the centroid model) are the same; `num_instances` is the same. -/
theorem frameworks_agree_any_scale (N : Num R) (cfg : Cfg R) (fr : Frame R) (k : Nat)
    (hmt : cfg.mt ≠ .centered) (hs : 0 < cfg.scale) (hglue : SameGlue cfg) (_hne : nonEmpty fr.insts ≠ []) :
    PixelsAgree (sampleOf N .mem cfg fr k) (sampleOf N .np cfg fr k) (sampleOf N .stream cfg fr k) ∧
    CoordsEq (sampleOf N .np cfg fr k) (sampleOf N .mem cfg fr k) ∧
    (sampleOf N .stream cfg fr k).centroids = (sampleOf N .mem cfg fr k).centroids ∧
    (cfg.mt ≠ .centroid → (sampleOf N .stream cfg fr k).instances = (sampleOf N .mem cfg fr k).instances) ∧
    (sampleOf N .np cfg fr k).numInstances = (sampleOf N .mem cfg fr k).numInstances ∧
    (sampleOf N .stream cfg fr k).numInstances = (sampleOf N .mem cfg fr k).numInstances := by
  cases h : cfg.mt with
  | single =>
    obtain ⟨a, b, c, d, e⟩ := plain_agree N cfg fr k (Or.inl h) hglue
    exact ⟨a, b, c.2.1, fun _ => c.1, d, e⟩
  | bottomup =>
    obtain ⟨a, b, c, d, e⟩ := plain_agree N cfg fr k (Or.inr h) hglue
    exact ⟨a, b, c.2.1, fun _ => c.1, d, e⟩
  | centroid =>
    obtain ⟨a, b, c, _, _, f, g⟩ := centroid_agree N cfg fr k h hs hglue
    exact ⟨a, b, c, fun hne => absurd rfl hne, f, g⟩
  | centered => exact absurd h hmt

/-- the hypotheses are satisfiable by a non-trivial configuration: bottom-up, scale 1/2, the config
overrides one component of `max_hw` (96×128 → 96×160), two instances per frame at most -/
def cfg1 : Cfg Rat :=
  { mt := .bottomup, isRgb := true, maxH := 96, maxW := 128, cfgMaxH := none, cfgMaxW := some 160,
    scale := 1/2, maxStride := 16, cropH := 32, cropW := 32, anchor := some 0, maxInstances := 2,
    aliasing := false }

example : cfg1.mt ≠ .centered ∧ 0 < cfg1.scale ∧ SameGlue cfg1 ∧
    nonEmpty ([[none, some ((3 : Rat), 4)], [none, none]] : List (Inst Rat)) ≠ [] := by
  refine ⟨by decide, by norm_num [cfg1], rfl, by decide⟩

/-- `int(48 * 1.0) = 48`, `int(47 * 1.0) = 47` in the driver's float64 environment; and the float64
product matters: `int(100 * 0.7) = 70` although `100 · (0.7 as a rational) < 70` -/
example : numRat.mulTrunc 48 1 = 48 ∧ numRat.mulTrunc 47 1 = 47 ∧
    numRat.mulTrunc 100 (3152519739159347 / 4503599627370496) = 70 ∧
    ((100 : Rat) * (3152519739159347 / 4503599627370496)).floor = 69 := by
  decide +kernel

/-- **`np` and `stream` pixels are equal**, not merely close, under any interpretation of the
primitives in which bottom/right zero-padding commutes with the 8-bit round trip. -/
theorem np_stream_pixels_equal {P : Type} (I : Interp R P)
    (hcomm : ∀ (m : Nat) (p : P), I.padStride m (I.quant8 p) = I.quant8 (I.padStride m p))
    (N : Num R) (cfg : Cfg R) (fr : Frame R) (k : Nat)
    (hc : cfg.mt = .centered → cfg.scale = 1 ∧
      (N.mulTrunc cfg.cropH 1 = cfg.cropH ∧ N.mulTrunc cfg.cropW 1 = cfg.cropW) ∧
      k < (nonEmpty fr.insts).length) :
    I.eval (sampleOf N .np cfg fr k).img = I.eval (sampleOf N .stream cfg fr k).img := by
  cases hmt : cfg.mt with
  | single =>
    simp [sampleOf, sampleOfH, dsMaxH, dsMaxW, Tree.current, hmt, torchPlain, streamPlain, q8If, Interp.eval, hcomm]
  | bottomup =>
    simp [sampleOf, sampleOfH, dsMaxH, dsMaxW, Tree.current, hmt, torchPlain, streamPlain, q8If, Interp.eval, hcomm]
  | centroid =>
    simp [sampleOf, sampleOfH, dsMaxH, dsMaxW, Tree.current, hmt, torchCentroid, streamCentroid, q8If, Interp.eval, hcomm]
  | centered =>
    obtain ⟨h1, h2, h3⟩ := hc hmt
    rw [(centered_agree_scale1 N cfg fr k hmt h1 h2 h3).2.2.2.2.2]

/-! ## which instances are enumerated (`user_instances_only`) -/

theorem filterFrame_idem (uio : Bool) (l : Labelled R) :
    filterFrame uio (filterFrame uio l) = filterFrame uio l := by
  unfold filterFrame
  by_cases h : (uio && !(l.filter fun p => !p.1).isEmpty) = true
  · simp only [h, if_true, List.filter_filter, Bool.and_self]
  · simp only [h]
    simp [h]

/-- **All three frameworks enumerate the same instances of a labelled frame**, for every model type,
with and without `user_instances_only`, wherever the predicted instances sit in the frame: the user
instances when the flag is set and there is one, else every instance. -/
theorem frameworks_enumerate_same_instances (mt : MT) (uio : Bool) (l : Labelled R) :
    enumerated .np mt uio l = enumerated .mem mt uio l ∧
    enumerated .stream mt uio l = enumerated .mem mt uio l ∧
    enumerated .mem mt uio l = (filterFrame uio l).map (·.2) := by
  cases mt <;> simp [enumerated, filterFrame_idem]

/-- hence every statement about `sampleOf` on the frame the in-memory dataset sees is a statement about
the three frameworks on the raw labelled frame -/
theorem sampleOfRaw_eq (N : Num R) (fw : FW) (cfg : Cfg R) (uio : Bool) (rf : RawFrame R) (k : Nat) :
    sampleOfRaw N fw cfg uio rf k = sampleOf N fw cfg (rf.seenBy .mem cfg.mt uio) k := by
  have h := frameworks_enumerate_same_instances cfg.mt uio rf.labelled
  cases fw <;> simp [sampleOfRaw, RawFrame.seenBy, h.1, h.2.1]

/-- a predicted instance in front of a user instance is dropped; a frame with predicted instances only
is used as it is -/
example : filterFrame true [(true, [some ((1 : Rat), 2)]), (false, [some (3, 4)])] = [(false, [some (3, 4)])] ∧
    filterFrame true [(true, [some ((1 : Rat), 2)])] = [(true, [some (1, 2)])] ∧
    filterFrame false [(true, [some ((1 : Rat), 2)]), (false, [some (3, 4)])]
      = [(true, [some (1, 2)]), (false, [some (3, 4)])] := by
  decide +kernel

/-! ## the `.npz` chunk directory -/

/-- **A dataset built with `use_existing_chunks = False` serves its own samples whatever the chunk
directory held before** (trivial in the model: this is the obligation the correspondence checks by
building a second, different dataset on a directory an earlier one has filled). -/
theorem np_chunks_rewrite_independent_of_directory_state (N : Num R) (cfg : Cfg R)
    (items : List (Frame R × Nat)) (d d' : List (Sample R)) :
    (npDataset N false d cfg items).2 = (npDataset N false d' cfg items).2 ∧
    (npDataset N false d cfg items).2 = items.map fun it => sampleOf N .np cfg it.1 it.2 := by
  simp [npDataset]

/-- with `use_existing_chunks = True` on a directory a dataset has just filled from scratch, that
dataset's samples are served -/
theorem np_chunks_existing_serves_directory (N : Num R) (cfg cfg' : Cfg R)
    (items items' : List (Frame R × Nat)) :
    (npDataset N true (npDataset N false [] cfg items).1 cfg' items').2
      = items.map fun it => sampleOf N .np cfg it.1 it.2 := by
  simp [npDataset]

/-! ## glue: `max_instances` of the validation chunks -/

theorem processLf_take (m : Nat) (l : List (Inst R)) :
    (processLf m l).1.take (nonEmpty l).length = nonEmpty l := by
  unfold processLf
  by_cases h : m ≠ 1
  · simp only [if_pos h]; exact List.take_left' rfl
  · simp only [if_neg h]; exact List.take_length

theorem take_applyResizerPts (s : R) (n : Nat) (l : List (Inst R)) :
    (applyResizerPts s l).take n = applyResizerPts s (l.take n) := by
  unfold applyResizerPts; split <;> simp [List.map_take]

theorem take_applyResizerCen (s : R) (n : Nat) (l : List (Pt R)) :
    (applyResizerCen s l).take n = applyResizerCen s (l.take n) := by
  unfold applyResizerCen; split <;> simp [List.map_take]

/-- **Whatever `max_instances` the chunk functions are handed** (e.g. the TRAIN labels' maximum for
the validation chunks, `get_bin_files.py:43`), only the number of trailing all-NaN rows can differ:
the first `num_instances` rows of `instances` (bottom-up) resp. `centroids` (centroid model) — the
rows the targets are drawn from — are the same as the torch dataset's. -/
theorem val_glue_only_padding (N : Num R) (cfg : Cfg R) (fr : Frame R) (k : Nat) :
    (cfg.mt = .bottomup →
      (sampleOf N .stream cfg fr k).instances.take (sampleOf N .stream cfg fr k).numInstances
        = (sampleOf N .mem cfg fr k).instances.take (sampleOf N .mem cfg fr k).numInstances) ∧
    (cfg.mt = .centroid → 0 < cfg.scale →
      (sampleOf N .stream cfg fr k).centroids.take (sampleOf N .stream cfg fr k).numInstances
        = (sampleOf N .mem cfg fr k).centroids.take (sampleOf N .mem cfg fr k).numInstances) := by
  constructor
  · intro h
    simp [sampleOf, sampleOfH, h, torchPlain, streamPlain, dsMaxH, dsMaxW, dsMaxInst, Tree.current,
      processLf_num, take_applyResizerPts, ← List.map_take, processLf_take]
  · intro h hs
    have key : ∀ l : List (Inst R), applyResizerCen cfg.scale (l.map (centroidOf cfg.anchor))
        = (applyResizerPts cfg.scale l).map (centroidOf cfg.anchor) := by
      intro l
      unfold applyResizerCen applyResizerPts
      split
      · rfl
      · exact (map_centroidOf_scale cfg.scale hs cfg.anchor _).symm
    simp only [sampleOf, sampleOfH, h, torchCentroid, streamCentroid, dsMaxH, dsMaxW, Tree.current,
      processLf_num, if_true, key, ← List.map_take, take_applyResizerPts, processLf_take]

/-- the padding itself does differ: 1 animal, torch dataset built from labels with at most 1 instance,
chunks padded to the train labels' 3 -/
theorem val_glue_counterexample :
    let cfg := { cfg1 with maxInstances := 1, chunkMaxInst := some 3 }
    let fr : Frame Rat := { h := 96, w := 128, c := 1, insts := [[some (8, 8), some (16, 12)]] }
    (sampleOf numRat .mem cfg fr 0).instances.length = 1 ∧
    (sampleOf numRat .stream cfg fr 0).instances.length = 3 := by
  decide +kernel

/-- `use_existing_chunks = True` serves whatever the directory holds: after a dataset with 3 items and
a later rewrite by a dataset with 1 item, 3 samples are served and the last two are the first
dataset's (finding F-C18e; the rewrite does not remove surplus files). -/
theorem np_chunks_existing_dirty_counterexample :
    let fr : Frame Rat := { h := 96, w := 128, c := 1, insts := [[some (8, 8), some (16, 12)]] }
    let cfgA := { cfg1 with scale := 1 }
    let dirA := (npDataset numRat false [] cfgA [(fr, 0), (fr, 0), (fr, 0)]).1
    let dirB := (npDataset numRat false dirA cfg1 [(fr, 0)]).1
    (npDataset numRat true dirB cfg1 [(fr, 0)]).2.length = 3 ∧
    ((npDataset numRat true dirB cfg1 [(fr, 0)]).2.drop 1) = dirA.drop 1 := by
  decide +kernel

/-! ## number of samples per frame -/

/-- a frame with at least one non-empty instance yields the same number of samples everywhere -/
theorem sample_count_agree (mt : MT) (fr : Frame R) (h : nonEmpty fr.insts ≠ []) :
    sampleCount .np mt fr = sampleCount .mem mt fr ∧ sampleCount .stream mt fr = sampleCount .mem mt fr := by
  have : (nonEmpty fr.insts).length ≠ 0 := fun h0 => h (List.eq_nil_of_length_eq_zero h0)
  simp [sampleCount, this]

/-! ## targets -/

/-- **Targets are a function of the points and the image size only**: two samples whose pixel terms
agree up to round trips and whose target points agree get the same target specifications (hence,
under any interpretation of the generators, the same confidence maps / PAFs). -/
theorem targets_from_same_points (N : Num R) (raw : Nat × Nat × Nat) (mt : MT) (hd : Heads R)
    (a b : Sample R) (himg : a.img.erase = b.img.erase)
    (hinst : mt ≠ .centroid → a.instances = b.instances)
    (hcen : mt = .centroid → a.centroids = b.centroids)
    (hnum : mt = .centroid ∨ mt = .bottomup → a.numInstances = b.numInstances) :
    targetsOf N raw mt hd a = targetsOf N raw mt hd b := by
  have hsh : shape N raw a.img = shape N raw b.img := by
    rw [← shape_erase N raw a.img, ← shape_erase N raw b.img, himg]
  cases mt with
  | single => simp [targetsOf, hsh, hinst (by decide)]
  | centered => simp [targetsOf, hsh, hinst (by decide)]
  | centroid => simp [targetsOf, hsh, hcen rfl, hnum (Or.inl rfl)]
  | bottomup => simp [targetsOf, hsh, hinst (by decide), hnum (Or.inr rfl)]

theorem erase_eq_of_pixelsAgree {m n s : Sample R} (h : PixelsAgree m n s) :
    n.img.erase = m.img.erase ∧ s.img.erase = m.img.erase := by
  obtain ⟨h1, h2, _, _, _⟩ := h
  have hm : m.img.erase = m.img := by
    have := congrArg Img.erase h1
    -- erase is idempotent
    have idem : ∀ i : Img R, i.erase.erase = i.erase := by
      intro i; induction i <;> simp_all [Img.erase]
    rw [idem] at this; rw [← this, h1]
  exact ⟨by rw [h1, hm], by rw [h2, hm]⟩

/-- at scale 1 the three frameworks generate the same targets, for every model type -/
theorem targets_agree_scale1 (N : Num R) (hd : Heads R) (raw : Nat × Nat × Nat) (cfg : Cfg R) (fr : Frame R)
    (k : Nat) (hs : cfg.scale = 1) (hglue : SameGlue cfg) (hne : nonEmpty fr.insts ≠ [])
    (hN : N.mulTrunc cfg.cropH 1 = cfg.cropH ∧ N.mulTrunc cfg.cropW 1 = cfg.cropW)
    (hk : cfg.mt = .centered → k < (nonEmpty fr.insts).length) :
    targetsOf N raw cfg.mt hd (sampleOf N .np cfg fr k) = targetsOf N raw cfg.mt hd (sampleOf N .mem cfg fr k) ∧
    targetsOf N raw cfg.mt hd (sampleOf N .stream cfg fr k) = targetsOf N raw cfg.mt hd (sampleOf N .mem cfg fr k) := by
  obtain ⟨px, cn, cs, nn, ns⟩ := frameworks_agree_scale1 N cfg fr k hs hglue hne hN hk
  obtain ⟨e1, e2⟩ := erase_eq_of_pixelsAgree px
  refine ⟨targets_from_same_points N raw cfg.mt hd _ _ e1 (fun _ => cn.1) (fun _ => cn.2.1) (fun _ => nn),
          targets_from_same_points N raw cfg.mt hd _ _ e2 (fun _ => cs.1) (fun _ => cs.2.1) ?_⟩
  intro h
  apply ns
  intro hc
  rcases h with h | h <;> rw [h] at hc <;> exact absurd hc (by decide)

/-- single-instance, centroid, bottom-up: the same targets at any positive scale -/
theorem targets_agree_any_scale (N : Num R) (hd : Heads R) (raw : Nat × Nat × Nat) (cfg : Cfg R) (fr : Frame R)
    (k : Nat) (hmt : cfg.mt ≠ .centered) (hs : 0 < cfg.scale) (hglue : SameGlue cfg)
    (hne : nonEmpty fr.insts ≠ []) :
    targetsOf N raw cfg.mt hd (sampleOf N .np cfg fr k) = targetsOf N raw cfg.mt hd (sampleOf N .mem cfg fr k) ∧
    targetsOf N raw cfg.mt hd (sampleOf N .stream cfg fr k) = targetsOf N raw cfg.mt hd (sampleOf N .mem cfg fr k) := by
  obtain ⟨px, cn, sc, si, nn, ns⟩ := frameworks_agree_any_scale N cfg fr k hmt hs hglue hne
  obtain ⟨e1, e2⟩ := erase_eq_of_pixelsAgree px
  exact ⟨targets_from_same_points N raw cfg.mt hd _ _ e1 (fun _ => cn.1) (fun _ => cn.2.1) (fun _ => nn),
         targets_from_same_points N raw cfg.mt hd _ _ e2 si (fun _ => sc) (fun _ => ns)⟩

/-! ## where the full statement fails, and what lies outside it (concrete witnesses, `R := Rat`) -/

def cfg0 : Cfg Rat :=
  { mt := .single, isRgb := false, maxH := 96, maxW := 128, cfgMaxH := none, cfgMaxW := none,
    scale := 1, maxStride := 8, cropH := 32, cropW := 32, anchor := some 0, maxInstances := 1,
    aliasing := true }

def fr0 : Frame Rat := { h := 96, w := 128, c := 1, insts := [[some (81/2, 121/4), some (60, 50)]] }

/-- F-C18a, regression record: on the tree **before 3fdd300** (`sampleOfAsWas`), with
`preprocessing.max_height = 120`, `max_width = 168` in the config and `max_hw` = the labels' own
96×128, the torch datasets and the streaming path size-match to different sizes: pixel terms and
keypoints differ. -/
theorem cfg_max_override_counterexample :
    let cfg := { cfg0 with cfgMaxH := some 120, cfgMaxW := some 168 }
    (sampleOfAsWas numRat .stream cfg fr0 0).img.erase ≠ (sampleOfAsWas numRat .mem cfg fr0 0).img ∧
    (sampleOfAsWas numRat .stream cfg fr0 0).instances ≠ (sampleOfAsWas numRat .mem cfg fr0 0).instances := by
  decide +kernel

/-- the same configuration on the tree as it is: they agree (an instance of `frameworks_agree_scale1`,
here by evaluation) -/
theorem cfg_max_override_repaired :
    let cfg := { cfg0 with cfgMaxH := some 120, cfgMaxW := some 168 }
    (sampleOf numRat .stream cfg fr0 0).img.erase = (sampleOf numRat .mem cfg fr0 0).img ∧
    (sampleOf numRat .stream cfg fr0 0).instances = (sampleOf numRat .mem cfg fr0 0).instances := by
  decide +kernel

/-- F-C18b, regression record: on the tree **before b2232cf** `SingleInstanceDataset` pads
`instances` to `get_max_instances(labels)` rows while `single_instance_data_chunks` hard-codes
`max_instances = 1`.  On single-animal labels in which some frame carries a second (e.g. empty)
instance the keypoint tensors — and with them the number of confidence-map channels — differ. -/
theorem single_maxinst_counterexample :
    let cfg := { cfg0 with maxInstances := 2 }
    (sampleOfBeforeB2232cf numRat .stream cfg fr0 0).instances
      ≠ (sampleOfBeforeB2232cf numRat .mem cfg fr0 0).instances ∧
    targetsOf numRat (1, 96, 128) .single ⟨3/2, 2, 4, 4, []⟩ (sampleOfBeforeB2232cf numRat .stream cfg fr0 0)
      ≠ targetsOf numRat (1, 96, 128) .single ⟨3/2, 2, 4, 4, []⟩ (sampleOfBeforeB2232cf numRat .mem cfg fr0 0) := by
  decide +kernel

/-- the same labels on the tree as it is: they agree -/
theorem single_maxinst_repaired :
    let cfg := { cfg0 with maxInstances := 2 }
    (sampleOf numRat .stream cfg fr0 0).instances = (sampleOf numRat .mem cfg fr0 0).instances := by
  decide +kernel

/-- F-C18c: a labelled frame whose instances are all empty is skipped by the torch datasets and makes
every chunk function raise (`np.stack` of nothing in `process_lf`). -/
theorem sample_count_counterexample :
    sampleCount .mem .bottomup ({ fr0 with insts := [[none, none]] } : Frame Rat) = some 0 ∧
    sampleCount .stream .bottomup ({ fr0 with insts := [[none, none]] } : Frame Rat) = none := by
  decide +kernel

/-- Layout only (not part of the statement): the streaming centred-instance sample carries its
keypoints as `(1, 1, n, 2)`, the torch datasets as `(1, n, 2)`; the values are the same
(`frameworks_agree_scale1`). -/
theorem centered_rank_differs (N : Num R) (cfg : Cfg R) (fr : Frame R) (k : Nat) (h : cfg.mt = .centered) :
    (sampleOf N .mem cfg fr k).rank = 3 ∧ (sampleOf N .stream cfg fr k).rank = 4 := by
  simp [sampleOf, sampleOfH, h, torchCentered, streamCentered, recrop]

/-- `CenteredInstanceDataset` counts empty instances in `num_instances`, `process_lf` does not. -/
theorem centered_numInstances_counterexample :
    let cfg := { cfg0 with mt := .centered, maxInstances := 2 }
    let fr := { fr0 with insts := fr0.insts ++ [[none, none]] }
    (sampleOf numRat .mem cfg fr 0).numInstances = 2 ∧ (sampleOf numRat .stream cfg fr 0).numInstances = 1 := by
  decide +kernel

/-- Outside the statement: the centred-instance model at scale ≠ 1 (the docs prescribe
resize-then-crop for the torch datasets and crop-then-resize for the chunks).  The terms and the
keypoints differ; no agreement is claimed. -/
theorem centered_scale_differs :
    let cfg := { cfg0 with mt := .centered, scale := 1/2 }
    (sampleOf numRat .stream cfg fr0 0).img.erase ≠ (sampleOf numRat .mem cfg fr0 0).img ∧
    (sampleOf numRat .stream cfg fr0 0).instances ≠ (sampleOf numRat .mem cfg fr0 0).instances ∧
    (sampleOf numRat .stream cfg fr0 0).centroids ≠ (sampleOf numRat .mem cfg fr0 0).centroids := by
  decide +kernel

/-- The centroid model's `instances` entry (not used for its targets) is resized by the torch
datasets and left un-resized by `centroid_data_chunks`; the centroids agree. -/
theorem centroid_instances_differ :
    let cfg := { cfg0 with mt := .centroid, scale := 1/2 }
    (sampleOf numRat .stream cfg fr0 0).instances ≠ (sampleOf numRat .mem cfg fr0 0).instances ∧
    (sampleOf numRat .stream cfg fr0 0).centroids = (sampleOf numRat .mem cfg fr0 0).centroids := by
  decide +kernel

/-! ## each legacy DataPipe block equals its functional counterpart -/

theorem datapipe_eq_function_normalizer (isRgb : Bool) (i : Img R) :
    dpNormalizer isRgb i = fnNormalize isRgb i := by
  cases isRgb <;> rfl

theorem datapipe_eq_function_resizer (s : R) (x : Img R × List (Inst R)) :
    dpResizer s x = fnResize s x := by
  unfold dpResizer fnResize applyResizer applyResizerPts
  by_cases h : s = 1 <;> simp [h]

theorem datapipe_eq_function_padToStride (m : Nat) (i : Img R) :
    dpPadToStride m i = fnPadToStride m i := rfl

theorem datapipe_eq_function_centroidFinder (aliasing : Bool) (anchor : Option Nat) (l : List (Inst R)) :
    dpCentroidFinder aliasing anchor l = fnCentroids aliasing anchor l := rfl

/-- the `k`-th example the cropper yields is `generate_crops` of the `k`-th instance/centroid pair,
and it yields exactly `min(num_instances, #pairs)` examples -/
theorem datapipe_eq_function_instanceCropper (N : Num R) (h w : Nat) (img : Img R)
    (insts : List (Inst R)) (cens : List (Pt R)) (num k : Nat)
    (hk : k < num) (hi : k < insts.length) (hc : k < cens.length) :
    (dpInstanceCropper N h w img insts cens num)[k]? = some (generateCrops N img insts[k] cens[k] h w) ∧
    (dpInstanceCropper N h w img insts cens num).length = min num (min insts.length cens.length) := by
  constructor
  · have hz : (insts.zip cens)[k]? = some (insts[k], cens[k]) := by
      rw [List.getElem?_eq_getElem (by simp [hi, hc])]; simp
    simp only [dpInstanceCropper, List.getElem?_map, List.getElem?_take, hk, if_true, hz, Option.map_some]
    cases hcen : cens[k] with
    | none => simp [generateCrops, cropCoords]
    | some c => simp [generateCrops, cropCoords]
  · simp [dpInstanceCropper, List.length_take, List.length_zip]

/-- as long as the `"instances"` key is used exactly for rank-4 keypoints (the only way the
pipelines use the block) -/
theorem datapipe_eq_function_confmapGen (key : Bool) (pts : Kps R) (h w : Nat) (sigma : R) (stride : Nat)
    (hkey : ∀ l, pts = .rank4 l → key = true) :
    dpConfmapGen key pts h w sigma stride = some (fnConfmaps pts h w sigma stride) := by
  cases pts with
  | rank3 i => rfl
  | rank4 l => simp [dpConfmapGen, fnConfmaps, hkey l rfl]

example : ∀ l, (Kps.rank4 [[some ((1 : Rat), 2)]]) = .rank4 l → true = true := fun _ _ => rfl

/-- centroid branch: identical.  Keypoint branch: the block does not slice `[:num_instances]`; the
results coincide when there is no padding, and — for every interpretation `G` of the generator that
ignores all-NaN animals (max-reduction from 0; validated by the harness) — also with padding. -/
theorem datapipe_eq_function_multiConfmapGen {T : Type} (G : Target R → T)
    (hG : ∀ (a pad : List (Inst R)) (h w : Nat) (sg : R) (st : Nat),
      (∀ r ∈ pad, ∀ p ∈ r, p = none) →
      G (.multiConfmaps (a ++ pad) h w sg st) = G (.multiConfmaps a h w sg st))
    (real pad : List (Inst R)) (cens : List (Pt R)) (num h w : Nat) (sigma : R) (stride : Nat)
    (hnum : real.length = num) (hpad : ∀ r ∈ pad, ∀ p ∈ r, p = none) :
    dpMultiConfmapGen true (real ++ pad) cens num h w sigma stride
      = fnMultiConfmaps true (real ++ pad) cens num h w sigma stride ∧
    G (dpMultiConfmapGen false (real ++ pad) cens num h w sigma stride)
      = G (fnMultiConfmaps false (real ++ pad) cens num h w sigma stride) ∧
    (pad = [] → dpMultiConfmapGen false (real ++ pad) cens num h w sigma stride
      = fnMultiConfmaps false (real ++ pad) cens num h w sigma stride) := by
  refine ⟨rfl, ?_, ?_⟩
  · simp only [dpMultiConfmapGen, fnMultiConfmaps, Bool.false_eq_true, if_false, ← hnum,
      List.take_left']
    exact hG real pad h w sigma stride hpad
  · intro hp
    subst hp
    simp [dpMultiConfmapGen, fnMultiConfmaps, ← hnum]

/-- `SizeMatcher` (legacy block) vs `apply_sizematcher`: the same only when the frame already has the
target size -/
theorem datapipe_sizematcher_partial (N : Num R) (h w : Nat) :
    dpSizeMatcher (R := R) h w h w = fnSizeMatch N h w h w := by
  simp [dpSizeMatcher, fnSizeMatch, sizematchPlan]

/-- F-C18d: on a 96×128 frame with maximum 120×168 the block pads only and leaves the keypoints alone,
the function rescales to 120×160 (`eff_scale = 5/4`) before padding; on a frame larger than the
maximum the block raises while the function scales down. -/
theorem datapipe_sizematcher_counterexample :
    dpSizeMatcher (R := Rat) 96 128 120 168 = some ((96, 128), 1) ∧
    fnSizeMatch numRat 96 128 120 168 = some ((120, 160), 5/4) ∧
    dpSizeMatcher (R := Rat) 120 160 96 128 = none ∧
    fnSizeMatch numRat 120 160 96 128 = some ((96, 128), 4/5) := by
  decide +kernel

theorem datapipe_eq_function_pafGen (insts : List (Inst R)) (h w : Nat) (sigma : R) (stride : Nat)
    (edges : List (Nat × Nat)) :
    dpPafGen insts h w sigma stride edges = fnPafs insts h w sigma stride edges := rfl

/-- Where a block and its function both have a default for a parameter, the defaults agree for
`Resizer`, `InstanceCentroidFinder` and `PartAffinityFieldsGenerator.flatten_channels`; the
confidence-map blocks default to `output_stride = 1` whereas their functions default to 2 (as the
code is; the pipelines always pass the stride explicitly). -/
theorem defaults_agree_where_shared :
    (defaultsTable.filter defaultsAgree).map (·.name) =
      ["Normalizer/apply_normalization", "Resizer/apply_resizer", "PadToStride/apply_pad_to_stride",
       "InstanceCentroidFinder/generate_centroids", "InstanceCropper/generate_crops",
       "PartAffinityFieldsGenerator/generate_pafs"] := by
  decide +kernel

end SleapVerif.C18
