import SleapVerif.Model.Config
import SleapVerif.Gen.TranslatedC20

/-!
# C20, second tie — the validators *as translated from the Python source* are the model's rules

`Gen/TranslatedC20.lean` is regenerated from `sleap_nn/config/{data,model,trainer}_config.py` on
every run of `bin/check C20` (harness/py2lean_ext.py).  The theorems below are about those
generated definitions:

* `gen_<validator>_eq_model` — each translated validator is, value for value (ordinary numbers,
  `NaN`, `±inf`, `None`, strings, lists — including which exception class is raised), the rule
  `Config.Rule.check` that the C20 theorems (`validators_reject`, `nan_rejected`, …) are about;
* `gen_field_validators_eq_model` — the field → validator table read off the `field(validator=…)`
  declarations is the model's `fieldRules`, class by class, field by field, in the same order;
* `gen_validate_proportion_rejects_iff`, `gen_validators_reject_nan` — the property-level facts
  stated directly about the generated definitions.

An edit of the Python that changes a validator's meaning (e.g. `not (0.0 <= v <= 1.0)` rewritten to
`v < 0.0 or v > 1.0`, which lets `NaN` through) changes the generated definition and these proofs
stop checking.
-/

set_option linter.unusedSimpArgs false

namespace SleapVerif.TranslatedC20
open SleapVerif.Config SleapVerif.Gen.TranslatedC20

/-! ## helper facts about the prelude -/

theorem pyAllList_ok (p : Value → PyB) (q : Value → Bool) (h : ∀ x, p x = .ok (q x)) :
    ∀ l : List Value, pyAllList p l = .ok (l.all q)
  | [] => rfl
  | x :: r => by
    simp only [pyAllList, h x, List.all_cons]
    cases q x
    · rfl
    · simpa using pyAllList_ok p q h r

theorem nonnegFloat_item (x : Value) :
    pyAnd (.ok (pyIsFloat x)) (pyGe x (Value.int 0)) = .ok x.isNonnegFloat := by
  cases x with
  | inf neg => cases neg <;> rfl
  | num q =>
    simp only [pyAnd, pyIsFloat, pyGe, pyCmp, Value.asExt?, Ext.le, Value.isNonnegFloat]
    simp
  | _ => rfl

theorem nonnegInt_item (x : Value) :
    pyAnd (.ok (pyIsInt x)) (pyGe x (Value.int 0)) = .ok x.isNonnegInt := by
  cases x with
  | bool b =>
    cases b <;> simp [pyAnd, pyIsInt, pyGe, pyCmp, Value.asExt?, Ext.le, Value.isNonnegInt] <;> decide
  | int i =>
    simp only [pyAnd, pyIsInt, pyGe, pyCmp, Value.asExt?, Ext.le, Value.isNonnegInt]
    have : ((0 : Rat) ≤ (i : Rat)) ↔ 0 ≤ i := by exact_mod_cast Iff.rfl
    simp [this]
  | _ => rfl

/-! ## `validate_proportion` -/

/-- the translated `validate_proportion` is the model's rule `prob`, for every value -/
theorem gen_validate_proportion_eq_model (v : Value) :
    validate_proportion v = Rule.check .prob (.leaf v) := by
  unfold validate_proportion
  simp only [Rule.check, pyLe, pyLt, pyGe, pyGt, pyCmp]
  cases h : v.asExt? with
  | none => simp [Value.asExt?, pyAnd, pyOr, pyNot, pyIf]
  | some x =>
    cases x with
    | fin q =>
      by_cases h1 : (0 : Rat) ≤ q <;> by_cases h2 : q ≤ (1 : Rat) <;>
        simp [Value.asExt?, pyAnd, pyOr, pyNot, pyIf, Ext.le, Ext.lt, h1, h2, Rat.not_lt, Rat.not_le]
    | pinf => simp [Value.asExt?, pyAnd, pyOr, pyNot, pyIf, Ext.le, Ext.lt]
    | ninf => simp [Value.asExt?, pyAnd, pyOr, pyNot, pyIf, Ext.le, Ext.lt]
    | nan => simp [Value.asExt?, pyAnd, pyOr, pyNot, pyIf, Ext.le, Ext.lt]

/-- **what it rejects**: `validate_proportion` accepts exactly the finite numbers in `[0, 1]`;
everything else — numbers outside the interval, `NaN`, `+inf`, `-inf`, non-numbers — is rejected -/
theorem gen_validate_proportion_rejects_iff (v : Value) :
    validate_proportion v ≠ .ok () ↔ ¬ ∃ q : Rat, v.asExt? = some (.fin q) ∧ 0 ≤ q ∧ q ≤ 1 := by
  apply not_congr
  rw [gen_validate_proportion_eq_model]
  simp only [Rule.check]
  cases h : v.asExt? with
  | none => simp
  | some x =>
    cases x with
    | fin q =>
      by_cases h1 : (0 : Rat) ≤ q <;> by_cases h2 : q ≤ (1 : Rat) <;> simp [Ext.le, h1, h2]
    | pinf => simp [Ext.le]
    | ninf => simp [Ext.le]
    | nan => simp [Ext.le]

/-- `NaN` and both infinities raise `ValueError` (not merely "are not accepted") -/
theorem gen_validate_proportion_rejects_nonfinite :
    validate_proportion .nan = .error "ValueError" ∧
    validate_proportion (.inf false) = .error "ValueError" ∧
    validate_proportion (.inf true) = .error "ValueError" := by
  simp only [gen_validate_proportion_eq_model]; exact ⟨rfl, rfl, rfl⟩

example : validate_proportion (.num (mkRat 1 2)) = .ok () ∧ validate_proportion (.int 1) = .ok () ∧
    validate_proportion (.num 2) = .error "ValueError" ∧
    validate_proportion (.str "x") = .error "TypeError" := by
  simp only [gen_validate_proportion_eq_model]; refine ⟨?_, ?_, ?_, ?_⟩ <;> rfl

/-! ## scale / min_lr / devices / membership validators -/

theorem floats_eq_model (f : Value → PyR)
    (hf : ∀ value, f value =
      pyIf (pyAnd (.ok (pyIsFloat value)) (pyGe value (Value.int 0))) (.ok ())
        (pyIf (pyAnd (.ok (pyIsList value))
            (pyAll (fun x => (pyAnd (.ok (pyIsFloat x)) (pyGe x (Value.int 0)))) value))
          (.ok ()) (.error "ValueError")))
    (v : Value) : f v = Rule.check .floats (.leaf v) := by
  rw [hf, nonnegFloat_item]
  simp only [Rule.check]
  cases hv : v.isNonnegFloat
  · cases v with
    | list l =>
      rw [pyAll, pyAllList_ok _ _ nonnegFloat_item l]
      cases h : l.all Value.isNonnegFloat <;> simp [pyIf, pyAnd, pyIsList, h]
    | _ => simp [pyIf, pyAnd, pyIsList]
  · simp [pyIf]

/-- `PreprocessingConfig.validate_scale` is the model's rule `floats` -/
theorem gen_validate_scale_eq_model (v : Value) :
    PreprocessingConfig_validate_scale v = Rule.check .floats (.leaf v) :=
  floats_eq_model _ (fun _ => rfl) v

/-- `ReduceLROnPlateauConfig.validate_min_lr` is the model's rule `floats` -/
theorem gen_validate_min_lr_eq_model (v : Value) :
    ReduceLROnPlateauConfig_validate_min_lr v = Rule.check .floats (.leaf v) :=
  floats_eq_model _ (fun _ => rfl) v

/-- `TrainerConfig.validate_trainer_devices` is the model's rule `devices` -/
theorem gen_validate_trainer_devices_eq_model (v : Value) :
    TrainerConfig_validate_trainer_devices v = Rule.check .devices (.leaf v) := by
  unfold TrainerConfig_validate_trainer_devices
  rw [nonnegInt_item]
  simp only [Rule.check]
  cases hv : v.isNonnegInt
  · cases v with
    | list l =>
      rw [pyAll, pyAllList_ok _ _ nonnegInt_item l]
      cases h : l.all Value.isNonnegInt <;> simp [pyIf, pyAnd, pyIsList, pyIsStr, h]
    | str s =>
      by_cases h : s = "auto"
      · subst h; simp [pyIf, pyAnd, pyIsList, pyIsStr, pyEqStr]
      · have hb : (s == "auto") = false := by simpa using h
        simp [pyIf, pyAnd, pyIsList, pyIsStr, pyEqStr, h, hb]
    | _ => simp [pyIf, pyAnd, pyIsList, pyIsStr]
  · simp [pyIf]

theorem oneOf_eq_model (l : List String) (v : Value) :
    pyIf (.ok (!(pyInStrs v l))) (.error "ValueError") (.ok ()) = Rule.check (.oneOf l) (.leaf v) := by
  cases v with
  | str s => simp only [pyInStrs, Rule.check]; cases l.contains s <;> rfl
  | _ => rfl

/-- `TrainerConfig.validate_optimizer_name` is the model's rule `oneOf ["Adam", "AdamW"]` -/
theorem gen_validate_optimizer_name_eq_model (v : Value) :
    TrainerConfig_validate_optimizer_name v = Rule.check (.oneOf ["Adam", "AdamW"]) (.leaf v) :=
  oneOf_eq_model _ v

/-- the `validate_model_type` methods of the three SwinT and the four ConvNext config classes are the
model's rules `oneOf ["tiny", "small", "base"]` / `oneOf ["tiny", "small", "base", "large"]` -/
theorem gen_validate_model_type_eq_model (v : Value) :
    (SwinTConfig_validate_model_type v = Rule.check (.oneOf ["tiny", "small", "base"]) (.leaf v) ∧
     SwinTSmallConfig_validate_model_type v = Rule.check (.oneOf ["tiny", "small", "base"]) (.leaf v) ∧
     SwinTBaseConfig_validate_model_type v = Rule.check (.oneOf ["tiny", "small", "base"]) (.leaf v)) ∧
    (ConvNextConfig_validate_model_type v = Rule.check (.oneOf ["tiny", "small", "base", "large"]) (.leaf v) ∧
     ConvNextSmallConfig_validate_model_type v = Rule.check (.oneOf ["tiny", "small", "base", "large"]) (.leaf v) ∧
     ConvNextBaseConfig_validate_model_type v = Rule.check (.oneOf ["tiny", "small", "base", "large"]) (.leaf v) ∧
     ConvNextLargeConfig_validate_model_type v = Rule.check (.oneOf ["tiny", "small", "base", "large"]) (.leaf v)) :=
  ⟨⟨oneOf_eq_model _ v, oneOf_eq_model _ v, oneOf_eq_model _ v⟩,
   ⟨oneOf_eq_model _ v, oneOf_eq_model _ v, oneOf_eq_model _ v, oneOf_eq_model _ v⟩⟩

/-- attrs' `validators.ge(0)`, `le(1)`, `gt(0)` (prelude reading) are the model's `ge0`, `le1`, `gt0` -/
theorem gen_attrs_bounds_eq_model (v : Value) :
    attrs_ge (Value.int 0) v = Rule.check .ge0 (.leaf v) ∧
    attrs_le (Value.int 1) v = Rule.check .le1 (.leaf v) ∧
    attrs_gt (Value.int 0) v = Rule.check .gt0 (.leaf v) := by
  refine ⟨?_, ?_, ?_⟩
  · simp only [attrs_ge, pyGe, pyCmp, Rule.check]
    cases h : v.asExt? with
    | none => simp [pyNot, pyIf]
    | some x => cases h1 : Ext.le (.fin 0) x <;> simp [Value.asExt?, pyNot, pyIf, h1]
  · simp only [attrs_le, pyLe, pyCmp, Rule.check]
    cases h : v.asExt? with
    | none => simp [pyNot, pyIf]
    | some x => cases h1 : Ext.le x (.fin 1) <;> simp [Value.asExt?, pyNot, pyIf, h1]
  · simp only [attrs_gt, pyGt, pyCmp, Rule.check]
    cases h : v.asExt? with
    | none => simp [pyNot, pyIf]
    | some x => cases h1 : Ext.lt (.fin 0) x <;> simp [Value.asExt?, pyNot, pyIf, h1]

/-! ## the field → validator table -/

/-- the classes the model's `fieldRules` knows are exactly the classes that declare a field
validator in the source -/
theorem gen_validated_classes_eq_model (cls : String) :
    cls ∈ validated_classes ↔ fieldRules cls ≠ [] := by
  constructor
  · intro h
    simp only [validated_classes, List.mem_cons, List.not_mem_nil, or_false] at h
    rcases h with h | h | h | h | h | h | h | h | h | h | h | h | h | h | h <;> subst h <;> simp [fieldRules]
  · intro h
    unfold fieldRules at h
    simp only [validated_classes, List.mem_cons, List.not_mem_nil, or_false]
    split at h <;> simp_all

/-- **which validator guards which field**: for every class name and every value, the table read
off the source gives the same fields, in the same order, with validators that behave exactly as
the model's rules -/
theorem gen_field_validators_eq_model (cls : String) (v : Value) :
    (field_validators cls).map (fun fr => (fr.1, fr.2 v)) =
    (fieldRules cls).map (fun fr => (fr.1, fr.2.check (.leaf v))) := by
  have hp := gen_validate_proportion_eq_model v
  have hs := gen_validate_scale_eq_model v
  have hm := gen_validate_min_lr_eq_model v
  have hd := gen_validate_trainer_devices_eq_model v
  have ho := gen_validate_optimizer_name_eq_model v
  obtain ⟨⟨ht1, ht2, ht3⟩, ⟨hc1, hc2, hc3, hc4⟩⟩ := gen_validate_model_type_eq_model v
  obtain ⟨hge, hle, hgt⟩ := gen_attrs_bounds_eq_model v
  unfold field_validators fieldRules
  split <;> simp_all

/-- membership form: every generated table entry has a model rule with the same behaviour -/
theorem gen_field_validator_mem {cls f : String} {g : Value → PyR} (h : (f, g) ∈ field_validators cls)
    (v : Value) : ∃ r, (f, r) ∈ fieldRules cls ∧ g v = r.check (.leaf v) := by
  have e := gen_field_validators_eq_model cls v
  have hm : (f, g v) ∈ (field_validators cls).map (fun fr => (fr.1, fr.2 v)) :=
    List.mem_map.mpr ⟨(f, g), h, rfl⟩
  rw [e] at hm
  obtain ⟨⟨f', r⟩, hr, heq⟩ := List.mem_map.mp hm
  simp only [Prod.mk.injEq] at heq
  obtain ⟨h1, h2⟩ := heq
  subst h1
  exact ⟨r, hr, h2.symm⟩

/-- **"not a number" is rejected by every field validator of the source** -/
theorem gen_validators_reject_nan {cls f : String} {g : Value → PyR}
    (h : (f, g) ∈ field_validators cls) : g .nan ≠ .ok () := by
  obtain ⟨r, _, e⟩ := gen_field_validator_mem h .nan
  rw [e]
  cases r <;> simp [Rule.check, Value.asExt?, Ext.le, Ext.lt, Value.isNonnegFloat, Value.isNonnegInt]

/-- all seven probability fields are guarded by the translated `validate_proportion` -/
example : (["uniform_noise_p", "gaussian_noise_p", "contrast_p", "brightness_p"].all
      (fun f => (field_validators "IntensityConfig").any (fun fr => fr.1 == f))) = true ∧
    (["affine_p", "erase_p", "mixup_p"].all
      (fun f => (field_validators "GeometricConfig").any (fun fr => fr.1 == f))) = true := by
  simp [field_validators]

end SleapVerif.TranslatedC20
