import SleapVerif.Model.Confmaps
import SleapVerif.Lemmas.Transc
import SleapVerif.Lemmas.GridTab
import Mathlib.Tactic.Linarith
import Mathlib.Tactic.Positivity
import Mathlib.Tactic.Ring
import Mathlib.Tactic.FieldSimp

/-!
# C01 — confidence-map training targets

Theorems about `Model/Confmaps.lean` for every ordered field `R` and every lawful
`T : Transc R` (non-vacuous: `realTransc : Transc ℝ`).  `cast` is `Nat.cast`.
"No NaN/inf" holds of the model by typing (`R` has no such values; missing points are `none`);
the harness carries it to the code (`isfinite` on every implementation output).
-/

set_option linter.unusedSectionVars false

namespace SleapVerif.C01
open SleapVerif SleapVerif.Confmaps SleapVerif.Grid SleapVerif.Scalar
open SleapVerif.GridTab (gp gridVec_length gridVec_getElem cellAt?_tabulate cellAt?_tabulate_none)

variable {R : Type} [Field R] [LinearOrder R] [IsStrictOrderedRing R]

/-! ## grid facts (proved in `Lemmas/GridTab.lean`, restated here under the audited names) -/

theorem gridLen_ceil (size s : Nat) (hs : 0 < s) :
    size ≤ gridLen size s * s ∧ ∀ n, size ≤ n * s → gridLen size s ≤ n := GridTab.gridLen_ceil size s hs

theorem gridLen_of_dvd (size s : Nat) (hs : 0 < s) (hd : s ∣ size) : gridLen size s = size / s :=
  GridTab.gridLen_of_dvd size s hs hd

theorem grid_point_lt (size s i : Nat) (hs : 0 < s) (hi : i < gridLen size s) : i * s < size :=
  GridTab.grid_point_lt size s i hs hi

/-! ## single-instance maps -/

/-- **cm_value**: channel `c`, row `i`, column `j` of `generate_confmaps` holds
`cmCell` of keypoint `c` at the grid point `(x, y) = (j·stride, i·stride)` with
`σ' = sigma·stride` — this pins x ↔ column, y ↔ row and the σ unit. -/
theorem cm_value (exp : R → R) (σ : R) (s H W : Nat) (kps : List (Option (R × R)))
    (c i j : Nat) (hc : c < kps.length) (hi : i < gridLen H s) (hj : j < gridLen W s) :
    cellAt3? (confmaps exp Nat.cast σ s H W kps) c i j
      = some (cmCell exp (σ * (s : R)) kps[c] (gp s j) (gp s i)) := by
  unfold cellAt3? confmaps makeConfmaps
  simp only [List.getElem?_map, List.getElem?_eq_getElem hc, Option.map_some]
  rw [cellAt?_tabulate _ _ _ _ _ _ (by rw [gridVec_length]; exact hi) (by rw [gridVec_length]; exact hj)]
  simp [gridVec_getElem, gp]

/-- the cell formula for a visible keypoint: `exp(-((gx-x)² + (gy-y)²) / (2σ'²))` -/
theorem cm_value_visible (exp : R → R) (sg x y gx gy : R) :
    cmCell exp sg (some (x, y)) gx gy = exp (-((gx - x) ^ 2 + (gy - y) ^ 2) / (2 * sg ^ 2)) := by
  simp [cmCell, d2, pow_two]

/-- **cm_shape**: `n_channels × ⌈H/s⌉ × ⌈W/s⌉`: a cell exists exactly inside that box. -/
theorem cm_shape (exp : R → R) (σ : R) (s H W : Nat) (kps : List (Option (R × R))) (c i j : Nat) :
    (cellAt3? (confmaps exp Nat.cast σ s H W kps) c i j).isSome
      ↔ (c < kps.length ∧ i < gridLen H s ∧ j < gridLen W s) := by
  constructor
  · intro h
    by_contra hn
    have : cellAt3? (confmaps exp Nat.cast σ s H W kps) c i j = none := by
      unfold cellAt3? confmaps makeConfmaps
      by_cases hc : c < kps.length
      · simp only [List.getElem?_map, List.getElem?_eq_getElem hc, Option.map_some]
        apply cellAt?_tabulate_none
        simp only [gridVec_length]
        exact fun h' => hn ⟨hc, h'⟩
      · simp [Nat.le_of_not_lt hc]
    rw [this] at h
    exact absurd h (by simp)
  · rintro ⟨hc, hi, hj⟩
    rw [cm_value exp σ s H W kps c i j hc hi hj]
    rfl

theorem cm_shape_lengths (exp : R → R) (σ : R) (s H W : Nat) (kps : List (Option (R × R))) :
    (confmaps exp Nat.cast σ s H W kps).length = kps.length ∧
    ∀ ch ∈ confmaps exp Nat.cast σ s H W kps,
      ch.length = gridLen H s ∧ ∀ row ∈ ch, row.length = gridLen W s := by
  unfold confmaps makeConfmaps tabulate
  constructor
  · simp
  · intro ch hch
    simp only [List.mem_map] at hch
    obtain ⟨kp, _, rfl⟩ := hch
    constructor
    · simp [gridVec_length]
    · intro row hrow
      simp only [List.mem_map] at hrow
      obtain ⟨gy, _, rfl⟩ := hrow
      simp [gridVec_length]

/-- with `s ∣ H`, `s ∣ W` the shape is the property's `H/stride × W/stride` -/
theorem cm_shape_dvd (s H W : Nat) (hs : 0 < s) (hH : s ∣ H) (hW : s ∣ W) :
    gridLen H s = H / s ∧ gridLen W s = W / s :=
  ⟨gridLen_of_dvd H s hs hH, gridLen_of_dvd W s hs hW⟩

theorem d2_nonneg (gx gy x y : R) : 0 ≤ d2 gx gy x y := by
  unfold d2; exact add_nonneg (mul_self_nonneg _) (mul_self_nonneg _)

/-- **cm_range**: `0 ≤ v ≤ 1` for every keypoint (missing or not) and every grid point. -/
theorem cm_range (T : Transc R) (sg : R) (hs : 0 < sg) (kp : Option (R × R)) (gx gy : R) :
    0 ≤ cmCell T.exp sg kp gx gy ∧ cmCell T.exp sg kp gx gy ≤ 1 := by
  unfold cmCell
  match kp with
  | none => simp
  | some (x, y) =>
    simp only
    refine ⟨(T.exp_pos _).le, T.exp_le_one ?_⟩
    have := d2_nonneg gx gy x y
    have h2 : (0 : R) < 2 * (sg * sg) := by positivity
    apply div_nonpos_of_nonpos_of_nonneg <;> linarith

/-- a visible keypoint gives a strictly positive value at every cell -/
theorem cm_pos_visible (T : Transc R) (sg x y gx gy : R) :
    0 < cmCell T.exp sg (some (x, y)) gx gy := by
  simp only [cmCell]; exact T.exp_pos _

/-- value 1 exactly at the keypoint itself -/
theorem cm_one_iff (T : Transc R) (sg : R) (hs : 0 < sg) (x y gx gy : R) :
    cmCell T.exp sg (some (x, y)) gx gy = 1 ↔ (gx = x ∧ gy = y) := by
  simp only [cmCell]
  rw [T.exp_eq_one_iff]
  have h2 : (0 : R) < 2 * (sg * sg) := by positivity
  rw [div_eq_zero_iff]
  constructor
  · rintro (h | h)
    · have hd : d2 gx gy x y = 0 := by linarith
      unfold d2 at hd
      have h1 := mul_self_nonneg (gx - x)
      have h2' := mul_self_nonneg (gy - y)
      have hx : (gx - x) * (gx - x) = 0 := by linarith
      have hy : (gy - y) * (gy - y) = 0 := by linarith
      exact ⟨sub_eq_zero.mp (mul_self_eq_zero.mp hx), sub_eq_zero.mp (mul_self_eq_zero.mp hy)⟩
    · exact absurd h (ne_of_gt h2)
  · rintro ⟨rfl, rfl⟩
    left; simp [d2]

/-- **cm_antitone_dist**: a cell no farther from the keypoint has a value no smaller. -/
theorem cm_antitone_dist (T : Transc R) (sg : R) (hs : 0 < sg) (x y gx gy gx' gy' : R)
    (h : d2 gx gy x y ≤ d2 gx' gy' x y) :
    cmCell T.exp sg (some (x, y)) gx' gy' ≤ cmCell T.exp sg (some (x, y)) gx gy := by
  simp only [cmCell]
  apply T.exp_mono
  have h2 : (0 : R) < 2 * (sg * sg) := by positivity
  rw [div_le_div_iff_of_pos_right h2]
  linarith

/-- strictly nearer ⇒ strictly larger -/
theorem cm_strict_antitone_dist (T : Transc R) (sg : R) (hs : 0 < sg) (x y gx gy gx' gy' : R)
    (h : d2 gx gy x y < d2 gx' gy' x y) :
    cmCell T.exp sg (some (x, y)) gx' gy' < cmCell T.exp sg (some (x, y)) gx gy := by
  simp only [cmCell]
  apply T.exp_strictMono
  have h2 : (0 : R) < 2 * (sg * sg) := by positivity
  rw [div_lt_div_iff_of_pos_right h2]
  linarith

/-- **cm_argmax_nearest**: in the channel of a visible keypoint, every grid cell nearest to the
keypoint attains the channel maximum; and when it is the unique nearest cell every other cell is
strictly smaller (so it is the unique argmax). -/
theorem cm_argmax_nearest (T : Transc R) (σ : R) (hσ : 0 < σ) (s H W : Nat) (hs : 1 ≤ s)
    (kps : List (Option (R × R))) (c : Nat) (hc : c < kps.length) (x y : R)
    (hkp : kps[c] = some (x, y)) (i j : Nat) (hi : i < gridLen H s) (hj : j < gridLen W s) :
    ∃ v, cellAt3? (confmaps T.exp Nat.cast σ s H W kps) c i j = some v ∧
      ((∀ i' j', i' < gridLen H s → j' < gridLen W s →
          d2 (gp s j) (gp s i) x y ≤ d2 (gp s j') (gp s i') x y) →
        ∀ i' j' v', cellAt3? (confmaps T.exp Nat.cast σ s H W kps) c i' j' = some v' → v' ≤ v) ∧
      ((∀ i' j', i' < gridLen H s → j' < gridLen W s → (i', j') ≠ (i, j) →
          d2 (gp s j) (gp s i) x y < d2 (gp s j') (gp s i') x y) →
        ∀ i' j' v', (i', j') ≠ (i, j) →
          cellAt3? (confmaps T.exp Nat.cast σ s H W kps) c i' j' = some v' → v' < v) := by
  have hsg : 0 < σ * (s : R) := by
    have : (0 : R) < (s : R) := by exact_mod_cast hs
    positivity
  refine ⟨_, cm_value T.exp σ s H W kps c i j hc hi hj, ?_, ?_⟩
  · intro hnear i' j' v' hv'
    have hsome : (cellAt3? (confmaps T.exp Nat.cast σ s H W kps) c i' j').isSome := by
      rw [hv']; rfl
    obtain ⟨_, hi', hj'⟩ := (cm_shape T.exp σ s H W kps c i' j').mp hsome
    rw [cm_value T.exp σ s H W kps c i' j' hc hi' hj'] at hv'
    injection hv' with hv'
    rw [← hv', hkp]
    exact cm_antitone_dist T _ hsg x y _ _ _ _ (hnear i' j' hi' hj')
  · intro hnear i' j' v' hne hv'
    have hsome : (cellAt3? (confmaps T.exp Nat.cast σ s H W kps) c i' j').isSome := by
      rw [hv']; rfl
    obtain ⟨_, hi', hj'⟩ := (cm_shape T.exp σ s H W kps c i' j').mp hsome
    rw [cm_value T.exp σ s H W kps c i' j' hc hi' hj'] at hv'
    injection hv' with hv'
    rw [← hv', hkp]
    exact cm_strict_antitone_dist T _ hsg x y _ _ _ _ (hnear i' j' hi' hj' hne)

/-- **cm_missing_zero**: a missing keypoint gives an all-zero channel. -/
theorem cm_missing_zero (exp : R → R) (σ : R) (s H W : Nat) (kps : List (Option (R × R)))
    (c i j : Nat) (hc : c < kps.length) (hkp : kps[c] = none)
    (hi : i < gridLen H s) (hj : j < gridLen W s) :
    cellAt3? (confmaps exp Nat.cast σ s H W kps) c i j = some 0 := by
  rw [cm_value exp σ s H W kps c i j hc hi hj, hkp]; rfl

/-- a half-missing point (one NaN coordinate) is a missing point -/
theorem mkPoint_none_left (y : Option R) : mkPoint (none : Option R) y = none := by
  cases y <;> rfl
theorem mkPoint_none_right (x : Option R) : mkPoint x (none : Option R) = none := by
  cases x <;> rfl

/-! ## max-reduction over animals -/

section fold
variable (f : Option (R × R) → R)

theorem foldMax_ge_init (l : List (Option (R × R))) (a : R) :
    a ≤ l.foldl (fun acc kp => maxR acc (f kp)) a := by
  induction l generalizing a with
  | nil => simp
  | cons k ks ih =>
    simp only [List.foldl_cons]
    refine le_trans ?_ (ih _)
    unfold maxR; split <;> [exact le_of_lt ‹_›; exact le_refl _]

theorem foldMax_ge_mem (l : List (Option (R × R))) (a : R) (kp : Option (R × R)) (h : kp ∈ l) :
    f kp ≤ l.foldl (fun acc kp => maxR acc (f kp)) a := by
  induction l generalizing a with
  | nil => cases h
  | cons k ks ih =>
    simp only [List.foldl_cons]
    rcases List.mem_cons.mp h with rfl | h
    · refine le_trans ?_ (foldMax_ge_init f ks _)
      unfold maxR; split <;> [exact le_refl _; exact not_lt.mp ‹_›]
    · exact ih _ h

theorem foldMax_attained (l : List (Option (R × R))) (a : R) :
    l.foldl (fun acc kp => maxR acc (f kp)) a = a ∨
    ∃ kp ∈ l, l.foldl (fun acc kp => maxR acc (f kp)) a = f kp := by
  induction l generalizing a with
  | nil => left; rfl
  | cons k ks ih =>
    simp only [List.foldl_cons]
    rcases ih (maxR a (f k)) with h | ⟨kp, hkp, h⟩
    · rw [h]
      unfold maxR; split
      · right; exact ⟨k, List.mem_cons_self, rfl⟩
      · left; rfl
    · right; exact ⟨kp, List.mem_cons_of_mem _ hkp, h⟩
end fold

/-- **multi_eq_sup**: a cell of the multi-instance map is the maximum of 0 and the single-keypoint
values of the reduced keypoints: an upper bound of all of them, non-negative, and attained
(by one of them, or 0 when there is none / all are missing). -/
theorem multi_eq_sup (exp : R → R) (sg : R) (kps : List (Option (R × R))) (gx gy : R) :
    (∀ kp ∈ kps, cmCell exp sg kp gx gy ≤ multiCell exp sg kps gx gy) ∧
    0 ≤ multiCell exp sg kps gx gy ∧
    (multiCell exp sg kps gx gy = 0 ∨
      ∃ kp ∈ kps, multiCell exp sg kps gx gy = cmCell exp sg kp gx gy) :=
  ⟨fun kp h => foldMax_ge_mem (fun kp => cmCell exp sg kp gx gy) kps 0 kp h,
   foldMax_ge_init (fun kp => cmCell exp sg kp gx gy) kps 0,
   foldMax_attained (fun kp => cmCell exp sg kp gx gy) kps 0⟩

/-- **multi_value**: channel `c`, cell `(i, j)` of `generate_multiconfmaps` is the max-reduction
of node `c` over the first `numInstances` animals at grid point `(j·s, i·s)`, `σ' = σ·s`. -/
theorem multi_value (exp : R → R) (σ : R) (s H W n nNodes : Nat)
    (animals : List (List (Option (R × R)))) (c i j : Nat)
    (hc : c < nNodes) (hi : i < gridLen H s) (hj : j < gridLen W s) :
    cellAt3? (multiConfmaps exp Nat.cast σ s H W n nNodes animals) c i j
      = some (multiCell exp (σ * (s : R)) ((animals.take n).map (nodeOf · c)) (gp s j) (gp s i)) := by
  unfold cellAt3? multiConfmaps makeMultiConfmaps
  simp only [List.getElem?_map, List.getElem?_range hc, Option.map_some]
  rw [cellAt?_tabulate _ _ _ _ _ _ (by rw [gridVec_length]; exact hi) (by rw [gridVec_length]; exact hj)]
  simp [gridVec_getElem, gp]

/-- shape of the multi-instance stack: `nNodes × ⌈H/s⌉ × ⌈W/s⌉` -/
theorem multi_shape (exp : R → R) (σ : R) (s H W n nNodes : Nat)
    (animals : List (List (Option (R × R)))) :
    (multiConfmaps exp Nat.cast σ s H W n nNodes animals).length = nNodes ∧
    ∀ ch ∈ multiConfmaps exp Nat.cast σ s H W n nNodes animals,
      ch.length = gridLen H s ∧ ∀ row ∈ ch, row.length = gridLen W s := by
  unfold multiConfmaps makeMultiConfmaps tabulate
  constructor
  · simp
  · intro ch hch
    simp only [List.mem_map] at hch
    obtain ⟨c, _, rfl⟩ := hch
    constructor
    · simp [gridVec_length]
    · intro row hrow
      simp only [List.mem_map] at hrow
      obtain ⟨gy, _, rfl⟩ := hrow
      simp [gridVec_length]

/-- range of the reduced map -/
theorem multi_range (T : Transc R) (sg : R) (hs : 0 < sg) (kps : List (Option (R × R))) (gx gy : R) :
    0 ≤ multiCell T.exp sg kps gx gy ∧ multiCell T.exp sg kps gx gy ≤ 1 := by
  obtain ⟨_, h0, h⟩ := multi_eq_sup T.exp sg kps gx gy
  refine ⟨h0, ?_⟩
  rcases h with h | ⟨kp, _, h⟩
  · rw [h]; exact zero_le_one
  · rw [h]; exact (cm_range T sg hs kp gx gy).2

/-- **multi_ignores_padding** (a): animals at index ≥ `numInstances` never matter. -/
theorem multi_ignores_padding (exp : R → R) (σ : R) (s H W n nNodes : Nat)
    (animals animals' : List (List (Option (R × R)))) (h : animals.take n = animals'.take n) :
    multiConfmaps exp Nat.cast σ s H W n nNodes animals
      = multiConfmaps exp Nat.cast σ s H W n nNodes animals' := by
  unfold multiConfmaps; rw [h]

theorem multi_ignores_suffix (exp : R → R) (σ : R) (s H W nNodes : Nat)
    (animals pad : List (List (Option (R × R)))) :
    multiConfmaps exp Nat.cast σ s H W animals.length nNodes (animals ++ pad)
      = multiConfmaps exp Nat.cast σ s H W animals.length nNodes animals :=
  multi_ignores_padding exp σ s H W _ nNodes _ _ (by simp)

/-- **multi_ignores_padding** (b): missing keypoints (NaN padding rows) never matter. -/
theorem multi_ignores_missing (exp : R → R) (sg : R) (kps : List (Option (R × R))) (gx gy : R) :
    multiCell exp sg (kps.filter Option.isSome) gx gy = multiCell exp sg kps gx gy := by
  unfold multiCell
  have key : ∀ (l : List (Option (R × R))) (a : R), 0 ≤ a →
      (l.filter Option.isSome).foldl (fun acc kp => maxR acc (cmCell exp sg kp gx gy)) a
        = l.foldl (fun acc kp => maxR acc (cmCell exp sg kp gx gy)) a := by
    intro l
    induction l with
    | nil => intro a _; rfl
    | cons k ks ih =>
      intro a ha
      cases k with
      | none =>
        have : maxR a (cmCell exp sg none gx gy) = a := by
          have h0 : cmCell exp sg none gx gy = 0 := rfl
          rw [h0]; unfold maxR; exact if_neg (not_lt.mpr ha)
        simp only [List.filter_cons, Option.isSome_none, List.foldl_cons, this]
        simpa using ih a ha
      | some p =>
        simp only [List.filter_cons, Option.isSome_some, if_true, List.foldl_cons]
        apply ih
        unfold maxR; split
        · exact le_trans ha (le_of_lt ‹_›)
        · exact ha
  exact key kps 0 (le_refl _)

/-- all reduced keypoints missing ⇒ the cell is 0 -/
theorem multi_missing_zero (exp : R → R) (sg : R) (kps : List (Option (R × R))) (gx gy : R)
    (h : ∀ kp ∈ kps, kp = none) : multiCell exp sg kps gx gy = 0 := by
  rw [← multi_ignores_missing]
  have : kps.filter Option.isSome = [] := by
    rw [List.filter_eq_nil_iff]
    intro kp hkp; rw [h kp hkp]; simp
  rw [this]; rfl

/-- **centroid_single_channel**: the centroid variant has exactly one channel, whose cells are the
max-reduction over the first `numInstances` centroids. -/
theorem centroid_single_channel (exp : R → R) (σ : R) (s H W n : Nat)
    (cents : List (Option (R × R))) :
    (centroidConfmaps exp Nat.cast σ s H W n cents).length = 1 ∧
    ∀ i j, i < gridLen H s → j < gridLen W s →
      cellAt3? (centroidConfmaps exp Nat.cast σ s H W n cents) 0 i j
        = some (multiCell exp (σ * (s : R)) (cents.take n) (gp s j) (gp s i)) := by
  constructor
  · exact (multi_shape exp σ s H W n 1 _).1
  · intro i j hi hj
    unfold centroidConfmaps
    rw [multi_value exp σ s H W n 1 _ 0 i j (by omega) hi hj]
    congr 2
    rw [← List.map_take, List.map_map]
    conv_rhs => rw [← List.map_id (cents.take n)]
    apply List.map_congr_left
    intro a _
    simp [nodeOf]

/-! ## argmax of a reduced (multi-instance / centroid) channel -/

/-- distance-monotonicity across two different keypoints (same σ) -/
theorem cm_antitone_dist_cross (T : Transc R) (sg : R) (hs : 0 < sg) (x y x' y' gx gy gx' gy' : R)
    (h : d2 gx gy x y ≤ d2 gx' gy' x' y') :
    cmCell T.exp sg (some (x', y')) gx' gy' ≤ cmCell T.exp sg (some (x, y)) gx gy := by
  simp only [cmCell]
  apply T.exp_mono
  have h2 : (0 : R) < 2 * (sg * sg) := by positivity
  rw [div_le_div_iff_of_pos_right h2]
  linarith

/-- **multi_argmax_nearest**: in a reduced channel, a grid point that is nearest to some reduced
visible keypoint *among all (grid point, visible keypoint) pairs* attains the channel maximum.
(`cells` is any set of grid points, e.g. all `(gp s j, gp s i)` of the map.) -/
theorem multi_argmax_nearest (T : Transc R) (sg : R) (hs : 0 < sg) (kps : List (Option (R × R)))
    (x y gx gy : R) (hk : some (x, y) ∈ kps) (cells : R → R → Prop)
    (hnear : ∀ gx' gy' x' y', cells gx' gy' → some (x', y') ∈ kps →
      d2 gx gy x y ≤ d2 gx' gy' x' y') :
    ∀ gx' gy', cells gx' gy' → multiCell T.exp sg kps gx' gy' ≤ multiCell T.exp sg kps gx gy := by
  intro gx' gy' hc
  obtain ⟨hub, _, _⟩ := multi_eq_sup T.exp sg kps gx gy
  obtain ⟨_, _, hatt⟩ := multi_eq_sup T.exp sg kps gx' gy'
  have hbest := hub _ hk
  rcases hatt with h0 | ⟨kp, hkp, hv⟩
  · rw [h0]; exact le_trans (cm_pos_visible T sg x y gx gy).le hbest
  · rw [hv]
    cases kp with
    | none => exact le_trans (le_of_eq rfl) (le_trans (cm_pos_visible T sg x y gx gy).le hbest)
    | some p =>
      obtain ⟨x', y'⟩ := p
      exact le_trans (cm_antitone_dist_cross T sg hs x y x' y' gx gy gx' gy' (hnear gx' gy' x' y' hc hkp)) hbest

/-! ## channel index of a rank-4 input -/

/-- **flatten_channel_index**: `instance.view(n_samples, -1, 2)` — for `n_nodes` nodes per animal,
channel `a·n_nodes + c` of `generate_confmaps` on a rank-4 input is node `c` of animal `a`. -/
theorem flatten_channel_index (animals : List (List (Option (R × R)))) (n : Nat)
    (hlen : ∀ a ∈ animals, a.length = n) (a c : Nat) (ha : a < animals.length) (hc : c < n) :
    (flattenInst animals)[a * n + c]? = (animals[a]?).bind (·[c]?) := by
  unfold flattenInst
  induction animals generalizing a with
  | nil => simp at ha
  | cons x xs ih =>
    have hx : x.length = n := hlen x List.mem_cons_self
    rw [List.flatten_cons]
    cases a with
    | zero =>
      simp only [Nat.zero_mul, Nat.zero_add, List.getElem?_cons_zero, Option.bind_some]
      rw [List.getElem?_append_left (by omega)]
    | succ k =>
      have : (k + 1) * n + c = x.length + (k * n + c) := by rw [hx]; ring
      rw [this, List.getElem?_append_right (by omega)]
      simp only [Nat.add_sub_cancel_left, List.getElem?_cons_succ]
      exact ih (fun a' ha' => hlen a' (List.mem_cons_of_mem _ ha')) k (by simpa using ha)

theorem cm4_value (exp : R → R) (σ : R) (s H W n : Nat) (animals : List (List (Option (R × R))))
    (hlen : ∀ a ∈ animals, a.length = n) (a c i j : Nat) (ha : a < animals.length) (hc : c < n)
    (hi : i < gridLen H s) (hj : j < gridLen W s) :
    cellAt3? (confmaps4 exp Nat.cast σ s H W animals) (a * n + c) i j
      = some (cmCell exp (σ * (s : R)) (nodeOf animals[a] c) (gp s j) (gp s i)) := by
  have hidx := flatten_channel_index animals n hlen a c ha hc
  have hlt : a * n + c < (flattenInst animals).length := by
    by_contra hcon
    rw [List.getElem?_eq_none (by omega)] at hidx
    rw [List.getElem?_eq_getElem ha] at hidx
    have : c < animals[a].length := by rw [hlen _ (List.getElem_mem ha)]; exact hc
    simp [List.getElem?_eq_getElem this] at hidx
  unfold confmaps4
  rw [cm_value exp σ s H W _ _ i j hlt hi hj]
  congr 2
  have h1 : (flattenInst animals)[a * n + c]? = some (flattenInst animals)[a * n + c] :=
    List.getElem?_eq_getElem hlt
  have hcl : c < animals[a].length := by rw [hlen _ (List.getElem_mem ha)]; exact hc
  rw [h1, List.getElem?_eq_getElem ha] at hidx
  simp only [Option.bind_some, List.getElem?_eq_getElem hcl] at hidx
  unfold nodeOf
  rw [List.getElem?_eq_getElem hcl]
  exact Option.some.inj hidx

/-! ## batches -/

/-- **multi_batch_independent** (true of the code since fix 372b25e, F-C01): every sample of a batch
gets the max-reduction over *its own* animals. -/
theorem multi_batch_independent (exp : R → R) (σ : R) (s H W n nNodes : Nat)
    (batch : List (List (List (Option (R × R))))) :
    multiConfmapsBatch exp Nat.cast σ s H W n nNodes batch
      = batch.map (multiConfmaps exp Nat.cast σ s H W n nNodes) := by
  unfold multiConfmapsBatch multiConfmaps; rfl

/-- cell level: sample `b`, channel `c`, cell `(i,j)` of the batched multi-instance maps is the
max-reduction over sample `b`'s own first `n` animals -/
theorem multi_batch_value (exp : R → R) (σ : R) (s H W n nNodes : Nat)
    (batch : List (List (List (Option (R × R))))) (b c i j : Nat) (hb : b < batch.length)
    (hc : c < nNodes) (hi : i < gridLen H s) (hj : j < gridLen W s) :
    ((multiConfmapsBatch exp Nat.cast σ s H W n nNodes batch)[b]?).bind (cellAt3? · c i j)
      = some (multiCell exp (σ * (s : R)) ((batch[b].take n).map (nodeOf · c)) (gp s j) (gp s i)) := by
  rw [multi_batch_independent]
  simp only [List.getElem?_map, List.getElem?_eq_getElem hb, Option.map_some, Option.bind_some]
  exact multi_value exp σ s H W n nNodes _ c i j hc hi hj

theorem centroid_batch_independent (exp : R → R) (σ : R) (s H W n : Nat)
    (batch : List (List (Option (R × R)))) :
    centroidConfmapsBatch exp Nat.cast σ s H W n batch
      = batch.map (centroidConfmaps exp Nat.cast σ s H W n) := by
  unfold centroidConfmapsBatch centroidConfmaps
  rw [multi_batch_independent, List.map_map]; rfl

/-- `generate_confmaps` treats the samples of a batch independently (by construction of
`make_confmaps`' broadcasting; tied to the code by the correspondence on `n_samples = 2`). -/
theorem cm_batch_independent (exp : R → R) (σ : R) (s H W : Nat)
    (batch : List (List (Option (R × R)))) (b : Nat) (hb : b < batch.length) :
    (confmapsBatch exp Nat.cast σ s H W batch)[b]? = some (confmaps exp Nat.cast σ s H W batch[b]) := by
  simp [confmapsBatch, hb]

/-! ## histories: the generators are pure

The DataPipe classes are modelled by *functions* (no state): iterating the same generator object
`k` times over the same examples is mapping the model over `k` copies of the input, and every pass
gives the single-pass answer.  (The code must not keep state between passes — e.g. store
`sigma * output_stride` back into `self.sigma`; the harness iterates each object 1–3 times, also
interleaved, and compares every pass with this stateless answer.) -/
theorem passes_independent {α β : Type} (f : α → β) (x : α) (k : Nat) :
    (List.replicate k x).map f = List.replicate k (f x) := List.map_replicate

/-- every one of `k` passes of the multi-instance / centroid / single generators over a batch gives
the one-pass maps, whose cells are those of `multi_batch_value` / `cm_value` -/
theorem dp_passes_independent (exp : R → R) (σ : R) (s H W n nNodes k : Nat)
    (batch : List (List (List (Option (R × R))))) (flat : List (List (Option (R × R)))) :
    (List.replicate k batch).map (multiConfmapsBatch exp Nat.cast σ s H W n nNodes)
      = List.replicate k (batch.map (multiConfmaps exp Nat.cast σ s H W n nNodes)) ∧
    (List.replicate k flat).map (confmapsBatch exp Nat.cast σ s H W)
      = List.replicate k (flat.map (confmaps exp Nat.cast σ s H W)) := by
  refine ⟨?_, ?_⟩
  · rw [passes_independent, multi_batch_independent]
  · rw [passes_independent]; rfl

/-- a stream of *different* examples (image sizes, keypoints) through one generator is the model
mapped over the stream: the maps of example `i` are those of example `i` alone (its own `H`, `W`,
hence its own grid) — nothing is carried over from earlier examples. -/
theorem dp_stream_independent (exp : R → R) (σ : R) (s n nNodes : Nat)
    (stream : List (Nat × Nat × List (List (List (Option (R × R)))))) (i : Nat) :
    (stream.map fun ex => multiConfmapsBatch exp Nat.cast σ s ex.1 ex.2.1 n nNodes ex.2.2)[i]?
      = (stream[i]?).map fun ex => ex.2.2.map (multiConfmaps exp Nat.cast σ s ex.1 ex.2.1 n nNodes) := by
  rw [List.getElem?_map]; simp only [multi_batch_independent]

/-! ### regression record for F-C01 (fixed in 372b25e) -/

/-- the pre-fix reduction agreed with the per-sample one on a batch of one sample … -/
theorem multi_batch_asIs_single (exp : R → R) (σ : R) (s H W n nNodes : Nat)
    (animals : List (List (Option (R × R)))) :
    multiConfmapsBatchAsIs exp Nat.cast σ s H W n nNodes [animals]
      = [multiConfmaps exp Nat.cast σ s H W n nNodes animals] := by
  simp [multiConfmapsBatchAsIs, multiConfmaps]

/-- … and not on two: 1×1 image, sample 0 has a keypoint at the origin, sample 1 has none — the
pre-fix reduction put sample 0's bump (value 1) into sample 1's map.  (The old `multi_batch_counterexample`.) -/
theorem multi_batch_asIs_counterexample (T : Transc R) :
    ¬ ∀ (σ : R) (s H W n nNodes : Nat) (batch : List (List (List (Option (R × R))))),
      multiConfmapsBatchAsIs T.exp Nat.cast σ s H W n nNodes batch
        = batch.map (multiConfmaps T.exp Nat.cast σ s H W n nNodes) := by
  intro h
  have := h 1 1 1 1 1 1 [[[some (0, 0)]], [[none]]]
  simp [multiConfmapsBatchAsIs, multiConfmaps, makeMultiConfmaps, tabulate, gridVec, gridLen, multiCell,
    nodeOf, cmCell, d2, maxR, T.exp_zero] at this

/-! ## non-vacuity: the hypotheses are met by concrete values over ℝ -/

example : ∃ T : Transc ℝ, T.exp 0 = 1 := ⟨realTransc, realTransc.exp_zero⟩

example : 0 ≤ cmCell realTransc.exp (3 : ℝ) (some (1/2, 7/4)) 3 4 ∧
    cmCell realTransc.exp (3 : ℝ) (some (1/2, 7/4)) 3 4 ≤ 1 :=
  cm_range realTransc 3 (by norm_num) _ _ _

example : cmCell realTransc.exp (3 : ℝ) (some (0, 0)) 4 0 ≤ cmCell realTransc.exp (3 : ℝ) (some (0, 0)) 2 0 :=
  cm_antitone_dist realTransc 3 (by norm_num) 0 0 2 0 4 0 (by norm_num [d2])

example : (2 : Nat) ∣ 8 ∧ gridLen 8 2 = 4 ∧ gridLen 7 2 = 4 := by decide

-- multi_argmax_nearest: keypoints (0,0) and (5,5), cells {(0,0),(2,0)}: the cell (0,0) is nearest
example : ∀ gx' gy' : ℝ, ((gx' = 0 ∨ gx' = 2) ∧ gy' = 0) →
    multiCell realTransc.exp (1 : ℝ) [some (0, 0), some (5, 5)] gx' gy'
      ≤ multiCell realTransc.exp (1 : ℝ) [some (0, 0), some (5, 5)] 0 0 :=
  multi_argmax_nearest realTransc 1 one_pos _ 0 0 0 0 (by simp) (fun gx' gy' => (gx' = 0 ∨ gx' = 2) ∧ gy' = 0)
    (by
      intro gx' gy' x' y' hc hk
      have h0 : d2 (0 : ℝ) 0 0 0 = 0 := by simp [d2]
      rw [h0]; exact d2_nonneg _ _ _ _)

-- flatten_channel_index: 2 animals × 2 nodes, channel 1·2+1 is node 1 of animal 1
example : (flattenInst [[some ((0 : ℝ), 0), none], [some (1, 1), some (2, 2)]])[1 * 2 + 1]? = some (some (2, 2)) := by
  rw [flatten_channel_index _ 2 (by simp) 1 1 (by simp) (by norm_num)]; rfl

end SleapVerif.C01
