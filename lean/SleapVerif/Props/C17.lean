import SleapVerif.Lemmas.Toposort
import SleapVerif.Lemmas.ToposortRelabel
import SleapVerif.Model.Grouping
/-!
# C17 — every tree skeleton gets a complete, parent-before-child edge order

Statements are about `SleapVerif.Toposort.toposort`, the model of
`sleap_nn.inference.paf_grouping.toposort_edges` (tied to the code by `harness/c17.py`).
They hold for **every** arborescence `Arbo edges r` — any number of nodes, any node numbering,
any order of the edge listing (the hypothesis is closed under permutation: `arbo_perm`).
-/
namespace SleapVerif.C17
open SleapVerif.Toposort

/-- The hypothesis does not depend on how the skeleton was written down. -/
theorem arbo_perm {edges edges' : List Edge} {r : Nat} (A : Arbo edges r) (p : edges'.Perm edges) :
    Arbo edges' r := by
  have hm : ∀ e, e ∈ edges' ↔ e ∈ edges := fun e => p.mem_iff
  have hreach : ∀ x, Reach edges r x → Reach edges' r x := by
    intro x hx
    induction hx with
    | root => exact Reach.root
    | step _ he ih => exact Reach.step ih ((hm _).mpr he)
  exact {
    nodup := p.nodup_iff.mpr A.nodup
    noRootIn := fun e he => A.noRootIn e ((hm e).mp he)
    uniqueParent := fun e he e' he' h => A.uniqueParent e ((hm e).mp he) e' ((hm e').mp he') h
    reach := fun e he => hreach _ (A.reach e ((hm e).mp he)) }

/-- **Completeness**: the order exists (the implementation does not raise) and contains every
    edge index exactly once. -/
theorem toposort_perm {edges : List Edge} {r : Nat} (A : Arbo edges r) (hne : edges ≠ []) :
    ∃ l, toposort edges = some l ∧ l.Perm (List.range edges.length) := by
  refine ⟨(bfsOut edges r).map (fun e => edges.idxOf e), ?_, ?_⟩
  · simp [toposort, arbo_rootOf A hne]
  · have := (arbo_out_perm A).map (fun e => edges.idxOf e)
    rwa [map_idxOf_self edges A.nodup] at this

/-- **Parent before child**, on the returned indices: the edge at position `i` either starts at
    the root or its source node is the destination of an edge at an earlier position. -/
theorem toposort_parent_first {edges : List Edge} {r : Nat} (A : Arbo edges r) (l : List Nat)
    (hl : toposort edges = some l) (i : Nat) (hi : i < l.length) :
    ∃ (hlt : l[i] < edges.length), (edges[l[i]]).1 = r ∨
      ∃ (j : Nat) (hj : j < i) (hjl : l[j] < edges.length), (edges[l[j]]).2 = (edges[l[i]]).1 := by
  have hne : edges ≠ [] := by
    intro h; subst h; simp [toposort, rootOf, nodesOf] at hl
  have hl' : l = (bfsOut edges r).map (fun e => edges.idxOf e) := by
    simp [toposort, arbo_rootOf A hne] at hl; exact hl.symm
  subst hl'
  have hi' : i < (bfsOut edges r).length := by simpa using hi
  have I := binv_run A.toTreeLike (edges.length + 1) (binv_init edges r)
  have hmem : ∀ k (hk : k < (bfsOut edges r).length), (bfsOut edges r)[k] ∈ edges :=
    fun k hk => out_sub I _ (List.getElem_mem hk)
  have hget : ∀ k (hk : k < (bfsOut edges r).length),
      ∃ (h : edges.idxOf (bfsOut edges r)[k] < edges.length),
        edges[edges.idxOf (bfsOut edges r)[k]] = (bfsOut edges r)[k] := by
    intro k hk
    have h := List.idxOf_lt_length_of_mem (hmem k hk)
    exact ⟨h, List.getElem_idxOf h⟩
  obtain ⟨h1, h2⟩ := hget i hi'
  refine ⟨by simpa using h1, ?_⟩
  have hsplit : bfsOut edges r
      = (bfsOut edges r).take i ++ (bfsOut edges r)[i] :: (bfsOut edges r).drop (i + 1) := by
    simp
  rcases I.parentFirst _ _ _ hsplit with h | ⟨e', he', hd⟩
  · left; simpa [h2] using h
  · right
    obtain ⟨j, hj, rfl⟩ := List.getElem_of_mem he'
    have hjlt : j < i := by simp at hj; omega
    have hjo : j < (bfsOut edges r).length := by omega
    obtain ⟨h3, h4⟩ := hget j hjo
    refine ⟨j, hjlt, by simpa using h3, ?_⟩
    simp only [List.getElem_map, h2, h4]
    simpa [List.getElem_take] using hd

/-- The fuel `|edges|+1` given to the breadth-first search always suffices (the queue is empty
    at the end), so truncation never hides an edge. -/
theorem toposort_fuel_suffices {edges : List Edge} {r : Nat} (A : Arbo edges r) :
    (brun edges (edges.length + 1) (binit r)).queue = [] :=
  final_queue_empty A.toTreeLike

/-- Soundness for any tree-like listing even without reachability: only skeleton edges, none twice. -/
theorem toposort_sound_nodup {edges : List Edge} {r : Nat} (T : TreeLike edges r) :
    (∀ e ∈ bfsOut edges r, e ∈ edges) ∧ (bfsOut edges r).Nodup :=
  let I := binv_run T (edges.length + 1) (binv_init edges r)
  ⟨out_sub I, out_nodup I⟩

/-- "However its nodes are numbered": renumbering the nodes by ANY injective map leaves the edge
    order unchanged — for every listing, tree or not, including whether the implementation raises
    (`none`).  In particular `PAFScorer`'s re-indexing of the skeleton's nodes by their position in
    `part_names` cannot change the order used for grouping. -/
theorem toposort_relabel (f : Nat → Nat) (hf : ∀ a b, f a = f b → a = b) (edges : List Edge) :
    toposort (relabel f edges) = toposort edges := by
  simp only [toposort]
  rw [rootOf_relabel hf]
  cases rootOf edges with
  | none => rfl
  | some r =>
    simp only [Option.map_some]
    rw [bfsOut_relabel hf, List.map_map]
    congr 1
    apply List.map_congr_left
    intro e _
    exact idxOf_relabel hf edges e

/-- The breadth-first edge sequence itself is carried along by the renumbering (so the theorems
    above about sources and destinations transfer to the renumbered skeleton). -/
theorem bfs_relabel (f : Nat → Nat) (hf : ∀ a b, f a = f b → a = b) (edges : List Edge) (r : Nat) :
    bfsOut (relabel f edges) (f r) = (bfsOut edges r).map (relabelE f) :=
  bfsOut_relabel hf edges r

/-- The hypothesis is closed under renumbering too (companion of `arbo_perm`): an arborescence
    renumbered by an injective map is an arborescence rooted at the renumbered root. -/
theorem arbo_relabel {edges : List Edge} {r : Nat} (f : Nat → Nat) (hf : ∀ a b, f a = f b → a = b)
    (A : Arbo edges r) : Arbo (relabel f edges) (f r) := by
  have mem : ∀ e', e' ∈ relabel f edges → ∃ e ∈ edges, relabelE f e = e' := by
    intro e' h; simpa [relabel] using h
  have reach : ∀ x, Reach edges r x → Reach (relabel f edges) (f r) (f x) := by
    intro x h
    induction h with
    | root => exact Reach.root
    | step _ he ih =>
      exact Reach.step ih (by
        simp only [relabel, List.mem_map]
        exact ⟨_, he, rfl⟩)
  refine { nodup := ?_, noRootIn := ?_, uniqueParent := ?_, reach := ?_ }
  · exact nodup_map_of_injOn (relabelE f) edges A.nodup
      (fun a _ b _ h => relabelE_inj hf a b h)
  · intro e' he' h
    obtain ⟨e, he, rfl⟩ := mem e' he'
    exact A.noRootIn e he (hf _ _ h)
  · intro e1 h1 e2 h2 h
    obtain ⟨a, ha, rfl⟩ := mem e1 h1
    obtain ⟨b, hb, rfl⟩ := mem e2 h2
    rw [A.uniqueParent a ha b hb (hf _ _ h)]
  · intro e' he'
    obtain ⟨e, he, rfl⟩ := mem e' he'
    exact reach _ (A.reach e he)

/-- The property's quantifier in ONE statement — "however its nodes are numbered and its edges are
    listed": take any arborescence, renumber its nodes by any injective map, write the edges down in
    any order; the order exists (no raise), contains every edge exactly once and is parent-first
    with respect to the renumbered root. -/
theorem toposort_any_numbering_any_listing {edges edges' : List Edge} {r : Nat}
    (f : Nat → Nat) (hf : ∀ a b, f a = f b → a = b) (A : Arbo edges r) (hne : edges ≠ [])
    (p : edges'.Perm (relabel f edges)) :
    ∃ l, toposort edges' = some l ∧ l.Perm (List.range edges'.length) ∧
      ∀ (i : Nat) (_ : i < l.length), ∃ (hlt : l[i] < edges'.length), (edges'[l[i]]).1 = f r ∨
        ∃ (j : Nat) (_ : j < i) (hjl : l[j] < edges'.length), (edges'[l[j]]).2 = (edges'[l[i]]).1 := by
  have A' : Arbo edges' (f r) := arbo_perm (arbo_relabel f hf A) p
  have hne' : edges' ≠ [] := by
    intro h; subst h
    have := p.length_eq
    simp only [relabel, List.length_nil, List.length_map] at this
    exact hne (List.length_eq_zero_iff.mp this.symm)
  obtain ⟨l, hl, hp⟩ := toposort_perm A' hne'
  exact ⟨l, hl, hp, fun i hi => toposort_parent_first A' l hl i hi⟩

/-- non-vacuity: the suite's skeleton renumbered by n ↦ 2n+3 (injective) -/
example : toposort (relabel (fun n => 2 * n + 3) [(2,3),(0,1),(1,2),(1,4)]) = some [1,2,3,0] := by
  rw [toposort_relabel _ (by intro a b h; omega)]; decide

/-- The decidable recogniser printed by the driver is sound for the hypothesis: the harness asserts
    `isArbo = true` on every listing it treats as a tree, so each such case is an instance of the
    theorems above (per-case non-vacuity). -/
theorem isArbo_implies_arbo {edges : List Edge} (h : isArbo edges = true) : ∃ r, Arbo edges r :=
  isArbo_sound h

example : isArbo [(2,3),(0,1),(1,2),(1,4)] = true := by decide
example : isArbo [(0,1),(1,0)] = false := by decide

/-! Non-vacuity: the suite's example skeleton, listed out of order, is an arborescence. -/
theorem arbo_suite_example : Arbo [(2,3),(0,1),(1,2),(1,4)] 0 := by
  have r0 : Reach [(2,3),(0,1),(1,2),(1,4)] 0 0 := Reach.root
  have r1 : Reach [(2,3),(0,1),(1,2),(1,4)] 0 1 := Reach.step r0 (by simp)
  have r2 : Reach [(2,3),(0,1),(1,2),(1,4)] 0 2 := Reach.step r1 (by simp)
  exact {
    nodup := by decide
    noRootIn := by decide
    uniqueParent := by decide
    reach := by
      intro e he
      simp only [List.mem_cons, List.not_mem_nil, or_false] at he
      rcases he with rfl | rfl | rfl | rfl <;> assumption }

example : toposort [(2,3),(0,1),(1,2),(1,4)] = some [1,2,3,0] := by decide

/-- non-vacuity of `toposort_any_numbering_any_listing`: the suite's skeleton renumbered by
    n ↦ 2n+3 and listed in reverse meets every hypothesis. -/
example : ∃ l, toposort [(5,11),(5,7),(3,5),(7,9)] = some l ∧ l.Perm (List.range 4) := by
  have p : [(5,11),(5,7),(3,5),(7,9)].Perm (relabel (fun n => 2 * n + 3) [(2,3),(0,1),(1,2),(1,4)]) := by
    show [(5,11),(5,7),(3,5),(7,9)].Perm [(7,9),(3,5),(5,7),(5,11)]
    exact (List.reverse_perm _).symm
  obtain ⟨l, h1, h2, _⟩ := toposort_any_numbering_any_listing (fun n => 2 * n + 3)
    (by intro a b h; omega) arbo_suite_example (by simp) p
  exact ⟨l, h1, h2⟩

/-! ## why the order has to be parent-first

`assign_connections_to_instances` (C08's model `Grouping.astep`, the four code cases literally) has
no branch for "source peak unassigned, destination peak assigned": a connection met in that state is
ignored.  That state arises exactly when an edge type is visited before the edge type leading into
its source node, so an order that is not parent-first leaves the parent body part ungrouped.  (That
the order of `toposort` never produces the state — and the instances then are the connected groups
of matched parts — is C08's `assign_only_cases_1_2` / `assign_classes_eq_components`, which consume
`toposort_parent_first`.) -/

open SleapVerif.Grouping in
/-- A connection whose destination peak is already assigned while its source peak is not changes
    nothing: the source body part stays ungrouped. -/
theorem child_before_parent_drops_parent (a : Assign) (s d : Peak) (i : Nat)
    (hs : lookup a s = none) (hd : lookup a d = some i) : astep a s d = a := by
  simp [astep, hs, hd]

open SleapVerif.Grouping in
/-- Concrete witness on the path skeleton 0→1→2 with one animal: visiting edge (1,2) before (0,1)
    loses the root part, the parent-first order keeps all three parts in one instance. -/
theorem parent_first_needed :
    lookup (assignRaw [((1,0),(2,0)), ((0,0),(1,0))]) (0,0) = none ∧
    (lookup (assignRaw [((0,0),(1,0)), ((1,0),(2,0))]) (0,0) = some 0 ∧
     lookup (assignRaw [((0,0),(1,0)), ((1,0),(2,0))]) (1,0) = some 0 ∧
     lookup (assignRaw [((0,0),(1,0)), ((1,0),(2,0))]) (2,0) = some 0) := by decide

end SleapVerif.C17
