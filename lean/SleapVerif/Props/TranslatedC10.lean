import SleapVerif.Lemmas.TrackFeatures
import SleapVerif.Gen.TranslatedC10

/-!
# C10 (and C09's feature stage), second tie — `sleap_nn/tracking/utils.py` *as translated from the source*

`Gen/TranslatedC10.lean` is regenerated on every run of `bin/check C10` (harness/py2lean_ext.py):
`compute_iou`, `compute_euclidean_distance`, `compute_cosine_sim`, `get_bbox`, `get_centroid`.
The C10 theorems (`iou_dominance`, `euclid_dominance`, `identity_preserved_*`) are about
`TrackFeatures.scoreIou/scoreEuclid/scoreCosine/bbox/centroid`; below, each of those *is* the
generated definition (`gen_*_eq_model`), and the facts the identity argument rests on are restated
directly about the generated `compute_iou` (`gen_iou_range_symm`, `gen_iou_self_disjoint`).
-/

set_option linter.unusedSectionVars false
set_option linter.unusedSimpArgs false
set_option linter.unusedTactic false
set_option linter.unreachableTactic false

namespace SleapVerif.TranslatedC10
open SleapVerif.Oks SleapVerif.TrackFeatures SleapVerif.Gen.TranslatedC10

variable {R : Type} [Field R] [LinearOrder R] [IsStrictOrderedRing R]

/-- `compute_iou` (inclusive `+1` box arithmetic, `max(0, ·)` clipping of the intersection) is the
model's `scoreIou` on `[xmin, ymin, xmax, ymax]` boxes -/
theorem gen_compute_iou_eq_model (a b : Box R) :
    compute_iou a.1 a.2.1 a.2.2.1 a.2.2.2 b.1 b.2.1 b.2.2.1 b.2.2.2 = scoreIou a b := by
  obtain ⟨x1, y1, X1, Y1⟩ := a
  obtain ⟨x2, y2, X2, Y2⟩ := b
  simp only [compute_iou, scoreIou, iou, tMax, tMin, Oks.maxR, Oks.minR] <;> (first | rfl | ring_nf)

/-- `compute_euclidean_distance` is the model's `scoreEuclid` (the *negative* distance) -/
theorem gen_compute_euclidean_distance_eq_model (sqrt : R → R) (a b : R × R) :
    compute_euclidean_distance sqrt a.1 a.2 b.1 b.2 = scoreEuclid sqrt a b := by
  simp only [compute_euclidean_distance, scoreEuclid, TrackFeatures.dist2] <;> (first | rfl | ring_nf)

/-- `compute_cosine_sim` on 2-vectors is the model's `scoreCosine` -/
theorem gen_compute_cosine_sim_eq_model (sqrt : R → R) (a b : R × R) :
    compute_cosine_sim sqrt a.1 a.2 b.1 b.2 = scoreCosine sqrt a b := by
  simp only [compute_cosine_sim, scoreCosine, cosine, dot, sumR, List.zipWith_cons_cons,
    List.zipWith_nil_right, List.foldr_cons, List.foldr_nil, add_zero] <;> (first | rfl | ring_nf)

/-- `get_bbox` = `[xmin, ymin, xmax, ymax]` of the model's `bbox` (NaN as soon as a column has no
visible entry), `get_centroid` = the model's `centroid` (column-wise `nanmedian`) -/
theorem gen_get_bbox_centroid_eq_model (pts : List (Pt R)) :
    bbox pts = (match get_bbox pts with
      | [some x0, some y0, some x1, some y1] => some (x0, y0, x1, y1)
      | _ => none) ∧
    centroid pts = (match get_centroid pts with
      | [some x, some y] => some (x, y)
      | _ => none) := by
  constructor
  · simp only [bbox, get_bbox, npNanmin, npNanmax]
    cases nanFold minR (pts.map (·.1)) <;> cases nanFold minR (pts.map (·.2)) <;>
      cases nanFold maxR (pts.map (·.1)) <;> cases nanFold maxR (pts.map (·.2)) <;> rfl
  · simp only [centroid, get_centroid, npNanmedian]
    cases nanMedian (pts.map (·.1)) <;> cases nanMedian (pts.map (·.2)) <;> rfl

/-- directly about the generated `compute_iou`: for well-formed boxes it lies in `[0, 1]`, and it is
symmetric in its arguments -/
theorem gen_iou_range_symm (a b : Box R) (ha : WF a) (hb : WF b) :
    0 ≤ compute_iou a.1 a.2.1 a.2.2.1 a.2.2.2 b.1 b.2.1 b.2.2.1 b.2.2.2 ∧
    compute_iou a.1 a.2.1 a.2.2.1 a.2.2.2 b.1 b.2.1 b.2.2.1 b.2.2.2 ≤ 1 ∧
    compute_iou a.1 a.2.1 a.2.2.1 a.2.2.2 b.1 b.2.1 b.2.2.1 b.2.2.2 =
      compute_iou b.1 b.2.1 b.2.2.1 b.2.2.2 a.1 a.2.1 a.2.2.1 a.2.2.2 := by
  rw [gen_compute_iou_eq_model, gen_compute_iou_eq_model]
  exact ⟨(iou_range a b ha hb).1, (iou_range a b ha hb).2, iou_symm a b⟩

/-- directly: a box scores 1 against itself — also a degenerate one (single visible keypoint), which
is what the inclusive `+1` buys — and 0 against a disjoint box -/
theorem gen_iou_self_disjoint (a b : Box R) (ha : WF a) :
    compute_iou a.1 a.2.1 a.2.2.1 a.2.2.2 a.1 a.2.1 a.2.2.1 a.2.2.2 = 1 ∧
    (TrackFeatures.Disjoint a b →
      compute_iou a.1 a.2.1 a.2.2.1 a.2.2.2 b.1 b.2.1 b.2.2.1 b.2.2.2 = 0) := by
  rw [gen_compute_iou_eq_model, gen_compute_iou_eq_model]
  exact ⟨iou_self_is_one_degenerate a ha, iou_disjoint_zero a b⟩

example : compute_iou (0 : Rat) 0 9 9 5 5 14 14 = 1 / 7 := by
  simp only [compute_iou, tMax, tMin]; norm_num

end SleapVerif.TranslatedC10
