import SleapVerif.Model.Peaks
import SleapVerif.Gen.TranslatedC06
import SleapVerif.Gen.TranslatedC04b
import Mathlib.Tactic.Ring
import Mathlib.Tactic.Linarith
import Mathlib.Tactic.IntervalCases
import Mathlib.Algebra.Order.Field.Basic
import Mathlib.Algebra.Order.Field.Rat

/-!
# C06 / C07, second tie — scalar slices of `peak_finding.py` *as translated from the Python source*

`Gen/TranslatedC06.lean` is regenerated from `sleap_nn/inference/peak_finding.py` on every run of
`bin/check C06` and `bin/check C07` (harness/py2lean_ext.py):

* C06 — the NMS structuring element, the elementwise local-peak test `(cms > max_img) & (cms > thr)`,
  the unravelling of the global arg-max and its threshold mask;
* C07 — the patch grid `gv = arange(p) − (p−1)/2` of the integral refinement (identical on the global
  and the local path, used for x and y), the call `make_centered_bboxes(peaks, p, p)` and the box
  size `crop_bboxes` reads off those boxes.

`Model/Peaks.lean` states these as `nbhd`/`kernelOffsets`, `isPeak`, `threshold`, `gv`; the theorems
below identify them with the generated definitions, and compose the generated box size with the
generated `make_centered_bboxes` (`Gen/TranslatedC04b.lean`): a `p × p` request yields exactly a
`p × p` crop, for every `p ≥ 1`, odd or even.
-/

set_option linter.unusedSectionVars false
set_option linter.unusedSimpArgs false

namespace SleapVerif.TranslatedC06
open SleapVerif.Peaks SleapVerif.Gen.TranslatedC06

section field
variable {R : Type} [Field R] [LinearOrder R] [IsStrictOrderedRing R]

/-- the translated elementwise test is the model's `isPeak`: strictly above the neighbourhood maximum
**and** strictly above the threshold -/
theorem gen_local_peak_test_eq_model (big thr : R) (b : Batch R) (s c i j : Nat) :
    isPeak big thr b s c i j = local_peak_test (b.v s c i j) (maxImg big b s c i j) thr := by
  simp only [isPeak, local_peak_test] <;> (first | rfl | exact Bool.and_comm _ _)

/-- the kernel is the 3×3 ring: the model's nine `kernelOffsets` are its positions and the model's
`nbhd` removes exactly the entry that is `0` — the centre -/
theorem gen_nms_kernel_eq_model (big : R) :
    nms_kernel = [[1, 1, 1], [1, 0, 1], [1, 1, 1]] ∧
    kernelOffsets = (List.range 3).flatMap (fun (a : Nat) => (List.range 3).map (fun (b : Nat) => ((a : Int) - 1, (b : Int) - 1))) ∧
    ∀ a b : Nat, a < 3 → b < 3 →
      nbhd big ((a : Int) - 1) ((b : Int) - 1) = if (nms_kernel[a]!)[b]! = 0 then -big else 0 := by
  refine ⟨rfl, by decide, ?_⟩
  intro a b ha hb
  interval_cases a <;> interval_cases b <;> simp [nbhd, nms_kernel]

/-- global peak: the mask is the model's `threshold` test (strictly below), a masked peak is
`(NaN, 0)`, and `(x, y) = (k mod w, k div w)` of the flat index -/
theorem gen_global_rough_eq_model (thr m : R) (x y k w : Nat) :
    threshold thr x y m =
      (if global_below_threshold m thr then ⟨none, (global_masked (R := R)).2⟩ else ⟨some (x, y), m⟩) ∧
    global_unravel (k : Int) (w : Int) = (((k % w : Nat) : Int), ((k / w : Nat) : Int)) := by
  constructor
  · unfold threshold global_below_threshold global_masked
    by_cases h : m < thr <;> simp [h]
  · unfold global_unravel
    rw [Int.fmod_eq_emod_of_nonneg _ (Int.natCast_nonneg w), Int.fdiv_eq_ediv_of_nonneg _ (Int.natCast_nonneg w)]
    simp

/-- directly: a cell that merely *equals* its neighbourhood maximum or the threshold is not a peak -/
theorem gen_local_peak_strict (cm mx thr : R) :
    local_peak_test cm mx thr = true ↔ mx < cm ∧ thr < cm := by
  simp [local_peak_test] <;> exact and_comm

end field

/-! ## integral refinement (C07) -/

/-- the translated patch grid is the model's `gv`: entry `k` is `k − (p−1)/2` -/
theorem gen_integral_grid_eq_model (p : Nat) :
    integral_grid (p : Int) = (List.range p).map (fun k => gv (R := Rat) p k) := by
  unfold integral_grid pyArange
  have e : (((p : Int) - 0 + 1 - 1) / 1).toNat = p := by simp
  rw [if_pos (by decide), e, List.map_map]
  apply List.map_congr_left
  intro i hi
  have hip : i < p := List.mem_range.mp hi
  have hp : ((p : Int) - 1) = ((p - 1 : Nat) : Int) := by omega
  simp only [Function.comp, gv]
  have hp' : ((p : Int) - 1 : Int) = ((p - 1 : Nat) : Int) := hp
  push_cast [hp'] at *
  have hq : ((p - 1 : Nat) : Rat) = (p : Rat) - 1 := by rw [Nat.cast_sub (by omega)]; simp
  rw [hq]; ring

/-- directly: the grid has `p` points, is centred (`gv[k] + gv[p−1−k] = 0`) and has unit spacing —
so the integral offsets are measured from the centre of the `p × p` patch, for odd and even `p` -/
theorem gen_integral_grid_centred (p k : Nat) (hk : k < p) :
    (integral_grid (p : Int)).length = p ∧
    ∃ a b : Rat, (integral_grid (p : Int))[k]? = some a ∧ (integral_grid (p : Int))[p - 1 - k]? = some b ∧
      a + b = 0 ∧ a = (k : Rat) - ((p : Rat) - 1) / 2 := by
  rw [gen_integral_grid_eq_model]
  have hk' : p - 1 - k < p := by omega
  refine ⟨by simp, gv p k, gv p (p - 1 - k), ?_, ?_, ?_, ?_⟩
  · rw [List.getElem?_map, List.getElem?_range hk]; rfl
  · rw [List.getElem?_map, List.getElem?_range hk']; rfl
  · simp only [gv]
    have h1 : ((p - 1 - k : Nat) : Rat) = (p : Rat) - 1 - k := by
      rw [Nat.cast_sub (by omega), Nat.cast_sub (by omega)]; simp
    have h2 : ((p - 1 : Nat) : Rat) = (p : Rat) - 1 := by rw [Nat.cast_sub (by omega)]; simp
    rw [h1, h2]; push_cast; ring
  · simp only [gv]
    have h2 : ((p - 1 : Nat) : Rat) = (p : Rat) - 1 := by rw [Nat.cast_sub (by omega)]; simp
    rw [h2]; push_cast; ring

section box
variable {R : Type} [Field R] [LinearOrder R] [IsStrictOrderedRing R]
open SleapVerif.Gen.TranslatedC04b

/-- **the crop has exactly the requested size**: the box size `crop_bboxes` reads off the corners the
translated `make_centered_bboxes` produces for a `bh × bw` request is `(bh, bw)` (for `bh, bw ≥ 1`;
with `bh = bw = crop_size` this is the `p × p` patch of the refinement) -/
theorem gen_crop_box_size_of_centered (cx cy bh bw : R) (hh : 1 ≤ bh) (hw : 1 ≤ bw) :
    ∃ b0 b1 b2 b3 b4 b5 b6 b7 : R,
      make_centered_bboxes cx cy bh bw = [[b0, b1], [b2, b3], [b4, b5], [b6, b7]] ∧
      crop_box_size b0 b1 b2 b3 b4 b5 b6 b7 = (bh, bw) := by
  refine ⟨_, _, _, _, _, _, _, _, rfl, ?_⟩
  have abs_nonneg' : ∀ x : R, 0 ≤ x → tAbs x = x := by
    intro x hx; unfold tAbs; rw [if_neg (not_lt.mpr hx)]
  unfold crop_box_size
  have e1 : (cy + bh / 2 + (0 - 1 / 2)) - (cy - bh / 2 + 1 / 2) = bh - 1 := by ring
  have e2 : (cx + bw / 2 + (0 - 1 / 2)) - (cx - bw / 2 + 1 / 2) = bw - 1 := by ring
  simp only [e1, e2, abs_nonneg' (bh - 1) (by linarith), abs_nonneg' (bw - 1) (by linarith)]
  refine Prod.ext ?_ ?_ <;> simp

end box

example : integral_grid 4 = [-3/2, -1/2, 1/2, 3/2] ∧ integral_grid 5 = [-2, -1, 0, 1, 2] ∧
    global_unravel 7 3 = (1, 2) := by decide +kernel

end SleapVerif.TranslatedC06
