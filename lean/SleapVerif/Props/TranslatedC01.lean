import SleapVerif.Model.Grid
import SleapVerif.Gen.TranslatedC01

/-!
# C01 / C05, second tie — `make_grid_vectors` *as translated from the Python source*

`Gen/TranslatedC01.lean` is regenerated from `sleap_nn/data/utils.py` on every run of
`bin/check C01` and `bin/check C05` (harness/py2lean_ext.py).  The confidence-map and
part-affinity-field models tabulate their targets over `Grid.gridVec size stride`
(`[0, s, 2s, …]`, `⌈size/s⌉` entries); the theorems below say that the generated definition is
exactly that grid, on both axes, for every image size and every stride `≥ 1` — in particular when
the stride does not divide the size, where `arange` keeps the last, partly covered cell
(`gen_grid_covers`) and a `linspace(0, size - stride, size // stride)` grid would not.
-/

set_option linter.unusedSimpArgs false

namespace SleapVerif.TranslatedC01
open SleapVerif.Grid SleapVerif.Gen.TranslatedC01

theorem arange_eq_gridVec (size s : Nat) (hs : 0 < s) :
    pyArange 0 (size : Int) (s : Int) = (gridVec size s).map (fun (k : Nat) => (k : Rat)) := by
  have hsI : (0 : Int) < (s : Int) := by omega
  have e1 : (size : Int) - 0 + (s : Int) - 1 = ((size + s - 1 : Nat) : Int) := by omega
  have e2 : ((((size + s - 1 : Nat) : Int)) / (s : Int)).toNat = (size + s - 1) / s := by
    rw [← Int.natCast_ediv]; exact Int.toNat_natCast _
  unfold pyArange gridVec gridLen
  rw [if_pos hsI, e1, e2, List.map_map]
  apply List.map_congr_left
  intro i _
  simp only [Function.comp]
  have : ((0 : Int) + (i : Int) * (s : Int)) = ((i * s : Nat) : Int) := by
    rw [Int.zero_add, Int.natCast_mul]
  rw [this]
  norm_cast

/-- **the translated function is the model's grid** on both axes (`xv` from the width, `yv` from
the height), for every size and every stride `≥ 1` -/
theorem gen_grid_eq_model (H W s : Nat) (hs : 0 < s) :
    make_grid_vectors (H : Int) (W : Int) (s : Int) =
      ((gridVec W s).map (fun (k : Nat) => (k : Rat)), (gridVec H s).map (fun (k : Nat) => (k : Rat))) := by
  unfold make_grid_vectors
  simp only [arange_eq_gridVec _ _ hs]

/-- number of grid points `= ⌈size / stride⌉` and the `k`-th entry is `k · stride` -/
theorem gen_grid_entries (H W s : Nat) (hs : 0 < s) :
    (make_grid_vectors (H : Int) (W : Int) (s : Int)).1.length = (W + s - 1) / s ∧
    (make_grid_vectors (H : Int) (W : Int) (s : Int)).2.length = (H + s - 1) / s ∧
    (∀ k, k < (W + s - 1) / s →
      (make_grid_vectors (H : Int) (W : Int) (s : Int)).1[k]? = some (((k * s : Nat)) : Rat)) ∧
    (∀ k, k < (H + s - 1) / s →
      (make_grid_vectors (H : Int) (W : Int) (s : Int)).2[k]? = some (((k * s : Nat)) : Rat)) := by
  rw [gen_grid_eq_model H W s hs]
  simp only [gridVec, gridLen, List.length_map, List.length_range, List.map_map]
  refine ⟨trivial, trivial, ?_, ?_⟩ <;>
  · intro k hk
    rw [List.getElem?_map, List.getElem?_range hk]
    rfl

/-- **the grid covers the image**: the cells `[k·s, (k+1)·s)` of the generated grid reach the last
pixel (`size ≤ n·s`) and the last grid point is inside the image (`(n-1)·s < size`) — also when
the stride does not divide the size -/
theorem gen_grid_covers (H W s : Nat) (hs : 0 < s) (hW : 0 < W) :
    let n := (make_grid_vectors (H : Int) (W : Int) (s : Int)).1.length
    W ≤ n * s ∧ (n - 1) * s < W := by
  simp only [(gen_grid_entries H W s hs).1]
  have h1 := Nat.div_add_mod (W + s - 1) s
  have h2 := Nat.mod_lt (W + s - 1) hs
  generalize (W + s - 1) / s = q at *
  generalize (W + s - 1) % s = r at *
  have hq : 0 < q := by
    rcases Nat.eq_zero_or_pos q with h | h
    · subst h; omega
    · exact h
  have e : q * s = s * q := Nat.mul_comm _ _
  have e' : (q - 1) * s = s * q - s := by
    rw [Nat.sub_mul, Nat.one_mul, Nat.mul_comm]
  omega

example : make_grid_vectors 5 7 2 = ([0, 2, 4, 6], [0, 2, 4]) := by decide +kernel
example : (gridVec 7 2).map (fun (k : Nat) => (k : Rat)) = [0, 2, 4, 6] := by decide +kernel

end SleapVerif.TranslatedC01
