import SleapVerif.Lemmas.TrainTrace
/-!
# C19 — training runs complete and leave full artefacts that never contain the API key,
# at every crash point

Statements are about `SleapVerif.TrainTrace.traceG`, the model of the configuration-persisting
writes of `ModelTrainer.__init__` + `ModelTrainer.train()` (tied to the code by `harness/c19.py`,
which logs every write of the real trainer and compares both the event list and the file system
after every write).  `Version.repaired` (`trace f = traceG .repaired f [true]`, `traceR`, `traceS`) is
**the tree as it is now** (HEAD with the fixes 4edc0d6, cb444fc, b1bbd3c applied): the property
theorems below are about it.  `Version.asIs` (the originally pinned tree, findings F-C19 / F-C19b)
and `Version.keyFixed` (the tree before b1bbd3c, finding F-C19c) no longer describe any checkout;
their `…_counterexample` / `asIs_…` / `keyFixed_…` theorems are kept as the machine-checked
regression record of what was wrong and where (the harness replays the witnesses and reports a run
that behaves like them as a regression).

Quantifiers: `f : Flags` ranges over the whole configuration grid (4 model types × 2 frameworks ×
tracking × checkpointing × structured/plain × chunk deletion); `n : Nat` ranges over **every**
crash point (prefix length, unbounded); `rounds : List Bool` over any number of validation epochs
with any improvement pattern (unbounded trace length).
-/
namespace SleapVerif.C19
open SleapVerif.TrainTrace

/-- Core lemma, for *any* trace whatsoever: if no write puts a key on disk, then at no crash
point (prefix `take n`, any `n`) does any file hold the key. -/
theorem fs_blank_of_all_blank (l : List Event) (h : ∀ e ∈ l, e.blank = true)
    (n : Nat) (p : Path) (c : Content) (hc : fsAt l n p = some c) : c.keyBlank = true :=
  fsFrom_blank (l.take n) FS.empty FS.blank_empty
    (fun e he => h e (List.mem_of_mem_take he)) p c hc

example : ∀ e ∈ trace ⟨.bottomup, .npChunks, true, true, true, true, true⟩, e.blank = true := by decide

/-- **The key is never persisted** — repaired code, every configuration, every number of epochs,
every crash point, every file. -/
theorem no_key_at_any_crash_point_any_epochs (f : Flags) (rounds : List Bool) (n : Nat)
    (p : Path) (c : Content) (hc : fsAt (traceG .repaired f rounds) n p = some c) :
    c.keyBlank = true := by
  exact fs_blank_of_all_blank _ (all_blank_traceG f rounds) n p c hc

/-- The 1-epoch run the correspondence check executes. -/
theorem no_key_at_any_crash_point (f : Flags) (n : Nat) (p : Path) (c : Content)
    (hc : fsAt (trace f) n p = some c) : c.keyBlank = true :=
  no_key_at_any_crash_point_any_epochs f [true] n p c hc

example : fsAt (trace ⟨.centroid, .npChunks, false, true, false, true, true⟩) 7 .bestCkpt
    = some (cfg .used true false) := by decide

/-- **Full artefacts** after a completed run (repaired code): the initial file holds the supplied
configuration and the final one the configuration actually used (with `run_id` iff tracking),
both with a blank key; checkpoints exist iff checkpointing is on (and hold the used config with a
blank key); the chunks' `config.yaml` exists iff the chunk framework is used; chunk files are
gone iff their deletion was requested (and present otherwise, for the chunk framework). -/
theorem artefacts_complete (f : Flags) :
    let fs := fsAfter (trace f)
    fs .initialCfg = some (cfg .supplied true false) ∧
    fs .trainingCfg = some (cfg .used true f.wandb) ∧
    fs .bestCkpt = (if f.ckpt then some (cfg .used true false) else none) ∧
    fs .lastCkpt = (if f.ckpt ∧ f.saveLast then some (cfg .used true false) else none) ∧
    fs .chunksCfg = (if f.fw = .npChunks then some (cfg .prepared true false) else none) ∧
    fs .trainChunks = (if f.fw = .npChunks ∧ ¬ f.deleteChunks then some .data else none) ∧
    fs .valChunks = (if f.fw = .npChunks ∧ ¬ f.deleteChunks then some .data else none) := by
  flag_cases f

/-- … and the same artefacts for any number of validation epochs (the first one always improves
on "no checkpoint yet"), whatever the later improvement pattern. -/
theorem artefacts_complete_any_epochs (f : Flags) (rs : List Bool) :
    let fs := fsAfter (traceG .repaired f (true :: rs))
    fs .initialCfg = some (cfg .supplied true false) ∧
    fs .trainingCfg = some (cfg .used true f.wandb) ∧
    fs .bestCkpt = (if f.ckpt then some (cfg .used true false) else none) ∧
    fs .lastCkpt = (if f.ckpt ∧ f.saveLast then some (cfg .used true false) else none) ∧
    fs .chunksCfg = (if f.fw = .npChunks then some (cfg .prepared true false) else none) ∧
    fs .trainChunks = (if f.fw = .npChunks ∧ ¬ f.deleteChunks then some .data else none) ∧
    fs .valChunks = (if f.fw = .npChunks ∧ ¬ f.deleteChunks then some .data else none) := by
  rw [fsAfter_any_epochs]
  exact artefacts_complete f

/-- **Training completes**: no event of the repaired trace is an escaping exception (in
particular the `run_id` assignment on a structured config). -/
theorem train_total (f : Flags) (rounds : List Bool) :
    ∀ e ∈ traceG .repaired f rounds, e.isRaise = false := by
  refine forall_mem_traceG _ f rounds ?_ ?_ ?_ ?_ ?_
  · flag_cases f
  · flag_cases f
  · flag_cases f
  · intro b; cases b <;> flag_cases f
  · flag_cases f

/-- The repair changes nothing but the key bit: wherever the pinned code completes, the repaired
trace is the as-is trace with every written key blanked (same files, same order, same configs). -/
theorem repair_changes_only_key_bits (f : Flags) (rounds : List Bool)
    (h : runIdRaises .asIs f = false) :
    traceG .repaired f rounds = (traceG .asIs f rounds).map Event.shape := by
  have hround : ∀ b, ckptRound .repaired f b = (ckptRound .asIs f b).map Event.shape := by
    intro b; cases b <;> cases hsl : f.saveLast <;> simp [ckptRound, Event.shape, cfg, blankTrain, hsl]
  have hfm : ∀ rs : List Bool, (rs.flatMap (ckptRound .repaired f))
      = (rs.flatMap (ckptRound .asIs f)).map Event.shape := by
    intro rs
    induction rs with
    | nil => rfl
    | cons r rs ih => simp only [List.flatMap_cons, List.map_append, ih, hround]
  have h1 : initPhase .repaired f = (initPhase .asIs f).map Event.shape := by
    unfold initPhase; split <;> simp [Event.shape, cfg, blankInit]
  have h2 : resavePhase .repaired f = (resavePhase .asIs f).map Event.shape := by
    simp [resavePhase, Event.shape, cfg, blankTrain]
  have h3 : chunkPhase f = (chunkPhase f).map Event.shape := by
    unfold chunkPhase; split <;> simp [Event.shape]
  have h4 : fitPhase .repaired f rounds = (fitPhase .asIs f rounds).map Event.shape := by
    unfold fitPhase; split
    · exact hfm rounds
    · rfl
  have h5 : finallyPhase .repaired f = (finallyPhase .asIs f).map Event.shape := by
    unfold finallyPhase
    rw [h]
    simp only [runIdRaises, Bool.false_eq_true, ↓reduceIte]
    split <;> simp [Event.shape, cfg, blankTrain]
  simp only [traceG, List.map_append, ← h1, ← h2, ← h3, ← h4, ← h5]

example : runIdRaises .asIs ⟨.centroid, .npChunks, true, true, false, true, true⟩ = false := by decide

/-! ## Two-run history: run 2 re-uses the chunks run 1 left (`use_existing_chunks = True`)

`f1`/`r1` are the flags/epochs of run 1 (forced to the chunk framework with chunks kept:
`run1Flags`), `f2`/`r2` those of run 2 (chunk framework: `f2.fw = .npChunks`), which gets the same
`np_chunks_path` and a new `save_ckpt_path`.  Crash points *inside* run 1 are crash points of a
fresh run (theorems above); the theorems below cover every crash point of run 2 and its exit. -/

/-- **The key is never persisted**, two-run history: whatever run 1 was, at every crash point of
run 2 no file in run 2's checkpoint directory or in the shared chunk directory holds the key. -/
theorem no_key_at_any_crash_point_reuse (f1 : Flags) (r1 : List Bool) (f2 : Flags) (r2 : List Bool)
    (n : Nat) (p : Path) (c : Content) (hc : fsReuseAt .repaired f1 r1 f2 r2 n p = some c) :
    c.keyBlank = true := by
  have h0 : (reuseStart .repaired f1 r1).Blank :=
    carry_blank (fsFrom_blank _ FS.empty FS.blank_empty (all_blank_traceG (run1Flags f1) r1))
  exact fsFrom_blank ((traceR .repaired f2 r2).take n) _ h0
    (fun e he => all_blank_traceR f2 r2 e (List.mem_of_mem_take he)) p c hc

example : fsReuseAt .repaired ⟨.centroid, .torchDataset, true, false, true, true, true⟩ [true]
    ⟨.centroid, .npChunks, false, true, false, true, true⟩ [true] 4 .trainChunks = some .data := by decide

/-- **Full artefacts** after run 2: as for a fresh run, and the chunk files run 1 left are gone
iff run 2 requested their deletion (kept otherwise); run 1's chunks `config.yaml` stays. -/
theorem artefacts_complete_reuse (f1 : Flags) (rs1 : List Bool) (f2 : Flags) (rs2 : List Bool)
    (hfw : f2.fw = .npChunks) :
    let fs := fsReuseAfter .repaired f1 (true :: rs1) f2 (true :: rs2)
    fs .initialCfg = some (cfg .supplied true false) ∧
    fs .trainingCfg = some (cfg .used true f2.wandb) ∧
    fs .bestCkpt = (if f2.ckpt then some (cfg .used true false) else none) ∧
    fs .lastCkpt = (if f2.ckpt ∧ f2.saveLast then some (cfg .used true false) else none) ∧
    fs .chunksCfg = some (cfg .prepared true false) ∧
    fs .trainChunks = (if f2.deleteChunks then none else some .data) ∧
    fs .valChunks = (if f2.deleteChunks then none else some .data) := by
  simp only [fsReuseAfter]
  rw [reuseStart_repaired, fsFrom_traceR_any_epochs]
  rcases f2 with ⟨m, fw, w, c, s, d, l⟩
  simp only at hfw; subst hfw
  cases m <;> cases w <;> cases c <;> cases s <;> cases d <;> cases l <;> decide

example : (⟨.bottomup, .npChunks, true, true, false, true, true⟩ : Flags).fw = .npChunks := rfl

/-- **Run 2 completes** (repaired code). -/
theorem train_total_reuse (f : Flags) (rounds : List Bool) :
    ∀ e ∈ traceR .repaired f rounds, e.isRaise = false := by
  refine forall_mem_traceR _ f rounds ?_ ?_ ?_ ?_ ?_
  · decide
  · flag_cases f
  · intro h; simp [reuseRaises] at h
  · intro b; cases b <;> flag_cases f
  · flag_cases f

/-! ## Two-run history into the SAME folder: run B started where run A finished

`fA`/`rA`: any fresh run A; `fB`/`rB`: any fresh run B (other model type, flags, configuration)
with the same `save_ckpt_path` and `np_chunks_path`.  The file system before B's first write is
A's final state with A's configurations marked `stale` (`sameStart`); a crash in B leaves A's
files mixed with B's.  B's checkpoints go to `best-v1.ckpt` / `last-v1.ckpt` when A left
checkpoints (what the installed Lightning does), otherwise to `best.ckpt` / `last.ckpt`. -/

/-- **The key is never persisted**, same-folder history: at every crash point of run B no file —
neither one A left nor one B has written so far — holds the key. -/
theorem no_key_at_any_crash_point_same_folder (fA : Flags) (rA : List Bool) (fB : Flags)
    (rB : List Bool) (n : Nat) (p : Path) (c : Content)
    (hc : fsSameAt .repaired fA rA fB rB n p = some c) : c.keyBlank = true := by
  have h0 : (sameStart .repaired fA rA).Blank :=
    age_blank (fsFrom_blank _ FS.empty FS.blank_empty (all_blank_traceG fA rA))
  exact fsFrom_blank ((traceS .repaired (leftBest fA) (leftLast fA) fB rB).take n) _ h0
    (fun e he => all_blank_traceS _ _ fB rB e (List.mem_of_mem_take he)) p c hc

example : fsSameAt .repaired ⟨.centeredInstance, .npChunks, false, true, false, false, true⟩ [true]
    ⟨.centroid, .torchDataset, true, true, true, true, false⟩ [true] 1 .trainingCfg
    = some (cfg .stale true false) := by decide

/-- … and the same when run A **died** at any of its crash points `k` (any prefix of A's trace is
key-blank) and run B is then started in what A left — whatever checkpoint names B ends up using. -/
theorem no_key_after_interrupted_A (fA : Flags) (rA : List Bool) (k : Nat) (aBest aLast : Bool)
    (fB : Flags) (rB : List Bool) (n : Nat) (p : Path) (c : Content)
    (hc : fsCrashedAt .repaired fA rA k aBest aLast fB rB n p = some c) : c.keyBlank = true := by
  have h0 : (age (fsAt (traceG .repaired fA rA) k)).Blank :=
    age_blank (fsFrom_blank _ FS.empty FS.blank_empty
      (fun e he => all_blank_traceG fA rA e (List.mem_of_mem_take he)))
  exact fsFrom_blank _ _ h0 (fun e he => all_blank_traceS aBest aLast fB rB e (List.mem_of_mem_take he)) p c hc

example : fsCrashedAt .repaired ⟨.bottomup, .npChunks, true, true, false, true, true⟩ [true] 2 false false
    ⟨.centroid, .torchDataset, false, false, true, true, false⟩ [true] 1 .trainingCfg
    = some (cfg .stale true false) := by decide

/-- **Full artefacts** after run B: the config files describe **B** (initial = B's supplied
configuration, final = the one B used — not A's stale ones); B's `best` checkpoint exists iff B
checkpoints and its `last` one iff B also has `save_last` (under the `-v1` names where A left a
file of that name); A's checkpoints are still there, key-blank; the chunks `config.yaml` is B's if
B uses the chunk framework (else A's stale one, if any); chunk files are gone iff B (chunk
framework) requested deletion — a B without chunks leaves A's chunk files as they were. -/
theorem artefacts_complete_same_folder (fA : Flags) (rsA : List Bool) (fB : Flags) (rsB : List Bool) :
    let fs := fsSameAfter .repaired fA (true :: rsA) fB (true :: rsB)
    fs .initialCfg = some (cfg .supplied true false) ∧
    fs .trainingCfg = some (cfg .used true fB.wandb) ∧
    fs (bestPath (leftBest fA)) = (if fB.ckpt then some (cfg .used true false) else none) ∧
    fs (lastPath (leftLast fA)) = (if fB.ckpt ∧ fB.saveLast then some (cfg .used true false) else none) ∧
    (fA.ckpt = true → fs .bestCkpt = some (cfg .stale true false)) ∧
    (fA.ckpt = true → fA.saveLast = true → fs .lastCkpt = some (cfg .stale true false)) ∧
    fs .chunksCfg = (if fB.fw = .npChunks then some (cfg .prepared true false)
                     else if fA.fw = .npChunks then some (cfg .stale true false) else none) ∧
    fs .trainChunks = (if fB.fw = .npChunks then (if fB.deleteChunks then none else some .data)
                       else if fA.fw = .npChunks ∧ ¬ fA.deleteChunks then some .data else none) ∧
    fs .valChunks = (if fB.fw = .npChunks then (if fB.deleteChunks then none else some .data)
                     else if fA.fw = .npChunks ∧ ¬ fA.deleteChunks then some .data else none) := by
  simp only [fsSameAfter, sameStart]
  rw [fsAfter_repaired_eq, fsFrom_traceS_any_epochs, traceS_canon]
  exact same_folder_exit fA.fw fA.wandb fA.ckpt fA.deleteChunks fA.saveLast
    fB.fw fB.wandb fB.ckpt fB.deleteChunks fB.saveLast

/-- **Run B completes** (repaired code). -/
theorem train_total_same_folder (a b : Bool) (f : Flags) (rounds : List Bool) :
    ∀ e ∈ traceS .repaired a b f rounds, e.isRaise = false := by
  refine forall_mem_traceS _ a b f rounds ?_ ?_ ?_ ?_ ?_
  · flag_cases f
  · flag_cases f
  · flag_cases f
  · intro r; cases a <;> cases b <;> cases r <;> flag_cases f
  · flag_cases f

/-! ## The key is a parameter: configurations with and without an API key

`traceGK k v f rounds`, `k : KeyState` (`absent` = `api_key` is `""` / `None` / the field or the
whole `wandb` section is missing). -/

theorem traceGK_present (v : Version) (f : Flags) (rounds : List Bool) :
    traceGK .present v f rounds = traceG v f rounds := withKey_present _

/-- **What a (repaired) run writes does not depend on whether the configuration carries a key**:
same files, same order, same configurations in them. -/
theorem run_key_independent (k : KeyState) (f : Flags) (rounds : List Bool) :
    traceGK k .repaired f rounds = traceG .repaired f rounds := by
  cases k
  · exact withKey_present _
  · exact map_shape_of_all_blank _ (all_blank_traceG f rounds)

/-- In particular `initial_config.yaml` holds the *supplied* configuration (key blank) whether or
not a key was present — at every crash point after the first write, for every configuration. -/
theorem initial_config_key_independent (k k' : KeyState) (f : Flags) (rounds : List Bool) (n : Nat) :
    fsAt (traceGK k .repaired f rounds) n .initialCfg = fsAt (traceGK k' .repaired f rounds) n .initialCfg := by
  rw [run_key_independent, run_key_independent]

theorem initial_config_is_supplied_any_key (k : KeyState) (f : Flags) (rounds : List Bool) (n : Nat)
    (hn : 1 ≤ n) :
    fsAt (traceGK k .repaired f rounds) n .initialCfg = some (cfg .supplied true false) := by
  rw [run_key_independent]
  have hsplit : traceG .repaired f rounds
      = .write .initialCfg (cfg .supplied true false) :: (traceG .repaired f rounds).tail := by
    simp [traceG, initPhase, blankInit]
  rw [hsplit]
  refine fsAt_head_untouched _ _ _ (forall_mem_traceG_tail _ f rounds ?_ ?_ ?_ ?_ ?_) n hn
  · flag_cases f
  · flag_cases f
  · flag_cases f
  · intro b; cases b <;> flag_cases f
  · flag_cases f

/-- **Full artefacts**, with or without a key in the configuration. -/
theorem artefacts_complete_any_key (k : KeyState) (f : Flags) (rs : List Bool) :
    let fs := fsAfter (traceGK k .repaired f (true :: rs))
    fs .initialCfg = some (cfg .supplied true false) ∧
    fs .trainingCfg = some (cfg .used true f.wandb) ∧
    fs .bestCkpt = (if f.ckpt then some (cfg .used true false) else none) ∧
    fs .lastCkpt = (if f.ckpt ∧ f.saveLast then some (cfg .used true false) else none) ∧
    fs .chunksCfg = (if f.fw = .npChunks then some (cfg .prepared true false) else none) ∧
    fs .trainChunks = (if f.fw = .npChunks ∧ ¬ f.deleteChunks then some .data else none) ∧
    fs .valChunks = (if f.fw = .npChunks ∧ ¬ f.deleteChunks then some .data else none) := by
  rw [run_key_independent]
  exact artefacts_complete_any_epochs f rs

/-- **No key on disk** for either key state (trivially so without a key, but stated for the record). -/
theorem no_key_at_any_crash_point_any_key (k : KeyState) (f : Flags) (rounds : List Bool) (n : Nat)
    (p : Path) (c : Content) (hc : fsAt (traceGK k .repaired f rounds) n p = some c) : c.keyBlank = true := by
  rw [run_key_independent] at hc
  exact no_key_at_any_crash_point_any_epochs f rounds n p c hc

/-- Regression record: the originally pinned tree was right whenever there was no key to leak
(and no `run_id` raise) — F-C19 needed a key. -/
theorem asIs_without_key_eq_repaired (f : Flags) (rounds : List Bool) (h : runIdRaises .asIs f = false) :
    traceGK .absent .asIs f rounds = traceG .repaired f rounds :=
  (repair_changes_only_key_bits f rounds h).symm

example : fsAt (traceGK .absent .repaired ⟨.bottomup, .torchDataset, false, false, false, true, false⟩ [true]) 2
    .initialCfg = some (cfg .supplied true false) := by decide

/-! ## Low-memory fallback: the in-memory cache does not fit, the trainer switches itself to chunks

`traceLM .repaired f rounds`: a fresh run on a host where `psutil` reports too little memory.
Requested chunk framework: nothing changes (`traceLM = traceG`).  Requested in-memory framework:
chunk files are written to `./train_chunks`, `./val_chunks` (working directory). -/

/-- **The key is never persisted**, low-memory host, every crash point. -/
theorem no_key_at_any_crash_point_low_memory (f : Flags) (rounds : List Bool) (n : Nat) (p : Path)
    (c : Content) (hc : fsAt (traceLM .repaired f rounds) n p = some c) : c.keyBlank = true := by
  refine fs_blank_of_all_blank _ (forall_mem_traceLM _ f rounds (all_blank_traceG f rounds)
    ?_ ?_ ?_ ?_ ?_) n p c hc
  · flag_cases f
  · flag_cases f
  · decide
  · intro b; cases b <;> flag_cases f
  · flag_cases f

/-- **Full artefacts** on a low-memory host: config files and checkpoints as always; with the
in-memory framework requested no chunks `config.yaml` and nothing under `np_chunks_path`, and the
fallback's chunk files in the working directory are gone iff deletion was requested (kept
otherwise); with the chunk framework requested, exactly `artefacts_complete`. -/
theorem artefacts_complete_low_memory (f : Flags) (rs : List Bool) :
    let fs := fsAfter (traceLM .repaired f (true :: rs))
    fs .initialCfg = some (cfg .supplied true false) ∧
    fs .trainingCfg = some (cfg .used true f.wandb) ∧
    fs .bestCkpt = (if f.ckpt then some (cfg .used true false) else none) ∧
    fs .lastCkpt = (if f.ckpt ∧ f.saveLast then some (cfg .used true false) else none) ∧
    fs .chunksCfg = (if f.fw = .npChunks then some (cfg .prepared true false) else none) ∧
    fs .trainChunks = (if f.fw = .npChunks ∧ ¬ f.deleteChunks then some .data else none) ∧
    fs .valChunks = (if f.fw = .npChunks ∧ ¬ f.deleteChunks then some .data else none) ∧
    fs .cwdTrainChunks = (if f.fw = .torchDataset ∧ ¬ f.deleteChunks then some .data else none) ∧
    fs .cwdValChunks = (if f.fw = .torchDataset ∧ ¬ f.deleteChunks then some .data else none) := by
  rw [fsAfter_traceLM_any_epochs]
  flag_cases f

example : fsAt (traceLM .repaired ⟨.centroid, .torchDataset, false, true, false, true, true⟩ [true]) 5
    .cwdValChunks = some .data := by decide

/-- **Training completes** on a low-memory host. -/
theorem train_total_low_memory (f : Flags) (rounds : List Bool) :
    ∀ e ∈ traceLM .repaired f rounds, e.isRaise = false := by
  refine forall_mem_traceLM _ f rounds (train_total f rounds) ?_ ?_ ?_ ?_ ?_
  · flag_cases f
  · flag_cases f
  · decide
  · intro b; cases b <;> flag_cases f
  · flag_cases f

/-! ## Aborted runs: an exception or Ctrl-C inside `trainer.fit`

`traceAbort v f rounds` = everything a run writes when `fit` is left by an exception after the
validation epochs `rounds` (any number, any improvement pattern, possibly none): the `finally`
block of `train()` still runs, then the exception propagates (`raise` is the last event). -/

/-- **The key is never persisted** by an aborted run either, at any crash point. -/
theorem no_key_at_any_crash_point_aborted (f : Flags) (rounds : List Bool) (n : Nat) (p : Path)
    (c : Content) (hc : fsAt (traceAbort .repaired f rounds) n p = some c) : c.keyBlank = true := by
  refine fs_blank_of_all_blank _ ?_ n p c hc
  intro e he
  rcases List.mem_append.mp he with h | h
  · exact all_blank_traceG f rounds e h
  · rcases List.mem_singleton.mp h with rfl; rfl

/-- **Config artefacts of an aborted run**: the initial file holds the supplied configuration, the
final one the configuration used (with the run id iff tracking), both key-blank; the chunks
`config.yaml` is there iff the chunk framework is used; chunk files are gone iff deletion was
requested.  (Whether a checkpoint exists depends on how far training got: no claim.) -/
theorem config_artefacts_after_abort (f : Flags) (rounds : List Bool) :
    let fs := fsAfter (traceAbort .repaired f rounds)
    fs .initialCfg = some (cfg .supplied true false) ∧
    fs .trainingCfg = some (cfg .used true f.wandb) ∧
    fs .chunksCfg = (if f.fw = .npChunks then some (cfg .prepared true false) else none) ∧
    fs .trainChunks = (if f.fw = .npChunks ∧ ¬ f.deleteChunks then some .data else none) ∧
    fs .valChunks = (if f.fw = .npChunks ∧ ¬ f.deleteChunks then some .data else none) := by
  have h : let fs := fsAfter (traceG .repaired f [])
      fs .initialCfg = some (cfg .supplied true false) ∧
      fs .trainingCfg = some (cfg .used true f.wandb) ∧
      fs .chunksCfg = (if f.fw = .npChunks then some (cfg .prepared true false) else none) ∧
      fs .trainChunks = (if f.fw = .npChunks ∧ ¬ f.deleteChunks then some .data else none) ∧
      fs .valChunks = (if f.fw = .npChunks ∧ ¬ f.deleteChunks then some .data else none) := by
    flag_cases f
  simp only at h ⊢
  rw [fsAfter_abort_at _ f rounds .initialCfg (by decide) (by decide),
    fsAfter_abort_at _ f rounds .trainingCfg (by decide) (by decide),
    fsAfter_abort_at _ f rounds .chunksCfg (by decide) (by decide),
    fsAfter_abort_at _ f rounds .trainChunks (by decide) (by decide),
    fsAfter_abort_at _ f rounds .valChunks (by decide) (by decide)]
  exact h

example : (traceAbort .repaired ⟨.centroid, .npChunks, true, true, true, true, false⟩ [true, false]).length = 11 := by
  decide

/-! ### Regression record, finding F-C19c (fixed by b1bbd3c): bottom-up model + re-used chunks raised
on the tree that had only the F-C19/F-C19b repair (`Version.keyFixed`) -/

/-- On fresh runs the `keyFixed` tree already behaves as demanded. -/
theorem keyFixed_fresh_eq_repaired (f : Flags) (rounds : List Bool) :
    traceG .keyFixed f rounds = traceG .repaired f rounds := rfl

/-- Full statement "run 2 completes" for the `keyFixed` tree (false). -/
def KeyFixedReuseTotal : Prop :=
  ∀ (f : Flags) (rounds : List Bool), ∀ e ∈ traceR .keyFixed f rounds, e.isRaise = false

/-- F-C19c: a bottom-up run with `use_existing_chunks = True` raises while building its datasets —
after three config writes, before any training; nothing is cleaned up. -/
theorem reuse_bottomup_raises_counterexample : ¬ KeyFixedReuseTotal := by
  intro h
  exact absurd (h ⟨.bottomup, .npChunks, false, true, false, true, true⟩ [true] .raise (by decide)) (by decide)

/-- Every other model type: run 2 of the `keyFixed` tree is exactly the repaired run 2. -/
theorem keyFixed_reuse_partial (f : Flags) (rounds : List Bool) (h : f.model ≠ .bottomup) :
    traceR .keyFixed f rounds = traceR .repaired f rounds := by
  have : reuseRaises .keyFixed f = false := by
    rcases f with ⟨m, fw, w, c, s, d, l⟩
    cases m <;> simp_all [reuseRaises]
  have hrep : reuseRaises .repaired f = false := rfl
  unfold traceR
  rw [this, hrep]
  rfl

example : (⟨.centroid, .npChunks, true, true, false, true, true⟩ : Flags).model ≠ .bottomup := by decide

/-- Even the failing run leaks nothing: the `keyFixed` tree never persists the key in run 2 either. -/
theorem keyFixed_reuse_no_key (f1 : Flags) (r1 : List Bool) (f2 : Flags) (r2 : List Bool)
    (n : Nat) (p : Path) (c : Content) (hc : fsReuseAt .keyFixed f1 r1 f2 r2 n p = some c) :
    c.keyBlank = true := by
  have h0 : (reuseStart .keyFixed f1 r1).Blank :=
    carry_blank (fsFrom_blank _ FS.empty FS.blank_empty (all_blank_traceG (run1Flags f1) r1))
  refine fsFrom_blank ((traceR .keyFixed f2 r2).take n) _ h0 (fun e he => ?_) p c hc
  refine forall_mem_traceR (P := fun e => e.blank = true) .keyFixed f2 r2 ?_ ?_ ?_ ?_ ?_ e
    (List.mem_of_mem_take he)
  · decide
  · flag_cases f2
  · intro _; rfl
  · intro b; cases b <;> flag_cases f2
  · flag_cases f2

/-! ## Regression record: the originally pinned tree (as is), for which the property was false — findings F-C19 / F-C19b -/

/-- Full statement for the code as it is (false, see the counterexamples). -/
def AsIsNoKey : Prop :=
  ∀ (f : Flags) (n : Nat) (p : Path) (c : Content), fsAt (asIs f) n p = some c → c.keyBlank = true

/-- F-C19: tracking off, checkpointing on, plain config — after the last write the key is in
`best.ckpt` (and in `initial_config.yaml`, `training_config.yaml`, `last.ckpt`). -/
theorem key_persisted_counterexample : ¬ AsIsNoKey := by
  intro h
  have := h ⟨.centeredInstance, .torchDataset, false, true, false, true, true⟩ 6 .bestCkpt
    (cfg .used false false) (by decide)
  exact absurd this (by decide)

/-- F-C19, strength: on the pinned tree, for **every** configuration, every number of epochs and
**every** crash point after the very first write, `initial_config.yaml` holds the key. -/
theorem asIs_initial_config_leaks_at_every_crash_point (f : Flags) (rounds : List Bool) (n : Nat)
    (hn : 1 ≤ n) :
    fsAt (traceG .asIs f rounds) n .initialCfg = some (cfg .supplied false false) := by
  have hsplit : traceG .asIs f rounds
      = .write .initialCfg (cfg .supplied false false) :: (traceG .asIs f rounds).tail := by
    simp [traceG, initPhase, blankInit]
  rw [hsplit]
  refine fsAt_head_untouched _ _ _ (forall_mem_traceG_tail _ f rounds ?_ ?_ ?_ ?_ ?_) n hn
  · flag_cases f
  · flag_cases f
  · flag_cases f
  · intro b; cases b <;> flag_cases f
  · flag_cases f

/-- F-C19, exact extent at exit of the pinned 1-epoch run: a modelled file holds the key iff it is
`initial_config.yaml`, or the chunks' `config.yaml` (chunk framework), or — with tracking off —
`training_config.yaml` or a checkpoint. -/
theorem asIs_leaks_at_exit_iff (f : Flags) (p : Path) :
    ((fsAfter (asIs f) p).map Content.keyBlank = some false) ↔
      (p = .initialCfg ∨ (p = .chunksCfg ∧ f.fw = .npChunks) ∨
        (f.wandb = false ∧ (p = .trainingCfg ∨
          (f.ckpt = true ∧ (p = .bestCkpt ∨ (p = .lastCkpt ∧ f.saveLast = true)))))) := by
  rcases f with ⟨m, fw, w, c, s, d, l⟩
  cases m <;> cases fw <;> cases w <;> cases c <;> cases s <;> cases d <;> cases l <;> cases p <;> decide

/-- Full totality statement for the code as it is (false). -/
def AsIsTotal : Prop := ∀ (f : Flags), ∀ e ∈ asIs f, e.isRaise = false

/-- F-C19b: a builder-made (structured) config with tracking on — `wandb.run_id := …` raises in
the `finally` block, so the final `training_config.yaml` is never written and chunks are kept. -/
theorem run_id_raises_counterexample : ¬ AsIsTotal := by
  intro h
  exact absurd (h ⟨.centeredInstance, .torchDataset, true, false, true, true, true⟩ .raise (by decide)) (by decide)

/-- Outside `tracking ∧ structured` the pinned code completes. -/
theorem asIs_total_partial (f : Flags) (rounds : List Bool) (h : ¬ (f.wandb = true ∧ f.structured = true)) :
    ∀ e ∈ traceG .asIs f rounds, e.isRaise = false := by
  have hr : runIdRaises .asIs f = false := by
    rcases f with ⟨m, fw, w, c, s, d, l⟩
    cases w <;> cases s <;> simp_all [runIdRaises]
  intro e he
  have hm : e.shape ∈ traceG .repaired f rounds := by
    rw [repair_changes_only_key_bits f rounds hr]; exact List.mem_map_of_mem he
  have := train_total f rounds _ hm
  cases e with
  | write p c => rfl
  | delete p => rfl
  | raise => simp [Event.shape, Event.isRaise] at this

example : ¬ ((⟨.centroid, .npChunks, true, true, false, true, true⟩ : Flags).wandb = true ∧
    (⟨.centroid, .npChunks, true, true, false, true, true⟩ : Flags).structured = true) := by decide

/-- What the repo's own test asserts (tracking on, plain config): the *final*
`training_config.yaml` has a blank key and the run id. -/
theorem asIs_final_config_blank_partial (f : Flags) (hw : f.wandb = true) (hs : f.structured = false) :
    fsAfter (asIs f) .trainingCfg = some (cfg .used true true) := by
  rcases f with ⟨m, fw, w, c, s, d, l⟩
  simp only at hw hs; subst hw; subst hs
  cases m <;> cases fw <;> cases c <;> cases d <;> cases l <;> decide

example : (⟨.bottomup, .torchDataset, true, false, false, false, true⟩ : Flags).wandb = true := rfl

end SleapVerif.C19
