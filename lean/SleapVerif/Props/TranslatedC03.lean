import SleapVerif.Lemmas.BottomUp
import SleapVerif.Gen.TranslatedC03

/-!
# C03, second tie — the bottom-up decode arithmetic *as translated from the Python source*

`Gen/TranslatedC03.lean` is regenerated on every run of `bin/check C03` (harness/py2lean_ext.py)
from `sleap_nn/inference/bottomup.py`:

* `_generate_cms_peaks`: `peaks * cms_output_stride` (the coordinates in which the PAF lines are
  scored and the instances grouped)                                     → `cms_peaks_decode`;
* `forward`: `predicted_instances / input_scale` after grouping         → `instances_decode`,
  `p / inputs["eff_scale"][idx]` for every sample                       → `instances_eff_decode`.

The C03 theorems are about `BottomUp.peaksImg` (grouping happens in network-input pixels: peaks
times the confidence-map stride, nothing else) and `BottomUp.decode` (`/ input_scale / eff_scale`
afterwards).  Below: the generated definitions are exactly those two (`gen_*_eq_model`) — so moving
the division by `input_scale` in front of the grouping, although the final composite is the same
function, is seen — and, directly, the composite brings a peak within `e` of the scaled keypoint
back within `e/(s·eff)` of the keypoint (`gen_bottomup_decode_within`).
-/

set_option linter.unusedSectionVars false
set_option linter.unusedSimpArgs false

namespace SleapVerif.TranslatedC03
open SleapVerif.BottomUp SleapVerif.Gen.TranslatedC03

variable {R : Type} [Field R] [LinearOrder R] [IsStrictOrderedRing R]

/-- **grouping coordinates**: the translated `_generate_cms_peaks` scaling is `BottomUp.peaksImg` —
grid cells times the confidence-map stride and nothing else (in particular no `input_scale`) -/
theorem gen_cms_peaks_eq_model (castI : Int → R) (cmsStride : Nat) (s : R) (g : R × R) :
    (cms_peaks_decode g.1 (castI cmsStride) s, cms_peaks_decode g.2 (castI cmsStride) s)
      = peaksImg castI cmsStride g := rfl

/-- **after grouping**: the translated `/ input_scale` followed by the per-sample `/ eff_scale` is
`BottomUp.decode` -/
theorem gen_instances_decode_eq_model (os s e : R) (p : R × R) :
    (instances_eff_decode (instances_decode p.1 os s) e, instances_eff_decode (instances_decode p.2 os s) e)
      = decode s e p := rfl

/-- directly about the generated chain, one coordinate: a peak whose image position `g·cms` is
within `ε` of the scaled keypoint `s·e·x` is returned within `ε/(s·e)` of `x`; an exact hit is
returned exactly -/
theorem gen_bottomup_decode_within {g cms s e x ε : R} (hs : 0 < s) (he : 0 < e)
    (h : |g * cms - s * e * x| ≤ ε) :
    |instances_eff_decode (instances_decode (cms_peaks_decode g cms s) cms s) e - x| ≤ ε / (s * e) ∧
    (g * cms = s * e * x →
      instances_eff_decode (instances_decode (cms_peaks_decode g cms s) cms s) e = x) := by
  have hse : 0 < s * e := mul_pos hs he
  have hs' := hs.ne'
  have he' := he.ne'
  have key : instances_eff_decode (instances_decode (cms_peaks_decode g cms s) cms s) e
      = g * cms / (s * e) := by
    simp only [instances_eff_decode, instances_decode, cms_peaks_decode]
    field_simp
  have e1 : g * cms / (s * e) - x = (g * cms - s * e * x) / (s * e) := by
    field_simp
  rw [key]
  refine ⟨?_, fun hx => ?_⟩
  · rw [e1, abs_div, abs_of_pos hse]
    exact div_le_div_of_nonneg_right h (le_of_lt hse)
  · rw [hx]; field_simp

example : instances_eff_decode (instances_decode (cms_peaks_decode (3 : Rat) 4 (1 / 2)) 4 (1 / 2)) 2 = 12 := by
  simp only [instances_eff_decode, instances_decode, cms_peaks_decode]; norm_num

end SleapVerif.TranslatedC03
