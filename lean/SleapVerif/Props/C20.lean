import SleapVerif.Lemmas.ConfigAug
import SleapVerif.Lemmas.ConfigBuild
/-!
# C20 — config builders reflect every argument; normalisation is lossless and idempotent;
validators reject invalid values

All statements are about the model `SleapVerif.Config` (Model/Config.lean), for **arbitrary**
class-default environments `env` (the real defaults are sent to the driver as data and never
enter a proof), arbitrary argument records and arbitrary trees.
-/
namespace SleapVerif.C20
open SleapVerif.Config

/-! ## normalisation: `verify_training_cfg` = `OmegaConf.merge` over the caller's own sections -/

/-- merging a (well-formed) tree into itself changes nothing -/
theorem merge_self (c : Cfg) (h : wf c = true) : merge c c = c := merge_self_aux c h

/-- `merge s (merge s c) = merge s c` for every schema tree and every configuration -/
theorem merge_idempotent (s c : Cfg) (h : wf s = true) : merge s (merge s c) = merge s c :=
  merge_idem_aux s h c

/-- no leaf of the configuration is changed or dropped by a merge, whatever the schema -/
theorem merge_lossless (s c : Cfg) (p : List String) (v : Value)
    (h : getPath p c = some (.leaf v)) : getPath p (merge s c) = some (.leaf v) :=
  merge_lossless_aux p s c v h

example : wf (.node [("a", .node [("x", fl 1)]), ("b", cnull)]) = true := by decide

/-- every value of the caller's configuration survives `verify_training_cfg` -/
theorem verify_lossless {s c r : Cfg} (h : verify s c = .ok r) {p : List String} {v : Value}
    (hp : getPath p c = some (.leaf v)) : getPath p r = some (.leaf v) := by
  obtain ⟨sk, ck, rfl, rfl, _, rfl, _⟩ := verify_ok h
  exact merge_lossless_aux p _ _ v hp

/-- `verify_lossless` at path length 1: the **top-level** leaves of the caller's configuration —
`name`, `description`, `sleap_nn_version`, `filename` — survive too; normalisation may only *add*
a top-level field the caller left out, never overwrite one (a `training_config.yaml` written by
another release keeps its `sleap_nn_version`). -/
theorem verify_lossless_top_level {s r : Cfg} {ck : Kvs} (h : verify s (.node ck) = .ok r)
    {k : String} {v : Value} (hk : lookup k ck = some (.leaf v)) : getPath [k] r = some (.leaf v) :=
  verify_lossless h (p := [k]) (by rw [getPath_single]; exact hk)

example : verify (.node [("data_config", .node [("p", cstr "???")]), ("sleap_nn_version", cstr "0.0.1")])
    (.node [("data_config", .node [("p", cstr "x")]), ("sleap_nn_version", cstr "0.0.0-other")])
    = .ok (.node [("data_config", .node [("p", cstr "x")]), ("sleap_nn_version", cstr "0.0.0-other")]) := by
  simp [verify, hasKey, lookup, topFill, merge, mergeKvs, hasMissing, hasMissingKvs, Value.missing, cstr]

/-- normalisation is idempotent: the normal form is a fixed point -/
theorem verify_idempotent {s c r : Cfg} (hs : wf s = true) (hc : wf c = true)
    (h : verify s c = .ok r) : verify s r = .ok r := by
  obtain ⟨sk, ck, rfl, rfl, hsub, rfl, hmiss⟩ := verify_ok h
  rw [wf_node] at hs hc
  rw [verify_eq_topFill hc hsub] at hmiss ⊢
  have hkeys : ∀ kv ∈ topFill sk ck, hasKey kv.1 sk = true := by
    intro kv hm
    rw [hasKey_iff_mem_keys, ← keys_topFill sk ck]
    exact List.mem_map_of_mem (f := (·.1)) hm
  have hany : ((topFill sk ck).any fun kv => !(hasKey kv.1 sk)) = false := by
    rw [List.any_eq_false]; intro kv hm; simp [hkeys kv hm]
  have hT : wf (.node (topFill sk ck)) = true := by rw [wf_node]; exact wfKvs_topFill hs hc
  unfold verify
  simp only [hany, Bool.false_eq_true, if_false]
  rw [topFill_self hs, merge_self_aux _ hT, hmiss]
  simp

/-- a complete configuration (the schema's sections, in the schema's order — what the builders
and `to_sleap_nn_cfg` produce) is returned unchanged -/
theorem verify_complete_fixed_point {sk ck : Kvs} (hk : keys ck = keys sk) (hc : wfKvs ck = true)
    (hm : hasMissing (.node ck) = false) : verify (.node sk) (.node ck) = .ok (.node ck) := by
  have hsub : ∀ kv ∈ ck, hasKey kv.1 sk = true := by
    intro kv hmem
    rw [hasKey_iff_mem_keys, ← hk]; exact List.mem_map_of_mem (f := (·.1)) hmem
  have hany : (ck.any fun kv => !(hasKey kv.1 sk)) = false := by
    rw [List.any_eq_false]; intro kv hmem; simp [hsub kv hmem]
  unfold verify
  simp only [hany, Bool.false_eq_true, if_false]
  rw [verify_eq_topFill hc hsub, topFill_of_keys_eq hk hc, hm]
  simp

example : verify (.node [("data_config", .node [("p", cstr "???")]), ("name", cstr "")])
    (.node [("data_config", .node [("p", cstr "x")])])
    = .ok (.node [("data_config", .node [("p", cstr "x")]), ("name", cstr "")]) := by
  simp [verify, hasKey, lookup, topFill, merge, mergeKvs, hasMissing, hasMissingKvs, Value.missing, cstr]

/-! ## attrs constructors -/

/-- every keyword argument is read back, unmodified, from its field -/
theorem construct_places {d : Cfg} {kw : Kvs} {r : Cfg} (h : construct d kw = .ok r)
    (hnd : (keys kw).Nodup) {k : String} {v : Cfg} (hm : (k, v) ∈ kw) : getPath [k] r = some v :=
  construct_get h hnd hm

/-- every field without a keyword argument keeps the class default -/
theorem construct_defaults {d : Cfg} {kw : Kvs} {r : Cfg} (h : construct d kw = .ok r)
    {k : String} (hk : k ∉ keys kw) : getPath [k] r = getPath [k] d :=
  construct_other h hk

/-- the result has exactly the key set of the class: it is complete -/
theorem construct_complete {d : Cfg} {kw : Kvs} {r : Cfg} (h : construct d kw = .ok r) :
    ∃ dk rk, d = .node dk ∧ r = .node rk ∧ keys rk = keys dk :=
  construct_keys h

example : construct (.node [("a", fl 1), ("b", cnull)]) [("b", cstr "x")]
    = .ok (.node [("a", fl 1), ("b", cstr "x")]) := by
  simp [construct, hasKey, lookup, setKey]


/-! ## the three builders -/

/-- the sub-results a successful `get_data_config` is made of -/
theorem data_parts {v : Variant} {env : Env} {a : Kvs} {r : Cfg} (h : getDataConfig v env a = .ok r) :
    ∃ pre aug, mk env "PreprocessingConfig" (place a preprocessingPlacement) = .ok pre ∧
      mk env "DataConfig"
        (place a dataPlacement ++ [("preprocessing", pre), ("augmentation_config", aug)]) = .ok r := by
  unfold getDataConfig at h
  split at h
  · cases h
  · rename_i pre hpre
    split at h
    · cases h
    · rename_i aug _
      exact ⟨pre, aug, hpre, h⟩

theorem model_parts {env : Env} {a : Kvs} {r : Cfg} (h : getModelConfig env a = .ok r) :
    ∃ bb hd, getBackboneConfig env (arg a "backbone_config") = .ok bb ∧
      getHeadConfigs env (arg a "head_configs") = .ok hd ∧
      mk env "ModelConfig" (place a modelPlacement ++ [("backbone_config", bb), ("head_configs", hd)]) = .ok r := by
  unfold getModelConfig at h
  split at h
  · cases h
  · rename_i bb hbb
    split at h
    · cases h
    · rename_i hd hhd
      exact ⟨bb, hd, hbb, hhd, h⟩

theorem trainer_parts {env : Env} {a : Kvs} {r : Cfg} (h : getTrainerConfig env a = .ok r) :
    ∃ tdl vdl lrs ckpt wb opt es,
      mk env "DataLoaderConfig" (place a trainLoaderPlacement) = .ok tdl ∧
      mk env "DataLoaderConfig" (place a valLoaderPlacement ++ [("shuffle", cbool false)]) = .ok vdl ∧
      lrScheduler env (arg a "lr_scheduler") = .ok lrs ∧
      mk env "ModelCkptConfig" (place a ckptPlacement) = .ok ckpt ∧
      mk env "WandBConfig" (place a wandbPlacement) = .ok wb ∧
      mk env "OptimizerConfig" (place a optimizerPlacement) = .ok opt ∧
      mk env "EarlyStoppingConfig" (place a earlyStoppingPlacement) = .ok es ∧
      mk env "TrainerConfig"
        (place a trainerPlacement ++
          [("train_data_loader", tdl), ("val_data_loader", vdl), ("model_ckpt", ckpt), ("wandb", wb),
           ("optimizer", opt), ("lr_scheduler", lrs), ("early_stopping", es)]) = .ok r := by
  unfold getTrainerConfig at h
  split at h
  · cases h
  rename_i tdl h1
  split at h
  · cases h
  rename_i vdl h2
  split at h
  · cases h
  rename_i lrs h3
  split at h
  · cases h
  rename_i ckpt h4
  split at h
  · cases h
  rename_i wb h5
  split at h
  · cases h
  rename_i opt h6
  split at h
  · cases h
  rename_i es h7
  exact ⟨tdl, vdl, lrs, ckpt, wb, opt, es, h1, h2, h3, h4, h5, h6, h7, h⟩

theorem data_places_args {v : Variant} {env : Env} {a : Kvs} {r : Cfg}
    (h : getDataConfig v env a = .ok r) : ∀ pn ∈ dataPaths, getPath pn.1 r = some (arg a pn.2) := by
  obtain ⟨pre, aug, hpre, hr⟩ := data_parts h
  have hnd : (keys (place a dataPlacement ++ [("preprocessing", pre), ("augmentation_config", aug)])).Nodup := by
    rw [keys_append, keys_place]; simp only [keys, List.map_cons, List.map_nil]; decide
  intro pn hm
  unfold dataPaths at hm
  rw [List.mem_append] at hm
  rcases hm with hm | hm
  · rw [List.mem_map] at hm
    obtain ⟨fn, hfn, rfl⟩ := hm
    exact mk_get hr hnd (List.mem_append_left _ (mem_place hfn))
  · refine under_get hpre (by decide) (mk_get hr hnd ?_) pn hm
    simp

theorem model_places_args {env : Env} {a : Kvs} {r : Cfg}
    (h : getModelConfig env a = .ok r) : ∀ pn ∈ modelPaths, getPath pn.1 r = some (arg a pn.2) := by
  obtain ⟨bb, hd, _, _, hr⟩ := model_parts h
  have hnd : (keys (place a modelPlacement ++ [("backbone_config", bb), ("head_configs", hd)])).Nodup := by
    rw [keys_append, keys_place]; simp only [keys, List.map_cons, List.map_nil]; decide
  intro pn hm
  unfold modelPaths at hm
  rw [List.mem_map] at hm
  obtain ⟨fn, hfn, rfl⟩ := hm
  exact mk_get hr hnd (List.mem_append_left _ (mem_place hfn))

theorem trainer_places_args {env : Env} {a : Kvs} {r : Cfg}
    (h : getTrainerConfig env a = .ok r) :
    (∀ pn ∈ trainerPaths, getPath pn.1 r = some (arg a pn.2)) ∧
      getPath ["val_data_loader", "shuffle"] r = some (cbool false) := by
  obtain ⟨tdl, vdl, lrs, ckpt, wb, opt, es, h1, h2, _, h4, h5, h6, h7, hr⟩ := trainer_parts h
  have hnd : (keys (place a trainerPlacement ++
      [("train_data_loader", tdl), ("val_data_loader", vdl), ("model_ckpt", ckpt), ("wandb", wb),
       ("optimizer", opt), ("lr_scheduler", lrs), ("early_stopping", es)])).Nodup := by
    rw [keys_append, keys_place]; simp only [keys, List.map_cons, List.map_nil]; decide
  have hsub : ∀ k sub, (k, sub) ∈ [("train_data_loader", tdl), ("val_data_loader", vdl),
      ("model_ckpt", ckpt), ("wandb", wb), ("optimizer", opt), ("lr_scheduler", lrs),
      ("early_stopping", es)] → getPath [k] r = some sub :=
    fun k sub hm => mk_get hr hnd (List.mem_append_right _ hm)
  have hvnd : (keys (place a valLoaderPlacement ++ [("shuffle", cbool false)])).Nodup := by
    rw [keys_append, keys_place]; simp only [keys, List.map_cons, List.map_nil]; decide
  constructor
  · intro pn hm
    unfold trainerPaths at hm
    simp only [List.mem_append] at hm
    rcases hm with (((((hm | hm) | hm) | hm) | hm) | hm) | hm
    · rw [List.mem_map] at hm
      obtain ⟨fn, hfn, rfl⟩ := hm
      exact mk_get hr hnd (List.mem_append_left _ (mem_place hfn))
    · exact under_get h1 (by decide) (hsub _ _ (by simp)) pn hm
    · -- the validation loader has one extra (constant) keyword
      unfold under at hm
      rw [List.mem_map] at hm
      obtain ⟨fn, hfn, rfl⟩ := hm
      show getPath ("val_data_loader" :: [fn.1]) r = _
      rw [getPath_cons_of (hsub "val_data_loader" vdl (by simp))]
      exact mk_get h2 hvnd (List.mem_append_left _ (mem_place hfn))
    · exact under_get h4 (by decide) (hsub _ _ (by simp)) pn hm
    · exact under_get h5 (by decide) (hsub _ _ (by simp)) pn hm
    · exact under_get h6 (by decide) (hsub _ _ (by simp)) pn hm
    · exact under_get h7 (by decide) (hsub _ _ (by simp)) pn hm
  · show getPath ("val_data_loader" :: ["shuffle"]) r = _
    rw [getPath_cons_of (hsub "val_data_loader" vdl (by simp))]
    exact mk_get h2 hvnd (by simp)

/-- **every argument the caller supplies is read back, unmodified, at its documented place**
(the structured arguments — augmentations, backbone, heads, scheduler — are covered by
`aug_named_enabled`, `preset_complete` and the `construct_*` theorems through `mk`) -/
theorem builder_places_args (v : Variant) (env : Env) (a : Kvs) (r : Cfg) :
    (getDataConfig v env a = .ok r → ∀ pn ∈ dataPaths, getPath pn.1 r = some (arg a pn.2)) ∧
    (getModelConfig env a = .ok r → ∀ pn ∈ modelPaths, getPath pn.1 r = some (arg a pn.2)) ∧
    (getTrainerConfig env a = .ok r → (∀ pn ∈ trainerPaths, getPath pn.1 r = some (arg a pn.2)) ∧
      getPath ["val_data_loader", "shuffle"] r = some (cbool false)) :=
  ⟨data_places_args, model_places_args, trainer_places_args⟩

/-- **every option the builder does not set has the default declared by the schema class, and the
result has exactly the schema's keys** (root classes; for the sub-configs the same follows from
`construct_defaults`/`construct_complete` through `data_parts`/`trainer_parts`) -/
theorem builder_defaults (v : Variant) (env : Env) (a : Kvs) (r : Cfg) :
    (getDataConfig v env a = .ok r →
      (∀ k, k ∉ dataPlacement.map (·.1) ++ ["preprocessing", "augmentation_config"] →
        getPath [k] r = getPath [k] (env.cls "DataConfig")) ∧
      (∀ k, k ∉ preprocessingPlacement.map (·.1) →
        getPath ["preprocessing", k] r = getPath [k] (env.cls "PreprocessingConfig")) ∧
      ∃ dk rk, env.cls "DataConfig" = .node dk ∧ r = .node rk ∧ keys rk = keys dk) ∧
    (getModelConfig env a = .ok r →
      (∀ k, k ∉ modelPlacement.map (·.1) ++ ["backbone_config", "head_configs"] →
        getPath [k] r = getPath [k] (env.cls "ModelConfig")) ∧
      ∃ dk rk, env.cls "ModelConfig" = .node dk ∧ r = .node rk ∧ keys rk = keys dk) ∧
    (getTrainerConfig env a = .ok r →
      (∀ k, k ∉ trainerPlacement.map (·.1) ++ ["train_data_loader", "val_data_loader", "model_ckpt",
          "wandb", "optimizer", "lr_scheduler", "early_stopping"] →
        getPath [k] r = getPath [k] (env.cls "TrainerConfig")) ∧
      ∃ dk rk, env.cls "TrainerConfig" = .node dk ∧ r = .node rk ∧ keys rk = keys dk) := by
  refine ⟨fun h => ?_, fun h => ?_, fun h => ?_⟩
  · obtain ⟨pre, aug, hpre, hr⟩ := data_parts h
    have hnd : (keys (place a dataPlacement ++ [("preprocessing", pre), ("augmentation_config", aug)])).Nodup := by
      rw [keys_append, keys_place]; simp only [keys, List.map_cons, List.map_nil]; decide
    refine ⟨fun k hk => mk_other hr (by rw [keys_append, keys_place]; exact hk), fun k hk => ?_, mk_keys hr⟩
    show getPath ("preprocessing" :: [k]) r = _
    rw [getPath_cons_of (mk_get hr hnd (v := pre) (by simp))]
    exact mk_other hpre (by rw [keys_place]; exact hk)
  · obtain ⟨bb, hd, _, _, hr⟩ := model_parts h
    exact ⟨fun k hk => mk_other hr (by rw [keys_append, keys_place]; exact hk), mk_keys hr⟩
  · obtain ⟨tdl, vdl, lrs, ckpt, wb, opt, es, _, _, _, _, _, _, _, hr⟩ := trainer_parts h
    exact ⟨fun k hk => mk_other hr (by rw [keys_append, keys_place]; exact hk), mk_keys hr⟩


/-! ## `get_aug_config`: the list loop (repaired, `fixes/C20-aug-order.patch`) -/

/-- **order of the list is irrelevant** — for every list of names (valid or not: an invalid name
raises in both orders) and every permutation of it, geometric and intensity alike -/
theorem aug_list_order_irrelevant (env : Env) (dflt : Cfg) (l l' : List String) (h : l.Perm l') :
    augGeometric .fixed env dflt (.names l) = augGeometric .fixed env dflt (.names l') :=
  augGeometric_perm env dflt h

theorem intensity_order_irrelevant (env : Env) (dflt : Cfg) (l l' : List String) (h : l.Perm l') :
    augIntensity env dflt (.names l) = augIntensity env dflt (.names l') :=
  augIntensity_perm env dflt h

/-- **every named geometric augmentation is enabled, every affine one not named is off**
(`g` = the class defaults the loop starts from) -/
theorem aug_named_enabled (g : Geo) (l : List GeoName) :
    (GeoName.rotation ∈ l → (geoLoop g l).rotation = g.rotation ∧ (geoLoop g l).affineP = fl 1) ∧
    (GeoName.scale ∈ l → (geoLoop g l).scale = pair d09 d11 ∧ (geoLoop g l).affineP = fl 1) ∧
    (GeoName.translate ∈ l → (geoLoop g l).tw = fl d02 ∧ (geoLoop g l).th = fl d02 ∧
      (geoLoop g l).affineP = fl 1) ∧
    (GeoName.eraseScale ∈ l → (geoLoop g l).eraseP = fl 1) ∧
    (GeoName.mixup ∈ l → (geoLoop g l).mixupP = fl 1) ∧
    (l.any GeoName.isAffine = true →
      (GeoName.rotation ∉ l → (geoLoop g l).rotation = fl 0) ∧
      (GeoName.scale ∉ l → (geoLoop g l).scale = pair 1 1) ∧
      (GeoName.translate ∉ l → (geoLoop g l).tw = fl 0 ∧ (geoLoop g l).th = fl 0)) ∧
    (l.any GeoName.isAffine = false → (geoLoop g l).affineP = g.affineP) := by
  rw [geoLoop_eq]
  refine ⟨fun h => ?_, fun h => ?_, fun h => ?_, fun h => ?_, fun h => ?_, fun h => ?_, fun h => ?_⟩
  · have ha := (any_isAffine_iff l).2 (Or.inl h); simp [geoClosed, geoPre, ha, h]
  · have ha := (any_isAffine_iff l).2 (Or.inr (Or.inl h)); simp [geoClosed, geoPre, ha, h]
  · have ha := (any_isAffine_iff l).2 (Or.inr (Or.inr h)); simp [geoClosed, geoPre, ha, h]
  · simp [geoClosed, h]
  · simp [geoClosed, h]
  · refine ⟨fun hn => ?_, fun hn => ?_, fun hn => ?_⟩ <;> simp [geoClosed, geoPre, h, hn]
  · simp [geoClosed, geoPre, h]

/-- the same on the intensity side, at tree level -/
theorem intensity_named_enabled (kvs : Kvs) (l : List IntName) (n : IntName) (hn : n ∈ l)
    (hk : hasKey n.field kvs = true) : lookup n.field (intLoop kvs l) = some (fl 1) :=
  lookup_intLoop_mem l kvs hn hk

example : (geoLoop ⟨fl 15, pair d09 d11, fl d02, fl d02, fl 0, fl 0, fl 0⟩ [.scale, .rotation]).rotation = fl 15 := by
  simp [geoLoop, geoPre, geoStep, GeoName.isAffine]

/-! ### REGRESSION RECORDS: the loop as it was in /repo before ba6346f (F-C20, fixed)

The next two theorems are about `geoLoopAsIs`, which is no longer the code; they are kept (and
counted) as the machine-checked record of the defect and of where it could not bite. -/

/-- The full statement (`∀ l l', l ~ l' → same result, every named augmentation enabled`) is
**false** of the code as it was before the fix: `["rotation","scale"]` and `["scale","rotation"]` differ, and in
both rotation is named yet ends at 0 (F-C20). -/
theorem aug_order_counterexample :
    let g : Geo := ⟨fl 15, pair d09 d11, fl d02, fl d02, fl 0, fl 0, fl 0⟩
    geoLoopAsIs g [.rotation, .scale] ≠ geoLoopAsIs g [.scale, .rotation] ∧
    (geoLoopAsIs g [.rotation, .scale]).rotation = fl 0 ∧
    (geoLoopAsIs g [.scale, .rotation]).rotation = fl 0 ∧
    (geoLoopAsIs g [.scale, .rotation]).scale = pair 1 1 := by
  refine ⟨?_, rfl, rfl, rfl⟩
  intro h
  have hs := congrArg Geo.scale h
  simp only [geoLoopAsIs, List.foldl_cons, List.foldl_nil, geoStepAsIs, pair, Cfg.leaf.injEq,
    Value.list.injEq, List.cons.injEq, Value.num.injEq] at hs
  exact absurd hs.1 (by decide)


/-- … and it was **true** of the old code exactly where the defect could not bite: when the list
names at most one *distinct* affine augmentation, the as-is loop and the repaired loop agree (so
order is irrelevant and every named augmentation is enabled there too). -/
theorem aug_asIs_partial (g : Geo) (l : List GeoName)
    (h : ∀ x ∈ l, ∀ y ∈ l, x.isAffine = true → y.isAffine = true → x = y) :
    geoLoopAsIs g l = geoLoop g l :=
  geoLoopAsIs_eq_of_oneAffine g l h

example : ∀ x ∈ [GeoName.mixup, .scale, .eraseScale, .scale], ∀ y ∈ [GeoName.mixup, .scale, .eraseScale, .scale],
    x.isAffine = true → y.isAffine = true → x = y := by decide

/-! ## backbone presets -/

/-- a documented preset yields a complete backbone configuration **provided** the preset's class
is (a subclass of) the class declared for the field it is stored in -/
theorem preset_complete (env : Env) (s field declared placed : String)
    (hp : presetOf s = .ok (field, declared, placed)) (hsub : env.sub placed declared = true) :
    backboneStructured env (cstr s) = .ok (setField (env.cls "BackboneConfig") field (env.cls placed)) := by
  simp [backboneStructured, getBackboneConfig, presetTypeOk, cstr, hp, hsub]

/-- all twelve documented names are presets -/
example : presetOf "unet" = .ok ("unet", "UNetConfig", "UNetConfig") := by simp [presetOf, assoc, unetPresets]
example : presetOf "unet_medium_rf" = .ok ("unet", "UNetConfig", "UNetMediumRFConfig") := by
  simp [presetOf, assoc, unetPresets]
example : presetOf "unet_large_rf" = .ok ("unet", "UNetConfig", "UNetLargeRFConfig") := by
  simp [presetOf, assoc, unetPresets]
example : presetOf "convnext" = .ok ("convnext", "ConvNextConfig", "ConvNextConfig") := by
  simp [presetOf, assoc, convnextPresets]
example : presetOf "convnext_tiny" = .ok ("convnext", "ConvNextConfig", "ConvNextConfig") := by
  simp [presetOf, assoc, convnextPresets]
example : presetOf "convnext_small" = .ok ("convnext", "ConvNextConfig", "ConvNextSmallConfig") := by
  simp [presetOf, assoc, convnextPresets]
example : presetOf "convnext_base" = .ok ("convnext", "ConvNextConfig", "ConvNextBaseConfig") := by
  simp [presetOf, assoc, convnextPresets]
example : presetOf "convnext_large" = .ok ("convnext", "ConvNextConfig", "ConvNextLargeConfig") := by
  simp [presetOf, assoc, convnextPresets]
example : presetOf "swint" = .ok ("swint", "SwinTConfig", "SwinTConfig") := by simp [presetOf, assoc, swintPresets]
example : presetOf "swint_tiny" = .ok ("swint", "SwinTConfig", "SwinTConfig") := by
  simp [presetOf, assoc, swintPresets]
example : presetOf "swint_small" = .ok ("swint", "SwinTConfig", "SwinTSmallConfig") := by
  simp [presetOf, assoc, swintPresets]
example : presetOf "swint_base" = .ok ("swint", "SwinTConfig", "SwinTBaseConfig") := by
  simp [presetOf, assoc, swintPresets]

/-- REGRESSION RECORD (F-C20b, fixed by c183280) … which was **false** of the classes as they were in
/repo (`UNetMediumRFConfig` etc. were unrelated to `UNetConfig`): with the identity subclass relation the documented preset
`"unet_medium_rf"` is refused when the configuration is assembled (F-C20b). -/
theorem preset_counterexample (cls : String → Cfg) :
    backboneStructured ⟨cls, fun a b => a = b⟩ (cstr "unet_medium_rf") = .error "ValidationError" := by
  simp [backboneStructured, getBackboneConfig, presetTypeOk, cstr, presetOf, assoc, unetPresets]

/-! ## validators -/

/-- an object the constructor accepts satisfies every field validator of its class … -/
theorem validators_reject {env : Env} {cls : String} {kw kvs : Kvs}
    (h : mk env cls kw = .ok (.node kvs)) {f : String} {r : Rule} (hr : (f, r) ∈ fieldRules cls)
    {c : Cfg} (hl : lookup f kvs = some c) : r.check c = .ok () :=
  runRules_ok ((mk_ok h).2 kvs rfl).1 f r hr c hl

/-- … and the validators mean what the property says: probabilities outside [0, 1], negative
scales / non-float scales, non-positive learning rates, unknown backbone sizes and optimizer names
are rejected (contrapositive of the above) -/
theorem rules_meaning (q : Rat) (i : Int) (s : String) :
    (Rule.check .prob (fl q) = .ok () ↔ 0 ≤ q ∧ q ≤ 1) ∧
    (Rule.check .ge0 (fl q) = .ok () ↔ 0 ≤ q) ∧
    (Rule.check .le1 (fl q) = .ok () ↔ q ≤ 1) ∧
    (Rule.check .gt0 (fl q) = .ok () ↔ 0 < q) ∧
    (Rule.check .floats (fl q) = .ok () ↔ 0 ≤ q) ∧
    (Rule.check .floats (.leaf (.int i)) ≠ .ok ()) ∧
    (Rule.check .devices (.leaf (.int i)) = .ok () ↔ 0 ≤ i) ∧
    (Rule.check (.oneOf ["tiny", "small", "base"]) (cstr s) = .ok () ↔ s = "tiny" ∨ s = "small" ∨ s = "base") ∧
    (Rule.check (.oneOf ["Adam", "AdamW"]) (cstr s) = .ok () ↔ s = "Adam" ∨ s = "AdamW") := by
  refine ⟨?_, ?_, ?_, ?_, ?_, ?_, ?_, ?_, ?_⟩
  · by_cases h : 0 ≤ q ∧ q ≤ 1 <;> simp [Rule.check, fl, Value.asExt?, Ext.le, h]
  · by_cases h : 0 ≤ q <;> simp [Rule.check, fl, Value.asExt?, Ext.le, h]
  · by_cases h : q ≤ 1 <;> simp [Rule.check, fl, Value.asExt?, Ext.le, h]
  · by_cases h : 0 < q <;> simp [Rule.check, fl, Value.asExt?, Ext.lt, h]
  · by_cases h : 0 ≤ q <;> simp [Rule.check, fl, Value.isNonnegFloat, h]
  · simp [Rule.check, Value.isNonnegFloat]
  · by_cases h : 0 ≤ i <;> simp [Rule.check, Value.isNonnegInt, h]
  · by_cases h1 : s = "tiny" <;> by_cases h2 : s = "small" <;> by_cases h3 : s = "base" <;>
      simp [Rule.check, cstr, h1, h2, h3]
  · by_cases h1 : s = "Adam" <;> by_cases h2 : s = "AdamW" <;> simp [Rule.check, cstr, h1, h2]

example : Rule.check .prob (fl 2) = .error "ValueError" := by
  simp [Rule.check, fl, Value.asExt?, Ext.le]; decide

/-- **"not a number" is rejected by every validator**, whatever the field -/
theorem nan_rejected (r : Rule) : r.check (.leaf .nan) ≠ .ok () := by
  cases r <;> simp [Rule.check, Value.asExt?, Ext.le, Ext.lt, Value.isNonnegFloat, Value.isNonnegInt]

/-- non-finite values: a probability may be neither infinity; the lower-bounded validators
(`ge(0)`, `gt(0)`, scale / min_lr) refuse `-inf`, the upper-bounded one (`le(1)`) refuses `+inf`,
device counts refuse both; a list of scales / learning rates containing NaN or `-inf` is refused.
(`+inf` passes `ge(0)`, `gt(0)`, `validate_scale`, `validate_min_lr` — that is what the code does:
their documented contract is the one-sided "float >= 0".) -/
theorem nonfinite_rejected (neg : Bool) (l₁ l₂ : List Value) :
    Rule.check .prob (.leaf (.inf neg)) ≠ .ok () ∧
    Rule.check .ge0 (.leaf (.inf true)) ≠ .ok () ∧
    Rule.check .gt0 (.leaf (.inf true)) ≠ .ok () ∧
    Rule.check .floats (.leaf (.inf true)) ≠ .ok () ∧
    Rule.check .le1 (.leaf (.inf false)) ≠ .ok () ∧
    Rule.check .devices (.leaf (.inf neg)) ≠ .ok () ∧
    Rule.check .floats (.leaf (.list (l₁ ++ .nan :: l₂))) ≠ .ok () ∧
    Rule.check .floats (.leaf (.list (l₁ ++ .inf true :: l₂))) ≠ .ok () := by
  refine ⟨?_, ?_, ?_, ?_, ?_, ?_, ?_, ?_⟩
  · cases neg <;> simp [Rule.check, Value.asExt?, Ext.le]
  · simp [Rule.check, Value.asExt?, Ext.le]
  · simp [Rule.check, Value.asExt?, Ext.lt]
  · simp [Rule.check, Value.isNonnegFloat]
  · simp [Rule.check, Value.asExt?, Ext.le]
  · cases neg <;> simp [Rule.check, Value.isNonnegInt]
  · simp [Rule.check, Value.isNonnegFloat]
  · simp [Rule.check, Value.isNonnegFloat]

/-- hence no object the constructors accept holds NaN in a validated field -/
theorem validators_reject_nan {env : Env} {cls : String} {kw kvs : Kvs}
    (h : mk env cls kw = .ok (.node kvs)) {f : String} {r : Rule} (hr : (f, r) ∈ fieldRules cls) :
    lookup f kvs ≠ some (.leaf .nan) := fun hl =>
  nan_rejected r (validators_reject h hr hl)

/-- all seven probability fields (and every other range-validated field) are in the table -/
example : (["uniform_noise_p", "gaussian_noise_p", "contrast_p", "brightness_p"].all
      (fun f => (fieldRules "IntensityConfig").any (fun fr => fr.1 == f))) = true ∧
    (["affine_p", "erase_p", "mixup_p"].all
      (fun f => (fieldRules "GeometricConfig").any (fun fr => fr.1 == f))) = true := by
  simp [fieldRules]

/-- more than one backbone, or more than one head type, is rejected (`oneof`) -/
theorem oneof_rejects {env : Env} {cls : String} {kw kvs : Kvs}
    (hc : cls = "BackboneConfig" ∨ cls = "HeadConfig") (h : mk env cls kw = .ok (.node kvs)) :
    countSet kvs ≤ 1 := by
  have := ((mk_ok h).2 kvs rfl).2
  unfold classCheck at this
  rw [if_pos hc] at this
  by_cases hgt : countSet kvs > 1
  · rw [if_pos hgt] at this; cases this
  · omega

/-! ## `oneof` after construction -/

theorem filter_two_le {α} (p : α → Bool) : ∀ (l : List α) (a b : α), a ∈ l → b ∈ l → a ≠ b →
    p a = true → p b = true → 2 ≤ (l.filter p).length := by
  intro l
  induction l with
  | nil => intro a _ ha; cases ha
  | cons x t ih =>
    intro a b ha hb hne hpa hpb
    have one : ∀ c, c ∈ t → p c = true → 1 ≤ (t.filter p).length := by
      intro c hc hpc
      exact List.length_pos_of_mem (List.mem_filter.2 ⟨hc, hpc⟩)
    rw [List.filter_cons]
    rcases List.mem_cons.1 ha with rfl | ha'
    · rcases List.mem_cons.1 hb with rfl | hb'
      · exact absurd rfl hne
      · simp only [hpa, if_true, List.length_cons]; have := one b hb' hpb; omega
    · rcases List.mem_cons.1 hb with rfl | hb'
      · simp only [hpb, if_true, List.length_cons]; have := one a ha' hpa; omega
      · have := ih a b ha' hb' hne hpa hpb
        split
        · simp only [List.length_cons]; omega
        · exact this

/-- more than one type set ⇒ both query methods raise -/
theorem which_oneof_raises {kvs : Kvs} (h : countSet kvs > 1) :
    whichOneofName kvs = .error "ValueError" ∧ whichOneof kvs = .error "ValueError" := by
  unfold countSet at h
  have hn : whichOneofName kvs = .error "ValueError" := by
    unfold whichOneofName
    match hf : kvs.filter (fun kv => !kv.2.isNull) with
    | [] => rw [hf] at h; simp at h
    | [_] => rw [hf] at h; simp at h
    | _ :: _ :: _ => rw [hf]
  exact ⟨hn, by unfold whichOneof; rw [hn]⟩

/-- **a second backbone / head type assigned to an existing object is detected**: if field `f` is
set and a non-`None` value is assigned to another field `g`, `which_oneof_attrib_name()` and
`which_oneof()` raise `ValueError` (they do not answer with the first type) -/
theorem oneof_rejects_after_assignment {kvs kvs' : Kvs} {f g : String} {cf v : Cfg}
    (hf : lookup f kvs = some cf) (hfn : cf.isNull = false) (hne : f ≠ g) (hv : v.isNull = false)
    (ha : assignAttr kvs g v = .ok kvs') :
    whichOneofName kvs' = .error "ValueError" ∧ whichOneof kvs' = .error "ValueError" := by
  unfold assignAttr at ha
  by_cases hg : hasKey g kvs = true
  · rw [if_pos hg] at ha
    simp only [Except.ok.injEq] at ha
    subst ha
    apply which_oneof_raises
    unfold countSet
    have m1 : (f, cf) ∈ setKey g v kvs := by
      apply lookup_mem; rw [lookup_setKey_ne _ _ (Ne.symm hne)]; exact hf
    have m2 : (g, v) ∈ setKey g v kvs := lookup_mem (lookup_setKey_self hg)
    have hne' : (f, cf) ≠ (g, v) := fun h => hne (congrArg Prod.fst h)
    exact filter_two_le _ _ _ _ m1 m2 hne' (by simp [hfn]) (by simp [hv])
  · rw [if_neg hg] at ha; cases ha

example : whichOneofName [("unet", .node []), ("convnext", cnull), ("swint", .node [])] = .error "ValueError" := by
  simp [whichOneofName, Cfg.isNull, cnull]

example : whichOneofName [("unet", cnull), ("convnext", cnull), ("swint", .node [])] = .ok (some "swint") := by
  simp [whichOneofName, Cfg.isNull, cnull]

/-! ## histories -/

theorem runHistory_outputs_aux (env : Env) (steps : List Step) : ∀ s : HState,
    (steps.foldl (hstep env) s).outputs = s.outputs ++ (callsOf steps).map (runCall env) := by
  induction steps with
  | nil => intro s; simp [callsOf]
  | cons st r ih =>
    intro s
    rw [List.foldl_cons, ih]
    cases st with
    | call c => simp [hstep, callsOf]
    | mutate i t => simp [hstep, callsOf]

/-- NO PROOF CONTENT BEYOND THE DEFINITIONS: `hstep … (.call c)` never reads `handed`, so this is the
statement "the model's builders are functions", by a two-line induction.  It is listed because it
is the *obligation* the history correspondence discharges on the implementation (each call of a
history is compared with the single-call model output); the evidence is the harness run, not this
proof.

**the result of a builder call depends on nothing but its arguments**: in any history of
calls interleaved with arbitrary in-place mutations of objects handed out earlier, the k-th call
returns what the same call returns on a fresh state.  (Trivial in the model — it is a pure
function — and exactly the obligation the correspondence then checks on the implementation:
every call of a history is compared with the single-call model output.) -/
theorem builders_history_independent (env : Env) (steps : List Step) :
    (runHistory env steps).outputs = (callsOf steps).map (runCall env) := by
  unfold runHistory
  rw [runHistory_outputs_aux]; rfl

example (env : Env) (t : Cfg) :
    (runHistory env [.call (.backbone (cstr "unet")), .mutate 0 t, .call (.backbone (cstr "unet"))]).outputs
      = [runCall env (.backbone (cstr "unet")), runCall env (.backbone (cstr "unet"))] := by
  rw [builders_history_independent]; rfl

/-! ## audit follow-up: the returned TREE, dict forms, nested completeness, non-vacuity -/

/-- **every named geometric augmentation is enabled in the configuration that is RETURNED**
(`Geo.write` puts each field under its own key — `lookup_write` — and touches nothing else).
Note "rotation enabled" = the class default rotation `g.rotation` is kept and `affine_p = 1`; if a
schema declared a default rotation of 0 that is what a named rotation would get (as in the code). -/
theorem aug_named_enabled_tree {env : Env} {kvs : Kvs} {g : Geo} {l : List String} {ns : List GeoName}
    (hr : Geo.read kvs = some g) (hp : parseAll GeoName.parse l = some ns) (hne : ns.isEmpty = false) :
    ∃ rk, augGeometric .fixed env (.node kvs) (.names l) = .ok (.node rk) ∧ keys rk = keys kvs ∧
      (∀ k, k ∉ geoKeys → lookup k rk = lookup k kvs) ∧
      (GeoName.rotation ∈ ns → lookup "rotation" rk = some g.rotation ∧ lookup "affine_p" rk = some (fl 1)) ∧
      (GeoName.scale ∈ ns → lookup "scale" rk = some (pair d09 d11) ∧ lookup "affine_p" rk = some (fl 1)) ∧
      (GeoName.translate ∈ ns → lookup "translate_width" rk = some (fl d02) ∧
        lookup "translate_height" rk = some (fl d02) ∧ lookup "affine_p" rk = some (fl 1)) ∧
      (GeoName.eraseScale ∈ ns → lookup "erase_p" rk = some (fl 1)) ∧
      (GeoName.mixup ∈ ns → lookup "mixup_p" rk = some (fl 1)) := by
  refine ⟨(geoLoop g ns).write kvs, ?_, keys_write _ _, fun k hk => lookup_write_other _ _ hk, ?_⟩
  · simp only [augGeometric, hp, hne, hr]; rfl
  · obtain ⟨w1, w2, w3, w4, w5, w6, w7⟩ := lookup_write (geoLoop g ns) hr
    obtain ⟨e1, e2, e3, e4, e5, _, _⟩ := aug_named_enabled g ns
    rw [w1, w2, w3, w4, w5, w6, w7]
    refine ⟨fun h => ?_, fun h => ?_, fun h => ?_, fun h => ?_, fun h => ?_⟩
    · rw [(e1 h).1, (e1 h).2]; exact ⟨rfl, rfl⟩
    · rw [(e2 h).1, (e2 h).2]; exact ⟨rfl, rfl⟩
    · rw [(e3 h).1, (e3 h).2.1, (e3 h).2.2]; exact ⟨rfl, rfl, rfl⟩
    · rw [e4 h]
    · rw [e5 h]

/-- `get_aug_config` stores what `augGeometric` / `augIntensity` return under `geometric` / `intensity` -/
theorem getAugConfig_parts {v : Variant} {env : Env} {ia ga r : Cfg} (h : getAugConfig v env ia ga = .ok r) :
    ∃ akvs i g, env.cls "AugmentationConfig" = .node akvs ∧
      augIntensity env ((lookup "intensity" akvs).getD cnull) (AugArg.ofCfg ia) = .ok i ∧
      augGeometric v env ((lookup "geometric" akvs).getD cnull) (AugArg.ofCfg ga) = .ok g ∧
      (hasKey "geometric" akvs = true → getPath ["geometric"] r = some g) ∧
      (hasKey "intensity" akvs = true → getPath ["intensity"] r = some i) := by
  unfold getAugConfig at h
  split at h
  · rename_i akvs hcls
    split at h
    · cases h
    · rename_i i hi
      split at h
      · cases h
      · rename_i g hg
        simp only [Except.ok.injEq] at h
        subst h
        refine ⟨akvs, i, g, hcls, hi, hg, fun hk => ?_, fun hk => ?_⟩
        · rw [getPath_single]
          exact lookup_setKey_self (by rw [hasKey_setKey]; exact hk)
        · rw [getPath_single, lookup_setKey_ne _ _ (by decide)]
          exact lookup_setKey_self hk
  · cases h

/-- dict forms of the augmentation arguments are plain constructor calls: `construct_places`,
`construct_defaults`, `construct_complete` and `validators_reject` apply to them as they are -/
theorem aug_dict_is_constructor (v : Variant) (env : Env) (dflt : Cfg) (kw : Kvs) :
    augIntensity env dflt (.dict kw) = mk env "IntensityConfig" kw ∧
    augGeometric v env dflt (.dict kw) = mk env "GeometricConfig" kw := ⟨rfl, rfl⟩

theorem getPath_setField {c : Cfg} {kvs : Kvs} (hc : c = .node kvs) {k : String} (hk : hasKey k kvs = true)
    (t : Cfg) : getPath [k] (setField c k t) = some t := by
  subst hc; simp only [setField]; rw [getPath_single]; exact lookup_setKey_self hk

/-- what a successfully constructed sub-configuration looks like, wherever it is stored -/
def Reflects (env : Env) (cls : String) (kw : Kvs) (t : Cfg) : Prop :=
  (∀ kv ∈ kw, getPath [kv.1] t = some kv.2) ∧
  (∀ k, k ∉ keys kw → getPath [k] t = getPath [k] (env.cls cls)) ∧
  ∃ dk tk, env.cls cls = .node dk ∧ t = .node tk ∧ keys tk = keys dk

theorem mk_reflects {env : Env} {cls : String} {kw : Kvs} {t : Cfg} (h : mk env cls kw = .ok t)
    (hnd : (keys kw).Nodup) : Reflects env cls kw t :=
  ⟨fun kv hm => mk_get h hnd (k := kv.1) (v := kv.2) hm, fun _ hk => mk_other h hk, mk_keys h⟩

/-- **dict-form backbone**: the family the code selects (`unet`, else `convnext`, else `swint`) holds
every supplied keyword unmodified, the class default everywhere else, and the class's key set -/
theorem backbone_dict_places {env : Env} {bbk d : Kvs} {field cls : String} {r : Cfg}
    (hb : env.cls "BackboneConfig" = .node bbk) (hk : hasKey field bbk = true)
    (h : backbonePick env (env.cls "BackboneConfig") d field cls = .ok r) :
    ∃ kw t, lookup field d = some (.node kw) ∧ getPath [field] r = some t ∧
      ((keys kw).Nodup → Reflects env cls kw t) := by
  unfold backbonePick at h
  cases hl : lookup field d with
  | none => rw [hl] at h; simp [kwargsOf, cnull] at h
  | some sub =>
    rw [hl] at h
    cases sub with
    | leaf v => simp [kwargsOf] at h
    | node kw =>
      simp only [Option.getD_some, kwargsOf] at h
      cases hm : mk env cls kw with
      | error e => rw [hm] at h; cases h
      | ok t =>
        rw [hm] at h
        simp only [Except.ok.injEq] at h
        subst h
        exact ⟨kw, t, rfl, getPath_setField hb hk t, fun hnd => mk_reflects hm hnd⟩

/-- which family `get_backbone_config` picks from a dict -/
theorem backbone_dict_selects (env : Env) (d : Kvs) :
    getBackboneConfig env (.node d) =
      if hasKey "unet" d then backbonePick env (env.cls "BackboneConfig") d "unet" "UNetConfig"
      else if hasKey "convnext" d then backbonePick env (env.cls "BackboneConfig") d "convnext" "ConvNextConfig"
      else if hasKey "swint" d then backbonePick env (env.cls "BackboneConfig") d "swint" "SwinTConfig"
      else .ok (env.cls "BackboneConfig") := rfl

/-- **dict-form scheduler**: the first non-`None` known key is built from its keywords -/
theorem scheduler_dict_places {env : Env} {lk kvs kw : Kvs} {k : String} {r : Cfg}
    (hl : env.cls "LRSchedulerConfig" = .node lk) (hk : hasKey k lk = true)
    (hf : firstScheduler kvs = some (k, .node kw)) (h : lrScheduler env (.node kvs) = .ok r) :
    ∃ t, getPath [k] r = some t ∧
      ((keys kw).Nodup →
        Reflects env (if k = "step_lr" then "StepLRConfig" else "ReduceLROnPlateauConfig") kw t) := by
  simp only [lrScheduler, hf, kwargsOf] at h
  cases hm : mk env (if k = "step_lr" then "StepLRConfig" else "ReduceLROnPlateauConfig") kw with
  | error e => rw [hm] at h; cases h
  | ok t =>
    rw [hm] at h
    simp only [Except.ok.injEq] at h
    subst h
    exact ⟨t, getPath_setField hl hk t, fun hnd => mk_reflects hm hnd⟩

/-- **dict-form head** (the entry `headFromDict` selects): `confmaps` keywords are reflected in the
`…ConfMapsConfig` stored at `<head>.confmaps` (for `bottomup` likewise `pafs`, by the same argument) -/
theorem head_dict_places {env : Env} {hk : Kvs} {field cls cmCls : String} {sub r : Cfg}
    (hh : env.cls "HeadConfig" = .node hk) (hf : hasKey field hk = true) (hnb : field ≠ "bottomup")
    (h : headBuild env (env.cls "HeadConfig") field cls cmCls sub = .ok r) :
    ∃ kw cmT t, item sub "confmaps" = .ok (.node kw) ∧ getPath [field] r = some t ∧
      getPath ["confmaps"] t = some cmT ∧ ((keys kw).Nodup → Reflects env cmCls kw cmT) := by
  unfold headBuild at h
  cases hi : item sub "confmaps" with
  | error e => rw [hi] at h; cases h
  | ok cm =>
    rw [hi] at h
    cases cm with
    | leaf v => simp [kwargsOf] at h
    | node kw =>
      simp only [kwargsOf] at h
      cases hm : mk env cmCls kw with
      | error e => rw [hm] at h; cases h
      | ok cmT =>
        rw [hm] at h
        simp only [hnb, if_false] at h
        cases hc : mk env cls [("confmaps", cmT)] with
        | error e => rw [hc] at h; cases h
        | ok t =>
          rw [hc] at h
          simp only [Except.ok.injEq] at h
          subst h
          exact ⟨kw, cmT, t, rfl, getPath_setField hh hf t,
            mk_get hc (by simp [keys]) (by simp), fun hnd => mk_reflects hm hnd⟩

/-- **nested completeness**: every sub-configuration the trainer / data builders assemble has
exactly the key set of its schema class (root key sets: `builder_defaults`) -/
theorem builder_complete_nested (v : Variant) (env : Env) (a : Kvs) (r : Cfg) :
    (getTrainerConfig env a = .ok r →
      ∀ pc ∈ [("train_data_loader", "DataLoaderConfig"), ("val_data_loader", "DataLoaderConfig"),
              ("model_ckpt", "ModelCkptConfig"), ("wandb", "WandBConfig"), ("optimizer", "OptimizerConfig"),
              ("early_stopping", "EarlyStoppingConfig")],
        ∃ t dk tk, getPath [pc.1] r = some t ∧ env.cls pc.2 = .node dk ∧ t = .node tk ∧ keys tk = keys dk) ∧
    (getDataConfig v env a = .ok r →
      ∃ t dk tk, getPath ["preprocessing"] r = some t ∧ env.cls "PreprocessingConfig" = .node dk ∧
        t = .node tk ∧ keys tk = keys dk) := by
  constructor
  · intro h
    obtain ⟨tdl, vdl, lrs, ckpt, wb, opt, es, h1, h2, _, h4, h5, h6, h7, hr⟩ := trainer_parts h
    have hnd : (keys (place a trainerPlacement ++
        [("train_data_loader", tdl), ("val_data_loader", vdl), ("model_ckpt", ckpt), ("wandb", wb),
         ("optimizer", opt), ("lr_scheduler", lrs), ("early_stopping", es)])).Nodup := by
      rw [keys_append, keys_place]; simp only [keys, List.map_cons, List.map_nil]; decide
    have hsub : ∀ k sub, (k, sub) ∈ [("train_data_loader", tdl), ("val_data_loader", vdl),
        ("model_ckpt", ckpt), ("wandb", wb), ("optimizer", opt), ("lr_scheduler", lrs),
        ("early_stopping", es)] → getPath [k] r = some sub :=
      fun k sub hm => mk_get hr hnd (List.mem_append_right _ hm)
    intro pc hm
    simp only [List.mem_cons, List.not_mem_nil, or_false] at hm
    rcases hm with rfl | rfl | rfl | rfl | rfl | rfl
    · obtain ⟨dk, tk, e1, e2, e3⟩ := mk_keys h1; exact ⟨tdl, dk, tk, hsub _ _ (by simp), e1, e2, e3⟩
    · obtain ⟨dk, tk, e1, e2, e3⟩ := mk_keys h2; exact ⟨vdl, dk, tk, hsub _ _ (by simp), e1, e2, e3⟩
    · obtain ⟨dk, tk, e1, e2, e3⟩ := mk_keys h4; exact ⟨ckpt, dk, tk, hsub _ _ (by simp), e1, e2, e3⟩
    · obtain ⟨dk, tk, e1, e2, e3⟩ := mk_keys h5; exact ⟨wb, dk, tk, hsub _ _ (by simp), e1, e2, e3⟩
    · obtain ⟨dk, tk, e1, e2, e3⟩ := mk_keys h6; exact ⟨opt, dk, tk, hsub _ _ (by simp), e1, e2, e3⟩
    · obtain ⟨dk, tk, e1, e2, e3⟩ := mk_keys h7; exact ⟨es, dk, tk, hsub _ _ (by simp), e1, e2, e3⟩
  · intro h
    obtain ⟨pre, aug, hpre, hr⟩ := data_parts h
    have hnd : (keys (place a dataPlacement ++ [("preprocessing", pre), ("augmentation_config", aug)])).Nodup := by
      rw [keys_append, keys_place]; simp only [keys, List.map_cons, List.map_nil]; decide
    obtain ⟨dk, tk, e1, e2, e3⟩ := mk_keys hpre
    exact ⟨pre, dk, tk, mk_get hr hnd (v := pre) (by simp), e1, e2, e3⟩

/-- **the `oneof` verdict depends on the resulting field values only** — not on how they were passed
(keyword, positional, mixed: all are the same field assignment `construct` models): the constructor of
a `@oneof` class succeeds iff at most one field of the constructed object is set. -/
theorem oneof_verdict_depends_on_fields_only {env : Env} {cls : String} {kw kvs : Kvs}
    (hc : cls = "BackboneConfig" ∨ cls = "HeadConfig") (h : construct (env.cls cls) kw = .ok (.node kvs)) :
    (mk env cls kw).toBool = decide (countSet kvs ≤ 1) := by
  rcases hc with rfl | rfl <;>
  · unfold mk
    rw [h]
    have hr : ∀ k : Kvs, runRules k [] = .ok () := fun k => by rw [runRules]
    simp only [fieldRules, classCheck]
    by_cases hgt : countSet kvs > 1
    · have : ¬ countSet kvs ≤ 1 := by omega
      simp [hgt, this, Except.toBool]; rw [hr]
    · have : countSet kvs ≤ 1 := by omega
      simp [hgt, this, Except.toBool]; rw [hr]

/-! ## attribute assignment on an existing object -/

theorem ruleOf_mem {cls f : String} {r : Rule} (h : ruleOf cls f = some r) : (f, r) ∈ fieldRules cls := by
  unfold ruleOf at h
  split at h
  · rename_i fr rest hf
    simp only [Option.some.injEq] at h
    have hm : fr ∈ (fieldRules cls).filter (fun fr => fr.1 == f) := by rw [hf]; exact List.mem_cons_self
    rw [List.mem_filter] at hm
    obtain ⟨hm1, hm2⟩ := hm
    have : fr.1 = f := by simpa using hm2
    rw [← this, ← h]; exact hm1
  · cases h

/-- **the verdict of an assignment is the constructor's verdict for that field**: with a validator that
looks at the value being assigned (`checksOld = false`), `obj.f = v` is decided by exactly the rule
`Rule.check` the constructor applies to field `f` (`validators_reject`), on the NEW value; it raises
the same exception class; when it raises the object is unchanged (no new state is returned), when it
succeeds the field holds `v` and nothing else changed.  (`ModelConfig.pre_trained_weights` is decided
by the cross-field validator `preTrainedOk` on the updated object, again as in the constructor.) -/
theorem assign_verdict_eq_construct (cls f : String) (kvs : Kvs) (old v : Cfg) (hl : lookup f kvs = some old)
    (hm : (cls == "ModelConfig" && f == "pre_trained_weights") = false) :
    assignField false cls kvs f v =
      (match ruleOf cls f with
       | none => .ok (setKey f v kvs)
       | some r => match r.check v with
         | .ok () => .ok (setKey f v kvs)
         | .error e => .error e) := by
  unfold assignField assignVerdict
  rw [hl]
  simp only [hm]
  cases ruleOf cls f with
  | none => rfl
  | some r =>
    simp only [Bool.false_eq_true, if_false]
    cases r.check v with
    | ok u => cases u; rfl
    | error e => rfl

/-- hence an accepted assignment satisfies the field's validator and stores exactly `v` … -/
theorem assign_accepts_only_valid {cls f : String} {kvs kvs' : Kvs} {old v : Cfg} {r : Rule}
    (hl : lookup f kvs = some old) (hr : ruleOf cls f = some r)
    (hm : (cls == "ModelConfig" && f == "pre_trained_weights") = false)
    (h : assignField false cls kvs f v = .ok kvs') :
    r.check v = .ok () ∧ lookup f kvs' = some v ∧ (f, r) ∈ fieldRules cls := by
  rw [assign_verdict_eq_construct cls f kvs old v hl hm, hr] at h
  simp only at h
  cases hc : r.check v with
  | error e => rw [hc] at h; cases h
  | ok u =>
    rw [hc] at h
    cases u
    simp only [Except.ok.injEq] at h
    subst h
    exact ⟨rfl, lookup_setKey_self (hasKey_of_lookup hl), ruleOf_mem hr⟩

/-- … and NaN can be assigned to no validated field -/
theorem assign_rejects_nan {cls f : String} {kvs : Kvs} {old : Cfg} {r : Rule}
    (hl : lookup f kvs = some old) (hr : ruleOf cls f = some r)
    (hm : (cls == "ModelConfig" && f == "pre_trained_weights") = false) :
    ∀ kvs', assignField false cls kvs f (.leaf .nan) ≠ .ok kvs' := by
  intro kvs' h
  exact nan_rejected r (assign_accepts_only_valid hl hr hm h).1

/-- REGRESSION RECORD (F-C20h, fixed): a validator that reads `self.<field>` (`checksOld = true`, as
`validate_scale()` / `validate_min_lr()` did) accepts NaN over a valid value and refuses a valid value
over an invalid one; the validators now receive the assigned value, the table is empty -/
theorem assign_checks_old_counterexample :
    (assignField true "PreprocessingConfig" [("scale", fl 1)] "scale" (.leaf .nan)).toBool = true ∧
    (assignField true "PreprocessingConfig" [("scale", .leaf .nan)] "scale" (fl 1)).toBool = false ∧
    (assignField false "PreprocessingConfig" [("scale", fl 1)] "scale" (.leaf .nan)).toBool = false := by
  decide

theorem assign_checks_old_only (cls f : String) : assignChecksOld cls f = false := rfl

/-! ## `train()` -/

/-- **the configuration `train()` hands to `run_training` is the composition of the three builders
on the same argument record** — each section is exactly what the corresponding builder returns,
every other top-level field (`name`, `description`, `sleap_nn_version`, `filename`) is the schema
default, and the key set is `TrainingJobConfig`'s.  (Definitional for the model; it is the
obligation the `train` correspondence checks against the real entry point, which is where a
rewritten argument — `max_width=max_width if … else max_height` — shows.)  Together with
`builder_places_args` / `builder_defaults` it gives, per field: a passed argument is found at its
place, a field no parameter reaches has the schema default; a parameter that is not passed takes
the builder's documented default, which is pinned in the harness (`DOC_DEFAULTS`), not in Lean. -/
theorem train_cfg_eq_builders {env : Env} {a : Kvs} {r : Cfg} (h : trainCfg env a = .ok r) :
    ∃ d m t, getDataConfig .fixed env a = .ok d ∧ getModelConfig env a = .ok m ∧
      getTrainerConfig env a = .ok t ∧
      getPath ["data_config"] r = some d ∧ getPath ["model_config"] r = some m ∧
      getPath ["trainer_config"] r = some t ∧
      (∀ k, k ∉ ["data_config", "model_config", "trainer_config"] →
        getPath [k] r = getPath [k] (env.cls "TrainingJobConfig")) ∧
      ∃ dk rk, env.cls "TrainingJobConfig" = .node dk ∧ r = .node rk ∧ keys rk = keys dk := by
  unfold trainCfg at h
  split at h
  · cases h
  rename_i d hd
  split at h
  · cases h
  rename_i m hm
  split at h
  · cases h
  rename_i t ht
  split at h
  · cases h
  rename_i r' hr
  split at h
  · cases h
  split at h
  · cases h
  simp only [Except.ok.injEq] at h
  subst h
  have hnd : (keys [("data_config", d), ("model_config", m), ("trainer_config", t)]).Nodup := by
    simp only [keys, List.map_cons, List.map_nil]; decide
  exact ⟨d, m, t, hd, hm, ht, mk_get hr hnd (by simp), mk_get hr hnd (by simp), mk_get hr hnd (by simp),
    fun k hk => mk_other hr (by simpa [keys] using hk), mk_keys hr⟩

example : (trainCfg exEnv (exDataArgs ++ exModelArgs ++ exTrainerArgs)).toBool = true ∧
    isInt 8 (pathOf (trainCfg exEnv (exDataArgs ++ exModelArgs ++ exTrainerArgs))
      ["model_config", "backbone_config", "unet", "filters"]) = true ∧
    isInt 4 (pathOf (trainCfg exEnv (exDataArgs ++ exModelArgs ++ exTrainerArgs))
      ["trainer_config", "train_data_loader", "batch_size"]) = true := by decide

/-! ### non-vacuity: an environment (real field names) on which every builder succeeds, and what comes out -/

example : (getTrainerConfig exEnv exTrainerArgs).toBool = true := by decide
example : (getDataConfig .fixed exEnv exDataArgs).toBool = true := by decide
example : (getModelConfig exEnv exModelArgs).toBool = true := by decide
example : isInt 4 (pathOf (getTrainerConfig exEnv exTrainerArgs) ["val_data_loader", "batch_size"]) = true ∧
    isInt 5 (pathOf (getTrainerConfig exEnv exTrainerArgs) ["lr_scheduler", "step_lr", "step_size"]) = true ∧
    isFl (mkRat 1 10) (pathOf (getTrainerConfig exEnv exTrainerArgs) ["lr_scheduler", "step_lr", "gamma"]) = true := by
  decide
example : isFl 15 (pathOf (getDataConfig .fixed exEnv exDataArgs) ["augmentation_config", "geometric", "rotation"]) = true ∧
    isFl 1 (pathOf (getDataConfig .fixed exEnv exDataArgs) ["augmentation_config", "geometric", "affine_p"]) = true ∧
    isFl 0 (pathOf (getDataConfig .fixed exEnv exDataArgs) ["augmentation_config", "geometric", "translate_width"]) = true ∧
    isFl 1 (pathOf (getDataConfig .fixed exEnv exDataArgs) ["augmentation_config", "intensity", "contrast_p"]) = true := by
  decide
example : isInt 8 (pathOf (getModelConfig exEnv exModelArgs) ["backbone_config", "unet", "filters"]) = true ∧
    isInt 16 (pathOf (getModelConfig exEnv exModelArgs) ["backbone_config", "unet", "max_stride"]) = true ∧
    isFl 2 (pathOf (getModelConfig exEnv exModelArgs) ["head_configs", "centroid", "confmaps", "sigma"]) = true := by
  decide

/-! ### open findings of the validator / placement clauses, as facts about the model (= the code as it is) -/

/-- F-C20d (fixed): `ConvNextConfig` validates `model_type` — an unknown size is rejected, the four
documented sizes are accepted -/
theorem convnext_model_type_rejected :
    (mk exEnv "ConvNextConfig" [("model_type", cstr "huge")]).toBool = false ∧
    (mk exEnv "ConvNextConfig" [("model_type", cstr "large")]).toBool = true := by
  decide

/-- F-C20f: the augmentation `scale` interval is not validated at all — text is accepted -/
theorem geometric_scale_counterexample :
    (∀ r, ("scale", r) ∉ fieldRules "GeometricConfig") ∧
    (mk exEnv "GeometricConfig" [("scale", cstr "x")]).toBool = true := by
  constructor
  · intro r h; simp [fieldRules] at h
  · decide

/-- F-C20g: a dict naming two backbone families is neither rejected nor placed as a whole: the
`convnext` entry is dropped without an error -/
theorem backbone_dict_drops_second_counterexample :
    let r := getBackboneConfig exEnv
      (.node [("convnext", .node [("model_type", cstr "tiny")]), ("unet", .node [])])
    r.toBool = true ∧ isNullOpt (pathOf r ["convnext"]) = true ∧ isInt 32 (pathOf r ["unet", "filters"]) = true := by
  decide

end SleapVerif.C20
