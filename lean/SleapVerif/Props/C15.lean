import SleapVerif.Lemmas.Oks
import SleapVerif.Lemmas.OksMatch
import SleapVerif.Lemmas.OksVec

/-!
# C15 — OKS and instance matching obey their mathematical contracts

Statements are about `SleapVerif.Oks` (model of `compute_oks`, `compute_instance_area`,
`match_instances` in `sleap_nn/evaluation.py` and of `greedy_matching`, `compute_iou` in
`sleap_nn/tracking/utils.py`; tied to the code on every run by `harness/c15.py`).

Numeric theorems hold over **every** ordered field `R` and every lawful `T : Transc R`
(`realTransc : Transc ℝ` shows the laws are satisfiable); all node lists, all NaN patterns, both
normalisations.  Hypotheses: `0 < eps` (`np.spacing(1)`), `0 < stddev` per node, `0 ≤ scale`
(a bounding-box area is never negative), at least one visible ground-truth keypoint.
Matching theorems hold for every OKS function, every score function, every threshold and lists of
any length.
-/
namespace SleapVerif.C15
open SleapVerif.Oks

variable {R : Type} [Field R] [LinearOrder R] [IsStrictOrderedRing R] (T : Transc R)

/-! ## OKS -/

/-- **Range.**  OKS of any pair with ≥ 1 visible gt keypoint lies in `[0, 1]`. -/
theorem oks_range (coco : Bool) {eps s : R} (he : 0 < eps) (hs : 0 ≤ s) (nodes : List (Node R))
    (hsd : ∀ n ∈ nodes, 0 < n.sd) (v : R) (h : oksNodes T.exp coco eps s nodes = some v) :
    0 ≤ v ∧ v ≤ 1 := by
  have hn : nVis nodes ≠ 0 := by
    intro h0; rw [(oksNodes_eq_none T.exp coco eps s nodes).mpr h0] at h; cases h
  rw [oksNodes_eq_some _ _ _ _ _ hn] at h
  have hv : v = _ := (Option.some.inj h).symm
  have hpos := nVisR_pos nodes hn
  subst hv
  exact ⟨div_nonneg (sum_ks_nonneg T coco eps s nodes) hpos.le,
    (div_le_one hpos).mpr (sum_ks_le T coco he hs nodes hsd)⟩

/-- The value is NaN (`none`) exactly when no gt keypoint is visible (`0/0`). -/
theorem oks_none_iff (coco : Bool) (eps s : R) (nodes : List (Node R)) :
    oksNodes T.exp coco eps s nodes = none ↔ nVis nodes = 0 :=
  oksNodes_eq_none _ _ _ _ _

/-- `oks_range` without the visible-gt hypothesis is false: there is no value at all. -/
theorem oks_range_novisible_counterexample :
    oksNodes (R := Rat) (fun _ => 1) true 1 1 [⟨1, (none, some 0), (some 0, some 0)⟩] = none := by
  decide

/-- **Identical poses score 1** (also with shared missing nodes, any stddev/scale).  `he hs hsd` are
the code's domain and are not used by the proof: in a field `0/0 = 0`, so the model would also give 1
at `sd = 0` or `eps + s = 0`, where the code computes `0/0 = NaN`; the hypotheses keep the statement
from being true there for the wrong reason. -/
theorem oks_self (coco : Bool) (eps s : R) (he : 0 < eps) (hs : 0 ≤ s) (nodes : List (Node R))
    (hsd : ∀ n ∈ nodes, 0 < n.sd) (hpg : ∀ n ∈ nodes, n.p = n.g)
    (hn : nVis nodes ≠ 0) : oksNodes T.exp coco eps s nodes = some 1 := by
  rw [oksNodes_eq_some _ _ _ _ _ hn]
  have hsum : sumR (nodes.map (ks T.exp coco eps s)) = nVisR nodes := by
    clear hn hsd
    induction nodes with
    | nil => rfl
    | cons n t ih =>
      have iht := ih (fun m hm => hpg m (List.mem_cons_of_mem _ hm))
      have hp := hpg n List.mem_cons_self
      show ks T.exp coco eps s n + sumR (t.map (ks T.exp coco eps s)) =
        (if isVis n.g then (1 : R) else 0) + nVisR t
      rw [iht]
      congr 1
      obtain ⟨sd, g, p⟩ := n
      simp only at hp; subst hp
      cases hv : isVis p with
      | true => simp only [if_true]; exact ks_self T coco eps s sd p hv
      | false => simp only [Bool.false_eq_true, if_false]; exact ks_invisible_gt T coco eps s _ hv
  rw [hsum, div_self (ne_of_gt (nVisR_pos nodes hn))]

/-- **Keypoints missing in the ground truth are ignored**: two node lists with the same stddevs
and ground truth whose predictions agree wherever the gt keypoint is visible have the same OKS
(the prediction at a missing-gt node may be anything, including NaN). -/
theorem oks_ignores_missing_gt (coco : Bool) (eps s : R) (he : 0 < eps) (hs : 0 ≤ s) {l l' : List (Node R)}
    (hsd : ∀ n ∈ l, 0 < n.sd) (h : List.Forall₂ (fun a b => a.sd = b.sd ∧ a.g = b.g ∧ (isVis a.g = true → a.p = b.p)) l l') :
    oksNodes T.exp coco eps s l = oksNodes T.exp coco eps s l' := by
  have h' : List.Forall₂ (fun a b => a.g = b.g ∧ ks T.exp coco eps s a = ks T.exp coco eps s b) l l' := by
    refine List.Forall₂.imp ?_ h
    rintro ⟨sd, g, p⟩ ⟨sd', g', p'⟩ ⟨h1, h2, h3⟩
    simp only at h1 h2 h3; subst h1; subst h2
    refine ⟨rfl, ?_⟩
    cases hv : isVis g with
    | true => rw [h3 hv]
    | false => rw [ks_invisible_gt T coco eps s _ hv, ks_invisible_gt T coco eps s _ hv]
  obtain ⟨hn, hs⟩ := sum_ks_congr T.exp coco eps s h'
  unfold oksNodes
  rw [hn, hs, nVisR_eq, nVisR_eq, hn]

/-- pointwise KS comparison lifts to OKS -/
theorem oks_mono (coco : Bool) (eps s : R) {l l' : List (Node R)}
    (h : List.Forall₂ (fun a b => a.g = b.g ∧ ks T.exp coco eps s a ≤ ks T.exp coco eps s b) l l')
    (v v' : R) (hv : oksNodes T.exp coco eps s l = some v) (hv' : oksNodes T.exp coco eps s l' = some v') :
    v ≤ v' := by
  obtain ⟨hn, hs⟩ := sum_ks_mono T coco eps s h
  have hn0 : nVis l ≠ 0 := by
    intro h0; rw [(oksNodes_eq_none T.exp coco eps s l).mpr h0] at hv; cases hv
  rw [oksNodes_eq_some _ _ _ _ _ hn0] at hv
  rw [oksNodes_eq_some _ _ _ _ _ (hn ▸ hn0)] at hv'
  have e1 := Option.some.inj hv
  have e2 := Option.some.inj hv'
  rw [← e1, ← e2, nVisR_eq, nVisR_eq, ← hn]
  exact div_le_div_of_nonneg_right hs (by exact_mod_cast Nat.zero_le _)

theorem forall₂_refl_ks (coco : Bool) (eps s : R) (l : List (Node R)) :
    List.Forall₂ (fun a b => a.g = b.g ∧ ks T.exp coco eps s a ≤ ks T.exp coco eps s b) l l := by
  induction l with
  | nil => exact List.Forall₂.nil
  | cons a t ih => exact List.Forall₂.cons ⟨rfl, le_refl _⟩ ih

theorem forall₂_one (coco : Bool) (eps s : R) (l1 l2 : List (Node R)) (a b : Node R)
    (hab : a.g = b.g ∧ ks T.exp coco eps s a ≤ ks T.exp coco eps s b) :
    List.Forall₂ (fun a b => a.g = b.g ∧ ks T.exp coco eps s a ≤ ks T.exp coco eps s b)
      (l1 ++ a :: l2) (l1 ++ b :: l2) := by
  induction l1 with
  | nil => exact List.Forall₂.cons hab (forall₂_refl_ks T coco eps s l2)
  | cons c t ih => exact List.Forall₂.cons ⟨rfl, le_refl _⟩ ih

/-- **A keypoint missing in the prediction is a complete miss**: it contributes KS 0 — the
infimum of the KS of any located prediction — so the OKS is the sum over the *other* nodes divided
by the visible-gt count, and no placement of that keypoint can score lower. -/
theorem oks_missing_pred_is_miss (coco : Bool) (eps s : R) (he : 0 < eps) (hs : 0 ≤ s)
    (l1 l2 : List (Node R)) (sd : R) (hsd : 0 < sd) (g p p' : Pt R) (hp : vis p = none) :
    ks T.exp coco eps s ⟨sd, g, p⟩ = 0 ∧
    (∀ v, oksNodes T.exp coco eps s (l1 ++ ⟨sd, g, p⟩ :: l2) = some v →
        v = (sumR (l1.map (ks T.exp coco eps s)) + sumR (l2.map (ks T.exp coco eps s))) /
              nVisR (l1 ++ ⟨sd, g, p⟩ :: l2)) ∧
    (∀ v v', oksNodes T.exp coco eps s (l1 ++ ⟨sd, g, p⟩ :: l2) = some v →
        oksNodes T.exp coco eps s (l1 ++ ⟨sd, g, p'⟩ :: l2) = some v' → v ≤ v') := by
  have k0 : ks T.exp coco eps s ⟨sd, g, p⟩ = 0 := ks_missing_pred T coco eps s _ hp
  refine ⟨k0, ?_, ?_⟩
  · intro v hv
    have hn0 : nVis (l1 ++ ⟨sd, g, p⟩ :: l2) ≠ 0 := by
      intro h0; rw [(oksNodes_eq_none T.exp coco eps s _).mpr h0] at hv; cases hv
    rw [oksNodes_eq_some _ _ _ _ _ hn0] at hv
    rw [← Option.some.inj hv, List.map_append, List.map_cons, sumR_append, sumR_cons, k0, zero_add]
  · intro v v' hv hv'
    refine oks_mono T coco eps s (forall₂_one T coco eps s l1 l2 ⟨sd, g, p⟩ ⟨sd, g, p'⟩ ⟨rfl, ?_⟩) v v' hv hv'
    rw [k0]; exact ks_nonneg T coco eps s _

/-- **Moving a predicted keypoint farther from its target never increases OKS.** -/
theorem oks_antitone (coco : Bool) {eps s : R} (he : 0 < eps) (hs : 0 ≤ s) (l1 l2 : List (Node R))
    (sd : R) (hsd : 0 < sd) (gx gy px py qx qy : R)
    (hfar : d2 (gx, gy) (px, py) ≤ d2 (gx, gy) (qx, qy)) (v v' : R)
    (hv : oksNodes T.exp coco eps s (l1 ++ ⟨sd, (some gx, some gy), (some px, some py)⟩ :: l2) = some v)
    (hv' : oksNodes T.exp coco eps s (l1 ++ ⟨sd, (some gx, some gy), (some qx, some qy)⟩ :: l2) = some v') :
    v' ≤ v := by
  refine oks_mono T coco eps s (forall₂_one T coco eps s l1 l2
    ⟨sd, (some gx, some gy), (some qx, some qy)⟩ ⟨sd, (some gx, some gy), (some px, some py)⟩ ⟨rfl, ?_⟩) v' v hv' hv
  simp only [ks, vis]
  apply T.exp_mono
  have hnf := normFactor_pos coco he hsd hs
  have := div_le_div_of_nonneg_right hfar hnf.le
  linarith

/-- **Translating both poses changes nothing** (for a given scale and for the bbox-area scale). -/
theorem oks_translation_invariant (coco : Bool) (eps : R) (he : 0 < eps) (sds : List R)
    (hsd : ∀ sd ∈ sds, 0 < sd) (scale : Option R) (hsc : ∀ s, scale = some s → 0 ≤ s)
    (g p : List (Pt R)) (t : R × R) :
    oksPair T.exp coco eps sds scale (g.map (shiftPt t)) (p.map (shiftPt t)) =
      oksPair T.exp coco eps sds scale g p := by
  have hsc : scaleOf scale (g.map (shiftPt t)) = scaleOf scale g := by
    cases scale with
    | none => exact area_shift t g
    | some s => rfl
  unfold oksPair
  rw [hsc]
  cases scaleOf scale g with
  | none => rfl
  | some s =>
    simp only [mkNodes_shift]
    unfold oksNodes
    rw [nVis_map_shift, nVisR_map_shift, List.map_map]
    have : (ks T.exp coco eps s ∘ fun n => (⟨n.sd, shiftPt t n.g, shiftPt t n.p⟩ : Node R)) =
        ks T.exp coco eps s := by
      funext n; exact ks_shift T.exp coco eps s t n
    rw [this]

/-- every entry of the matrix depends only on its own gt row and its own prediction -/
theorem oks_entry (coco : Bool) (eps : R) (sds : List R) (gts : List (Option R × List (Pt R)))
    (prs : List (List (Pt R))) (i j : Nat) (hi : i < gts.length) (hj : j < prs.length) :
    lookup (oksMatrix T.exp coco eps sds gts prs) i j =
      oksPair T.exp coco eps sds gts[i].1 gts[i].2 prs[j] := by
  simp [lookup, oksMatrix, hi, hj]

/-- **Reordering instances** permutes rows (and, inside every row, columns) the same way. -/
theorem oks_perm_equivariant (coco : Bool) (eps : R) (sds : List R)
    {gts gts' : List (Option R × List (Pt R))} {prs prs' : List (List (Pt R))}
    (hg : gts.Perm gts') (hp : prs.Perm prs') :
    (oksMatrix T.exp coco eps sds gts prs).Perm (oksMatrix T.exp coco eps sds gts' prs) ∧
    ∀ g ∈ gts, ((prs.map (fun p => oksPair T.exp coco eps sds g.1 g.2 p)).Perm
                (prs'.map (fun p => oksPair T.exp coco eps sds g.1 g.2 p))) :=
  ⟨hg.map _, fun _ _ => hp.map _⟩

/-- **Regression record** (tree before 8197f2d, F-C15b fixed; HEAD = `oksMatrix`, total): the old
code returned the matrix only for `n_pr = 1` … -/
theorem oks_beforeFix_partial (coco : Bool) (eps : R) (sds : List R) (gts : List (Option R × List (Pt R)))
    (prs : List (List (Pt R))) (h : prs.length = 1) :
    oksMatrixBeforeFix T.exp coco eps sds gts prs = some (oksMatrix T.exp coco eps sds gts prs) := by
  unfold oksMatrixBeforeFix; rw [if_pos h]

/-- … and raised `IndexError` for two predictions. -/
theorem oks_beforeFix_counterexample :
    oksMatrixBeforeFix (R := Rat) (fun _ => 1) true 1 [1] [(none, [(some 0, some 0)])]
      [[(some 0, some 0)], [(some 1, some 0)]] = none := rfl

/-- hypotheses of the OKS theorems are satisfiable (a 2-node pose, one keypoint 1 px off) -/
example : ∃ v, oksNodes (R := Rat) (fun _ => 1/2) true (1/4) 4
    [⟨1/40, (some 0, some 0), (some 1, some 0)⟩, ⟨1/40, (none, none), (some 3, some 3)⟩] = some v ∧
    0 ≤ v ∧ v ≤ 1 := ⟨1/2, by decide +kernel⟩

/-! ## `match_instances` -/

section matching
variable {S : Type} [LT S] [DecidableLT S] {G P : Type}

/-- **Conservation**: matched ∪ missed = all gt (as multisets, so with multiplicity). -/
theorem match_conservation (oks : G → P → Option S) (score : P → S) (thr : S) (gts : List G)
    (prs : List P) :
    ((matchInstances oks score thr gts prs).1.map (·.1) ++ (matchInstances oks score thr gts prs).2).Perm gts :=
  matchLoop_perm oks thr _ gts

/-- **Each ground-truth instance is used at most once**, and never both matched and missed. -/
theorem match_gt_at_most_once (oks : G → P → Option S) (score : P → S) (thr : S) (gts : List G)
    (prs : List P) (hnd : gts.Nodup) :
    ((matchInstances oks score thr gts prs).1.map (·.1)).Nodup ∧
    (matchInstances oks score thr gts prs).2.Nodup ∧
    ∀ g ∈ (matchInstances oks score thr gts prs).1.map (·.1),
      g ∉ (matchInstances oks score thr gts prs).2 := by
  have h := (match_conservation oks score thr gts prs).nodup_iff.mpr hnd
  rw [List.nodup_append] at h
  exact ⟨h.1, h.2.1, fun g hg hg' => h.2.2 g hg g hg' rfl⟩

/-- **Each predicted instance is used at most once.** -/
theorem match_pred_at_most_once (oks : G → P → Option S) (score : P → S) (thr : S) (gts : List G)
    (prs : List P) (hnd : prs.Nodup) :
    ((matchInstances oks score thr gts prs).1.map (·.2.1)).Nodup :=
  (matchLoop_pred_sublist oks thr _ gts).nodup ((sortDesc_perm score prs).nodup_iff.mpr hnd)

/-- every reported pair consists of a gt and a prediction of this frame, carries their OKS, and
that OKS is strictly above the threshold -/
theorem match_pairs_sound (oks : G → P → Option S) (score : P → S) (thr : S) (gts : List G)
    (prs : List P) (g : G) (p : P) (v : S) (h : (g, p, v) ∈ (matchInstances oks score thr gts prs).1) :
    oks g p = some v ∧ thr < v ∧ g ∈ gts ∧ p ∈ prs := by
  have := matchLoop_sound oks thr _ gts g p v h
  exact ⟨this.1, this.2.1, this.2.2.1, (sortDesc_perm score prs).mem_iff.mp this.2.2.2⟩

/-- **Regression record** (tree before 6b9ee84, F-C15 fixed; HEAD = `matchInstances`, total): the old
code matched a frame without error only when the gt frame was non-empty or there was no prediction. -/
theorem match_beforeFix_partial (oks : G → P → Option S) (score : P → S) (thr : S) (gts : List G)
    (prs : List P) (h : gts ≠ [] ∨ prs = []) :
    matchInstancesBeforeFix oks score thr gts prs = some (matchInstances oks score thr gts prs) := by
  unfold matchInstancesBeforeFix
  cases gts with
  | nil =>
    cases prs with
    | nil => rfl
    | cons p ps => rcases h with h | h <;> simp at h
  | cons g gs => rfl

/-- … and raised `ValueError` for no gt and one prediction. -/
theorem match_beforeFix_counterexample :
    matchInstancesBeforeFix (R := Rat) (G := Nat) (P := Nat) (fun _ _ => some 1) (fun _ => 1) 0 [] [0] = none := rfl

example : matchInstances (R := Rat) (fun (g p : Nat) => if g = p then some 1 else some (1/4)) (fun _ => 1) 0
    [0, 1] [1, 0, 2] = ([(1, 1, 1), (0, 0, 1)], []) := by decide +kernel

end matching

/-! ## `greedy_matching`, `hungarian_matching`, `compute_iou` -/

theorem greedy_sublist (l : List (Nat × Nat)) : (greedyLoop l).Sublist l := greedyFuel_sublist _ l

theorem greedy_rows_nodup (l : List (Nat × Nat)) : ((greedyLoop l).map (·.1)).Nodup := by
  have := greedyFuel_pairwise l.length l
  unfold greedyLoop List.Nodup
  rw [List.pairwise_map]
  exact this.imp (fun h => fun e => h.1 e.symm)

theorem greedy_cols_nodup (l : List (Nat × Nat)) : ((greedyLoop l).map (·.2)).Nodup := by
  have := greedyFuel_pairwise l.length l
  unfold greedyLoop List.Nodup
  rw [List.pairwise_map]
  exact this.imp (fun h => fun e => h.2 e.symm)

/-- every edge is chosen or shares a row/column with a chosen edge (for a full cost matrix this
means `min n m` pairs) -/
theorem greedy_maximal (l : List (Nat × Nat)) (f : Nat × Nat) (hf : f ∈ l) :
    ∃ e ∈ greedyLoop l, f.1 = e.1 ∨ f.2 = e.2 :=
  greedyFuel_maximal l.length l (Nat.le_refl _) f hf

/-- `linear_sum_assignment` is a parameter of the model; this is the part of its contract the
harness re-checks on scipy's output each run (optimality is checked there by brute force). -/
theorem isAssignment_sound (n m : Nat) (a : List (Nat × Nat)) (h : isAssignment n m a = true) :
    (∀ e ∈ a, e.1 < n ∧ e.2 < m) ∧ (a.map (·.1)).Nodup ∧ (a.map (·.2)).Nodup ∧ a.length = min n m := by
  simp only [isAssignment, Bool.and_eq_true, List.all_eq_true, decide_eq_true_eq, beq_iff_eq] at h
  exact ⟨h.1.1.1, nodupB_sound _ h.1.1.2, nodupB_sound _ h.1.2, h.2⟩

theorem iou_range (x1 y1 X1 Y1 x2 y2 X2 Y2 : R) (h1 : x1 ≤ X1) (h2 : y1 ≤ Y1) (h3 : x2 ≤ X2)
    (h4 : y2 ≤ Y2) :
    0 ≤ iou (x1, y1, X1, Y1) (x2, y2, X2, Y2) ∧ iou (x1, y1, X1, Y1) (x2, y2, X2, Y2) ≤ 1 :=
  iou_bounds x1 y1 X1 Y1 x2 y2 X2 Y2 h1 h2 h3 h4

theorem iou_self (x1 y1 X1 Y1 : R) (h1 : x1 ≤ X1) (h2 : y1 ≤ Y1) :
    iou (x1, y1, X1, Y1) (x1, y1, X1, Y1) = 1 := iou_self_eq x1 y1 X1 Y1 h1 h2

theorem iou_symm (x1 y1 X1 Y1 x2 y2 X2 Y2 : R) :
    iou (x1, y1, X1, Y1) (x2, y2, X2, Y2) = iou (x2, y2, X2, Y2) (x1, y1, X1, Y1) :=
  iou_comm x1 y1 X1 Y1 x2 y2 X2 Y2

example : iou (R := Rat) (0, 0, 3, 3) (2, 2, 5, 5) = 1/7 := by decide +kernel
example : greedyLoop [(0, 1), (0, 0), (1, 1), (1, 0)] = [(0, 1), (1, 0)] := by decide

/-! ## `compute_cosine_sim`, `compute_euclidean_distance` -/

/-- **Cosine similarity ∈ [−1, 1]** (Cauchy–Schwarz) for non-zero vectors (for a zero vector the code
divides by 0 and returns NaN; `np.dot` already rejects different lengths). -/
theorem cosine_range (a b : List R) (ha : 0 < dot a a) (hb : 0 < dot b b) :
    -1 ≤ cosine T.sqrt a b ∧ cosine T.sqrt a b ≤ 1 := by
  have hd : 0 < T.sqrt (dot a a) * T.sqrt (dot b b) := mul_pos (T.sqrt_pos ha) (T.sqrt_pos hb)
  obtain ⟨h1, h2⟩ := abs_le.mp (abs_dot_le T a b)
  unfold cosine
  exact ⟨by rw [le_div_iff₀ hd]; simpa [norm'] using h1, by rw [div_le_one hd]; simpa [norm'] using h2⟩

theorem cosine_symm (a b : List R) : cosine T.sqrt a b = cosine T.sqrt b a := by
  unfold cosine; rw [dot_comm a b, mul_comm]

theorem cosine_self (a : List R) (ha : 0 < dot a a) : cosine T.sqrt a a = 1 := by
  unfold cosine
  rw [T.sq_sqrt _ ha.le]; exact div_self (ne_of_gt ha)

/-- `compute_euclidean_distance` returns `−‖a − b‖`: the distance `−(…)` is non-negative, -/
theorem euclid_nonneg (a b : List R) : 0 ≤ -(negEuclid T.sqrt a b) := by
  rw [negEuclid_eq, neg_neg]; exact norm'_nonneg T _

/-- zero exactly for equal vectors, -/
theorem euclid_eq_zero_iff (a b : List R) (h : a.length = b.length) :
    negEuclid T.sqrt a b = 0 ↔ a = b := by
  rw [negEuclid_eq, neg_eq_zero, ← vsub_self_zero_iff a b h]
  constructor
  · intro h0
    have : dot (vsub a b) (vsub a b) = 0 := by rw [← norm'_sq T, h0, mul_zero]
    exact dot_self_eq_zero _ this
  · intro hz
    have : dot (vsub a b) (vsub a b) = 0 := by
      generalize vsub a b = l at hz
      induction l with
      | nil => exact dot_nil_left _
      | cons x t ih =>
        rw [dot_cons, hz x List.mem_cons_self, ih (fun y hy => hz y (List.mem_cons_of_mem _ hy))]; simp
    unfold norm'; rw [this]; exact T.sqrt_zero

/-- symmetric, -/
theorem euclid_symm (a b : List R) : negEuclid T.sqrt a b = negEuclid T.sqrt b a := by
  rw [negEuclid_eq, negEuclid_eq]; unfold norm'; rw [dot_vsub_comm]

/-- and satisfies the **triangle inequality** (used by C10's bridging argument). -/
theorem euclid_triangle (a b c : List R) (h1 : a.length = b.length) (h2 : b.length = c.length) :
    -(negEuclid T.sqrt a c) ≤ -(negEuclid T.sqrt a b) + -(negEuclid T.sqrt b c) := by
  rw [negEuclid_eq, negEuclid_eq, negEuclid_eq, neg_neg, neg_neg, neg_neg, vsub_eq_vadd a b c h1 h2]
  apply norm'_vadd_le
  simp [vsub, h1, h2]

example : 0 < dot (R := Rat) [3, 4] [3, 4] := by decide +kernel

/-! ## exact core, purity, NaN rows -/

/-- KS is `exp` of the exactly-computable argument `ksArg` (what the driver evaluates at `Rat` on the
exact dyadic inputs), or 0 when either keypoint is missing -/
theorem ks_eq_ksArg (exp : R → R) (coco : Bool) (eps s : R) (n : Node R) :
    ks exp coco eps s n = match ksArg coco eps s n with
      | some x => exp x
      | none => 0 := by
  unfold ks ksArg
  cases vis n.g <;> cases vis n.p <;> rfl

/-- the argument of `exp` is never positive, and depends on the two poses only through their
difference: translating both by the same vector leaves it unchanged (no absolute coordinate enters) -/
theorem ksArg_nonpos_and_translation (coco : Bool) {eps s : R} (he : 0 < eps) (hs : 0 ≤ s) (n : Node R)
    (hsd : 0 < n.sd) (t : R × R) :
    (∀ x, ksArg coco eps s n = some x → x ≤ 0) ∧
    ksArg coco eps s ⟨n.sd, shiftPt t n.g, shiftPt t n.p⟩ = ksArg coco eps s n := by
  constructor
  · intro x hx
    unfold ksArg at hx
    cases hg : vis n.g with
    | none => rw [hg] at hx; simp at hx
    | some g =>
      cases hp : vis n.p with
      | none => rw [hg, hp] at hx; simp at hx
      | some p =>
        rw [hg, hp] at hx
        have := div_nonneg (d2_nonneg g p) (normFactor_pos coco he hsd hs).le
        have e := Option.some.inj hx
        linarith
  · unfold ksArg
    simp only [vis_shift]
    cases vis n.g <;> cases vis n.p <;> simp [d2_shift]

/-- **`compute_oks` is a pure function of its arguments**: in any history of calls the `k`-th result
is the function of the `k`-th arguments alone (no call can influence a later one, in particular not
by modifying the caller's `stddev`/`scale`/point arrays).  Trivial for the model; the correspondence
re-checks it on the implementation with call histories that reuse the same argument objects. -/
theorem oks_pure (exp : R → R) (eps : R)
    (calls : List (Bool × List R × List (Option R × List (Pt R)) × List (List (Pt R)))) (k : Nat)
    (hk : k < calls.length) :
    (oksHistory exp eps calls)[k]? =
      some (oksMatrix exp calls[k].1 eps calls[k].2.1 calls[k].2.2.1 calls[k].2.2.2) := by
  simp [oksHistory, hk]

/-- a ground-truth instance whose OKS is NaN against every prediction (an *empty* user instance: all
keypoints NaN, `0/0`) is never matched and is reported as a false negative -/
theorem match_nan_row_is_false_negative {S : Type} [LT S] [DecidableLT S] {G P : Type}
    (oks : G → P → Option S) (score : P → S) (thr : S) (gts : List G) (prs : List P) (g : G)
    (hg : g ∈ gts) (hnan : ∀ p, oks g p = none) :
    g ∈ (matchInstances oks score thr gts prs).2 ∧
    ∀ x ∈ (matchInstances oks score thr gts prs).1, x.1 ≠ g := by
  have hnot : ∀ x ∈ (matchInstances oks score thr gts prs).1, x.1 ≠ g := by
    rintro ⟨g', p, v⟩ hx rfl
    have := (match_pairs_sound oks score thr gts prs _ p v hx).1
    rw [hnan p] at this; cases this
  refine ⟨?_, hnot⟩
  have hmem := (match_conservation oks score thr gts prs).mem_iff.mpr hg
  rcases List.mem_append.mp hmem with h | h
  · obtain ⟨x, hx, rfl⟩ := List.mem_map.mp h
    exact absurd rfl (hnot x hx)
  · exact h

/-! ## the level the code exposes: `compute_oks` entries, default `scale=None` included -/

/-- a bounding-box area is never negative -/
theorem area_nonneg (g : List (Pt R)) (s : R) (h : area g = some s) : 0 ≤ s := by
  unfold area at h
  split at h
  · rename_i x0 x1 y0 y1 h1 h2 h3 h4
    have := nanFold_min_le_max _ _ _ h1 h2
    have := nanFold_min_le_max _ _ _ h3 h4
    cases h
    exact mul_nonneg (by linarith) (by linarith)
  · cases h

theorem mkNodes_sd_pos : ∀ (sds : List R) (g p : List (Pt R)), (∀ sd ∈ sds, 0 < sd) →
    ∀ n ∈ mkNodes sds g p, 0 < n.sd
  | [], _, _, _, n, hn => by simp [mkNodes] at hn
  | _ :: _, [], _, _, n, hn => by simp [mkNodes] at hn
  | _ :: _, _ :: _, [], _, n, hn => by simp [mkNodes] at hn
  | sd :: sds, g :: gs, p :: ps, h, n, hn => by
    simp only [mkNodes, List.mem_cons] at hn
    rcases hn with rfl | hn
    · exact h sd List.mem_cons_self
    · exact mkNodes_sd_pos sds gs ps (fun x hx => h x (List.mem_cons_of_mem _ hx)) n hn

/-- **Range at the `compute_oks` entry level**: any value the function returns (given scale ≥ 0, or
the default bbox-area scale) lies in `[0, 1]`. -/
theorem oksPair_range (coco : Bool) {eps : R} (he : 0 < eps) (sds : List R) (hsd : ∀ sd ∈ sds, 0 < sd)
    (scale : Option R) (hsc : ∀ s, scale = some s → 0 ≤ s) (g p : List (Pt R)) (v : R)
    (h : oksPair T.exp coco eps sds scale g p = some v) : 0 ≤ v ∧ v ≤ 1 := by
  unfold oksPair at h
  cases hs : scaleOf scale g with
  | none => rw [hs] at h; cases h
  | some s =>
    rw [hs] at h
    have hs0 : 0 ≤ s := by
      cases scale with
      | none => exact area_nonneg g s hs
      | some s' => simp only [scaleOf] at hs; exact hsc s' rfl |> (Option.some.inj hs ▸ ·)
    exact oks_range T coco he hs0 _ (mkNodes_sd_pos sds g p hsd) v h

/-- … hence every non-NaN entry of the matrix `compute_oks` returns. -/
theorem oksMatrix_range (coco : Bool) {eps : R} (he : 0 < eps) (sds : List R) (hsd : ∀ sd ∈ sds, 0 < sd)
    (gts : List (Option R × List (Pt R))) (hsc : ∀ g ∈ gts, ∀ s, g.1 = some s → 0 ≤ s)
    (prs : List (List (Pt R))) (row : List (Option R)) (hrow : row ∈ oksMatrix T.exp coco eps sds gts prs)
    (v : R) (hv : some v ∈ row) : 0 ≤ v ∧ v ≤ 1 := by
  simp only [oksMatrix, List.mem_map] at hrow
  obtain ⟨g, hg, rfl⟩ := hrow
  obtain ⟨p, _, hp⟩ := List.mem_map.mp hv
  exact oksPair_range T coco he sds hsd g.1 (hsc g hg) g.2 p v hp

theorem mkNodes_self : ∀ (sds : List R) (g : List (Pt R)), ∀ n ∈ mkNodes sds g g, n.p = n.g
  | [], _, n, hn => by simp [mkNodes] at hn
  | _ :: _, [], n, hn => by simp [mkNodes] at hn
  | sd :: sds, g :: gs, n, hn => by
    simp only [mkNodes, List.mem_cons] at hn
    rcases hn with rfl | hn
    · rfl
    · exact mkNodes_self sds gs n hn

theorem nVis_mkNodes : ∀ (sds : List R) (g p : List (Pt R)), g.length ≤ sds.length → g.length ≤ p.length →
    nVis (mkNodes sds g p) = (g.filter isVis).length
  | _, [], _, _, _ => by cases ‹List R› <;> simp [mkNodes, nVis]
  | [], _ :: _, _, h, _ => by simp at h
  | _ :: _, _ :: _, [], _, h => by simp at h
  | sd :: sds, g :: gs, p :: ps, h1, h2 => by
    have ih := nVis_mkNodes sds gs ps (by simpa using h1) (by simpa using h2)
    simp only [mkNodes, nVis_cons, ih, List.filter_cons]
    cases isVis g <;> simp <;> omega

/-- **A pose compared with itself scores exactly 1** at the `compute_oks` level, default scale included
(one stddev per node, ≥ 1 visible keypoint). -/
theorem oksPair_self (coco : Bool) {eps : R} (he : 0 < eps) (sds : List R) (hsd : ∀ sd ∈ sds, 0 < sd)
    (scale : Option R) (hsc : ∀ s, scale = some s → 0 ≤ s) (g : List (Pt R)) (hlen : g.length ≤ sds.length)
    (hvis : (g.filter isVis).length ≠ 0) : oksPair T.exp coco eps sds scale g g = some 1 := by
  have hn : nVis (mkNodes sds g g) ≠ 0 := by rw [nVis_mkNodes sds g g hlen (le_refl _)]; exact hvis
  unfold oksPair
  cases hs : scaleOf scale g with
  | none =>
    -- impossible: a visible keypoint makes both columns non-NaN
    exfalso
    cases scale with
    | some s => simp [scaleOf] at hs
    | none =>
      simp only [scaleOf] at hs
      obtain ⟨q, hq, hqv⟩ : ∃ q ∈ g, isVis q = true := by
        cases hf : g.filter isVis with
        | nil => rw [hf] at hvis; simp at hvis
        | cons q t =>
          have : q ∈ g.filter isVis := by rw [hf]; exact List.mem_cons_self
          exact ⟨q, (List.mem_filter.mp this).1, (List.mem_filter.mp this).2⟩
      have hx : ∀ f, ∃ v, nanFold f (g.map (·.1)) = some v := fun f =>
        nanFold_some_of_mem f _ (by
          obtain ⟨x, y⟩ := q
          cases x <;> cases y <;> simp [isVis, vis] at hqv
          exact ⟨_, List.mem_map.mpr ⟨_, hq, rfl⟩⟩)
      have hy : ∀ f, ∃ v, nanFold f (g.map (·.2)) = some v := fun f =>
        nanFold_some_of_mem f _ (by
          obtain ⟨x, y⟩ := q
          cases x <;> cases y <;> simp [isVis, vis] at hqv
          exact ⟨_, List.mem_map.mpr ⟨_, hq, rfl⟩⟩)
      obtain ⟨a, ha⟩ := hx minR; obtain ⟨b, hb⟩ := hx maxR
      obtain ⟨c, hc⟩ := hy minR; obtain ⟨d, hd⟩ := hy maxR
      simp [area, ha, hb, hc, hd] at hs
  | some s =>
    have hs0 : 0 ≤ s := by
      cases scale with
      | none => exact area_nonneg g s hs
      | some s' => simp only [scaleOf] at hs; exact hsc s' rfl |> (Option.some.inj hs ▸ ·)
    exact oks_self T coco eps s he hs0 _ (mkNodes_sd_pos sds g g hsd) (mkNodes_self sds g) hn

/-! ## keypoints missing in the ground truth: their *data* (F-C15c) -/

/-- Full clause “OKS ignores keypoints missing in the ground truth” includes: whatever is stored for a
missing gt keypoint does not matter.  **Partial**: true when the scale is given.  (With the default
`scale=None` it is false of the code: a half-NaN keypoint `(x, NaN)` is missing for KS but its `x` still
enters `nanmin/nanmax` of the bounding box — see the counterexample.) -/
theorem oks_ignores_missing_gt_coords_partial (exp : R → R) (coco : Bool) (eps s : R) (sds : List R)
    {g g' : List (Pt R)} (p : List (Pt R))
    (h : List.Forall₂ (fun a b => a = b ∨ (vis a = none ∧ vis b = none)) g g') :
    oksPair exp coco eps sds (some s) g p = oksPair exp coco eps sds (some s) g' p := by
  have hn : ∀ (sds : List R) (p : List (Pt R)),
      List.Forall₂ (fun a b => isVis a.g = isVis b.g ∧ ks exp coco eps s a = ks exp coco eps s b)
        (mkNodes sds g p) (mkNodes sds g' p) := by
    induction h with
    | nil => intro sds p; cases sds <;> exact List.Forall₂.nil
    | cons hab _ ih =>
      intro sds p
      cases sds with
      | nil => exact List.Forall₂.nil
      | cons sd sds =>
        cases p with
        | nil => exact List.Forall₂.nil
        | cons q ps =>
          refine List.Forall₂.cons ?_ (ih sds ps)
          rcases hab with rfl | ⟨h1, h2⟩
          · exact ⟨rfl, rfl⟩
          · simp [isVis, ks, h1, h2]
  have key : ∀ {l l' : List (Node R)},
      List.Forall₂ (fun a b => isVis a.g = isVis b.g ∧ ks exp coco eps s a = ks exp coco eps s b) l l' →
      oksNodes exp coco eps s l = oksNodes exp coco eps s l' := by
    intro l l' hl
    have : nVis l = nVis l' ∧ nVisR l = nVisR l' ∧
        sumR (l.map (ks exp coco eps s)) = sumR (l'.map (ks exp coco eps s)) := by
      induction hl with
      | nil => exact ⟨rfl, rfl, rfl⟩
      | cons hab _ ih =>
        refine ⟨by rw [nVis_cons, nVis_cons, hab.1, ih.1], ?_, ?_⟩
        · show (if isVis _ then (1 : R) else 0) + nVisR _ = (if isVis _ then (1 : R) else 0) + nVisR _
          rw [hab.1, ih.2.1]
        · simp only [List.map_cons, sumR_cons, hab.2, ih.2.2]
    unfold oksNodes
    rw [this.1, this.2.1, this.2.2]
  simp only [oksPair, scaleOf]
  exact key (hn sds p)

/-- … and false with the default scale: gt `[(0,0),(2,2),(x,NaN)]`, prediction `[(1,0),(2,2),(5,5)]`.  With
`x` missing the bbox is 2×2, with `x = 10` it is 10×2: the same visible keypoints, a different OKS
(`exp` instantiated with a strictly monotone stand-in). -/
theorem oks_missing_gt_coord_counterexample :
    oksPair (R := Rat) (fun x => 1 + x / 4) true (1/4) [1, 1, 1] none
        [(some 0, some 0), (some 2, some 2), (none, none)] [(some 1, some 0), (some 2, some 2), (some 5, some 5)] ≠
      oksPair (R := Rat) (fun x => 1 + x / 4) true (1/4) [1, 1, 1] none
        [(some 0, some 0), (some 2, some 2), (some 10, none)] [(some 1, some 0), (some 2, some 2), (some 5, some 5)] := by
  decide +kernel

/-! ## the exact-argument evaluation used by the driver -/

/-- the mixed-carrier evaluation (`oksr` driver op: exact part at `Rat`, `exp`/sum/division at `Float`)
is `oksPair` when both carriers coincide -/
theorem oksPairMixed_eq (exp : R → R) (coco : Bool) (eps : R) (sds : List R) (scale : Option R)
    (g p : List (Pt R)) :
    oksPairMixed (fun x => x) exp coco eps sds scale g p = oksPair exp coco eps sds scale g p := by
  unfold oksPairMixed oksPair
  cases scaleOf scale g with
  | none => rfl
  | some s =>
    simp only [oksNodes]
    split
    · rfl
    · congr 2
      · congr 1
        apply List.map_congr_left
        intro n _
        unfold ks ksArg
        cases vis n.g <;> cases vis n.p <;> rfl

/-! ## the detection score only orders the predictions -/

/-- **Every prediction of the frame takes part in the matching, whatever its score.**  The loop runs
over `sortDesc score prs`, a permutation of `prs`: a score of exactly `0` (a valid score and the
sleap-io default), `-0`, a denormal or `1` is compared like any other value — `sortDesc` uses `<` only;
the score never decides *whether* an instance is looked at (round-6 seed C16-r6m1 dropped
predictions whose score is falsy). -/
theorem match_every_prediction_takes_part {S : Type} [LT S] [DecidableLT S] {P : Type}
    (score : P → S) (prs : List P) : (sortDesc score prs).Perm prs :=
  sortDesc_perm score prs

/-- all scores 0: both copies are matched, in listing order -/
example : matchInstances (R := Rat) (fun (g p : Nat) => if g = p then some 1 else some (1/4)) (fun _ => 0) 0
    [0, 1] [1, 0] = ([(1, 1, 1), (0, 0, 1)], []) := by decide +kernel

end SleapVerif.C15
