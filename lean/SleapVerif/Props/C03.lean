import SleapVerif.Lemmas.BottomUp
import SleapVerif.Lemmas.BottomUpCompose
/-!
# C03 — bottom-up inference reassembles exactly the labelled animals from ideal maps

Statements are about `SleapVerif.BottomUp` (model of `BottomUpInferenceModel.forward`,
`make_line_subs`, `score_paf_lines`, the decode) and `SleapVerif.Grouping.assignRaw` (model of
`assign_connections_to_instances`), tied to the code by `harness/c03.py`.

Full statement (property C03): *if the network outputs the ideal confidence maps and PAFs, the
output is exactly one instance per visible-edge-connected group of ≥ 2 visible keypoints of a
labelled animal, those keypoints within half a cell in original coordinates, NaN elsewhere.*

What is theorem here is the combinatorial and coordinate content, `reassembly_exact`, stated about
the model function `BottomUp.forwardSample` and **conditional** only on
* the skeleton being an arborescence with at least one edge, in any listing (`Toposort.Arbo`, C17),
* the solver contract of C08 on the cost matrices of the run (`Grouping.LsaOK`: scipy returns a
  minimum-cost saturating matching; validated by brute force on every recorded call),
* H1 (peak stage: every peak within half a confidence-map cell of its scaled keypoint) and
* H2 (`SepTable`: no NaN score and `Separated` scores, per edge type)
— H1/H2 are analytic facts about Gaussian / PAF fields of well-separated animals that are **not
proved**; the harness measures them on every generated scene — plus the configuration
`min_instance_peaks = 0` (the default).  Parent-first processing and "instance classes =
components" are no longer assumed: they come from C17 (`toposort_perm`, parent-first order) through
C08 (`tree_conns`, `assign_classes_eq_components`, `grouping_total`, `grouping_total_partial`,
restated from their lemma files in `Lemmas/BottomUpDeps.lean`); the local solver conditions
`LsaStable` come from the one solver contract (`solver_contract_implies_stable`).  The model follows
/repo HEAD (`fixed = true`: matching after the F-C08 repair); every theorem is stated for both
variants.  `rows_exact` says what the output rows (`pred_instance_peaks`, `pred_peak_values`) hold.
-/
namespace SleapVerif.C03
open SleapVerif SleapVerif.BottomUp SleapVerif.Grouping SleapVerif.Toposort

/-! ## the line subscripts -/

/-- **Reader/writer agreement on the channel layout**: for edge `e` the x component is read from
the channel `generate_pafs` writes the x component of edge `e` to, and likewise y (`2e`, `2e+1`).
Holds for every carrier (also `Float`). -/
theorem line_subs_layout {R : Type} [Add R] [Sub R] [Mul R] [Div R] [LT R] [DecidableLT R]
    (fl : R → Int) (castI : Int → R) (stride h w e : Nat) (src dst : R × R) (ts : List R) :
    ∀ s ∈ lineSubs fl castI stride h w e src dst ts,
      s.chX = writerChannel e 0 ∧ s.chY = writerChannel e 1 ∧ s.chX = 2 * e ∧ s.chY = 2 * e + 1 := by
  intro s hs
  obtain ⟨t, _, rfl⟩ := List.mem_map.mp hs
  have := lineSub_channels fl castI stride h w e src dst t
  refine ⟨this.1, this.2, ?_, ?_⟩ <;> simp [lineSub] <;> omega

/-- **In bounds**: every subscript addresses a cell of the `(h, w)` tensor. -/
theorem line_subs_in_bounds {R : Type} [Add R] [Sub R] [Mul R] [Div R] [LT R] [DecidableLT R]
    (fl : R → Int) (castI : Int → R) (stride h w e : Nat) (src dst : R × R) (ts : List R)
    (hh : 0 < h) (hw : 0 < w) :
    ∀ s ∈ lineSubs fl castI stride h w e src dst ts, 0 ≤ s.row ∧ s.row < h ∧ 0 ≤ s.col ∧ s.col < w := by
  intro s hs
  obtain ⟨t, _, rfl⟩ := List.mem_map.mp hs
  exact lineSub_in_bounds fl castI stride h w e src dst t hh hw

/-- What the reader gets at those subscripts from the tensor the writer produced from per-edge
vector fields `G e comp row col`: exactly the x and y component of **this** edge at that cell. -/
theorem line_subs_reads_writer {R : Type} [Add R] [Sub R] [Mul R] [Div R] [LT R] [DecidableLT R] [OfNat R 0]
    (fl : R → Int) (castI : Int → R) (stride h w nE e : Nat) (src dst : R × R) (ts : List R)
    (G : Nat → Nat → Nat → Nat → R) (hh : 0 < h) (hw : 0 < w) (he : e < nE) :
    ∀ s ∈ lineSubs fl castI stride h w e src dst ts,
      (Paf.ofFields h w nE G).at s.row s.col s.chX = G e 0 s.row.toNat s.col.toNat ∧
      (Paf.ofFields h w nE G).at s.row s.col s.chY = G e 1 s.row.toNat s.col.toNat := by
  intro s hs
  obtain ⟨hr0, hr, hc0, hc⟩ := line_subs_in_bounds fl castI stride h w e src dst ts hh hw s hs
  obtain ⟨hx, hy, _, _⟩ := line_subs_layout fl castI stride h w e src dst ts s hs
  rw [hx, hy]
  exact ⟨ofFields_at h w nE G _ _ e 0 hr0 hr hc0 hc he (by omega),
         ofFields_at h w nE G _ _ e 1 hr0 hr hc0 hc he (by omega)⟩

variable {R : Type} [Field R] [LinearOrder R] [IsStrictOrderedRing R]

/-- `torch.round` stays within half a unit: a sampled point is read from a lattice cell at most
half a PAF stride away (per axis), unless clipped. -/
theorem round_half_even_near (fl : R → Int) (hfl : IsFloor fl) (x : R) :
    |x - ((roundHalfEven fl (fun i => (i : R)) x : Int) : R)| ≤ 1 / 2 :=
  roundHalfEven_near fl hfl x

/-! ## the line score -/

/-- the distance penalty lies in `[-weight, 0]` and vanishes up to `max_edge_length` -/
theorem penalty_range {maxLen len weight : R} (hm : 0 ≤ maxLen) (hl : 0 < len) (hw : 0 ≤ weight) :
    -weight ≤ penalty maxLen len weight ∧ penalty maxLen len weight ≤ 0 ∧
      (len ≤ maxLen → penalty maxLen len weight = 0) :=
  ⟨penalty_ge hm hl hw, penalty_nonpos hw, penalty_zero_of_le hl⟩

/-- **Score bounds**: if every sampled PAF vector has length ≤ `M`, the score lies in
`[-M - weight, M]`. -/
theorem score_bounds (T : Transc R) (F : Int → Int → Nat → R) (subs : List LineSub) (src dst : R × R)
    (maxLen weight M : R) (hne : subs ≠ []) (hsd : src ≠ dst) (hM : 0 ≤ M) (hm : 0 ≤ maxLen) (hw : 0 ≤ weight)
    (h : ∀ s ∈ subs, F s.row s.col s.chX * F s.row s.col s.chX + F s.row s.col s.chY * F s.row s.col s.chY ≤ M * M) :
    -M - weight ≤ lineScore T.sqrt (fun i => (i : R)) F subs src dst maxLen weight ∧
      lineScore T.sqrt (fun i => (i : R)) F subs src dst maxLen weight ≤ M := by
  have hu := unitVec_norm T hsd
  have hd : ∀ s ∈ subs, |pointDot F (unitVec T.sqrt src dst).1 (unitVec T.sqrt src dst).2 s| ≤ M :=
    fun s hs => dot_unit_abs_le hu hM (h s hs)
  have h1 := lineScore_ge T F subs src dst maxLen weight (-M) hne (fun s hs => (abs_le.mp (hd s hs)).1)
  have h2 := lineScore_le T F subs src dst maxLen weight M hne (fun s hs => (abs_le.mp (hd s hs)).2)
  have hp := penalty_range (weight := weight) hm (segLen_pos T hsd) hw
  constructor <;> linarith [hp.1, hp.2.1]

/-- if at every sampled cell the PAF projects at least `ω` on the candidate's direction, the score
is at least `ω + penalty` -/
theorem score_ge_of_cells (T : Transc R) (F : Int → Int → Nat → R) (subs : List LineSub) (src dst : R × R)
    (maxLen weight ω : R) (hne : subs ≠ [])
    (h : ∀ s ∈ subs, ω ≤ pointDot F (unitVec T.sqrt src dst).1 (unitVec T.sqrt src dst).2 s) :
    ω + penalty maxLen (segLen T.sqrt src dst) weight
      ≤ lineScore T.sqrt (fun i => (i : R)) F subs src dst maxLen weight :=
  lineScore_ge T F subs src dst maxLen weight ω hne h

/-- **True edge**: if every sampled cell carries `a·u` with `u = unit(dst − src)` and weight
`a ≥ ω`, the score is at least `ω + penalty` (`= ω` for edges up to `max_edge_length`); with a
constant weight `a = ω` it is exactly `ω + penalty`. -/
theorem score_true_edge_eq (T : Transc R) (F : Int → Int → Nat → R) (subs : List LineSub) (src dst : R × R)
    (maxLen weight ω : R) (hne : subs ≠ []) (hsd : src ≠ dst)
    (h : ∀ s ∈ subs, ∃ a, ω ≤ a ∧ F s.row s.col s.chX = a * (unitVec T.sqrt src dst).1 ∧
      F s.row s.col s.chY = a * (unitVec T.sqrt src dst).2) :
    ω + penalty maxLen (segLen T.sqrt src dst) weight
        ≤ lineScore T.sqrt (fun i => (i : R)) F subs src dst maxLen weight ∧
    ((∀ s ∈ subs, F s.row s.col s.chX = ω * (unitVec T.sqrt src dst).1 ∧
        F s.row s.col s.chY = ω * (unitVec T.sqrt src dst).2) →
      lineScore T.sqrt (fun i => (i : R)) F subs src dst maxLen weight
        = ω + penalty maxLen (segLen T.sqrt src dst) weight) := by
  have hu := unitVec_norm T hsd
  have key : ∀ (s : LineSub) (a : R), F s.row s.col s.chX = a * (unitVec T.sqrt src dst).1 →
      F s.row s.col s.chY = a * (unitVec T.sqrt src dst).2 →
      pointDot F (unitVec T.sqrt src dst).1 (unitVec T.sqrt src dst).2 s = a := by
    intro s a hx hy
    unfold pointDot
    rw [hx, hy]
    calc a * (unitVec T.sqrt src dst).1 * (unitVec T.sqrt src dst).1
          + a * (unitVec T.sqrt src dst).2 * (unitVec T.sqrt src dst).2
        = a * ((unitVec T.sqrt src dst).1 * (unitVec T.sqrt src dst).1
          + (unitVec T.sqrt src dst).2 * (unitVec T.sqrt src dst).2) := by ring
      _ = a := by rw [hu, mul_one]
  constructor
  · apply lineScore_ge T F subs src dst maxLen weight ω hne
    intro s hs
    obtain ⟨a, ha, hx, hy⟩ := h s hs
    rw [key s a hx hy]; exact ha
  · intro hall
    apply le_antisymm
    · apply lineScore_le T F subs src dst maxLen weight ω hne
      intro s hs
      rw [key s ω (hall s hs).1 (hall s hs).2]
    · apply lineScore_ge T F subs src dst maxLen weight ω hne
      intro s hs
      rw [key s ω (hall s hs).1 (hall s hs).2]

/-! ## the decode -/

/-- **Decode**: a peak whose image position `g·cms_stride` is within half a confidence-map cell of
the scaled keypoint `input_scale·eff_scale·x` is returned within half a cell *in original-image
units* (`cms_stride / 2 / (input_scale·eff_scale)`) of `x`; both coordinates. -/
theorem decode_within_half_cell (cms : Nat) (s e : R) (g kp : R × R) (hs : 0 < s) (he : 0 < e)
    (hx : |g.1 * (cms : R) - s * e * kp.1| ≤ (cms : R) / 2)
    (hy : |g.2 * (cms : R) - s * e * kp.2| ≤ (cms : R) / 2) :
    |(decode s e (peaksImg (fun i => (i : R)) cms g)).1 - kp.1| ≤ (cms : R) / 2 / (s * e) ∧
    |(decode s e (peaksImg (fun i => (i : R)) cms g)).2 - kp.2| ≤ (cms : R) / 2 / (s * e) := by
  simp only [decode, peaksImg, Int.cast_natCast]
  exact ⟨decode_coord_within hs he hx, decode_coord_within hs he hy⟩

/-! ## matching -/

/-- **Accepted matches = true edges** (one edge type): for an exchange-stable assignment on a
separated score table, a pair is matched *and* passes `min_line_scores` iff it is a true pair. -/
theorem accepted_eq_true {sc : Nat → Nat → R} {T : Nat → Nat → Prop} {nr nc : Nat} {minLine : R}
    {M : List (Nat × Nat)} (inR : ∀ p ∈ M, p.1 < nr ∧ p.2 < nc)
    (S : LsaStable sc nr nc M) (H : Separated sc T nr nc minLine) (i j : Nat) :
    ((i, j) ∈ M ∧ minLine ≤ sc i j) ↔ T i j :=
  accepted_iff_true inR S H i j

/-- The full statement — *thresholds and shared-peak dominance suffice* (H2 as one would first
write it) — is **false of the code**: `def` kept for the record, refuted by
`forced_assignment_counterexample`. -/
def AcceptedEqTrueWeak : Prop :=
  ∀ (sc : Nat → Nat → Rat) (T : Nat → Nat → Prop) (nr nc : Nat) (minLine : Rat) (M : List (Nat × Nat)),
    (∀ p ∈ M, p.1 < nr ∧ p.2 < nc) → LsaStable sc nr nc M →
    (∀ i j, T i j → i < nr ∧ j < nc) → (∀ i j j', T i j → T i j' → j = j') → (∀ i i' j, T i j → T i' j → i = i') →
    (∀ i j, T i j → minLine ≤ sc i j) →
    (∀ i j, i < nr → j < nc → (∀ j', ¬ T i j') → (∀ i', ¬ T i' j) → sc i j < minLine) →
    (∀ i j j', T i j → j' < nc → j' ≠ j → sc i j' < sc i j) →
    (∀ i i' j, T i j → i' < nr → i' ≠ i → sc i' j < sc i j) →
    ∀ i j, T i j → (i, j) ∈ M

/-- **Finding F-C03** (replayed on the implementation by `harness/c03.py`).  The score table of
the witness scene — rows: source peaks of animal A and of animal B (B's destination is invisible);
columns: destination peaks of animal C (C's source is invisible) and of animal A —
`[[0, 2/5], [-39/50, 0]]` with `min_line_scores = 1/4`.  A's own candidate (0,1) passes the
threshold and beats both candidates that share a peak with it, the orphan pair (1,0) is far below
the threshold; yet the optimal (and only stable) assignment is `[(0,0), (1,1)]`, because the full
assignment is forced to pay for the hopeless pair B→C otherwise (`0 + 0 > 2/5 − 39/50`).  Both
matches are then rejected by the filter: animal A is not returned at all. -/
theorem forced_assignment_counterexample : ¬ AcceptedEqTrueWeak := by
  intro h
  let sc : Nat → Nat → Rat := fun i j =>
    if i = 0 ∧ j = 1 then 2 / 5 else if i = 1 ∧ j = 0 then -39 / 50 else 0
  have key := h sc (fun i j => i = 0 ∧ j = 1) 2 2 (1 / 4) [(0, 0), (1, 1)]
    (by intro p hp
        simp only [List.mem_cons, List.not_mem_nil, or_false] at hp
        rcases hp with rfl | rfl <;> simp)
    (by
      refine ⟨?_, ?_, ?_, ?_, ?_, ?_⟩
      · intro p hp q hq h
        simp only [List.mem_cons, List.not_mem_nil, or_false] at hp hq
        rcases hp with rfl | rfl <;> rcases hq with rfl | rfl <;> simp_all
      · intro p hp q hq h
        simp only [List.mem_cons, List.not_mem_nil, or_false] at hp hq
        rcases hp with rfl | rfl <;> rcases hq with rfl | rfl <;> simp_all
      · intro i hi j _
        left
        have : i = 0 ∨ i = 1 := by omega
        rcases this with rfl | rfl
        · exact ⟨(0, 0), by simp, rfl⟩
        · exact ⟨(1, 1), by simp, rfl⟩
      · intro p hp q hq
        simp only [List.mem_cons, List.not_mem_nil, or_false] at hp hq
        rcases hp with rfl | rfl <;> rcases hq with rfl | rfl <;> norm_num [sc]
      · intro p hp j hj hfree
        exfalso
        have : j = 0 ∨ j = 1 := by omega
        rcases this with rfl | rfl
        · exact hfree (0, 0) (by simp) rfl
        · exact hfree (1, 1) (by simp) rfl
      · intro p hp i hi hfree
        exfalso
        have : i = 0 ∨ i = 1 := by omega
        rcases this with rfl | rfl
        · exact hfree (0, 0) (by simp) rfl
        · exact hfree (1, 1) (by simp) rfl)
    (by rintro i j ⟨rfl, rfl⟩; omega)
    (by rintro i j j' ⟨_, rfl⟩ ⟨_, rfl⟩; rfl)
    (by rintro i i' j ⟨rfl, _⟩ ⟨rfl, _⟩; rfl)
    (by rintro i j ⟨rfl, rfl⟩; norm_num [sc])
    (by
      intro i j hi hj hrow hcol
      have hi' : i = 1 := by
        have : i = 0 ∨ i = 1 := by omega
        rcases this with rfl | rfl
        · exact absurd ⟨rfl, rfl⟩ (hrow 1)
        · rfl
      have hj' : j = 0 := by
        have : j = 0 ∨ j = 1 := by omega
        rcases this with rfl | rfl
        · rfl
        · exact absurd ⟨rfl, rfl⟩ (hcol 0)
      subst hi' hj'
      norm_num [sc])
    (by
      rintro i j j' ⟨rfl, rfl⟩ hj' hne
      have : j' = 0 := by omega
      subst this
      norm_num [sc])
    (by
      rintro i i' j ⟨rfl, rfl⟩ hi' hne
      have : i' = 1 := by omega
      subst this
      norm_num [sc])
    0 1 ⟨rfl, rfl⟩
  simp at key

/-- **What the offered repair buys.**  When the cost matrix is built from `clampLow minLine sc` (all
rejected candidates share one score, `fixes/C03-match-ignores-rejected`), `Separated` follows from
thresholds alone — true candidates pass, **every** false one does not — with no exchange clause.
(On the generated scenes the hypothesis `hF` is *not* always met: dominated false candidates reach
0.6–0.7 > `min_line_scores`; for those the dominance clauses of `Separated` are still needed, with
or without the repair.  The theorem shows that the exchange clause — the one F-C03 violates — is an
artefact of rejected candidates steering the assignment.) -/
theorem fixed_separated_of_thresholds {sc : Nat → Nat → R} {T : Nat → Nat → Prop} {nr nc : Nat} {minLine : R}
    (inRange : ∀ i j, T i j → i < nr ∧ j < nc)
    (funRow : ∀ i j j', T i j → T i j' → j = j') (funCol : ∀ i i' j, T i j → T i' j → i = i')
    (hT : ∀ i j, T i j → minLine ≤ sc i j)
    (hF : ∀ i j, i < nr → j < nc → ¬ T i j → sc i j < minLine) :
    Separated (clampLow minLine sc) T nr nc minLine := by
  have ctrue : ∀ i j, T i j → clampLow minLine sc i j = sc i j := by
    intro i j h
    simp [clampLow, not_lt.mpr (hT i j h)]
  have cfalse : ∀ i j, i < nr → j < nc → ¬ T i j → clampLow minLine sc i j = minLine - 1 := by
    intro i j hi hj h
    simp [clampLow, hF i j hi hj h]
  have clow : ∀ i j, minLine - 1 ≤ clampLow minLine sc i j := by
    intro i j
    unfold clampLow
    split_ifs with h
    · exact le_refl _
    · linarith [not_lt.mp h]
  refine ⟨inRange, funRow, funCol, ?_, ?_, ?_, ?_, ?_⟩
  · intro i j h; rw [ctrue i j h]; exact hT i j h
  · intro i j hi hj hrow _
    rw [cfalse i j hi hj (hrow j)]; linarith
  · intro i j j' h hj' hne
    have hn : ¬ T i j' := fun h' => hne (funRow i j j' h h').symm
    rw [cfalse i j' (inRange i j h).1 hj' hn, ctrue i j h]
    linarith [hT i j h]
  · intro i i' j h hi' hne
    have hn : ¬ T i' j := fun h' => hne (funCol i i' j h h').symm
    rw [cfalse i' j hi' (inRange i j h).2 hn, ctrue i j h]
    linarith [hT i j h]
  · intro i j i' j' h hi' hj' hne1 hne2
    have hn1 : ¬ T i j' := fun h' => hne2 (funRow i j j' h h').symm
    have hn2 : ¬ T i' j := fun h' => hne1 (funCol i i' j h h').symm
    rw [cfalse i j' (inRange i j h).1 hj' hn1, cfalse i' j hi' (inRange i j h).2 hn2, ctrue i j h]
    linarith [hT i j h, clow i' j']

/-! ## the solver contract -/

/-- **One solver contract**: C08's `LsaSpecOn` (scipy's answer is a minimum-cost saturating matching)
on a cost matrix without NaN cells gives the local conditions `LsaStable` that `accepted_eq_true`
uses, for the scores `−cost`. -/
theorem solver_contract_implies_stable {lsa : Lsa R} {C : Mat (Option R)} {M : List (Nat × Nat)}
    (hv : ValidIn C) (S : LsaSpecOn lsa C) (h : lsa C = some M) :
    LsaStable (scoreOf C) (nRows C) (nCols C) M ∧ ∀ p ∈ M, p.1 < nRows C ∧ p.2 < nCols C :=
  lsaStable_of_spec hv S h

/-! ## grouping -/

/-- **The grouping stage** (`PAFScorer.predict` after scoring = `Grouping.groupSample`; `fixed = true`
is the matching of /repo HEAD, `false` the pinned one) on an arborescence in any listing, under the
solver contract and H2: it returns; the accepted connections are exactly the true visible edges;
exactly their endpoints are assigned; two peaks share an instance iff a chain of true visible edges
joins them.  (C17 → C08 `tree_conns` → `assign_classes_eq_components`; no assumption on the
processing order.) -/
theorem grouping_reassembly {fixed : Bool} {lsa : Lsa R} {P : Grouping.Params R} {r : Nat} {ch : List Nat}
    {scores : List (Mat (Option R))}
    (A : Arbo P.edges r) (ho : toposort P.edges = some P.order)
    (S : LsaOK fixed lsa P ch scores) (hmp : P.minPeaks = .int 0)
    (T : Nat → Nat → Nat → Prop)
    (H2 : ∀ k e, P.edges[k]? = some e → SepTable (edgeCost ch scores k e) (T k) P.minLine) :
    ∃ out, groupSample fixed lsa P ch scores = .ok out ∧
      (∀ p q, (p, q) ∈ pairs out.conns ↔
        ∃ k e i j, P.edges[k]? = some e ∧ T k i j ∧ p = (e.1, i) ∧ q = (e.2, j)) ∧
      (∀ p, (lookup out.assign p).isSome ↔ p ∈ endpoints (pairs out.conns)) ∧
      (∀ p q i j, lookup out.assign p = some i → lookup out.assign q = some j →
        (i = j ↔ Connected (pairs out.conns) p q)) :=
  BottomUp.grouping_reassembly A ho S hmp T H2

omit [IsStrictOrderedRing R] in
/-- how `forwardSample` is made of `toposort` and `groupSample` -/
theorem forward_of_group {fixed : Bool} {ok : R → Bool} {fl : R → Int} {castI : Int → R} {sqrt : R → R}
    {P : BottomUp.Params R} {paf : Paf R} {peaks : List (GPeak R)} {lsa : Lsa R} {order : List Nat}
    {out : Grouping.Output R} (ho : toposort P.edges = some order)
    (h : groupSample fixed lsa (groupParams P order) (peaks.map (·.ch))
      (scoreTables ok (peaks.map (·.ch)) P.edges (scoreCands fl castI sqrt P paf peaks)) = .ok out) :
    ∃ o, forwardSample fixed ok fl castI sqrt P paf peaks lsa = .ok o ∧ o.conns = out.conns ∧
      o.assign = out.assign ∧ o.rows = globalRows (peaks.map (·.ch)) out.insts ∧
      o.scores = out.insts.map (·.score) := by
  simp only [forwardSample, ho]
  rw [h]
  exact ⟨_, rfl, rfl, rfl, rfl, rfl⟩

omit [IsStrictOrderedRing R] in
theorem forward_inv {fixed : Bool} {ok : R → Bool} {fl : R → Int} {castI : Int → R} {sqrt : R → R}
    {P : BottomUp.Params R} {paf : Paf R} {peaks : List (GPeak R)} {lsa : Lsa R} {o : BottomUp.Output R}
    (h : forwardSample fixed ok fl castI sqrt P paf peaks lsa = .ok o) :
    ∃ order out, toposort P.edges = some order ∧
      groupSample fixed lsa (groupParams P order) (peaks.map (·.ch))
        (scoreTables ok (peaks.map (·.ch)) P.edges (scoreCands fl castI sqrt P paf peaks)) = .ok out ∧
      o.conns = out.conns ∧ o.assign = out.assign ∧
      o.rows = globalRows (peaks.map (·.ch)) out.insts := by
  unfold forwardSample at h
  split at h
  · cases h
  · rename_i order ho
    dsimp only at h
    split at h
    · cases h
    · rename_i out hg
      simp only [Except.ok.injEq] at h
      subst h
      exact ⟨order, out, ho, hg, rfl, rfl, rfl⟩

/-- **Composition**, about the model of `BottomUpInferenceModel.forward` for one sample
(`fixed = true`: /repo HEAD; `false`: the pinned matching — same statement).

The statement is about *peaks*: `T k i j` — the `i`-th peak of the source node type and the `j`-th
peak of the destination node type of edge `k` are the two visible ends of that edge in one labelled
animal; `kp g` — original-image position of the keypoint that the `g`-th detected peak stands for.
That every visible keypoint has exactly one peak and nothing else is detected (the harness' H1) is
what makes `T`/`kp` total descriptions of the labels; in Lean it is carried by `Separated`
(`T` functional both ways) and by H1 being asked of *every* detected peak.

Hypotheses: the skeleton is an arborescence with at least one edge, **in any listing**; scipy obeys
C08's solver contract **on the cost matrices of this run** (`LsaOK`); `min_instance_peaks = 0`;
**H2** per edge type on those matrices (`SepTable`: every candidate score is a finite number — `ok`
— and the scores are `Separated`); **H1** every detected peak lies within half a confidence-map cell
of its scaled keypoint.

Conclusion: `forward` returns; its accepted connections are exactly the true visible edges; a peak
`(node, index)` is part of an instance iff it is an end of a true visible edge (group of ≥ 2); two
peaks share an instance iff a chain of true visible edges joins them; the coordinates written for
any peak are within half a cell, in original-image units, of its keypoint.  What the *rows* of the
output contain is `rows_exact`. -/
theorem reassembly_exact {fixed : Bool} {ok : R → Bool} {fl : R → Int} {sqrt : R → R}
    {P : BottomUp.Params R} {paf : Paf R} {peaks : List (GPeak R)} {lsa : Lsa R} {r : Nat}
    (A : Arbo P.edges r) (hne : P.edges ≠ [])
    (S : ∀ order, toposort P.edges = some order → LsaOK fixed lsa (groupParams P order) (peaks.map (·.ch))
      (scoreTables ok (peaks.map (·.ch)) P.edges (scoreCands fl (fun i => (i : R)) sqrt P paf peaks)))
    (hmp : P.minPeaks = .int 0)
    (T : Nat → Nat → Nat → Prop)
    (H2 : ∀ k e, P.edges[k]? = some e →
      SepTable (edgeCost (peaks.map (·.ch))
        (scoreTables ok (peaks.map (·.ch)) P.edges (scoreCands fl (fun i => (i : R)) sqrt P paf peaks)) k e)
        (T k) P.minLine)
    (eff : R) (kp : Nat → R × R) (hs : 0 < P.inputScale) (he : 0 < eff)
    (H1 : ∀ g p, peaks[g]? = some p →
      |p.g.1 * (P.cmsStride : R) - P.inputScale * eff * (kp g).1| ≤ (P.cmsStride : R) / 2 ∧
      |p.g.2 * (P.cmsStride : R) - P.inputScale * eff * (kp g).2| ≤ (P.cmsStride : R) / 2) :
    ∃ o, forwardSample fixed ok fl (fun i => (i : R)) sqrt P paf peaks lsa = .ok o ∧
      (∀ p q, (p, q) ∈ pairs o.conns ↔
        ∃ k e i j, P.edges[k]? = some e ∧ T k i j ∧ p = (e.1, i) ∧ q = (e.2, j)) ∧
      (∀ p, (lookup o.assign p).isSome ↔
        ∃ k e i j, P.edges[k]? = some e ∧ T k i j ∧ (p = (e.1, i) ∨ p = (e.2, j))) ∧
      (∀ p q i j, lookup o.assign p = some i → lookup o.assign q = some j →
        (i = j ↔ Connected (pairs o.conns) p q)) ∧
      (∀ g p, peaks[g]? = some p →
        |(decode P.inputScale eff (peaksImg (fun i => (i : R)) P.cmsStride p.g)).1 - (kp g).1|
            ≤ (P.cmsStride : R) / 2 / (P.inputScale * eff) ∧
        |(decode P.inputScale eff (peaksImg (fun i => (i : R)) P.cmsStride p.g)).2 - (kp g).2|
            ≤ (P.cmsStride : R) / 2 / (P.inputScale * eff)) := by
  obtain ⟨order, ho, _⟩ := Deps.toposort_perm A hne
  have SO := S order ho
  have hfwd : ∀ out : Grouping.Output R,
      groupSample fixed lsa (groupParams P order) (peaks.map (·.ch))
        (scoreTables ok (peaks.map (·.ch)) P.edges (scoreCands fl (fun i => (i : R)) sqrt P paf peaks)) = .ok out →
      ∃ o, forwardSample fixed ok fl (fun i => (i : R)) sqrt P paf peaks lsa = .ok o ∧
        o.conns = out.conns ∧ o.assign = out.assign := fun out h => by
    obtain ⟨o, h0, h1, h2, _, _⟩ := forward_of_group ho h
    exact ⟨o, h0, h1, h2⟩
  generalize scoreTables ok (peaks.map (·.ch)) P.edges (scoreCands fl (fun i => (i : R)) sqrt P paf peaks)
    = tabs at H2 hfwd SO
  generalize peaks.map (·.ch) = ch at H2 hfwd SO
  obtain ⟨out, h, h1, h2, h3⟩ :=
    BottomUp.grouping_reassembly (P := groupParams P order) (r := r) A ho SO hmp T H2
  obtain ⟨o, ho1, hc, ha⟩ := hfwd out h
  rw [← hc] at h1 h3
  rw [← ha] at h2 h3
  refine ⟨o, ho1, h1, ?_, h3, fun g p hg =>
    decode_within_half_cell P.cmsStride P.inputScale eff p.g (kp g) hs he (H1 g p hg).1 (H1 g p hg).2⟩
  intro p
  rw [h2, ← hc, mem_endpoints]
  constructor
  · rintro ⟨c, hc', hp⟩
    obtain ⟨k, e, i, j, hke, hT, h1', h2'⟩ := (h1 c.1 c.2).mp (hc ▸ hc')
    exact ⟨k, e, i, j, hke, hT, by rw [← h1', ← h2']; exact hp⟩
  · rintro ⟨k, e, i, j, hke, hT, hp⟩
    exact ⟨((e.1, i), (e.2, j)), hc ▸ (h1 _ _).mpr ⟨k, e, i, j, hke, hT, rfl, rfl⟩, hp⟩

/-- **The output rows** (`pred_instance_peaks`, `pred_peak_values`) of any returning run on a tree
skeleton whose edges use node types `< n_nodes`, under the solver contract:
* there is exactly one row per instance id in use (`sortedIds`: the distinct ids, ascending);
* the row of instance `id` has `n_nodes` entries and holds at node `n` the detected peak `g` iff
  `g` is the global index of the peak `(n, k)` assigned to `id` — precisely the members of the
  instance, `none` (NaN) for every other node;
* the coordinate written for an entry is `decode (peak · cms_stride)` of **that** peak, within half a
  cell (original-image units) of its keypoint under H1, its value is that peak's confidence-map
  value, and empty entries are `none` (NaN) in both. -/
theorem rows_exact {fixed : Bool} {ok : R → Bool} {fl : R → Int} {sqrt : R → R}
    {P : BottomUp.Params R} {paf : Paf R} {peaks : List (GPeak R)} {lsa : Lsa R} {r : Nat}
    {o : BottomUp.Output R}
    (A : Arbo P.edges r)
    (S : ∀ order, toposort P.edges = some order → LsaOK fixed lsa (groupParams P order) (peaks.map (·.ch))
      (scoreTables ok (peaks.map (·.ch)) P.edges (scoreCands fl (fun i => (i : R)) sqrt P paf peaks)))
    (hnodes : ∀ e ∈ P.edges, e.1 < P.nNodes ∧ e.2 < P.nNodes)
    (h : forwardSample fixed ok fl (fun i => (i : R)) sqrt P paf peaks lsa = .ok o)
    (eff : R) (kp : Nat → R × R) (hs : 0 < P.inputScale) (he : 0 < eff)
    (H1 : ∀ g p, peaks[g]? = some p →
      |p.g.1 * (P.cmsStride : R) - P.inputScale * eff * (kp g).1| ≤ (P.cmsStride : R) / 2 ∧
      |p.g.2 * (P.cmsStride : R) - P.inputScale * eff * (kp g).2| ≤ (P.cmsStride : R) / 2) :
    o.rows.length = (sortedIds o.assign).length ∧ (sortedIds o.assign).Nodup ∧
    (∀ id, id ∈ sortedIds o.assign ↔ ∃ p, lookup o.assign p = some id) ∧
    (∀ (idx id : Nat), (sortedIds o.assign)[idx]? = some id →
      ∃ row : List (Option Nat), o.rows[idx]? = some row ∧ row.length = P.nNodes ∧
        ∀ (n g : Nat), row[n]? = some (some g) ↔
          ∃ k, lookup o.assign (n, k) = some id ∧ globalIdx (peaks.map (·.ch)) (n, k) = some g) ∧
    (∀ row ∈ o.rows, ∀ n : Nat,
      (row[n]? = some none →
        (rowCoords (fun i => (i : R)) P eff peaks row)[n]? = some none ∧ (rowVals peaks row)[n]? = some none) ∧
      (∀ (g : Nat) (p : GPeak R), row[n]? = some (some g) → peaks[g]? = some p →
        (rowCoords (fun i => (i : R)) P eff peaks row)[n]?
          = some (some (decode P.inputScale eff (peaksImg (fun i => (i : R)) P.cmsStride p.g))) ∧
        (rowVals peaks row)[n]? = some (some p.val) ∧
        |(decode P.inputScale eff (peaksImg (fun i => (i : R)) P.cmsStride p.g)).1 - (kp g).1|
            ≤ (P.cmsStride : R) / 2 / (P.inputScale * eff) ∧
        |(decode P.inputScale eff (peaksImg (fun i => (i : R)) P.cmsStride p.g)).2 - (kp g).2|
            ≤ (P.cmsStride : R) / 2 / (P.inputScale * eff))) := by
  obtain ⟨order, out, ho, hg, _, ha, hr⟩ := forward_inv h
  have SO := S order ho
  generalize scoreTables ok (peaks.map (·.ch)) P.edges (scoreCands fl (fun i => (i : R)) sqrt P paf peaks)
    = tabs at hg SO
  obtain ⟨r1, r2, r3, r4⟩ := BottomUp.rows_of_run (P := groupParams P order) (r := r) A ho SO hg hnodes
  have hrows : o.rows = (sortedIds o.assign).map fun id =>
      (rowOf o.assign P.nNodes id).mapIdx fun n x => x.bind fun k => globalIdx (peaks.map (·.ch)) (n, k) := by
    rw [hr, ha]
    unfold globalRows
    have : out.insts.map (fun i => i.row.mapIdx fun n x => x.bind fun k => globalIdx (peaks.map (·.ch)) (n, k))
        = (out.insts.map (·.row)).map (fun row => row.mapIdx fun n x => x.bind fun k => globalIdx (peaks.map (·.ch)) (n, k)) := by
      simp [List.map_map, Function.comp_def]
    rw [this, r1]
    simp [List.map_map, Function.comp_def, groupParams]
  rw [← ha] at r2 r3 r4
  refine ⟨by rw [hrows]; simp, r2, r3, ?_, ?_⟩
  · intro idx id hid
    refine ⟨(rowOf o.assign P.nNodes id).mapIdx fun n x => x.bind fun k => globalIdx (peaks.map (·.ch)) (n, k),
      by rw [hrows, List.getElem?_map, hid]; rfl, by simp [rowOf], ?_⟩
    intro n g
    rw [List.getElem?_mapIdx]
    constructor
    · intro hx
      cases hrow : (rowOf o.assign P.nNodes id)[n]? with
      | none => simp [hrow] at hx
      | some x =>
        cases x with
        | none => simp [hrow] at hx
        | some k =>
          simp only [hrow, Option.map_some, Option.bind_some, Option.some.injEq] at hx
          have : (rowOf o.assign (groupParams P order).nNodes id)[n]? = some (some k) := hrow
          exact ⟨k, (r4 id n k).mp this, hx⟩
    · rintro ⟨k, hl, hgi⟩
      have : (rowOf o.assign P.nNodes id)[n]? = some (some k) := (r4 id n k).mpr hl
      simp [this, hgi]
  · intro row _ n
    constructor
    · intro hn
      simp [rowCoords, rowVals, List.getElem?_map, hn]
    · intro g p hn hp
      refine ⟨by simp [rowCoords, List.getElem?_map, hn, hp], by simp [rowVals, List.getElem?_map, hn, hp], ?_⟩
      exact decode_within_half_cell P.cmsStride P.inputScale eff p.g (kp g) hs he (H1 g p hp).1 (H1 g p hp).2

/-- **A frame without any detected peak** (no visible keypoint: empty or fully occluded frame)
yields no instance — whatever the other frames of the batch contain (`forward` treats the samples
one by one), for every tree skeleton, every `min_instance_peaks`, any PAF tensor, both variants of
the matching. -/
theorem empty_frame_no_instances {fixed : Bool} {ok : R → Bool} {fl : R → Int} {sqrt : R → R}
    {P : BottomUp.Params R} {paf : Paf R}
    {lsa : Lsa R} {r : Nat} (A : Arbo P.edges r) (hne : P.edges ≠ [])
    (S : ∀ order, toposort P.edges = some order → LsaOK fixed lsa (groupParams P order) []
      (scoreTables ok [] P.edges (scoreCands fl (fun i => (i : R)) sqrt P paf []))) :
    ∃ o, forwardSample fixed ok fl (fun i => (i : R)) sqrt P paf [] lsa = .ok o ∧
      o.rows = [] ∧ o.scores = [] ∧ o.conns = [] ∧ o.assign = [] := by
  obtain ⟨order, ho, _⟩ := Deps.toposort_perm A hne
  obtain ⟨out, h, hc, ha, hi⟩ := BottomUp.grouping_empty (P := groupParams P order) (r := r)
    (scores := scoreTables ok [] P.edges (scoreCands fl (fun i => (i : R)) sqrt P paf [])) A ho (S order ho)
  obtain ⟨o, h0, h1, h2, h3, h4⟩ := forward_of_group (peaks := []) ho h
  refine ⟨o, h0, ?_, ?_, h1.trans hc, h2.trans ha⟩
  · rw [h3, hi]; rfl
  · rw [h4, hi]; rfl

/-- **Sibling of F-C03 on /repo HEAD (F-C03b)**: the repaired matching (`matchEdgeFixed`) gives a NaN
candidate (coincident source and destination peak of animal A) the finite cost `2·Σ|valid| + 1`.  In
the witness — cost matrix `[[NaN, 0.51], [0.68, −1]]`, i.e. the intact animal B has score 1 — the
filled matrix `[[5.38, 0.51], [0.68, −1]]` makes the anti-diagonal strictly cheaper than the
diagonal, so the optimum pairs B's ends with A's ends; both matches score below
`min_line_scores = 1/4` and are rejected: **B is lost** although its own candidate passes the
threshold.  (The F-C08 fix removed the raise, not this.) -/
theorem coincident_pair_counterexample :
    let C : Mat (Option Rat) := [[none, some (51 / 100)], [some (17 / 25), some (-1)]]
    fillInvalid C = [[some (269 / 50), some (51 / 100)], [some (17 / 25), some (-1)]] ∧
    cost (fillInvalid C) [(0, 1), (1, 0)] < cost (fillInvalid C) [(0, 0), (1, 1)] ∧
    (filterMinScore (1 / 4) (toMatches C [(0, 1), (1, 0)])).length = 0 ∧
    (entry C 1 1).map Neg.neg = some 1 := by
  decide +kernel

/-! ## max_instances -/

omit [Field R] [IsStrictOrderedRing R] in
/-- without `max_instances`, or with a limit not below the number of instances, every instance is
kept (only reordered by score) -/
theorem keepTop_all {α : Type} (l : List (α × R)) :
    keepTop none l = l ∧ ∀ k, l.length ≤ k → (keepTop (some k) l).Perm l := by
  refine ⟨rfl, fun k hk => ?_⟩
  simp only [keepTop]
  rw [List.take_of_length_le (by simpa using hk)]
  exact List.mergeSort_perm _ _

/-! ## non-vacuity -/

/-- a separated 2×2 table with its stable assignment (two animals, both ends visible) -/
example : LsaStable (fun i j : Nat => if i = j then (1 : Rat) else 0) 2 2 [(0, 0), (1, 1)] ∧
    Separated (fun i j : Nat => if i = j then (1 : Rat) else 0) (fun i j => i = j ∧ i < 2) 2 2 (1 / 4) := by
  constructor
  · refine ⟨?_, ?_, ?_, ?_, ?_, ?_⟩
    · intro p hp q hq h
      simp only [List.mem_cons, List.not_mem_nil, or_false] at hp hq
      rcases hp with rfl | rfl <;> rcases hq with rfl | rfl <;> simp_all
    · intro p hp q hq h
      simp only [List.mem_cons, List.not_mem_nil, or_false] at hp hq
      rcases hp with rfl | rfl <;> rcases hq with rfl | rfl <;> simp_all
    · intro i hi j _
      left
      have : i = 0 ∨ i = 1 := by omega
      rcases this with rfl | rfl
      · exact ⟨(0, 0), by simp, rfl⟩
      · exact ⟨(1, 1), by simp, rfl⟩
    · intro p hp q hq
      simp only [List.mem_cons, List.not_mem_nil, or_false] at hp hq
      rcases hp with rfl | rfl <;> rcases hq with rfl | rfl <;> norm_num
    · intro p hp j hj hfree
      exfalso
      have : j = 0 ∨ j = 1 := by omega
      rcases this with rfl | rfl
      · exact hfree (0, 0) (by simp) rfl
      · exact hfree (1, 1) (by simp) rfl
    · intro p hp i hi hfree
      exfalso
      have : i = 0 ∨ i = 1 := by omega
      rcases this with rfl | rfl
      · exact hfree (0, 0) (by simp) rfl
      · exact hfree (1, 1) (by simp) rfl
  · refine ⟨?_, ?_, ?_, ?_, ?_, ?_, ?_, ?_⟩
    · rintro i j ⟨rfl, h⟩; exact ⟨h, h⟩
    · rintro i j j' ⟨rfl, _⟩ ⟨rfl, _⟩; rfl
    · rintro i i' j ⟨rfl, _⟩ ⟨rfl, _⟩; rfl
    · rintro i j ⟨rfl, _⟩; norm_num
    · intro i j hi _ hrow _
      exact absurd ⟨rfl, hi⟩ (hrow i)
    · rintro i j j' ⟨rfl, _⟩ _ hne
      simp [Ne.symm hne]
    · rintro i i' j ⟨rfl, _⟩ _ hne
      simp [hne]
    · rintro i j i' j' ⟨rfl, _⟩ _ _ h1 h2
      have e1 : (if i = j' then (1 : Rat) else 0) = 0 := by simp [Ne.symm h2]
      have e2 : (if i' = i then (1 : Rat) else 0) = 0 := by simp [h1]
      simp only [e1, e2, if_true]
      split_ifs <;> norm_num

/-- H2 is satisfiable: the cost matrix of two animals with both ends visible (true scores 1, false
scores 0) is a `SepTable` for `min_line_scores = 1/4` -/
example : SepTable ([[some (-1), some 0], [some 0, some (-1)]] : Mat (Option Rat))
    (fun i j => i = j ∧ i < 2) (1 / 4) := by
  have hsc : ∀ i j, scoreOf ([[some (-1), some 0], [some 0, some (-1)]] : Mat (Option Rat)) i j
      = if i = j ∧ i < 2 then 1 else 0 := by
    intro i j
    match i, j with
    | 0, 0 => simp [scoreOf, entry]
    | 0, 1 => simp [scoreOf, entry]
    | 1, 0 => simp [scoreOf, entry]
    | 1, 1 => simp [scoreOf, entry]
    | 0, (j + 2) => simp [scoreOf, entry]
    | 1, (j + 2) => simp [scoreOf, entry]
    | (i + 2), j => simp [scoreOf, entry]
  refine ⟨?_, ?_⟩
  · intro i hi j hj
    have hi' : i < 2 := hi
    have hj' : j < 2 := hj
    match i, j, hi', hj' with
    | 0, 0, _, _ => simp [entry]
    | 0, 1, _, _ => simp [entry]
    | 1, 0, _, _ => simp [entry]
    | 1, 1, _, _ => simp [entry]
  have hr : nRows ([[some (-1), some 0], [some 0, some (-1)]] : Mat (Option Rat)) = 2 := rfl
  have hc : nCols ([[some (-1), some 0], [some 0, some (-1)]] : Mat (Option Rat)) = 2 := rfl
  rw [hr, hc]
  refine ⟨?_, ?_, ?_, ?_, ?_, ?_, ?_, ?_⟩
  · rintro i j ⟨rfl, h⟩; exact ⟨h, h⟩
  · rintro i j j' ⟨rfl, _⟩ ⟨rfl, _⟩; rfl
  · rintro i i' j ⟨rfl, _⟩ ⟨rfl, _⟩; rfl
  · rintro i j ⟨rfl, h⟩; rw [hsc]; simp only [h, and_self, if_true]; norm_num
  · intro i j hi _ hrow _
    exact absurd ⟨rfl, hi⟩ (hrow i)
  · rintro i j j' ⟨rfl, h⟩ _ hne
    rw [hsc, hsc]; simp [h, Ne.symm hne]
  · rintro i i' j ⟨rfl, h⟩ _ hne
    rw [hsc, hsc]; simp [h, hne]
  · rintro i j i' j' ⟨rfl, h⟩ _ _ h1 h2
    rw [hsc, hsc, hsc, hsc]
    have e1 : (if i = j' ∧ i < 2 then (1 : Rat) else 0) = 0 := by
      rw [if_neg]; exact fun hh => h2 hh.1.symm
    have e2 : (if i' = i ∧ i' < 2 then (1 : Rat) else 0) = 0 := by
      rw [if_neg]; exact fun hh => h1 hh.1
    have e3 : (if i = i ∧ i < 2 then (1 : Rat) else 0) = 1 := by
      rw [if_pos]; exact ⟨rfl, h⟩
    rw [e1, e2, e3]
    split_ifs <;> norm_num

/-! ### one concrete end-to-end run (exact arithmetic)

Two horizontal 2-node animals (skeleton `0 → 1`), strides (1, 1), a 9×8 PAF tensor built by the
writer (`Paf.ofFields`: weight 1, direction +x, on rows 2 and 6, columns 1…5), peaks at the four
keypoints, `input_scale = 1/2`.  Line scores `[[9/16, −5/16], [−5/16, 9/16]]` (5 samples per line,
the end point of a true line falls off the band, the penalty `4/… − 1` applies to the diagonals),
scipy = the identity on the 2×2 matrix.  The run returns the two animals. -/

def e2eG : Nat → Nat → Nat → Nat → Rat := fun e comp row col =>
  if e = 0 ∧ comp = 0 ∧ (row = 2 ∨ row = 6) ∧ 1 ≤ col ∧ col ≤ 5 then 1 else 0
def e2ePaf : Paf Rat := Paf.ofFields 9 8 1 e2eG
/-- `sqrt` on the three squared lengths that occur -/
def e2eSqrt (x : Rat) : Rat := if x = 16 then 4 else if x = 32 then 28 / 5 else if x = 0 then 0 else 1
def e2eP : BottomUp.Params Rat :=
  { nNodes := 2, edges := [(0, 1)], cmsStride := 1, pafStride := 1, ts := linspace (fun i => (i : Rat)) 5,
    maxLenRatio := 1 / 4, distWeight := 1, minLine := 1 / 4, minPeaks := .int 0, inputScale := 1 / 2 }
def e2ePeaks : List (GPeak Rat) := [⟨(1, 2), 1, 0⟩, ⟨(5, 2), 1, 1⟩, ⟨(1, 6), 1, 0⟩, ⟨(5, 6), 1, 1⟩]
def e2eLsa : Lsa Rat := fun C => if nRows C = 2 then some [(0, 0), (1, 1)] else some []

/-- instance map, rows (global peak indices), instance scores, and the decoded first row -/
def e2eRun : Option (Assign × List (List (Option Nat)) × List Rat × List (Option (Rat × Rat))) :=
  match forwardSample true (fun _ => true) Rat.floor (fun i => (i : Rat)) e2eSqrt e2eP e2ePaf e2ePeaks e2eLsa with
  | .ok o => some (o.assign, o.rows, o.scores,
      rowCoords (fun i => (i : Rat)) e2eP 1 e2ePeaks (o.rows.headD []))
  | .error _ => none

example : e2eRun.map (·.1) = some [((0, 0), 0), ((1, 0), 0), ((0, 1), 1), ((1, 1), 1)] := by decide +kernel
example : e2eRun.map (·.2.1) = some [[some 0, some 1], [some 2, some 3]] := by decide +kernel
example : e2eRun.map (·.2.2.1) = some [9 / 16, 9 / 16] := by decide +kernel
example : e2eRun.map (·.2.2.2) = some [some (2, 4), some (10, 4)] := by decide +kernel

example : scoreTables (fun _ => true) (e2ePeaks.map (·.ch)) e2eP.edges
    (scoreCands Rat.floor (fun i => (i : Rat)) e2eSqrt e2eP e2ePaf e2ePeaks)
    = [[[some (9 / 16), some (-5 / 16)], [some (-5 / 16), some (9 / 16)]]] := by
  decide +kernel

/-- rounding: ties go to the even cell (`6/4 = 1.5 ↦ 2`, `10/4 = 2.5 ↦ 2`), as `torch.round` -/
example : roundHalfEven Rat.floor (fun i => (i : Rat)) (3 / 2) = 2 ∧
    roundHalfEven Rat.floor (fun i => (i : Rat)) (5 / 2) = 2 ∧
    roundHalfEven Rat.floor (fun i => (i : Rat)) (-1 / 2) = 0 := by decide +kernel

end SleapVerif.C03
