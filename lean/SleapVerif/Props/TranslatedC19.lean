import SleapVerif.Model.TrainTrace
import SleapVerif.Gen.TranslatedC19
import Mathlib.Tactic.Ring
import Mathlib.Algebra.Order.Field.Rat

/-!
# C19, second tie — `ModelTrainer`'s directory decisions *as translated from the Python source*

`Gen/TranslatedC19.lean` is regenerated from `sleap_nn/training/model_trainer.py` on every run of
`bin/check C19` (harness/py2lean_ext.py):

* `finally_deletes` — which directories the `finally` block of `train()` removes, as a function of
  `self.data_pipeline_fw` and `delete_chunks_after_training` (the translator also checks that the
  class deletes nothing anywhere else);
* `low_memory_fallback` — the memory check of `_create_data_loaders_torch_dataset`: when it switches
  the trainer to the chunk framework and where the chunks then go.

`Model/TrainTrace.lean` states these as the `.delete` events of `finallyPhase` / `finallyPhaseLM` and as
the case split of `traceLM`.  Below they are identified (`gen_finally_deletes_eq_model`,
`gen_low_memory_fallback_eq_model`), and directly: nothing is ever deleted unless
`delete_chunks_after_training` is set, and configuration files / checkpoints are never among the
deleted paths (`gen_deletes_only_chunks`).
-/

set_option linter.unusedTactic false
set_option linter.unreachableTactic false
set_option linter.unnecessarySeqFocus false

namespace SleapVerif.TranslatedC19
open SleapVerif.TrainTrace SleapVerif.Gen.TranslatedC19

/-- `data_pipeline_fw` of the model's two frameworks -/
def fwName : Framework → String
  | .torchDataset => "torch_dataset"
  | .npChunks => "torch_dataset_np_chunks"

/-- the path class an attribute of the trainer denotes; `cwd` = after the low-memory fallback, which
re-points the two attributes to `./train_chunks`, `./val_chunks` -/
def pathOf (cwd : Bool) : String → Option Path
  | "train_np_chunks_path" => some (if cwd then .cwdTrainChunks else .trainChunks)
  | "val_np_chunks_path" => some (if cwd then .cwdValChunks else .valChunks)
  | _ => none

def deletesOf : List Event → List Path
  | [] => []
  | .delete p :: r => p :: deletesOf r
  | _ :: r => deletesOf r

theorem deletesOf_append (a b : List Event) : deletesOf (a ++ b) = deletesOf a ++ deletesOf b := by
  induction a with
  | nil => rfl
  | cons e r ih => cases e <;> simp [deletesOf, ih]

/-- **the `.delete` events of the model's `finally` phase are the translated deletions**, for every
version, every flag combination (when the phase does not raise before) -/
theorem gen_finally_deletes_eq_model (v : Version) (f : Flags) (h : runIdRaises v f = false) :
    deletesOf (finallyPhase v f) = (finally_deletes (fwName f.fw) f.deleteChunks).filterMap (pathOf false) := by
  unfold finallyPhase
  simp only [h, Bool.false_eq_true, if_false, deletesOf_append, deletesOf]
  cases hf : f.fw <;> cases hd : f.deleteChunks <;> simp [finally_deletes, fwName, pathOf, deletesOf] <;> decide

/-- **the memory check is the model's low-memory case split**: it is only made when the in-memory
framework was requested; when it fires the trainer continues as the chunk framework with the chunks in
the working directory, and the `finally` phase then deletes exactly the model's `finallyPhaseLM` paths;
it fires iff 1.1 × the estimated cache exceeds the available memory -/
theorem gen_low_memory_fallback_eq_model (v : Version) (f : Flags) (tr va av : Rat)
    (h : runIdRaises v f = false) :
    low_memory_fallback (fwName .npChunks) tr va av = none ∧
    (low_memory_fallback (fwName .torchDataset) tr va av =
      if (tr + va) + (mkRat 1 10) * (tr + va) > av
      then some (fwName .npChunks, "./train_chunks", "./val_chunks") else none) ∧
    deletesOf (finallyPhaseLM v f) =
      (finally_deletes (fwName .npChunks) f.deleteChunks).filterMap (pathOf true) := by
  refine ⟨by simp [low_memory_fallback, fwName], ?_, ?_⟩
  · have e : ∀ x : Rat, (x > av) = ((tr + va) + (mkRat 1 10) * (tr + va) > av) →
        (if decide (x > av) = true then some ("torch_dataset_np_chunks", "./train_chunks", "./val_chunks") else none) =
        (if (tr + va) + (mkRat 1 10) * (tr + va) > av
          then some ("torch_dataset_np_chunks", "./train_chunks", "./val_chunks") else (none : Option (String × String × String))) := by
      intro x hx; simp only [decide_eq_true_eq, hx]
    simp only [low_memory_fallback, fwName, if_true, beq_self_eq_true]
    apply e
    congr 1 <;> ring
  · unfold finallyPhaseLM
    simp only [h, Bool.false_eq_true, if_false, deletesOf_append, deletesOf]
    cases hd : f.deleteChunks <;> simp [finally_deletes, fwName, pathOf, deletesOf] <;> decide

/-- directly about the generated definition: without `delete_chunks_after_training` nothing is deleted;
whatever is deleted is a chunk directory attribute — never the checkpoint directory or a config file -/
theorem gen_deletes_only_chunks (fw : String) (del : Bool) :
    (del = false → finally_deletes fw del = []) ∧
    ∀ a ∈ finally_deletes fw del,
      a ∈ ["train_np_chunks_path", "val_np_chunks_path", "train_litdata_chunks_path", "val_litdata_chunks_path"] := by
  constructor
  · intro h; subst h; simp [finally_deletes]
  · intro a ha
    simp only [finally_deletes, List.mem_append] at ha
    rcases ha with ha | ha <;> split at ha <;> simp_all <;> (rcases ha with ha | ha <;> simp [ha])

end SleapVerif.TranslatedC19
