import SleapVerif.Lemmas.GroupingLexOpt
/-!
# C08 — peak grouping always terminates with a partition of the detected peaks

Statements are about `SleapVerif.Grouping.groupSample`, the model of one sample of
`PAFScorer.predict` (`get_connection_candidates` → `match_candidates_sample` →
`group_instances_sample` → `assign_connections_to_instances` → `make_predicted_instances`), tied
to the code by `harness/c08.py`.

Standing hypotheses of the pipeline theorems
* `A : Arbo P.edges r`, `ho : toposort P.edges = some P.order` — the skeleton is a tree and the
  edge types are processed in the order C17's `toposort_edges` model returns (any listing);
* `S : LsaOK fixed lsa P ch scores` — scipy's `linear_sum_assignment` obeys its documented
  contract (`LsaSpecOn`: a minimum-cost matching saturating the smaller side and avoiding `inf`
  entries; raises iff there is none) on the matrices of this run.  `LsaSpec lsa` (the contract on
  every matrix) implies it (`LsaSpec.ok`).  The harness checks the contract by brute force on every
  recorded scipy call.

`fixed = false` is the pinned code, `fixed = true` the code after `fixes/C08-infeasible.patch`.
Everything except totality holds for both; totality holds for the repaired code
(`grouping_total`), for the pinned code only when every cost matrix is feasible
(`grouping_total_partial`), and fails otherwise (`grouping_infeasible_counterexample`, F-C08).
All theorems except `matches_optimal` need no law of `R` at all (any carrier with the operations).
-/

set_option linter.unusedSectionVars false

namespace SleapVerif.C08
open SleapVerif.Grouping SleapVerif.Toposort

variable {R : Type}

/-- `get_connection_candidates` lists exactly all (src peak, dst peak) pairs of every edge type
    (`s`, `d` index the detected peaks, `ch` holds their node types). -/
theorem candidates_complete {ch : List Nat} {edges : List Edge} {k s d : Nat} :
    (k, s, d) ∈ candidates ch edges ↔
      ∃ e, edges[k]? = some e ∧ ch[s]? = some e.1 ∧ ch[d]? = some e.2 := mem_candidates

/-! ## the assignment loop on any destination-fresh connection list -/

/-- When a connection is processed its destination peak is never assigned yet: only cases 1 and 2
    of `assign_connections_to_instances` fire; the un-handled "src unassigned, dst assigned" case
    and case 3 (with its odd non-merging branch) are unreachable. -/
theorem assign_only_cases_1_2 {cs pre post : List (Peak × Peak)} {c : Peak × Peak}
    (h : DstFresh cs) (hs : cs = pre ++ c :: post) :
    lookup (assignRaw pre) c.2 = none ∧
    (caseOf (assignRaw pre) c.1 c.2 = .c1 ∨ caseOf (assignRaw pre) c.1 c.2 = .c2) ∧
    assignRaw (pre ++ [c]) = astep (assignRaw pre) c.1 c.2 := by
  subst hs
  have I := finv_assignRaw h.prefix
  have hd := (finv_step I h.fresh.1 h.fresh.2).1
  refine ⟨hd, ?_, by simp [assignRaw_append]⟩
  unfold caseOf
  cases lookup (assignRaw pre) c.1 <;> simp [hd]

/-- **The instance map's classes are the connected components of the accepted matches**
    (before the `min_instance_peaks` filter): exactly the endpoints of accepted connections are
    assigned, and two peaks get the same instance id iff a chain of accepted connections joins them. -/
theorem assign_classes_eq_components {cs : List (Peak × Peak)} (h : DstFresh cs) :
    (∀ p, (lookup (assignRaw cs) p).isSome ↔ p ∈ endpoints cs) ∧
    (∀ p q i j, lookup (assignRaw cs) p = some i → lookup (assignRaw cs) q = some j →
      (i = j ↔ Connected cs p q)) := by
  have I := finv_assignRaw h
  exact ⟨fun p => ⟨I.keys p, I.cover p⟩, I.cls⟩

/-! ## the pipeline on a tree skeleton -/

section pipeline
variable [Add R] [Neg R] [LT R] [DecidableLT R] [LE R] [DecidableLE R] [OfNat R 0] [OfNat R 1]
variable {fixed : Bool} {lsa : Lsa R} {P : Params R} {r : Nat} {ch : List Nat}
  {scores : List (Mat (Option R))} {out : Output R}

/-- The connection list the assignment loop sees has tree shape (`TreeConns`): the node type of
    every destination peak is new, or was a destination only on the same edge type with another
    source and another destination peak.  In particular it is `DstFresh`. -/
theorem tree_conns (A : Arbo P.edges r) (ho : toposort P.edges = some P.order)
    (S : LsaOK fixed lsa P ch scores) (h : groupSample fixed lsa P ch scores = .ok out) :
    TreeConns (pairs out.conns) ∧ DstFresh (pairs out.conns) :=
  ⟨treeConns_out A ho S h, (treeConns_out A ho S h).dstFresh⟩

/-- Per edge type the matches are one-to-one, index existing rows/columns of the cost matrix,
    use only candidates with a valid score, and carry that candidate's score. -/
theorem matches_one_to_one (S : LsaOK fixed lsa P ch scores)
    (h : groupSample fixed lsa P ch scores = .ok out) {k : Nat} {e : Edge}
    (he : P.edges[k]? = some e) : GoodMatches (edgeCost ch scores k e) (out.mts.getD k []) :=
  mts_good S (groupSample_ok h).1 he

/-- The accepted connections are exactly the matches with `score ≥ min_line_scores`
    (matches scoring below the minimum are not used, all others are). -/
theorem min_score_filtered (A : Arbo P.edges r) (ho : toposort P.edges = some P.order)
    (S : LsaOK fixed lsa P ch scores) (h : groupSample fixed lsa P ch scores = .ok out) (c : Conn R) :
    c ∈ out.conns ↔ ∃ k e m, P.edges[k]? = some e ∧ m ∈ out.mts.getD k [] ∧
      m.score = some c.score ∧ P.minLine ≤ c.score ∧ c.src = (e.1, m.row) ∧ c.dst = (e.2, m.col) := by
  constructor
  · intro hc
    obtain ⟨k, e, m, _, he, hm, hs, hle, h1, h2, _, _⟩ := conn_facts S h hc
    exact ⟨k, e, m, he, hm, hs, hle, h1, h2⟩
  · rintro ⟨k, e, m, he, hm, hs, hle, h1, h2⟩
    obtain ⟨_, hcs, _, _⟩ := groupSample_ok h
    have hk := mem_order_of_edge A ho he
    have hm' : m ∈ (out.mts.map (filterMinScore P.minLine)).getD k [] := by
      rw [getD_filtered]; exact mem_filterMinScore.mpr ⟨hm, c.score, hs, hle⟩
    have := connections_mem (edges := P.edges) hk he hm' hs
    rw [hcs]
    have hc : c = ⟨(e.1, m.row), (e.2, m.col), c.score⟩ := by
      cases c; simp only at h1 h2; simp [h1, h2]
    rw [hc]; exact this

/-- the state of the assignment loop before the `min_instance_peaks` filter -/
def rawAssign (out : Output R) : Assign := assignRaw (pairs out.conns)

theorem assign_eq_filterSmall (h : groupSample fixed lsa P ch scores = .ok out) :
    out.assign = filterSmall (rawAssign out) (minPeaksThreshold P.minPeaks P.nNodes) :=
  (groupSample_ok h).2.2.1

/-- Instances with fewer peaks than the configured minimum are dropped whole, all others are
    kept whole: whether a peak survives depends only on its instance. -/
theorem small_instances_dropped_whole (A : Arbo P.edges r) (ho : toposort P.edges = some P.order)
    (S : LsaOK fixed lsa P ch scores) (h : groupSample fixed lsa P ch scores = .ok out)
    {p : Peak} {i : Nat} (hp : lookup (rawAssign out) p = some i) :
    (Kept (rawAssign out) (minPeaksThreshold P.minPeaks P.nNodes) i → lookup out.assign p = some i) ∧
    (¬ Kept (rawAssign out) (minPeaksThreshold P.minPeaks P.nNodes) i → lookup out.assign p = none) := by
  have I := finv_assignRaw (tree_conns A ho S h).2
  rw [assign_eq_filterSmall h]
  refine ⟨fun hk => (lookup_filterSmall I.nodupKeys _ p i).mpr ⟨hp, hk⟩, ?_⟩
  intro hk
  cases hl : lookup (filterSmall (rawAssign out) (minPeaksThreshold P.minPeaks P.nNodes)) p with
  | none => rfl
  | some j =>
    obtain ⟨h1, h2⟩ := (lookup_filterSmall I.nodupKeys _ p j).mp hl
    have : some i = some j := hp.symm.trans h1
    cases this; exact absurd h2 hk

/-- **The final instances are connected components of the accepted matches**: two peaks of the
    final instance map share an instance iff accepted connections join them. -/
theorem final_classes_eq_components (A : Arbo P.edges r) (ho : toposort P.edges = some P.order)
    (S : LsaOK fixed lsa P ch scores) (h : groupSample fixed lsa P ch scores = .ok out)
    {p q : Peak} {i j : Nat} (hp : lookup out.assign p = some i) (hq : lookup out.assign q = some j) :
    i = j ↔ Connected (pairs out.conns) p q := by
  have I := finv_assignRaw (tree_conns A ho S h).2
  rw [assign_eq_filterSmall h] at hp hq
  exact I.cls p q i j (lookup_filterSmall_sub I.nodupKeys hp) (lookup_filterSmall_sub I.nodupKeys hq)

/-- **At most one peak per node type in an instance** (so no row entry of
    `make_predicted_instances` is ever overwritten). -/
theorem instance_one_peak_per_node (A : Arbo P.edges r) (ho : toposort P.edges = some P.order)
    (S : LsaOK fixed lsa P ch scores) (h : groupSample fixed lsa P ch scores = .ok out)
    {n k k' i : Nat} (h1 : lookup out.assign (n, k) = some i) (h2 : lookup out.assign (n, k') = some i) :
    k = k' := by
  have hc := (final_classes_eq_components A ho S h h1 h2).mp rfl
  have := (tree_conns A ho S h).1.onePer _ _ hc rfl
  exact (Prod.mk.inj this).2

/-- **No peak appears in two instances**: the final instance map has one entry per peak, and a
    peak written into the rows of two instance ids forces the ids to be equal. -/
theorem peaks_disjoint (A : Arbo P.edges r) (ho : toposort P.edges = some P.order)
    (S : LsaOK fixed lsa P ch scores) (h : groupSample fixed lsa P ch scores = .ok out) :
    (out.assign.map (·.1)).Nodup ∧
    ∀ (id id' n k : Nat), (rowOf out.assign P.nNodes id)[n]? = some (some k) →
      (rowOf out.assign P.nNodes id')[n]? = some (some k) → id = id' := by
  have I := finv_assignRaw (tree_conns A ho S h).2
  have hn : (out.assign.map (·.1)).Nodup := by
    rw [assign_eq_filterSmall h]; exact keys_nodup_filterSmall I.nodupKeys _
  refine ⟨hn, ?_⟩
  intro id id' n k h1 h2
  have e1 := lookup_of_mem hn (mem_of_rowOf h1)
  have e2 := lookup_of_mem hn (mem_of_rowOf h2)
  rw [e1] at e2; exact Option.some.inj e2

/-- **Every predicted keypoint is an input peak of that node type**: an assigned `(node, index)`
    resolves to a detected peak `g` whose channel is `node`, and every row entry of the output is
    such an assigned peak of that instance (the harness checks that coordinates and score written
    are those of peak `g`). -/
theorem instance_peaks_are_inputs (A : Arbo P.edges r) (ho : toposort P.edges = some P.order)
    (S : LsaOK fixed lsa P ch scores) (h : groupSample fixed lsa P ch scores = .ok out) :
    (∀ (n k i : Nat), lookup out.assign (n, k) = some i →
      ∃ g, globalIdx ch (n, k) = some g ∧ ch[g]? = some n) ∧
    (∀ (id n k : Nat), (rowOf out.assign P.nNodes id)[n]? = some (some k) →
      lookup out.assign (n, k) = some id) := by
  have I := finv_assignRaw (tree_conns A ho S h).2
  have hn := (peaks_disjoint A ho S h).1
  refine ⟨?_, fun id n k hr => lookup_of_mem hn (mem_of_rowOf hr)⟩
  intro n k i hl
  rw [assign_eq_filterSmall h] at hl
  have hraw := lookup_filterSmall_sub I.nodupKeys hl
  have hend := I.keys (n, k) (by
    show (lookup (assignRaw (pairs out.conns)) (n, k)).isSome = true
    rw [hraw]; rfl)
  obtain ⟨c, hc, hor⟩ := mem_endpoints.mp hend
  obtain ⟨c', hc', rfl⟩ := List.mem_map.mp hc
  obtain ⟨_, e, m, _, _, _, _, _, h1, h2, r1, r2⟩ := conn_facts S h hc'
  rcases hor with hh | hh
  · have : (n, k) = (e.1, m.row) := by rw [hh]; exact h1
    obtain ⟨rfl, rfl⟩ := Prod.mk.inj this
    exact globalIdx_of_lt r1
  · have : (n, k) = (e.2, m.col) := by rw [hh]; exact h2
    obtain ⟨rfl, rfl⟩ := Prod.mk.inj this
    exact globalIdx_of_lt r2

/-- **An assigned peak appears in its instance row** (the converse of the second part of
    `instance_peaks_are_inputs`): nothing is lost by an overwrite, so the connected components are
    the output rows, not only the classes of the dict.  `hN`: the skeleton's node indices are
    `< n_nodes` (they are positions in `part_names`). -/
theorem assigned_peak_in_row (A : Arbo P.edges r) (ho : toposort P.edges = some P.order)
    (S : LsaOK fixed lsa P ch scores) (h : groupSample fixed lsa P ch scores = .ok out)
    (hN : ∀ e ∈ P.edges, e.1 < P.nNodes ∧ e.2 < P.nNodes)
    {n k id : Nat} (hl : lookup out.assign (n, k) = some id) :
    (rowOf out.assign P.nNodes id)[n]? = some (some k) := by
  have I := finv_assignRaw (tree_conns A ho S h).2
  have hnd := (peaks_disjoint A ho S h).1
  -- n is a node of the skeleton
  have hn : n < P.nNodes := by
    have hl' := hl
    rw [assign_eq_filterSmall h] at hl'
    have hraw := lookup_filterSmall_sub I.nodupKeys hl'
    have hend := I.keys (n, k) (by
      show (lookup (assignRaw (pairs out.conns)) (n, k)).isSome = true
      rw [hraw]; rfl)
    obtain ⟨c, hc, hor⟩ := mem_endpoints.mp hend
    obtain ⟨c', hc', rfl⟩ := List.mem_map.mp hc
    obtain ⟨k', e, m, _, he, _, _, _, h1, h2, _, _⟩ := conn_facts S h hc'
    obtain ⟨hk', hek⟩ := List.getElem?_eq_some_iff.mp he
    have heE : e ∈ P.edges := hek ▸ List.getElem_mem hk'
    rcases hor with hh | hh
    · have : (n, k) = (e.1, m.row) := by rw [hh]; exact h1
      rw [(Prod.mk.inj this).1]; exact (hN e heE).1
    · have : (n, k) = (e.2, m.col) := by rw [hh]; exact h2
      rw [(Prod.mk.inj this).1]; exact (hN e heE).2
  unfold rowOf
  rw [List.getElem?_map, List.getElem?_range hn]
  simp only [Option.map_some, Option.some.injEq]
  have hmem : ((n, k), id) ∈ out.assign.filter (fun kv => kv.2 == id && kv.1.1 == n) :=
    List.mem_filter.mpr ⟨lookup_some_mem hl, by simp⟩
  cases hL : (out.assign.filter (fun kv => kv.2 == id && kv.1.1 == n)).getLast? with
  | none =>
    rw [List.getLast?_eq_none_iff.mp hL] at hmem
    simp at hmem
  | some kv =>
    have hkv := List.mem_of_getLast? hL
    obtain ⟨hka, hp⟩ := List.mem_filter.mp hkv
    simp only [Bool.and_eq_true, beq_iff_eq] at hp
    have hlk : lookup out.assign (n, kv.1.2) = some id := by
      apply lookup_of_mem hnd
      have : kv = ((n, kv.1.2), id) := by
        rcases kv with ⟨⟨x, y⟩, z⟩
        simp only at hp
        rw [hp.1, hp.2]
      rw [← this]; exact hka
    have := instance_one_peak_per_node A ho S h hl hlk
    simp only [Option.map_some, Option.some.injEq]
    exact this.symm

/-- For parameters built as the code sees them (`mkParams`: a float `min_instance_peaks` goes through
    `int(q * n_nodes)` **in float64**), the filter applied is the code's rule `minPeaksThresholdF64`. -/
theorem min_peaks_code_rule {nNodes : Nat} {edges : List Edge} {order : List Nat} {minLine : R}
    {mp : MinPeaks} (h : groupSample fixed lsa (mkParams nNodes edges order minLine mp) ch scores = .ok out) :
    out.assign = filterSmall (rawAssign out) (minPeaksThresholdF64 mp nNodes) := by
  rw [assign_eq_filterSmall h]
  exact filterSmall_eff _ mp nNodes

end pipeline

/-! ## `make_predicted_instances` on any destination-fresh connection list -/

section make
variable [Add R] [OfNat R 0]

/-- The sanity `assert` (and the dict lookup before it) never fails: whenever the source of an
    accepted connection survived the filter, its destination survived in the same instance. -/
theorem assert_never_fires {cs : List (Conn R)} (h : DstFresh (pairs cs)) (mp : MinPeaks) (nNodes : Nat) :
    (∀ c ∈ cs, ∀ i, lookup (assignConnections (pairs cs) mp nNodes) c.src = some i →
      lookup (assignConnections (pairs cs) mp nNodes) c.dst = some i) ∧
    checkConns cs (assignConnections (pairs cs) mp nNodes) = none := by
  have I := finv_assignRaw h
  have key : ∀ c ∈ cs, ∀ i, lookup (assignConnections (pairs cs) mp nNodes) c.src = some i →
      lookup (assignConnections (pairs cs) mp nNodes) c.dst = some i := by
    intro c hc i hs
    unfold assignConnections at hs ⊢
    obtain ⟨hraw, hk⟩ := (lookup_filterSmall I.nodupKeys _ _ _).mp hs
    have hmem : (c.src, c.dst) ∈ pairs cs := List.mem_map.mpr ⟨c, hc, rfl⟩
    have hdst : (lookup (assignRaw (pairs cs)) c.dst).isSome :=
      I.cover _ (mem_endpoints.mpr ⟨_, hmem, Or.inr rfl⟩)
    cases hd : lookup (assignRaw (pairs cs)) c.dst with
    | none => simp [hd] at hdst
    | some j =>
      have : i = j := (I.cls _ _ i j hraw hd).mpr (.edge hmem)
      subst this
      exact (lookup_filterSmall I.nodupKeys _ _ _).mpr ⟨hd, hk⟩
  exact ⟨key, checkConns_none key⟩

/-- **Instance score = sum of the accepted edge scores of that instance** (the connections with
    both endpoints in it), accumulated in processing order; and the output lists one instance per
    surviving id, in ascending id order. -/
theorem instance_score_sum {cs : List (Conn R)} (h : DstFresh (pairs cs)) (mp : MinPeaks) (nNodes : Nat) :
    let a := assignConnections (pairs cs) mp nNodes
    (∀ id, instScore cs a id =
      (cs.filter fun c => lookup a c.src == some id && lookup a c.dst == some id).foldl
        (fun acc c => acc + c.score) 0) ∧
    makeInstances cs a nNodes = .ok ((sortedIds a).map fun id => ⟨rowOf a nNodes id, instScore cs a id⟩) := by
  intro a
  obtain ⟨key, hchk⟩ := assert_never_fires h mp nNodes
  refine ⟨?_, by simp [makeInstances, a, hchk]⟩
  intro id
  unfold instScore
  congr 1
  apply List.filter_congr
  intro c hc
  by_cases hs : lookup a c.src = some id
  · have hd : lookup a c.dst = some id := key c hc id hs
    simp [hs, hd]
  · simp [hs]

end make

section run
variable [Add R] [Neg R] [LT R] [DecidableLT R] [LE R] [DecidableLE R] [OfNat R 0] [OfNat R 1]
variable {fixed : Bool} {lsa : Lsa R} {P : Params R} {r : Nat} {ch : List Nat}
  {scores : List (Mat (Option R))} {out : Output R}

/-- **The output of a run**: one instance per surviving id (ascending), its row is `rowOf`, and its
    score is the sum of the scores of the accepted connections with both endpoints in it. -/
theorem run_instances (A : Arbo P.edges r) (ho : toposort P.edges = some P.order)
    (S : LsaOK fixed lsa P ch scores) (h : groupSample fixed lsa P ch scores = .ok out) :
    out.insts = (sortedIds out.assign).map
      (fun id => ⟨rowOf out.assign P.nNodes id, instScore out.conns out.assign id⟩) ∧
    ∀ id, instScore out.conns out.assign id =
      (out.conns.filter fun c => lookup out.assign c.src == some id && lookup out.assign c.dst == some id).foldl
        (fun acc c => acc + c.score) 0 := by
  obtain ⟨_, _, ha, hi⟩ := groupSample_ok h
  have T := (tree_conns A ho S h).2
  have hsum := instance_score_sum T P.minPeaks P.nNodes
  simp only at hsum
  rw [← ha] at hsum
  refine ⟨?_, hsum.1⟩
  have := hsum.2
  rw [hi] at this
  exact Except.ok.inj this

end run

/-- **Grouping is a function of its arguments** (no state survives a call): in any history of
    calls — the same matches grouped again with other `min_line_scores` / `min_instance_peaks`, a second
    `predict` — the answer of call `i` is the answer of that call alone.  (Trivial of the model; it
    is the statement the harness holds the code to: inputs bit-identical after every call, every call
    of a history compared with the model run on that call only.) -/
theorem grouping_call_independent [Add R] [Neg R] [LT R] [DecidableLT R] [LE R] [DecidableLE R]
    [OfNat R 0] [OfNat R 1] (fixed : Bool) (lsa : Lsa R)
    (calls : List (Params R × List Nat × List (Mat (Option R)))) (i : Nat) :
    (calls.map fun c => groupSample fixed lsa c.1 c.2.1 c.2.2)[i]?
      = (calls[i]?).map fun c => groupSample fixed lsa c.1 c.2.1 c.2.2 := by
  simp [List.getElem?_map]

/-! ## optimality of the per-edge matches (from the solver contract) -/

section optimal
variable {K : Type} [Field K] [LinearOrder K] [IsStrictOrderedRing K]

/-- total line score of an assignment `M` when `C` holds the negated scores -/
def totalScore (C : Mat (Option K)) (M : List (Nat × Nat)) : K :=
  sumL (M.map fun m => -((entry C m.1 m.2).getD 0))

theorem foldl_neg (l : List K) : ∀ a : K,
    List.foldl (· + ·) (-a) (l.map fun x => -x) = -(List.foldl (· + ·) a l) := by
  induction l with
  | nil => intro a; rfl
  | cons x l ih =>
    intro a
    simp only [List.map_cons, List.foldl_cons]
    rw [← neg_add, ih]

theorem totalScore_eq_neg_cost (C : Mat (Option K)) (M : List (Nat × Nat)) :
    totalScore C M = -(cost C M) := by
  unfold totalScore cost sumL
  have := foldl_neg (M.map fun m => (entry C m.1 m.2).getD 0) 0
  rw [neg_zero] at this
  rw [← this, List.map_map]
  rfl

/-- **Per edge type the chosen matches maximise the total line score** among one-to-one
    assignments (saturating the smaller side and using only candidates with a valid score — "optimal"
    as scipy defines it).  `C` is the cost matrix (negated scores, NaN ↦ `none`), the matches carry
    `score = -cost`.  Stated for the pinned code; for the repaired code see
    `matches_fixed_eq_asIs_when_valid`. -/
theorem matches_optimal {lsa : Lsa K} {C : Mat (Option K)} (S : LsaSpecOn lsa C)
    {ms : List (Match K)} (h : matchEdgeAsIs lsa C = some ms) :
    IsMatching C (rc ms) ∧
    (∀ m ∈ ms, m.score = some (-((entry C m.row m.col).getD 0))) ∧
    ∀ M', IsMatching C M' → totalScore C M' ≤ totalScore C (rc ms) := by
  unfold matchEdgeAsIs at h
  cases hl : lsa C with
  | none => simp [hl] at h
  | some M =>
    simp [hl] at h; subst h
    obtain ⟨IM, hopt⟩ := S.sound M hl
    rw [rc_toMatches]
    refine ⟨IM, ?_, ?_⟩
    · intro m hm
      obtain ⟨x, hx, rfl⟩ := List.mem_map.mp hm
      have := IM.finite x hx
      cases he : entry C x.1 x.2 with
      | none => simp [he] at this
      | some v => simp
    · intro M' IM'
      rw [totalScore_eq_neg_cost, totalScore_eq_neg_cost]
      exact neg_le_neg (hopt M' IM')

/-- When every candidate of the edge has a valid score the repaired code hands scipy the same
    matrix and returns the same matches as the pinned code — hence the same optimum. -/
theorem matches_fixed_eq_asIs_when_valid {lsa : Lsa K} {C : Mat (Option K)} (hv : AllValid C)
    (S : LsaSpecOn lsa C) : matchEdgeFixed lsa C = matchEdgeAsIs lsa C :=
  matchEdgeFixed_eq_asIs_of_allValid hv S

/-- **The repaired code is never worse than the pinned one**: if the edge's cost matrix admits a
    saturating assignment avoiding the NaN candidates (i.e. the pinned code would not have raised),
    the repaired code returns such an assignment of maximum total score — although scipy now sees a
    different matrix (invalid cells filled with `2·Σ|valid| + 1`). -/
theorem matches_fixed_optimal_when_feasible {lsa : Lsa K} (ch : List Nat) (scores : List (Mat (Option K)))
    (k : Nat) (e : Edge) (S : LsaSpecOn lsa (fillInvalid (edgeCost ch scores k e)))
    (hfeas : ∃ M0, IsMatching (edgeCost ch scores k e) M0) :
    ∃ ms, matchEdgeFixed lsa (edgeCost ch scores k e) = some ms ∧
      IsMatching (edgeCost ch scores k e) (rc ms) ∧
      ∀ M', IsMatching (edgeCost ch scores k e) M' →
        totalScore (edgeCost ch scores k e) M' ≤ totalScore (edgeCost ch scores k e) (rc ms) := by
  unfold edgeCost costMatrix at S hfeas ⊢
  obtain ⟨ms, h1, h2, h3⟩ := matchEdgeFixed_optimal_of_feasible _ _ _ S hfeas
  refine ⟨ms, h1, h2, fun M' IM' => ?_⟩
  rw [totalScore_eq_neg_cost, totalScore_eq_neg_cost]
  exact neg_le_neg (h3 M' IM')

/-- **The precise reading of "the chosen matches maximise the total line score among one-to-one
    assignments", for the repaired code and every NaN pattern**: the kept matches are a one-to-one
    assignment on valid candidates with the *maximum number of pairs* among all such assignments
    (any size, saturating or not) and, among those with that many pairs, the *maximum total score*.
    (When a saturating valid assignment exists this is `matches_fixed_optimal_when_feasible`.)
    From `LsaSpecOn` on the filled matrix, the pigeonhole extension of any assignment to a saturating
    one (`extend_assign`), and the dominating sentinel. -/
theorem matches_fixed_lex_optimal {lsa : Lsa K} (ch : List Nat) (scores : List (Mat (Option K)))
    (k : Nat) (e : Edge) (S : LsaSpecOn lsa (fillInvalid (edgeCost ch scores k e))) :
    ∃ ms, matchEdgeFixed lsa (edgeCost ch scores k e) = some ms ∧
      ValidAssign (edgeCost ch scores k e) (rc ms) ∧
      ∀ M', ValidAssign (edgeCost ch scores k e) M' →
        M'.length ≤ (rc ms).length ∧
        (M'.length = (rc ms).length →
          totalScore (edgeCost ch scores k e) M' ≤ totalScore (edgeCost ch scores k e) (rc ms)) := by
  unfold edgeCost costMatrix at S ⊢
  obtain ⟨ms, h1, h2, h3⟩ := matchEdgeFixed_lexOptimal _ _ _ S
  refine ⟨ms, h1, h2, fun M' VM' => ⟨(h3 M' VM').1, fun heq => ?_⟩⟩
  rw [totalScore_eq_neg_cost, totalScore_eq_neg_cost]
  exact neg_le_neg ((h3 M' VM').2 heq)

/-- **Optimality of the matches of a run** (repaired code): for every edge type of the skeleton the
    matches in `out.mts` are lexicographically optimal in the sense of `matches_fixed_lex_optimal`. -/
theorem run_matches_lex_optimal {lsa : Lsa K} {P : Params K} {ch : List Nat}
    {scores : List (Mat (Option K))} {out : Output K}
    (S : LsaOK true lsa P ch scores) (h : groupSample true lsa P ch scores = .ok out)
    {k : Nat} {e : Edge} (he : P.edges[k]? = some e) :
    ValidAssign (edgeCost ch scores k e) (rc (out.mts.getD k [])) ∧
    ∀ M', ValidAssign (edgeCost ch scores k e) M' →
      M'.length ≤ (rc (out.mts.getD k [])).length ∧
      (M'.length = (rc (out.mts.getD k [])).length →
        totalScore (edgeCost ch scores k e) M' ≤
          totalScore (edgeCost ch scores k e) (rc (out.mts.getD k []))) := by
  have hS := S k e he
  unfold lsaInput at hS
  simp only [if_true] at hS
  obtain ⟨ms, h1, h2, h3⟩ := matches_fixed_lex_optimal ch scores k e hS
  have hg := matchAll_get (groupSample_ok h).1 he
  unfold matchEdge at hg
  simp only [if_true] at hg
  rw [h1] at hg
  cases hg
  exact ⟨h2, h3⟩

/-- … and of the pinned code (where it does not raise): saturating, valid, maximum total score. -/
theorem run_matches_optimal {lsa : Lsa K} {P : Params K} {ch : List Nat}
    {scores : List (Mat (Option K))} {out : Output K}
    (S : LsaOK false lsa P ch scores) (h : groupSample false lsa P ch scores = .ok out)
    {k : Nat} {e : Edge} (he : P.edges[k]? = some e) :
    IsMatching (edgeCost ch scores k e) (rc (out.mts.getD k [])) ∧
    ∀ M', IsMatching (edgeCost ch scores k e) M' →
      totalScore (edgeCost ch scores k e) M' ≤
        totalScore (edgeCost ch scores k e) (rc (out.mts.getD k [])) := by
  have hS := S k e he
  unfold lsaInput at hS
  simp only [Bool.false_eq_true, if_false] at hS
  have hg := matchAll_get (groupSample_ok h).1 he
  unfold matchEdge at hg
  simp only [Bool.false_eq_true, if_false] at hg
  obtain ⟨h1, _, h3⟩ := matches_optimal hS hg
  exact ⟨h1, h3⟩

end optimal

/-- The clause is **false** when read as "maximum total score among one-to-one assignments of any
    size": a single candidate with score `-1` (cost `1`; carrier `Int` so that `decide` evaluates it) is matched by every solver within the
    contract, although matching nothing has the larger total (`0`).  Cardinality comes first;
    the `min_line_scores` filter, not the matching, removes bad pairs. -/
theorem matches_any_size_counterexample (lsa : Lsa Int) (S : LsaSpecOn lsa [[some 1]]) :
    ∃ ms, matchEdgeAsIs lsa [[some (1 : Int)]] = some ms ∧ rc ms = [(0, 0)] ∧
      cost (R := Int) [[some 1]] [] < cost (R := Int) [[some 1]] (rc ms) := by
  have IM0 : IsMatching (R := Int) [[some 1]] [(0, 0)] :=
    ⟨⟨by simp, by simp⟩, by simp [nRows, nCols], by simp [nRows, nCols], by simp [entry]⟩
  obtain ⟨ms, hms⟩ := matchEdgeAsIs_total S ⟨_, IM0⟩
  refine ⟨ms, hms, ?_⟩
  unfold matchEdgeAsIs at hms
  cases hl : lsa [[some 1]] with
  | none => simp [hl] at hms
  | some M =>
    simp [hl] at hms; subst hms
    rw [rc_toMatches]
    have IM := (S.sound M hl).1
    have hlen : M.length = 1 := by simpa [nRows, nCols] using IM.saturating
    match M, hlen with
    | [m], _ =>
      have hr := IM.inRange m (by simp)
      simp [nRows, nCols] at hr
      have : m = (0, 0) := Prod.ext hr.1 hr.2
      subst this
      exact ⟨rfl, by decide⟩

/-! ## totality -/

section total
variable [Add R] [Neg R] [LT R] [DecidableLT R] [LE R] [DecidableLE R] [OfNat R 0] [OfNat R 1]
variable {lsa : Lsa R} {P : Params R} {r : Nat} {ch : List Nat} {scores : List (Mat (Option R))}

theorem total_of_matchAll {fixed : Bool} (A : Arbo P.edges r) (ho : toposort P.edges = some P.order)
    (S : LsaOK fixed lsa P ch scores) {ms : List (List (Match R))}
    (hm : matchAll fixed lsa P ch scores = some ms) :
    ∃ out, groupSample fixed lsa P ch scores = .ok out := by
  have T := treeConns_of_matchAll A ho S hm
  have hmk := (instance_score_sum T.dstFresh P.minPeaks P.nNodes).2
  unfold groupSample
  simp only [hm]
  rw [hmk]
  exact ⟨_, rfl⟩

/-- **The repaired grouping never raises**: for every tree skeleton in any listing, any peaks, any
    scores (NaN included) and any parameters, `groupSample` returns instances. -/
theorem grouping_total (A : Arbo P.edges r) (ho : toposort P.edges = some P.order)
    (S : LsaOK true lsa P ch scores) : ∃ out, groupSample true lsa P ch scores = .ok out := by
  have : ∃ ms, matchAll true lsa P ch scores = some ms := by
    unfold matchAll
    apply mapMOpt_total
    intro x hx
    have hx' := List.mem_zipIdx_iff_getElem?.mp hx
    have hS := S x.2 x.1 (by simpa using hx')
    unfold lsaInput edgeCost costMatrix at hS
    simp only [if_true] at hS
    unfold matchEdge costMatrix
    simp only [if_true]
    exact matchEdgeFixed_total _ _ _ hS
  obtain ⟨ms, hm⟩ := this
  exact total_of_matchAll A ho S hm

/-- … and so does a whole batch (`group_instances_batch` / `PAFScorer.predict`), empty frames included. -/
theorem grouping_total_batch (A : Arbo P.edges r) (ho : toposort P.edges = some P.order)
    (samples : List (List Nat × List (Mat (Option R))))
    (S : ∀ s ∈ samples, LsaOK true lsa P s.1 s.2) :
    ∃ outs, groupBatch true lsa P samples = .ok outs ∧ outs.length = samples.length :=
  groupBatch_total samples fun s hs => grouping_total A ho (S s hs)

/-- The pinned grouping does not raise **provided** every per-edge cost matrix admits a saturating
    assignment that avoids NaN scores. -/
theorem grouping_total_partial (A : Arbo P.edges r) (ho : toposort P.edges = some P.order)
    (S : LsaOK false lsa P ch scores)
    (hfeas : ∀ k e, P.edges[k]? = some e → ∃ M, IsMatching (edgeCost ch scores k e) M) :
    ∃ out, groupSample false lsa P ch scores = .ok out := by
  have : ∃ ms, matchAll false lsa P ch scores = some ms := by
    unfold matchAll
    apply mapMOpt_total
    intro x hx
    have hx' := List.mem_zipIdx_iff_getElem?.mp hx
    have he : P.edges[x.2]? = some x.1 := by simpa using hx'
    have hS := S x.2 x.1 he
    unfold lsaInput at hS
    simp only [Bool.false_eq_true, if_false] at hS
    unfold matchEdge
    simp only [Bool.false_eq_true, if_false]
    exact matchEdgeAsIs_total hS (hfeas x.2 x.1 he)
  obtain ⟨ms, hm⟩ := this
  exact total_of_matchAll A ho S hm

end total

/-- the F-C08 witness: nodes a, b, one edge a→b, one peak each, on the same point (NaN score) -/
def witnessP : Params Rat := ⟨2, [(0, 1)], [0], 1/4, .int 0⟩

/-- **Full totality is false of the pinned code**: whatever the solver does within its contract,
    the witness raises `cost matrix is infeasible`. -/
theorem grouping_infeasible_counterexample (lsa : Lsa Rat) (S : LsaSpec lsa) :
    groupSample false lsa witnessP [0, 1] [[[none]]] = .error .infeasible := by
  have hC : costMatrix (R := Rat) [0, 1] (0, 1) [[none]] = [[none]] := by decide
  have hinf : ¬ ∃ M, IsMatching (R := Rat) [[none]] M := by
    rintro ⟨M, IM⟩
    have hlen : M.length = 1 := by simpa [nRows, nCols] using IM.saturating
    match M, hlen with
    | [m], _ =>
      have hr := IM.inRange m (by simp)
      have hf := IM.finite m (by simp)
      simp [nRows, nCols] at hr
      obtain ⟨h1, h2⟩ := hr
      rw [h1, h2] at hf
      simp [entry] at hf
  have hnone : matchAll false lsa witnessP [0, 1] [[[none]]] = none := by
    unfold matchAll
    apply mapMOpt_none
    refine ⟨((0, 1), 0), by simp [witnessP], ?_⟩
    show matchEdge false lsa (costMatrix [0, 1] (0, 1) ([[[none]]].getD 0 [])) = none
    simp only [List.getD_cons_zero, hC]
    unfold matchEdge
    simp only [Bool.false_eq_true, if_false]
    exact matchEdgeAsIs_raises (S _) hinf
  unfold groupSample
  simp [hnone]

/-! ## non-vacuity: a concrete run meets every hypothesis -/

/-- skeleton a→b, one peak each, line score 1, a solver that answers `[(0,0)]` -/
def exP : Params Rat := ⟨2, [(0, 1)], [0], 0, .int 0⟩
def exLsa : Lsa Rat := fun _ => some [(0, 0)]

example : Arbo exP.edges 0 :=
  { nodup := by decide
    noRootIn := by decide
    uniqueParent := by decide
    reach := by intro e he; simp [exP] at he; subst he; exact Reach.root }

example : toposort exP.edges = some exP.order := by decide

theorem exLsaOK (fixed : Bool) : LsaOK fixed exLsa exP [0, 1] [[[some 1]]] := by
  intro k e he
  have hk : k = 0 ∧ e = (0, 1) := by
    cases k with
    | zero => simp [exP] at he; exact ⟨rfl, he.symm⟩
    | succ k => simp [exP] at he
  obtain ⟨rfl, rfl⟩ := hk
  have hC : lsaInput fixed (edgeCost (R := Rat) [0, 1] [[[some 1]]] 0 (0, 1)) = [[some (-1)]] := by
    cases fixed <;> decide
  rw [hC]
  have IM : IsMatching (R := Rat) [[some (-1)]] [(0, 0)] :=
    ⟨⟨by simp, by simp⟩, by simp [nRows, nCols], by simp [nRows, nCols], by simp [entry]⟩
  refine ⟨?_, by simp [exLsa]⟩
  intro M hM
  simp [exLsa] at hM; subst hM
  refine ⟨IM, ?_⟩
  intro M' IM'
  have hlen : M'.length = 1 := by simpa [nRows, nCols] using IM'.saturating
  match M', hlen with
  | [m], _ =>
    have hr := IM'.inRange m (by simp)
    simp [nRows, nCols] at hr
    have : m = (0, 0) := Prod.ext hr.1 hr.2
    subst this
    exact Rat.le_refl

/-- final instance map and instance rows of the example run -/
def exRun (fixed : Bool) : Option (Assign × List (List (Option Nat))) :=
  match groupSample fixed exLsa exP [0, 1] [[[some 1]]] with
  | .ok out => some (out.assign, out.insts.map (·.row))
  | .error _ => none

example : exRun true = some ([((0, 0), 0), ((1, 0), 0)], [[some 0, some 0]]) := by decide
example : exRun false = some ([((0, 0), 0), ((1, 0), 0)], [[some 0, some 0]]) := by decide

/-! ### a richer witness (carrier `Int`, so that `decide` evaluates every number)

Skeleton `0 → 1 → 2` listed out of order (`[(1,2),(0,1)]`, processed in the order `[1,0]`), two peaks
of node 0, two of node 1, one of node 2.  Edge `0→1` has a NaN candidate (`none`), so the repaired
code fills the cell with the sentinel `2·(5+1+4)+1 = 21`; edge `1→2` is a 2×1 matrix.  Both case 1 and
case 2 fire, and `min_instance_peaks = 3` drops the two-peak instance whole. -/

def ex2P : Params Int := mkParams 3 [(1, 2), (0, 1)] [1, 0] 0 (.int 3)
def ex2ch : List Nat := [0, 0, 1, 1, 2]
def ex2scores : List (Mat (Option Int)) := [[[some 3], [some 2]], [[some 5, none], [some 1, some 4]]]
def ex2F1 : Mat (Option Int) := [[some (-5), some 21], [some (-1), some (-4)]]
def ex2F0 : Mat (Option Int) := [[some (-3)], [some (-2)]]
def ex2Lsa : Lsa Int := fun C => if C = ex2F1 then some [(0, 0), (1, 1)] else some [(0, 0)]

example : Arbo ex2P.edges 0 :=
  { nodup := by decide
    noRootIn := by decide
    uniqueParent := by decide
    reach := by
      intro e he
      have r0 : Reach [(1, 2), (0, 1)] 0 0 := Reach.root
      have r1 : Reach [(1, 2), (0, 1)] 0 1 := Reach.step r0 (by simp)
      simp [ex2P, mkParams] at he
      rcases he with rfl | rfl <;> assumption }

example : toposort ex2P.edges = some ex2P.order := by decide

theorem ex2_specF1 : LsaSpecOn ex2Lsa ex2F1 := by
  refine ⟨?_, by simp [ex2Lsa]⟩
  intro M hM
  simp [ex2Lsa] at hM; subst hM
  refine ⟨⟨⟨by simp, by simp⟩, by simp [nRows, nCols, ex2F1], by simp [nRows, nCols, ex2F1],
    by simp [entry, ex2F1]⟩, ?_⟩
  intro M' IM'
  have hlen : M'.length = 2 := by simpa [nRows, nCols, ex2F1] using IM'.saturating
  match M', hlen with
  | [a, b], _ =>
    have ha := IM'.inRange a (by simp)
    have hb := IM'.inRange b (by simp)
    have hr := IM'.oneToOne.1
    have hc := IM'.oneToOne.2
    obtain ⟨a1, a2⟩ := a
    obtain ⟨b1, b2⟩ := b
    simp [nRows, nCols, ex2F1] at ha hb hr hc
    have h1 : a1 = 0 ∨ a1 = 1 := by omega
    have h2 : a2 = 0 ∨ a2 = 1 := by omega
    have h3 : b1 = 0 ∨ b1 = 1 := by omega
    have h4 : b2 = 0 ∨ b2 = 1 := by omega
    rcases h1 with rfl | rfl <;> rcases h2 with rfl | rfl <;> rcases h3 with rfl | rfl <;>
      rcases h4 with rfl | rfl <;> first | (exfalso; omega) | decide

theorem ex2_specF0 : LsaSpecOn ex2Lsa ex2F0 := by
  have hne : ex2F0 ≠ ex2F1 := by decide
  refine ⟨?_, by simp [ex2Lsa, hne]⟩
  intro M hM
  simp [ex2Lsa, hne] at hM; subst hM
  refine ⟨⟨⟨by simp, by simp⟩, by simp [nRows, nCols, ex2F0], by simp [nRows, nCols, ex2F0],
    by simp [entry, ex2F0]⟩, ?_⟩
  intro M' IM'
  have hlen : M'.length = 1 := by simpa [nRows, nCols, ex2F0] using IM'.saturating
  match M', hlen with
  | [a], _ =>
    have ha := IM'.inRange a (by simp)
    obtain ⟨a1, a2⟩ := a
    simp [nRows, nCols, ex2F0] at ha
    have h1 : a1 = 0 ∨ a1 = 1 := by omega
    have h2 : a2 = 0 := by omega
    subst h2
    rcases h1 with rfl | rfl <;> decide

theorem ex2LsaOK : LsaOK true ex2Lsa ex2P ex2ch ex2scores := by
  intro k e he
  match k, he with
  | 0, he =>
    have : e = (1, 2) := by simp [ex2P, mkParams] at he; exact he.symm
    subst this
    have hC : lsaInput true (edgeCost ex2ch ex2scores 0 (1, 2)) = ex2F0 := by decide
    rw [hC]; exact ex2_specF0
  | 1, he =>
    have : e = (0, 1) := by simp [ex2P, mkParams] at he; exact he.symm
    subst this
    have hC : lsaInput true (edgeCost ex2ch ex2scores 1 (0, 1)) = ex2F1 := by decide
    rw [hC]; exact ex2_specF1
  | k + 2, he => simp [ex2P, mkParams] at he

/-- the run on the richer witness: connections, cases taken, final instance map, rows and scores -/
def ex2Run : Option (List (Peak × Peak) × List Case × Assign × List (List (Option Nat) × Int)) :=
  match groupSample true ex2Lsa ex2P ex2ch ex2scores with
  | .ok out => some (pairs out.conns, caseTrace (pairs out.conns), out.assign,
      out.insts.map fun i => (i.row, i.score))
  | .error _ => none

example : ex2Run.map (·.1) = some [((0, 0), (1, 0)), ((0, 1), (1, 1)), ((1, 0), (2, 0))] := by decide
example : ex2Run.map (·.2.1) = some [.c1, .c1, .c2] := by decide
example : ex2Run.map (·.2.2.1) = some [((0, 0), 0), ((1, 0), 0), ((2, 0), 0)] := by decide
example : ex2Run.map (·.2.2.2) = some [([some 0, some 0, some 0], 8)] := by decide

end SleapVerif.C08
