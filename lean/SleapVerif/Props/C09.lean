import SleapVerif.Lemmas.TrackerInv
/-!
# C09 — tracking never drops, duplicates or double-assigns detections, never crashes

All theorems are about the **repaired** step functions (`cfg.fx = Fixes.repaired`, i.e. the code
after `fixes/C09-anyrow.patch`, `C09-localqueue-list.patch`, `C09-stale-track.patch`), for every
history, every window, threshold, reduction, score function, and both matchers; the external
solvers enter through `ExtOk` (validated against the real scipy / numpy on every recorded call).
The `…_counterexample` lemmas show each defect on the pinned (`Fixes.asIs`) definitions.

`FrameOk thr cur ids` is the property for one call of `track` on the per-detection ids:
one id slot per input detection, a track for every detection whose score exceeds the threshold,
no track used twice.  `FW.output` / `LQ.output` are what `track` returns.
-/
namespace SleapVerif.C09
open SleapVerif.Tracker

/-! ## greedy matching (concrete) -/

/-- `greedy_matching` terminates (it is a total function) and returns at most as many pairs as
    there are edges -/
theorem greedy_terminates (l : List (Nat × Nat)) : (greedy l).length ≤ l.length :=
  greedy_length_le l

/-- greedy only returns edges it was given -/
theorem greedy_sub (l : List (Nat × Nat)) : ∀ e ∈ greedy l, e ∈ l := greedy_mem l

/-- no row and no column is used twice -/
theorem greedy_one_to_one (l : List (Nat × Nat)) :
    ((greedy l).map (·.1)).Nodup ∧ ((greedy l).map (·.2)).Nodup :=
  ⟨List.pairwise_map.2 ((greedy_pairwise l).imp fun h => h.1),
   List.pairwise_map.2 ((greedy_pairwise l).imp fun h => h.2)⟩

/-- the matching is maximal: every edge shares its row or its column with a chosen edge -/
theorem greedy_maximal (l : List (Nat × Nat)) :
    ∀ e ∈ l, ∃ g ∈ greedy l, g.1 = e.1 ∨ g.2 = e.2 := greedy_blocks l

example : greedy [(1, 0), (0, 0), (0, 1), (1, 1)] = [(1, 0), (0, 1)] := by simp [greedy]

/-! ## the matching stage and id allocation -/

/-- a lawful stand-in for the external solvers (diagonal assignment, row-major order): `ExtOk` is
    satisfiable -/
def diagExt {R : Type} : Ext R :=
  ⟨fun M => (List.range (min M.length (M.headD []).length)).map fun i => (i, i),
   fun M => (List.range M.length).flatMap fun i => (List.range (M.headD []).length).map fun j => (i, j)⟩

theorem diagExt_ok {R : Type} : ExtOk (diagExt : Ext R) := by
  have hk : ∀ (M : List (List (Option R))) (k : Nat), (∀ row ∈ M, row.length = k) → M ≠ [] →
      (M.headD []).length = k := by
    intro M k h hne
    cases M with
    | nil => exact absurd rfl hne
    | cons r rs => exact h r (by simp)
  constructor
  · intro M k h _
    by_cases hM : M = []
    · subst hM
      exact ⟨⟨by simp [diagExt], by simp [diagExt], by simp [diagExt]⟩, by simp [diagExt]⟩
    · have e := hk M k h hM
      have e2 : (M.head?.getD []).length = k := by rw [← List.headD_eq_head?_getD]; exact e
      refine ⟨⟨?_, ?_, ?_⟩, by simp [diagExt, e2]⟩
      · simpa [diagExt, List.map_map, Function.comp_def] using List.nodup_range
      · simpa [diagExt, List.map_map, Function.comp_def] using List.nodup_range
      · intro p hp
        simp only [diagExt, List.mem_map, List.mem_range] at hp
        obtain ⟨i, hi, rfl⟩ := hp
        rw [e] at hi
        exact ⟨by simp only; omega, by simp only; omega⟩
  · intro M k h e
    by_cases hM : M = []
    · subst hM; simp [diagExt]
    · have e' := hk M k h hM
      simp only [diagExt, List.mem_flatMap, List.mem_range, List.mem_map, e']
      constructor
      · rintro ⟨i, hi, j, hj, rfl⟩; exact ⟨hi, hj⟩
      · intro ⟨h1, h2⟩; exact ⟨e.1, h1, e.2, h2, rfl⟩

/-- the repaired `assign_tracks` never raises on the cost matrices of the model: `+∞` (NaN score)
    fills whole columns (`ColPattern`: stale tracks).  Outside that pattern — a NaN score of a single
    detection — neither the model nor the theorem speaks; see `nan_row_model_divergence` and F-C09d. -/
theorem assignStage_total {R : Type} {ext : Ext R} (hext : ExtOk ext) (mt : Matcher) (m : Nat)
    (cost : List (List (Option R))) (hcp : ColPattern cost) :
    ∃ ms, assignStage Fixes.repaired mt ext m cost = .ok ms :=
  let ⟨ms, h, _⟩ := assignStage_repaired hext Fixes.repaired rfl mt m cost hcp
  ⟨ms, h⟩

/-- … and what it returns is one-to-one on rows and on track ids, within bounds -/
theorem assignStage_valid {R : Type} {ext : Ext R} (hext : ExtOk ext) (mt : Matcher) (m : Nat)
    (cost : List (List (Option R))) (hcp : ColPattern cost) (ms : List (Nat × Nat))
    (h : assignStage Fixes.repaired mt ext m cost = .ok ms) : MatchValid cost.length m ms := by
  obtain ⟨ms', h', hv, _⟩ := assignStage_repaired hext Fixes.repaired rfl mt m cost hcp
  rw [h] at h'
  cases h'
  exact hv

/-- the model's cost matrices do have the column pattern -/
theorem model_cost_colPattern {R φ : Type} [Add R] [Div R] [OfNat R 0] [NatCast R] [LT R]
    [DecidableLT R] [Neg R] (rd : Reduction) (score : φ → φ → R) (cands : Nat → List φ) (m : Nat)
    (cur : List φ) : ColPattern (toCost (scoreMatrixP rd score cands m cur)) :=
  colPattern_scoreMatrix rd score cands m cur

/-- **limit of the model** (audit): on a scattered `+∞` pattern — a detection whose scores are all
    NaN — the model's feasibility *count* says "feasible" and returns an assignment, whereas scipy
    raises `cost matrix is infeasible` on this matrix (replayed by the harness, F-C09d).  The model
    is valid on `ColPattern` matrices only. -/
theorem nan_row_model_divergence :
    assignStage Fixes.repaired .hungarian (diagExt : Ext Int) 2 [[some 1, some 2], [none, none]]
      = .ok [(0, 0), (1, 1)] ∧ ¬ ColPattern ([[some 1, some 2], [none, none]] : List (List (Option Int))) := by
  refine ⟨by decide, ?_⟩
  intro h
  rcases h 0 with h0 | h0
  · have := h0 [none, none] (by simp); simp at this
  · have := h0 [some 1, some 2] (by simp); simp at this

/-- **F-C09d at model level** (behaviour before 6ecdd3f, `nanSafe = false`): a tracked animal whose
    stored feature is NaN (its score column is `none`) — the only column is invalid, nothing is matched,
    the guard is false, `add_new_tracks` is never reached: the detection comes back without a track
    although its score exceeds the threshold. -/
theorem nan_track_counterexample :
    let s : FW Nat := ⟨[⟨[7], [some 0]⟩], [0]⟩
    FW.stepWith (⟨3, 0, .hungarian, .mean, ⟨true, true, true, false⟩⟩ : Config Int) (diagExt : Ext Int) s
        [(8, 1)] [[none]] = .ok (s, [none]) ∧
      ¬ FrameOk (0 : Int) [((8 : Nat), (1 : Int))] [none] := by
  refine ⟨by decide, ?_⟩
  intro h
  obtain ⟨t, ht⟩ := h.complete 0 (by simp) (by decide)
  simp at ht

/-- … and the repaired code (`Fixes.repaired`, `nanSafe = true`): the same call gives the detection a
    new track and appends the frame -/
theorem nan_track_repaired :
    let s : FW Nat := ⟨[⟨[7], [some 0]⟩], [0]⟩
    FW.stepWith (⟨3, 0, .hungarian, .mean, Fixes.repaired⟩ : Config Int) (diagExt : Ext Int) s
        [(8, 1)] [[none]] = .ok (⟨[⟨[7], [some 0]⟩, ⟨[8], [some 1]⟩], [0, 1]⟩, [some 1]) := by
  decide

/-- `add_new_tracks` on `current_tracks = [0..m)`: matched ids are kept, every unmatched detection
    above the threshold gets a fresh id `≥ m`, ids stay distinct, `current_tracks` stays a range -/
theorem allocate_spec {R : Type} [LT R] [DecidableLT R] (thr : R) (ss : List R)
    (ids0 : List (Option Nat)) (m : Nat) (hl : ids0.length = ss.length)
    (hlt : ∀ t, some t ∈ ids0 → t < m) (hd : Distinct ids0) :
    AllocSpec thr ss ids0 m (allocate thr ss ids0 (List.range m)) :=
  allocate_spec' thr ss ids0 m hl hlt hd

example : allocate (0 : Int) [1, 0, 1] [none, none, some 0] [0] = ([some 1, none, some 0], [0, 1]) := by
  decide

/-! ## what `track` returns -/

theorem fw_output_mem (ids : List (Option Nat)) (i : Nat) (o : Option Nat) :
    (i, o) ∈ FW.output ids ↔ ids[i]? = some o ∧ o.isSome = true := by
  simp only [FW.output, List.mem_map, List.mem_filter, List.mem_zipIdx_iff_getElem?]
  constructor
  · rintro ⟨p, ⟨h1, h2⟩, h3⟩
    cases p; simp only [Prod.mk.injEq] at h3; obtain ⟨rfl, rfl⟩ := h3; exact ⟨h1, h2⟩
  · rintro ⟨h1, h2⟩; exact ⟨(o, i), ⟨h1, h2⟩, rfl⟩

theorem lq_output_mem (ids : List (Option Nat)) (i : Nat) (o : Option Nat) :
    (i, o) ∈ LQ.output ids ↔ ids[i]? = some o := by
  simp only [LQ.output, List.mem_map, List.mem_zipIdx_iff_getElem?]
  constructor
  · rintro ⟨p, h1, h3⟩
    cases p; simp only [Prod.mk.injEq] at h3; obtain ⟨rfl, rfl⟩ := h3; exact h1
  · intro h1; exact ⟨(o, i), h1, rfl⟩

theorem distinct_index {ids : List (Option Nat)} (hd : Distinct ids) {i j t : Nat}
    (hi : ids[i]? = some (some t)) (hj : ids[j]? = some (some t)) : i = j := by
  unfold Distinct at hd
  rw [List.pairwise_iff_getElem] at hd
  obtain ⟨hi', ei⟩ := List.getElem?_eq_some_iff.1 hi
  obtain ⟨hj', ej⟩ := List.getElem?_eq_some_iff.1 hj
  rcases Nat.lt_trichotomy i j with h | h | h
  · exact absurd ej (hd i j hi' hj' h t ei)
  · exact h
  · exact absurd ei (hd j i hj' hi' h t ej)

/-- no detection is returned twice -/
theorem fw_track_output_nodup (ids : List (Option Nat)) : ((FW.output ids).map (·.1)).Nodup := by
  have h1 : (FW.output ids).map (·.1) = (ids.zipIdx.filter (fun p => p.1.isSome)).map (·.2) := by
    simp [FW.output, List.map_map, Function.comp_def]
  rw [h1]
  have h2 : ((ids.zipIdx.filter (fun p => p.1.isSome)).map (·.2)).Sublist (ids.zipIdx.map (·.2)) :=
    List.Sublist.map _ List.filter_sublist
  refine List.Nodup.sublist h2 ?_
  rw [List.zipIdx_map_snd]
  exact List.nodup_range' ..

section fw
variable {R φ : Type} [LT R] [DecidableLT R] [Add R] [Div R] [OfNat R 0] [NatCast R] [Neg R]
variable (cfg : Config R) (hfx : cfg.fx = Fixes.repaired) (ext : Ext R) (hext : ExtOk ext)
  (score : φ → φ → R)
include hfx hext

/-- fixed window: `track` never raises -/
theorem fw_track_total (s : FW φ) (hs : s.Inv) (cur : List (φ × R)) :
    ∃ s' ids, FW.step cfg ext score s cur = .ok (s', ids) :=
  let ⟨s', ids, h, _⟩ := FW.step_ok cfg hfx ext hext score s hs cur
  ⟨s', ids, h⟩

/-- fixed window: the invariant (`current_tracks = range m`, stored ids known, distinct within a
    frame, no all-`None` frame in the queue) is preserved -/
theorem fw_inv_step (s : FW φ) (hs : s.Inv) (cur : List (φ × R)) (s' : FW φ)
    (ids : List (Option Nat)) (h : FW.step cfg ext score s cur = .ok (s', ids)) : s'.Inv := by
  obtain ⟨s'', ids', h', hi, _⟩ := FW.step_ok cfg hfx ext hext score s hs cur
  rw [h] at h'; cases h'; exact hi

theorem fw_frameOk (s : FW φ) (hs : s.Inv) (cur : List (φ × R)) (s' : FW φ)
    (ids : List (Option Nat)) (h : FW.step cfg ext score s cur = .ok (s', ids)) :
    FrameOk cfg.thr cur ids := by
  obtain ⟨s'', ids', h', _, hf⟩ := FW.step_ok cfg hfx ext hext score s hs cur
  rw [h] at h'; cases h'; exact hf

/-- every returned detection is one of the inputs -/
theorem fw_track_output_sub (s : FW φ) (hs : s.Inv) (cur : List (φ × R)) (s' : FW φ)
    (ids : List (Option Nat)) (h : FW.step cfg ext score s cur = .ok (s', ids)) :
    ∀ p ∈ FW.output ids, p.1 < cur.length := by
  have hf := fw_frameOk cfg hfx ext hext score s hs cur s' ids h
  intro p hp
  have := ((fw_output_mem ids p.1 p.2).1 hp).1
  have := (List.getElem?_eq_some_iff.1 this).1
  rw [hf.length] at this; exact this

/-- every detection whose score exceeds the new-track threshold is returned, with a track -/
theorem fw_track_output_complete (s : FW φ) (hs : s.Inv) (cur : List (φ × R)) (s' : FW φ)
    (ids : List (Option Nat)) (h : FW.step cfg ext score s cur = .ok (s', ids)) :
    ∀ i (hi : i < cur.length), cfg.thr < cur[i].2 → ∃ t, (i, some t) ∈ FW.output ids := by
  have hf := fw_frameOk cfg hfx ext hext score s hs cur s' ids h
  intro i hi hthr
  obtain ⟨t, ht⟩ := hf.complete i hi hthr
  exact ⟨t, (fw_output_mem ids i (some t)).2 ⟨ht, rfl⟩⟩

/-- two returned detections never share a track -/
theorem fw_track_ids_distinct_in_frame (s : FW φ) (hs : s.Inv) (cur : List (φ × R)) (s' : FW φ)
    (ids : List (Option Nat)) (h : FW.step cfg ext score s cur = .ok (s', ids)) :
    ∀ i j t, (i, some t) ∈ FW.output ids → (j, some t) ∈ FW.output ids → i = j := by
  have hf := fw_frameOk cfg hfx ext hext score s hs cur s' ids h
  intro i j t h1 h2
  exact distinct_index hf.distinct ((fw_output_mem ids i _).1 h1).1 ((fw_output_mem ids j _).1 h2).1

/-- **all histories** (fixed window): from any state satisfying the invariant — in particular the
    fresh tracker — `track` never raises over the whole history and every frame has the property -/
theorem fw_history (frames : List (List (φ × R))) (s : FW φ) (hs : s.Inv) :
    ∃ s' outs, run (FW.step cfg ext score) s frames = .ok (s', outs) ∧ s'.Inv ∧
      List.Forall₂ (FrameOk cfg.thr) frames outs := by
  induction frames generalizing s with
  | nil => exact ⟨s, [], rfl, hs, List.Forall₂.nil⟩
  | cons cur rest ih =>
    obtain ⟨s1, ids, h1, hi1, hf1⟩ := FW.step_ok cfg hfx ext hext score s hs cur
    obtain ⟨s2, outs, h2, hi2, hf2⟩ := ih s1 hi1
    exact ⟨s2, ids :: outs, by simp [run, h1, h2], hi2, List.Forall₂.cons hf1 hf2⟩

end fw

section lq
variable {R φ : Type} [LT R] [DecidableLT R] [Add R] [Div R] [OfNat R 0] [NatCast R] [Neg R]
variable (cfg : Config R) (hfx : cfg.fx = Fixes.repaired) (hw : 0 < cfg.window) (ext : Ext R)
  (hext : ExtOk ext) (score : φ → φ → R)
include hfx hw hext

/-- local queues: `track` never raises -/
theorem lq_track_total (s : LQ φ) (hs : s.Inv) (cur : List (φ × R)) :
    ∃ s' ids, LQ.step cfg ext score s cur = .ok (s', ids) :=
  let ⟨s', ids, h, _⟩ := LQ.step_ok cfg hfx hw ext hext score s hs cur
  ⟨s', ids, h⟩

/-- local queues: the invariant (one non-empty queue per track id `0..m-1`) is preserved -/
theorem lq_inv_step (s : LQ φ) (hs : s.Inv) (cur : List (φ × R)) (s' : LQ φ)
    (ids : List (Option Nat)) (h : LQ.step cfg ext score s cur = .ok (s', ids)) : s'.Inv := by
  obtain ⟨s'', ids', h', hi, _⟩ := LQ.step_ok cfg hfx hw ext hext score s hs cur
  rw [h] at h'; cases h'; exact hi

theorem lq_frameOk (s : LQ φ) (hs : s.Inv) (cur : List (φ × R)) (s' : LQ φ)
    (ids : List (Option Nat)) (h : LQ.step cfg ext score s cur = .ok (s', ids)) :
    FrameOk cfg.thr cur ids := by
  obtain ⟨s'', ids', h', _, hf⟩ := LQ.step_ok cfg hfx hw ext hext score s hs cur
  rw [h] at h'; cases h'; exact hf

/-- local queues return exactly the input detections, each once, in order -/
theorem lq_track_output_all (s : LQ φ) (hs : s.Inv) (cur : List (φ × R)) (s' : LQ φ)
    (ids : List (Option Nat)) (h : LQ.step cfg ext score s cur = .ok (s', ids)) :
    (LQ.output ids).map (·.1) = List.range cur.length := by
  have hf := lq_frameOk cfg hfx hw ext hext score s hs cur s' ids h
  have : (LQ.output ids).map (·.1) = ids.zipIdx.map (·.2) := by
    simp [LQ.output, List.map_map, Function.comp_def]
  rw [this, List.zipIdx_map_snd, hf.length, List.range_eq_range']

/-- every detection above the threshold has a track -/
theorem lq_track_output_complete (s : LQ φ) (hs : s.Inv) (cur : List (φ × R)) (s' : LQ φ)
    (ids : List (Option Nat)) (h : LQ.step cfg ext score s cur = .ok (s', ids)) :
    ∀ i (hi : i < cur.length), cfg.thr < cur[i].2 → ∃ t, (i, some t) ∈ LQ.output ids := by
  have hf := lq_frameOk cfg hfx hw ext hext score s hs cur s' ids h
  intro i hi hthr
  obtain ⟨t, ht⟩ := hf.complete i hi hthr
  exact ⟨t, (lq_output_mem ids i (some t)).2 ht⟩

/-- two returned detections never share a track -/
theorem lq_track_ids_distinct_in_frame (s : LQ φ) (hs : s.Inv) (cur : List (φ × R)) (s' : LQ φ)
    (ids : List (Option Nat)) (h : LQ.step cfg ext score s cur = .ok (s', ids)) :
    ∀ i j t, (i, some t) ∈ LQ.output ids → (j, some t) ∈ LQ.output ids → i = j := by
  have hf := lq_frameOk cfg hfx hw ext hext score s hs cur s' ids h
  intro i j t h1 h2
  exact distinct_index hf.distinct ((lq_output_mem ids i _).1 h1) ((lq_output_mem ids j _).1 h2)

/-- **all histories** (local queues) -/
theorem lq_history (frames : List (List (φ × R))) (s : LQ φ) (hs : s.Inv) :
    ∃ s' outs, run (LQ.step cfg ext score) s frames = .ok (s', outs) ∧ s'.Inv ∧
      List.Forall₂ (FrameOk cfg.thr) frames outs := by
  induction frames generalizing s with
  | nil => exact ⟨s, [], rfl, hs, List.Forall₂.nil⟩
  | cons cur rest ih =>
    obtain ⟨s1, ids, h1, hi1, hf1⟩ := LQ.step_ok cfg hfx hw ext hext score s hs cur
    obtain ⟨s2, outs, h2, hi2, hf2⟩ := ih s1 hi1
    exact ⟨s2, ids :: outs, by simp [run, h1, h2], hi2, List.Forall₂.cons hf1 hf2⟩

end lq

/-- The tracks the *input* instances already carry (re-tracking) are not an input of the model: a
    detection is its feature and its instance score.  Two inputs that differ only in attached tracks
    `τ` give the same step (trivially — recorded because the real `Tracker.track` must behave so:
    seeded C09-r7m1, finding F-C09e). -/
theorem track_ignores_input_tracks {R φ τ : Type} [LT R] [DecidableLT R] [Add R] [Div R] [OfNat R 0]
    [NatCast R] [Neg R] (cfg : Config R) (ext : Ext R) (score : φ → φ → R) (sf : FW φ) (sl : LQ φ)
    (cur cur' : List ((φ × R) × τ)) (h : cur.map (·.1) = cur'.map (·.1)) :
    FW.step cfg ext score sf (cur.map (·.1)) = FW.step cfg ext score sf (cur'.map (·.1)) ∧
    LQ.step cfg ext score sl (cur.map (·.1)) = LQ.step cfg ext score sl (cur'.map (·.1)) := by
  rw [h]; exact ⟨rfl, rfl⟩

/-! ## non-vacuity: the hypotheses are met by the fresh tracker and a lawful solver -/

def cfgR (mt : Matcher) (rd : Reduction) : Config Int := ⟨3, 0, mt, rd, Fixes.repaired⟩

example : (FW.empty : FW Nat).Inv := FW.inv_empty
example : (LQ.empty : LQ Nat).Inv := LQ.inv_empty
example : ExtOk (diagExt : Ext Int) := diagExt_ok
example : (cfgR .greedy .max).fx = Fixes.repaired ∧ 0 < (cfgR .greedy .max).window := ⟨rfl, by decide⟩

/-- a concrete three-frame history (two animals, then one, then three) through the repaired model -/
example :
    (run (FW.step (cfgR .hungarian .mean) diagExt (fun a b => -(Int.natAbs ((a : Int) - b) : Int)))
      FW.empty [[(10, 1), (50, 1)], [(11, 1)], [(12, 1), (51, 1), (90, 1)]]).toOption.map (·.2)
      = some [[some 0, some 1], [some 0], [some 0, some 1, some 2]] := by decide

/-! ## the three defects on the pinned definitions -/

def cfgA (mt : Matcher) (rd : Reduction) (w : Nat) : Config Int := ⟨w, 0, mt, rd, Fixes.asIs⟩

/-- F-C09a (fixed window): one animal already tracked, seen again; scipy answers `[0]↔[0]`;
    `np.any([0])` is false, the state is untouched and the detection comes back without a track,
    so `track` drops it. -/
theorem anyrow_counterexample_fw :
    let s : FW Nat := ⟨[⟨[7], [some 0]⟩], [0]⟩
    let ext : Ext Int := ⟨fun _ => [(0, 0)], fun _ => [(0, 0)]⟩
    s.Inv ∧ FW.step (cfgA .hungarian .mean 5) ext (fun _ _ => 1) s [(8, 1)] = .ok (s, [none]) ∧
      FW.output [none] = [] ∧ ¬ FrameOk (0 : Int) [((8 : Nat), (1 : Int))] [none] := by
  refine ⟨⟨rfl, ?_⟩, by decide, by decide, ?_⟩
  · intro fr hfr
    simp only [List.mem_singleton] at hfr
    subst hfr
    exact ⟨rfl, by simp, by simp [Distinct], 0, by simp⟩
  · intro h
    obtain ⟨t, ht⟩ := h.complete 0 (by simp) (by decide)
    simp at ht

/-- F-C09a (local queues): same history, the detection is returned but untracked -/
theorem anyrow_counterexample_lq :
    let s : LQ Nat := ⟨[(0, [7])], [0]⟩
    let ext : Ext Int := ⟨fun _ => [(0, 0)], fun _ => [(0, 0)]⟩
    s.Inv ∧ LQ.step (cfgA .greedy .max 5) ext (fun _ _ => 1) s [(8, 1)] = .ok (s, [none]) ∧
      LQ.output [none] = [(0, none)] := by
  refine ⟨⟨rfl, rfl, ?_⟩, by simp [LQ.step, LQ.stepWith, scoreMatrix, scoreRow, reduce, LQ.cands,
    cfgA, Fixes.asIs, assignStage, validCols, greedy, LQ.update, guardOk,
    List.range, List.range.loop], by decide⟩
  intro q hq
  simp only [List.mem_singleton] at hq
  subst hq; simp

/-- F-C09b: two tracked animals, a third detection appears; the two matches are fine, the
    unmatched one reaches `add_new_tracks(current_instances[ind])` → `TypeError` -/
theorem lqlist_counterexample :
    let s : LQ Nat := ⟨[(0, [7]), (1, [8])], [0, 1]⟩
    let ext : Ext Int := ⟨fun _ => [(0, 0), (1, 1)], fun _ => []⟩
    s.Inv ∧ LQ.step (cfgA .hungarian .mean 5) ext (fun a b => if a = b then 1 else 0) s
      [(7, 1), (8, 1), (9, 1)] = .error .typeError := by
  refine ⟨⟨rfl, rfl, ?_⟩, by decide⟩
  intro q hq
  simp only [List.mem_cons, List.not_mem_nil, or_false] at hq
  rcases hq with h | h <;> subst h <;> simp

/-- F-C09c (Hungarian): tracks 0,1,2 known, the window (3 frames) only holds 0 and 1; three
    detections: column 2 is all `+∞`, no full assignment is finite → `cost matrix is infeasible` -/
theorem stale_counterexample_hungarian :
    let fr : FrameRec Nat := ⟨[7, 8], [some 0, some 1]⟩
    let s : FW Nat := ⟨[fr, fr, fr], [0, 1, 2]⟩
    let ext : Ext Int := ⟨fun _ => [], fun _ => []⟩
    s.Inv ∧ FW.step (cfgA .hungarian .mean 3) ext (fun a b => if a = b then 1 else 0) s
      [(7, 1), (8, 1), (9, 1)] = .error .infeasible := by
  refine ⟨⟨rfl, ?_⟩, by decide⟩
  intro fr hfr
  simp only [List.mem_cons, List.not_mem_nil, or_false, or_self] at hfr
  subst hfr
  refine ⟨rfl, ?_, by simp [Distinct], 0, by simp⟩
  intro t ht
  simp only [List.mem_cons, Option.some.injEq, List.not_mem_nil, or_false] at ht
  rcases ht with h | h <;> subst h <;> decide

/-- F-C09c (`scoring_reduction = "max"`): same state, already the first frame after track 2 left
    the window raises (`nanmax([])`), under either matcher and with any number of detections ≥ 1 -/
theorem stale_counterexample_max :
    let fr : FrameRec Nat := ⟨[7, 8], [some 0, some 1]⟩
    let s : FW Nat := ⟨[fr, fr, fr], [0, 1, 2]⟩
    let ext : Ext Int := ⟨fun _ => [(0, 0), (1, 1)], fun _ => []⟩
    FW.step (cfgA .greedy .max 3) ext (fun a b => if a = b then 1 else 0) s
      [(7, 1), (8, 1)] = .error .emptyMax := by
  decide

end SleapVerif.C09
