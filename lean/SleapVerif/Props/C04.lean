import SleapVerif.Model.Geometry
import SleapVerif.Gen.TranslatedGeometry
import SleapVerif.Lemmas.Geometry

/-!
# C04 — images and keypoints stay registered through all geometric preprocessing

Theorems about `Model/Geometry.lean` (and, for the stride padding, about the definition
*generated* from the Python source) for every ordered field `R`; `cast` is `Nat.cast`.

"Registered" = the content map and the keypoint map of a step differ by less than one output
pixel at every pixel centre of the input image (`−½ ≤ x ≤ n − ½`).  Where that is false of the
code the full statement is kept as a `def … : Prop`, refuted on a witness (`…_counterexample`)
and proved under the exact extra hypothesis:

* size matching / rescaling **up by a factor ≥ 3** (F-C04): keypoints are multiplied by `f`
  but pixel centres are what the resizer scales, offset `(f−1)/2 ≥ 1`;
* the rounded target size of the non-binding axis adds up to `½` px at the far border, so for
  `2 ≤ f < 3` the bound `< 1` only holds on the axis whose size is hit exactly (F-C04b);
* `resize_image` truncates `int(n·s)` while keypoints get `s`: when scaling **down** the two
  errors add up, offset in `((s−1)/2 − 1, (s−1)/2]`, i.e. up to 1.5 px (F-C04b as well);
* kornia's `RandomAffine` warps the image with `S·A·S⁻¹`, keypoints with `A`: on elongated frames
  in-frame content can be > 1 px from its keypoint (F-C04c; `augment_offset`,
  `augment_offset_bound_inframe`, `augment_registered_counterexample`).

Theorems whose whole content is the model's definition (the correspondence carries them):
`pad_bottom_right`, `intensity_keeps_keypoints`, `augment_same_map`, `crop_registered`,
`recrop_registered`, `getItem_cache_unchanged` (hence `read_history_independent`).
-/

set_option linter.unusedSectionVars false
set_option linter.unusedVariables false
set_option linter.unusedSimpArgs false

namespace SleapVerif.C04
open SleapVerif SleapVerif.Geometry SleapVerif.Scalar

variable {R : Type} [Field R] [LinearOrder R] [IsStrictOrderedRing R]

/-! ## stride padding (about the generated definition) -/

/-- the translated Python is the hand model the chains use -/
theorem gen_eq_model (h w s : Int) :
    Gen.Geometry.find_padding_for_stride h w s = findPaddingForStride h w s := rfl

/-- `find_padding_for_stride` (as generated from the Python source): the padded size is a
multiple of the stride, the pad is non-negative and smaller than the stride, and it is the least
such pad. -/
theorem pad_minimal (h w s : Int) (hs : 0 < s) :
    let p := Gen.Geometry.find_padding_for_stride h w s
    ((h + p.1) % s = 0 ∧ 0 ≤ p.1 ∧ p.1 < s ∧ ∀ q, 0 ≤ q → (h + q) % s = 0 → p.1 ≤ q) ∧
    ((w + p.2) % s = 0 ∧ 0 ≤ p.2 ∧ p.2 < s ∧ ∀ q, 0 ≤ q → (w + q) % s = 0 → p.2 ≤ q) := by
  have one : ∀ n : Int,
      let p := Int.fmod (s - Int.fmod n s) s
      (n + p) % s = 0 ∧ 0 ≤ p ∧ p < s ∧ ∀ q, 0 ≤ q → (n + q) % s = 0 → p ≤ q := by
    intro n
    simp only [Int.fmod_eq_emod_of_nonneg _ hs.le]
    have h1 := Int.emod_nonneg n hs.ne'
    have h2 := Int.emod_lt_of_pos n hs
    have hk := Int.emod_add_mul_ediv n s
    generalize n % s = r at *
    generalize n / s = k at *
    by_cases hr : r = 0
    · subst hr
      have e : (s - 0) % s = 0 := by simp
      rw [e]
      refine ⟨?_, le_refl _, hs, fun q hq _ => hq⟩
      rw [← hk]; simp
    · have hp : (s - r) % s = s - r := Int.emod_eq_of_lt (by omega) (by omega)
      rw [hp]
      refine ⟨?_, by omega, by omega, ?_⟩
      · have e : n + (s - r) = s * (k + 1) := by rw [← hk]; ring
        rw [e]; exact Int.mul_emod_right _ _
      · intro q hq hq0
        by_contra hlt
        have hlt' : q < s - r := by omega
        have e : n + q = (r + q) + s * k := by rw [← hk]; ring
        rw [e, Int.add_mul_emod_self_left, Int.emod_eq_of_lt (by omega) (by omega)] at hq0
        omega
  exact ⟨one h, one w⟩

example : Gen.Geometry.find_padding_for_stride 40 60 16 = (8, 4) := by decide

/-- `apply_pad_to_stride` on sizes: result is a multiple of the stride, at least the input and
less than one stride larger -/
theorem pad_size_multiple (h w s : Nat) (hs : 0 < s) :
    (padToStrideSize h w s).1 % s = 0 ∧ (padToStrideSize h w s).2 % s = 0 ∧
    h ≤ (padToStrideSize h w s).1 ∧ (padToStrideSize h w s).1 < h + s ∧
    w ≤ (padToStrideSize h w s).2 ∧ (padToStrideSize h w s).2 < w + s := by
  unfold padToStrideSize
  by_cases h1 : s > 1
  · rw [if_pos h1]
    have hsI : (0 : Int) < s := by exact_mod_cast hs
    have key : ∀ n : Nat, (n + (padFor n s).toNat) % s = 0 ∧ (padFor n s).toNat < s := by
      intro n
      have := (pad_minimal n n s hsI).1
      simp only [gen_eq_model, findPaddingForStride] at this
      obtain ⟨a, b, c, _⟩ := this
      have e : ((padFor n s).toNat : Int) = padFor n s := Int.toNat_of_nonneg b
      constructor
      · have : (((n + (padFor n s).toNat : Nat)) : Int) % (s : Int) = 0 := by
          push_cast; rw [e]; exact a
        exact_mod_cast this
      · have : ((padFor n s).toNat : Int) < s := by rw [e]; exact c
        exact_mod_cast this
    have kh := key h
    have kw := key w
    dsimp only
    exact ⟨kh.1, kw.1, Nat.le_add_right _ _, by omega, Nat.le_add_right _ _, by omega⟩
  · rw [if_neg h1]
    have : s = 1 := by omega
    subst this
    simp only [Nat.mod_one]
    exact ⟨trivial, trivial, le_refl _, by omega, le_refl _, by omega⟩

/-- padding is added at the bottom/right only: the content map and the keypoint map of the pad
step are the identity (a top/left pad would shift the content by the pad). -/
theorem pad_bottom_right (st : St R) (s : Nat) :
    (step Nat.cast st (.pad s)).content = st.content ∧ (step Nat.cast st (.pad s)).kp = st.kp :=
  ⟨rfl, rfl⟩

/-! ## size matching -/

/-- What `apply_sizematcher` guarantees about its resize target and returned scale, as a
relation (covers Python's half-even `round` on doubles as well as exact rounding). -/
structure SizeMatch (h w mh mw th tw : Nat) (eff : R) : Prop where
  eff_eq : eff = min ((mh : R) / h) ((mw : R) / w)
  th_round : |(th : R) - (h : R) * eff| ≤ 1 / 2
  tw_round : |(tw : R) - (w : R) * eff| ≤ 1 / 2

/-- the executable `sizematch` satisfies the relation -/
theorem sizematch_rel (h w mh mw : Nat) (hh : 0 < h) (hw : 0 < w) (hne : h ≠ mh ∨ w ≠ mw) :
    let o := sizematch h w (some mh) (some mw)
    o.applied = true ∧ SizeMatch (R := R) h w mh mw o.th o.tw ((o.effN : R) / o.effD) := by
  have hhR : (0 : R) < h := by exact_mod_cast hh
  have hwR : (0 : R) < w := by exact_mod_cast hw
  simp only [sizematch, Option.getD_some, if_pos hne]
  by_cases hc : mh * w > mw * h
  · rw [if_pos hc]
    refine ⟨rfl, ?_, ?_, ?_⟩
    · have : (mw : R) / w ≤ (mh : R) / h := by
        rw [div_le_div_iff₀ hwR hhR]
        have : ((mw * h : Nat) : R) ≤ ((mh * w : Nat) : R) := by exact_mod_cast hc.le
        push_cast at this; linarith
      simp only; rw [min_eq_right this]
    · have := roundHalfEven_spec (R := R) (h * mw) w hw
      push_cast at this
      simp only
      rwa [mul_div_assoc] at this
    · have := roundHalfEven_spec (R := R) (w * mw) w hw
      push_cast at this
      simp only
      rwa [mul_div_assoc] at this
  · rw [if_neg hc]
    refine ⟨rfl, ?_, ?_, ?_⟩
    · have : (mh : R) / h ≤ (mw : R) / w := by
        rw [div_le_div_iff₀ hhR hwR]
        have : ((mh * w : Nat) : R) ≤ ((mw * h : Nat) : R) := by exact_mod_cast (not_lt.mp hc)
        push_cast at this; linarith
      simp only; rw [min_eq_left this]
    · have := roundHalfEven_spec (R := R) (h * mh) h hh
      push_cast at this
      simp only
      rwa [mul_div_assoc] at this
    · have := roundHalfEven_spec (R := R) (w * mh) h hh
      push_cast at this
      simp only
      rwa [mul_div_assoc] at this

/-- **exact output size**: the resize target fits (`th ≤ mh`, `tw ≤ mw`, so both pads are
non-negative and `F.pad` appends at the bottom/right), the axis that realises the minimum ratio
is hit exactly, hence the output `target + pad` is exactly `(max_height, max_width)`. -/
theorem sizematch_exact_size (h w mh mw th tw : Nat) (eff : R) (hh : 0 < h) (hw : 0 < w)
    (H : SizeMatch h w mh mw th tw eff) :
    th ≤ mh ∧ tw ≤ mw ∧ th + (mh - th) = mh ∧ tw + (mw - tw) = mw ∧
    (eff = (mh : R) / h → th = mh) ∧ (eff = (mw : R) / w → tw = mw) := by
  have hhR : (0 : R) < h := by exact_mod_cast hh
  have hwR : (0 : R) < w := by exact_mod_cast hw
  have e1 : (h : R) * eff ≤ mh := by
    rw [H.eff_eq]
    calc (h : R) * min ((mh : R) / h) ((mw : R) / w) ≤ (h : R) * ((mh : R) / h) :=
          mul_le_mul_of_nonneg_left (min_le_left _ _) hhR.le
      _ = mh := by field_simp
  have e2 : (w : R) * eff ≤ mw := by
    rw [H.eff_eq]
    calc (w : R) * min ((mh : R) / h) ((mw : R) / w) ≤ (w : R) * ((mw : R) / w) :=
          mul_le_mul_of_nonneg_left (min_le_right _ _) hwR.le
      _ = mw := by field_simp
  have t1 := abs_le.mp H.th_round
  have t2 := abs_le.mp H.tw_round
  have a : th ≤ mh := nat_le_of_le_add_half (R := R) th mh (by linarith)
  have b : tw ≤ mw := nat_le_of_le_add_half (R := R) tw mw (by linarith)
  refine ⟨a, b, by omega, by omega, ?_, ?_⟩
  · intro he
    apply nat_eq_of_abs_le_half (R := R)
    have : (h : R) * eff = mh := by rw [he]; field_simp
    rw [← this]; exact H.th_round
  · intro he
    apply nat_eq_of_abs_le_half (R := R)
    have : (w : R) * eff = mw := by rw [he]; field_simp
    rw [← this]; exact H.tw_round

/-- on the executable model: the output size of `apply_sizematcher` is exactly the requested one -/
theorem sizematch_out_size (h w mh mw : Nat) (hh : 0 < h) (hw : 0 < w) :
    sizematchOutSize h w (some mh) (some mw) = ((mh : Int), (mw : Int)) := by
  unfold sizematchOutSize
  by_cases hne : h ≠ mh ∨ w ≠ mw
  · have := (sizematch_rel (R := Rat) h w mh mw hh hw hne).1
    rw [if_pos this]
    have ⟨a, b, _⟩ := sizematch_exact_size (R := Rat) h w mh mw _ _ _ hh hw
      (sizematch_rel (R := Rat) h w mh mw hh hw hne).2
    simp only [Option.getD_some]
    refine Prod.ext ?_ ?_ <;> dsimp only <;> omega
  · have h1 : h = mh := by omega
    have h2 : w = mw := by omega
    subst h1; subst h2
    simp [sizematch]

example : sizematch 20 23 (some 50) (some 100) = ⟨50, 58, 50, 20, true⟩ := by decide

/-- Full-strength statement for one axis of the size matcher: content and keypoint differ by less
than one output pixel everywhere in the image, whatever the factor.  **False** of the code. -/
def SizematchRegisteredEverywhere (R : Type) [Field R] [LinearOrder R] [IsStrictOrderedRing R] :
    Prop :=
  ∀ (n n' : Nat) (eff x : R), 0 < n → 0 < eff → |(n' : R) - (n : R) * eff| ≤ 1 / 2 →
    -(1 / 2) ≤ x → x ≤ (n : R) - 1 / 2 →
    |((resizeContent Nat.cast n n n' n').apply (x, x)).1 - ((scaleKp eff).apply (x, x)).1| < 1

/-- F-C04 witness (16 px → 48 px, blob at x = 5): content at 16, keypoint at 15. -/
theorem sizematch_registered_counterexample : ¬ SizematchRegisteredEverywhere Rat := by
  intro H
  have := H 16 48 3 5 (by decide) (by norm_num) (by norm_num) (by norm_num) (by norm_num)
  simp only [resizeContent, scaleKp, Aff.apply_axis] at this
  rw [abs_lt] at this
  norm_num at this

/-- F-C04b witness (23 px → round(57.5) = 58 px, factor 2.5 < 3, blob at x = 18):
content at 46.15…, keypoint at 45. -/
theorem sizematch_registered_lt3_counterexample :
    ¬ (∀ (n n' : Nat) (eff x : Rat), 0 < n → 0 < eff → eff < 3 →
        |(n' : Rat) - (n : Rat) * eff| ≤ 1 / 2 → -(1 / 2) ≤ x → x ≤ (n : Rat) - 1 / 2 →
        |((resizeContent Nat.cast n n n' n').apply (x, x)).1 - ((scaleKp eff).apply (x, x)).1| < 1) := by
  intro H
  have := H 23 58 (5 / 2) 18 (by decide) (by norm_num) (by norm_num)
    (by rw [abs_le]; constructor <;> norm_num) (by norm_num) (by norm_num)
  simp only [resizeContent, scaleKp, Aff.apply_axis] at this
  rw [abs_lt] at this
  norm_num at this

/-- **registration of the size matcher** (both axes): for `eff < 3` content and keypoint differ
by less than one pixel **plus** the rounding slack of the target size, which is
`|target − n·eff|·(x+½)/n ≤ ½` and vanishes on the axis that is hit exactly. -/
theorem sizematch_registered (h w mh mw th tw : Nat) (eff x y : R) (hh : 0 < h) (hw : 0 < w)
    (H : SizeMatch h w mh mw th tw eff) (he0 : 0 < eff) (he : eff < 3)
    (hx0 : -(1 / 2) ≤ x) (hx1 : x ≤ (w : R) - 1 / 2)
    (hy0 : -(1 / 2) ≤ y) (hy1 : y ≤ (h : R) - 1 / 2) :
    let c := (resizeContent Nat.cast h w th tw).apply (x, y)
    let k := (scaleKp eff).apply (x, y)
    |c.1 - k.1| < 1 + |(tw : R) - (w : R) * eff| ∧ |c.2 - k.2| < 1 + |(th : R) - (h : R) * eff| ∧
    |c.1 - k.1| < 3 / 2 ∧ |c.2 - k.2| < 3 / 2 := by
  simp only [resizeContent, scaleKp, Aff.apply_axis]
  have bx := axis_offset_bound w hw (tw : R) eff x _ (le_refl _) hx0 hx1
  have by' := axis_offset_bound h hh (th : R) eff y _ (le_refl _) hy0 hy1
  have hs : |eff - 1| / 2 < 1 := by
    have : |eff - 1| < 2 := by rw [abs_lt]; constructor <;> linarith
    linarith
  have r1 := H.tw_round
  have r2 := H.th_round
  simp only [add_zero] at *
  refine ⟨by linarith, by linarith, by linarith, by linarith⟩

/-- for `eff < 2` (all down-scaling and up-scaling below 2×) the bound is `< 1` outright -/
theorem sizematch_registered_lt_two (h w mh mw th tw : Nat) (eff x y : R) (hh : 0 < h)
    (hw : 0 < w) (H : SizeMatch h w mh mw th tw eff) (he0 : 0 < eff) (he : eff < 2)
    (hx0 : -(1 / 2) ≤ x) (hx1 : x ≤ (w : R) - 1 / 2)
    (hy0 : -(1 / 2) ≤ y) (hy1 : y ≤ (h : R) - 1 / 2) :
    let c := (resizeContent Nat.cast h w th tw).apply (x, y)
    let k := (scaleKp eff).apply (x, y)
    |c.1 - k.1| < 1 ∧ |c.2 - k.2| < 1 := by
  simp only [resizeContent, scaleKp, Aff.apply_axis]
  have bx := axis_offset_bound w hw (tw : R) eff x _ H.tw_round hx0 hx1
  have by' := axis_offset_bound h hh (th : R) eff y _ H.th_round hy0 hy1
  have hs : |eff - 1| / 2 < 1 / 2 := by
    have : |eff - 1| < 1 := by rw [abs_lt]; constructor <;> linarith
    linarith
  simp only [add_zero] at *
  exact ⟨by linarith, by linarith⟩

/-- on an axis whose target is exact (`target = n·eff`, e.g. the binding axis) the offset is
exactly the half-pixel term `(eff − 1)/2`: `< 1` iff `eff < 3`. -/
theorem sizematch_offset_exact_axis (n : Nat) (hn : 0 < n) (n' : Nat) (eff x : R)
    (he : (n' : R) = (n : R) * eff) :
    ((resizeContent Nat.cast n n n' n').apply (x, x)).1 - ((scaleKp eff).apply (x, x)).1
      = (eff - 1) / 2 := by
  simp only [resizeContent, scaleKp, Aff.apply_axis, add_zero]
  exact axis_offset_exact n hn (n' : R) eff x he

example : SizeMatch (R := Rat) 20 23 50 100 50 58 (5 / 2) :=
  ⟨by norm_num, by rw [abs_le]; constructor <;> norm_num, by rw [abs_le]; constructor <;> norm_num⟩

/-! ## rescaling (`apply_resizer`) -/

/-- Full-strength statement for `apply_resizer` on one axis.  **False** of the code when scaling
down with a truncated size. -/
def ResizeRegisteredEverywhere (R : Type) [Field R] [LinearOrder R] [IsStrictOrderedRing R] :
    Prop :=
  ∀ (n sn sd : Nat) (x : R), 0 < n → 0 < sn → 0 < sd → (sn : R) / sd < 3 →
    -(1 / 2) ≤ x → x ≤ (n : R) - 1 / 2 →
    |((resizeContent Nat.cast n n (resizeSize n sn sd) (resizeSize n sn sd)).apply (x, x)).1
      - ((scaleKp ((sn : R) / sd)).apply (x, x)).1| < 1

/-- F-C04b (resizer) witness: 203 px · 0.3 = 60.9 → 60 px; blob at x = 180: content 52.85, keypoint 54. -/
theorem resize_registered_counterexample : ¬ ResizeRegisteredEverywhere Rat := by
  intro H
  have := H 203 3 10 180 (by decide) (by decide) (by decide) (by norm_num) (by norm_num)
    (by norm_num)
  have e : resizeSize 203 3 10 = 60 := by decide
  simp only [e, resizeContent, scaleKp, Aff.apply_axis] at this
  rw [abs_lt] at this
  norm_num at this

/-- `int(n·s)` as the model computes it is the floor of `n·s` -/
theorem resizeSize_floor (n sn sd : Nat) (hsd : 0 < sd) :
    ((resizeSize n sn sd : Nat) : R) ≤ (n : R) * ((sn : R) / sd) ∧
    (n : R) * ((sn : R) / sd) < ((resizeSize n sn sd : Nat) : R) + 1 := by
  have hsdR : (0 : R) < sd := by exact_mod_cast hsd
  unfold resizeSize
  have h1 : (n * sn / sd) * sd ≤ n * sn := Nat.div_mul_le_self _ _
  have h2 : n * sn < (n * sn / sd + 1) * sd := by
    have := Nat.lt_div_mul_add (a := n * sn) hsd
    have e : (n * sn / sd + 1) * sd = n * sn / sd * sd + sd := by ring
    omega
  have h1R : ((n * sn / sd : Nat) : R) * sd ≤ (n : R) * sn := by exact_mod_cast h1
  have h2R : (n : R) * sn < (((n * sn / sd : Nat) : R) + 1) * sd := by exact_mod_cast h2
  have e : (n : R) * ((sn : R) / sd) = ((n : R) * sn) / sd := by ring
  rw [e]
  constructor
  · rw [le_div_iff₀ hsdR]; exact h1R
  · rw [div_lt_iff₀ hsdR]; exact h2R

/-- **registration of the rescaler**, exact range of the offset (content − keypoint):
`(s−1)/2 − 1 < offset ≤ (s−1)/2`; hence `|offset| < 1` whenever `1 ≤ s < 3`, and
`|offset| = |s−1|/2 < ½ …` when `n·s` is an integer (no truncation). -/
theorem resize_registered (n sn sd : Nat) (x : R) (hn : 0 < n) (hsd : 0 < sd)
    (hx0 : -(1 / 2) ≤ x) (hx1 : x ≤ (n : R) - 1 / 2) :
    let s : R := (sn : R) / sd
    let off := ((resizeContent Nat.cast n n (resizeSize n sn sd) (resizeSize n sn sd)).apply (x, x)).1
      - ((scaleKp s).apply (x, x)).1
    ((s - 1) / 2 - 1 < off ∧ off ≤ (s - 1) / 2) ∧
    (1 ≤ s → s < 3 → |off| < 1) ∧
    (((resizeSize n sn sd : Nat) : R) = (n : R) * s → off = (s - 1) / 2) := by
  simp only [resizeContent, scaleKp, Aff.apply_axis, add_zero]
  obtain ⟨f1, f2⟩ := resizeSize_floor (R := R) n sn sd hsd
  have b := axis_offset_floor n hn ((resizeSize n sn sd : Nat) : R) ((sn : R) / sd) x f1 f2 hx0 hx1
  refine ⟨b, ?_, ?_⟩
  · intro h1 h3
    rw [abs_lt]; constructor <;> linarith [b.1, b.2]
  · intro he
    exact axis_offset_exact n hn _ _ x he

example : resizeSize 384 1 2 = 192 ∧ resizeSize 203 3 10 = 60 := by decide

/-! ## instance cropping -/

/-- **crop registration is exact**: image content and keypoints are shifted by the same vector
(the top-left corner of the box), so whatever offset they had before is unchanged. -/
theorem crop_registered (st : St R) (c0 : R × R) (bh bw : Nat) (p : R × R) :
    let st' := step Nat.cast st (.cropAbout c0 bh bw)
    let tl := bboxTopLeft Nat.cast (st.kp.apply c0) bh bw
    st'.content.apply p = ((st.content.apply p).1 - tl.1, (st.content.apply p).2 - tl.2) ∧
    st'.kp.apply p = ((st.kp.apply p).1 - tl.1, (st.kp.apply p).2 - tl.2) ∧
    (st'.content.apply p).1 - (st'.kp.apply p).1 = (st.content.apply p).1 - (st.kp.apply p).1 ∧
    (st'.content.apply p).2 - (st'.kp.apply p).2 = (st.content.apply p).2 - (st.kp.apply p).2 := by
  simp only [step, St.both, Aff.apply_comp, Aff.apply_shiftBy]
  refine ⟨?_, ?_, ?_, ?_⟩ <;> first | trivial | rfl | ring

/-- the crop has exactly the requested size, and the box of `make_centered_bboxes` spans
`bw − 1` × `bh − 1` (unit sampling on `bw` × `bh` points) -/
theorem crop_size_exact (st : St R) (c0 : R × R) (bh bw : Nat) :
    (step Nat.cast st (.cropAbout c0 bh bw)).h = bh ∧
    (step Nat.cast st (.cropAbout c0 bh bw)).w = bw ∧
    (∀ c : R × R, ∀ tl tr br bl, centeredBBox Nat.cast c bh bw = [tl, tr, br, bl] →
      tr.1 - tl.1 = (bw : R) - 1 ∧ bl.2 - tl.2 = (bh : R) - 1 ∧ tr.2 = tl.2 ∧ bl.1 = tl.1 ∧
      br = (tr.1, bl.2) ∧ tl = bboxTopLeft Nat.cast c bh bw) := by
  refine ⟨rfl, rfl, ?_⟩
  intro c tl tr br bl hb
  simp only [centeredBBox, List.cons.injEq, and_true] at hb
  obtain ⟨h1, h2, h3, h4⟩ := hb
  subst h1; subst h2; subst h3; subst h4
  simp only [bboxTopLeft, half]
  refine ⟨?_, ?_, ?_, ?_, ?_, ?_⟩ <;> first | trivial | rfl | ring

/-- after a crop (and after the re-crop) the stored centroid sits at the centre
`((bw−1)/2, (bh−1)/2)` of the crop -/
theorem recrop_centred (st : St R) (c : R × R) (bh bw : Nat) (hc : st.centroid = some c) :
    (step Nat.cast st (.recrop bh bw)).centroid = some (((bw : R) - 1) / 2, ((bh : R) - 1) / 2) ∧
    (step Nat.cast st (.recrop bh bw)).h = bh ∧ (step Nat.cast st (.recrop bh bw)).w = bw ∧
    ∀ c0, (step Nat.cast st (.cropAbout c0 bh bw)).centroid
        = some (((bw : R) - 1) / 2, ((bh : R) - 1) / 2) := by
  simp only [step, hc, St.both, bboxTopLeft, half]
  refine ⟨?_, ?_, ?_, ?_⟩
  · congr 1; refine Prod.ext ?_ ?_ <;> simp only <;> ring
  · trivial
  · trivial
  · intro c0; congr 1; refine Prod.ext ?_ ?_ <;> simp only <;> ring

/-- the re-crop shifts content and keypoints alike (registration offset unchanged) -/
theorem recrop_registered (st : St R) (c : R × R) (bh bw : Nat) (hc : st.centroid = some c)
    (p : R × R) :
    let st' := step Nat.cast st (.recrop bh bw)
    (st'.content.apply p).1 - (st'.kp.apply p).1 = (st.content.apply p).1 - (st.kp.apply p).1 ∧
    (st'.content.apply p).2 - (st'.kp.apply p).2 = (st.content.apply p).2 - (st.kp.apply p).2 := by
  simp only [step, hc, St.both, Aff.apply_comp, Aff.apply_shiftBy]
  exact ⟨by ring, by ring⟩

/-- the `√2` over-crop is at least as large as the final crop, so the re-crop window about the
centre of the over-crop lies inside it -/
theorem overcrop_contains_recrop (c : Nat) :
    c ≤ overcropSize c ∧
    (0 : R) ≤ (bboxTopLeft Nat.cast ((((overcropSize c : Nat) : R) - 1) / 2,
        (((overcropSize c : Nat) : R) - 1) / 2) c c).1 ∧
    (bboxTopLeft Nat.cast ((((overcropSize c : Nat) : R) - 1) / 2,
        (((overcropSize c : Nat) : R) - 1) / 2) c c).1 + ((c : R) - 1)
      ≤ ((overcropSize c : Nat) : R) - 1 := by
  have h : c ≤ overcropSize c := by
    unfold overcropSize
    apply Nat.le_sqrt.mpr
    have : c * c ≤ 2 * c * c := by
      have : 2 * c * c = c * c + c * c := by ring
      omega
    exact this
  have hR : (c : R) ≤ ((overcropSize c : Nat) : R) := by exact_mod_cast h
  simp only [bboxTopLeft, half]
  refine ⟨h, by linarith, by linarith⟩

example : overcropSize 160 = 226 := by
  unfold overcropSize; symm; exact Nat.eq_sqrt.mpr ⟨by norm_num, by norm_num⟩

/-! ## crop size -/

/-- `find_instance_crop_size`: the result is a multiple of the stride and at least the requested
minimum; when it is computed (the user did not fix a stride-compatible size) it covers every
instance: `extent·scale + padding ≤ crop`. -/
theorem cropsize_multiple_and_covers (ceil : R → Int) (hceil : ∀ x, x ≤ ((ceil x : Int) : R))
    (insts : List (List (Option R × Option R))) (padding stride : Int) (hs : 0 < stride)
    (scaling : R) (minCrop? : Option Int) :
    let r := findCropSize ceil (fun i => (i : R)) insts padding stride scaling minCrop?
    r % stride = 0 ∧
    (¬ (minCrop?.getD 0 > 0 ∧ Int.fmod (minCrop?.getD 0) stride = 0) →
      ∀ inst ∈ insts,
        extent (inst.map fun p => p.1.map (· * scaling)) + (padding : R) ≤ (r : R) ∧
        extent (inst.map fun p => p.2.map (· * scaling)) + (padding : R) ≤ (r : R) ∧
        ((minCrop?.getD 0 : Int) : R) ≤ (r : R)) ∧
    ((minCrop?.getD 0 > 0 ∧ Int.fmod (minCrop?.getD 0) stride = 0) → r = minCrop?.getD 0) := by
  have hsR : (0 : R) < (stride : R) := by exact_mod_cast hs
  simp only [findCropSize]
  by_cases hc : minCrop?.getD 0 > 0 ∧ Int.fmod (minCrop?.getD 0) stride = 0
  · rw [if_pos hc]
    refine ⟨?_, fun h => absurd hc h, fun _ => rfl⟩
    rw [← Int.fmod_eq_emod_of_nonneg _ hs.le]; exact hc.2
  · rw [if_neg hc]
    refine ⟨Int.mul_emod_left _ _, ?_, fun h => absurd h hc⟩
    intro _ inst hi
    obtain ⟨gx, gy, gn⟩ := foldl_lenStep_ge scaling (((minCrop?.getD 0 - padding : Int)) : R)
      insts 0 inst hi
    generalize insts.foldl (lenStep scaling (((minCrop?.getD 0 - padding : Int)) : R)) 0 = L at *
    have hcl := hceil ((L + (padding : R)) / (stride : R))
    have hcov : L + (padding : R) ≤ ((ceil ((L + (padding : R)) / (stride : R)) * stride : Int) : R) := by
      push_cast
      have := (div_le_iff₀ hsR).mp hcl
      linarith
    push_cast at gn
    refine ⟨by linarith, by linarith, by linarith⟩

example : ∀ x : Rat, x ≤ ((Rat.ceil x : Int) : Rat) := fun _ => Rat.le_ceil

/-! ## augmentation -/

/-- **intensity augmentation never moves keypoints** (nor content): the model applies no
coordinate map at all; the harness checks the real tensors are bit-identical. -/
theorem intensity_keeps_keypoints (st : St R) :
    (step Nat.cast st .intensity).kp = st.kp ∧ (step Nat.cast st .intensity).content = st.content ∧
    (step Nat.cast st .intensity).h = st.h ∧ (step Nat.cast st .intensity).w = st.w :=
  ⟨rfl, rfl, rfl, rfl⟩

/-- **geometric augmentation uses one map for both**: keypoints get the reported matrix `A`, the
image gets its conjugate `S A S⁻¹` by the align-corners change of coordinates `S`. -/
theorem augment_same_map (st : St R) (A : Aff R) (p : R × R) :
    let st' := step Nat.cast st (.aug A)
    st'.kp.apply p = A.apply (st.kp.apply p) ∧
    st'.content.apply p =
      (warpS Nat.cast st.h st.w).apply (A.apply ((warpSinv Nat.cast st.h st.w).apply
        (st.content.apply p))) ∧
    st'.h = st.h ∧ st'.w = st.w := by
  simp only [step, warpContent, Aff.apply_comp]
  refine ⟨?_, ?_, ?_, ?_⟩ <;> trivial

/-- `warpSinv` really is the inverse of `warpS` -/
theorem warpS_inv (h w : Nat) (hh : 1 < h) (hw : 1 < w) (p : R × R) :
    (warpS Nat.cast h w).apply ((warpSinv Nat.cast h w).apply p) = p := by
  have hhR : (1 : R) < h := by exact_mod_cast hh
  have hwR : (1 : R) < w := by exact_mod_cast hw
  have h1 : (h : R) - 1 ≠ 0 := by linarith
  have h2 : (w : R) - 1 ≠ 0 := by linarith
  have h3 : (h : R) ≠ 0 := by linarith
  have h4 : (w : R) ≠ 0 := by linarith
  simp only [warpS, warpSinv, Aff.apply_axis, half]
  refine Prod.ext ?_ ?_ <;> simp only <;> field_simp <;> ring

/-- on a **square** image `S` is a uniform zoom about the image centre, so for every affine map
that fixes the centre (rotation and isotropic/anisotropic scaling about the centre — everything
`RandomAffine` does except translation) the warp of the image is exactly the keypoint map. -/
theorem augment_registered_square (n : Nat) (hn : 1 < n) (A : Aff R) (p : R × R)
    (hfix : A.apply ((((n : R) - 1) / 2), (((n : R) - 1) / 2)) =
      ((((n : R) - 1) / 2), (((n : R) - 1) / 2))) :
    (warpContent Nat.cast n n A).apply p = A.apply p := by
  have hnR : (1 : R) < n := by exact_mod_cast hn
  have h1 : (n : R) - 1 ≠ 0 := by linarith
  have h3 : (n : R) ≠ 0 := by linarith
  simp only [Aff.apply, Prod.mk.injEq] at hfix
  obtain ⟨f1, f2⟩ := hfix
  simp only [warpContent, Aff.apply_comp, warpS, warpSinv, Aff.apply_axis, half]
  simp only [Aff.apply]
  have e1 : A.c = ((n : R) - 1) / 2 - A.a * (((n : R) - 1) / 2) - A.b * (((n : R) - 1) / 2) := by
    linarith
  have e2 : A.f = ((n : R) - 1) / 2 - A.d * (((n : R) - 1) / 2) - A.e * (((n : R) - 1) / 2) := by
    linarith
  rw [e1, e2]
  refine Prod.ext ?_ ?_ <;> simp only <;> field_simp <;> ring

/-- with a translation `t` on top, the image moves by `t·n/(n−1)`: the registration offset of a
square image is `t/(n−1)` (0.1 px for a 10 % shift of a 384-px image) -/
theorem augment_translation_offset (n : Nat) (hn : 1 < n) (tx ty : R) (p : R × R) :
    (warpContent Nat.cast n n ⟨1, 0, tx, 0, 1, ty⟩).apply p =
      (p.1 + tx + tx / ((n : R) - 1), p.2 + ty + ty / ((n : R) - 1)) := by
  have hnR : (1 : R) < n := by exact_mod_cast hn
  have h1 : (n : R) - 1 ≠ 0 := by linarith
  have h3 : (n : R) ≠ 0 := by linarith
  simp only [warpContent, Aff.apply_comp, warpS, warpSinv, Aff.apply_axis, half]
  simp only [Aff.apply]
  refine Prod.ext ?_ ?_ <;> simp only <;> field_simp <;> ring

/-! ## the Dataset chain `size matcher → resizer → stride padding` -/

/-- For the chain every Dataset's `_fill_cache` runs, when both integer targets are exact, the
registration offset is exactly the half-pixel term of the **total** factor `f = eff·scale`:
`(f − 1)/2` on both axes (stride padding adds nothing). -/
theorem chain_offset_exact (h w mh mw sn sd st : Nat) (p : R × R) (hh : 0 < h) (hw : 0 < w)
    (hmh : 0 < mh) (hmw : 0 < mw) (hne : h ≠ mh ∨ w ≠ mw) (hs : sn ≠ sd) (hsd : 0 < sd)
    (eff : R) (heff : eff = ((sizematch h w (some mh) (some mw)).effN : R) / (sizematch h w (some mh) (some mw)).effD)
    (e1 : ((sizematch h w (some mh) (some mw)).tw : R) = (w : R) * eff)
    (e2 : ((sizematch h w (some mh) (some mw)).th : R) = (h : R) * eff)
    (e3 : ((resizeSize mw sn sd : Nat) : R) = (mw : R) * ((sn : R) / sd))
    (e4 : ((resizeSize mh sn sd : Nat) : R) = (mh : R) * ((sn : R) / sd)) :
    let s := run Nat.cast h w [.sizematch (some mh) (some mw), .resize sn sd, .pad st]
    (s.content.apply p).1 - (s.kp.apply p).1 = (eff * ((sn : R) / sd) - 1) / 2 ∧
    (s.content.apply p).2 - (s.kp.apply p).2 = (eff * ((sn : R) / sd) - 1) / 2 := by
  have hap := (sizematch_rel (R := R) h w mh mw hh hw hne).1
  have hhR : (h : R) ≠ 0 := by exact_mod_cast hh.ne'
  have hwR : (w : R) ≠ 0 := by exact_mod_cast hw.ne'
  have hmhR : (mh : R) ≠ 0 := by exact_mod_cast hmh.ne'
  have hmwR : (mw : R) ≠ 0 := by exact_mod_cast hmw.ne'
  simp only [run, List.foldl, step, St.init, hap, if_true, if_pos hs, Option.getD_some,
    Aff.apply_comp, Aff.apply_ident, resizeContent, scaleKp, Aff.apply_axis, ← heff, e1, e2, e3, e4]
  have r1 : (w : R) * eff / w = eff := by field_simp
  have r2 : (h : R) * eff / h = eff := by field_simp
  have r3 : (mw : R) * ((sn : R) / sd) / mw = (sn : R) / sd := by field_simp
  have r4 : (mh : R) * ((sn : R) / sd) / mh = (sn : R) / sd := by field_simp
  rw [r1, r2, r3, r4]
  constructor <;> ring

/-- … hence the chain is registered (`< 1` px) exactly when the total factor is below 3
(F-C04 is the other half: `f ≥ 3 → offset ≥ 1`). -/
theorem chain_registered_iff_lt_three (f : R) (hf : 0 < f) :
    (|(f - 1) / 2| < 1 ↔ f < 3) ∧ (3 ≤ f → 1 ≤ (f - 1) / 2) := by
  refine ⟨⟨fun h => ?_, fun h => ?_⟩, fun h => by linarith⟩
  · have := (abs_lt.mp h).2; linarith
  · rw [abs_lt]; constructor <;> linarith

example : sizematch 16 16 (some 32) (some 32) = ⟨32, 32, 32, 16, true⟩ ∧ resizeSize 32 1 2 = 16 := by
  decide

/-! ## reading a Dataset repeatedly: every per-read theorem is independent of the read history

Model fact that carries it: `getItem` returns the cache it was given (`getItem_cache_unchanged`) —
`__getitem__` rebinds keys of a shallow copy and never writes a cached tensor — so a read is a
function of (cached entry, this read's draw) only. -/

/-- a read never changes the cache -/
theorem getItem_cache_unchanged (cache : List (St R)) (idx : Nat) (ops : List (Op R)) :
    (getItem Nat.cast cache idx ops).2 = cache := rfl

/-- **history independence**: the `k`-th sample of any read history is what a single read of that
index on the freshly filled cache gives, and the cache after the history is the initial one. -/
theorem read_history_independent (cache : List (St R)) (reads : List (Nat × List (Op R))) :
    (readAll Nat.cast cache reads).1 = reads.map (fun r => (getItem Nat.cast cache r.1 r.2).1) ∧
    (readAll Nat.cast cache reads).2 = cache := by
  induction reads with
  | nil => exact ⟨rfl, rfl⟩
  | cons r rest ih =>
    obtain ⟨i, ops⟩ := r
    simp only [readAll, getItem_cache_unchanged, List.map_cons]
    exact ⟨by rw [ih.1], ih.2⟩

/-- a full chain is "fill the cache, then read": the stateless `run` the driver executes per read
is `getItem` on the cache entry `run pre` -/
theorem chain_split (h w : Nat) (pre post : List (Op R)) :
    (getItem Nat.cast [run Nat.cast h w pre] 0 post).1 = some (run Nat.cast h w (pre ++ post)) := by
  simp [getItem, run, List.foldl_append]

/-- **registration on every read** (centred-instance class, augmentation off): whatever was read
before — the same index any number of times, other indices in between — the `k`-th read re-crops
about the cached centroid, returns it at the crop centre, and leaves the registration offset of
the cached entry unchanged on both axes. -/
theorem reread_registered (cache : List (St R)) (reads : List (Nat × List (Op R))) (k i : Nat)
    (bh bw st : Nat) (hk : reads[k]? = some (i, [.recrop bh bw, .pad st]))
    (s : St R) (hs : cache[i]? = some s) (c : R × R) (hc : s.centroid = some c) (p : R × R) :
    ∃ out, (readAll Nat.cast cache reads).1[k]? = some (some out) ∧
      out.centroid = some (((bw : R) - 1) / 2, ((bh : R) - 1) / 2) ∧
      (out.content.apply p).1 - (out.kp.apply p).1 = (s.content.apply p).1 - (s.kp.apply p).1 ∧
      (out.content.apply p).2 - (out.kp.apply p).2 = (s.content.apply p).2 - (s.kp.apply p).2 := by
  refine ⟨step Nat.cast (step Nat.cast s (.recrop bh bw)) (.pad st), ?_, ?_, ?_, ?_⟩
  · rw [(read_history_independent cache reads).1, List.getElem?_map, hk]
    simp [getItem, hs]
  · exact (recrop_centred s c bh bw hc).1
  · exact (recrop_registered s c bh bw hc p).1
  · exact (recrop_registered s c bh bw hc p).2


/-! ## geometric augmentation on non-square frames: exact offset, in-frame bound, counterexample -/


/-- image centre -/
def centre (h w : Nat) : R × R := (((w : R) - 1) / 2, ((h : R) - 1) / 2)

theorem augment_offset (h w : Nat) (hh : 1 < h) (hw : 1 < w) (A : Aff R) (p : R × R) :
    let c : R × R := centre h w
    let t : R × R := ((A.apply c).1 - c.1, (A.apply c).2 - c.2)
    ((warpContent Nat.cast h w A).apply p).1 - (A.apply p).1 =
      A.b * (((w : R) / ((w : R) - 1)) / ((h : R) / ((h : R) - 1)) - 1) * (p.2 - c.2) + t.1 / ((w : R) - 1) ∧
    ((warpContent Nat.cast h w A).apply p).2 - (A.apply p).2 =
      A.d * (((h : R) / ((h : R) - 1)) / ((w : R) / ((w : R) - 1)) - 1) * (p.1 - c.1) + t.2 / ((h : R) - 1) := by
  have hhR : (1 : R) < h := by exact_mod_cast hh
  have hwR : (1 : R) < w := by exact_mod_cast hw
  have h1 : (h : R) - 1 ≠ 0 := by linarith
  have h2 : (w : R) - 1 ≠ 0 := by linarith
  have h3 : (h : R) ≠ 0 := by linarith
  have h4 : (w : R) ≠ 0 := by linarith
  simp only [centre, warpContent, Aff.apply_comp, warpS, warpSinv, Aff.apply_axis, half]
  simp only [Aff.apply]
  constructor <;> field_simp <;> ring

/-- scalar core of the in-frame bound -/
theorem offset_core (D rho V T n1 Y c E U : R) (hn : 0 < n1) (hDV : D * V = Y - c - T - E * U)
    (hY : |Y - c| ≤ c) (hU : |U| ≤ c) :
    |D * rho * V + T / n1| ≤ |rho| * ((1 + |E|) * c + |T|) + |T| / n1 := by
  have hc : 0 ≤ c := le_trans (abs_nonneg _) hU
  have e1 : D * rho * V = rho * (D * V) := by ring
  have b1 : |D * V| ≤ (1 + |E|) * c + |T| := by
    rw [hDV]
    have : |Y - c - T - E * U| ≤ |Y - c| + |T| + |E * U| := by
      calc |Y - c - T - E * U| = |(Y - c) + (-T) + (-(E * U))| := by ring_nf
        _ ≤ |(Y - c) + (-T)| + |-(E * U)| := abs_add_le _ _
        _ ≤ |Y - c| + |-T| + |-(E * U)| := by linarith [abs_add_le (Y - c) (-T)]
        _ = |Y - c| + |T| + |E * U| := by rw [abs_neg, abs_neg]
    have h2 : |E * U| ≤ |E| * c := by rw [abs_mul]; exact mul_le_mul_of_nonneg_left hU (abs_nonneg _)
    nlinarith [abs_nonneg E]
  calc |D * rho * V + T / n1| ≤ |D * rho * V| + |T / n1| := abs_add_le _ _
    _ = |rho| * |D * V| + |T| / n1 := by rw [e1, abs_mul, abs_div, abs_of_pos hn]
    _ ≤ |rho| * ((1 + |E|) * c + |T|) + |T| / n1 := by
        have := mul_le_mul_of_nonneg_left b1 (abs_nonneg rho)
        linarith

/-- **in-frame bound for the geometric augmentation** (any image shape, any affine `A`): when `p`
and its keypoint image `A p` both lie in the frame, image content and keypoint differ by at most
`|ρ|·((1+|A.e|)·(h−1)/2 + |t_y|) + |t_y|/(h−1)` vertically (and symmetrically horizontally), where
`ρ = (h/(h−1))/(w/(w−1)) − 1 = (w−h)/((h−1)·w)` and `t` is how far `A` moves the image centre.
For a square image `ρ = 0`: only the translation term `|t|/(n−1)` remains. -/
theorem augment_offset_bound_inframe (h w : Nat) (hh : 1 < h) (hw : 1 < w) (A : Aff R) (p : R × R)
    (px : 0 ≤ p.1 ∧ p.1 ≤ (w : R) - 1) (py : 0 ≤ p.2 ∧ p.2 ≤ (h : R) - 1)
    (qx : 0 ≤ (A.apply p).1 ∧ (A.apply p).1 ≤ (w : R) - 1)
    (qy : 0 ≤ (A.apply p).2 ∧ (A.apply p).2 ≤ (h : R) - 1) :
    let c : R × R := centre h w
    let t : R × R := ((A.apply c).1 - c.1, (A.apply c).2 - c.2)
    |((warpContent Nat.cast h w A).apply p).1 - (A.apply p).1| ≤
      |((w : R) / ((w : R) - 1)) / ((h : R) / ((h : R) - 1)) - 1| * ((1 + |A.a|) * (((w : R) - 1) / 2) + |t.1|)
        + |t.1| / ((w : R) - 1) ∧
    |((warpContent Nat.cast h w A).apply p).2 - (A.apply p).2| ≤
      |((h : R) / ((h : R) - 1)) / ((w : R) / ((w : R) - 1)) - 1| * ((1 + |A.e|) * (((h : R) - 1) / 2) + |t.2|)
        + |t.2| / ((h : R) - 1) := by
  have hhR : (1 : R) < h := by exact_mod_cast hh
  have hwR : (1 : R) < w := by exact_mod_cast hw
  obtain ⟨ex, ey⟩ := augment_offset h w hh hw A p
  simp only at ex ey
  simp only
  rw [ex, ey]
  constructor
  · apply offset_core (Y := (A.apply p).1) (E := A.a) (U := p.1 - (centre h w : R × R).1)
    · linarith
    · simp only [centre, Aff.apply]; ring
    · rw [abs_le]; constructor <;> linarith [qx.1, qx.2]
    · simp only [centre]; rw [abs_le]; constructor <;> linarith [px.1, px.2]
  · apply offset_core (Y := (A.apply p).2) (E := A.e) (U := p.2 - (centre h w : R × R).2)
    · linarith
    · simp only [centre, Aff.apply]; ring
    · rw [abs_le]; constructor <;> linarith [qy.1, qy.2]
    · simp only [centre]; rw [abs_le]; constructor <;> linarith [py.1, py.2]

/-- the shape factor in closed form -/
theorem shape_factor (h w : Nat) (hh : 1 < h) (hw : 1 < w) :
    ((h : R) / ((h : R) - 1)) / ((w : R) / ((w : R) - 1)) - 1 = ((w : R) - h) / (((h : R) - 1) * w) := by
  have hhR : (1 : R) < h := by exact_mod_cast hh
  have hwR : (1 : R) < w := by exact_mod_cast hw
  have h1 : (h : R) - 1 ≠ 0 := by linarith
  have h2 : (w : R) - 1 ≠ 0 := by linarith
  have h3 : (h : R) ≠ 0 := by linarith
  have h4 : (w : R) ≠ 0 := by linarith
  field_simp
  ring

/-- Full-strength statement for the geometric augmentation: in-frame content within one pixel of
the keypoint for every affine map.  **False** of kornia's warp on elongated frames (F-C04c). -/
def AugmentRegisteredInFrame (R : Type) [Field R] [LinearOrder R] [IsStrictOrderedRing R] : Prop :=
  ∀ (h w : Nat) (A : Aff R) (p : R × R), 1 < h → 1 < w →
    0 ≤ p.1 → p.1 ≤ (w : R) - 1 → 0 ≤ p.2 → p.2 ≤ (h : R) - 1 →
    0 ≤ (A.apply p).1 → (A.apply p).1 ≤ (w : R) - 1 → 0 ≤ (A.apply p).2 → (A.apply p).2 ≤ (h : R) - 1 →
    |((warpContent Nat.cast h w A).apply p).2 - (A.apply p).2| < 1

/-- F-C04c witness: 24×240 frame, rotation by the (40, 9, 41) angle (≈ 12.7°) with zoom 1.3 about
the centre, point (210.5, 0) ↦ keypoint (238.2…, 22.5…) (both in frame): the image content is
1.016 px below the keypoint. -/
theorem augment_registered_counterexample : ¬ AugmentRegisteredInFrame Rat := by
  intro H
  have := H 24 240 ⟨13 / 10 * (40 / 41), -(13 / 10 * (9 / 41)), 239 / 2 - 13 / 10 * (40 / 41) * (239 / 2) + 13 / 10 * (9 / 41) * (23 / 2),
      13 / 10 * (9 / 41), 13 / 10 * (40 / 41), 23 / 2 - 13 / 10 * (9 / 41) * (239 / 2) - 13 / 10 * (40 / 41) * (23 / 2)⟩
    (421 / 2, 0) (by decide) (by decide) (by norm_num) (by norm_num) (by norm_num) (by norm_num)
    (by simp only [Aff.apply]; norm_num) (by simp only [Aff.apply]; norm_num)
    (by simp only [Aff.apply]; norm_num) (by simp only [Aff.apply]; norm_num)
  simp only [warpContent, Aff.apply_comp, warpS, warpSinv, Aff.apply_axis, half] at this
  simp only [Aff.apply] at this
  rw [abs_lt] at this
  norm_num at this


example : (warpContent (R := Rat) Nat.cast 5 5 ⟨0, -1, 4, 1, 0, 0⟩).apply (1, 3) =
    (⟨0, -1, 4, 1, 0, 0⟩ : Aff Rat).apply (1, 3) :=
  augment_registered_square 5 (by decide) _ _ (by simp [Aff.apply]; norm_num)

/-! ## end-to-end chains of the four Dataset classes (theorems about `run`) -/


/-- registration offset (content − keypoint) of a state at input point `p` -/
def offset (st : St R) (p : R × R) : R × R :=
  ((st.content.apply p).1 - (st.kp.apply p).1, (st.content.apply p).2 - (st.kp.apply p).2)

theorem run_snoc (h w : Nat) (pre : List (Op R)) (op : Op R) :
    run Nat.cast h w (pre ++ [op]) = step Nat.cast (run Nat.cast h w pre) op := by
  simp [run, List.foldl_append]

theorem run_append (h w : Nat) (pre post : List (Op R)) :
    run Nat.cast h w (pre ++ post) = post.foldl (step Nat.cast) (run Nat.cast h w pre) := by
  simp [run, List.foldl_append]

/-- stride pad, intensity augmentation, crop and re-crop leave the offset as it is -/
theorem offset_pad (st : St R) (s : Nat) (p : R × R) :
    offset (step Nat.cast st (.pad s)) p = offset st p := rfl

theorem offset_intensity (st : St R) (p : R × R) :
    offset (step Nat.cast st .intensity) p = offset st p := rfl

theorem offset_crop (st : St R) (c0 : R × R) (bh bw : Nat) (p : R × R) :
    offset (step Nat.cast st (.cropAbout c0 bh bw)) p = offset st p := by
  obtain ⟨_, _, a, b⟩ := crop_registered st c0 bh bw p
  exact Prod.ext a b

theorem offset_recrop (st : St R) (bh bw : Nat) (p : R × R) :
    offset (step Nat.cast st (.recrop bh bw)) p = offset st p := by
  cases hc : st.centroid with
  | none => simp [step, hc]
  | some c =>
    obtain ⟨a, b⟩ := recrop_registered st c bh bw hc p
    exact Prod.ext a b

/-- what the **resizer** does to an existing offset `δ`: scales it by `s` and adds its own
axis offset taken at the content position `q` -/
theorem offset_resize (st : St R) (sn sd : Nat) (hne : sn ≠ sd) (p : R × R) :
    let q := st.content.apply p
    let s : R := (sn : R) / sd
    let rx : R := ((resizeSize st.w sn sd : Nat) : R) / st.w
    let ry : R := ((resizeSize st.h sn sd : Nat) : R) / st.h
    offset (step Nat.cast st (.resize sn sd)) p =
      ((rx * q.1 + (rx - 1) / 2 - s * q.1) + s * (offset st p).1,
       (ry * q.2 + (ry - 1) / 2 - s * q.2) + s * (offset st p).2) := by
  simp only [offset, step, if_pos hne, Aff.apply_comp, resizeContent, scaleKp, Aff.apply_axis]
  refine Prod.ext ?_ ?_ <;> simp only <;> ring

/-- what the **geometric augmentation** does to an existing offset `δ`: the linear part of `A`
acts on it, and the warp's own offset (`augment_offset`, `augment_offset_bound_inframe`) at the
content position `q` is added.  With `align_corners=True` only the linear part remains. -/
theorem offset_aug (st : St R) (A : Aff R) (p : R × R) :
    let q := st.content.apply p
    let δ := offset st p
    offset (step Nat.cast st (.aug A)) p =
      (((warpContent Nat.cast st.h st.w A).apply q).1 - (A.apply q).1 + (A.a * δ.1 + A.b * δ.2),
       ((warpContent Nat.cast st.h st.w A).apply q).2 - (A.apply q).2 + (A.d * δ.1 + A.e * δ.2)) ∧
    offset (step Nat.cast st (.augAligned A)) p = (A.a * δ.1 + A.b * δ.2, A.d * δ.1 + A.e * δ.2) := by
  constructor
  · simp only [offset, step, Aff.apply_comp]
    simp only [Aff.apply]
    refine Prod.ext ?_ ?_ <;> simp only <;> ring
  · simp only [offset, step, St.both, Aff.apply_comp]
    simp only [Aff.apply]
    refine Prod.ext ?_ ?_ <;> simp only <;> ring

/-- sizes: crop, re-crop and pad -/
theorem size_after_pad (st : St R) (s : Nat) :
    ((step Nat.cast st (.pad s)).h, (step Nat.cast st (.pad s)).w) = padToStrideSize st.h st.w s := rfl

theorem centroid_after_crop (st : St R) (c0 : R × R) (oh ow : Nat) :
    (step Nat.cast st (.cropAbout c0 oh ow)).centroid = some (((ow : R) - 1) / 2, ((oh : R) - 1) / 2) := by
  simp only [step, St.both, bboxTopLeft, half]
  congr 1; refine Prod.ext ?_ ?_ <;> simp only <;> ring

/-- **CenteredInstanceDataset chain, end to end** (`pre` = size matcher and resizer, then
over-crop about the centroid, intensity augmentation, re-crop, stride pad): final size is the crop
size padded to the stride, the centroid is returned at the crop centre, and the registration offset
is the one after `pre` — cropping, re-cropping and padding add nothing. -/
theorem centered_chain (h w : Nat) (pre : List (Op R)) (c0 : R × R) (oh ow bh bw st : Nat)
    (hst : 0 < st) (p : R × R) :
    let s0 := run Nat.cast h w pre
    let s := run Nat.cast h w (pre ++ [.cropAbout c0 oh ow, .intensity, .recrop bh bw, .pad st])
    (s.h, s.w) = padToStrideSize bh bw st ∧ s.h % st = 0 ∧ s.w % st = 0 ∧
    bh ≤ s.h ∧ s.h < bh + st ∧ bw ≤ s.w ∧ s.w < bw + st ∧
    s.centroid = some (((bw : R) - 1) / 2, ((bh : R) - 1) / 2) ∧
    offset s p = offset s0 p := by
  intro s0 s
  let s1 := step Nat.cast s0 (.cropAbout c0 oh ow)
  let s2 := step Nat.cast s1 .intensity
  let s3 := step Nat.cast s2 (.recrop bh bw)
  have hs : s = step Nat.cast s3 (.pad st) := by
    simp only [s, s0, s1, s2, s3, run_append, List.foldl]
  have hc2 : s2.centroid = some (((ow : R) - 1) / 2, ((oh : R) - 1) / 2) := centroid_after_crop s0 c0 oh ow
  obtain ⟨c3, h3, w3, _⟩ := recrop_centred s2 _ bh bw hc2
  have hsz : (s.h, s.w) = padToStrideSize bh bw st := by
    rw [hs, size_after_pad]; show padToStrideSize s3.h s3.w st = _; rw [h3, w3]
  obtain ⟨m1, m2, b1, b2, b3, b4⟩ := pad_size_multiple bh bw st hst
  have eh : s.h = (padToStrideSize bh bw st).1 := congrArg Prod.fst hsz
  have ew : s.w = (padToStrideSize bh bw st).2 := congrArg Prod.snd hsz
  refine ⟨hsz, by rw [eh]; exact m1, by rw [ew]; exact m2, by rw [eh]; exact b1, by rw [eh]; exact b2,
    by rw [ew]; exact b3, by rw [ew]; exact b4, ?_, ?_⟩
  · rw [hs]; exact c3
  · rw [hs, offset_pad]
    show offset s3 p = _
    rw [show s3 = step Nat.cast s2 (.recrop bh bw) from rfl, offset_recrop,
      show s2 = step Nat.cast s1 .intensity from rfl, offset_intensity,
      show s1 = step Nat.cast s0 (.cropAbout c0 oh ow) from rfl, offset_crop]

/-- **BottomUp / SingleInstance / Centroid chain, end to end** (`pre` = size matcher and resizer,
then stride pad and intensity augmentation): final size is the resized size padded to the stride
(a multiple of it, less than one stride larger), offset as after `pre`. -/
theorem base_chain (h w : Nat) (pre : List (Op R)) (st : Nat) (hst : 0 < st) (p : R × R) :
    let s0 := run Nat.cast h w pre
    let s := run Nat.cast h w (pre ++ [.pad st, .intensity])
    (s.h, s.w) = padToStrideSize s0.h s0.w st ∧ s.h % st = 0 ∧ s.w % st = 0 ∧
    s0.h ≤ s.h ∧ s.h < s0.h + st ∧ s0.w ≤ s.w ∧ s.w < s0.w + st ∧
    offset s p = offset s0 p := by
  intro s0 s
  have hs : s = step Nat.cast (step Nat.cast s0 (.pad st)) .intensity := by
    simp only [s, s0, run_append, List.foldl]
  have hsz : (s.h, s.w) = padToStrideSize s0.h s0.w st := by rw [hs]; rfl
  obtain ⟨m1, m2, b1, b2, b3, b4⟩ := pad_size_multiple s0.h s0.w st hst
  have eh : s.h = (padToStrideSize s0.h s0.w st).1 := congrArg Prod.fst hsz
  have ew : s.w = (padToStrideSize s0.h s0.w st).2 := congrArg Prod.snd hsz
  refine ⟨hsz, by rw [eh]; exact m1, by rw [ew]; exact m2, by rw [eh]; exact b1, by rw [eh]; exact b2,
    by rw [ew]; exact b3, by rw [ew]; exact b4, ?_⟩
  rw [hs, offset_intensity, offset_pad]

/-- **offset after size matcher + resizer with inexact integer targets** (x axis; y alike): for a
pixel centre inside the frame, `|offset| ≤ (|s−1|/2 + 1) + s·(|eff−1|/2 + ½)` — the resizer's own
half-pixel term and truncation (`< 1`), plus `s` times the size matcher's half-pixel term and
rounding (`≤ ½`).  With exact targets this collapses to `chain_offset_exact`. -/
theorem sm_rs_offset_bound (h w mh mw sn sd : Nat) (p : R × R) (hh : 0 < h) (hw : 0 < w)
    (hmw : 0 < mw) (hne : h ≠ mh ∨ w ≠ mw) (hs : sn ≠ sd) (hsd : 0 < sd)
    (hx0 : -(1 / 2) ≤ p.1) (hx1 : p.1 ≤ (w : R) - 1 / 2) :
    let o := sizematch h w (some mh) (some mw)
    let eff : R := (o.effN : R) / o.effD
    let s : R := (sn : R) / sd
    |(offset (run Nat.cast h w [.sizematch (some mh) (some mw), .resize sn sd]) p).1| ≤
      (|s - 1| / 2 + 1) + s * (|eff - 1| / 2 + 1 / 2) := by
  intro o eff s
  obtain ⟨hap, hrel⟩ := sizematch_rel (R := R) h w mh mw hh hw hne
  have hwR : (0 : R) < w := by exact_mod_cast hw
  have hs0 : 0 ≤ s := div_nonneg (Nat.cast_nonneg _) (Nat.cast_nonneg _)
  -- state after the size matcher
  let s1 := step Nat.cast (St.init (R := R) h w) (.sizematch (some mh) (some mw))
  have hrun : run Nat.cast h w [.sizematch (some mh) (some mw), .resize sn sd] =
      step Nat.cast s1 (.resize sn sd) := by simp only [run, List.foldl, s1]
  have hw1 : s1.w = mw := by simp only [s1, step, St.init, hap, if_true, Option.getD_some]
  have hq : (s1.content.apply p).1 = ((o.tw : R) / w) * p.1 + ((o.tw : R) / w - 1) / 2 := by
    simp only [s1, step, hap, if_true, St.init, Aff.apply_comp, Aff.apply_ident, resizeContent,
      Aff.apply_axis, o]
  have hk : (s1.kp.apply p).1 = eff * p.1 := by
    simp only [s1, step, hap, if_true, St.init, Aff.apply_comp, Aff.apply_ident, scaleKp,
      Aff.apply_axis, o, eff, add_zero]
  have hδ : |(offset s1 p).1| ≤ |eff - 1| / 2 + 1 / 2 := by
    simp only [offset, hq, hk]
    exact axis_offset_bound w hw (o.tw : R) eff p.1 _ hrel.tw_round hx0 hx1
  -- content position stays inside the (padded) frame
  have htw := (sizematch_exact_size (R := R) h w mh mw o.th o.tw eff hh hw hrel).2.1
  have htwR : ((o.tw : Nat) : R) ≤ mw := by exact_mod_cast htw
  have hr0 : 0 ≤ (o.tw : R) / w := div_nonneg (Nat.cast_nonneg _) hwR.le
  have hq0 : -(1 / 2) ≤ (s1.content.apply p).1 := by
    rw [hq]; nlinarith
  have hq1 : (s1.content.apply p).1 ≤ (mw : R) - 1 / 2 := by
    rw [hq]
    have : (o.tw : R) / w * (p.1 + 1 / 2) ≤ (o.tw : R) / w * w := mul_le_mul_of_nonneg_left (by linarith) hr0
    have e : (o.tw : R) / w * w = o.tw := by field_simp
    nlinarith
  obtain ⟨f1, f2⟩ := resizeSize_floor (R := R) mw sn sd hsd
  have hrs : |((resizeSize mw sn sd : Nat) : R) - (mw : R) * s| ≤ 1 := by
    rw [abs_le]; constructor <;> linarith
  have hb := axis_offset_bound mw hmw ((resizeSize mw sn sd : Nat) : R) s (s1.content.apply p).1 1 hrs hq0 hq1
  rw [hrun]
  have ho := offset_resize s1 sn sd hs p
  simp only at ho
  rw [ho, hw1]
  calc _ ≤ |(((resizeSize mw sn sd : Nat) : R) / mw) * (s1.content.apply p).1 +
            ((((resizeSize mw sn sd : Nat) : R) / mw) - 1) / 2 - s * (s1.content.apply p).1| +
            |s * (offset s1 p).1| := abs_add_le _ _
    _ ≤ (|s - 1| / 2 + 1) + s * (|eff - 1| / 2 + 1 / 2) := by
        rw [abs_mul, abs_of_nonneg hs0]
        have := mul_le_mul_of_nonneg_left hδ hs0
        linarith


/-- hypotheses of `recrop_centred` / `recrop_registered` / `reread_registered` are met by a real
chain: a 40×40 frame over-cropped to 22×22 about (20, 20), read twice -/
example : True := by
  have h := reread_registered (R := Rat) [run Nat.cast 40 40 [.cropAbout (20, 20) 22 22]]
    [(0, [.recrop 16 16, .pad 16]), (0, [.recrop 16 16, .pad 16])] 1 0 16 16 16 rfl
    (run Nat.cast 40 40 [.cropAbout (20, 20) 22 22]) rfl (21/2, 21/2)
    (by simp [run, step, St.init, St.both, bboxTopLeft, half, Aff.apply, Aff.ident]; norm_num) (3, 4)
  trivial

/-! ## size matcher with `None` arguments, crop size on empty labels -/

/-- `max_height=None` / `max_width=None` mean "this frame's own size": every size-matcher theorem
above (stated for `some`, `some`) applies with `mh := mh?.getD h`, `mw := mw?.getD w`. -/
theorem sizematch_option (h w : Nat) (mh? mw? : Option Nat) :
    sizematch h w mh? mw? = sizematch h w (some (mh?.getD h)) (some (mw?.getD w)) ∧
    sizematchOutSize h w mh? mw? = sizematchOutSize h w (some (mh?.getD h)) (some (mw?.getD w)) := by
  cases mh? <;> cases mw? <;> simp [sizematch, sizematchOutSize]

/-- … in particular the output size is exactly `(mh?.getD h, mw?.getD w)` -/
theorem sizematch_out_size_option (h w : Nat) (mh? mw? : Option Nat) (hh : 0 < h) (hw : 0 < w) :
    sizematchOutSize h w mh? mw? = (((mh?.getD h : Nat) : Int), ((mw?.getD w : Nat) : Int)) := by
  rw [(sizematch_option h w mh? mw?).2]; exact sizematch_out_size h w _ _ hh hw

/-- **crop size on labels without any instance** (not covered by `cropsize_multiple_and_covers`,
whose `≥ min crop` clause is per instance): the loop body never runs, so unless the user's size
is returned early the result is `ceil(padding/stride)·stride` — the requested minimum is ignored. -/
theorem cropsize_empty (ceil : R → Int) (padding stride : Int) (scaling : R) (minCrop? : Option Int)
    (hne : ¬ (minCrop?.getD 0 > 0 ∧ Int.fmod (minCrop?.getD 0) stride = 0)) :
    findCropSize ceil (fun i => (i : R)) [] padding stride scaling minCrop? =
      ceil ((0 + (padding : R)) / (stride : R)) * stride := by
  simp only [findCropSize, if_neg hne, List.foldl]

/-- the docstring's "≥ min_crop_size" fails there: no instances, `min_crop_size = 100`, stride 16
(100 is not a multiple of 16) gives 0.  The harness generates this case and the real function
returns 0 as well; labels without instances are outside C04's quantifier (assumption, not finding). -/
theorem cropsize_empty_below_min :
    findCropSize Rat.ceil (fun i => (i : Rat)) [] 0 16 1 (some 100) = 0 := by
  rw [cropsize_empty (R := Rat) Rat.ceil 0 16 1 (some 100) (by decide)]
  norm_num [Rat.ceil]

end SleapVerif.C04
