import SleapVerif.Lemmas.ArchAll
import SleapVerif.Gen.TranslatedArch
import SleapVerif.Model.Grid
/-!
# C14 — every valid model configuration yields outputs of the contracted shape

Statements are about `SleapVerif.Arch` (hand model of the stride / channel / size bookkeeping of
`sleap_nn.architectures.{model,unet,encoder_decoder,convnext,swint,heads,common}`, tied to the
code by `harness/c14.py`) and about `SleapVerif.Gen.TranslatedArch` (regenerated from the Python
AST on every run: the `gen_*` theorems are re-checked against what the code says now).

* General lemmas (any sizes, no table): integer-rate channel arithmetic, stride selection,
  exactness of the spatial pass on multiples of the max stride in either pooling state.
* The finite grid named by the property, for the tree **as it is now** (HEAD of /repo: fixes 24db0b1
  and e4cd03e applied, model flags `fixMid = fixWrap = true`): `arch_grid_ok` (certificate for every
  documented-valid, *supported* configuration; `decide +kernel` over the factored table — a proof
  because here the quantifier *is* the table) and `arch_contract` (certificate ⇒ contracted
  output shapes for **every** input `a·S × b·S`, pooling state and call history).
* The full statement `ArchGridFull` (documented-valid ⇒ contract, without `supported`) is still false
  of the code: `convs_per_block = 1` (known finding F-C14-convs-per-block).  The two repaired defects
  are recorded as `…_asIs_counterexample` lemmas about the model with the flags off (the tree
  before the fixes), together with the fact that the flag repairs the witness.
* Inputs that are **not** multiples of the max stride are outside the property (`arch_contract`
  needs `a·S × b·S`): `offgrid_counterexample_*` show both a raise and a silently smaller output
  there; the harness samples that region with a size-agnostic oracle only.
* Eval-mode numerical determinism of torch kernels is *not* modelled (tested by the harness);
  the only state the architecture code itself keeps — `MaxPool2dWithSamePadding.padding` — is
  covered by `maxpool_state_irrelevant` / `call_history_irrelevant`.
-/
namespace SleapVerif.C14
open SleapVerif.Arch

/-! ## general lemmas -/

/-- encoder filters `int(f · r^k) = f · r^k` for an integer `filters_rate` -/
theorem scale_int_rate (f r k : Nat) : scale f ⟨r, 1⟩ (k : Int) = f * r ^ k := scale_int f r k

/-- (Regression record: the arithmetic of the tree before c60aeeb, `headInForAsIs`; HEAD reads the count from
    the decoder block, `headInFor`.)  `Model.__init__` head arithmetic, integer rate `r ≥ 1`, `D = down + stem` encoder blocks,
    `up ≤ D` decoder blocks: the `in_channels` computed for a head on decoder block `i`
    (`factor = (up-1) - i`, or no multiplication when `i` is the last block) equals that block's
    filters `f · r^(D-1-i)`. -/
theorem head_in_channels_eq_decoder_out (f r D up i : Nat) (hr : 1 ≤ r) (hup : up ≤ D) (hi : i < up) :
    headIn ⟨r, 1⟩ (scale f ⟨r, 1⟩ (D : Int)) up (if i = up - 1 then none else some (up - 1 - i))
      = scale f ⟨r, 1⟩ ((D : Int) - 1 - i) := by
  obtain ⟨e, rfl⟩ : ∃ e, D = up + e := ⟨D - up, by omega⟩
  obtain ⟨j, rfl⟩ : ∃ j, up = i + 1 + j := ⟨up - i - 1, by omega⟩
  have hexp : (((i + 1 + j + e : Nat) : Int) - 1 - (i : Int)) = ((e + j : Nat) : Int) := by omega
  rw [hexp, scale_int, scale_int]
  have hb := headBase_int f r (i + 1 + j) e (by omega)
  split
  · rename_i h0
    have : j = 0 := by omega
    subst this
    simp only [headIn, hb, Nat.add_zero]
  · rename_i h0
    have hj : i + 1 + j - 1 - i = j := by omega
    simp only [headIn, hj, Nat.one_pow, Nat.div_one]
    rw [hb, Nat.pow_add, Nat.mul_assoc]

example : headIn ⟨2, 1⟩ (scale 16 ⟨2, 1⟩ (4 : Nat)) 3 (some 1) = scale 16 ⟨2, 1⟩ ((4 : Int) - 1 - 1) := by decide

/-- `Model.forward` picks, for every head, the decoder output whose label is the head's stride,
    and the head's output has the head's channel count.  `hs`, `ws` are the stage sizes (one per
    decoder output, as `forward` builds them: hypotheses `hlh`, `hlw`), so the look-up is a genuine
    element of the lists (no `getD` default). -/
theorem selected_stride_eq_head_stride (strides chans hs ws : List Nat) (heads : List Head) (hins : List Nat)
    (outs : List (Nat × Nat × Nat)) (hlen : heads.length = hins.length)
    (hlh : hs.length = strides.length) (hlw : ws.length = strides.length)
    (h : headOuts strides chans hs ws heads hins = .ok outs) :
    outs.length = heads.length ∧ ∀ p ∈ List.zip heads outs,
      ∃ i, ∃ hi : i < strides.length, strides[i] = p.1.os ∧
        p.2 = (p.1.ch, hs[i]'(hlh ▸ hi), ws[i]'(hlw ▸ hi)) := by
  obtain ⟨h1, h2⟩ := headOuts_spec strides chans hs ws heads hins outs hlen h
  refine ⟨h1, fun p hp => ?_⟩
  obtain ⟨i, hi, hs1, hs2⟩ := h2 p hp
  refine ⟨i, hi, hs1, ?_⟩
  rw [hs2]
  have e1 : hs.getD i 0 = hs[i]'(hlh ▸ hi) := by
    simp [List.getD_eq_getElem?_getD, List.getElem?_eq_getElem (hlh ▸ hi)]
  have e2 : ws.getD i 0 = ws[i]'(hlw ▸ hi) := by
    simp [List.getD_eq_getElem?_getD, List.getElem?_eq_getElem (hlw ▸ hi)]
  rw [e1, e2]

example : headOuts [4, 2] [8, 16] [4, 8] [6, 12] [⟨2, 3⟩] [16] = .ok [(3, 8, 12)] := by decide

/-- one output per head, with exactly the head's channels -/
theorem output_channels (strides chans hs ws : List Nat) (heads : List Head) (hins : List Nat)
    (outs : List (Nat × Nat × Nat)) (hlen : heads.length = hins.length)
    (h : headOuts strides chans hs ws heads hins = .ok outs) :
    outs.map (·.1) = heads.map (·.ch) := by
  obtain ⟨hl, hz⟩ := headOuts_spec strides chans hs ws heads hins outs hlen h
  apply List.ext_getElem (by simp [hl])
  intro n h1 h2
  simp only [List.getElem_map]
  have hn : n < heads.length := by simpa using h2
  have hn' : n < outs.length := by simpa using h1
  have hmem : (heads[n], outs[n]) ∈ List.zip heads outs := by
    have : (List.zip heads outs)[n]'(by simp [hl, hn]) = (heads[n], outs[n]) := by simp
    rw [← this]; exact List.getElem_mem _
  obtain ⟨i, _, _, ho⟩ := hz _ hmem
  simp only at ho
  rw [ho]

/-- PAF head: exactly `2 × len(edges)` channels for **any** configured edge list — reversed
    duplicates, exact duplicates, any order (no de-duplication), like `generate_pafs`' targets. -/
theorem paf_channels_eq_two_len (edges : List (Nat × Nat)) (os : Nat) :
    ((HeadKind.pafs edges).toHead os).ch = 2 * edges.length := rfl

/-- confidence-map heads: exactly `len(part_names)` channels for any list (repeated names count) -/
theorem confmap_channels_eq_len (parts : List Nat) (os : Nat) :
    ((HeadKind.confmaps parts).toHead os).ch = parts.length ∧ (HeadKind.centroid.toHead os).ch = 1 :=
  ⟨rfl, rfl⟩

/-- adding the reverse of an edge, or listing an edge twice, adds two channels each time -/
theorem paf_channels_no_dedup (edges : List (Nat × Nat)) (u v os : Nat) :
    ((HeadKind.pafs ((v, u) :: (u, v) :: (u, v) :: edges)).toHead os).ch
      = ((HeadKind.pafs edges).toHead os).ch + 6 := by
  simp only [HeadKind.toHead, HeadKind.channels, List.length_cons]; omega

example : ((HeadKind.pafs [(0, 1), (1, 2), (2, 1), (1, 2)]).toHead 4).ch = 8 := by decide

/-- Encoder, spatial pass: on a positive multiple `m · S` of the total stride `S`, in either
    pooling state, every op divides exactly; the output has size `m` and the `i`-th skip feature
    `m ·` (stride still to come after its tap). -/
theorem enc_spatial_exact (fresh : Bool) (ops : List Op) (h : ∀ op ∈ ops, op.exactOk = true)
    (m : Nat) (hm : 0 < m) :
    encRun (fun x op => op.spat fresh x) ops (m * encStride ops) [] = some (m, tapAcc ops m []) :=
  enc_spat_exact fresh ops h m hm []

example : (∀ op ∈ [Op.sconv 1 96 4 2 1, .tap, .merge, .tap, .pool], op.exactOk = true) := by decide

/-- Decoder, spatial pass: homogeneous in the input size. -/
theorem dec_spatial_exact (m : Nat) (bs : List DecBlock) (n : Nat) (fs l : List Nat)
    (h : decSpat bs n fs = .ok l) : decSpat bs (m * n) (fs.map (m * ·)) = .ok (l.map (m * ·)) :=
  decSpat_scale m bs n fs l h

/-- **output_spatial**: if the spatial pass succeeds on an input of exactly one total stride with
    stage sizes `l0`, then on every input `m · S`, in either pooling state, it succeeds with stage
    sizes `m · l0` (so a stage at stride `S / l0[i]` has size `input / stride`). -/
theorem output_spatial (b : Built) (hex : ∀ op ∈ b.enc, op.exactOk = true) (l0 : List Nat)
    (h0 : spatStages b true (encStride b.enc) = .ok l0) (m : Nat) (hm : 0 < m) (fresh : Bool) :
    spatStages b fresh (m * encStride b.enc) = .ok (l0.map (m * ·)) :=
  spatStages_scale b hex l0 h0 m hm fresh

/-- heads are independent of each other and of their channel count -/
theorem heads_independent (c : Cfg) (hne : c.heads ≠ [])
    (h : ∀ hd ∈ c.heads, ∃ ch, wellFormed { c with heads := [⟨hd.os, ch⟩] } = true) :
    wellFormed c = true := wellFormed_of_single c hne h

/-- **The per-head contract is a function of the head's own config entry, not of the position of the
    entry in the `head_configs` mapping.**  `get_head` reads the entries by name in a fixed order
    (`getHeads`), so two mappings with the same (distinctly named) entries in a different key order
    give the same head list — hence the same construction, the same forward result and the same
    contracted shape for every head name (a bottom-up config may list `pafs` before `confmaps`). -/
theorem head_contract_order_independent (c : Cfg) (bottomup : Bool) (m₁ m₂ : List (String × Head))
    (p : m₁.Perm m₂) (nd : m₁.Pairwise fun a b => a.1 ≠ b.1) (fresh : Bool) (h w : Nat) :
    getHeads bottomup m₁ = getHeads bottomup m₂ ∧
      run { c with heads := getHeads bottomup m₁ } fresh h w
        = run { c with heads := getHeads bottomup m₂ } fresh h w ∧
      contract { c with heads := getHeads bottomup m₁ } h w
        = contract { c with heads := getHeads bottomup m₂ } h w := by
  have e : getHeads bottomup m₁ = getHeads bottomup m₂ := by
    unfold getHeads
    cases bottomup <;> simp [List.filterMap, lookup_perm _ p nd]
  rw [e]; exact ⟨rfl, rfl, rfl⟩

example : getHeads true [("pafs", ⟨4, 4⟩), ("confmaps", ⟨2, 3⟩)] = [⟨2, 3⟩, ⟨4, 4⟩]
    ∧ getHeads true [("confmaps", ⟨2, 3⟩), ("pafs", ⟨4, 4⟩)] = [⟨2, 3⟩, ⟨4, 4⟩] := by decide

/-- `up_interpolate` does not enter the bookkeeping beyond one extra check when it is `False` -/
theorem up_interpolate_irrelevant (c : Cfg) (h : wellFormed { c with upInterp := false } = true) (u : Bool) :
    wellFormed { c with upInterp := u } = true := wellFormed_upInterp c h u

/-! ## the grid -/

/-- The property at full strength on its grid: every documented-valid configuration carries a
    certificate.  **False of the code** (see the counterexamples below). -/
def ArchGridFull : Prop := ∀ c, inGrid c = true → docValid c = true → wellFormed c = true

/-- **The grid theorem** for the tree as it is now (`inGrid` requires `fixMid = fixWrap = true`), under
    the extra hypothesis `supported`: UNet needs `convs_per_block ≥ 2` or (`convs_per_block = 1`, `filters_rate = 1`
    and a stem); the ConvNeXt / Swin wrappers need `filters_rate = 2` and `max_stride = 8·stem_patch_stride`.
    Each excluded region is a `known` finding with a counterexample below.  (`middle_block = False`
    with any rate and wrapper `output_stride > stem_patch_stride` are covered since the two fixes.) -/
theorem arch_grid_ok (c : Cfg) (hin : inGrid c = true) (hdoc : docValid c = true)
    (hsup : supported c = true) : wellFormed c = true := grid_wellFormed c hin hdoc hsup

/-- convention name: the grid theorem is the `_partial` form of `ArchGridFull` -/
theorem arch_grid_ok_partial (c : Cfg) (hin : inGrid c = true) (hdoc : docValid c = true)
    (hsup : supported c = true) : wellFormed c = true := arch_grid_ok c hin hdoc hsup

def exampleCfg : Cfg :=
  { fam := .unet, variant := 0, filters := 24, rate := ⟨3, 2⟩, maxStride := 32, bos := 2, stem := 4,
    cpb := 3, middle := false, upInterp := false, inCh := 1, heads := [⟨2, 13⟩, ⟨8, 10⟩],
    fixMid := true, fixWrap := true }

/-- a Swin-T centroid model with `output_stride = 4 > stem_patch_stride = 2` (valid since e4cd03e) -/
def exampleWrapCfg : Cfg :=
  { fam := .swint, variant := 2, filters := 0, rate := ⟨2, 1⟩, maxStride := 16, bos := 4, stem := 2,
    cpb := 2, middle := true, upInterp := true, inCh := 1, heads := [⟨4, 1⟩],
    fixMid := true, fixWrap := true }

example : inGrid exampleCfg = true ∧ docValid exampleCfg = true ∧ supported exampleCfg = true := by decide
/-- `convs_per_block = 1` is inside the theorem when `filters_rate = 1` and a stem is configured -/
example : let c : Cfg := { exampleCfg with cpb := 1, rate := ⟨1, 1⟩ }
    inGrid c = true ∧ docValid c = true ∧ supported c = true := by decide
example : inGrid exampleWrapCfg = true ∧ docValid exampleWrapCfg = true ∧ supported exampleWrapCfg = true := by
  decide

/-- **The contract.**  For every documented-valid, supported configuration of the grid, every
    input whose sides are positive multiples `a·S`, `b·S` of the max stride and either pooling
    state: construction succeeds, forward succeeds, and there is one output per head with the
    head's channel count and spatial size `input / head stride`. -/
theorem arch_contract (c : Cfg) (hin : inGrid c = true) (hdoc : docValid c = true) (hsup : supported c = true)
    (a b : Nat) (ha : 0 < a) (hb : 0 < b) (fresh : Bool) :
    ∃ f, run c fresh (a * c.realMaxStride) (b * c.realMaxStride) = .ok f ∧
      f.outs = c.heads.map fun hd =>
        (hd.ch, a * c.realMaxStride / hd.os, b * c.realMaxStride / hd.os) :=
  run_of_wellFormed c (grid_wellFormed c hin hdoc hsup) a b ha hb fresh

/-! ## convolution geometry -/

/-- **Modelling assumption about torch's `padding="same"`, as a theorem about its arithmetic**: for every
    kernel size `k ≥ 1` (odd or even) a stride-1 "same" convolution keeps the size.  Hence
    `kernel_size` (encoder, decoder refine convs, UNet stem kernel) is not a dimension of the
    bookkeeping and `arch_contract` holds for every `k`; validated against real `nn.Conv2d` modules
    and against whole models with `kernel_size ∈ {1,…,5}` by the harness. -/
theorem same_padding_preserves_size (n k : Nat) (hk : 1 ≤ k) : sameConvOut n k = n := by
  simp only [sameConvOut]; omega

/-- … whereas the explicit symmetric padding `k // 2` keeps the size for odd kernels only and grows
    the map by one pixel per convolution for even kernels. -/
theorem explicit_half_padding_grows_even_kernel (n j : Nat) (_hj : 1 ≤ j) :
    explicitHalfPadOut n (2 * j) = n + 1 ∧ explicitHalfPadOut n (2 * j + 1) = n := by
  unfold explicitHalfPadOut; omega

/-- ConvNeXt `stem_patch_kernel` / Swin `patch_size`: every kernel `2 < k ≤ stem_patch_stride + 2` gives
    the certificate of the default kernel 4 (the grid theorem `arch_grid_ok` is stated at 4). -/
theorem stem_kernel_irrelevant (c : Cfg) (hf : c.fam ≠ .unet) (k : Nat) (hk : 2 < k ∧ k ≤ c.stem + 2)
    (h4 : 2 ≤ c.stem) : wellFormed { c with stemKernel := k } = wellFormed { c with stemKernel := 4 } :=
  wellFormed_stemKernel c hf k hk h4

/-- the grid theorem and the contract for every valid stem kernel of the wrappers -/
theorem arch_contract_stem_kernel (c : Cfg) (hf : c.fam ≠ .unet) (h4 : 2 ≤ c.stem)
    (hk : 2 < c.stemKernel ∧ c.stemKernel ≤ c.stem + 2)
    (hin : inGrid { c with stemKernel := 4 } = true) (hdoc : docValid c = true) (hsup : supported c = true)
    (a b : Nat) (ha : 0 < a) (hb : 0 < b) (fresh : Bool) :
    ∃ f, run c fresh (a * c.realMaxStride) (b * c.realMaxStride) = .ok f ∧
      f.outs = c.heads.map fun hd =>
        (hd.ch, a * c.realMaxStride / hd.os, b * c.realMaxStride / hd.os) := by
  have hw : wellFormed c = true := by
    have := wellFormed_stemKernel c hf c.stemKernel hk h4
    rw [show ({ c with stemKernel := c.stemKernel } : Cfg) = c from rfl] at this
    rw [this]
    exact grid_wellFormed { c with stemKernel := 4 } hin hdoc hsup
  exact run_of_wellFormed c hw a b ha hb fresh

example : let c : Cfg := { exampleWrapCfg with stemKernel := 3 }
    c.fam ≠ .unet ∧ 2 ≤ c.stem ∧ (2 < c.stemKernel ∧ c.stemKernel ≤ c.stem + 2) ∧
      inGrid { c with stemKernel := 4 } = true ∧ docValid c = true ∧ supported c = true := by decide

/-- a stem kernel outside that range (here 2 and 7 with stride 2) is rejected loudly in forward -/
theorem stem_kernel_invalid_rejected :
    run { exampleWrapCfg with stemKernel := 2 } true 32 32 = .err .runtime ∧
      run { exampleWrapCfg with stemKernel := 7 } true 32 32 = .err .runtime ∧
      inGrid exampleWrapCfg = true := by
  decide +kernel

/-! ## the data pipeline's target shapes -/

/-- **targets_shape_match**: under the hypotheses of `arch_contract` every head's output has exactly the
    spatial shape of the sampling grid the data pipeline uses for that head's targets —
    `Grid.gridLen (a·S) stride × Grid.gridLen (b·S) stride` = `len(arange(0, size, stride))` per axis, the
    shape of C01 `cm_shape` (confidence maps, `Props/C01.lean`) and of C05's PAF grids, which are stated over
    the same `Grid.gridLen`; channels `parts | 1 | 2·edges` are `output_channels`.  (That the real
    `generate_confmaps` / `generate_multiconfmaps` / `generate_pafs` and the legacy DataPipes produce
    that grid — also for empty and all-NaN frames — is checked by the harness oracle, and proved
    about their models in C01 / C05.) -/
theorem targets_shape_match (c : Cfg) (hin : inGrid c = true) (hdoc : docValid c = true) (hsup : supported c = true)
    (a b : Nat) (ha : 0 < a) (hb : 0 < b) (fresh : Bool) :
    ∃ f, run c fresh (a * c.realMaxStride) (b * c.realMaxStride) = .ok f ∧
      f.outs = c.heads.map fun hd =>
        (hd.ch, Grid.gridLen (a * c.realMaxStride) hd.os, Grid.gridLen (b * c.realMaxStride) hd.os) := by
  have hw := grid_wellFormed c hin hdoc hsup
  obtain ⟨f, hf, ho⟩ := run_of_wellFormed c hw a b ha hb fresh
  refine ⟨f, hf, ?_⟩
  rw [ho, contract]
  apply List.map_congr_left
  intro hd hhd
  obtain ⟨hpos, q, hq⟩ := wellFormed_head_dvd c hw hd hhd
  have key : ∀ m, Grid.gridLen (m * c.realMaxStride) hd.os = m * c.realMaxStride / hd.os := by
    intro m
    unfold Grid.gridLen
    rw [hq]
    have e1 : m * (hd.os * q) + hd.os - 1 = (hd.os - 1) + hd.os * (m * q) := by
      have : m * (hd.os * q) = hd.os * (m * q) := by
        rw [← Nat.mul_assoc, Nat.mul_comm m hd.os, Nat.mul_assoc]
      omega
    have e2 : m * (hd.os * q) = hd.os * (m * q) := by
      rw [← Nat.mul_assoc, Nat.mul_comm m hd.os, Nat.mul_assoc]
    rw [e1, e2, Nat.add_mul_div_left _ _ hpos, Nat.mul_div_cancel_left _ hpos,
      Nat.div_eq_of_lt (by omega), Nat.zero_add]
  rw [key a, key b]

/-! ## pooling state and call histories -/

/-- `MaxPool2dWithSamePadding`: for an even positive size both padding states give the same
    output size (so the mutation of `self.padding` on the first call cannot change shapes on
    valid inputs). -/
theorem maxpool_state_irrelevant (k : Nat) (hk : 0 < k) : poolOut true (2 * k) = poolOut false (2 * k) := by
  have h1 : (2 * k + 1) / 2 = k := by omega
  have h2 : 2 * k / 2 = k := by omega
  simp [poolOut, h1, h2]; omega

/-- … and it is state-dependent on odd sizes (outside the property's domain). -/
theorem maxpool_state_counterexample : poolOut true 3 ≠ poolOut false 3 := by decide

/-- A call history of inputs on one module: the result of the last call equals the result a
    freshly built module gives on that input (all sides multiples of the max stride). -/
theorem call_history_irrelevant (c : Cfg) (hin : inGrid c = true) (hdoc : docValid c = true)
    (hsup : supported c = true) (k : Constructed) (hk : construct c = .ok k)
    (calls : List (Nat × Nat)) (a b : Nat) (ha : 0 < a) (hb : 0 < b) :
    callSeq c k (calls ++ [(a * c.realMaxStride, b * c.realMaxStride)]) true
      = some (forward c k true (a * c.realMaxStride) (b * c.realMaxStride)) := by
  rw [callSeq_last]
  congr 1
  exact forward_fresh_irrelevant c (grid_wellFormed c hin hdoc hsup) k hk a b ha hb _ _

/-! ## invalid configurations are rejected loudly -/

/-- A head whose output stride equals the max stride is not a valid configuration: the decoder
    exposes strides `max/2 … output_stride` only and `Model` raises `ValueError: S is not in list`
    (at construction, or in `forward` when the backbone stride is `S` too).  Checked on the UNet
    grid with filters 8 (input `2S × 2S`). -/
theorem head_stride_eq_max_rejected :
    ([8, 16, 32].all fun ms => [0, 2, 4].all fun stem => strides6.all fun bos => rates3.all fun r =>
      !(decide (bos ≤ ms)) ||
        (match run (mkUnet 8 r ms stem bos ms 2 true) true (2 * ms) (2 * ms) with
         | .err (.value n) => n == ms
         | _ => false)) = true := by decide +kernel

/-! ## the full statement is still false of the code: `convs_per_block = 1` (known finding) -/

def witnessConvsPerBlock : Cfg :=
  { fam := .unet, variant := 0, filters := 8, rate := ⟨2, 1⟩, maxStride := 8, bos := 2, stem := 0,
    cpb := 1, middle := true, upInterp := true, inCh := 1, heads := [⟨2, 3⟩],
    fixMid := true, fixWrap := true }

/-- F-C14-convs-per-block: `convs_per_block = 1` — forward raises (tree as it is now). -/
theorem arch_full_counterexample_convs_per_block :
    inGrid witnessConvsPerBlock = true ∧ docValid witnessConvsPerBlock = true ∧
      run witnessConvsPerBlock true 16 16 = .err .runtime ∧ wellFormed witnessConvsPerBlock = false := by
  decide +kernel

theorem arch_grid_full_false : ¬ ArchGridFull := by
  intro h
  have := h witnessConvsPerBlock arch_full_counterexample_convs_per_block.1
    arch_full_counterexample_convs_per_block.2.1
  rw [arch_full_counterexample_convs_per_block.2.2.2] at this
  cases this

def witnessWrapperFiltersRate : Cfg :=
  { fam := .swint, variant := 0, filters := 0, rate := ⟨3, 2⟩, maxStride := 16, bos := 2, stem := 2,
    cpb := 2, middle := true, upInterp := true, inCh := 1, heads := [⟨2, 1⟩],
    fixMid := true, fixWrap := true }

/-- F-C14-wrapper-filters-rate: a ConvNeXt / Swin wrapper with `filters_rate ≠ 2` (here Swin-T, 3/2) is
    documented-valid (docs/config.md puts no restriction on `filters_rate`) but forward raises:
    the encoder doubles channels per stage while the decoder is sized from `filters_rate`. -/
theorem arch_full_counterexample_wrapper_filters_rate :
    inGrid witnessWrapperFiltersRate = true ∧ docValid witnessWrapperFiltersRate = true ∧
      run witnessWrapperFiltersRate true 32 32 = .err .runtime ∧
      run { witnessWrapperFiltersRate with rate := ⟨1, 1⟩, fam := .convnext } true 32 32 = .err .runtime ∧
      wellFormed witnessWrapperFiltersRate = false := by
  decide +kernel

def witnessWrapperMaxStride : Cfg :=
  { fam := .convnext, variant := 0, filters := 0, rate := ⟨2, 1⟩, maxStride := 16, bos := 4, stem := 4,
    cpb := 2, middle := true, upInterp := true, inCh := 1, heads := [⟨4, 1⟩],
    fixMid := true, fixWrap := true }

/-- F-C14-wrapper-max-stride: the wrappers ignore `config.max_stride` (documented as "always 16"); with
    `stem_patch_stride = 4` the real stride is 32 and inputs that are multiples of the configured 16 but
    not of 32 (16×16, 48×48, 32×48) raise, while 32×32 works. -/
theorem arch_full_counterexample_wrapper_max_stride :
    inGrid witnessWrapperMaxStride = true ∧ docValid witnessWrapperMaxStride = true ∧
      supported witnessWrapperMaxStride = false ∧
      run witnessWrapperMaxStride true 16 16 = .err .runtime ∧
      run witnessWrapperMaxStride true 48 48 = .err .runtime ∧
      run witnessWrapperMaxStride true 32 48 = .err .runtime ∧
      (match run witnessWrapperMaxStride true 32 32 with | .ok f => f.outs == [(1, 8, 8)] | _ => false) = true := by
  decide +kernel

/-! ## the two repaired defects, recorded about the model *as it was* (flags off) -/

/-- the tree before 24db0b1 / e4cd03e: witness of F-C14-middle-block -/
def witnessMiddleBlockAsIs : Cfg :=
  { fam := .unet, variant := 0, filters := 8, rate := ⟨2, 1⟩, maxStride := 8, bos := 2, stem := 0,
    cpb := 2, middle := false, upInterp := true, inCh := 1, heads := [⟨2, 3⟩],
    fixMid := false, fixWrap := false }

/-- witness of F-C14-wrapper-output-stride before the fix -/
def witnessWrapperStrideAsIs : Cfg :=
  { fam := .swint, variant := 0, filters := 0, rate := ⟨2, 1⟩, maxStride := 16, bos := 4, stem := 2,
    cpb := 2, middle := true, upInterp := true, inCh := 1, heads := [⟨4, 1⟩],
    fixMid := false, fixWrap := false }

/-- F-C14-middle-block (fixed by 24db0b1): with the flag off the documented-valid witness raises in
    forward; with the flag on it carries the certificate (and is inside `arch_grid_ok`). -/
theorem arch_middle_block_asIs_counterexample :
    docValid witnessMiddleBlockAsIs = true ∧
      run witnessMiddleBlockAsIs true 16 16 = .err .runtime ∧
      wellFormed witnessMiddleBlockAsIs = false ∧
      wellFormed { witnessMiddleBlockAsIs with fixMid := true, fixWrap := true } = true ∧
      inGrid { witnessMiddleBlockAsIs with fixMid := true, fixWrap := true } = true := by
  decide +kernel

/-- F-C14-wrapper-output-stride (fixed by e4cd03e): same for Swin-T, stem 2, output stride 4, on the tree as it
    was then (`runAsIs`: heads sized arithmetically for the last decoder block).  Reading the head's
    channels from its decoder block (c60aeeb, `run`) also repairs this witness on its own. -/
theorem arch_wrapper_output_stride_asIs_counterexample :
    docValid witnessWrapperStrideAsIs = true ∧
      runAsIs witnessWrapperStrideAsIs true 32 32 = .err .runtime ∧
      (match run witnessWrapperStrideAsIs true 32 32 with | .ok f => f.outs == [(1, 8, 8)] | .err _ => false) = true ∧
      wellFormed { witnessWrapperStrideAsIs with fixMid := true, fixWrap := true } = true ∧
      inGrid { witnessWrapperStrideAsIs with fixMid := true, fixWrap := true } = true := by
  decide +kernel

/-! ## excluded region: input sides that are not multiples of the max stride -/

def offgridUnet : Cfg :=
  { fam := .unet, variant := 0, filters := 8, rate := ⟨2, 1⟩, maxStride := 8, bos := 2, stem := 0,
    cpb := 2, middle := true, upInterp := true, inCh := 1, heads := [⟨2, 3⟩],
    fixMid := true, fixWrap := true }

def offgridSwin : Cfg :=
  { fam := .swint, variant := 0, filters := 0, rate := ⟨2, 1⟩, maxStride := 16, bos := 1, stem := 2,
    cpb := 2, middle := true, upInterp := true, inCh := 1, heads := [⟨1, 1⟩],
    fixMid := true, fixWrap := true }

/-- A valid, supported UNet (max stride 8) raises on a 17×17 input (fresh pools) and on a 20×20
    input (stale pools): skip-connection sizes differ.  The property's restriction to multiples
    of the max stride is needed. -/
theorem offgrid_counterexample_raise :
    inGrid offgridUnet = true ∧ docValid offgridUnet = true ∧ supported offgridUnet = true ∧
      run offgridUnet true 17 17 = .err .runtime ∧ run offgridUnet false 20 20 = .err .runtime := by
  decide +kernel

/-- A valid, supported Swin-T (max stride 16, head stride 1) on a 33×33 input succeeds but returns
    32×32: neither `⌊33/1⌋` nor an error — outside multiples of the max stride the output size is
    not `input / stride`. -/
theorem offgrid_counterexample_size :
    inGrid offgridSwin = true ∧ docValid offgridSwin = true ∧ supported offgridSwin = true ∧
      (match run offgridSwin true 33 33 with
       | .ok f => f.outs == [(1, 32, 32)]
       | .err _ => false) = true := by
  decide +kernel

/-! ## theorems about the GENERATED definitions (re-opened by any edit of the Python source) -/

open SleapVerif.Gen.TranslatedArch in
/-- `_calc_same_pad` for the 2×2 / stride-2 pool used everywhere: the padding is `i % 2`. -/
theorem gen_calc_same_pad_pool (i : Int) (_hi : 0 ≤ i) : calc_same_pad i 2 2 1 = i % 2 := by
  unfold calc_same_pad ceilDiv
  rw [Int.fdiv_eq_ediv_of_nonneg _ (by omega : (0 : Int) ≤ 2)]
  omega

open SleapVerif.Gen.TranslatedArch in
/-- … hence `F.max_pool2d` on the padded input (`⌊(i + pad - 2)/2⌋ + 1`) gives `⌈i/2⌉`, which is
    what the model's `poolOut true` says. -/
theorem gen_same_pad_gives_ceil_half (n : Nat) (hn : 0 < n) :
    poolOut true n = some (((n : Int) + calc_same_pad n 2 2 1 - 2) / 2 + 1).toNat := by
  rw [gen_calc_same_pad_pool _ (by omega)]
  simp only [poolOut, if_true]
  congr 1
  omega

open SleapVerif.Gen.TranslatedArch in
/-- the generated `UNet.from_config` block counts are the hand model's -/
theorem gen_unet_blocks_eq_model (stem ms bos : Nat) :
    unet_from_config_blocks (decide (stem = 0)) stem ms bos
      = ((unetBlocks stem ms bos).2.1, (unetBlocks stem ms bos).2.2, (unetBlocks stem ms bos).1) := by
  unfold unet_from_config_blocks unetBlocks
  by_cases h : stem = 0 <;> simp [h, log2Trunc]

theorem log2Trunc_pow2 (a b : Nat) (h : b ≤ a) : log2Trunc ((2 ^ a : Nat) : Int) ((2 ^ b : Nat) : Int) = (a - b : Nat) := by
  unfold log2Trunc
  have hb : 0 < 2 ^ b := Nat.pow_pos (by omega)
  have ha : 0 < 2 ^ a := Nat.pow_pos (by omega)
  have hle : 2 ^ b ≤ 2 ^ a := Nat.pow_le_pow_right (by omega) h
  have h1 : ¬ (((2 ^ a : Nat) : Int) ≤ 0 ∨ ((2 ^ b : Nat) : Int) ≤ 0) := by omega
  have h2 : ((2 ^ b : Nat) : Int) ≤ ((2 ^ a : Nat) : Int) := by omega
  simp only [h1, if_false, h2, if_true]
  rw [← Int.natCast_ediv, Int.toNat_natCast, Nat.pow_div h (by omega), Nat.log2_two_pow]

open SleapVerif.Gen.TranslatedArch in
/-- on power-of-two strides `stem_stride = 2^s ≤ max_stride = 2^a ≥ output_stride = 2^b` the generated
    code yields `down = a - s`, `up = a - b`, `stem = s` blocks: `down + stem = log2 max_stride`
    encoder levels and exactly the `up` decoder blocks that end at `output_stride`. -/
theorem gen_unet_blocks_pow2 (s a b : Nat) (hb : b ≤ a) :
    unet_from_config_blocks false ((2 ^ s : Nat) : Int) ((2 ^ a : Nat) : Int) ((2 ^ b : Nat) : Int)
      = ((a : Int) - s, ((a - b : Nat) : Int), (s : Int)) := by
  unfold unet_from_config_blocks
  have e1 : ((1 : Int)) = ((2 ^ 0 : Nat) : Int) := by simp
  simp only [Bool.not_false, if_true]
  rw [e1, log2Trunc_pow2 s 0 (by omega), log2Trunc_pow2 a 0 (by omega), log2Trunc_pow2 a b hb]
  simp

open SleapVerif.Gen.TranslatedArch in
/-- the generated per-block filter counts of `Encoder.__init__` / `Decoder.__init__` are the closed forms the
    hand model uses (`int(filters · rate^k)`, NOT an incremental `int(prev · rate)`): stem block `b` ↦ `k = b`,
    down block `b` ↦ `k = b + stem_blocks`, decoder block `b` ↦ `k = down + stem - 1 - b` -/
theorem gen_block_filters_eq_model (f : Nat) (r : Rate) (b stem down : Int) :
    enc_stem_block_filters f r b stem = scale f r b ∧
      enc_down_block_filters f r b stem = scale f r (b + stem) ∧
      dec_block_filters_in f r b stem down = scale f r (down + stem - 1 - b) := ⟨rfl, rfl, rfl⟩

open SleapVerif.Gen.TranslatedArch in
/-- … and the model's decoder blocks carry exactly the generated count -/
theorem gen_dec_block_filters_is_model (f : Nat) (r : Rate) (stem down : Int) (xIn block cur n : Nat) :
    ((decUp f r (down + stem) xIn block cur (n + 1)).map (·.out)).head?
      = some (dec_block_filters_in f r block stem down) := by
  simp [decUp, dec_block_filters_in]

/-- closed form vs incremental truncation: they differ as soon as truncation compounds
    (`filters = 4`, rate 3/2, level 4: `int(4·1.5^4) = 20` but `int(int(int(int(4·1.5)·1.5)·1.5)·1.5) = 19`) -/
theorem closed_form_ne_incremental :
    scale 4 ⟨3, 2⟩ 4 = 20 ∧ scale (scale (scale (scale 4 ⟨3, 2⟩ 1) ⟨3, 2⟩ 1) ⟨3, 2⟩ 1) ⟨3, 2⟩ 1 = 19 := by decide

def witnessHeadInChannels : Cfg :=
  { fam := .unet, variant := 0, filters := 4, rate := ⟨3, 2⟩, maxStride := 32, bos := 8, stem := 0,
    cpb := 2, middle := true, upInterp := true, inCh := 1, heads := [⟨16, 3⟩],
    fixMid := true, fixWrap := true }

/-- F-C14-head-in-channels (fixed by c60aeeb; regression record about the tree as it was, `constructAsIs` /
    `runAsIs`): `Model.__init__` re-derived the head's `in_channels` as `int(round(max_channels / r^n) · r^factor)` = 19,
    the decoder block at stride 16 has `int(4·1.5^4)` = 20 filters ⇒ forward raised.  HEAD (`construct`, `run`) reads
    the count from the decoder block and gives the contracted output; the witness now carries the certificate. -/
theorem arch_head_in_channels_counterexample :
    docValid witnessHeadInChannels = true ∧ supported witnessHeadInChannels = true ∧
      runAsIs witnessHeadInChannels true 32 32 = .err .runtime ∧
      (match constructAsIs witnessHeadInChannels with
       | .ok k => k.headIn == [19] && k.built.dec.map (·.out) == [20, 13]
       | .err _ => false) = true ∧
      (match run witnessHeadInChannels true 32 32 with
       | .ok f => f.outs == [(3, 2, 2)]
       | .err _ => false) = true ∧
      wellFormed witnessHeadInChannels = true := by
  decide +kernel

end SleapVerif.C14
