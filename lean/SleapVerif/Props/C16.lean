import SleapVerif.Lemmas.EvalVoc
import SleapVerif.Lemmas.EvalMatch

/-!
# C16 — evaluation metrics: perfect for perfect predictions, bounded, monotone

Statements are about `SleapVerif.Eval` (model of `sleap_nn.evaluation.Evaluator`, tied to the code on
every run by `harness/c16.py`) over **every** ordered field `R`; `Nat.cast` plays `cast`.
All lists (pairs, thresholds, frames, animals) are unbounded.

The clause “deleting predictions can never increase recall” is **false** of the code (F-C16, F-C16b):
`recall_monotone_under_truncation_partial` proves it for the deletions that keep the `k`
highest-scoring predictions of every frame, `recall_deletion_counterexample` and
`recall_frame_removal_counterexample` refute the general statement on concrete witnesses.
-/
namespace SleapVerif.C16
open SleapVerif.Oks SleapVerif.Eval

variable {R : Type} [Field R] [LinearOrder R] [IsStrictOrderedRing R]

/-! ## every reported ratio lies in `[0, 1]` -/

/-- precisions, recalls (= AR), AP, mAP, mAR ∈ [0,1] for every set of positive pairs, any number of
false negatives, any threshold grids (`0 ≤ eps`; `np.spacing(1) > 0`). -/
theorem ratios_in_unit (eps : R) (he : 0 ≤ eps) (pairs : List (R × R)) (nFn : Nat) (mT rT : List R)
    (v : Voc R) (h : vocMetrics (Nat.cast : Nat → R) eps pairs nFn mT rT = some v) :
    (∀ row ∈ v.precisions, ∀ x ∈ row, InUnit x) ∧ (∀ x ∈ v.recalls, InUnit x) ∧
    (∀ x ∈ v.AP, InUnit x) ∧ InUnit v.mAP ∧ InUnit v.mAR := by
  cases pairs with
  | nil => simp [vocMetrics] at h
  | cons p ps =>
    simp only [vocMetrics, Option.some.injEq] at h
    subst h
    have hlen : ((sortDesc (fun x => x.2) (p :: ps)).map (·.1)).length ≤ (p :: ps).length + nFn := by
      rw [List.length_map, (sortDesc_perm _ _).length_eq]; omega
    have hrow : ∀ t, (∀ x ∈ (vocRow (Nat.cast : Nat → R) eps ((p :: ps).length + nFn) rT
        ((sortDesc (fun x => x.2) (p :: ps)).map (·.1)) t).precision, InUnit x) ∧
        InUnit (vocRow (Nat.cast : Nat → R) eps ((p :: ps).length + nFn) rT
        ((sortDesc (fun x => x.2) (p :: ps)).map (·.1)) t).recall :=
      fun t => vocRow_unit eps he _ rT _ t hlen
    have hP : ∀ row ∈ List.map (·.precision) (mT.map (vocRow (Nat.cast : Nat → R) eps ((p :: ps).length + nFn) rT
        ((sortDesc (fun x => x.2) (p :: ps)).map (·.1)))), ∀ x ∈ row, InUnit x := by
      intro row hr x hx
      simp only [List.map_map, List.mem_map, Function.comp] at hr
      obtain ⟨t, _, rfl⟩ := hr
      exact (hrow t).1 x hx
    have hRc : ∀ x ∈ List.map (·.recall) (mT.map (vocRow (Nat.cast : Nat → R) eps ((p :: ps).length + nFn) rT
        ((sortDesc (fun x => x.2) (p :: ps)).map (·.1)))), InUnit x := by
      intro x hx
      simp only [List.map_map, List.mem_map, Function.comp] at hx
      obtain ⟨t, _, rfl⟩ := hx
      exact (hrow t).2
    refine ⟨hP, hRc, ?_, ?_, mean_unit _ hRc⟩
    · intro x hx
      obtain ⟨row, hr, rfl⟩ := List.mem_map.mp hx
      exact mean_unit row (hP row hr)
    · apply mean_unit
      intro x hx
      obtain ⟨row, hr, hxr⟩ := List.mem_flatten.mp hx
      exact hP row hr x hxr

/-- mean OKS ∈ [0,1] when every pair's OKS is (C15 `oks_range`) -/
theorem moks_in_unit (pairs : List (R × R)) (h : ∀ p ∈ pairs, InUnit p.1) (v : R)
    (hv : mOKS (Nat.cast : Nat → R) pairs = some v) : InUnit v := by
  cases pairs with
  | nil => simp [mOKS] at hv
  | cons p ps =>
    simp only [mOKS, Option.some.injEq] at hv
    subst hv
    apply mean_unit
    intro x hx
    obtain ⟨q, hq, rfl⟩ := List.mem_map.mp hx
    exact h q hq

theorem pck_in_unit (thr : R) (d : List (Option R)) : InUnit (pckAt (Nat.cast : Nat → R) thr d) := by
  unfold pckAt
  have h : ((d.filter (within thr)).length : R) ≤ (d.length : R) := by
    exact_mod_cast List.length_filter_le _ _
  exact ⟨div_nonneg (Nat.cast_nonneg _) (Nat.cast_nonneg _), div_le_one_of_le₀ h (Nat.cast_nonneg _)⟩

/-- visibility precision / recall ∈ [0,1] whenever defined -/
theorem vis_ratio_in_unit (a b : Nat) (v : R) (h : ratio (Nat.cast : Nat → R) a b = some v) : InUnit v := by
  unfold ratio at h
  split at h
  · cases h
  · have := Option.some.inj h
    subst this
    have hab : (a : R) ≤ ((a + b : Nat) : R) := by exact_mod_cast Nat.le_add_right a b
    exact ⟨div_nonneg (Nat.cast_nonneg _) (Nat.cast_nonneg _), div_le_one_of_le₀ hab (Nat.cast_nonneg _)⟩

/-! ## monotonicity -/

/-- the precision envelope is non-increasing, keeps the length, and each of its values is one of
the raw precisions -/
theorem envelope_antitone (l : List R) :
    (env l).Pairwise (fun a b => b ≤ a) ∧ (env l).length = l.length ∧ ∀ y ∈ env l, y ∈ l :=
  ⟨env_antitone l, env_length l, env_subset l⟩

/-- the `recalls`/`AR` entries are (true positives at the threshold) / (all gt instances), whatever
the order of the pairs -/
theorem recall_eq_recallAt (eps : R) (pairs : List (R × R)) (nFn : Nat) (mT rT : List R) (v : Voc R)
    (h : vocMetrics (Nat.cast : Nat → R) eps pairs nFn mT rT = some v) :
    v.recalls = mT.map (fun t => recallAt (Nat.cast : Nat → R) t (pairs.map (·.1)) (pairs.length + nFn)) := by
  cases pairs with
  | nil => simp [vocMetrics] at h
  | cons p ps =>
    simp only [vocMetrics, Option.some.injEq] at h
    subst h
    simp only [List.map_map]
    apply List.map_congr_left
    intro t _
    have hne : (sortDesc (fun x => x.2) (p :: ps)).map (·.1) ≠ [] := by
      intro h0
      have := congrArg List.length h0
      rw [List.length_map, (sortDesc_perm _ _).length_eq] at this
      simp at this
    simp only [Function.comp]
    rw [vocRow_recall eps _ rT _ t hne]
    exact recallAt_perm t ((sortDesc_perm _ _).map _) _

/-- **AR is non-increasing in the match threshold.** -/
theorem AR_antitone_in_threshold (t t' : R) (h : t ≤ t') (ms : List R) (npig : Nat) :
    recallAt (Nat.cast : Nat → R) t' ms npig ≤ recallAt (Nat.cast : Nat → R) t ms npig :=
  recallAt_mono t t' h ms npig

/-- **AP is non-increasing in the match threshold** (every precision entry is, hence the mean). -/
theorem AP_antitone_in_threshold (eps : R) (he : 0 ≤ eps) (npig : Nat) (recThr ms : List R) (t t' : R)
    (h : t ≤ t') :
    List.Forall₂ (· ≤ ·) (vocRow (Nat.cast : Nat → R) eps npig recThr ms t').precision
      (vocRow (Nat.cast : Nat → R) eps npig recThr ms t).precision ∧
    mean (Nat.cast : Nat → R) (vocRow (Nat.cast : Nat → R) eps npig recThr ms t').precision ≤
      mean (Nat.cast : Nat → R) (vocRow (Nat.cast : Nat → R) eps npig recThr ms t).precision :=
  ⟨vocRow_precision_mono eps he npig recThr ms t t' h,
   mean_mono (vocRow_precision_mono eps he npig recThr ms t t' h)⟩

/-- **PCK is non-decreasing in the pixel threshold.** -/
theorem pck_monotone_in_pixels (thr thr' : R) (h : thr ≤ thr') (d : List (Option R)) :
    pckAt (Nat.cast : Nat → R) thr d ≤ pckAt (Nat.cast : Nat → R) thr' d := by
  unfold pckAt
  have hsub : ∀ x, within thr x = true → within thr' x = true := by
    intro x hx
    cases x with
    | none => simp [within] at hx
    | some y =>
      simp only [within, decide_eq_true_eq] at hx ⊢
      exact lt_of_lt_of_le hx h
  have : (d.filter (within thr)).length ≤ (d.filter (within thr')).length := by
    induction d with
    | nil => exact le_refl _
    | cons x t ih =>
      simp only [List.filter_cons]
      cases h1 : within thr x
      · simp only [Bool.false_eq_true, if_false]
        split
        · simp only [List.length_cons]; omega
        · exact ih
      · simp only [if_true, hsub x h1, List.length_cons]; omega
  exact div_le_div_of_nonneg_right (by exact_mod_cast this) (Nat.cast_nonneg _)

/-! ## deleting predictions -/

section deletion
variable {G P : Type}

/-- Full clause (false of the code, see the two counterexamples): for every sub-selection of the
predictions of every frame, recall at every threshold does not increase. -/
def RecallNeverIncreasesUnderDeletion (oks : G → P → Option R) (score : P → R) (thr : R) : Prop :=
  ∀ (frames frames' : List (Frame G P)),
    List.Forall₂ (fun f' f => f'.gts = f.gts ∧
      ((f'.prs = none) ∨ ∃ l l', f.prs = some l ∧ f'.prs = some l' ∧ l'.Sublist l)) frames' frames →
    ∀ t, recallAt (Nat.cast : Nat → R) t ((processFrames oks score thr frames').1.map (·.2.2))
          ((processFrames oks score thr frames').1.length + (processFrames oks score thr frames').2.length) ≤
         recallAt (Nat.cast : Nat → R) t ((processFrames oks score thr frames).1.map (·.2.2))
          ((processFrames oks score thr frames).1.length + (processFrames oks score thr frames).2.length)

/-- **Partial**: keeping only the `k` highest-scoring predictions of every frame never increases
recall, at any match threshold — the matcher treats that prefix identically, so the positive pairs
of the truncated run are a sub-list of the full run's and the gt count is unchanged. -/
theorem recall_monotone_under_truncation_partial (oks : G → P → Option R) (score : P → R) (thr t : R)
    (k : Nat) (frames : List (Frame G P)) :
    recallAt (Nat.cast : Nat → R) t
        ((processFrames oks score thr (truncFrames score k frames)).1.map (·.2.2))
        ((processFrames oks score thr (truncFrames score k frames)).1.length +
          (processFrames oks score thr (truncFrames score k frames)).2.length) ≤
      recallAt (Nat.cast : Nat → R) t ((processFrames oks score thr frames).1.map (·.2.2))
        ((processFrames oks score thr frames).1.length + (processFrames oks score thr frames).2.length) := by
  obtain ⟨hsub, hcnt⟩ := processFrames_trunc oks score thr k frames
  rw [hcnt]
  exact recallAt_sublist t (hsub.map _) _

example : (truncFrames (R := Rat) (G := Nat) (fun p : Nat => if p = 0 then 9/10 else 1/2) 1
    [⟨[0, 1], some [1, 0]⟩]).map (·.prs) = [some [0]] := by decide +kernel

/-- OKS table of the F-C16 witness: gt `0` = G1, gt `1` = G2 (far away); prediction `0` = P (G1 shifted
3 px, score 0.9, OKS 0.32 — measured 0.105 on the real arrays, any value < 0.5 does), prediction `1` = Q
(G1 shifted 0.5 px, score 0.5, OKS 0.97). -/
def witnessOks (g p : Nat) : Option Rat :=
  match g, p with
  | 0, 0 => some (8/25)
  | 0, 1 => some (97/100)
  | _, _ => some 0

def witnessScore (p : Nat) : Rat := if p = 0 then 9/10 else 1/2

/-- **F-C16.**  With P and Q, P takes G1 and Q matches nothing: recall at 0.5 is 0.  Delete P and Q
takes G1: recall 1/2.  Deleting a prediction increased recall. -/
theorem recall_deletion_counterexample :
    let full := processFrames witnessOks witnessScore 0 [⟨[0, 1], some [0, 1]⟩]
    let del := processFrames witnessOks witnessScore 0 [⟨[0, 1], some [1]⟩]
    recallAt (Nat.cast : Nat → Rat) (1/2) (full.1.map (·.2.2)) (full.1.length + full.2.length) = 0 ∧
    recallAt (Nat.cast : Nat → Rat) (1/2) (del.1.map (·.2.2)) (del.1.length + del.2.length) = 1/2 ∧
    ¬ RecallNeverIncreasesUnderDeletion (R := Rat) witnessOks witnessScore 0 := by
  have h1 : recallAt (Nat.cast : Nat → Rat) (1/2)
      ((processFrames witnessOks witnessScore 0 [⟨[0, 1], some [0, 1]⟩]).1.map (·.2.2))
      ((processFrames witnessOks witnessScore 0 [⟨[0, 1], some [0, 1]⟩]).1.length +
        (processFrames witnessOks witnessScore 0 [⟨[0, 1], some [0, 1]⟩]).2.length) = 0 := by decide +kernel
  have h2 : recallAt (Nat.cast : Nat → Rat) (1/2)
      ((processFrames witnessOks witnessScore 0 [⟨[0, 1], some [1]⟩]).1.map (·.2.2))
      ((processFrames witnessOks witnessScore 0 [⟨[0, 1], some [1]⟩]).1.length +
        (processFrames witnessOks witnessScore 0 [⟨[0, 1], some [1]⟩]).2.length) = 1/2 := by decide +kernel
  refine ⟨h1, h2, ?_⟩
  intro hall
  have := hall [⟨[0, 1], some [0, 1]⟩] [⟨[0, 1], some [1]⟩]
    (List.Forall₂.cons ⟨rfl, Or.inr ⟨[0, 1], [1], rfl, rfl, by decide⟩⟩ List.Forall₂.nil) (1/2)
  rw [h1, h2] at this
  exact absurd this (by decide +kernel)

/-- **F-C16b.**  Two frames, each with one gt; frame 1's only prediction matches nothing (OKS 0).
Recall is 1/2.  Remove frame 1's prediction *frame*: the pair is skipped, its gt is no longer counted,
recall becomes 1. -/
theorem recall_frame_removal_counterexample :
    let oks : Nat → Nat → Option Rat := fun g p => if g = 0 ∧ p = 0 then some 1 else some 0
    let full := processFrames oks (fun _ => (1 : Rat)) 0 [⟨[0], some [0]⟩, ⟨[1], some [1]⟩]
    let del := processFrames oks (fun _ => (1 : Rat)) 0 [⟨[0], some [0]⟩, ⟨[1], none⟩]
    recallAt (Nat.cast : Nat → Rat) (1/2) (full.1.map (·.2.2)) (full.1.length + full.2.length) = 1/2 ∧
    recallAt (Nat.cast : Nat → Rat) (1/2) (del.1.map (·.2.2)) (del.1.length + del.2.length) = 1 := by
  decide +kernel

end deletion

/-! ## perfect predictions -/

section perfect
variable {G P : Type}

/-- **Perfect predictions are matched to their own ground truth.**  `pred g` is the prediction
identical to gt `g` (OKS `one`, C15 `oks_self`); the gt instances are pairwise distinguishable
(`hdist`: any *other* gt scores strictly below `one` against `pred g`).  Whatever the detection
scores and the listing order of the predictions, every gt is paired with its own prediction at OKS
`one` and there is no false negative.  The distinguishability hypothesis is necessary (two gt animals
whose visible nodes coincide can be cross-matched). -/
theorem perfect_matching (oks : G → P → Option R) (score : P → R) (pred : G → P) (thr one : R)
    (hthr : thr < one) (hself : ∀ g, oks g (pred g) = some one)
    (hdist : ∀ g g' w, g' ≠ g → oks g' (pred g) = some w → w < one)
    (gts gs : List G) (hp : gs.Perm gts) (hnd : gts.Nodup) :
    matchInstances oks score thr gts (gs.map pred) =
      ((sortDesc (score ∘ pred) gs).map (fun g => (g, pred g, one)), []) := by
  unfold matchInstances
  rw [sortDesc_map]
  exact matchLoop_perfect oks pred thr one hthr hself hdist _ gts ((sortDesc_perm _ gs).trans hp) hnd

/-- **Perfect scores.**  When every positive pair has OKS 1 and nothing was missed (the conclusion
of `perfect_matching` with `one = 1`): recall (AR) is 1 at every match threshold `t ≤ 1`, mean OKS is
1; an identical keypoint has distance 0 (NaN iff missing) and is within every positive pixel
threshold, so PCK of an identical pose is the fraction of its visible keypoints. -/
theorem perfect_scores (T : Transc R) (pairs : List (R × R)) (hne : pairs ≠ []) (h1 : ∀ p ∈ pairs, p.1 = 1) :
    (∀ t : R, t ≤ 1 → recallAt (Nat.cast : Nat → R) t (pairs.map (·.1)) (pairs.length + 0) = 1) ∧
    mOKS (Nat.cast : Nat → R) pairs = some 1 ∧
    (∀ g : Pt R, Eval.dist T.sqrt g g = (vis g).map (fun _ => (0 : R))) ∧
    (∀ (thr : R) (g : List (Pt R)), 0 < thr →
      pckAt (Nat.cast : Nat → R) thr (distRow T.sqrt g g) =
        ((g.filter isVis).length : R) / (g.length : R)) := by
  have hlenpos : (0 : R) < (pairs.length : R) := by
    have : 0 < pairs.length := List.length_pos_iff.mpr hne
    exact_mod_cast this
  have hms : pairs.map (·.1) = List.replicate pairs.length (1 : R) := by
    apply List.eq_replicate_iff.mpr
    refine ⟨by simp, ?_⟩
    intro b hb
    obtain ⟨p, hp, rfl⟩ := List.mem_map.mp hb
    exact h1 p hp
  refine ⟨?_, ?_, ?_, ?_⟩
  · intro t ht
    unfold recallAt
    have hfl : flags t (pairs.map (·.1)) = List.replicate pairs.length true := by
      rw [hms]
      simp [flags, not_lt.mpr ht]
    rw [hfl]
    simp only [List.filter_replicate, id, if_true, List.length_replicate, Nat.add_zero]
    exact div_self (ne_of_gt hlenpos)
  · cases pairs with
    | nil => exact absurd rfl hne
    | cons p ps =>
      simp only [mOKS]
      congr 1
      unfold mean
      rw [hms]
      have : ∀ n : Nat, sumR (List.replicate n (1 : R)) = (n : R) := by
        intro n
        induction n with
        | zero => simp [sumR]
        | succ k ih => rw [List.replicate_succ, sumR_cons, ih]; push_cast; ring
      rw [this, List.length_replicate]
      exact div_self (ne_of_gt hlenpos)
  · intro g
    obtain ⟨x, y⟩ := g
    cases x <;> cases y <;> simp [Eval.dist, vis, T.sqrt_zero]
  · intro thr g hthr
    unfold pckAt
    have hd : ∀ a : Pt R, within thr (Eval.dist T.sqrt a a) = isVis a := by
      intro a
      obtain ⟨x, y⟩ := a
      cases x <;> cases y <;> simp [Eval.dist, within, isVis, vis, T.sqrt_zero, hthr]
    have hcnt : ((distRow T.sqrt g g).filter (within thr)).length = (g.filter isVis).length := by
      unfold distRow
      induction g with
      | nil => rfl
      | cons a t ih =>
        simp only [List.zipWith_cons_cons, List.filter_cons, hd]
        cases isVis a
        · simpa using ih
        · simpa using ih
    have hlen : (distRow T.sqrt g g).length = g.length := by simp [distRow]
    rw [hcnt, hlen]

example : ∃ (oks : Nat → Nat → Option Rat), (∀ g, oks g g = some 1) ∧
    (∀ g g' w, g' ≠ g → oks g' g = some w → w < 1) :=
  ⟨fun g p => if g = p then some 1 else some (1/2), by simp, by
    intro g g' w hne h
    simp only [if_neg hne, Option.some.injEq] at h
    rw [← h]; decide +kernel⟩

end perfect

end SleapVerif.C16
