import SleapVerif.Lemmas.EvalVoc
import SleapVerif.Lemmas.EvalMatch
import SleapVerif.Lemmas.EvalPairs
import SleapVerif.Lemmas.EvalPct
import SleapVerif.Lemmas.EvalPck
import SleapVerif.Props.C15

/-!
# C16 — evaluation metrics: perfect for perfect predictions, bounded, monotone

Statements are about `SleapVerif.Eval` (model of `sleap_nn.evaluation.Evaluator`, tied to the code on
every run by `harness/c16.py`) over **every** ordered field `R`; `Nat.cast` plays `cast`.
All lists (pairs, thresholds, frames, animals) are unbounded.

The clause “deleting predictions can never increase recall” is **false** of the code (F-C16, F-C16b):
`recall_monotone_under_truncation_partial` proves it for the deletions that keep the `k`
highest-scoring predictions of every frame, `recall_deletion_counterexample` and
`recall_frame_removal_counterexample` refute the general statement on concrete witnesses.
-/
namespace SleapVerif.C16
open SleapVerif.Oks SleapVerif.Eval

variable {R : Type} [Field R] [LinearOrder R] [IsStrictOrderedRing R]

/-! ## every reported ratio lies in `[0, 1]` -/

/-- precisions, recalls (= AR), AP, mAP, mAR ∈ [0,1] for every set of positive pairs, any number of
false negatives, any threshold grids (`0 ≤ eps`; `np.spacing(1) > 0`). -/
theorem ratios_in_unit (eps : R) (he : 0 ≤ eps) (pairs : List (R × R)) (nFn : Nat) (mT rT : List R)
    (v : Voc R) (h : vocMetrics (Nat.cast : Nat → R) eps pairs nFn mT rT = some v) :
    (∀ row ∈ v.precisions, ∀ x ∈ row, InUnit x) ∧ (∀ x ∈ v.recalls, InUnit x) ∧
    (∀ x ∈ v.AP, InUnit x) ∧ InUnit v.mAP ∧ InUnit v.mAR := by
  cases pairs with
  | nil => simp [vocMetrics] at h
  | cons p ps =>
    simp only [vocMetrics, Option.some.injEq] at h
    subst h
    have hlen : ((sortDesc (fun x => x.2) (p :: ps)).map (·.1)).length ≤ (p :: ps).length + nFn := by
      rw [List.length_map, (sortDesc_perm _ _).length_eq]; omega
    have hrow : ∀ t, (∀ x ∈ (vocRow (Nat.cast : Nat → R) eps ((p :: ps).length + nFn) rT
        ((sortDesc (fun x => x.2) (p :: ps)).map (·.1)) t).precision, InUnit x) ∧
        InUnit (vocRow (Nat.cast : Nat → R) eps ((p :: ps).length + nFn) rT
        ((sortDesc (fun x => x.2) (p :: ps)).map (·.1)) t).recall :=
      fun t => vocRow_unit eps he _ rT _ t hlen
    have hP : ∀ row ∈ List.map (·.precision) (mT.map (vocRow (Nat.cast : Nat → R) eps ((p :: ps).length + nFn) rT
        ((sortDesc (fun x => x.2) (p :: ps)).map (·.1)))), ∀ x ∈ row, InUnit x := by
      intro row hr x hx
      simp only [List.map_map, List.mem_map, Function.comp] at hr
      obtain ⟨t, _, rfl⟩ := hr
      exact (hrow t).1 x hx
    have hRc : ∀ x ∈ List.map (·.recall) (mT.map (vocRow (Nat.cast : Nat → R) eps ((p :: ps).length + nFn) rT
        ((sortDesc (fun x => x.2) (p :: ps)).map (·.1)))), InUnit x := by
      intro x hx
      simp only [List.map_map, List.mem_map, Function.comp] at hx
      obtain ⟨t, _, rfl⟩ := hx
      exact (hrow t).2
    refine ⟨hP, hRc, ?_, ?_, mean_unit _ hRc⟩
    · intro x hx
      obtain ⟨row, hr, rfl⟩ := List.mem_map.mp hx
      exact mean_unit row (hP row hr)
    · apply mean_unit
      intro x hx
      obtain ⟨row, hr, hxr⟩ := List.mem_flatten.mp hx
      exact hP row hr x hxr

/-- mean OKS ∈ [0,1] when every pair's OKS is (C15 `oks_range`) -/
theorem moks_in_unit (pairs : List (R × R)) (h : ∀ p ∈ pairs, InUnit p.1) (v : R)
    (hv : mOKS (Nat.cast : Nat → R) pairs = some v) : InUnit v := by
  cases pairs with
  | nil => simp [mOKS] at hv
  | cons p ps =>
    simp only [mOKS, Option.some.injEq] at hv
    subst hv
    apply mean_unit
    intro x hx
    obtain ⟨q, hq, rfl⟩ := List.mem_map.mp hx
    exact h q hq

theorem pck_in_unit (thr : R) (d : List (Option R)) : InUnit (pckAt (Nat.cast : Nat → R) thr d) := by
  unfold pckAt
  have h : ((d.filter (within thr)).length : R) ≤ (d.length : R) := by
    exact_mod_cast List.length_filter_le _ _
  exact ⟨div_nonneg (Nat.cast_nonneg _) (Nat.cast_nonneg _), div_le_one_of_le₀ h (Nat.cast_nonneg _)⟩

/-- the **reported** PCK quantities: every `mPCK_parts` entry and `mPCK` (when it is a number, i.e. when
there is at least one positive pair) lie in `[0,1]` -/
theorem mPCK_in_unit (thrs : List R) (d : List (List (Option R))) (n : Nat) :
    (∀ x ∈ mPCKparts (Nat.cast : Nat → R) thrs d n, InUnit x) ∧
    (∀ v, mPCK (Nat.cast : Nat → R) thrs d n = some v → InUnit v) :=
  ⟨mPCKparts_unit thrs d n, mPCK_unit thrs d n⟩

/-- **F-C16e.**  "Every reported ratio always lies in [0,1]" fails of the code when there is at least
one frame pair but no positive pair: `mOKS`, `mPCK`, `avg` and the visibility ratios are NaN (`none`),
only the VOC block falls back to zeros. -/
theorem no_positive_pairs_nan_counterexample :
    mOKS (Nat.cast : Nat → Rat) [] = none ∧ mPCK (Nat.cast : Nat → Rat) [1, 2] [] 3 = none ∧
    avgDist (Nat.cast : Nat → Rat) [] = none ∧ ratio (Nat.cast : Nat → Rat) 0 0 = none ∧
    vocMetrics (Nat.cast : Nat → Rat) 1 [] 2 [1/2] [0, 1] = none := by
  decide +kernel

/-- visibility precision / recall ∈ [0,1] whenever defined -/
theorem vis_ratio_in_unit (a b : Nat) (v : R) (h : ratio (Nat.cast : Nat → R) a b = some v) : InUnit v := by
  unfold ratio at h
  split at h
  · cases h
  · have := Option.some.inj h
    subst this
    have hab : (a : R) ≤ ((a + b : Nat) : R) := by exact_mod_cast Nat.le_add_right a b
    exact ⟨div_nonneg (Nat.cast_nonneg _) (Nat.cast_nonneg _), div_le_one_of_le₀ hab (Nat.cast_nonneg _)⟩

/-! ## monotonicity -/

/-- the precision envelope is non-increasing, keeps the length, and each of its values is one of
the raw precisions -/
theorem envelope_antitone (l : List R) :
    (env l).Pairwise (fun a b => b ≤ a) ∧ (env l).length = l.length ∧ ∀ y ∈ env l, y ∈ l :=
  ⟨env_antitone l, env_length l, env_subset l⟩

/-- the `recalls`/`AR` entries are (true positives at the threshold) / (all gt instances), whatever
the order of the pairs -/
theorem recall_eq_recallAt (eps : R) (pairs : List (R × R)) (nFn : Nat) (mT rT : List R) (v : Voc R)
    (h : vocMetrics (Nat.cast : Nat → R) eps pairs nFn mT rT = some v) :
    v.recalls = mT.map (fun t => recallAt (Nat.cast : Nat → R) t (pairs.map (·.1)) (pairs.length + nFn)) := by
  cases pairs with
  | nil => simp [vocMetrics] at h
  | cons p ps =>
    simp only [vocMetrics, Option.some.injEq] at h
    subst h
    simp only [List.map_map]
    apply List.map_congr_left
    intro t _
    have hne : (sortDesc (fun x => x.2) (p :: ps)).map (·.1) ≠ [] := by
      intro h0
      have := congrArg List.length h0
      rw [List.length_map, (sortDesc_perm _ _).length_eq] at this
      simp at this
    simp only [Function.comp]
    rw [vocRow_recall eps _ rT _ t hne]
    exact recallAt_perm t ((sortDesc_perm _ _).map _) _

/-- **AR is non-increasing in the match threshold.** -/
theorem AR_antitone_in_threshold (t t' : R) (h : t ≤ t') (ms : List R) (npig : Nat) :
    recallAt (Nat.cast : Nat → R) t' ms npig ≤ recallAt (Nat.cast : Nat → R) t ms npig :=
  recallAt_mono t t' h ms npig

/-- **AP is non-increasing in the match threshold** (every precision entry is, hence the mean). -/
theorem AP_antitone_in_threshold (eps : R) (he : 0 ≤ eps) (npig : Nat) (recThr ms : List R) (t t' : R)
    (h : t ≤ t') :
    List.Forall₂ (· ≤ ·) (vocRow (Nat.cast : Nat → R) eps npig recThr ms t').precision
      (vocRow (Nat.cast : Nat → R) eps npig recThr ms t).precision ∧
    mean (Nat.cast : Nat → R) (vocRow (Nat.cast : Nat → R) eps npig recThr ms t').precision ≤
      mean (Nat.cast : Nat → R) (vocRow (Nat.cast : Nat → R) eps npig recThr ms t).precision :=
  ⟨vocRow_precision_mono eps he npig recThr ms t t' h,
   mean_mono (vocRow_precision_mono eps he npig recThr ms t t' h)⟩

/-- **PCK is non-decreasing in the pixel threshold.** -/
theorem pck_monotone_in_pixels (thr thr' : R) (h : thr ≤ thr') (d : List (Option R)) :
    pckAt (Nat.cast : Nat → R) thr d ≤ pckAt (Nat.cast : Nat → R) thr' d := by
  unfold pckAt
  have hsub : ∀ x, within thr x = true → within thr' x = true := by
    intro x hx
    cases x with
    | none => simp [within] at hx
    | some y =>
      simp only [within, decide_eq_true_eq] at hx ⊢
      exact lt_of_lt_of_le hx h
  have : (d.filter (within thr)).length ≤ (d.filter (within thr')).length := by
    induction d with
    | nil => exact le_refl _
    | cons x t ih =>
      simp only [List.filter_cons]
      cases h1 : within thr x
      · simp only [Bool.false_eq_true, if_false]
        split
        · simp only [List.length_cons]; omega
        · exact ih
      · simp only [if_true, hsub x h1, List.length_cons]; omega
  exact div_le_div_of_nonneg_right (by exact_mod_cast this) (Nat.cast_nonneg _)

/-- **The distance summary is monotone**: `p50 ≤ p75 ≤ p90 ≤ p95 ≤ p99` (any `p ≤ q ≤ 100`), for every
non-empty sample of distances (`np.percentile` with linear interpolation). -/
theorem percentile_monotone (p q : Nat) (hpq : p ≤ q) (hq : q ≤ 100) (l : List R) (v w : R)
    (hv : percentile (Nat.cast : Nat → R) p l = some v) (hw : percentile (Nat.cast : Nat → R) q l = some w) :
    v ≤ w := by
  obtain ⟨s0, st, hs, rfl⟩ := percentile_eq p l v hv
  obtain ⟨s0', st', hs', rfl⟩ := percentile_eq q l w hw
  rw [hs] at hs'
  obtain ⟨rfl, rfl⟩ := List.cons.inj hs'
  have hsorted := sortAsc_sorted l
  rw [hs] at hsorted
  exact interp_mono hsorted s0 (by simp) p q hpq hq

example : percentile (fun n : Nat => (n : Rat)) 50 [3, 1, 2, 10] = some (5/2) := by decide +kernel

/-! ## deleting predictions -/

section deletion
variable {G P : Type}

/-- Full clause (false of the code, see the two counterexamples): for every sub-selection of the
predictions of every frame, recall at every threshold does not increase. -/
def RecallNeverIncreasesUnderDeletion (oks : G → P → Option R) (score : P → R) (thr : R) : Prop :=
  ∀ (frames frames' : List (Frame G P)),
    List.Forall₂ (fun f' f => f'.gts = f.gts ∧
      ((f'.prs = none) ∨ ∃ l l', f.prs = some l ∧ f'.prs = some l' ∧ l'.Sublist l)) frames' frames →
    ∀ t, recallAt (Nat.cast : Nat → R) t ((processFrames oks score thr frames').1.map (·.2.2))
          ((processFrames oks score thr frames').1.length + (processFrames oks score thr frames').2.length) ≤
         recallAt (Nat.cast : Nat → R) t ((processFrames oks score thr frames).1.map (·.2.2))
          ((processFrames oks score thr frames).1.length + (processFrames oks score thr frames).2.length)

/-- **Partial**: keeping only the `k i` highest-scoring predictions of the `i`-th frame (any `k`, a
separate one for every frame) never increases recall, at any match threshold — the matcher treats
that prefix identically, so the positive pairs of the truncated run are a sub-list of the full run's
and the gt count is unchanged. -/
theorem recall_monotone_under_truncation_partial (oks : G → P → Option R) (score : P → R) (thr t : R)
    (k : Nat → Nat) (frames : List (Frame G P)) :
    recallAt (Nat.cast : Nat → R) t
        ((processFrames oks score thr (truncFramesK score k 0 frames)).1.map (·.2.2))
        ((processFrames oks score thr (truncFramesK score k 0 frames)).1.length +
          (processFrames oks score thr (truncFramesK score k 0 frames)).2.length) ≤
      recallAt (Nat.cast : Nat → R) t ((processFrames oks score thr frames).1.map (·.2.2))
        ((processFrames oks score thr frames).1.length + (processFrames oks score thr frames).2.length) := by
  obtain ⟨hsub, hcnt⟩ := processFrames_truncK oks score thr k frames 0
  rw [hcnt]
  exact recallAt_sublist t (hsub.map _) _

example : (truncFramesK (R := Rat) (G := Nat) (fun p : Nat => if p = 0 then 9/10 else 1/2) (fun i => i + 1) 0
    [⟨[0, 1], some [1, 0]⟩, ⟨[2], some [1, 0]⟩]).map (·.prs) = [some [0], some [0, 1]] := by decide +kernel

/-- OKS table of the F-C16 witness: gt `0` = G1, gt `1` = G2 (far away); prediction `0` = P (G1 shifted
3 px, score 0.9, OKS 0.32 — measured 0.105 on the real arrays, any value < 0.5 does), prediction `1` = Q
(G1 shifted 0.5 px, score 0.5, OKS 0.97). -/
def witnessOks (g p : Nat) : Option Rat :=
  match g, p with
  | 0, 0 => some (8/25)
  | 0, 1 => some (97/100)
  | _, _ => some 0

def witnessScore (p : Nat) : Rat := if p = 0 then 9/10 else 1/2

/-- **F-C16.**  With P and Q, P takes G1 and Q matches nothing: recall at 0.5 is 0.  Delete P and Q
takes G1: recall 1/2.  Deleting a prediction increased recall. -/
theorem recall_deletion_counterexample :
    let full := processFrames witnessOks witnessScore 0 [⟨[0, 1], some [0, 1]⟩]
    let del := processFrames witnessOks witnessScore 0 [⟨[0, 1], some [1]⟩]
    recallAt (Nat.cast : Nat → Rat) (1/2) (full.1.map (·.2.2)) (full.1.length + full.2.length) = 0 ∧
    recallAt (Nat.cast : Nat → Rat) (1/2) (del.1.map (·.2.2)) (del.1.length + del.2.length) = 1/2 ∧
    ¬ RecallNeverIncreasesUnderDeletion (R := Rat) witnessOks witnessScore 0 := by
  have h1 : recallAt (Nat.cast : Nat → Rat) (1/2)
      ((processFrames witnessOks witnessScore 0 [⟨[0, 1], some [0, 1]⟩]).1.map (·.2.2))
      ((processFrames witnessOks witnessScore 0 [⟨[0, 1], some [0, 1]⟩]).1.length +
        (processFrames witnessOks witnessScore 0 [⟨[0, 1], some [0, 1]⟩]).2.length) = 0 := by decide +kernel
  have h2 : recallAt (Nat.cast : Nat → Rat) (1/2)
      ((processFrames witnessOks witnessScore 0 [⟨[0, 1], some [1]⟩]).1.map (·.2.2))
      ((processFrames witnessOks witnessScore 0 [⟨[0, 1], some [1]⟩]).1.length +
        (processFrames witnessOks witnessScore 0 [⟨[0, 1], some [1]⟩]).2.length) = 1/2 := by decide +kernel
  refine ⟨h1, h2, ?_⟩
  intro hall
  have := hall [⟨[0, 1], some [0, 1]⟩] [⟨[0, 1], some [1]⟩]
    (List.Forall₂.cons ⟨rfl, Or.inr ⟨[0, 1], [1], rfl, rfl, by decide⟩⟩ List.Forall₂.nil) (1/2)
  rw [h1, h2] at this
  exact absurd this (by decide +kernel)

/-- **F-C16b.**  Two frames, each with one gt; frame 1's only prediction matches nothing (OKS 0).
Recall is 1/2.  Remove frame 1's prediction *frame*: the pair is skipped, its gt is no longer counted,
recall becomes 1. -/
theorem recall_frame_removal_counterexample :
    let oks : Nat → Nat → Option Rat := fun g p => if g = 0 ∧ p = 0 then some 1 else some 0
    let full := processFrames oks (fun _ => (1 : Rat)) 0 [⟨[0], some [0]⟩, ⟨[1], some [1]⟩]
    let del := processFrames oks (fun _ => (1 : Rat)) 0 [⟨[0], some [0]⟩, ⟨[1], none⟩]
    recallAt (Nat.cast : Nat → Rat) (1/2) (full.1.map (·.2.2)) (full.1.length + full.2.length) = 1/2 ∧
    recallAt (Nat.cast : Nat → Rat) (1/2) (del.1.map (·.2.2)) (del.1.length + del.2.length) = 1 := by
  decide +kernel

end deletion

/-! ## perfect predictions -/

section perfect
variable {G P : Type}

/-- **Perfect predictions are matched to their own ground truth.**  `pred g` is the prediction
identical to gt `g` (OKS `one`, C15 `oks_self`); the gt instances are pairwise distinguishable
(`hdist`: any *other* gt scores strictly below `one` against `pred g`).  Whatever the detection
scores and the listing order of the predictions, every gt is paired with its own prediction at OKS
`one` and there is no false negative.  The distinguishability hypothesis is necessary (two gt animals
whose visible nodes coincide can be cross-matched). -/
theorem perfect_matching (oks : G → P → Option R) (score : P → R) (pred : G → P) (thr one : R)
    (hthr : thr < one) (gts gs : List G) (hp : gs.Perm gts) (hnd : gts.Nodup)
    (hself : ∀ g ∈ gts, oks g (pred g) = some one)
    (hdist : ∀ g ∈ gts, ∀ g' ∈ gts, ∀ w, g' ≠ g → oks g' (pred g) = some w → w < one) :
    matchInstances oks score thr gts (gs.map pred) =
      ((sortDesc (score ∘ pred) gs).map (fun g => (g, pred g, one)), []) := by
  unfold matchInstances
  rw [sortDesc_map]
  exact matchLoop_perfect oks pred thr one hthr gts hself hdist _ gts ((sortDesc_perm _ gs).trans hp) hnd
    (fun x hx => hx)

/-- **Perfect predictions next to empty ground-truth instances** (HEAD's behaviour, stated): `real g` =
gt instance `g` has a visible keypoint.  With exact copies of *all* gt instances as predictions (the
copy of an empty instance scores OKS 0/NaN against everything), in any listing order and with any
detection scores: every real gt is paired with its own copy at OKS `one`, the empty gt instances —
wherever they stand in the frame's list — are exactly the false negatives, and nothing else is.
So recall is `#real / #all`, not 1: an empty user instance counts as a miss. -/
theorem perfect_matching_with_empty (oks : G → P → Option R) (score : P → R) (pred : G → P)
    (real : G → Bool) (thr one : R) (hthr : thr < one)
    (hself : ∀ g, real g = true → oks g (pred g) = some one)
    (hdist : ∀ g g' w, real g = true → g' ≠ g → oks g' (pred g) = some w → w < one)
    (hempty : ∀ g g' w, real g = false → oks g' (pred g) = some w → ¬ thr < w)
    (gts gs : List G) (hp : gs.Perm gts) (hnd : gts.Nodup) :
    (matchInstances oks score thr gts (gs.map pred)).1 =
      ((sortDesc (score ∘ pred) gs).filter real).map (fun g => (g, pred g, one)) ∧
    (∀ g ∈ gts, real g = false → g ∈ (matchInstances oks score thr gts (gs.map pred)).2) ∧
    (∀ g ∈ (matchInstances oks score thr gts (gs.map pred)).2, real g = false) := by
  have hperm : (sortDesc (score ∘ pred) gs).Perm gts := (sortDesc_perm _ gs).trans hp
  have h1 : (matchInstances oks score thr gts (gs.map pred)).1 =
      ((sortDesc (score ∘ pred) gs).filter real).map (fun g => (g, pred g, one)) := by
    unfold matchInstances
    rw [sortDesc_map]
    exact matchLoop_perfect_empty oks pred real thr one hthr hself hdist hempty _ gts hnd
      (hperm.nodup_iff.mpr hnd) (fun g hg _ => hperm.mem_iff.mp hg)
  have hcons := SleapVerif.C15.match_conservation oks score thr gts (gs.map pred)
  have hfst : (matchInstances oks score thr gts (gs.map pred)).1.map (·.1) =
      (sortDesc (score ∘ pred) gs).filter real := by
    rw [h1, List.map_map]; simp [Function.comp_def]
  refine ⟨h1, ?_, ?_⟩
  · intro g hg hr
    rcases List.mem_append.mp (hcons.mem_iff.mpr hg) with h | h
    · rw [hfst] at h
      have := (List.mem_filter.mp h).2
      rw [hr] at this; cases this
    · exact h
  · intro g hg
    cases hr : real g with
    | false => rfl
    | true =>
      have hnd2 := hcons.nodup_iff.mpr hnd
      rw [List.nodup_append] at hnd2
      have hgts : g ∈ gts := hcons.mem_iff.mp (List.mem_append_right _ hg)
      have hin : g ∈ (matchInstances oks score thr gts (gs.map pred)).1.map (·.1) := by
        rw [hfst]; exact List.mem_filter.mpr ⟨hperm.mem_iff.mpr hgts, hr⟩
      exact absurd rfl (hnd2.2.2 g hin g hg)

/-- **Perfect scores.**  When every positive pair has OKS 1 and nothing was missed (the conclusion
of `perfect_matching` with `one = 1`): recall (AR) is 1 at every match threshold `t ≤ 1`, mean OKS is
1; an identical keypoint has distance 0 (NaN iff missing) and is within every positive pixel
threshold, so PCK of an identical pose is the fraction of its visible keypoints. -/
theorem perfect_scores (T : Transc R) (pairs : List (R × R)) (hne : pairs ≠ []) (h1 : ∀ p ∈ pairs, p.1 = 1) :
    (∀ t : R, t ≤ 1 → recallAt (Nat.cast : Nat → R) t (pairs.map (·.1)) (pairs.length + 0) = 1) ∧
    mOKS (Nat.cast : Nat → R) pairs = some 1 ∧
    (∀ g : Pt R, Eval.dist T.sqrt g g = (vis g).map (fun _ => (0 : R))) ∧
    (∀ (thr : R) (g : List (Pt R)), 0 < thr →
      pckAt (Nat.cast : Nat → R) thr (distRow T.sqrt g g) =
        ((g.filter isVis).length : R) / (g.length : R)) := by
  have hlenpos : (0 : R) < (pairs.length : R) := by
    have : 0 < pairs.length := List.length_pos_iff.mpr hne
    exact_mod_cast this
  have hms : pairs.map (·.1) = List.replicate pairs.length (1 : R) := by
    apply List.eq_replicate_iff.mpr
    refine ⟨by simp, ?_⟩
    intro b hb
    obtain ⟨p, hp, rfl⟩ := List.mem_map.mp hb
    exact h1 p hp
  refine ⟨?_, ?_, ?_, ?_⟩
  · intro t ht
    unfold recallAt
    have hfl : flags t (pairs.map (·.1)) = List.replicate pairs.length true := by
      rw [hms]
      simp [flags, not_lt.mpr ht]
    rw [hfl]
    simp only [List.filter_replicate, id, if_true, List.length_replicate, Nat.add_zero]
    exact div_self (ne_of_gt hlenpos)
  · cases pairs with
    | nil => exact absurd rfl hne
    | cons p ps =>
      simp only [mOKS]
      congr 1
      unfold mean
      rw [hms]
      have : ∀ n : Nat, sumR (List.replicate n (1 : R)) = (n : R) := by
        intro n
        induction n with
        | zero => simp [sumR]
        | succ k ih => rw [List.replicate_succ, sumR_cons, ih]; push_cast; ring
      rw [this, List.length_replicate]
      exact div_self (ne_of_gt hlenpos)
  · intro g
    obtain ⟨x, y⟩ := g
    cases x <;> cases y <;> simp [Eval.dist, vis, T.sqrt_zero]
  · intro thr g hthr
    unfold pckAt
    have hd : ∀ a : Pt R, within thr (Eval.dist T.sqrt a a) = isVis a := by
      intro a
      obtain ⟨x, y⟩ := a
      cases x <;> cases y <;> simp [Eval.dist, within, isVis, vis, T.sqrt_zero, hthr]
    have hcnt : ((distRow T.sqrt g g).filter (within thr)).length = (g.filter isVis).length := by
      unfold distRow
      induction g with
      | nil => rfl
      | cons a t ih =>
        simp only [List.zipWith_cons_cons, List.filter_cons, hd]
        cases isVis a
        · simpa using ih
        · simpa using ih
    have hlen : (distRow T.sqrt g g).length = g.length := by simp [distRow]
    rw [hcnt, hlen]

/-- **AP for perfect predictions**: all `n` positive pairs reach the match threshold `t` and nothing was
missed ⇒ every precision entry at a recall threshold `r ≤ 1`, hence AP, is at least `n/(n+eps)`
`≥ 1 − eps` ("1 up to rounding"; `eps = np.spacing(1)`). -/
theorem perfect_AP (eps : R) (he : 0 ≤ eps) (ms recThr : List R) (t : R) (hne : ms ≠ [])
    (hms : ∀ m ∈ ms, t ≤ m) (hr : ∀ r ∈ recThr, r ≤ 1) (hrne : recThr ≠ []) :
    (ms.length : R) / ((ms.length : R) + eps) ≤
      mean (Nat.cast : Nat → R) (vocRow (Nat.cast : Nat → R) eps (ms.length + 0) recThr ms t).precision ∧
    1 - eps ≤ (ms.length : R) / ((ms.length : R) + eps) := by
  have hn : 0 < ms.length := List.length_pos_iff.mpr hne
  have hfl : flags t ms = List.replicate ms.length true := by
    apply List.eq_replicate_iff.mpr
    refine ⟨by simp [flags], ?_⟩
    intro b hb
    simp only [flags, List.mem_map] at hb
    obtain ⟨m, hm, rfl⟩ := hb
    simp [not_lt.mpr (hms m hm)]
  constructor
  · apply le_mean
    · simpa [vocRow] using hrne
    · intro x hx
      simp only [vocRow, List.mem_map, Nat.add_zero] at hx
      obtain ⟨r, hrm, rfl⟩ := hx
      rw [hfl]
      exact perfect_precision_ge eps he ms.length hn r (hr r hrm)
  · have hnR : (1 : R) ≤ (ms.length : R) := by exact_mod_cast hn
    have hpos : (0 : R) < (ms.length : R) + eps := by linarith
    rw [le_div_iff₀ hpos]
    nlinarith [mul_nonneg he he]

example : ∃ (oks : Nat → Nat → Option Rat), (∀ g, oks g g = some 1) ∧
    (∀ g g' w, g' ≠ g → oks g' g = some w → w < 1) :=
  ⟨fun g p => if g = p then some 1 else some (1/2), by simp, by
    intro g g' w hne h
    simp only [if_neg hne, Option.some.injEq] at h
    rw [← h]; decide +kernel⟩

end perfect

/-! ## frame pairing (`find_frame_pairs`) -/

section pairing
variable {G P : Type}

/-- every pair consists of a gt frame with ≥ 1 user instance and the prediction frame that has the
same `frame_idx` in the prediction video whose (backend class, filename, **dataset**) equal those of
the gt frame's video -/
theorem pairs_sound (gt : Labels G) (pr : Labels P) (a : LFrame G) (b : LFrame P)
    (h : (a, b) ∈ findFramePairs gt pr) :
    a ∈ gt.frames ∧ a.insts ≠ [] ∧ b ∈ pr.frames ∧ b.frameIdx = a.frameIdx ∧
      ∃ vk, gt.videos[a.video]? = some vk ∧ pr.videos[b.video]? = some vk := by
  obtain ⟨vk, pj, hv, hf, ha, hne, hfind⟩ := (mem_findFramePairs gt pr a b).mp h
  have hb := List.find?_some hfind
  simp only [Bool.and_eq_true, beq_iff_eq] at hb
  obtain ⟨x, hx, hpx, _⟩ := firstIdx_spec _ _ pj hf
  have : x = vk := (sameVideo_iff vk x).mp hpx
  subst this
  exact ⟨ha, hne, List.mem_of_find?_eq_some hfind, hb.2, x, hv, by rw [hb.1]; exact hx⟩

/-- **Pairing is injective on (video, frame_idx)**: when the gt videos are pairwise distinguishable
(by backend class, filename or dataset), two pairs that use the same prediction (video, frame_idx)
come from the same gt (video, frame_idx) — no prediction frame is compared with frames of two
different gt videos. -/
theorem pairing_injective (gt : Labels G) (pr : Labels P) (hnd : gt.videos.Nodup)
    (a a' : LFrame G) (b b' : LFrame P) (h : (a, b) ∈ findFramePairs gt pr)
    (h' : (a', b') ∈ findFramePairs gt pr) (hv : b.video = b'.video) (hf : b.frameIdx = b'.frameIdx) :
    a.video = a'.video ∧ a.frameIdx = a'.frameIdx := by
  obtain ⟨_, _, _, hi, vk, hg, hp⟩ := pairs_sound gt pr a b h
  obtain ⟨_, _, _, hi', vk', hg', hp'⟩ := pairs_sound gt pr a' b' h'
  rw [hv, hp'] at hp
  have : vk' = vk := Option.some.inj hp
  subst this
  exact ⟨getElem?_inj_of_nodup hnd hg hg', by omega⟩

/-- **Perfect pairs**: if the prediction labels carry the same (duplicate-free) video list and one
prediction frame `cp f` per gt frame `f` on the same video and frame index, then every gt frame with
a user instance is paired, and only with its own copy — also when several videos share a filename
and differ by dataset only, and when different videos have frames with the same `frame_idx`. -/
theorem perfect_pairs (gt : Labels G) (cp : LFrame G → LFrame P)
    (hcpv : ∀ f, (cp f).video = f.video) (hcpi : ∀ f, (cp f).frameIdx = f.frameIdx)
    (hnd : gt.videos.Nodup)
    (hkey : ∀ x ∈ gt.frames, ∀ y ∈ gt.frames, x.video = y.video → x.frameIdx = y.frameIdx → x = y)
    (hvalid : ∀ x ∈ gt.frames, x.video < gt.videos.length) :
    (∀ a b, (a, b) ∈ findFramePairs gt ⟨gt.videos, gt.frames.map cp⟩ → b = cp a) ∧
    (∀ a ∈ gt.frames, a.insts ≠ [] → (a, cp a) ∈ findFramePairs gt ⟨gt.videos, gt.frames.map cp⟩) := by
  have key : ∀ (a : LFrame G) (b : LFrame P), a ∈ gt.frames →
      (gt.frames.map cp).find? (fun x => x.video == a.video && x.frameIdx == a.frameIdx) = some b → b = cp a := by
    intro a b ha hfind
    have hb := List.find?_some hfind
    simp only [Bool.and_eq_true, beq_iff_eq] at hb
    obtain ⟨a2, ha2, rfl⟩ := List.mem_map.mp (List.mem_of_find?_eq_some hfind)
    rw [hcpv, hcpi] at hb
    rw [hkey a2 ha2 a ha hb.1 hb.2]
  constructor
  · intro a b h
    obtain ⟨vk, pj, hv, hf, ha, _, hfind⟩ := (mem_findFramePairs gt _ a b).mp h
    have hpj : pj = a.video := by
      have := firstIdx_self gt.videos hnd a.video vk hv
      simp only at hf
      rw [this] at hf
      exact (Option.some.inj hf).symm
    subst hpj
    exact key a b ha hfind
  · intro a ha hne
    have hlt := hvalid a ha
    refine (mem_findFramePairs gt _ a (cp a)).mpr
      ⟨gt.videos[a.video], a.video, by simp [hlt], firstIdx_self gt.videos hnd _ _ (by simp [hlt]), ha, hne, ?_⟩
    cases hfind : (gt.frames.map cp).find? (fun x => x.video == a.video && x.frameIdx == a.frameIdx) with
    | none =>
      have := List.find?_eq_none.mp hfind (cp a) (List.mem_map_of_mem ha)
      simp [hcpv, hcpi] at this
    | some b => rw [key a b ha hfind]

/-- **Perfect evaluation**: predictions identical to the ground truth (`pred g` is the copy of gt
instance `g`, OKS `one` with itself, every other gt of the frame strictly below — `perfect_matching`),
any number of videos and frames: every gt frame is paired with its own frame, every gt instance is
matched to its own copy at OKS `one`, nothing is missed; `perfect_scores` then gives AR = 1, mOKS = 1. -/
theorem perfect_evaluation {R : Type} [Field R] [LinearOrder R] [IsStrictOrderedRing R]
    (oks : G → P → Option R) (score : P → R) (pred : G → P) (thr one : R) (hthr : thr < one)
    (gt : Labels G)
    (hself : ∀ x ∈ gt.frames, ∀ g ∈ x.insts, oks g (pred g) = some one)
    (hdist : ∀ x ∈ gt.frames, ∀ g ∈ x.insts, ∀ g' ∈ x.insts, ∀ w, g' ≠ g → oks g' (pred g) = some w → w < one)
    (hnd : gt.videos.Nodup)
    (hkey : ∀ x ∈ gt.frames, ∀ y ∈ gt.frames, x.video = y.video → x.frameIdx = y.frameIdx → x = y)
    (hvalid : ∀ x ∈ gt.frames, x.video < gt.videos.length)
    (hinst : ∀ x ∈ gt.frames, x.insts.Nodup) :
    let pr : Labels P := ⟨gt.videos, gt.frames.map (fun f => ⟨f.video, f.frameIdx, f.insts.map pred⟩)⟩
    (processFrames oks score thr (evalFrames gt pr)).2 = [] ∧
    (∀ x ∈ (processFrames oks score thr (evalFrames gt pr)).1, x.2.2 = one ∧ x.2.1 = pred x.1) := by
  intro pr
  obtain ⟨hp1, _⟩ := perfect_pairs gt (fun f => (⟨f.video, f.frameIdx, f.insts.map pred⟩ : LFrame P))
    (fun _ => rfl) (fun _ => rfl) hnd hkey hvalid
  have hfs : ∀ f ∈ evalFrames gt pr, f.gts.Nodup ∧ f.prs = some (f.gts.map pred) ∧
      (∀ g ∈ f.gts, oks g (pred g) = some one) ∧
      (∀ g ∈ f.gts, ∀ g' ∈ f.gts, ∀ w, g' ≠ g → oks g' (pred g) = some w → w < one) := by
    intro f hf
    obtain ⟨⟨a, b⟩, hab, rfl⟩ := List.mem_map.mp hf
    have hb := hp1 a b hab
    have ha := (pairs_sound gt pr a b hab).1
    subst hb
    exact ⟨hinst a ha, rfl, hself a ha, hdist a ha⟩
  obtain ⟨h1, h2, _⟩ := processFrames_perfect oks score pred thr one hthr _ hfs
  exact ⟨h1, h2⟩

/-- the same filename with two datasets: each video is paired with itself (the situation of several
videos embedded in one `.pkg.slp`) -/
example : (findFramePairs (G := Nat) (P := Nat)
      ⟨[⟨0, 7, some 0⟩, ⟨0, 7, some 1⟩], [⟨0, 0, [10]⟩, ⟨1, 0, [11]⟩]⟩
      ⟨[⟨0, 7, some 0⟩, ⟨0, 7, some 1⟩], [⟨0, 0, [20]⟩, ⟨1, 0, [21]⟩]⟩).map
      (fun ab => (ab.1.insts, ab.2.insts)) = [([10], [20]), ([11], [21])] := by decide

/-- **Regression record** (tree before 5b8ee29, F-C16c fixed; HEAD = `findFramePairs`, total): the old
code paired frames only when every video had a `dataset` attribute (HDF5-backed) … -/
theorem pairs_beforeFix_partial (gt : Labels G) (pr : Labels P)
    (h : ∀ vk ∈ gt.videos, ∀ v ∈ pr.videos, vk.dataset.isSome ∧ v.dataset.isSome) :
    findFramePairsBeforeFix gt pr = some (findFramePairs gt pr) := by
  unfold findFramePairsBeforeFix
  rw [if_neg]
  simp only [List.any_eq_true, Bool.and_eq_true, Bool.or_eq_true, not_exists, not_and]
  intro vk hvk v hv _
  have := h vk hvk v hv
  cases hd : v.dataset <;> cases hd' : vk.dataset <;> simp_all

theorem pairs_beforeFix_counterexample :
    findFramePairsBeforeFix (G := Nat) (P := Nat) ⟨[⟨1, 3, none⟩], [⟨0, 0, [0]⟩]⟩ ⟨[⟨1, 3, none⟩], [⟨0, 0, [0]⟩]⟩ = none := by
  decide

end pairing

/-! ## perfect predictions of animals with nested visibility (F-C16f) -/

/-- **The distinguishability hypothesis of `perfect_matching` is necessary, and the code fails without
it.**  gt `0` = B = `[(100,100), NaN]`, gt `1` = A = `[(100,100), (140,140)]`; the predictions are exact
copies (`1` = A′, score 0.9; `0` = B′, score 0.8).  A′ scores OKS 1 against B as well (B's only visible
node coincides) and B is listed first, so A′ takes B; B′ is left with A at OKS 1/2: mean OKS 3/4 and recall
1/2 at threshold 0.55 — for predictions identical to the ground truth. -/
theorem perfect_needs_distinguishable_counterexample :
    let oks : Nat → Nat → Option Rat := fun g p => if g = 1 ∧ p = 0 then some (1/2) else some 1
    let score : Nat → Rat := fun p => if p = 1 then 9/10 else 8/10
    let r := matchInstances oks score 0 [0, 1] [1, 0]
    r = ([(0, 1, 1), (1, 0, 1/2)], []) ∧
    mOKS (Nat.cast : Nat → Rat) (r.1.map (fun x => (x.2.2, score x.2.1))) = some (3/4) ∧
    recallAt (Nat.cast : Nat → Rat) (11/20) (r.1.map (·.2.2)) 2 = 1/2 := by
  decide +kernel

/-! ## user instances inside a prediction frame (F-C16d) -/

/-- **Regression record** (F-C16d, fixed by e83a3ca).  `match_instances` before the fix, for a prediction frame `[user Instance (far away), exact copy (score 0.9)]`:
`scores_pr` has one entry, `argsort` yields index 0, and index 0 of the *unfiltered* list is the user
instance — the exact copy was never looked at: no pair, the gt a false negative.  HEAD ignores the
user instance and pairs the copy at OKS 1. -/
theorem mixed_prediction_frame_counterexample :
    let oks : Nat → Nat → Option Rat := fun _ p => if p = 7 then some 0 else some 1
    let score : Nat → Option Rat := fun p => if p = 7 then none else some (9/10)
    matchInstancesMixed oks score 0 [0] [7, 3] = ([], [0]) ∧
    matchInstancesMixedFixed oks score 0 [0] [7, 3] = ([(0, 3, 1)], []) := by
  decide +kernel

/-- with only scored instances HEAD and the repair agree (instance; the general statement
`∀ prs, (∀ p ∈ prs, (score p).isSome) → matchInstancesMixed … = matchInstancesMixedFixed …` is not proved) -/
example : matchInstancesMixed (fun (g p : Nat) => if g = p then some (1 : Rat) else some (1/4))
      (fun p => some (if p = 1 then 9/10 else 1/2)) 0 [0, 1] [0, 1, 2] =
    matchInstancesMixedFixed (fun (g p : Nat) => if g = p then some (1 : Rat) else some (1/4))
      (fun p => some (if p = 1 then 9/10 else 1/2)) 0 [0, 1] [0, 1, 2] := by decide +kernel

/-! ## `user_labels_only`: which instances are enumerated, and what `npig` counts -/

section modes
variable {G P : Type}

/-- In either mode every pair is (a gt frame whose `insts` are exactly the enumerated instances of a
frame of the reference labels — its user instances in the default mode, **all** its instances,
predicted ones included, with `user_labels_only=False`; the prediction frame with the same `frame_idx`
on the matching video).  The default mode additionally drops frames without user instances; the
other mode keeps even frames without any instance. -/
theorem evaluator_pairs_sound (userOnly : Bool) (isUser : G → Bool) (gt : Labels G) (pr : Labels P)
    (a : LFrame G) (b : LFrame P) (h : (a, b) ∈ evaluatorPairs userOnly isUser gt pr) :
    (∃ f ∈ gt.frames, a.video = f.video ∧ a.frameIdx = f.frameIdx ∧
        a.insts = enumerated userOnly isUser f.insts) ∧
    (userOnly = true → a.insts ≠ []) ∧ b ∈ pr.frames ∧ b.frameIdx = a.frameIdx ∧
    ∃ vk, gt.videos[a.video]? = some vk ∧ pr.videos[b.video]? = some vk := by
  unfold evaluatorPairs at h
  have key : ∀ (view : Labels G), (a, b) ∈ findFramePairsAll view pr →
      a ∈ view.frames ∧ b ∈ pr.frames ∧ b.frameIdx = a.frameIdx ∧
      ∃ vk, view.videos[a.video]? = some vk ∧ pr.videos[b.video]? = some vk := by
    intro view hv
    obtain ⟨vk, pj, hvid, hf, ha, hfind⟩ := (mem_findFramePairsAll view pr a b).mp hv
    have hb := List.find?_some hfind
    simp only [Bool.and_eq_true, beq_iff_eq] at hb
    obtain ⟨x, hx, hpx, _⟩ := firstIdx_spec _ _ pj hf
    have : x = vk := (sameVideo_iff vk x).mp hpx
    subst this
    exact ⟨ha, List.mem_of_find?_eq_some hfind, hb.2, x, hvid, by rw [hb.1]; exact hx⟩
  cases userOnly with
  | true =>
    simp only [if_true] at h
    obtain ⟨hall, hne⟩ := (mem_findFramePairs_iff_all _ pr a b).mp h
    obtain ⟨ha, hb, hi, hv⟩ := key _ hall
    obtain ⟨f, hf, rfl⟩ := List.mem_map.mp ha
    exact ⟨⟨f, hf, rfl, rfl, rfl⟩, fun _ => hne, hb, hi, hv⟩
  | false =>
    simp only [Bool.false_eq_true, if_false] at h
    obtain ⟨ha, hb, hi, hv⟩ := key _ h
    obtain ⟨f, hf, rfl⟩ := List.mem_map.mp ha
    exact ⟨⟨f, hf, rfl, rfl, rfl⟩, (fun h0 => absurd h0 (by simp)), hb, hi, hv⟩

/-- **What `npig` counts.**  `len(positive_pairs) + len(false_negatives)` — the denominator of every
recall — is the number of *enumerated* gt instances of the paired frames, in either mode: with
`user_labels_only=False` the predicted instances stored in the reference frames are matched **and**
counted.  (Counting `user_instances` instead — round-4 seed C16-r4m1 — makes recall exceed 1.) -/
theorem npig_eq_enumerated {R : Type} [Field R] [LinearOrder R] [IsStrictOrderedRing R]
    (oks : G → P → Option R) (score : P → R) (thr : R) (userOnly : Bool) (isUser : G → Bool)
    (gt : Labels G) (pr : Labels P) :
    (processFrames oks score thr (evaluatorFrames userOnly isUser gt pr)).1.length +
      (processFrames oks score thr (evaluatorFrames userOnly isUser gt pr)).2.length =
    ((evaluatorPairs userOnly isUser gt pr).map (fun ab => ab.1.insts.length)).sum := by
  have := processFrames_count oks score thr (evaluatorFrames userOnly isUser gt pr) (by
    intro f hf
    obtain ⟨ab, _, rfl⟩ := List.mem_map.mp hf
    rfl)
  rw [this]
  simp [evaluatorFrames, List.map_map, Function.comp_def]

example : (evaluatorPairs (G := Nat) (P := Nat) false (fun g => g < 10)
      ⟨[⟨0, 7, some 0⟩], [⟨0, 0, [1, 11]⟩, ⟨0, 1, [12]⟩, ⟨0, 2, []⟩]⟩
      ⟨[⟨0, 7, some 0⟩], [⟨0, 0, [20]⟩, ⟨0, 1, [21]⟩, ⟨0, 2, [22]⟩]⟩).map (fun ab => (ab.1.insts, ab.2.insts))
    = [([1, 11], [20]), ([12], [21]), ([], [22])] ∧
  (evaluatorPairs (G := Nat) (P := Nat) true (fun g => g < 10)
      ⟨[⟨0, 7, some 0⟩], [⟨0, 0, [1, 11]⟩, ⟨0, 1, [12]⟩, ⟨0, 2, []⟩]⟩
      ⟨[⟨0, 7, some 0⟩], [⟨0, 0, [20]⟩, ⟨0, 1, [21]⟩, ⟨0, 2, [22]⟩]⟩).map (fun ab => (ab.1.insts, ab.2.insts))
    = [([1], [20])] := by decide

end modes

/-! ## thresholds are handled pointwise -/

/-- **PCK is a pointwise function of the pixel threshold**: entry `k` of the result for a threshold list
is the PCK of the single threshold `thrs[k]`, whatever the order of the list (descending, shuffled,
with duplicates) — `pcks[..., k]` belongs to `thresholds[k]`.  The same holds for the rows of the VOC
block and the list of match thresholds (`vocMetrics` maps `vocRow` over `matchThr`). -/
theorem pck_pointwise_in_threshold (thrs : List R) (d : List (Option R)) (k : Nat) :
    (thrs.map (fun t => pckAt (Nat.cast : Nat → R) t d))[k]? =
      (thrs[k]?).map (fun t => pckAt (Nat.cast : Nat → R) t d) ∧
    (thrs.map (fun t => d.map (within t)))[k]? = (thrs[k]?).map (fun t => d.map (within t)) :=
  ⟨List.getElem?_map, List.getElem?_map⟩

end SleapVerif.C16
