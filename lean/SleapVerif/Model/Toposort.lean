/-!
# Model of `toposort_edges` (sleap_nn/inference/paf_grouping.py), core Lean only

```python
edges = [(et.src_node_ind, et.dst_node_ind) for et in edge_types]
dg = nx.DiGraph(edges)
root_ind = next(nx.topological_sort(dg))
sorted_edges = nx.bfs_edges(dg, root_ind)
sorted_edge_inds = tuple([edges.index(edge) for edge in sorted_edges])
```

* `rootOf`   = first node, in node-insertion order of `DiGraph(edges)` (u then v for each edge),
               with in-degree 0 — what `next(nx.topological_sort(dg))` yields; `none` when every
               node has an incoming edge (networkx raises `NetworkXUnfeasible`).
* `bstep`    = one iteration of networkx's `generic_bfs_edges`: pop a node, emit the edges to its
               not-yet-seen successors in adjacency-insertion order (= listing order).
* `toposort` = indices of the emitted edges in the original listing, fuel `|edges|+1`.
-/
namespace SleapVerif.Toposort

abbrev Edge := Nat × Nat

def children (edges : List Edge) (u : Nat) : List Edge := edges.filter (fun e => e.1 == u)

structure BState where
  processed : List Nat
  queue     : List Nat
  out       : List Edge
deriving Repr

/-- `visited` is not stored: it is always `processed ++ queue` (invariant (c) made structural). -/
def BState.visited (s : BState) : List Nat := s.processed ++ s.queue

def bstep (edges : List Edge) (s : BState) : Option BState :=
  match s.queue with
  | [] => none
  | u :: q =>
    let new := (children edges u).filter (fun e => !(s.visited.contains e.2))
    some { processed := s.processed ++ [u], queue := q ++ new.map (·.2), out := s.out ++ new }

def binit (r : Nat) : BState := ⟨[], [r], []⟩

def brun (edges : List Edge) : Nat → BState → BState
  | 0, s => s
  | f+1, s => match bstep edges s with
    | none => s
    | some s' => brun edges f s'

/-- nodes in insertion order (with repetitions: `find?` only looks at first occurrences) -/
def nodesOf (edges : List Edge) : List Nat := edges.flatMap (fun e => [e.1, e.2])

def rootOf (edges : List Edge) : Option Nat :=
  (nodesOf edges).find? (fun v => !(edges.any (fun e => e.2 == v)))

/-- the BFS edge order from root `r` -/
def bfsOut (edges : List Edge) (r : Nat) : List Edge :=
  (brun edges (edges.length + 1) (binit r)).out

/-- `none` = the implementation raises (no node of in-degree 0, or no edge at all). -/
def toposort (edges : List Edge) : Option (List Nat) :=
  (rootOf edges).map (fun r => (bfsOut edges r).map (fun e => edges.idxOf e))


/-- Decidable recogniser of the theorems' hypothesis (`Arbo`): duplicate-free listing, a root with
    no incoming edge, at most one incoming edge per node, and the breadth-first search from the
    root emits as many edges as are listed (i.e. every edge is reachable).  Printed by the driver
    so the harness can assert that every listing it calls a tree satisfies the hypothesis. -/
def isArbo (edges : List Edge) : Bool :=
  match rootOf edges with
  | none => false
  | some r =>
    decide edges.Nodup
    && edges.all (fun e => e.2 != r)
    && edges.all (fun e => edges.all (fun e' => e.2 != e'.2 || e == e'))
    && (bfsOut edges r).length == edges.length

end SleapVerif.Toposort
