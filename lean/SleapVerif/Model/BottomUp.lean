import SleapVerif.Model.Grouping
/-!
# Model of bottom-up inference (`sleap_nn/inference/bottomup.py`, `paf_grouping.py`), core Lean only

`BottomUpInferenceModel.forward` for one sample, as coded:

* `peaksImg`        — `_generate_cms_peaks`: `peaks * cms_output_stride` (the peaks themselves come
                      from `find_local_peaks`, property C06; here they are an input).
* `samplePoint`     — `interp1d([0,1], [src,dst], linspace(0,1,n))`: `src + (dst-src)·t`.  (The
                      `eps` of `interp1d` is added to an int64 tensor, i.e. in float32, where
                      `eps64 + 1 = 1`: the slope is exactly `dst-src`; `searchsorted` always yields
                      the single interval.)
* `roundHalfEven`   — `torch.round` (half to even), written with a floor `fl : R → Int`.
* `lineSub`         — `make_line_subs`: `round(xy / pafs_stride)`, rows from **y**, columns from
                      **x**, `torch.clip` to `[0, h-1] × [0, w-1]`, channels `e*2` and `e*2+1`.
* `Paf`, `Paf.at`   — the `(h, w, 2E)` tensor `pafs.permute(0,2,3,1)[sample]` and its indexing by
                      `[row, col, channel]` (`get_paf_lines`).
* `writerChannel`, `Paf.ofFields` — the writer side: `generate_pafs(flatten_channels=True)`
                      reshapes `(E, 2, h, w)` to `(2E, h, w)`, i.e. channel `e*2 + comp`.
* `penalty`         — `compute_distance_penalty`: `clamp(max_len/len - 1, max=0) * weight`.
* `maxEdgeLength`   — `ratio * max(pafs.shape[-1], [-2], [-3]) * pafs_stride` (the channel count
                      `2E` takes part in the `max`, as coded).
* `lineScore`       — `score_paf_lines`: mean over the sampled points of `paf · unit(dst-src)`,
                      plus the penalty.
* matching/grouping — `Grouping.groupSample` (C08) with scipy as the parameter `lsa`.
* `decode`          — `/ input_scale`, then `/ eff_scale[sample]`.
* `keepTop`         — `BottomUpPredictor._make_labeled_frames_from_generator`: stable sort by
                      score, descending, first `max_instances`.

Everything numeric is generic in the carrier `R` (run at `Rat` and at `Float` by the driver).
-/
namespace SleapVerif.BottomUp
open SleapVerif.Toposort (Edge)
open SleapVerif.Grouping (Mat Match Conn Assign Inst MinPeaks GErr)

variable {R : Type}

/-! ## rounding and clipping -/

section round
variable [Add R] [Sub R] [LT R] [DecidableLT R]

/-- `torch.round`: nearest integer, ties to even.  `fl` = floor, `castI` = the integers in `R`. -/
def roundHalfEven (fl : R → Int) (castI : Int → R) (x : R) : Int :=
  let f := fl x
  let d := (x - castI f) + (x - castI f)
  if d < castI 1 then f else if castI 1 < d then f + 1 else if f % 2 = 0 then f else f + 1

/-- distance of the rounding decision from the tie: `|2·frac(x) − 1|` -/
def roundMargin (fl : R → Int) (castI : Int → R) (x : R) : R :=
  let d := (x - castI (fl x)) + (x - castI (fl x))
  if d < castI 1 then castI 1 - d else d - castI 1

end round

/-- `torch.clip(v, min=0, max=n-1)` = `min(max(v, 0), n-1)` -/
def clipI (v : Int) (n : Nat) : Int := min (max v 0) ((n : Int) - 1)

/-! ## make_line_subs -/

/-- one element of `line_subs[cand, point]`: the shared `[row, col]` and the two channels -/
structure LineSub where
  row : Int
  col : Int
  chX : Nat
  chY : Nat
deriving DecidableEq, Repr

section subs
variable [Add R] [Sub R] [Mul R] [Div R] [LT R] [DecidableLT R]

/-- `interp1d` on the two-point table `[0,1] ↦ [a,b]` -/
def samplePoint (a b t : R) : R := a + (b - a) * t

/-- PAF lattice coordinate of an image coordinate: `round(v / pafs_stride)` -/
def cellOf (fl : R → Int) (castI : Int → R) (stride : Nat) (v : R) : Int :=
  roundHalfEven fl castI (v / castI stride)

/-- the subscripts of sample parameter `t` on the candidate line `src → dst` of edge `e` -/
def lineSub (fl : R → Int) (castI : Int → R) (stride h w e : Nat) (src dst : R × R) (t : R) : LineSub :=
  let cx := cellOf fl castI stride (samplePoint src.1 dst.1 t)
  let cy := cellOf fl castI stride (samplePoint src.2 dst.2 t)
  { row := clipI cy h, col := clipI cx w, chX := e * 2, chY := e * 2 + 1 }

def lineSubs (fl : R → Int) (castI : Int → R) (stride h w e : Nat) (src dst : R × R) (ts : List R) :
    List LineSub :=
  ts.map (lineSub fl castI stride h w e src dst)

/-- per sampled point: the rounding margins `|2·frac − 1|` (= twice the distance, in PAF-grid
units, of the un-rounded coordinate from the nearest half-integer) of the **row** (y) and the
**column** (x) coordinate — reported next to every rounded subscript so that the harness can treat
decisions closer to a tie than the float resolution as knife edges -/
def lineMargins (fl : R → Int) (castI : Int → R) (stride : Nat) (src dst : R × R) (ts : List R) :
    List (R × R) :=
  ts.map fun t =>
    (roundMargin fl castI (samplePoint src.2 dst.2 t / castI stride),
     roundMargin fl castI (samplePoint src.1 dst.1 t / castI stride))

/-- `torch.linspace(0, 1, n)` over an exact field: `k/(n-1)` (`[0]` for `n = 1`) -/
def linspace (castI : Int → R) (n : Nat) : List R :=
  (List.range n).map fun (k : Nat) => if n ≤ 1 then castI 0 else castI (k : Int) / castI ((n - 1 : Nat) : Int)

end subs

/-! ## the PAF tensor: reader and writer -/

/-- `pafs_sample`, shape `(h, w, c)`, row-major -/
structure Paf (R : Type) where
  h : Nat
  w : Nat
  c : Nat
  data : Array R

/-- `pafs_sample[row, col, ch]` (subscripts are in range by `lineSub_in_bounds`) -/
def Paf.at [OfNat R 0] (P : Paf R) (row col : Int) (ch : Nat) : R :=
  P.data.getD ((row.toNat * P.w + col.toNat) * P.c + ch) 0

/-- channel that `generate_pafs(flatten_channels=True)` gives component `comp` (0 = x, 1 = y) of
edge `e`: `(E, 2, h, w).reshape(2E, h, w)` -/
def writerChannel (e comp : Nat) : Nat := e * 2 + comp

/-- the tensor the network head delivers for per-edge vector fields `G e comp row col`, after
`.permute(0, 2, 3, 1)` -/
def Paf.ofFields (h w nE : Nat) (G : Nat → Nat → Nat → Nat → R) : Paf R :=
  { h := h, w := w, c := nE * 2,
    data := Array.ofFn (n := h * w * (nE * 2)) fun i =>
      let ch := i.val % (nE * 2)
      let rc := i.val / (nE * 2)
      G (ch / 2) (ch % 2) (rc / w) (rc % w) }

/-! ## score_paf_lines -/

section score
variable [Add R] [Sub R] [Mul R] [Div R] [LT R] [DecidableLT R] [OfNat R 0] [OfNat R 1]

/-- `torch.clamp(max_len / len - 1, max=0) * weight` -/
def penalty (maxLen len weight : R) : R :=
  let p := maxLen / len - 1
  (if 0 < p then 0 else p) * weight

/-- `max_edge_length_ratio * max(pafs.shape[-1], pafs.shape[-2], pafs.shape[-3]) * pafs_stride` -/
def maxEdgeLength (castI : Int → R) (ratio : R) (h w c stride : Nat) : R :=
  ratio * castI (max c (max w h) : Nat) * castI stride

def sumL (l : List R) : R := l.foldl (· + ·) 0

/-- length of `dst - src` -/
def segLen (sqrt : R → R) (src dst : R × R) : R :=
  sqrt ((dst.1 - src.1) * (dst.1 - src.1) + (dst.2 - src.2) * (dst.2 - src.2))

/-- `paf_lines[cand, point] @ spatial_vec` for one sampled point -/
def pointDot (F : Int → Int → Nat → R) (ux uy : R) (s : LineSub) : R :=
  F s.row s.col s.chX * ux + F s.row s.col s.chY * uy

/-- `spatial_vecs / spatial_vec_lengths` -/
def unitVec (sqrt : R → R) (src dst : R × R) : R × R :=
  ((dst.1 - src.1) / segLen sqrt src dst, (dst.2 - src.2) / segLen sqrt src dst)

/-- mean over the sampled points of `paf · unit(dst − src)`, plus the distance penalty -/
def lineScore (sqrt : R → R) (castI : Int → R) (F : Int → Int → Nat → R) (subs : List LineSub)
    (src dst : R × R) (maxLen weight : R) : R :=
  let u := unitVec sqrt src dst
  sumL (subs.map (pointDot F u.1 u.2)) / castI (subs.length : Nat)
    + penalty maxLen (segLen sqrt src dst) weight

end score

/-! ## the repaired matching (`fixes/C03-match-ignores-rejected.patch`) -/

/-- after the fix `match_candidates_sample` builds the cost matrix from these scores: every
candidate below `min_line_scores` gets the common rejected score `min_line_scores - 1` -/
def clampLow [Sub R] [LT R] [DecidableLT R] [OfNat R 1] (thr : R) (sc : Nat → Nat → R) (i j : Nat) : R :=
  if sc i j < thr then thr - 1 else sc i j

/-! ## decode -/

section decode
variable [Mul R] [Div R]

/-- `peaks * cms_output_stride` -/
def peaksImg (castI : Int → R) (cmsStride : Nat) (g : R × R) : R × R :=
  (g.1 * castI cmsStride, g.2 * castI cmsStride)

/-- `predicted_instances / input_scale`, then `/ eff_scale[sample]` -/
def decode (inputScale eff : R) (p : R × R) : R × R :=
  (p.1 / inputScale / eff, p.2 / inputScale / eff)

end decode

/-! ## one sample through `forward` -/

structure Params (R : Type) where
  nNodes : Nat
  edges : List Edge
  cmsStride : Nat
  pafStride : Nat
  /-- `linspace(0, 1, n_points)` as the code has it -/
  ts : List R
  maxLenRatio : R
  distWeight : R
  minLine : R
  minPeaks : MinPeaks
  inputScale : R

/-- a detected peak as `find_local_peaks` returns it: grid coordinates `(x, y)`, value, channel -/
structure GPeak (R : Type) where
  g : R × R
  val : R
  ch : Nat

structure Cand (R : Type) where
  edge : Nat
  src : Nat
  dst : Nat
  subs : List LineSub
  score : R

structure Output (R : Type) where
  cands : List (Cand R)
  conns : List (Conn R)
  /-- `instance_assignments` after the `min_instance_peaks` filter -/
  assign : Assign
  /-- per instance: global peak index per node type -/
  rows : List (List (Option Nat))
  scores : List R

section sample
variable [Add R] [Sub R] [Mul R] [Div R] [Neg R] [LT R] [DecidableLT R] [LE R] [DecidableLE R]
  [OfNat R 0] [OfNat R 1]

/-- all connection candidates with their line subscripts and scores
(`score_paf_lines_batch` for one sample) -/
def scoreCands (fl : R → Int) (castI : Int → R) (sqrt : R → R) (P : Params R) (paf : Paf R)
    (peaks : List (GPeak R)) : List (Cand R) :=
  let ch := peaks.map (·.ch)
  let img := peaks.map fun p => peaksImg castI P.cmsStride p.g
  let maxLen := maxEdgeLength castI P.maxLenRatio paf.h paf.w paf.c P.pafStride
  (Grouping.candidates ch P.edges).map fun c =>
    let src := img.getD c.2.1 (0, 0)
    let dst := img.getD c.2.2 (0, 0)
    let subs := lineSubs fl castI P.pafStride paf.h paf.w c.1 src dst P.ts
    { edge := c.1, src := c.2.1, dst := c.2.2, subs := subs,
      score := lineScore sqrt castI paf.at subs src dst maxLen P.distWeight }

/-- the `n_src × n_dst` score table of edge `k`.  `ok` = "the score is a finite number": a NaN score
(coincident source and destination peak: `0/0` in `spatial_vecs / spatial_vec_lengths`) is `none`, the
`inf` cost of `match_candidates_sample` (`fun _ => true` over an exact field, `Float.isFinite` in the
driver) -/
def scoreTable (ok : R → Bool) (ch : List Nat) (edges : List Edge) (cands : List (Cand R)) (k : Nat) :
    Mat (Option R) :=
  match edges[k]? with
  | none => []
  | some e =>
    (Grouping.nodePeaks ch e.1).map fun s => (Grouping.nodePeaks ch e.2).map fun d =>
      (cands.find? fun c => c.edge == k && c.src == s && c.dst == d).bind fun c =>
        if ok c.score then some c.score else none

/-- the score tables of all edge types, as `Grouping.groupSample` takes them -/
def scoreTables (ok : R → Bool) (ch : List Nat) (edges : List Edge) (cands : List (Cand R)) :
    List (Mat (Option R)) :=
  (List.range edges.length).map (scoreTable ok ch edges cands)

/-- the parameters of the grouping stage (`PAFScorer` attributes); `order` = `sorted_edge_inds` -/
def groupParams (P : Params R) (order : List Nat) : Grouping.Params R :=
  ⟨P.nNodes, P.edges, order, P.minLine, P.minPeaks⟩

/-- rows of global peak indices: `(node, index within node type)` ↦ index into `peaks_sample` -/
def globalRows (ch : List Nat) (insts : List (Inst R)) : List (List (Option Nat)) :=
  insts.map fun i => i.row.mapIdx fun n x => x.bind fun k => Grouping.globalIdx ch (n, k)

/-- `forward` for one sample: peaks → candidates and line scores → `PAFScorer.predict`'s matching
and grouping (`Grouping.groupSample`; `fixed = true` is the matching of /repo HEAD, i.e. after
`fixes/C08-infeasible.patch`, `false` the pinned one; scipy = the parameter `lsa`) → rows of global
peak indices.  `toposort_edges` failing is `noOrder`. -/
def forwardSample (fixed : Bool) (ok : R → Bool) (fl : R → Int) (castI : Int → R) (sqrt : R → R)
    (P : Params R) (paf : Paf R) (peaks : List (GPeak R)) (lsa : Grouping.Lsa R) :
    Except GErr (Output R) :=
  match Toposort.toposort P.edges with
  | none => .error .noOrder
  | some order =>
    let ch := peaks.map (·.ch)
    let cands := scoreCands fl castI sqrt P paf peaks
    match Grouping.groupSample fixed lsa (groupParams P order) ch (scoreTables ok ch P.edges cands) with
    | .error e => .error e
    | .ok out =>
      .ok { cands := cands, conns := out.conns, assign := out.assign,
            rows := globalRows ch out.insts,
            scores := out.insts.map (·.score) }

/-- `pred_peak_values` of one instance row: the confidence-map value of the assigned peak, NaN
(`none`) where the row has no peak -/
def rowVals (peaks : List (GPeak R)) (row : List (Option Nat)) : List (Option R) :=
  row.map fun x => x.bind fun i => (peaks[i]?).map (·.val)

/-- final coordinates of one instance row: `peak * cms_stride / input_scale / eff_scale` -/
def rowCoords (castI : Int → R) (P : Params R) (eff : R) (peaks : List (GPeak R))
    (row : List (Option Nat)) : List (Option (R × R)) :=
  row.map fun x => x.bind fun i => (peaks[i]?).map fun p =>
    decode P.inputScale eff (peaksImg castI P.cmsStride p.g)

end sample

/-! ## max_instances (predictor level) -/

/-- `sorted(instances, key=score, reverse=True)[:min(k, len)]`; Python's sort is stable and
`reverse=True` keeps the original order of equal scores -/
def keepTop {α : Type} [LT R] [DecidableLT R] (k : Option Nat) (l : List (α × R)) : List (α × R) :=
  match k with
  | none => l
  | some k => (l.mergeSort fun a b => !decide (a.2 < b.2)).take k

end SleapVerif.BottomUp
