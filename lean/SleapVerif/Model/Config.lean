/-!
# Model of the configuration builders and of `verify_training_cfg` (core Lean only)

Anchors: `sleap_nn/train.py` (`get_aug_config`, `get_backbone_config`, `get_head_configs`,
`get_data_config`, `get_model_config`, `get_trainer_config`), `sleap_nn/config/*.py`
(attrs classes, validators, `oneof`, `verify_training_cfg`).

* A configuration is a finite tree `Cfg` — what `OmegaConf.to_container(OmegaConf.structured(obj))`
  shows (tuples are lists there, float-typed fields hold floats).
* **No schema default is written down here.**  The defaults of every attrs class arrive as data
  (`Env.cls : class name → default tree`, produced by the harness from
  `OmegaConf.structured(Cls())` on every run) and so does the subclass relation of the preset
  classes (`Env.sub`).  What *is* literal here is what the code itself spells out: which argument
  goes to which field, which constants the augmentation loop assigns, which validator guards
  which field.
* Exceptions are `Except String` with the Python exception class name.
-/
namespace SleapVerif.Config

/-! ## Trees -/

inductive Value where
  | null
  | bool (b : Bool)
  | int (i : Int)
  | num (q : Rat)          -- a finite Python float, carried as the exact decimal rational of its `repr`
  | nan                    -- `float('nan')` / YAML `.nan`: "not a number" is an explicit value
  | inf (neg : Bool)       -- `float('inf')` / `float('-inf')`
  | str (s : String)
  | list (l : List Value)
  | tuple (l : List Value)   -- a Python tuple *argument*; `OmegaConf.structured` stores it as a list (the driver
                             -- prints it so), but the builders' `isinstance(…, list)` tests tell the two apart

inductive Cfg where
  | leaf (v : Value)
  | node (kvs : List (String × Cfg))

abbrev Kvs := List (String × Cfg)

instance : Inhabited Cfg := ⟨.leaf .null⟩

def cnull : Cfg := .leaf .null
def cbool (b : Bool) : Cfg := .leaf (.bool b)
def cstr (s : String) : Cfg := .leaf (.str s)
def fl (q : Rat) : Cfg := .leaf (.num q)
def pair (a b : Rat) : Cfg := .leaf (.list [.num a, .num b])

/-- the decimal constants the augmentation loop assigns (`mkRat` so that the kernel can evaluate them) -/
def d09 : Rat := mkRat 9 10
def d11 : Rat := mkRat 11 10
def d02 : Rat := mkRat 1 5

def Cfg.isNull : Cfg → Bool
  | .leaf .null => true
  | _ => false

def lookup (k : String) : Kvs → Option Cfg
  | [] => none
  | (k', v) :: r => if k' = k then some v else lookup k r

def hasKey (k : String) (kvs : Kvs) : Bool := (lookup k kvs).isSome

def keys (kvs : Kvs) : List String := kvs.map (·.1)

/-- replace the value of the first entry with key `k` (no-op when absent) -/
def setKey (k : String) (v : Cfg) : Kvs → Kvs
  | [] => []
  | (k', w) :: r => if k' = k then (k', v) :: r else (k', w) :: setKey k v r

def getPath : List String → Cfg → Option Cfg
  | [], c => some c
  | k :: p, .node kvs =>
    match lookup k kvs with
    | some c => getPath p c
    | none => none
  | _ :: _, .leaf _ => none

/-! ## `OmegaConf.merge(schema, cfg)` on untyped trees: right-biased deep merge.

Keys of the left tree keep their place, keys only the right tree has are appended, a dict is
merged key by key, anything else (scalar, list, `None`) on the right replaces the left. -/
mutual
  def merge : Cfg → Cfg → Cfg
    | .node a, .node b => .node (mergeKvs a b ++ b.filter (fun kv => !(hasKey kv.1 a)))
    | _, c => c
  def mergeKvs : Kvs → Kvs → Kvs
    | [], _ => []
    | (k, v) :: r, b =>
      (k, match lookup k b with
          | some w => merge v w
          | none => v) :: mergeKvs r b
end

/- keys are pairwise distinct at every node (true of every dict) -/
mutual
  def wf : Cfg → Bool
    | .leaf _ => true
    | .node kvs => wfKvs kvs
  def wfKvs : Kvs → Bool
    | [] => true
    | (k, v) :: r => !(hasKey k r) && wf v && wfKvs r
end

/- some leaf is — or, for a list value, contains — OmegaConf's `MISSING` marker (`"???"`) -/
mutual
  def Value.missing : Value → Bool
    | .str s => s == "???"
    | .list l => Value.missingList l
    | .tuple l => Value.missingList l
    | _ => false
  def Value.missingList : List Value → Bool
    | [] => false
    | v :: r => v.missing || Value.missingList r
end

mutual
  def hasMissing : Cfg → Bool
    | .leaf v => v.missing
    | .node kvs => hasMissingKvs kvs
  def hasMissingKvs : Kvs → Bool
    | [] => false
    | (_, v) :: r => hasMissing v || hasMissingKvs r
end

/-- `TrainingJobConfig(**cfg)` followed by `OmegaConf.structured`: every top-level field takes
the caller's subtree verbatim (a `DictConfig` passed as a field value is kept as it is, it is
*not* re-typed), absent fields take the class default. -/
def topFill (schema cfg : Kvs) : Kvs :=
  schema.map (fun kv => (kv.1, (lookup kv.1 cfg).getD kv.2))

/-- `verify_training_cfg` -/
def verify (schema cfg : Cfg) : Except String Cfg :=
  match schema, cfg with
  | .node s, .node c =>
    if c.any (fun kv => !(hasKey kv.1 s)) then .error "TypeError"   -- unexpected keyword argument
    else
      let m := merge (.node (topFill s c)) (.node c)
      if hasMissing m then .error "MissingMandatoryValue" else .ok m
  | _, _ => .error "TypeError"

/-! ## attrs constructors: keyword arguments over the class defaults, then validators -/

structure Env where
  cls : String → Cfg               -- default tree of an attrs class (`cnull` if unknown)
  sub : String → String → Bool     -- `issubclass(child, parent)`

/-- `Cls(**kwargs)` before validation: unknown keyword → `TypeError` -/
def construct (dflt : Cfg) (kwargs : Kvs) : Except String Cfg :=
  match dflt with
  | .node kvs =>
    if kwargs.all (fun kv => hasKey kv.1 kvs) then
      .ok (.node (kwargs.foldl (fun acc kv => setKey kv.1 kv.2 acc) kvs))
    else .error "TypeError"
  | .leaf _ => .error "NameError"

inductive Rule where
  | prob      -- validate_proportion: 0.0 <= v <= 1.0
  | ge0       -- validators.ge(0)
  | le1       -- validators.le(1)
  | gt0       -- validators.gt(0)
  | floats    -- float >= 0 or list of floats >= 0 (validate_scale, validate_min_lr)
  | devices   -- int >= 0 | list of ints >= 0 | "auto"
  | oneOf (l : List String)

/-- extended reals: what a Python number is for the purpose of `<`, `<=` -/
inductive Ext where
  | fin (q : Rat)
  | pinf
  | ninf
  | nan
deriving DecidableEq

/-- IEEE / Python `a <= b`: every comparison with NaN is `False` -/
def Ext.le : Ext → Ext → Bool
  | .nan, _ => false
  | _, .nan => false
  | .ninf, _ => true
  | _, .pinf => true
  | .fin a, .fin b => decide (a ≤ b)
  | _, _ => false

/-- IEEE / Python `a < b` -/
def Ext.lt : Ext → Ext → Bool
  | .nan, _ => false
  | _, .nan => false
  | .ninf, .ninf => false
  | .ninf, _ => true
  | .pinf, _ => false
  | _, .pinf => true
  | .fin a, .fin b => decide (a < b)
  | _, _ => false

/-- numeric reading of a scalar the way Python compares it (`True == 1`) -/
def Value.asExt? : Value → Option Ext
  | .int i => some (.fin (i : Rat))
  | .num q => some (.fin q)
  | .bool b => some (.fin (if b then 1 else 0))
  | .nan => some .nan
  | .inf false => some .pinf
  | .inf true => some .ninf
  | _ => none

/-- `isinstance(v, float) and v >= 0` -/
def Value.isNonnegFloat : Value → Bool
  | .num q => decide (0 ≤ q)
  | .inf neg => !neg
  | _ => false

def Value.isNonnegInt : Value → Bool
  | .int i => decide (0 ≤ i)
  | .bool _ => true               -- `isinstance(True, int)`
  | _ => false

def Rule.check (r : Rule) (c : Cfg) : Except String Unit :=
  match c with
  | .node _ =>
    match r with
    | .floats | .devices | .oneOf _ => .error "ValueError"
    | _ => .error "TypeError"
  | .leaf v =>
    match r with
    | .prob => match v.asExt? with
      | some x => if Ext.le (.fin 0) x && Ext.le x (.fin 1) then .ok () else .error "ValueError"
      | none => .error "TypeError"
    | .ge0 => match v.asExt? with
      | some x => if Ext.le (.fin 0) x then .ok () else .error "ValueError"
      | none => .error "TypeError"
    | .le1 => match v.asExt? with
      | some x => if Ext.le x (.fin 1) then .ok () else .error "ValueError"
      | none => .error "TypeError"
    | .gt0 => match v.asExt? with
      | some x => if Ext.lt (.fin 0) x then .ok () else .error "ValueError"
      | none => .error "TypeError"
    | .floats =>
      if v.isNonnegFloat then .ok ()
      else match v with
        | .list l => if l.all Value.isNonnegFloat then .ok () else .error "ValueError"
        | _ => .error "ValueError"
    | .devices =>
      if v.isNonnegInt then .ok ()
      else match v with
        | .list l => if l.all Value.isNonnegInt then .ok () else .error "ValueError"
        | .str s => if s = "auto" then .ok () else .error "ValueError"
        | _ => .error "ValueError"
    | .oneOf l => match v with
      | .str s => if l.contains s then .ok () else .error "ValueError"
      | _ => .error "ValueError"

/-- which validator guards which field (field order = attrs evaluation order) -/
def fieldRules : String → List (String × Rule)
  | "PreprocessingConfig" => [("scale", .floats)]
  | "IntensityConfig" =>
    [("uniform_noise_min", .ge0), ("uniform_noise_max", .le1), ("uniform_noise_p", .prob),
     ("gaussian_noise_p", .prob), ("contrast_min", .ge0), ("contrast_max", .ge0),
     ("contrast_p", .prob), ("brightness_p", .prob)]
  | "GeometricConfig" => [("affine_p", .prob), ("erase_p", .prob), ("mixup_p", .prob)]
  | "ConvNextConfig" => [("model_type", .oneOf ["tiny", "small", "base", "large"])]
  | "ConvNextSmallConfig" => [("model_type", .oneOf ["tiny", "small", "base", "large"])]
  | "ConvNextBaseConfig" => [("model_type", .oneOf ["tiny", "small", "base", "large"])]
  | "ConvNextLargeConfig" => [("model_type", .oneOf ["tiny", "small", "base", "large"])]
  | "SwinTConfig" => [("model_type", .oneOf ["tiny", "small", "base"])]
  | "SwinTSmallConfig" => [("model_type", .oneOf ["tiny", "small", "base"])]
  | "SwinTBaseConfig" => [("model_type", .oneOf ["tiny", "small", "base"])]
  | "OptimizerConfig" => [("lr", .gt0)]
  | "StepLRConfig" => [("step_size", .gt0)]
  | "ReduceLROnPlateauConfig" => [("min_lr", .floats)]
  | "EarlyStoppingConfig" => [("min_delta", .ge0), ("patience", .ge0)]
  | "TrainerConfig" =>
    [("trainer_devices", .devices), ("optimizer_name", .oneOf ["Adam", "AdamW"])]
  | _ => []

def runRules (kvs : Kvs) : List (String × Rule) → Except String Unit
  | [] => .ok ()
  | (f, r) :: rest =>
    match lookup f kvs with
    | some c => match r.check c with
      | .ok () => runRules kvs rest
      | .error e => .error e
    | none => runRules kvs rest

/-- number of fields that are set (not `None`) -/
def countSet (kvs : Kvs) : Nat := (kvs.filter (fun kv => !kv.2.isNull)).length

def convnextWeights : List String :=
  ["ConvNeXt_Base_Weights", "ConvNeXt_Tiny_Weights", "ConvNeXt_Small_Weights", "ConvNeXt_Large_Weights"]
def swintWeights : List String := ["Swin_T_Weights", "Swin_S_Weights", "Swin_B_Weights"]

def isSet (k : String) (c : Cfg) : Bool :=
  match getPath [k] c with
  | some v => !v.isNull
  | none => false

/-- `ModelConfig.validate_pre_trained_weights` -/
def preTrainedOk (kvs : Kvs) : Except String Unit :=
  match lookup "pre_trained_weights" kvs with
  | none => .ok ()
  | some (.leaf .null) => .ok ()
  | some w =>
    let bb := (lookup "backbone_config" kvs).getD cnull
    let isIn (l : List String) : Bool := match w with
      | .leaf (.str s) => l.contains s
      | _ => false
    if isSet "convnext" bb then (if isIn convnextWeights then .ok () else .error "ValueError")
    else if isSet "swint" bb then (if isIn swintWeights then .ok () else .error "ValueError")
    else if isSet "unet" bb then .error "ValueError"
    else .ok ()

/-- class-level checks: the `oneof` decorator and `ModelConfig`'s cross-field validator -/
def classCheck (cls : String) (kvs : Kvs) : Except String Unit :=
  if cls = "BackboneConfig" ∨ cls = "HeadConfig" then
    (if countSet kvs > 1 then .error "ValueError" else .ok ())
  else if cls = "ModelConfig" then preTrainedOk kvs
  else .ok ()

/-- `Cls(**kwargs)` -/
def mk (env : Env) (cls : String) (kwargs : Kvs) : Except String Cfg :=
  match construct (env.cls cls) kwargs with
  | .error e => .error e
  | .ok (.node kvs) =>
    match runRules kvs (fieldRules cls) with
    | .error e => .error e
    | .ok () => match classCheck cls kvs with
      | .error e => .error e
      | .ok () => .ok (.node kvs)
  | .ok c => .ok c

/-! ## `get_aug_config` -/

/-- the five assignments targets of the geometric loop plus the two probabilities -/
structure Geo where
  rotation : Cfg
  scale : Cfg
  tw : Cfg          -- translate_width
  th : Cfg          -- translate_height
  affineP : Cfg
  eraseP : Cfg
  mixupP : Cfg

inductive GeoName where
  | rotation | scale | translate | eraseScale | mixup
deriving DecidableEq, Repr

def GeoName.parse (s : String) : Option GeoName :=
  if s = "rotation" then some .rotation
  else if s = "scale" then some .scale
  else if s = "translate" then some .translate
  else if s = "erase_scale" then some .eraseScale
  else if s = "mixup" then some .mixup
  else none

def GeoName.isAffine : GeoName → Bool
  | .rotation | .scale | .translate => true
  | _ => false

/-- REGRESSION RECORD (F-C20, fixed in /repo by ba6346f): one iteration of the loop as it was
before the fix (every affine branch also switched the other affine parameters off).  No longer
the code; kept so that the counterexample and the partial theorem stay checked. -/
def geoStepAsIs (g : Geo) : GeoName → Geo
  | .rotation => { g with affineP := fl 1, scale := pair 1 1, th := fl 0, tw := fl 0 }
  | .scale => { g with scale := pair d09 d11, affineP := fl 1, rotation := fl 0, th := fl 0, tw := fl 0 }
  | .translate => { g with th := fl d02, tw := fl d02, affineP := fl 1, rotation := fl 0, scale := pair 1 1 }
  | .eraseScale => { g with eraseP := fl 1 }
  | .mixup => { g with mixupP := fl 1 }

def geoLoopAsIs (g : Geo) (l : List GeoName) : Geo := l.foldl geoStepAsIs g

/-- repaired (`fixes/C20-aug-order.patch`): when the list names an affine augmentation, all
affine parameters are switched off **once**, before the loop … -/
def geoPre (g : Geo) (l : List GeoName) : Geo :=
  if l.any GeoName.isAffine then
    { g with affineP := fl 1, rotation := fl 0, scale := pair 1 1, th := fl 0, tw := fl 0 }
  else g

/-- … and each iteration enables only its own parameter (`d` = the defaults read before) -/
def geoStep (d : Geo) (g : Geo) : GeoName → Geo
  | .rotation => { g with rotation := d.rotation }
  | .scale => { g with scale := pair d09 d11 }
  | .translate => { g with th := fl d02, tw := fl d02 }
  | .eraseScale => { g with eraseP := fl 1 }
  | .mixup => { g with mixupP := fl 1 }

def geoLoop (g : Geo) (l : List GeoName) : Geo := l.foldl (geoStep g) (geoPre g l)

def Geo.read (kvs : Kvs) : Option Geo :=
  match lookup "rotation" kvs, lookup "scale" kvs, lookup "translate_width" kvs,
        lookup "translate_height" kvs, lookup "affine_p" kvs, lookup "erase_p" kvs,
        lookup "mixup_p" kvs with
  | some r, some s, some tw, some th, some a, some e, some m => some ⟨r, s, tw, th, a, e, m⟩
  | _, _, _, _, _, _, _ => none

def Geo.write (g : Geo) (kvs : Kvs) : Kvs :=
  setKey "mixup_p" g.mixupP (setKey "erase_p" g.eraseP (setKey "affine_p" g.affineP
    (setKey "translate_height" g.th (setKey "translate_width" g.tw (setKey "scale" g.scale
      (setKey "rotation" g.rotation kvs))))))

inductive IntName where
  | uniformNoise | gaussianNoise | contrast | brightness
deriving DecidableEq, Repr

def IntName.parse (s : String) : Option IntName :=
  if s = "uniform_noise" then some .uniformNoise
  else if s = "gaussian_noise" then some .gaussianNoise
  else if s = "contrast" then some .contrast
  else if s = "brightness" then some .brightness
  else none

def IntName.field : IntName → String
  | .uniformNoise => "uniform_noise_p"
  | .gaussianNoise => "gaussian_noise_p"
  | .contrast => "contrast_p"
  | .brightness => "brightness_p"

def intStep (kvs : Kvs) (n : IntName) : Kvs := setKey n.field (fl 1) kvs
def intLoop (kvs : Kvs) (l : List IntName) : Kvs := l.foldl intStep kvs

/-- how the code reads an `intensity_aug` / `geometric_aug` argument -/
inductive AugArg where
  | none                      -- `None` (or any other type: silently ignored)
  | names (l : List String)   -- a string (singleton) or a list
  | dict (kw : Kvs)

def valueName : Value → String
  | .str s => s
  | _ => "%not-a-string"

def AugArg.ofCfg : Cfg → AugArg
  | .leaf (.str s) => .names [s]
  | .leaf (.list l) => .names (l.map valueName)
  | .node kw => .dict kw
  | _ => .none

inductive Variant where
  | asIs | fixed
deriving DecidableEq, Repr

def parseAll {α} (p : String → Option α) : List String → Option (List α)
  | [] => some []
  | s :: r => match p s, parseAll p r with
    | some a, some as => some (a :: as)
    | _, _ => none

def augIntensity (env : Env) (dflt : Cfg) : AugArg → Except String Cfg
  | .none => .ok dflt
  | .names l =>
    match parseAll IntName.parse l with
    | none => .error "ValueError"
    | some ns => match dflt with
      | .node kvs =>
        if ns.all (fun n => hasKey n.field kvs) then .ok (.node (intLoop kvs ns))
        else .error "AttributeError"
      | .leaf _ => if ns.isEmpty then .ok dflt else .error "AttributeError"
  | .dict kw => mk env "IntensityConfig" kw

def augGeometric (v : Variant) (env : Env) (dflt : Cfg) : AugArg → Except String Cfg
  | .none => .ok dflt
  | .names l =>
    match parseAll GeoName.parse l with
    | none => .error "ValueError"
    | some ns =>
      if ns.isEmpty then .ok dflt
      else match dflt with
        | .node kvs => match Geo.read kvs with
          | some g =>
            let g' := match v with
              | .asIs => geoLoopAsIs g ns
              | .fixed => geoLoop g ns
            .ok (.node (g'.write kvs))
          | none => .error "AttributeError"
        | .leaf _ => .error "AttributeError"
  | .dict kw => mk env "GeometricConfig" kw

/-- `get_aug_config(intensity_aug, geometric_aug)` -/
def getAugConfig (v : Variant) (env : Env) (ia ga : Cfg) : Except String Cfg :=
  match env.cls "AugmentationConfig" with
  | .node kvs =>
    match augIntensity env ((lookup "intensity" kvs).getD cnull) (AugArg.ofCfg ia) with
    | .error e => .error e
    | .ok i =>
      match augGeometric v env ((lookup "geometric" kvs).getD cnull) (AugArg.ofCfg ga) with
      | .error e => .error e
      | .ok g => .ok (.node (setKey "geometric" g (setKey "intensity" i kvs)))
  | .leaf _ => .error "NameError"

/-! ## `get_backbone_config`, `get_head_configs` -/

def unetPresets : List (String × String) :=
  [("unet", "UNetConfig"), ("unet_medium_rf", "UNetMediumRFConfig"), ("unet_large_rf", "UNetLargeRFConfig")]
def convnextPresets : List (String × String) :=
  [("convnext", "ConvNextConfig"), ("convnext_tiny", "ConvNextConfig"),
   ("convnext_small", "ConvNextSmallConfig"), ("convnext_base", "ConvNextBaseConfig"),
   ("convnext_large", "ConvNextLargeConfig")]
def swintPresets : List (String × String) :=
  [("swint", "SwinTConfig"), ("swint_tiny", "SwinTConfig"), ("swint_small", "SwinTSmallConfig"),
   ("swint_base", "SwinTBaseConfig")]

def assoc (k : String) : List (String × String) → Option String
  | [] => none
  | (k', v) :: r => if k' = k then some v else assoc k r

/-- the preset a string selects: (field of `BackboneConfig`, declared class, class placed there);
`error` as the code raises -/
def presetOf (s : String) : Except String (String × String × String) :=
  if s.startsWith "unet" then
    match assoc s unetPresets with
    | some c => .ok ("unet", "UNetConfig", c)
    | none => .error "KeyError"
  else if s.startsWith "convnext" then
    match assoc s convnextPresets with
    | some c => .ok ("convnext", "ConvNextConfig", c)
    | none => .error "KeyError"
  else if s.startsWith "swint" then
    match assoc s swintPresets with
    | some c => .ok ("swint", "SwinTConfig", c)
    | none => .error "KeyError"
  else .error "ValueError"

def kwargsOf : Cfg → Except String Kvs
  | .node kw => .ok kw
  | .leaf _ => .error "TypeError"       -- `Cls(**None)`

def setField (c : Cfg) (k : String) (v : Cfg) : Cfg :=
  match c with
  | .node kvs => .node (setKey k v kvs)
  | .leaf _ => c

/-- dict form, one family: `backbone_config.<field> = Cls(**backbone_cfg[<field>])` -/
def backbonePick (env : Env) (bb : Cfg) (d : Kvs) (field cls : String) : Except String Cfg :=
  match kwargsOf ((lookup field d).getD cnull) with
  | .error e => .error e
  | .ok kw => match mk env cls kw with
    | .error e => .error e
    | .ok t => .ok (setField bb field t)

def getBackboneConfig (env : Env) (a : Cfg) : Except String Cfg :=
  let bb := env.cls "BackboneConfig"
  match a with
  | .leaf (.str s) =>
    match presetOf s with
    | .error e => .error e
    | .ok (field, _, placed) => .ok (setField bb field (env.cls placed))
  | .node d =>
    if hasKey "unet" d then backbonePick env bb d "unet" "UNetConfig"
    else if hasKey "convnext" d then backbonePick env bb d "convnext" "ConvNextConfig"
    else if hasKey "swint" d then backbonePick env bb d "swint" "SwinTConfig"
    else .ok bb
  | _ => .ok bb

/-- `OmegaConf.structured` accepts an object in a field of declared class `D` only if its class
is `D` or a subclass; this is where a preset object of an unrelated class is refused. -/
def presetTypeOk (env : Env) (a : Cfg) : Bool :=
  match a with
  | .leaf (.str s) =>
    match presetOf s with
    | .ok (_, declared, placed) => env.sub placed declared
    | .error _ => true
  | _ => true

/-- what `OmegaConf.structured(get_backbone_config(a))` gives -/
def backboneStructured (env : Env) (a : Cfg) : Except String Cfg :=
  match getBackboneConfig env a with
  | .error e => .error e
  | .ok b => if presetTypeOk env a then .ok b else .error "ValidationError"

def headTable : List (String × String × String) :=
  [("single_instance", "SingleInstanceConfig", "SingleInstanceConfMapsConfig"),
   ("centroid", "CentroidConfig", "CentroidConfMapsConfig"),
   ("centered_instance", "CenteredInstanceConfig", "CenteredInstanceConfMapsConfig"),
   ("bottomup", "BottomUpConfig", "BottomUpConfMapsConfig")]

/-- `d[k]` of a Python dict -/
def item (c : Cfg) (k : String) : Except String Cfg :=
  match c with
  | .node kvs => match lookup k kvs with
    | some v => .ok v
    | none => .error "KeyError"
  | .leaf _ => .error "TypeError"

/-- dict form, the selected head: `XConfig(confmaps=XConfMapsConfig(**sub["confmaps"]) [, pafs=PAFConfig(**sub["pafs"])])` -/
def headBuild (env : Env) (hd : Cfg) (field cls cmCls : String) (sub : Cfg) : Except String Cfg :=
  match item sub "confmaps" with
  | .error e => .error e
  | .ok cm => match kwargsOf cm with
    | .error e => .error e
    | .ok kw => match mk env cmCls kw with
      | .error e => .error e
      | .ok cmT =>
        if field = "bottomup" then
          match item sub "pafs" with
          | .error e => .error e
          | .ok pf => match kwargsOf pf with
            | .error e => .error e
            | .ok pkw => match mk env "PAFConfig" pkw with
              | .error e => .error e
              | .ok pT => match mk env cls [("confmaps", cmT), ("pafs", pT)] with
                | .error e => .error e
                | .ok t => .ok (setField hd field t)
        else
          match mk env cls [("confmaps", cmT)] with
          | .error e => .error e
          | .ok t => .ok (setField hd field t)

def headFromDict (env : Env) (hd : Cfg) (d : Kvs) : List (String × String × String) → Except String Cfg
  | [] => .ok hd
  | (field, cls, cmCls) :: rest =>
    match lookup field d with
    | some sub =>
      if sub.isNull then headFromDict env hd d rest
      else headBuild env hd field cls cmCls sub
    | none => headFromDict env hd d rest

def headClassOf (s : String) : Option (String × String) :=
  if s = "centered_instance" then some ("centered_instance", "CenteredInstanceConfig")
  else if s = "single_instance" then some ("single_instance", "SingleInstanceConfig")
  else if s = "centroid" then some ("centroid", "CentroidConfig")
  else if s = "bottomup" then some ("bottomup", "BottomUpConfig")
  else none

def getHeadConfigs (env : Env) (a : Cfg) : Except String Cfg :=
  let hd := env.cls "HeadConfig"
  match a with
  | .leaf (.str s) =>
    match headClassOf s with
    | some (field, cls) => .ok (setField hd field (env.cls cls))
    | none => .error "ValueError"
  | .node d => headFromDict env hd d headTable
  | _ => .ok hd

/-! ## `get_data_config`, `get_model_config`, `get_trainer_config`

Argument records are association lists `argument name ↦ value` (complete: the harness fills in
the defaults of the Python signature).  The tables below are the argument → field placement the
code spells out. -/

def arg (a : Kvs) (n : String) : Cfg := (lookup n a).getD cnull

/-- keyword list of a constructor call: `field = <argument>` -/
def place (a : Kvs) (t : List (String × String)) : Kvs := t.map (fun fn => (fn.1, arg a fn.2))

def preprocessingPlacement : List (String × String) :=
  [("is_rgb", "is_rgb"), ("max_height", "max_height"), ("max_width", "max_width"),
   ("scale", "scale"), ("crop_hw", "crop_hw"), ("min_crop_size", "min_crop_size")]

def dataPlacement : List (String × String) :=
  [("train_labels_path", "train_labels_path"), ("val_labels_path", "val_labels_path"),
   ("test_file_path", "test_file_path"), ("provider", "provider"),
   ("user_instances_only", "user_instances_only"), ("data_pipeline_fw", "data_pipeline_fw"),
   ("np_chunks_path", "np_chunks_path"), ("litdata_chunks_path", "litdata_chunks_path"),
   ("use_existing_chunks", "use_existing_chunks"), ("chunk_size", "chunk_size"),
   ("delete_chunks_after_training", "delete_chunks_after_training"),
   ("use_augmentations_train", "use_augmentations_train")]

def truthy : Cfg → Bool
  | .leaf (.bool b) => b
  | .leaf .null => false
  | .leaf (.int i) => i ≠ 0
  | .leaf (.num q) => q ≠ 0
  | .leaf .nan => true
  | .leaf (.inf _) => true
  | .leaf (.str s) => s ≠ ""
  | .leaf (.list l) => !l.isEmpty
  | .leaf (.tuple l) => !l.isEmpty
  | .node kvs => !kvs.isEmpty

def getDataConfig (v : Variant) (env : Env) (a : Kvs) : Except String Cfg :=
  match mk env "PreprocessingConfig" (place a preprocessingPlacement) with
  | .error e => .error e
  | .ok pre =>
    match (if truthy (arg a "use_augmentations_train")
           then getAugConfig v env (arg a "intensity_aug") (arg a "geometry_aug")
           else .ok cnull) with
    | .error e => .error e
    | .ok aug =>
      mk env "DataConfig"
        (place a dataPlacement ++ [("preprocessing", pre), ("augmentation_config", aug)])

def modelPlacement : List (String × String) :=
  [("init_weights", "init_weight"), ("pre_trained_weights", "pre_trained_weights"),
   ("pretrained_backbone_weights", "pretrained_backbone_weights"),
   ("pretrained_head_weights", "pretrained_head_weights")]

def getModelConfig (env : Env) (a : Kvs) : Except String Cfg :=
  match getBackboneConfig env (arg a "backbone_config") with
  | .error e => .error e
  | .ok bb =>
    match getHeadConfigs env (arg a "head_configs") with
    | .error e => .error e
    | .ok hd =>
      mk env "ModelConfig" (place a modelPlacement ++ [("backbone_config", bb), ("head_configs", hd)])

/-- what `TrainingJobConfig(model_config=…).to_sleap_nn_cfg()` makes of it -/
def modelStructured (env : Env) (a : Kvs) : Except String Cfg :=
  match getModelConfig env a with
  | .error e => .error e
  | .ok m => if presetTypeOk env (arg a "backbone_config") then .ok m else .error "ValidationError"

def firstScheduler : Kvs → Option (String × Cfg)
  | [] => none
  | (k, v) :: r =>
    if !v.isNull ∧ (k = "step_lr" ∨ k = "reduce_lr_on_plateau") then some (k, v) else firstScheduler r

def lrScheduler (env : Env) (a : Cfg) : Except String Cfg :=
  let d := env.cls "LRSchedulerConfig"
  match a with
  | .leaf (.str s) =>
    if s = "step_lr" then .ok (setField d "step_lr" (env.cls "StepLRConfig"))
    else if s = "reduce_lr_on_plateau" then
      .ok (setField d "reduce_lr_on_plateau" (env.cls "ReduceLROnPlateauConfig"))
    else .error "ValueError"
  | .node kvs =>
    match firstScheduler kvs with
    | none => .ok d
    | some (k, v) =>
      match kwargsOf v with
      | .error e => .error e
      | .ok kw =>
        match mk env (if k = "step_lr" then "StepLRConfig" else "ReduceLROnPlateauConfig") kw with
        | .error e => .error e
        | .ok t => .ok (setField d k t)
  | _ => .ok d

def trainerPlacement : List (String × String) :=
  [("trainer_devices", "trainer_num_devices"), ("trainer_accelerator", "trainer_accelerator"),
   ("enable_progress_bar", "enable_progress_bar"), ("steps_per_epoch", "steps_per_epoch"),
   ("max_epochs", "max_epochs"), ("seed", "seed"), ("use_wandb", "use_wandb"),
   ("save_ckpt", "save_ckpt"), ("save_ckpt_path", "save_ckpt_path"),
   ("resume_ckpt_path", "resume_ckpt_path"), ("optimizer_name", "optimizer")]

def trainLoaderPlacement : List (String × String) :=
  [("batch_size", "batch_size"), ("shuffle", "shuffle_train"), ("num_workers", "num_workers")]
def valLoaderPlacement : List (String × String) :=
  [("batch_size", "batch_size"), ("num_workers", "num_workers")]
def ckptPlacement : List (String × String) :=
  [("save_top_k", "ckpt_save_top_k"), ("save_last", "ckpt_save_last")]
def wandbPlacement : List (String × String) :=
  [("entity", "wandb_entity"), ("project", "wandb_project"), ("name", "wandb_name"),
   ("api_key", "wandb_api_key"), ("wandb_mode", "wandb_mode"),
   ("prv_runid", "wandb_resume_prv_runid"), ("group", "wandb_group_name")]
def optimizerPlacement : List (String × String) := [("lr", "learning_rate"), ("amsgrad", "amsgrad")]
def earlyStoppingPlacement : List (String × String) :=
  [("min_delta", "early_stopping_min_delta"), ("patience", "early_stopping_patience"),
   ("stop_training_on_plateau", "early_stopping")]

def getTrainerConfig (env : Env) (a : Kvs) : Except String Cfg :=
  match mk env "DataLoaderConfig" (place a trainLoaderPlacement) with
  | .error e => .error e
  | .ok tdl =>
  match mk env "DataLoaderConfig" (place a valLoaderPlacement ++ [("shuffle", cbool false)]) with
  | .error e => .error e
  | .ok vdl =>
  match lrScheduler env (arg a "lr_scheduler") with
  | .error e => .error e
  | .ok lrs =>
  match mk env "ModelCkptConfig" (place a ckptPlacement) with
  | .error e => .error e
  | .ok ckpt =>
  match mk env "WandBConfig" (place a wandbPlacement) with
  | .error e => .error e
  | .ok wb =>
  match mk env "OptimizerConfig" (place a optimizerPlacement) with
  | .error e => .error e
  | .ok opt =>
  match mk env "EarlyStoppingConfig" (place a earlyStoppingPlacement) with
  | .error e => .error e
  | .ok es =>
    mk env "TrainerConfig"
      (place a trainerPlacement ++
        [("train_data_loader", tdl), ("val_data_loader", vdl), ("model_ckpt", ckpt), ("wandb", wb),
         ("optimizer", opt), ("lr_scheduler", lrs), ("early_stopping", es)])

/-! ## `train()`: the public entry point

`train(**kw)` passes every one of its parameters, by name, to exactly one of the three builders,
wraps the results in `TrainingJobConfig(data_config=…, model_config=…, trainer_config=…)` and hands
`to_sleap_nn_cfg()` (structured conversion + `throw_on_missing`) to `run_training`. -/

def trainCfg (env : Env) (a : Kvs) : Except String Cfg :=
  match getDataConfig .fixed env a with
  | .error e => .error e
  | .ok d =>
  match getModelConfig env a with
  | .error e => .error e
  | .ok m =>
  match getTrainerConfig env a with
  | .error e => .error e
  | .ok t =>
  match mk env "TrainingJobConfig" [("data_config", d), ("model_config", m), ("trainer_config", t)] with
  | .error e => .error e
  | .ok r =>
    if !(presetTypeOk env (arg a "backbone_config")) then .error "ValidationError"
    else if hasMissing r then .error "MissingMandatoryValue"
    else .ok r

/-! ## `oneof` after construction: attribute assignment, then `which_oneof_attrib_name()` / `which_oneof()`

Assigning an attribute of a `@define` class runs that field's validators only (there are none on
the union fields) — the `oneof` check lives in `__init__` and in the two query methods. -/

/-- `obj.k = v` on a slotted attrs object: an unknown attribute raises `AttributeError` -/
def assignAttr (kvs : Kvs) (k : String) (v : Cfg) : Except String Kvs :=
  if hasKey k kvs then .ok (setKey k v kvs) else .error "AttributeError"

def assignAll : Kvs → List (String × Cfg) → Except String Kvs
  | kvs, [] => .ok kvs
  | kvs, (k, v) :: r =>
    match assignAttr kvs k v with
    | .error e => .error e
    | .ok kvs' => assignAll kvs' r

/-- `which_oneof_attrib_name()` (`must_be_set = False` for both decorated classes): the name of the
one attribute that is set, `none` if none is, `ValueError` if more than one is -/
def whichOneofName (kvs : Kvs) : Except String (Option String) :=
  match kvs.filter (fun kv => !kv.2.isNull) with
  | [] => .ok none
  | [kv] => .ok (some kv.1)
  | _ :: _ :: _ => .error "ValueError"

/-- `which_oneof()` -/
def whichOneof (kvs : Kvs) : Except String Cfg :=
  match whichOneofName kvs with
  | .error e => .error e
  | .ok none => .ok cnull
  | .ok (some k) => .ok ((lookup k kvs).getD cnull)

/-- construct, assign in order, ask -/
def oneofAfter (env : Env) (cls : String) (kw : Kvs) (assigns : List (String × Cfg)) (value : Bool) :
    Except String Cfg :=
  match mk env cls kw with
  | .error e => .error e
  | .ok (.leaf _) => .error "TypeError"
  | .ok (.node kvs) =>
    match assignAll kvs assigns with
    | .error e => .error e
    | .ok kvs' =>
      if value then whichOneof kvs'
      else match whichOneofName kvs' with
        | .error e => .error e
        | .ok none => .ok cnull
        | .ok (some k) => .ok (cstr k)

/-! ## attribute assignment on an existing configuration object (`obj.f = v`)

attrs (`@define`) runs, on assignment, the converters and validators of THAT field and then stores
the value; class-level checks (`oneof`) are not re-run.  The validator receives the new value as its
`value` argument — but two validators of /repo ignore that argument and read `self.<field>`, which
at that moment still holds the OLD value (`validate_scale`, `validate_min_lr`): `assignChecksOld`. -/

def ruleOf (cls f : String) : Option Rule :=
  match (fieldRules cls).filter (fun fr => fr.1 == f) with
  | fr :: _ => some fr.2
  | [] => none

/-- fields whose validator looks at `self.<field>` instead of the value being assigned: none any more
(F-C20h, fixed: `validate_scale(value)` / `validate_min_lr(value)`) -/
def assignChecksOld (_cls _f : String) : Bool := false

/-- verdict of the field validator when `v` is assigned over `old` -/
def assignVerdict (checksOld : Bool) (r : Option Rule) (old v : Cfg) : Except String Unit :=
  match r with
  | none => .ok ()
  | some r => r.check (if checksOld then old else v)

/-- `obj.f = v` for an object of class `cls` whose fields are `kvs`: the new fields, or the exception
(in which case the object is unchanged) -/
def assignField (checksOld : Bool) (cls : String) (kvs : Kvs) (f : String) (v : Cfg) : Except String Kvs :=
  match lookup f kvs with
  | none => .error "AttributeError"
  | some old =>
    match assignVerdict checksOld (ruleOf cls f) old v with
    | .error e => .error e
    | .ok () =>
      if cls == "ModelConfig" && f == "pre_trained_weights" then
        match preTrainedOk (setKey f v kvs) with
        | .error e => .error e
        | .ok () => .ok (setKey f v kvs)
      else .ok (setKey f v kvs)

/-- construct, assign one field, report the field's value afterwards (as /repo does it) -/
def assignAfter (env : Env) (cls : String) (kw : Kvs) (f : String) (v : Cfg) : Except String Cfg :=
  match mk env cls kw with
  | .error e => .error e
  | .ok (.leaf _) => .error "TypeError"
  | .ok (.node kvs) =>
    match assignField (assignChecksOld cls f) cls kvs f v with
    | .error e => .error e
    | .ok kvs' => .ok ((lookup f kvs').getD cnull)

/-! ## histories of builder calls

The builders are functions of their arguments (and of the class defaults) only.  A *history* is a
sequence of calls interleaved with in-place mutations of objects handed out earlier; `handed`
holds the current contents of every object handed out so far, `outputs` what each call returned
at the time it returned. -/

inductive Call where
  | aug (v : Variant) (ia ga : Cfg)
  | backbone (a : Cfg)
  | head (a : Cfg)
  | lrs (a : Cfg)
  | data (v : Variant) (a : Kvs)
  | model (a : Kvs)
  | trainer (a : Kvs)

def runCall (env : Env) : Call → Except String Cfg
  | .aug v ia ga => getAugConfig v env ia ga
  | .backbone a => backboneStructured env a
  | .head a => getHeadConfigs env a
  | .lrs a => lrScheduler env a
  | .data v a => getDataConfig v env a
  | .model a => modelStructured env a
  | .trainer a => getTrainerConfig env a

inductive Step where
  | call (c : Call)
  | mutate (i : Nat) (t : Cfg)     -- the caller overwrites (part of) the i-th object it was handed

structure HState where
  handed : List (Except String Cfg) := []
  outputs : List (Except String Cfg) := []

def hstep (env : Env) (s : HState) : Step → HState
  | .call c => let r := runCall env c; { handed := s.handed ++ [r], outputs := s.outputs ++ [r] }
  | .mutate i t => { s with handed := s.handed.set i (.ok t) }

def runHistory (env : Env) (steps : List Step) : HState := steps.foldl (hstep env) {}

def callsOf : List Step → List Call
  | [] => []
  | .call c :: r => c :: callsOf r
  | .mutate _ _ :: r => callsOf r

end SleapVerif.Config
