/-!
# Datasets never alter or invent labels (C11) — executable model, core Lean only

Anchors: `sleap_nn/data/instance_centroids.py`, `providers.py::process_lf`,
`instance_cropping.py`, `resizing.py`, `custom_datasets.py` (the four `*Dataset` classes).

The file has three layers, kept apart on purpose (C18 re-uses the first two):

1. **Coordinates** (`Coord`, `Pt`, `bboxMid`, `centroidOf`, `centeredBbox`, `effScale`, …):
   pure value-level functions.  A coordinate is `Option R` (`none` = NaN); a point is a pair of
   coordinates because the code can see half-NaN points (`isnan(c).any(-1)`, per-coordinate
   `min`/`max`).
2. **Labels and sample specification** (`Inst`, `Frame`, `lfIdxList`, `instanceIdxList`,
   `processInsts`, `specSample`): what each dataset class must return for an index, computed
   directly from the labels, no state.
3. **Heap** (`Heap`, `TRef`, `genCentroids`, `fillCache`, `getItem`): tensors are cells
   `Loc ↦ List Pt`, a tensor reference is a location plus an index map (so a *view* shares the
   cell of its base), sample dicts live in a second store.  Functions return a fresh reference
   or an alias and may write.  `generate_centroids` is modelled both **as coded**
   (`Variant.asIs`: the result is the view `points[..., anchor, :]` and the bbox midpoints are
   written *through the view*) and **repaired** (`Variant.repaired`: `.clone()` first).
   `__getitem__` is the generic engine "shallow-copy the cached dict, then rebind keys to freshly
   allocated tensors".
-/
namespace SleapVerif.Datasets

/-! ## 1. Coordinates -/
section Coords
variable {R : Type}

/-- one coordinate; `none` = NaN -/
abbrev Coord (R : Type) := Option R
/-- one keypoint `(x, y)` -/
abbrev Pt (R : Type) := Coord R × Coord R

def Pt.nan : Pt R := (none, none)
/-- `torch.isnan(p).any(-1)`: the anchor test of `generate_centroids` -/
def Pt.missing (p : Pt R) : Bool := p.1.isNone || p.2.isNone
/-- sleap-io marks a point invisible iff both coordinates are NaN -/
def Pt.invisible (p : Pt R) : Bool := p.1.isNone && p.2.isNone

/-- both coordinates are numbers -/
def Pt.full (p : Pt R) : Bool := p.1.isSome && p.2.isSome

/-- float arithmetic with NaN propagation -/
def o2 (f : R → R → R) : Coord R → Coord R → Coord R
  | some a, some b => some (f a b)
  | _, _ => none

def Pt.scale [Mul R] (s : R) (p : Pt R) : Pt R := (p.1.map (· * s), p.2.map (· * s))
def Pt.sub [Sub R] (p q : Pt R) : Pt R := (o2 (· - ·) p.1 q.1, o2 (· - ·) p.2 q.2)

def maxR [LT R] [DecidableLT R] (a b : R) : R := if a < b then b else a
def minR [LT R] [DecidableLT R] (a b : R) : R := if b < a then b else a

/-- one coordinate of `find_points_bbox_midpoint`: NaNs are replaced by ±inf before `min`/`max`,
so they are ignored; with no finite value `(-inf + inf) * 0.5 = NaN`. -/
def midC [Add R] [Div R] [LT R] [DecidableLT R] [OfNat R 2] (xs : List (Coord R)) : Coord R :=
  match xs.filterMap id with
  | [] => none
  | v :: vs => some ((vs.foldl maxR v + vs.foldl minR v) / 2)

/-- `find_points_bbox_midpoint` for one instance -/
def bboxMid [Add R] [Div R] [LT R] [DecidableLT R] [OfNat R 2] (pts : List (Pt R)) : Pt R :=
  (midC (pts.map (·.1)), midC (pts.map (·.2)))

/-- What `generate_centroids` must return for one instance: the anchor when it is present,
else the bounding-box midpoint of the visible coordinates (`none` when there are none). -/
def centroidOf [Add R] [Div R] [LT R] [DecidableLT R] [OfNat R 2]
    (anchor : Option Nat) (pts : List (Pt R)) : Pt R :=
  match anchor with
  | none => bboxMid pts
  | some a =>
    let c := pts.getD a Pt.nan
    if c.missing then bboxMid pts else c

/-- `make_centered_bboxes(c, box_height, box_width)`: corners TL, TR, BR, BL, then the ±0.5
offsets. -/
def centeredBbox [Add R] [Sub R] [Div R] [OfNat R 1] [OfNat R 2] (cast : Nat → R)
    (c : Pt R) (bh bw : Nat) : List (Pt R) :=
  let hw : R := cast bw / 2
  let hh : R := cast bh / 2
  let half : R := 1 / 2
  let xm := c.1.map (· - hw)
  let xp := c.1.map (· + hw)
  let ym := c.2.map (· - hh)
  let yp := c.2.map (· + hh)
  [ (xm.map (· + half), ym.map (· + half)),
    (xp.map (· - half), ym.map (· + half)),
    (xp.map (· - half), yp.map (· - half)),
    (xm.map (· + half), yp.map (· - half)) ]

/-- `apply_sizematcher`'s `eff_scale` for an `H×W` frame and `max_hw`. -/
def effScale [Div R] [LT R] [DecidableLT R] [OfNat R 1] (cast : Nat → R) (H W : Nat)
    (maxH maxW : Option Nat) : R :=
  let mh := maxH.getD H
  let mw := maxW.getD W
  if H ≠ mh ∨ W ≠ mw then
    let hr : R := cast mh / cast H
    let wr : R := cast mw / cast W
    if wr < hr then wr else hr
  else 1

/-- `instances * eff_scale` followed by `apply_resizer` (`if scale != 1.0: instances * scale`) -/
def prepPts [Mul R] [OfNat R 1] [DecidableEq R] (eff scale : R) (pts : List (Pt R)) : List (Pt R) :=
  let p1 := pts.map (Pt.scale eff)
  if scale = 1 then p1 else p1.map (Pt.scale scale)

/-- `(np.array(crop_hw) * np.sqrt(2)).astype(int32)`: `⌊n·√2⌋ = ⌊√(2n²)⌋` -/
def cropExtra (n : Nat) : Nat := Nat.sqrt (2 * n * n)

/-- `xs[i*n ... i*n+n)` for `i < k` -/
def chunks {α} (n k : Nat) (xs : List α) : List (List α) :=
  (List.range k).map fun i => (xs.drop (i * n)).take n

/-- support of a confidence-map channel: the channel is identically `0` iff every contributing
keypoint is missing (`nan_to_num(exp(NaN)) = 0`, `maximum(0, 0) = 0`).  `kernel` is the Gaussian
(C01 owns its value); `gx gy` a grid point. -/
def cmCell [OfNat R 0] (kernel : R → R → R → R → R) (kp : Pt R) (gx gy : R) : R :=
  match kp with
  | (some x, some y) => kernel x y gx gy
  | _ => 0

def multiCmCell [OfNat R 0] [LT R] [DecidableLT R] (kernel : R → R → R → R → R)
    (kps : List (Pt R)) (gx gy : R) : R :=
  kps.foldl (fun acc kp => maxR acc (cmCell kernel kp gx gy)) 0

/-- the keypoints feeding channel `k` of `generate_multiconfmaps(instances, num_instances=n)`:
node `k` of each of the first `n` rows (`instances[:, :num_instances]`) -/
def channelKps (rows : List (List (Pt R))) (n k : Nat) : List (Pt R) :=
  (rows.take n).map fun r => r.getD k Pt.nan

/-- channel `k` of the multi-instance confidence maps at grid point `(gx, gy)`:
`cms = zeros; for i in range(n_inst): cms = maximum(cms, make_confmaps(points[:, i]))` -/
def multiChannel [OfNat R 0] [LT R] [DecidableLT R] (kernel : R → R → R → R → R)
    (rows : List (List (Pt R))) (n k : Nat) (gx gy : R) : R :=
  multiCmCell kernel (channelKps rows n k) gx gy

/-- the single channel of the centroid maps (`is_centroids=True`: one node per animal) -/
def centroidChannel [OfNat R 0] [LT R] [DecidableLT R] (kernel : R → R → R → R → R)
    (cens : List (Pt R)) (n : Nat) (gx gy : R) : R :=
  multiCmCell kernel (cens.take n) gx gy

end Coords

/-! ## 2. Labels, index lists, sample specification -/
section Labels
variable {R : Type}

inductive Kind | user | predicted
  deriving DecidableEq, Repr

/-- What the datasets observe of one `sio.Instance`: its exact type, `inst.numpy()` and
`inst.is_empty`.  (Nothing else of an instance is read — tied to the code by the correspondence.) -/
structure Inst (R : Type) where
  kind : Kind
  /-- `inst.numpy()` -/
  pts : List (Pt R)
  /-- `inst.is_empty` -/
  empty : Bool

/-- sleap-io `Instance.is_empty`: no node is flagged visible -/
def Inst.isEmpty (i : Inst R) : Bool := i.empty

structure Frame (R : Type) where
  frameIdx : Nat
  videoIdx : Nat
  H : Nat
  W : Nat
  insts : List (Inst R)

def Inst.isUser (i : Inst R) : Bool := i.kind == Kind.user

/-! ### the stored representation of a label (sleap-io `PointsArray`)

A node is stored as coordinates **and** a `visible` flag.  A keypoint is *missing* iff it is not
flagged visible **or** its stored coordinates are NaN: `Instance.numpy()` returns NaN for a node
that is not visible whatever is stored, so a missing node has (at least) the two representations
`(NaN, not visible)` — what `Instance.from_numpy` stores — and `(finite xy, not visible)` — a
node hidden after it was placed. -/

structure Node (R : Type) where
  xy : Pt R
  visible : Bool

/-- one row of `Instance.numpy()`: `np.where(visible, xy, nan)` -/
def Node.pt (n : Node R) : Pt R := if n.visible then n.xy else Pt.nan

structure RawInst (R : Type) where
  kind : Kind
  nodes : List (Node R)

/-- **labelPts**: the label's keypoints as the property means them (`Instance.numpy()`) -/
def RawInst.labelPts (r : RawInst R) : List (Pt R) := r.nodes.map Node.pt

/-- what the datasets observe of a stored instance: type, `numpy()`, `is_empty`
(`~points["visible"].any()`) -/
def RawInst.abs (r : RawInst R) : Inst R :=
  ⟨r.kind, r.labelPts, r.nodes.all (fun n => !n.visible)⟩

structure RawFrame (R : Type) where
  frameIdx : Nat
  videoIdx : Nat
  H : Nat
  W : Nat
  insts : List (RawInst R)

def RawFrame.abs (f : RawFrame R) : Frame R :=
  ⟨f.frameIdx, f.videoIdx, f.H, f.W, f.insts.map RawInst.abs⟩

/-- a label set *up to the representation of missing nodes*: per instance its type and
`labelPts`, per frame the indices and size -/
def RawFrame.view (f : RawFrame R) : Nat × Nat × Nat × Nat × List (Kind × List (Pt R)) :=
  (f.frameIdx, f.videoIdx, f.H, f.W, f.insts.map fun r => (r.kind, r.labelPts))

/-- the flags agree with the coordinates the way sleap-io's own constructors guarantee: a node
flagged visible stores at least one coordinate -/
def RawInst.WellFlagged (r : RawInst R) : Prop :=
  ∀ n ∈ r.nodes, n.visible = true → n.xy.invisible = false

/-- `if user_instances_only and len(lf.user_instances) > 0: lf.instances = lf.user_instances`
(a frame with only predicted instances keeps them). -/
def Frame.filtered (userOnly : Bool) (f : Frame R) : List (Inst R) :=
  if userOnly && (f.insts.filter Inst.isUser).length != 0 then f.insts.filter Inst.isUser else f.insts

def Frame.hasNonEmpty (userOnly : Bool) (f : Frame R) : Bool :=
  (f.filtered userOnly).any (fun i => !i.isEmpty)

/-- `BaseDataset._get_lf_idx_list` -/
def lfIdxList (userOnly : Bool) (fs : List (Frame R)) : List Nat :=
  (fs.zipIdx.filter (fun p => p.1.hasNonEmpty userOnly)).map (·.2)

/-- `CenteredInstanceDataset._get_instance_idx_list` -/
def instanceIdxList (userOnly : Bool) (fs : List (Frame R)) : List (Nat × Nat) :=
  fs.zipIdx.flatMap fun p =>
    (((p.1.filtered userOnly).zipIdx.filter (fun q => !q.1.isEmpty)).map fun q => (p.2, q.2))

/-- `get_max_instances` (taken before any filtering) -/
def maxInstances (fs : List (Frame R)) : Nat := fs.foldl (fun m f => max m f.insts.length) 0

def absDiff (a b : Nat) : Nat := if a ≤ b then b - a else a - b

/-- `process_lf`: non-empty (filtered) instances, NaN-padded by `|max_instances - k|` rows unless
`max_instances == 1`; also returns `num_instances = k`. -/
def processInsts (userOnly : Bool) (maxInst : Nat) (f : Frame R) : List (List (Pt R)) × Nat :=
  let ne := ((f.filtered userOnly).filter (fun i => !i.isEmpty)).map (·.pts)
  let k := ne.length
  let nNodes := (ne.head?.map List.length).getD 0
  let padded := if maxInst = 1 then ne
                else ne ++ List.replicate (absDiff maxInst k) (List.replicate nNodes Pt.nan)
  (padded, k)

inductive DsKind | bottomUp | single | centroid | centered
  deriving DecidableEq, Repr

structure Cfg (R : Type) where
  kind : DsKind
  userOnly : Bool
  maxH : Option Nat          -- the `max_hw` constructor argument
  maxW : Option Nat
  cfgMaxH : Option Nat       -- `data_config.preprocessing.max_height / max_width`
  cfgMaxW : Option Nat
  scale : R
  anchor : Option Nat
  cropH : Nat
  cropW : Nat
  /-- the constructor argument `apply_aug` — the only thing that switches augmentation on -/
  applyAug : Bool := false
  /-- `data_config.use_augmentations_train`: read by the *trainer* to choose `apply_aug` for the
  training dataset; the dataset classes never look at it (no definition below mentions it) -/
  cfgAugFlag : Bool := false

/-- `BaseDataset.__init__`: a `max_height` / `max_width` set in the config takes precedence over
the corresponding component of the `max_hw` argument -/
def Cfg.effMaxH (cfg : Cfg R) : Option Nat :=
  match cfg.cfgMaxH with | some c => some c | none => cfg.maxH
def Cfg.effMaxW (cfg : Cfg R) : Option Nat :=
  match cfg.cfgMaxW with | some c => some c | none => cfg.maxW

/-- `self.max_instances`: the labels' maximum, except that `SingleInstanceDataset` sets it to 1
(no NaN padding of `instances`) -/
def Cfg.maxInst (cfg : Cfg R) (fs : List (Frame R)) : Nat :=
  match cfg.kind with
  | .single => 1
  | _ => maxInstances fs

/-- the point-tensor keys of a sample dict -/
inductive Key | instances | centroids | instance | centroid | bbox
  deriving DecidableEq, Repr

/-- values of the point tensors of one sample -/
abbrev DictV (R : Type) := List (Key × List (Pt R))

/-- non-tensor entries of a sample (Python ints / 0-d tensors, immutable) -/
structure SMeta where
  numInstances : Nat
  frameIdx : Nat
  videoIdx : Nat
  H : Nat
  W : Nat
  deriving DecidableEq, Repr

/-- Python `d[k] = v`: replace in place when present, else append (insertion order kept) -/
def assocSet {α β} [DecidableEq α] (k : α) (v : β) (l : List (α × β)) : List (α × β) :=
  if l.any (fun e => e.1 == k) then l.map (fun e => if e.1 == k then (k, v) else e)
  else l ++ [(k, v)]

def assocGet {α β} [DecidableEq α] (k : α) (l : List (α × β)) : Option β :=
  (l.find? (fun e => e.1 == k)).map (·.2)

def DictV.get (d : DictV R) (k : Key) : List (Pt R) := (assocGet k d).getD []

/-- one rebinding step of `__getitem__`: `sample[key] = f(sample)` -/
abbrev Step (R : Type) := Key × (DictV R → List (Pt R))

variable [Add R] [Sub R] [Mul R] [Div R] [LT R] [DecidableLT R] [OfNat R 1] [OfNat R 2]
  [DecidableEq R]

/-- `CenteredInstanceDataset.__getitem__` (augmentation off), in code order:
`instance_bbox` from the cached `centroid`, then `instance`/`centroid` minus its top-left. -/
def centeredSteps (cast : Nat → R) (cropH cropW : Nat) : List (Step R) :=
  [ (Key.bbox, fun d => centeredBbox cast ((d.get Key.centroid).getD 0 Pt.nan) cropH cropW),
    (Key.instance, fun d => (d.get Key.instance).map (·.sub ((d.get Key.bbox).getD 0 Pt.nan))),
    (Key.centroid, fun d => (d.get Key.centroid).map (·.sub ((d.get Key.bbox).getD 0 Pt.nan))) ]

/-- rebinding steps of `__getitem__` on point tensors, augmentation off (the three frame-based
classes only add confidence maps, which are not point tensors) -/
def Cfg.steps (cfg : Cfg R) (cast : Nat → R) : List (Step R) :=
  match cfg.kind with
  | .centered => centeredSteps cast cfg.cropH cfg.cropW
  | _ => []

/-- all rebinding steps of `__getitem__`: the augmentation steps (`aug`, whatever they compute)
come first and only when the constructor said `apply_aug=True`, then the class's own steps -/
def Cfg.stepsAug (cfg : Cfg R) (cast : Nat → R) (aug : List (Step R)) : List (Step R) :=
  (if cfg.applyAug then aug else []) ++ cfg.steps cast

/-- the frame's `eff_scale` under this configuration -/
def Cfg.eff (cfg : Cfg R) (cast : Nat → R) (f : Frame R) : R :=
  effScale cast f.H f.W cfg.effMaxH cfg.effMaxW

def applySteps (steps : List (Step R)) (d : DictV R) : DictV R :=
  steps.foldl (fun d s => assocSet s.1 (s.2 d) d) d

/-- what `_fill_cache` must store for a frame (frame-based classes) -/
def specFrameCached (cfg : Cfg R) (cast : Nat → R) (maxInst : Nat) (f : Frame R) : DictV R × SMeta :=
  let pi := processInsts cfg.userOnly maxInst f
  let insts' := pi.1.map (prepPts (cfg.eff cast f) cfg.scale)
  let m : SMeta := ⟨pi.2, f.frameIdx, f.videoIdx, f.H, f.W⟩
  match cfg.kind with
  | .centroid => ([(Key.instances, insts'.flatten), (Key.centroids, insts'.map (centroidOf cfg.anchor))], m)
  | _ => ([(Key.instances, insts'.flatten)], m)

/-- what `_fill_cache` must store for `(frame, inst_idx)` (centered-instance class) -/
def specCenteredCached (cfg : Cfg R) (cast : Nat → R) (f : Frame R) (j : Nat) : DictV R × SMeta :=
  let fl := f.filtered cfg.userOnly
  let pts0 := ((fl.map (·.pts)).getD j [])
  let pts := prepPts (cfg.eff cast f) cfg.scale pts0
  let c := centroidOf cfg.anchor pts
  let bb := centeredBbox cast c (cropExtra cfg.cropH) (cropExtra cfg.cropW)
  let tl := bb.getD 0 Pt.nan
  ([(Key.bbox, bb), (Key.instance, pts.map (·.sub tl)), (Key.centroid, [c.sub tl])],
   ⟨fl.length, f.frameIdx, f.videoIdx, f.H, f.W⟩)

/-- placeholder for an index that does not exist (never reached: index lists only hold valid
indices) -/
def noEntry : DictV R × SMeta := ([], ⟨0, 0, 0, 0, 0⟩)

/-- the cache `_fill_cache` must build -/
def specCache (cfg : Cfg R) (cast : Nat → R) (fs : List (Frame R)) : List (DictV R × SMeta) :=
  match cfg.kind with
  | .centered =>
    (instanceIdxList cfg.userOnly fs).map fun ij =>
      ((fs[ij.1]?).map fun f => specCenteredCached cfg cast f ij.2).getD noEntry
  | _ =>
    (lfIdxList cfg.userOnly fs).map fun i =>
      ((fs[i]?).map fun f => specFrameCached cfg cast (cfg.maxInst fs) f).getD noEntry

/-- **Sample specification**: what `ds[i]` must return (point tensors + metadata) — a function
of the labels and the index only. -/
def specSample (cfg : Cfg R) (cast : Nat → R) (fs : List (Frame R)) (i : Nat) : Option (DictV R × SMeta) :=
  ((specCache cfg cast fs)[i]?).map fun e => (applySteps (cfg.steps cast) e.1, e.2)

/-- dataset length -/
def specLen (cfg : Cfg R) (fs : List (Frame R)) : Nat :=
  match cfg.kind with
  | .centered => (instanceIdxList cfg.userOnly fs).length
  | _ => (lfIdxList cfg.userOnly fs).length

end Labels

/-! ## 3. Heap -/
section HeapSec
variable {R : Type}

/-- tensor reference: storage cell + index map (a view shares `loc` with its base) -/
structure TRef where
  loc : Nat
  idx : List Nat
  deriving DecidableEq, Repr

structure Heap (R : Type) where
  cells : List (List (Pt R))
  dicts : List (List (Key × TRef))

def Heap.empty : Heap R := ⟨[], []⟩

def Heap.readT (h : Heap R) (t : TRef) : List (Pt R) :=
  t.idx.map fun k => (h.cells.getD t.loc []).getD k Pt.nan

/-- fresh tensor -/
def Heap.allocT (h : Heap R) (v : List (Pt R)) : Heap R × TRef :=
  ({ h with cells := h.cells ++ [v] }, ⟨h.cells.length, List.range v.length⟩)

/-- `t[ks]`-style view: same storage -/
def TRef.slice (t : TRef) (ks : List Nat) : TRef := ⟨t.loc, ks.map fun k => t.idx.getD k 0⟩

def Heap.setCell (h : Heap R) (loc k : Nat) (v : Pt R) : Heap R :=
  { h with cells := h.cells.modify loc (fun c => c.set k v) }

/-- masked write through a reference: `t[mask] = vals` (`none` = masked out) -/
def Heap.writeT (h : Heap R) (t : TRef) (vals : List (Option (Pt R))) : Heap R :=
  (t.idx.zip vals).foldl (fun h kv => match kv.2 with
    | some v => h.setCell t.loc kv.1 v
    | none => h) h

/-- fresh dict -/
def Heap.allocD (h : Heap R) (d : List (Key × TRef)) : Heap R × Nat :=
  ({ h with dicts := h.dicts ++ [d] }, h.dicts.length)

/-- `d[k] = t` on the dict stored at `d` -/
def Heap.setKey (h : Heap R) (d : Nat) (k : Key) (t : TRef) : Heap R :=
  { h with dicts := h.dicts.modify d (assocSet k t) }

/-- values of a stored dict -/
def Heap.readD (h : Heap R) (d : Nat) : DictV R :=
  (h.dicts.getD d []).map fun e => (e.1, h.readT e.2)

inductive Variant | asIs | repaired
  deriving DecidableEq, Repr

variable [Add R] [Sub R] [Mul R] [Div R] [LT R] [DecidableLT R] [OfNat R 1] [OfNat R 2]
  [DecidableEq R]

/-- `generate_centroids(points, anchor_ind)` on a tensor of `nInst × nNodes` points.
* `anchor_ind is None`: `full_like(NaN)` (fresh), every row missing, all midpoints written into it.
* otherwise `centroids = points[..., anchor_ind, :]` — a **view**; rows whose anchor is missing
  get the bbox midpoint by `centroids[missing] = …`.
  `asIs`: that write goes through the view into `points`.  `repaired`: the slice is cloned
  first, so the write hits a private tensor (collapsed here into one allocation of the final
  values). -/
def genCentroids (v : Variant) (h : Heap R) (t : TRef) (nInst nNodes : Nat) (anchor : Option Nat) :
    Heap R × TRef :=
  let insts := chunks nNodes nInst (h.readT t)
  let mids := insts.map bboxMid
  match anchor with
  | none => h.allocT mids
  | some a =>
    let view := t.slice ((List.range nInst).map fun i => i * nNodes + a)
    let cur := h.readT view
    match v with
    | .asIs =>
      (h.writeT view (List.zipWith (fun c m => if c.missing then some m else none) cur mids), view)
    | .repaired =>
      h.allocT (List.zipWith (fun c m => if c.missing then m else c) cur mids)

/-- `instances * eff_scale` (always a new tensor) then `apply_resizer` (returns its argument
itself when `scale == 1.0`) -/
def prepT (h : Heap R) (t : TRef) (eff scale : R) : Heap R × TRef :=
  let a := h.allocT ((h.readT t).map (Pt.scale eff))
  if scale = 1 then a else a.1.allocT ((a.1.readT a.2).map (Pt.scale scale))

/-- `len(first row)` -/
def headLen {α} (rows : List (List α)) : Nat := (rows.head?.map List.length).getD 0

/-- one iteration of `_fill_cache` of the frame-based classes; returns the cached dict's id -/
def fillFrame (v : Variant) (cfg : Cfg R) (cast : Nat → R) (maxInst : Nat) (h : Heap R) (f : Frame R) :
    Heap R × (Nat × SMeta) :=
  let pi := processInsts cfg.userOnly maxInst f
  let a0 := h.allocT pi.1.flatten                              -- from_numpy / cat: fresh
  let a1 := prepT a0.1 a0.2 (cfg.eff cast f) cfg.scale
  let m : SMeta := ⟨pi.2, f.frameIdx, f.videoIdx, f.H, f.W⟩
  match cfg.kind with
  | .centroid =>
    let a2 := genCentroids v a1.1 a1.2 pi.1.length (headLen pi.1) cfg.anchor
    let a3 := a2.1.allocD [(Key.instances, a1.2), (Key.centroids, a2.2)]
    let a4 := a3.1.allocD (a3.1.dicts.getD a3.2 [])           -- `sample.copy()`
    (a4.1, (a4.2, m))
  | _ =>
    let a3 := a1.1.allocD [(Key.instances, a1.2)]
    let a4 := a3.1.allocD (a3.1.dicts.getD a3.2 [])
    (a4.1, (a4.2, m))

/-- one iteration of `CenteredInstanceDataset._fill_cache` -/
def fillCentered (v : Variant) (cfg : Cfg R) (cast : Nat → R) (h : Heap R) (f : Frame R) (j : Nat) :
    Heap R × (Nat × SMeta) :=
  let fl := f.filtered cfg.userOnly
  let nNodes := ((fl.map (fun i => i.pts.length)).getD j 0)
  let a0 := h.allocT (fl.map (·.pts)).flatten                  -- np.stack of every instance
  let tj := a0.2.slice ((List.range nNodes).map fun k => j * nNodes + k)   -- instances[:, inst_idx]
  let a1 := prepT a0.1 tj (cfg.eff cast f) cfg.scale
  let a2 := genCentroids v a1.1 a1.2 1 nNodes cfg.anchor
  -- generate_crops(image, instances[0], centroids[0], crop_size)
  let bb := centeredBbox cast ((a2.1.readT a2.2).getD 0 Pt.nan) (cropExtra cfg.cropH) (cropExtra cfg.cropW)
  let a3 := a2.1.allocT bb
  let tl := bb.getD 0 Pt.nan
  let a4 := a3.1.allocT ((a3.1.readT a1.2).map (·.sub tl))
  let a5 := a4.1.allocT ((a4.1.readT a2.2).map (·.sub tl))
  let a6 := a5.1.allocD [(Key.bbox, a3.2), (Key.instance, a4.2), (Key.centroid, a5.2)]
  let a7 := a6.1.allocD (a6.1.dicts.getD a6.2 [])
  (a7.1, (a7.2, ⟨fl.length, f.frameIdx, f.videoIdx, f.H, f.W⟩))

/-- dataset state: heap + `self.cache` (index ↦ dict id, metadata) -/
structure DS (R : Type) where
  heap : Heap R
  cache : List (Nat × SMeta)

/-- the `_fill_cache` loop: one cache entry per item (an item whose frame does not exist is
skipped — never happens, index lists only hold valid indices) -/
def buildFold {ι} (xs : List ι) (step : Heap R → ι → Option (Heap R × (Nat × SMeta))) (ds : DS R) : DS R :=
  xs.foldl (fun ds x => match step ds.heap x with
    | some r => ⟨r.1, ds.cache ++ [r.2]⟩
    | none => ds) ds

/-- `__init__` + `_fill_cache` -/
def build (v : Variant) (cfg : Cfg R) (cast : Nat → R) (fs : List (Frame R)) : DS R :=
  match cfg.kind with
  | .centered =>
    buildFold (instanceIdxList cfg.userOnly fs)
      (fun h ij => (fs[ij.1]?).map fun f => fillCentered v cfg cast h f ij.2) ⟨Heap.empty, []⟩
  | _ =>
    buildFold (lfIdxList cfg.userOnly fs)
      (fun h i => (fs[i]?).map fun f => fillFrame v cfg cast (cfg.maxInst fs) h f) ⟨Heap.empty, []⟩

/-- one rebinding: evaluate `f` on the current values of the (copied) dict, allocate, bind -/
def stepH (h : Heap R) (d : Nat) (s : Step R) : Heap R :=
  let (h1, t) := h.allocT (s.2 (h.readD d))
  h1.setKey d s.1 t

/-- the `__getitem__` engine: `sample = self.cache[index].copy()`, then the rebinding steps;
returns the new heap and the id of the returned dict -/
def getItemD (steps : List (Step R)) (h : Heap R) (src : Nat) : Heap R × Nat :=
  let (h1, d) := h.allocD (h.dicts.getD src [])
  (steps.foldl (fun h s => stepH h d s) h1, d)

/-- `ds[i]`: new state and the returned sample (values read out), `none` = `KeyError` -/
def getItem (steps : List (Step R)) (ds : DS R) (i : Nat) : DS R × Option (DictV R × SMeta) :=
  match ds.cache[i]? with
  | none => (ds, none)
  | some (src, m) =>
    let r := getItemD steps ds.heap src
    (⟨r.1, ds.cache⟩, some (r.1.readD r.2, m))

/-- a whole call sequence -/
def runGets (steps : List (Step R)) (ds : DS R) (is : List Nat) : DS R :=
  is.foldl (fun ds i => (getItem steps ds i).1) ds

/-- the variant of the engine a careless edit would produce (`sample = self.cache[index]`,
no `.copy()`): used only for a counterexample -/
def getItemNoCopy (steps : List (Step R)) (ds : DS R) (i : Nat) : DS R × Option (DictV R × SMeta) :=
  match ds.cache[i]? with
  | none => (ds, none)
  | some (src, m) =>
    let h := steps.foldl (fun h s => stepH h src s) ds.heap
    (⟨h, ds.cache⟩, some (h.readD src, m))

end HeapSec
/-! ## 4. The `.npz` chunk directory (`np_chunks=True`)

A directory maps `sample_<i>.npz` to a stored sample.  `_fill_cache` of a dataset that writes its
chunks (`use_existing_chunks=False`) does `np.savez_compressed(f"{path}/sample_{idx}.npz", …)` for
every index — an unconditional overwrite; files with other indices are left as they are. -/
section Chunks
variable {α : Type}

abbrev ChunkDir (α : Type) := Nat → Option α

/-- `_fill_cache`, chunk branch, as coded: every own index is (over)written -/
def writeChunks (dir : ChunkDir α) (ss : List α) : ChunkDir α :=
  fun i => match ss[i]? with
    | some s => some s
    | none => dir i

/-- the variant that keeps a file which already exists (seed C11-r4m1); only for a counterexample -/
def writeChunksKeep (dir : ChunkDir α) (ss : List α) : ChunkDir α :=
  fun i => match dir i with
    | some old => some old
    | none => ss[i]?

/-- `np.load(f"{path}/sample_{i}.npz")` for an index of the dataset -/
def readChunk (dir : ChunkDir α) (i : Nat) : Option α := dir i

end Chunks

end SleapVerif.Datasets
