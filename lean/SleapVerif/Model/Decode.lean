/-!
# Decode chains of single-instance and top-down inference, and the batch plumbing (core Lean only)

Mirrors, as coded:

* `sleap_nn/data/resizing.py`: `apply_sizematcher` (shape and `eff_scale`), `resize_image`
  (`int(size * scale)`), `find_padding_for_stride`;
* `sleap_nn/inference/predictors.py`: `Predictor._predict_generator` (size matching, the
  `preprocess` switch, batching of the parallel lists `imgs / fidxs / vidxs / eff_scales`),
  `SingleInstancePredictor.make_pipeline` / `TopDownPredictor.make_pipeline` (`preprocess` per
  provider), the consumer's `pred_instance_peaks + instance_bbox[…, 0, :]` (line 870);
* `sleap_nn/inference/single_instance.py`: `peaks * os / input_scale / eff_scale`;
* `sleap_nn/inference/topdown.py`: `CentroidCrop.forward` (resize, pad, `peaks * os / input_scale`,
  per-sample split of the flat peak list by sample index, batch-wide `max_instances`, `topk`,
  NaN padding, `* precrop_resize`), `_generate_crops` (skip all-NaN samples, drop NaN rows,
  centred bounding boxes, replication of `frame_idx / video_idx / eff_scale` per crop),
  `FindInstancePeaks.forward` (`peaks * os / input_scale / eff_scale`, `bbox / input_scale /
  eff_scale`), `TopDownInferenceModel.forward`;
* `sleap_nn/data/instance_cropping.py`: `make_centered_bboxes` (`± ½` corner offsets).

The *network* is the ideal one (C01): in the channel of a visible keypoint the maximum sits on the
grid cell nearest to the keypoint's nominal position in the tensor the network receives
(`nearest`, first minimiser of the squared distance — what `argmax` of the separable ideal map is);
an invisible keypoint gives an all-zero channel, hence `none` after thresholding.  Integral
refinement enters as an explicit offset `δ` (in grid cells) added to the rough peak.

Scales are `num/den` pairs of naturals so that `int(size * scale)` is exact; every real-valued
quantity lives in an arbitrary carrier `R` (run at `Rat` by the driver).
-/
namespace SleapVerif.Decode

/-! ## integer geometry -/

/-- a rational scale factor `num/den` -/
structure Scale where
  num : Nat
  den : Nat
deriving DecidableEq, Repr

/-- `2^e` for an integer exponent -/
def pow2 (e : Int) : Rat :=
  if 0 ≤ e then ((2 ^ e.toNat : Nat) : Rat) else 1 / ((2 ^ (-e).toNat : Nat) : Rat)

/-- round to the nearest integer, ties to even -/
def roundHalfEven (x : Rat) : Int :=
  let f := x.floor
  let r := x - (f : Rat)
  if r < 1 / 2 then f else if 1 / 2 < r then f + 1 else if f % 2 = 0 then f else f + 1

/-- The IEEE-754 binary64 value nearest to a positive rational (round to nearest, ties to even; same
construction as `roundF64` in `Model/Grouping.lean`, copied so that this file stays self-contained). -/
def roundF64 (x : Rat) : Rat :=
  if x ≤ 0 then x
  else
    let a : Int := x.num.natAbs.log2
    let b : Int := x.den.log2
    let e0 : Int := a - b - 52
    let e1 := if x / pow2 e0 < pow2 52 then e0 - 1 else e0
    let e2 := if pow2 53 ≤ x / pow2 e1 then e1 + 1 else e1
    let e := if e2 < -1074 then -1074 else e2
    (roundHalfEven (x / pow2 e) : Rat) * pow2 e

/-- `int(size * scale)` of `resize_image`: the product is taken in float64 (`scale` = `num/den` is the
exact value of the double; `int(180 * 0.7) = 125`, `int(90 * 0.6) = 54` although `90·0.6 < 54` exactly) -/
def resizeLen (n : Nat) (s : Scale) : Nat :=
  (roundF64 ((n : Rat) * (mkRat s.num s.den))).floor.toNat

/-- `size + find_padding_for_stride(size, max_stride)`; `apply_pad_to_stride` is the identity for
`max_stride ≤ 1` -/
def padTo (n ms : Nat) : Nat := if ms ≤ 1 then n else n + (ms - n % ms) % ms

/-- `len(arange(0, size, stride))` -/
def gridLen (size stride : Nat) : Nat := (size + stride - 1) / stride

/-- target shape of `apply_sizematcher` -/
def matchedShape (H W : Nat) (maxH maxW : Option Nat) : Nat × Nat := (maxH.getD H, maxW.getD W)

/-- `find_global_peaks_rough`: the flat argmax index of an `h×w` map is unravelled to `(x, y) =
(idx % w, idx / w)` — on integers (HEAD: int64 tensors), exact for every map size -/
def unravel (w idx : Nat) : Nat × Nat := (idx % w, idx / w)

inductive Provider | labels | video
deriving DecidableEq, Repr

/-- regression record (F-C02, BEFORE 569dda2): `SingleInstancePredictor.make_pipeline` set
`preprocess = False` for `LabelsReader`, `True` for `VideoReader` -/
def preprocessAsIs : Provider → Bool
  | .labels => false
  | .video => true

/-- HEAD (since 569dda2): both providers preprocess -/
def preprocessFixed : Provider → Bool := fun _ => true

/-- `TopDownPredictor.make_pipeline`: `preprocess = False` for both providers (`CentroidCrop`
resizes and pads itself) -/
def preprocessTopDown : Provider → Bool := fun _ => false

section real
variable {R : Type} [Add R] [Sub R] [Mul R] [Div R] [LT R] [DecidableLT R]

def Scale.toR (cast : Nat → R) (s : Scale) : R := cast s.num / cast s.den

/-- `eff_scale` of `apply_sizematcher`: 1 when the size already matches, else the smaller of the
two ratios (`hratio > wratio ? wratio : hratio`) -/
def effScale (cast : Nat → R) (H W : Nat) (maxH maxW : Option Nat) : R :=
  let mh := maxH.getD H
  let mw := maxW.getD W
  if H ≠ mh ∨ W ≠ mw then
    let hr := cast mh / cast H
    let wr := cast mw / cast W
    if wr < hr then wr else hr
  else cast 1

def dist2 (a b : R) : R := (a - b) * (a - b)

/-- index in `0..m` of the grid coordinate `k·os` nearest to `q` (first minimiser): the argmax of
one axis of the ideal confidence map over a grid of `m+1` cells -/
def nearest (cast : Nat → R) (os : Nat) (q : R) : Nat → Nat
  | 0 => 0
  | k + 1 =>
    let b := nearest cast os q k
    if dist2 (cast ((k + 1) * os)) q < dist2 (cast (b * os)) q then k + 1 else b

/-- margin of the discrete decision: squared distance to the runner-up minus squared distance to
the winner (0 on a knife edge); `none` for a one-cell grid -/
def nearestMargin (cast : Nat → R) (os : Nat) (q : R) (m : Nat) : Option R :=
  let w := nearest cast os q m
  let others := (List.range (m + 1)).filter (· ≠ w)
  match others with
  | [] => none
  | o :: os' =>
    let best := os'.foldl (fun acc k => if dist2 (cast (k * os)) q < acc then dist2 (cast (k * os)) q else acc)
      (dist2 (cast (o * os)) q)
    some (best - dist2 (cast (w * os)) q)

/-! ## single instance -/

structure SingleCfg where
  scale : Scale
  os : Nat
  maxStride : Nat
  maxH : Option Nat
  maxW : Option Nat
deriving Repr

/-- shape of the tensor the network receives for an `H×W` frame -/
def singleInputShape (pre : Bool) (c : SingleCfg) (H W : Nat) : Nat × Nat :=
  let (mh, mw) := matchedShape H W c.maxH c.maxW
  if pre then (padTo (resizeLen mh c.scale) c.maxStride, padTo (resizeLen mw c.scale) c.maxStride)
  else (mh, mw)

/-- factor by which the frame content was actually scaled on its way to the network -/
def singleActual (cast : Nat → R) (pre : Bool) (c : SingleCfg) (H W : Nat) : R :=
  if pre then effScale cast H W c.maxH c.maxW * c.scale.toR cast else effScale cast H W c.maxH c.maxW

/-- `encode`: where an original-image coordinate sits in the network input -/
def encode (a : R) (x : R) : R := x * a

/-- `SingleInstanceInferenceModel.forward`: `peak * os / input_scale / eff_scale`; `g` is the peak
in grid cells (rough cell + refinement offset) -/
def singleDecode1 (cast : Nat → R) (c : SingleCfg) (eff : R) (g : R) : R :=
  g * cast c.os / c.scale.toR cast / eff

/-- one coordinate of one visible keypoint through the whole single-instance chain; `n` = number
of grid cells along that axis, `δ` = refinement offset in cells -/
def singleCoord (cast : Nat → R) (c : SingleCfg) (a eff : R) (n : Nat) (x δ : R) : R :=
  singleDecode1 cast c eff (cast (nearest cast c.os (encode a x) (n - 1)) + δ)

/-- a keypoint (`none` = invisible) through the single-instance pipeline for an `H×W` frame -/
def singlePoint (cast : Nat → R) (pre : Bool) (c : SingleCfg) (H W : Nat)
    (p : Option (R × R)) (δ : R × R) : Option (R × R) :=
  let (hin, win) := singleInputShape pre c H W
  let a := singleActual cast pre c H W
  let eff := effScale cast H W c.maxH c.maxW
  p.map fun (x, y) =>
    (singleCoord cast c a eff (gridLen win c.os) x δ.1, singleCoord cast c a eff (gridLen hin c.os) y δ.2)

/-- peak value reported for a keypoint: `none` ↦ 0 (`max_values[below_threshold] = 0`) -/
def valueOf {α : Type} (zero : R) (v : R) (p : Option α) : R := if p.isSome then v else zero

/-! ## top-down -/

structure TopDownCfg where
  sc : Scale
  osC : Nat
  msC : Nat
  si : Scale
  osI : Nat
  msI : Nat
  cropH : Nat
  cropW : Nat
  maxH : Option Nat
  maxW : Option Nat
deriving Repr

/-- shape of the tensor the centroid network receives -/
def centroidInputShape (c : TopDownCfg) (H W : Nat) : Nat × Nat :=
  let (mh, mw) := matchedShape H W c.maxH c.maxW
  (padTo (resizeLen mh c.sc) c.msC, padTo (resizeLen mw c.sc) c.msC)

/-- one coordinate of the centroid estimate in the coordinates of the size-matched image:
`(cell + δ) * os_c / s_c`; `x` is the centroid in original coordinates -/
def centroidCoord (cast : Nat → R) (c : TopDownCfg) (eff : R) (n : Nat) (x δ : R) : R :=
  (cast (nearest cast c.osC (x * (eff * c.sc.toR cast)) (n - 1)) + δ) * cast c.osC / c.sc.toR cast

/-- top-left corner coordinate of the crop: `ĉ * precrop_resize - size/2 + ½`
(`make_centered_bboxes`), `precrop_resize` = instance-stage scale -/
def cropTL (cast : Nat → R) (c : TopDownCfg) (size : Nat) (chat : R) : R :=
  chat * c.si.toR cast - cast size / cast 2 + cast 1 / cast 2

/-- shape of the tensor the centred-instance network receives -/
def instanceInputShape (c : TopDownCfg) : Nat × Nat := (padTo c.cropH c.msI, padTo c.cropW c.msI)

/-- `FindInstancePeaks.forward` + consumer: `(cell + δ) * os_i / s_i / eff + tl / s_i / eff` for a
keypoint at original coordinate `x` seen in a crop whose top-left coordinate is `tl` -/
def instanceCoord (cast : Nat → R) (c : TopDownCfg) (eff tl : R) (n : Nat) (x δ : R) : R :=
  (cast (nearest cast c.osI (x * (eff * c.si.toR cast) - tl) (n - 1)) + δ) * cast c.osI
      / c.si.toR cast / eff
    + tl / c.si.toR cast / eff

structure AnimalOut (R : Type) where
  tl : R × R                      -- crop top-left in crop-stage coordinates
  bboxTL : R × R                  -- `instance_bbox[0]` as returned (÷ s_i ÷ eff)
  pts : List (Option (R × R))     -- final points (peak + bbox top-left)

/-- one animal through centroid → crop → centred instance.  `cen` centroid (original coords),
`δc` centroid refinement offset, `pts`/`δs` keypoints and their refinement offsets -/
def topdownAnimal (cast : Nat → R) (c : TopDownCfg) (H W : Nat) (cen δc : R × R)
    (pts : List (Option (R × R) × (R × R))) : AnimalOut R :=
  let eff := effScale cast H W c.maxH c.maxW
  let (hc, wc) := centroidInputShape c H W
  let cx := centroidCoord cast c eff (gridLen wc c.osC) cen.1 δc.1
  let cy := centroidCoord cast c eff (gridLen hc c.osC) cen.2 δc.2
  let tlx := cropTL cast c c.cropW cx
  let tly := cropTL cast c c.cropH cy
  let (hi, wi) := instanceInputShape c
  { tl := (tlx, tly)
    bboxTL := (tlx / c.si.toR cast / eff, tly / c.si.toR cast / eff)
    pts := pts.map fun (p, δ) => p.map fun (x, y) =>
      (instanceCoord cast c eff tlx (gridLen wi c.osI) x δ.1,
       instanceCoord cast c eff tly (gridLen hi c.osI) y δ.2) }

/-- "the crop contains the keypoint, whatever the centroid stage did within its tolerance", one axis:
with the true centroid at `cn` (size-matched coordinates), any estimate within `e` of it, crop side
`size` and `n` grid cells, the keypoint `x` stays in the crop's grid range `[0, (n−1)·os + os/2]`.
Decided with `<` only (runs at `Rat` in the driver; `harness/c02.py:robust_inside` is its Python twin). -/
def robustAxis (cast : Nat → R) (c : TopDownCfg) (size n : Nat) (eff e cn x : R) : Bool :=
  let si := c.si.toR cast
  let p := x * (eff * si)
  let half := cast size / cast 2 - cast 1 / cast 2
  let qmax := cast ((n - 1) * c.osI) + cast c.osI / cast 2
  !decide (p - ((cn + e) * si - half) < p - p) && !decide (qmax < p - ((cn - e) * si - half))

/-- is the centroid's nominal position inside the centroid grid's range (one axis)? -/
def centroidInRange (cast : Nat → R) (c : TopDownCfg) (eff : R) (n : Nat) (cen : R) : Bool :=
  let q := cen * (eff * c.sc.toR cast)
  !decide (q < q - q) && !decide (cast ((n - 1) * c.osC) + cast c.osC / cast 2 < q)

/-! ### top-down with ground-truth centroids (centred-instance model only) -/

/-- HEAD: `CentroidCrop(use_gt_centroids=True)` resizes by `precrop_resize` and scales the (exact,
ground-truth) centroid `cen·eff` before cropping, so the crop top-left is `cropTL (cen·eff)` and the
rest is the ordinary instance stage. -/
def gtcCoord (cast : Nat → R) (c : TopDownCfg) (eff : R) (size n : Nat) (cen x δ : R) : R :=
  instanceCoord cast c eff (cropTL cast c size (cen * eff)) n x δ

/-- regression record (before `fixes/C02-gt-centroids-precrop-resize.patch`): the crop was taken from
the UN-resized image around the un-scaled centroid (`tl₀ = cen·eff − size/2 + ½`, content at scale
`eff`), while the decode still divided peak and bbox by the instance scale. -/
def gtcCoordAsIs (cast : Nat → R) (c : TopDownCfg) (eff : R) (size n : Nat) (cen x δ : R) : R :=
  let tl0 := cen * eff - cast size / cast 2 + cast 1 / cast 2
  (cast (nearest cast c.osI (x * eff - tl0) (n - 1)) + δ) * cast c.osI / c.si.toR cast / eff
    + tl0 / c.si.toR cast / eff

end real

/-! ## batch plumbing (C12) -/

/-- a centroid-stage detection: payload (`pt`) and the confidence value used by `topk` -/
structure Peak (α V : Type) where
  pt : α
  val : V
deriving DecidableEq, Repr

/-- what the pipeline holds for one frame: its indices, its `eff_scale`, and the detections the
(sample-wise) centroid network + `find_local_peaks` produce for its image, in row-major order -/
structure Frame (α V ι E : Type) where
  fidx : ι
  vidx : ι
  eff : E
  peaks : List (Peak α V)
deriving DecidableEq, Repr

section plumbing
variable {α V ι E : Type} [LT V] [DecidableLT V]

/-- `torch.topk(vals, k)`: the `k` largest, in descending order of value -/
def sortDesc (l : List (Peak α V)) : List (Peak α V) :=
  l.mergeSort (fun a b => !decide (a.val < b.val))

def topk (k : Nat) (l : List (Peak α V)) : List (Peak α V) := (sortDesc l).take k
def dropped (k : Nat) (l : List (Peak α V)) : List (Peak α V) := (sortDesc l).drop k

/-- `find_local_peaks` on a batch: one flat list, each peak tagged with its sample index, samples
in order -/
def flatFrom (n : Nat) : List (Frame α V ι E) → List (Nat × Peak α V)
  | [] => []
  | f :: fs => f.peaks.map (fun p => (n, p)) ++ flatFrom (n + 1) fs

/-- `max(num_instances.values())` -/
def maxCount (batch : List (Frame α V ι E)) : Nat := batch.foldl (fun m f => max m f.peaks.length) 0

/-- one iteration of `for b in range(batch)`: select by sample index, `topk` when over the limit,
else pad with NaN rows (`none`) up to `k` -/
def perSample (k : Nat) (flat : List (Nat × Peak α V)) (b : Nat) : List (Option (Peak α V)) :=
  let cur := (flat.filter (fun e => e.1 == b)).map (·.2)
  if cur.length > k then (topk k cur).map some
  else cur.map some ++ List.replicate (k - cur.length) none

/-- `refined_peaks_batched` of `CentroidCrop.forward`; `none` = "no peak in the whole batch"
(the method returns `None`) -/
def batchedPeaks (mi : Option Nat) (batch : List (Frame α V ι E)) : Option (List (List (Option (Peak α V)))) :=
  let flat := flatFrom 0 batch
  if flat.isEmpty then none
  else
    let k := mi.getD (maxCount batch)
    some ((List.range batch.length).map (perSample k flat))

/-- an output row: the indices and `eff_scale` replicated for the crop, and the centroid peak -/
structure Rec (α V ι E : Type) where
  fidx : ι
  vidx : ι
  eff : E
  peak : Peak α V
deriving DecidableEq, Repr

/-- `_generate_crops`: zip the five parallel lists; skip a sample whose rows are all NaN; drop NaN
rows; replicate the frame's entries once per remaining crop -/
def generateCrops (batched : List (List (Option (Peak α V)))) (fidxs vidxs : List ι) (effs : List E) :
    List (List (Rec α V ι E)) :=
  (batched.zip (fidxs.zip (vidxs.zip effs))).filterMap fun (ps, fi, vi, e) =>
    let live := ps.filterMap id
    if live.isEmpty then none
    else
      let n := live.length
      some (((List.replicate n fi).zip ((List.replicate n vi).zip ((List.replicate n e).zip live))).map
        fun (a, b, c, p) => { fidx := a, vidx := b, eff := c, peak := p })

/-- `CentroidCrop.forward(return_crops=True)` on the batch that `_predict_generator` assembled
from parallel lists: the list of crop groups (one per frame that has a detection) -/
def centroidCrop (mi : Option Nat) (batch : List (Frame α V ι E)) : List (List (Rec α V ι E)) :=
  match batchedPeaks mi batch with
  | none => []
  | some bp => generateCrops bp (batch.map (·.fidx)) (batch.map (·.vidx)) (batch.map (·.eff))

/-- what frame `f` contributes on its own: its peaks (the `k` best when over the limit) tagged with
its own indices; nothing when it has no detection -/
def frameGroup (mi : Option Nat) (f : Frame α V ι E) : Option (List (Rec α V ι E)) :=
  let kept := match mi with
    | some k => if f.peaks.length > k then topk k f.peaks else f.peaks
    | none => f.peaks
  if kept.isEmpty then none
  else some (kept.map fun p => { fidx := f.fidx, vidx := f.vidx, eff := f.eff, peak := p })

/-- `TopDownInferenceModel.forward`: the instance stage `inst` is applied to every crop of every
group (crop-wise network); one output dictionary per group -/
def topdownForward {β : Type} (inst : Rec α V ι E → β) (mi : Option Nat) (batch : List (Frame α V ι E)) :
    List (List β) :=
  (centroidCrop mi batch).map (·.map inst)

/-! ### bottom-up -/

/-- `BottomUpInferenceModel.forward`: `find_local_peaks` on the batch gives one flat list tagged by
sample index; `_generate_cms_peaks` splits it again (`sample_inds == b` for `b in range(batch)`);
`PAFScorer.predict` groups each sample's peaks on their own (`group`, sample-wise); row `idx` is
decoded with `eff_scale[idx]` (`decode`, which also carries the `/ input_scale`). -/
def bottomupForward {β γ : Type} (group : List (Peak α V) → β) (decode : E → β → γ)
    (batch : List (Frame α V ι E)) : List γ :=
  let flat := flatFrom 0 batch
  let per := (List.range batch.length).map fun b => group ((flat.filter (fun e => e.1 == b)).map (·.2))
  (per.zip (batch.map (·.eff))).map fun (g, e) => decode e g

/-- the consumer (`_make_labeled_frames_from_generator`) zips `video_idx`, `frame_idx` and the
per-sample outputs -/
def bottomupRecords {β γ : Type} (group : List (Peak α V) → β) (decode : E → β → γ)
    (batch : List (Frame α V ι E)) : List (ι × ι × γ) :=
  (batch.map (·.fidx)).zip ((batch.map (·.vidx)).zip (bottomupForward group decode batch))

/-- the `max_instances` filter of the bottom-up consumer: `sorted(key=score, reverse=True)[:k]`
(stable), nothing when unset; instances travel as `Peak` (payload, score) -/
def keepTop (mi : Option Nat) (l : List (Peak α V)) : List (Peak α V) :=
  match mi with
  | none => l
  | some k => topk k l

end plumbing

/-! ## network mode (BatchNorm / Dropout): the network as a function of (weights, mode, batch statistics, frame) -/

inductive Mode | eval | train
deriving DecidableEq, Repr

inductive Kind | single | topdown | bottomup
deriving DecidableEq, Repr

/-- A network with mode-dependent layers.  `run m w σ f`: output for frame `f` under mode `m`, with
weights / running statistics `w`, when the batch it shares has statistics `σ` (BatchNorm in train
mode normalises with `σ`; Dropout noise is folded into `σ` too).  `update w σ`: what a train-mode
forward does to the running statistics.  `eval_indep`: the law of BatchNorm/Dropout — in eval mode
the batch plays no role. -/
structure Net (W S F O : Type) where
  run : Mode → W → S → F → O
  update : W → S → W
  eval_indep : ∀ w s s' f, run Mode.eval w s f = run Mode.eval w s' f

/-- Does the inference wrapper switch the network to eval mode on every forward?  At HEAD (since
dc60a97) all three do: `TopDownInferenceModel.forward` calls `centroid_crop.eval()` /
`instance_peaks.eval()`, `SingleInstanceInferenceModel.forward` and `BottomUpInferenceModel.forward`
call `self.torch_model.eval()`. -/
def forcesEval : Kind → Bool := fun _ => true

/-- regression record (F-C12, before dc60a97): single-instance and bottom-up called the network in
whatever mode it was left in -/
def forcesEvalAsIs : Kind → Bool
  | .topdown => true
  | .single => false
  | .bottomup => false

/-- old name of `forcesEval` -/
abbrev forcesEvalFixed : Kind → Bool := forcesEval

/-- mode the network actually runs in: the caller left it in `cur` (its call history) -/
def modeOf (force : Bool) (cur : Mode) : Mode := if force then Mode.eval else cur

/-- one forward of a wrapper over a batch: per-frame outputs and the weights afterwards -/
def netForward {W S F O : Type} (net : Net W S F O) (stats : List F → S) (force : Bool) (cur : Mode) (w : W)
    (batch : List F) : List O × W :=
  let m := modeOf force cur
  (batch.map (net.run m w (stats batch)),
   match m with
   | Mode.eval => w
   | Mode.train => net.update w (stats batch))

/-! ## top-down with ground-truth peaks (`FindInstancePeaksGroundTruth.forward`) -/

/-- The parse loop: `peaks_list` is ONE flat list of the matched ground-truth instances of the whole
batch (batch-major); frame `i` takes `counts[i]` of them starting at the running offset `parsed`, is
padded with NaN rows (`none`) to `max_inst` or truncated to it, and advances the offset by its count.
A frame without a match (`i not in matched_batch_inds`) gets `max_inst` NaN rows and does not advance
the offset.  `ms` = the per-frame matched instances (only their lengths — `bincount` — are used
here), `flat` = `peaks_list`. -/
def gtParse {τ : Type} (maxInst : Nat) : Nat → List (List τ) → List τ → List (List (Option τ))
  | _, [], _ => []
  | parsed, m :: ms, flat =>
    let c := m.length
    if c = 0 then List.replicate maxInst none :: gtParse maxInst parsed ms flat
    else
      let cur := (flat.drop parsed).take c
      (if c < maxInst then cur.map some ++ List.replicate (maxInst - c) none
       else (cur.take maxInst).map some) :: gtParse maxInst (parsed + c) ms flat

/-- the forward: flat list = concatenation of the per-frame matches -/
def gtPeaks {τ : Type} (maxInst : Nat) (ms : List (List τ)) : List (List (Option τ)) :=
  gtParse maxInst 0 ms ms.flatten

/-- what a frame gets on its own -/
def gtPad {τ : Type} (maxInst : Nat) (m : List τ) : List (Option τ) :=
  if m.length < maxInst then m.map some ++ List.replicate (maxInst - m.length) none
  else (m.take maxInst).map some

/-- single-instance output rows as the consumer reads them: `frame_idx`, `video_idx` and the row of
peaks are three parallel per-batch sequences, zipped (`_make_labeled_frames_from_generator`) -/
def singleRecords {τ β ι : Type} (row : τ → β) (fidx vidx : τ → ι) (batch : List τ) : List (ι × ι × β) :=
  (batch.map fidx).zip ((batch.map vidx).zip (batch.map row))

/-- ground-truth-peaks output: the batch dictionary's `frame_idx` / `video_idx` next to the parsed rows;
a frame = (frame_idx, video_idx, its matched instances) -/
def gtRecords {τ ι : Type} (maxInst : Nat) (batch : List (ι × ι × List τ)) : List (ι × ι × List (Option τ)) :=
  (batch.map (·.1)).zip ((batch.map (·.2.1)).zip (gtPeaks maxInst (batch.map (·.2.2))))

/-- `_predict_generator`: read up to `B` frames per round until the sentinel -/
def chunksFuel {τ : Type} (B : Nat) : Nat → List τ → List (List τ)
  | 0, _ => []
  | fuel + 1, l =>
    match l with
    | [] => []
    | _ :: _ => l.take B :: chunksFuel B fuel (l.drop B)

def chunks {τ : Type} (B : Nat) (l : List τ) : List (List τ) := chunksFuel B l.length l

/-- the generator: every batch through the inference model, outputs concatenated -/
def predictGen {τ β : Type} (B : Nat) (forward : List τ → List β) (frames : List τ) : List β :=
  (chunks B frames).flatMap forward

/-- single-instance forward on a batch: one output dictionary whose rows are the frames' rows -/
def singleForward {τ β : Type} (row : τ → β) (batch : List τ) : List (List β) := [batch.map row]

end SleapVerif.Decode
